import QclibModel.Spec.Placement
import QclibModel.Proofs.SemLemmas
import Mathlib.Tactic.LinearCombination
/-
  C15 — `c.reverse.map G.inv` is a two-sided inverse of every well-formed gate list, over any
  `RotLaws` instance.  Gate level: every non-permutation gate is `applyMcu cs m t`; if `m' · m = 1`
  and `t` is not a control wire then `applyMcu cs m' t ∘ applyMcu cs m t = id`.
-/
namespace Qclib
open RotSem

section Laws
variable {Θ R : Type} [AddCommGroup Θ] [CommRing R] [RotSem Θ R] [RotLaws Θ R]

theorem cs_sq_add_sn_sq (a : Θ) : (cs a * cs a + sn a * sn a : R) = 1 := by
  have h := RotLaws.cs_add (R := R) a (-a)
  rw [add_neg_cancel, RotLaws.cs_zero, RotLaws.cs_neg, RotLaws.sn_neg] at h
  linear_combination -h

theorem ex_mul_neg (a : Θ) : (ex a * ex (-a) : R) = 1 := by
  rw [← RotLaws.ex_add, add_neg_cancel, RotLaws.ex_zero]

theorem ex_neg_mul (a : Θ) : (ex (-a) * ex a : R) = 1 := by
  rw [mul_comm, ex_mul_neg]

end Laws

section Mat
variable {R : Type} [CommRing R]

/-- `m' · m = 1`, entry by entry. -/
structure Mat2.LeftInv (m' m : Mat2 R) : Prop where
  h11 : m'.a * m.a + m'.b * m.c = 1
  h12 : m'.a * m.b + m'.b * m.d = 0
  h21 : m'.c * m.a + m'.d * m.c = 0
  h22 : m'.c * m.b + m'.d * m.d = 1

theorem ctrlOk_setBit (cs : List (Nat × Bool)) (b : Bits) (t : Nat) (v : Bool)
    (ht : ∀ cv ∈ cs, cv.1 ≠ t) : ctrlOk cs (setBit b t v) = ctrlOk cs b := by
  induction cs with
  | nil => rfl
  | cons cv cs ih =>
    simp only [ctrlOk, List.all_cons] at ih ⊢
    rw [setBit_ne b v (ht cv List.mem_cons_self), ih (fun c hc => ht c (List.mem_cons_of_mem _ hc))]

/-- A multi-controlled one-qubit gate whose target is not a control is undone by the gate with the
inverse matrix on the same controls. -/
theorem applyMcu_leftInv (cs : List (Nat × Bool)) (m' m : Mat2 R) (t : Nat)
    (ht : ∀ cv ∈ cs, cv.1 ≠ t) (h : Mat2.LeftInv m' m) (ψ : State R) :
    applyMcu cs m' t (applyMcu cs m t ψ) = ψ := by
  funext b
  simp only [applyMcu, ctrlOk_setBit cs b t _ ht, setBit_eq, setBit_setBit]
  cases hc : ctrlOk cs b
  · simp
  · cases hb : b t
    · have e : ψ b = ψ (setBit b t false) := by rw [setBit_self' b t false hb]
      simp only [if_true, Bool.false_eq_true, if_false, e]
      linear_combination ψ (setBit b t false) * h.h11 + ψ (setBit b t true) * h.h12
    · have e : ψ b = ψ (setBit b t true) := by rw [setBit_self' b t true hb]
      simp only [if_true, Bool.false_eq_true, if_false, e]
      linear_combination ψ (setBit b t false) * h.h21 + ψ (setBit b t true) * h.h22

theorem leftInv_X : Mat2.LeftInv (Mat2.X : Mat2 R) Mat2.X :=
  ⟨by simp [Mat2.X], by simp [Mat2.X], by simp [Mat2.X], by simp [Mat2.X]⟩

theorem leftInv_Z : Mat2.LeftInv (Mat2.Z : Mat2 R) Mat2.Z :=
  ⟨by simp [Mat2.Z], by simp [Mat2.Z], by simp [Mat2.Z], by simp [Mat2.Z]⟩

end Mat

section Gates
variable {Θ R : Type} [AddCommGroup Θ] [CommRing R] [RotSem Θ R] [RotLaws Θ R]

theorem leftInv_H : Mat2.LeftInv (matH Θ : Mat2 R) (matH Θ) := by
  have h := RotLaws.rh_sq (Θ := Θ) (R := R)
  refine ⟨?_, ?_, ?_, ?_⟩ <;> simp only [matH]
  · linear_combination h
  · ring
  · ring
  · linear_combination h

theorem leftInv_RY (θ : Θ) : Mat2.LeftInv (matRY (-θ) : Mat2 R) (matRY θ) := by
  have h := cs_sq_add_sn_sq (R := R) θ
  refine ⟨?_, ?_, ?_, ?_⟩ <;> simp only [matRY, RotLaws.cs_neg, RotLaws.sn_neg]
  · linear_combination h
  · ring
  · ring
  · linear_combination h

theorem leftInv_RZ (θ : Θ) : Mat2.LeftInv (matRZ (-θ) : Mat2 R) (matRZ θ) := by
  refine ⟨?_, ?_, ?_, ?_⟩ <;> simp only [matRZ, RotLaws.exb_eq, neg_neg]
  · linear_combination ex_mul_neg (R := R) θ
  · ring
  · ring
  · linear_combination ex_neg_mul (R := R) θ

theorem leftInv_P (θ : Θ) : Mat2.LeftInv (matP (-θ) : Mat2 R) (matP θ) := by
  have h := ex_neg_mul (R := R) θ
  refine ⟨?_, ?_, ?_, ?_⟩ <;> simp only [matP]
  · ring
  · ring
  · ring
  · linear_combination (ex (-θ) * ex θ + 1) * h

theorem leftInv_U (θ φ l : Θ) : Mat2.LeftInv (matU (-θ) (-l) (-φ) : Mat2 R) (matU θ φ l) := by
  have hc := cs_sq_add_sn_sq (R := R) θ
  have hφ := ex_neg_mul (R := R) φ
  have hl := ex_neg_mul (R := R) l
  refine ⟨?_, ?_, ?_, ?_⟩ <;> simp only [matU, RotLaws.cs_neg, RotLaws.sn_neg]
  · linear_combination hc + (sn θ * sn θ) * (ex (-φ) * ex φ + 1) * hφ
  · linear_combination (cs θ * sn θ * ex l * ex l) * (ex (-φ) * ex φ + 1) * hφ
  · linear_combination (cs θ * sn θ * ex (-l) * ex (-l)) * (ex (-φ) * ex φ + 1) * hφ
  · have hφl : (ex (-l) * ex (-l) * (ex (-φ) * ex (-φ)) * (ex φ * ex φ * (ex l * ex l)) : R) = 1 := by
      linear_combination (ex (-l) * ex l * (ex (-l) * ex l) * (ex (-φ) * ex φ + 1)) * hφ
        + (ex (-l) * ex l + 1) * hl
    linear_combination hc + (sn θ * sn θ) * (ex (-l) * ex l + 1) * hl + (cs θ * cs θ) * hφl

theorem Mat2.LeftInv.smul {m' m : Mat2 R} (h : Mat2.LeftInv m' m) (z' z : R) (hz : z' * z = 1) :
    Mat2.LeftInv (Mat2.smul z' m') (Mat2.smul z m) := by
  refine ⟨?_, ?_, ?_, ?_⟩ <;> simp only [Mat2.smul]
  · linear_combination (z' * z) * h.h11 + hz
  · linear_combination (z' * z) * h.h12
  · linear_combination (z' * z) * h.h21
  · linear_combination (z' * z) * h.h22 + hz

theorem ex_sq_neg_mul (θ : Θ) : (ex (-θ) * ex (-θ) * (ex θ * ex θ) : R) = 1 := by
  linear_combination (ex (-θ) * ex θ + 1) * ex_neg_mul (R := R) θ

theorem swapBits_swapBits (a c : Nat) (b : Bits) : swapBits a c (swapBits a c b) = b := by
  funext i
  simp only [swapBits]
  by_cases ha : i = a <;> by_cases hc : i = c <;> simp_all

theorem swapBits_other (a c q : Nat) (b : Bits) (ha : q ≠ a) (hc : q ≠ c) : swapBits a c b q = b q := by
  simp only [swapBits, if_neg ha, if_neg hc]

/-- `G.inv g` undoes `g` on every state, for every well-formed gate. -/
theorem denote_inv (g : G Θ) (hwf : g.wf = true) (ψ : State R) : denote g.inv (denote g ψ) = ψ := by
  cases g with
  | x q => exact applyMcu_leftInv [] _ _ q (by simp) leftInv_X ψ
  | h q => exact applyMcu_leftInv [] _ _ q (by simp) leftInv_H ψ
  | cx c t =>
    have hct : c ≠ t := by simpa [G.wf] using hwf
    exact applyMcu_leftInv [(c, true)] _ _ t (by simpa using hct) leftInv_X ψ
  | cz c t =>
    have hct : c ≠ t := by simpa [G.wf] using hwf
    exact applyMcu_leftInv [(c, true)] _ _ t (by simpa using hct) leftInv_Z ψ
  | ccx a b t =>
    have hab : a ≠ t ∧ b ≠ t := by simpa [G.wf] using hwf
    exact applyMcu_leftInv [(a, true), (b, true)] _ _ t (by simpa using hab) leftInv_X ψ
  | mcx cs t =>
    have hcs : t ∉ cs := by simpa [G.wf] using hwf
    refine applyMcu_leftInv (cs.map (fun c => (c, true))) _ _ t ?_ leftInv_X ψ
    intro cv hcv
    obtain ⟨c, hc, rfl⟩ := List.mem_map.mp hcv
    exact fun e => hcs (e ▸ hc)
  | ry θ q => exact applyMcu_leftInv [] _ _ q (by simp) (leftInv_RY θ) ψ
  | rz θ q => exact applyMcu_leftInv [] _ _ q (by simp) (leftInv_RZ θ) ψ
  | p θ q => exact applyMcu_leftInv [] _ _ q (by simp) (leftInv_P θ) ψ
  | cp θ c t =>
    have hct : c ≠ t := by simpa [G.wf] using hwf
    exact applyMcu_leftInv [(c, true)] _ _ t (by simpa using hct) (leftInv_P θ) ψ
  | u θ φ l q => exact applyMcu_leftInv [] _ _ q (by simp) (leftInv_U θ φ l) ψ
  | cu θ φ l γ c t =>
    have hct : c ≠ t := by simpa [G.wf] using hwf
    exact applyMcu_leftInv [(c, true)] _ _ t (by simpa using hct)
      ((leftInv_U θ φ l).smul _ _ (ex_sq_neg_mul γ)) ψ
  | swap a b =>
    funext w
    show ψ (swapBits a b (swapBits a b w)) = ψ w
    rw [swapBits_swapBits]
  | cswap c a b =>
    have hc : c ≠ a ∧ c ≠ b := by simpa [G.wf] using hwf
    funext w
    show ψ ((fun v => if v c then swapBits a b v else v) (if w c then swapBits a b w else w)) = ψ w
    by_cases h : w c = true
    · simp only [if_pos h, swapBits_other a b c w hc.1 hc.2, swapBits_swapBits]
    · simp only [if_neg h]
  | gphase θ =>
    funext w
    show ex (-θ) * ex (-θ) * (ex θ * ex θ * ψ w) = ψ w
    linear_combination ψ w * ex_sq_neg_mul (R := R) θ

theorem G.inv_inv (g : G Θ) : g.inv.inv = g := by
  cases g <;> simp only [G.inv, neg_neg]

theorem G.wf_inv (g : G Θ) : g.inv.wf = g.wf := by
  cases g <;> rfl

theorem Circ.inv_cons (g : G Θ) (c : Circ Θ) : Circ.inv (g :: c) = Circ.inv c ++ [g.inv] := by
  simp only [Circ.inv, List.reverse_cons, List.map_append, List.map_cons, List.map_nil]

theorem Circ.inv_inv (c : Circ Θ) : Circ.inv (Circ.inv c) = c := by
  simp only [Circ.inv, List.map_reverse, List.reverse_reverse, List.map_map]
  rw [show (G.inv ∘ G.inv : G Θ → G Θ) = id from funext G.inv_inv, List.map_id]

theorem Circ.wf_inv (c : Circ Θ) (h : ∀ g ∈ c, g.wf = true) : ∀ g ∈ Circ.inv c, g.wf = true := by
  intro g hg
  simp only [Circ.inv, List.mem_map, List.mem_reverse] at hg
  obtain ⟨g', hg', rfl⟩ := hg
  rw [G.wf_inv]
  exact h g' hg'

/-- The inverse circuit undoes the circuit. -/
theorem sem_inv_left (c : Circ Θ) (hwf : ∀ g ∈ c, g.wf = true) (ψ : State R) :
    sem (Circ.inv c) (sem c ψ) = ψ := by
  induction c generalizing ψ with
  | nil => rfl
  | cons g c ih =>
    rw [Circ.inv_cons, sem_append, sem_single]
    show denote g.inv (sem (Circ.inv c) (sem c (denote g ψ))) = ψ
    rw [ih (fun g' hg' => hwf g' (List.mem_cons_of_mem _ hg')), denote_inv g (hwf g List.mem_cons_self)]

/-- … and the circuit undoes the inverse circuit. -/
theorem sem_inv_right (c : Circ Θ) (hwf : ∀ g ∈ c, g.wf = true) (ψ : State R) :
    sem c (sem (Circ.inv c) ψ) = ψ := by
  have h := sem_inv_left (R := R) (Circ.inv c) (Circ.wf_inv c hwf) ψ
  rwa [Circ.inv_inv] at h

end Gates
end Qclib
