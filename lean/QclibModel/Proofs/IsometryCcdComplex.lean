import QclibModel.Proofs.IsometryCcdOrth
import Mathlib.Analysis.Real.Sqrt
import Mathlib.Data.Complex.Basic
/-
  C03 — column-by-column decomposition, part 5: the instance over `ℂ` with the exact Lemma-2
  chooser (`s = 1/‖(a,b)‖`, identity on the zero pair), i.e. `_unitary` in exact arithmetic.
  This shows that the hypotheses of `ccd_sweep_orth` (`Zeroing`, `Unitary`) are satisfiable together
  and gives the end-to-end statement for an isometry with orthonormal columns.
-/
namespace Qclib.Iso

open Complex

/-- `1/‖(a, b)‖` as a complex number. -/
noncomputable def cNormInv (a b : ℂ) : ℂ := ((Real.sqrt (normSq a + normSq b))⁻¹ : ℝ)

open Classical in
/-- exact zero test of the pair (`iso_norm != 0.0` in the code) -/
noncomputable def cIsZero (a b : ℂ) : Bool := decide (a = 0 ∧ b = 0)

/-- `_mc_unitary` / `_uc_unitaries` with `_unitary` evaluated exactly over `ℂ`. -/
noncomputable def complexChooser : Chooser ℂ :=
  codeChooser (starRingEnd ℂ) cNormInv cIsZero

theorem cIsZero_spec (a b : ℂ) : cIsZero a b = true → a = 0 ∧ b = 0 := by
  unfold cIsZero; simp

/-- The exact chooser satisfies Lemma 2's zeroing property for every column. -/
theorem complexChooser_zeroing (n k : Nat) : complexChooser.Zeroing n k :=
  codeChooser_zeroing _ _ _ cIsZero_spec n k

theorem cNormInv_norm (a b : ℂ) (h : cIsZero a b = false) :
    cNormInv a b * cNormInv a b * ((starRingEnd ℂ) a * a + (starRingEnd ℂ) b * b) = 1 := by
  have hne : ¬ (a = 0 ∧ b = 0) := by
    unfold cIsZero at h; simpa using h
  have hpos : 0 < normSq a + normSq b := by
    by_cases ha : a = 0
    · have hb : b ≠ 0 := fun hb => hne ⟨ha, hb⟩
      have := normSq_pos.2 hb
      have := normSq_nonneg a
      linarith
    · have := normSq_pos.2 ha
      have := normSq_nonneg b
      linarith
  have hsq : Real.sqrt (normSq a + normSq b) * Real.sqrt (normSq a + normSq b)
      = normSq a + normSq b := Real.mul_self_sqrt hpos.le
  have hs0 : Real.sqrt (normSq a + normSq b) ≠ 0 := (Real.sqrt_pos.2 hpos).ne'
  unfold cNormInv
  rw [← normSq_eq_conj_mul_self, ← normSq_eq_conj_mul_self, ← ofReal_add, ← ofReal_mul,
    ← ofReal_mul, ← ofReal_one]
  congr 1
  generalize Real.sqrt (normSq a + normSq b) = x at hsq hs0 ⊢
  rw [← hsq]
  field_simp

/-- The exact chooser's matrices are unitary. -/
theorem complexChooser_unitary : complexChooser.Unitary (starRingEnd ℂ) :=
  codeChooser_unitary _ (fun x => Complex.conj_conj x) _ _
    (fun a b => by unfold cNormInv; exact conj_ofReal _) cNormInv_norm

/-- **CCD on an isometry over `ℂ`.**  If the columns `F 0 … F (K-1)`, `K ≤ 2^n`, are orthonormal
(on the rows `< 2^n`), then the column-by-column sweep `G_{K-1} ⋯ G_0` with the exact Lemma-2
matrices of `_mc_unitary` / `_uc_unitaries` maps every column `c < K` to `φ_c·e_c` with
`|φ_c|² = 1` — what the closing `DiagonalGate` then removes. -/
theorem ccd_sweep_complex (n K : Nat) (hK : K ≤ 2 ^ n) (F : Nat → Nat → ℂ)
    (horth : ∀ c c', c < c' → c' < K → ip (starRingEnd ℂ) n (F c) (F c') = 0)
    (hnorm : ∀ c, c < K → ip (starRingEnd ℂ) n (F c) (F c) = 1) :
    ∀ c, c < K → (∀ r, r < 2 ^ n → r ≠ c → sweep complexChooser n K F c r = 0) ∧
      (starRingEnd ℂ) (sweep complexChooser n K F c c) * sweep complexChooser n K F c c = 1 :=
  ccd_sweep_orth (starRingEnd ℂ) complexChooser n K hK (fun k _ => complexChooser_zeroing n k)
    complexChooser_unitary F horth hnorm

/-- Non-vacuity: the hypotheses of `ccd_sweep_complex` hold for the two columns
`(1, 0, 0, 0)`, `(0, 0, 1, 0)` on two qubits (an isometry that is not yet in the final form). -/
example :
    let F : Nat → Nat → ℂ := fun c r => if (c = 0 ∧ r = 0) ∨ (c = 1 ∧ r = 2) then 1 else 0
    (∀ c c', c < c' → c' < 2 → ip (starRingEnd ℂ) 2 (F c) (F c') = 0) ∧
    (∀ c, c < 2 → ip (starRingEnd ℂ) 2 (F c) (F c) = 1) := by
  intro F
  refine ⟨?_, ?_⟩
  · intro c c' h1 h2
    have hc : c = 0 := by omega
    have hc' : c' = 1 := by omega
    subst hc hc'
    simp [ip, F]
  · intro c hc
    have : c = 0 ∨ c = 1 := by omega
    rcases this with rfl | rfl <;> simp [ip, F]

end Qclib.Iso
