import QclibModel.Proofs.UcgIndex
/-
  C12: the `ctrl_state` string and control wires assembled by `_preserve_previous` select exactly
  the labels that agree with `t` on every wire except the target (`agreesOff`).
-/
namespace Qclib.Ucg

/-- label `i` as a wire assignment. -/
def bitsOf (i : Nat) : Bits := fun p => i.testBit p

theorem binZfill_eq (w r : Nat) (hw : 1 ≤ w) (hr : r < 2 ^ w) :
    binZfill w r = ((List.range w).map r.testBit).reverse := by
  have : binLen r ≤ w := by
    unfold binLen
    by_cases h0 : r = 0
    · subst h0; simp [Nat.log2]; omega
    · have := (Nat.log2_lt h0).2 hr; omega
  rw [binZfill, Nat.max_eq_left this]

theorem take_strTarget (n t q : Nat) (hq : q ≤ n) :
    (strTarget n t).take q = (List.range q).map t.testBit := by
  rw [strTarget_eq, ← List.map_take, List.take_range, Nat.min_eq_left (by omega)]

theorem ctrlOk_zip_map (xs : List Nat) (f : Nat → Bool) (b : Bits) :
    ctrlOk (xs.zip (xs.map f)) b = true ↔ ∀ x ∈ xs, b x = f x := by
  induction xs with
  | nil => simp [ctrlOk]
  | cons x xs ih =>
    simp only [ctrlOk, List.map_cons, List.zip_cons_cons, List.all_cons, Bool.and_eq_true, beq_iff_eq,
      List.mem_cons, forall_eq_or_imp] at ih ⊢
    rw [ih]

theorem ctrlOk_append (l1 l2 : List (Nat × Bool)) (b : Bits) :
    ctrlOk (l1 ++ l2) b = true ↔ ctrlOk l1 b = true ∧ ctrlOk l2 b = true := by
  simp [ctrlOk, List.all_append]

theorem ctrlOk_zip_maps (l : List Nat) (h : Nat → Nat) (g : Nat → Bool) (b : Bits) :
    ctrlOk ((l.map h).zip (l.map g)) b = true ↔ ∀ x ∈ l, b (h x) = g x := by
  induction l with
  | nil => simp [ctrlOk]
  | cons x xs ih =>
    simp only [ctrlOk, List.map_cons, List.zip_cons_cons, List.all_cons, Bool.and_eq_true, beq_iff_eq,
      List.mem_cons, forall_eq_or_imp] at ih ⊢
    rw [ih]

theorem testBit_high (x n p : Nat) (hx : x < 2 ^ n) (hp : n ≤ p) : x.testBit p = false :=
  Nat.testBit_lt_two_pow (Nat.lt_of_lt_of_le hx (Nat.pow_le_pow_right (by omega) hp))

theorem low_agree_iff (q i t : Nat) :
    i % 2 ^ q = t % 2 ^ q ↔ ∀ p, p < q → i.testBit p = t.testBit p := by
  constructor
  · intro h p hp
    have := congrArg (fun x => Nat.testBit x p) h
    simpa [Nat.testBit_mod_two_pow, hp] using this
  · intro h
    apply Nat.eq_of_testBit_eq
    intro p
    rw [Nat.testBit_mod_two_pow, Nat.testBit_mod_two_pow]
    by_cases hp : p < q
    · simp [hp, h p hp]
    · simp [hp]

theorem high_agree_iff (n q i t : Nat) (hq : q < n) (hi : i < 2 ^ n) (ht : t < 2 ^ n) :
    i / 2 ^ q / 2 = t / 2 ^ q / 2 ↔
      ∀ j, j < n - q - 1 → i.testBit (q + 1 + j) = t.testBit (q + 1 + j) := by
  rw [← div_succ, ← div_succ]
  constructor
  · intro h j _
    have := congrArg (fun x => Nat.testBit x j) h
    simpa [Nat.testBit_div_two_pow, Nat.add_comm] using this
  · intro h
    apply Nat.eq_of_testBit_eq
    intro j
    rw [Nat.testBit_div_two_pow, Nat.testBit_div_two_pow, Nat.add_comm]
    by_cases hj : j < n - q - 1
    · exact h j hj
    · rw [testBit_high i n _ hi (by omega), testBit_high t n _ ht (by omega)]

/-- **`ctrl_state` / control wires of `_preserve_previous`.**  For every `n`, every target wire
`q < n` and every `t < 2^n`: the string assembled by the code has the length qiskit requires, and
read the way qiskit reads it (last character = first control wire) on the wires
`out_gate_ctrl = [0..q-1] + [q+1..n-1]` it is satisfied by a label `i < 2^n` exactly when `i`
agrees with `t` on every wire except the target. -/
theorem ctrl_lits_spec (n t q : Nat) (hq : q < n) (ht : t < 2 ^ n) :
    ∃ lits, ctrlLits (outGateCtrl n q) (ctrlState n t q (rGateAt t q) (n - q - 1)) = some lits ∧
      ∀ i, i < 2 ^ n → (ctrlOk lits (bitsOf i) = true ↔ agreesOff q t i) := by
  have hr : rGateAt t q < 2 ^ (n - q - 1) := by
    rw [rGateAt_eq, ← div_succ, Nat.div_lt_iff_lt_mul (pow_pos2 _), ← Nat.pow_add]
    rwa [show n - q - 1 + (q + 1) = n by omega]
  have hrev : (ctrlState n t q (rGateAt t q) (n - q - 1)).reverse
      = (List.range q).map t.testBit ++ (List.range (n - q - 1)).map (rGateAt t q).testBit := by
    unfold ctrlState
    simp only [take_strTarget n t q (by omega), List.length_reverse, List.length_map, List.length_range]
    by_cases hlt : q < n - 1
    · rw [if_pos hlt, binZfill_eq _ _ (by omega) hr]
      simp
    · rw [if_neg hlt, show n - q - 1 = 0 by omega]
      simp
  have hlen : (ctrlState n t q (rGateAt t q) (n - q - 1)).length = (outGateCtrl n q).length := by
    rw [← List.length_reverse, hrev]
    simp [outGateCtrl]
    omega
  refine ⟨_, by rw [ctrlLits, if_pos hlen], ?_⟩
  intro i hi
  rw [hrev, outGateCtrl, show n - (q + 1) = n - q - 1 by omega,
    List.zip_append (by simp), ctrlOk_append, ctrlOk_zip_map, List.range'_eq_map_range, ctrlOk_zip_maps]
  unfold agreesOff
  rw [low_agree_iff, high_agree_iff n q i t hq hi ht]
  simp only [List.mem_range, bitsOf, rGateAt_eq]
  constructor
  · rintro ⟨h1, h2⟩
    refine ⟨h1, fun j hj => ?_⟩
    rw [h2 j hj, ← div_succ, Nat.testBit_div_two_pow, Nat.add_comm]
  · rintro ⟨h1, h2⟩
    refine ⟨h1, fun j hj => ?_⟩
    rw [h2 j hj, ← div_succ, Nat.testBit_div_two_pow, Nat.add_comm]

end Qclib.Ucg
