import QclibModel.Proofs.SchmidtAlg
/-
  C08, true loss of nested approximations: replacing one Schmidt factor of the leading term by any
  vector multiplies the overlaps.  Finite sums over any commutative ring with conjugation.
-/
namespace Qclib.Baa
open Qclib.Schmidt Finset

variable {K : Type} [CommRing K] [StarRing K]

/-- `⟨M | x ⊗ V₀⟩ = conj(s₀) · ⟨U₀ | x⟩` when `M = Σ_i U[:,i] s_i V[i,:]` and the rows of `V` are
orthogonal to the normalised row `V₀`. -/
theorem nested_overlap_row (rows cols k : Nat) (hk : 0 < k) (U : Nat → Nat → K) (s : Nat → K)
    (V : Nat → Nat → K) (x : Nat → K)
    (hV : ∀ i, i < k → gramRows cols V i 0 = if i = 0 then 1 else 0) :
    inner2 star rows cols (composeMat k U s V) (fun r c => x r * V 0 c)
      = star (s 0) * sumTo rows (fun r => star (U r 0) * x r) := by
  simp only [inner2, composeMat, gramRows, sumTo_eq_sum] at *
  rw [Finset.mul_sum]
  refine Finset.sum_congr rfl (fun a _ => ?_)
  have h1 : ∀ b, star (∑ i ∈ range k, U a i * s i * V i b) * (x a * V 0 b)
      = ∑ i ∈ range k, star (U a i) * star (s i) * x a * (star (V i b) * V 0 b) := by
    intro b
    rw [star_sum, Finset.sum_mul]
    refine Finset.sum_congr rfl (fun i _ => ?_)
    simp only [star_mul']
    ring
  simp only [h1]
  rw [Finset.sum_comm]
  have h2 : ∀ i ∈ range k, ∑ b ∈ range cols, star (U a i) * star (s i) * x a * (star (V i b) * V 0 b)
      = if i = 0 then star (U a 0) * star (s 0) * x a else 0 := by
    intro i hi
    rw [← Finset.mul_sum, hV i (Finset.mem_range.mp hi)]
    split
    · rename_i h0; subst h0; ring
    · ring
  rw [Finset.sum_congr rfl h2, Finset.sum_ite_eq' (range k) 0]
  simp only [Finset.mem_range, hk, if_true]
  ring

/-- The same with the column factor replaced: `⟨M | U₀ ⊗ y⟩ = conj(s₀) · ⟨V₀ | y⟩`. -/
theorem nested_overlap_col (rows cols k : Nat) (hk : 0 < k) (U : Nat → Nat → K) (s : Nat → K)
    (V : Nat → Nat → K) (y : Nat → K)
    (hU : ∀ i, i < k → gramCols rows U i 0 = if i = 0 then 1 else 0) :
    inner2 star rows cols (composeMat k U s V) (fun r c => U r 0 * y c)
      = star (s 0) * sumTo cols (fun c => star (V 0 c) * y c) := by
  simp only [inner2, composeMat, gramCols, sumTo_eq_sum] at *
  rw [Finset.sum_comm, Finset.mul_sum]
  refine Finset.sum_congr rfl (fun b _ => ?_)
  have h1 : ∀ a, star (∑ i ∈ range k, U a i * s i * V i b) * (U a 0 * y b)
      = ∑ i ∈ range k, star (V i b) * star (s i) * y b * (star (U a i) * U a 0) := by
    intro a
    rw [star_sum, Finset.sum_mul]
    refine Finset.sum_congr rfl (fun i _ => ?_)
    simp only [star_mul']
    ring
  simp only [h1]
  rw [Finset.sum_comm]
  have h2 : ∀ i ∈ range k, ∑ a ∈ range rows, star (V i b) * star (s i) * y b * (star (U a i) * U a 0)
      = if i = 0 then star (V 0 b) * star (s 0) * y b else 0 := by
    intro i hi
    rw [← Finset.mul_sum, hU i (Finset.mem_range.mp hi)]
    split
    · rename_i h0; subst h0; ring
    · ring
  rw [Finset.sum_congr rfl h2, Finset.sum_ite_eq' (range k) 0]
  simp only [Finset.mem_range, hk, if_true]
  ring

end Qclib.Baa
