import Mathlib.Algebra.BigOperators.Intervals
import Mathlib.Algebra.Field.Basic
import Mathlib.Algebra.CharZero.Defs
import Mathlib.Tactic.FieldSimp
import Mathlib.Tactic.Ring
/-
  C18, part 2: the squared-amplitude bookkeeping.  The point with enumerate index `p` receives the
  weight `1/(p+1)` of what the generator still carries, and the generator was multiplied by
  `q/(q+1)` for each index `q = m-1, …, p+1` processed before.
-/
namespace Qclib

theorem fn_telescope {K : Type} [Field K] [CharZero K] (p m : Nat) (h : p < m) :
    (1 / ((p : K) + 1)) * ∏ q ∈ Finset.Ico (p + 1) m, ((q : K) / ((q : K) + 1)) = 1 / (m : K) := by
  obtain ⟨d, rfl⟩ : ∃ d, m = p + 1 + d := ⟨m - (p + 1), by omega⟩
  clear h
  induction d with
  | zero => simp
  | succ d ih =>
    rw [show p + 1 + (d + 1) = (p + 1 + d) + 1 from rfl, Finset.prod_Ico_succ_top (by omega),
      ← mul_assoc, ih]
    have h1 : ((p + 1 + d : Nat) : K) ≠ 0 := Nat.cast_ne_zero.mpr (by omega)
    have h2 : ((p + 1 + d : Nat) : K) + 1 ≠ 0 := by
      have : ((p + 1 + d + 1 : Nat) : K) ≠ 0 := Nat.cast_ne_zero.mpr (by omega)
      simpa using this
    rw [Nat.cast_succ]
    field_simp

end Qclib
