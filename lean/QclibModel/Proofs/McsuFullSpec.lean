import QclibModel.Proofs.McsuFullLd
import QclibModel.Proofs.McsuGateA
import QclibModel.Proofs.McxReal
/-
  C04 (part A): the whole `Ldmcsu(U, k, ctrl_state).definition` of the model, in its real instance
  (`Real.sqrt`, exact tests) and expanded to primitive gates, denotes "apply `U` to the target iff
  the controls read the pattern" on every complex state — for every SU(2) matrix `U` whose
  secondary diagonal is real (plain branch) or whose main diagonal is real (H-sandwich branch), and
  for the one-control branch.  Composition of `linearDepthMcv_full` (C05 discharged),
  `gate_a_general` / `gate_a_diag` and `get_x_z_secondary` / `h_conj`.
-/
set_option linter.unusedSectionVars false
set_option linter.unusedSimpArgs false
namespace Qclib.Mcsu
open RotSem Complex

theorem toMat_adj (r4 : ℝ → ℝ → ℝ × ℝ) (cosH sinH : ℝ → ℝ) (m : CMat ℝ) :
    toMat (adj (realOps r4 cosH sinH) m) = adjC (toMat m) := by
  apply Mat2.ext' <;> apply Complex.ext <;> simp [adj, Cx.conj, realOps, toMat, toC, adjC]

/-- `_compute_gate_a` on a normalised pair, both branches: `A` is unitary and
`(A† X A X)² = [[conj z, x], [-x, z]]`; the branch `x = 0` uses the fourth-root specification. -/
theorem gateA_real (r4 : ℝ → ℝ → ℝ × ℝ) (cosH sinH : ℝ → ℝ) (x p q : ℝ)
    (hn : x ^ 2 + (p ^ 2 + q ^ 2) = 1)
    (hr : x = 0 → (⟨(r4 p q).1, (r4 p q).2⟩ : ℂ) ^ 4 = ⟨p, q⟩) :
    let o := realOps r4 cosH sinH
    let A := toMat (computeGateA o x ⟨p, q⟩)
    let A' := toMat (adj o (computeGateA o x ⟨p, q⟩))
    A * A' = 1 ∧ A' * A = 1 ∧ coreW A A' = wMat x ⟨p, q⟩ := by
  intro o A A'
  have eA' : A' = adjC A := toMat_adj r4 cosH sinH _
  rw [eA']
  by_cases hx : x = 0
  · subst hx
    have h := gate_a_diag r4 cosH sinH p q (by linarith) (hr rfl)
    refine ⟨h.1, h.2.1, ?_⟩
    rw [h.2.2]
    apply Mat2.ext' <;> apply Complex.ext <;> simp [wMat]
  · have h := gate_a_general r4 cosH sinH x p q hn hx
    exact ⟨h.1, h.2.1, h.2.2⟩

section sandwich
variable {R : Type} [CommRing R]

/-- `H · C(M) · H = C(H M H)` when `H² = 1` and the controls do not mention the target. -/
theorem h_sandwich (l : List (Nat × Bool)) (t : Nat) (H M : Mat2 R) (hH : H * H = 1)
    (hl : Avoids l t) (ψ : State R) :
    applyMcu [] H t (applyMcu l M t (applyMcu [] H t ψ)) = applyMcu l (H * M * H) t ψ := by
  have f := mcuFam_free l M t hl
  simp only [applyMcu_eq_fam, mcuFam_nil]
  rw [applyFam_comp t _ _ f, applyFam_comp t _ _ (TFree_const t H)]
  apply applyFam_congr
  intro b
  simp only [mcuFam]
  split
  · rfl
  · rw [mat_mul_one, hH]

theorem semSG_append {K : Type} (ι : CMat K → Mat2 R) (rh : R) (M : McxSem R)
    (l1 l2 : List (SG K)) (ψ : State R) :
    semSG ι rh M (l1 ++ l2) ψ = semSG ι rh M l2 (semSG ι rh M l1 ψ) := by
  simp [semSG, List.foldl_append]

end sandwich

/-- The pattern literal of the one-control branch. -/
theorem litsOf_one (c : Nat) (cs : Option (List Bool)) :
    litsOf [c] (cs.getD []).reverse = [(c, oneCtrlVal cs)] := by
  cases cs with
  | none => rfl
  | some p =>
    simp only [Option.getD_some, oneCtrlVal]
    cases h : p.reverse with
    | nil =>
      have : p = [] := by simpa using h
      subst this; rfl
    | cons v r =>
      have : p = r.reverse ++ [v] := by
        have := congrArg List.reverse h
        simpa using this
      subst this
      simp [litsOf]

/-- **`Ldmcsu` (model, real instance, expanded) is the specified gate** for SU(2) matrices with a
real secondary or a real main diagonal, and for one control. -/
theorem ldmcsu_spec (r4 : ℝ → ℝ → ℝ × ℝ) (cosH sinH : ℝ → ℝ) (ar ai br bi : ℝ)
    (hu : ar ^ 2 + ai ^ 2 + br ^ 2 + bi ^ 2 = 1) (hd : bi = 0 ∨ ai = 0)
    (hr : (getXZ (realOps r4 cosH sinH) (su2Mat ar ai br bi)).1 = 0 →
      (⟨(r4 (getXZ (realOps r4 cosH sinH) (su2Mat ar ai br bi)).2.re
            (getXZ (realOps r4 cosH sinH) (su2Mat ar ai br bi)).2.im).1,
        (r4 (getXZ (realOps r4 cosH sinH) (su2Mat ar ai br bi)).2.re
            (getXZ (realOps r4 cosH sinH) (su2Mat ar ai br bi)).2.im).2⟩ : ℂ) ^ 4
        = ⟨(getXZ (realOps r4 cosH sinH) (su2Mat ar ai br bi)).2.re,
           (getXZ (realOps r4 cosH sinH) (su2Mat ar ai br bi)).2.im⟩)
    (eig : Cx ℝ × Cx ℝ × CMat ℝ) (cw : List Nat) (t : Nat) (cs : Option (List Bool))
    (hn : (cw ++ [t]).Nodup) (gs : List (SG ℝ)) (ms : List (MG ℝ ℝ))
    (hg : ldmcsu (realOps r4 cosH sinH) (su2Mat ar ai br bi) eig cw t cs = some gs)
    (hx : expandAll realAngles (fun x : ℝ => -x) gs = some ms) (ψ : State ℂ) :
    semMG toMat ms ψ
      = applyMcu (litsOf cw (cs.getD []).reverse) (toMat (su2Mat ar ai br bi)) t ψ := by
  rw [expandAll_sem realAngles _ toMat gs ms hx]
  have hmem := expandAll_mem realAngles _ gs ms hx
  cases cw with
  | nil => simp [ldmcsu] at hg
  | cons c r =>
    cases r with
    | nil =>
      simp only [ldmcsu, Option.some.injEq] at hg
      subst hg
      rw [litsOf_one]
      rfl
    | cons d r' =>
      have hk : 2 ≤ (c :: d :: r').length := by simp
      have htc : t ∉ (c :: d :: r') := by
        intro h
        have := List.nodup_append.mp hn
        exact this.2.2 t h t (by simp) rfl
      by_cases hb : bi = 0
      · -- secondary diagonal real: the plain branch
        subst hb
        obtain ⟨hxz, hW, hnorm⟩ := get_x_z_secondary r4 cosH sinH ar ai br
        have hsr : secondaryReal (realOps r4 cosH sinH) (su2Mat ar ai br 0) = true := by
          simp [secondaryReal, realOps, su2Mat]
        simp only [ldmcsu, hsr, Bool.not_true, Bool.and_false, Bool.false_eq_true, if_false,
          List.nil_append, List.append_nil] at hg
        cases hb' : linearDepthMcv (realOps r4 cosH sinH) (su2Mat ar ai br 0) (c :: d :: r') t cs false with
        | none => rw [hb'] at hg; simp at hg
        | some b =>
          rw [hb'] at hg
          simp only [Option.some.injEq] at hg
          subst hg
          have hga := gateA_real r4 cosH sinH
            (getXZ (realOps r4 cosH sinH) (su2Mat ar ai br 0)).1
            (getXZ (realOps r4 cosH sinH) (su2Mat ar ai br 0)).2.re
            (getXZ (realOps r4 cosH sinH) (su2Mat ar ai br 0)).2.im
            (by rw [hnorm]; linarith) hr
          obtain ⟨hA, hA', hcore⟩ := hga
          have := linearDepthMcv_exp (realOps r4 cosH sinH) realAngles pi8_real toMat
            (su2Mat ar ai br 0) (c :: d :: r') t cs b hk hn hb' hmem hA hA' ψ
          rw [this, hcore, ← hW]
      · -- main diagonal real: the H sandwich
        have ha : ai = 0 := hd.resolve_left hb
        subst ha
        have hrh : (2 : ℂ) * (rh ℝ * rh ℝ) = 1 := RotLaws.rh_sq
        obtain ⟨hxz, hW, hnorm⟩ := h_conj r4 cosH sinH ar br bi hb (rh ℝ) hrh
        have hsr : secondaryReal (realOps r4 cosH sinH) (su2Mat ar 0 br bi) = false := by
          simp [secondaryReal, realOps, su2Mat, hb]
        have hmr : mainReal (realOps r4 cosH sinH) (su2Mat ar 0 br bi) = true := by
          simp [mainReal, realOps, su2Mat]
        simp only [ldmcsu, hsr, hmr, Bool.not_true, Bool.not_false, Bool.false_and,
          Bool.false_eq_true, if_false, if_true] at hg
        cases hb' : linearDepthMcv (realOps r4 cosH sinH) (su2Mat ar 0 br bi) (c :: d :: r') t cs false with
        | none => rw [hb'] at hg; simp at hg
        | some b =>
          rw [hb'] at hg
          simp only [Option.some.injEq] at hg
          subst hg
          have hga := gateA_real r4 cosH sinH
            (getXZ (realOps r4 cosH sinH) (su2Mat ar 0 br bi)).1
            (getXZ (realOps r4 cosH sinH) (su2Mat ar 0 br bi)).2.re
            (getXZ (realOps r4 cosH sinH) (su2Mat ar 0 br bi)).2.im
            (by rw [hnorm]; linarith) hr
          obtain ⟨hA, hA', hcore⟩ := hga
          have hmem' : ∀ g ∈ b, ∃ m : List (MG ℝ ℝ), expandSG realAngles (fun x : ℝ => -x) g = some m :=
            fun g hg' => hmem g (by simp [hg'])
          have hb'' := fun φ => linearDepthMcv_exp (realOps r4 cosH sinH) realAngles pi8_real toMat
            (su2Mat ar 0 br bi) (c :: d :: r') t cs b hk hn hb' hmem' hA hA' φ
          rw [semSG_append, semSG_append, hb'', hcore, ← hW]
          have hHH : (⟨rh ℝ, rh ℝ, rh ℝ, -rh ℝ⟩ : Mat2 ℂ) * ⟨rh ℝ, rh ℝ, rh ℝ, -rh ℝ⟩ = 1 := by
            apply Mat2.ext' <;> simp only [mat_mul_def, Mat2.mul, mat_one_def, Mat2.one] <;>
              first | linear_combination hrh | ring
          have hs := h_sandwich (litsOf (c :: d :: r') (cs.getD []).reverse) t
            (⟨rh ℝ, rh ℝ, rh ℝ, -rh ℝ⟩ : Mat2 ℂ)
            (⟨rh ℝ, rh ℝ, rh ℝ, -rh ℝ⟩ * toMat (su2Mat ar 0 br bi) * ⟨rh ℝ, rh ℝ, rh ℝ, -rh ℝ⟩)
            hHH (litsOf_avoids _ _ t htc) ψ
          have e : (⟨rh ℝ, rh ℝ, rh ℝ, -rh ℝ⟩ : Mat2 ℂ)
              * (⟨rh ℝ, rh ℝ, rh ℝ, -rh ℝ⟩ * toMat (su2Mat ar 0 br bi) * ⟨rh ℝ, rh ℝ, rh ℝ, -rh ℝ⟩)
              * ⟨rh ℝ, rh ℝ, rh ℝ, -rh ℝ⟩ = toMat (su2Mat ar 0 br bi) := by
            rw [mat_mul_assoc, mat_mul_assoc, hHH, mat_mul_one, ← mat_mul_assoc, hHH, mat_one_mul]
          rw [e] at hs
          exact hs

end Qclib.Mcsu
