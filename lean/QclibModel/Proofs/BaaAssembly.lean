import QclibModel.Model.Baa
import QclibModel.Proofs.SchmidtIndex
/-
  C08, assembly: `compose(gate, qubits[::-1])` followed by `reverse_bits()` reads, for the factor
  on the register `qs`, the bits of the global index at the axes `qs` in the listed order.
  Core Lean only.
-/
namespace Qclib.Baa
open Qclib.Schmidt

theorem foldl_add_congr {β : Type} (l : List β) (g h : β → Nat) (s : Nat) (hgh : ∀ k ∈ l, g k = h k) :
    l.foldl (fun a k => a + g k) s = l.foldl (fun a k => a + h k) s := by
  induction l generalizing s with
  | nil => rfl
  | cons x xs ih =>
    simp only [List.foldl_cons]
    rw [hgh x (by simp), ih _ (fun k hk => hgh k (by simp [hk]))]

/-- The little-endian sum over the reversed register is the big-endian value of the listed bits. -/
theorem localIndex_eq_ofBits_map (n : Nat) (qs : List Nat) (I : Nat) :
    localIndex n qs I = ofBits (qs.map (fun q => I.testBit (n - 1 - q))) := by
  unfold localIndex wireOf
  induction qs with
  | nil => rfl
  | cons q qs ih =>
    simp only [List.length_cons, List.range_succ, List.foldl_append, List.foldl_cons, List.foldl_nil,
      List.map_cons, ofBits, List.length_map, List.reverse_cons]
    have hlast : (qs.reverse ++ [q]).getD qs.length 0 = q := by
      have : qs.length = qs.reverse.length := by simp
      rw [List.getD_eq_getElem?_getD, this, List.getElem?_concat_length]; rfl
    rw [hlast]
    have hpre : (List.range qs.length).foldl
          (fun acc k => acc + if I.testBit (n - 1 - (qs.reverse ++ [q]).getD k 0) = true then 2 ^ k else 0) 0
        = (List.range qs.length).foldl
          (fun acc k => acc + if I.testBit (n - 1 - qs.reverse.getD k 0) = true then 2 ^ k else 0) 0 := by
      apply foldl_add_congr
      intro k hk
      have hk' : k < qs.reverse.length := by simpa using hk
      simp only [List.getD_eq_getElem?_getD, List.getElem?_append_left hk']
    rw [hpre, ih]
    omega

/-- **Index form of the assembly.**  For a register of qubits `< n` (any order, repetitions
allowed), the local index selected by `compose(gate, qs[::-1])` + `reverse_bits()` is the
big-endian number whose digits are the axis values of `I` at `qs[0], qs[1], …`. -/
theorem localIndex_eq_gather (n : Nat) (qs : List Nat) (hlt : ∀ q ∈ qs, q < n) (I : Nat) :
    localIndex n qs I = ofBits (gather qs (toBits n I)) := by
  rw [localIndex_eq_ofBits_map]
  unfold gather
  congr 1
  apply List.map_congr_left
  intro q hq
  rw [toBits_getD n I q (hlt q hq)]

theorem foldl_mul_congr {R β : Type} [Mul R] (l : List β) (g h : β → R) (s : R)
    (hgh : ∀ k ∈ l, g k = h k) :
    l.foldl (fun a k => a * g k) s = l.foldl (fun a k => a * h k) s := by
  induction l generalizing s with
  | nil => rfl
  | cons x xs ih =>
    simp only [List.foldl_cons]
    rw [hgh x (by simp), ih _ (fun k hk => hgh k (by simp [hk]))]

theorem assembled_eq_planTensor {R : Type} [Mul R] (one : R) (n : Nat)
    (plan : List (List Nat × (Nat → R))) (hlt : ∀ p ∈ plan, ∀ q ∈ p.1, q < n) (I : Nat) :
    assembled one n plan I = planTensor one n plan I := by
  unfold assembled planTensor
  apply foldl_mul_congr
  intro p hp
  rw [localIndex_eq_gather n p.1 (hlt p hp) I]

/-- Position `p` of the register (counted from its first qubit) sits on gate qubit `m-1-p`, i.e. on
wire `n-1-qs[p]` of the final circuit. -/
theorem wireOf_pos (n : Nat) (qs : List Nat) (p : Nat) (hp : p < qs.length) :
    wireOf n qs (qs.length - 1 - p) = n - 1 - qs.getD p 0 := by
  unfold wireOf
  congr 1
  have h1 : qs.length - 1 - p < qs.reverse.length := by simp; omega
  rw [List.getD_eq_getElem?_getD, List.getD_eq_getElem?_getD, List.getElem?_eq_getElem h1,
    List.getElem?_eq_getElem hp, List.getElem_reverse]
  simp only [Option.getD_some]
  congr 1
  omega

/-- Distinct qubits `< n` land on distinct wires `< n`: with registers that partition `{0..n-1}`
every wire of the circuit is used by exactly one factor qubit. -/
theorem wire_injective (n q q' : Nat) (hq : q < n) (hq' : q' < n) (h : n - 1 - q = n - 1 - q') :
    q = q' ∧ n - 1 - q < n := by omega

end Qclib.Baa
