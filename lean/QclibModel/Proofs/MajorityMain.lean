import QclibModel.Proofs.Majority
/-
  C05 (majority gate): assembling the parity identity, the sublist count and the semantics of
  `mcx` lists into the statement about the emitted circuit.
-/
namespace Qclib
open Finset

theorem sum_filter_odd_mod2 (L : List Nat) (f g : Nat → Nat) :
    ((L.filter (fun k => f k % 2 == 1)).map g).sum % 2 = (L.map (fun k => f k * g k)).sum % 2 := by
  induction L with
  | nil => rfl
  | cons a L ih =>
    by_cases h : f a % 2 = 1
    · rw [List.filter_cons_of_pos (by simpa using h)]
      simp only [List.map_cons, List.sum_cons]
      have : (f a * g a) % 2 = g a % 2 := by
        rw [Nat.mul_mod, h]; simp
      omega
    · rw [List.filter_cons_of_neg (by simpa using h)]
      simp only [List.map_cons, List.sum_cons]
      have h0 : f a % 2 = 0 := by omega
      have : (f a * g a) % 2 = 0 := by
        rw [Nat.mul_mod, h0]; simp
      omega

theorem sum_map_range' (h : Nat → Nat) (a len : Nat) :
    ((List.range' a len).map h).sum = ∑ i ∈ range len, h (a + i) := by
  induction len generalizing a with
  | zero => simp
  | succ len ih =>
    rw [List.range'_succ, List.map_cons, List.sum_cons, ih, sum_range_succ']
    simp only [Nat.add_zero]
    rw [add_comm]
    congr 1
    apply sum_congr rfl
    intro i _
    congr 1
    omega

/-- The weighted sum over all sizes from `p+1` to `n` is `majT p w` when `w ≤ n`. -/
theorem sum_sizes_eq_majT (p n w : Nat) (hp : p < n) (hw : w ≤ n) :
    ∑ i ∈ range (n - p), (p + i).choose p * w.choose (p + 1 + i) = majT p w := by
  have h1 : ∑ i ∈ range (n - p), (p + i).choose p * w.choose (p + 1 + i)
      = ∑ j ∈ Ico p n, j.choose p * w.choose (j + 1) := by
    rw [sum_Ico_eq_sum_range]
    apply sum_congr rfl
    intro i _
    have : p + 1 + i = p + i + 1 := by omega
    rw [this]
  have h2 : ∑ j ∈ Ico p n, j.choose p * w.choose (j + 1)
      = ∑ j ∈ range n, j.choose p * w.choose (j + 1) := by
    rw [range_eq_Ico]
    apply sum_subset
    · intro x hx; simp only [mem_Ico] at hx ⊢; omega
    · intro x hx hx'
      simp only [mem_Ico] at hx hx'
      have : x < p := by omega
      simp [Nat.choose_eq_zero_of_lt this]
  have h3 : ∑ j ∈ range n, j.choose p * w.choose (j + 1) = majT p w := by
    unfold majT
    symm
    apply sum_subset
    · intro x hx; simp only [mem_range] at hx ⊢; omega
    · intro x _ hx'
      simp only [mem_range] at hx'
      have : w < x + 1 := by omega
      simp [Nat.choose_eq_zero_of_lt this]
  rw [h1, h2, h3]

theorem majMin_pos {n : Nat} (hn : 1 ≤ n) : 1 ≤ majMin n := by unfold majMin; omega
theorem majMin_le {n : Nat} (hn : 1 ≤ n) : majMin n ≤ n := by unfold majMin; omega

theorem majSizes_parity (n w : Nat) (hn : 1 ≤ n) (hw : w ≤ n) :
    ((majSizes n).map (fun k => w.choose k)).sum % 2 = if majMin n ≤ w then 1 else 0 := by
  have hm := majMin_pos hn
  have hmn := majMin_le hn
  obtain ⟨p, hp⟩ : ∃ p, majMin n = p + 1 := ⟨majMin n - 1, by omega⟩
  unfold majSizes
  rw [sum_filter_odd_mod2 _ (fun k => binom (k - 1) (majMin n - 1)) (fun k => w.choose k),
    sum_map_range']
  have hsum : ∑ i ∈ range (n + 1 - majMin n),
        binom (majMin n + i - 1) (majMin n - 1) * w.choose (majMin n + i)
      = ∑ i ∈ range (n - p), (p + i).choose p * w.choose (p + 1 + i) := by
    have : n + 1 - majMin n = n - p := by omega
    rw [this]
    apply sum_congr rfl
    intro i _
    rw [binom_eq_choose, hp]
    have e1 : p + 1 + i - 1 = p + i := by omega
    have e2 : p + 1 - 1 = p := by omega
    rw [e1, e2]
  rw [hsum, sum_sizes_eq_majT p n w (by omega) hw, hp]
  by_cases h : p + 1 ≤ w
  · simp only [h, if_true]; exact majT_odd p w (by omega)
  · simp only [h, if_false]; rw [majT_of_le p w (by omega)]

/-! ### The emitted circuit -/

theorem combos_mem {α : Type} {k : Nat} {l s : List α} (h : s ∈ combos k l) : ∀ x ∈ s, x ∈ l := by
  induction l generalizing k s with
  | nil =>
    cases k with
    | zero => simp [combos] at h; subst h; simp
    | succ k => simp [combos] at h
  | cons a l ih =>
    cases k with
    | zero => simp [combos] at h; subst h; simp
    | succ k =>
      simp only [combos, List.mem_append, List.mem_map] at h
      rcases h with ⟨s', hs', rfl⟩ | h
      · intro x hx
        rcases List.mem_cons.mp hx with rfl | hx
        · exact List.mem_cons_self
        · exact List.mem_cons_of_mem _ (ih hs' x hx)
      · intro x hx
        exact List.mem_cons_of_mem _ (ih h x hx)

theorem numFire_flatMap (sizes : List Nat) (controls : List Nat) (b : Bits) :
    numFire (sizes.flatMap fun k => combos k controls) b
      = (sizes.map fun k => (controls.countP (fun c => b c)).choose k).sum := by
  induction sizes with
  | nil => rfl
  | cons k sizes ih =>
    have : numFire ((k :: sizes).flatMap fun k => combos k controls) b
        = numFire (combos k controls) b + numFire (sizes.flatMap fun k => combos k controls) b := by
      simp [numFire, List.flatMap_cons, List.filter_append]
    rw [this, ih]
    simp only [List.map_cons, List.sum_cons]
    congr 1
    exact combos_count (fun c => b c) k controls

theorem majority_eq_map {Θ : Type} (controls : List Nat) (t : Nat) :
    (majority controls t : Circ Θ)
      = ((majSizes controls.length).flatMap fun k => combos k controls).map
          (fun s => G.mcx s t) := by
  unfold majority
  rw [List.map_flatMap]

end Qclib
