import Mathlib.Analysis.InnerProductSpace.PiL2
import Mathlib.Algebra.Order.BigOperators.Ring.Finset
import Mathlib.Algebra.BigOperators.Intervals
import Mathlib.Tactic.Linarith
/-
  C07, optimality of the truncation (Eckart–Young–Mirsky, in the form needed for fidelities):
  abstract core in inner-product spaces over `ℝ` or `ℂ`.

  `M = Σ_{i<k} s_i u_i ⊗ v_i` with orthonormal `(u_i)`, `(v_i)` and `s_0 ≥ s_1 ≥ … ≥ 0` is
  represented by its pairing with product vectors,
      `pairing k s u v a b = Σ_{i<k} s_i ⟪a,u_i⟫ ⟪b,v_i⟫      (= ⟪a ⊗ b, M⟫)`.
  Proved: `‖⟪a ⊗ b, M⟫‖² ≤ s_0² ‖a‖² ‖b‖²` (Cauchy–Schwarz + Bessel), and for every
  `T = Σ_{j<r} a_j ⊗ b_j` (ARBITRARY `a_j`, `b_j`): `‖⟪T, M⟫‖² ≤ (Σ_{i<r} s_i²) · ‖T‖_F²`
  (orthonormalise the `a_j`, Cauchy–Schwarz, Bessel twice, and a water-filling inequality).
-/
namespace Qclib.Schmidt
open Finset

/-! ### the water-filling (rearrangement) inequality on finite sums -/

/-- Weights `0 ≤ w_i ≤ 1` of total mass `≤ r` against a non-increasing non-negative sequence `q`:
the weighted sum is at most the sum of the `r` leading terms. -/
theorem waterfill (k r : ℕ) (hr : r ≤ k) (q w : ℕ → ℝ)
    (hq : ∀ i j, i ≤ j → j < k → q j ≤ q i) (hq0 : ∀ i, i < k → 0 ≤ q i)
    (hw0 : ∀ i, i < k → 0 ≤ w i) (hw1 : ∀ i, i < k → w i ≤ 1)
    (hws : ∑ i ∈ range k, w i ≤ r) :
    ∑ i ∈ range k, q i * w i ≤ ∑ i ∈ range r, q i := by
  rcases Nat.eq_or_lt_of_le hr with rfl | hlt
  · exact Finset.sum_le_sum (fun i hi => by
      have hi' := Finset.mem_range.mp hi
      have := mul_le_mul_of_nonneg_left (hw1 i hi') (hq0 i hi')
      linarith)
  · -- threshold `t = q r`
    have ht0 : 0 ≤ q r := hq0 r hlt
    have hsplit : ∑ i ∈ range k, q i * w i
        = ∑ i ∈ range k, (q i - q r) * w i + q r * ∑ i ∈ range k, w i := by
      rw [Finset.mul_sum, ← Finset.sum_add_distrib]
      exact Finset.sum_congr rfl (fun i _ => by ring)
    have hterm : ∀ i ∈ range k, (q i - q r) * w i ≤ if i < r then q i - q r else 0 := by
      intro i hi
      have hi' := Finset.mem_range.mp hi
      split
      · rename_i hir
        have h1 : 0 ≤ q i - q r := sub_nonneg.mpr (hq i r (Nat.le_of_lt hir) hlt)
        have := mul_le_mul_of_nonneg_left (hw1 i hi') h1
        linarith
      · rename_i hir
        have h1 : q i - q r ≤ 0 := sub_nonpos.mpr (hq r i (Nat.le_of_not_lt hir) hi')
        exact mul_nonpos_of_nonpos_of_nonneg h1 (hw0 i hi')
    have hsum : ∑ i ∈ range k, (if i < r then q i - q r else 0)
        = ∑ i ∈ range r, q i - r * q r := by
      rw [← Finset.sum_filter]
      have : (range k).filter (fun i => i < r) = range r := by
        ext i
        simp only [Finset.mem_filter, Finset.mem_range]
        omega
      rw [this, Finset.sum_sub_distrib]
      simp
    have h2 := Finset.sum_le_sum hterm
    rw [hsum] at h2
    have h3 : q r * ∑ i ∈ range k, w i ≤ q r * r := mul_le_mul_of_nonneg_left hws ht0
    rw [hsplit]
    linarith

/-! ### the pairing `⟪a ⊗ b, M⟫` -/

variable {𝕜 : Type*} [RCLike 𝕜] {E F : Type*} [NormedAddCommGroup E] [InnerProductSpace 𝕜 E]
  [NormedAddCommGroup F] [InnerProductSpace 𝕜 F]

variable (𝕜) in
/-- `⟪a ⊗ b, Σ_{i<k} s_i u_i ⊗ v_i⟫ = Σ_{i<k} s_i ⟪a,u_i⟫ ⟪b,v_i⟫`. -/
noncomputable def pairing (k : ℕ) (s : ℕ → ℝ) (u : ℕ → E) (v : ℕ → F) (a : E) (b : F) : 𝕜 :=
  ∑ i ∈ range k, (s i : 𝕜) * inner 𝕜 a (u i) * inner 𝕜 b (v i)

/-- Bessel's inequality, the family indexed by `i < k`. -/
theorem bessel_range (k : ℕ) (u : ℕ → E) (hu : Orthonormal 𝕜 (fun i : Fin k => u i)) (a : E) :
    ∑ i ∈ range k, ‖inner 𝕜 a (u i)‖ ^ 2 ≤ ‖a‖ ^ 2 := by
  rw [Finset.sum_range]
  have := hu.sum_inner_products_le a (s := Finset.univ)
  simpa only [norm_inner_symm a] using this

/-- **Rank one.**  `‖⟪a ⊗ b, M⟫‖² ≤ S² ‖a‖² ‖b‖²` whenever `|s_i| ≤ S` for all `i < k`. -/
theorem pairing_rank1_le (k : ℕ) (s : ℕ → ℝ) (u : ℕ → E) (v : ℕ → F)
    (hu : Orthonormal 𝕜 (fun i : Fin k => u i)) (hv : Orthonormal 𝕜 (fun i : Fin k => v i))
    (S : ℝ) (hS : ∀ i, i < k → |s i| ≤ S) (a : E) (b : F) :
    ‖pairing 𝕜 k s u v a b‖ ^ 2 ≤ S ^ 2 * ‖a‖ ^ 2 * ‖b‖ ^ 2 := by
  set x : ℕ → ℝ := fun i => ‖inner 𝕜 a (u i)‖ with hx
  set y : ℕ → ℝ := fun i => ‖inner 𝕜 b (v i)‖ with hy
  have h1 : ‖pairing 𝕜 k s u v a b‖ ≤ S * ∑ i ∈ range k, x i * y i := by
    unfold pairing
    refine (norm_sum_le _ _).trans ?_
    rw [Finset.mul_sum]
    refine Finset.sum_le_sum (fun i hi => ?_)
    rw [norm_mul, norm_mul, RCLike.norm_ofReal, mul_assoc]
    exact mul_le_mul_of_nonneg_right (hS i (Finset.mem_range.mp hi))
      (mul_nonneg (norm_nonneg _) (norm_nonneg _))
  have h2 : (∑ i ∈ range k, x i * y i) ^ 2 ≤ ‖a‖ ^ 2 * ‖b‖ ^ 2 := by
    refine (Finset.sum_mul_sq_le_sq_mul_sq (range k) x y).trans ?_
    exact mul_le_mul (bessel_range k u hu a) (bessel_range k v hv b)
      (Finset.sum_nonneg (fun i _ => sq_nonneg _)) (sq_nonneg _)
  calc ‖pairing 𝕜 k s u v a b‖ ^ 2 ≤ (S * ∑ i ∈ range k, x i * y i) ^ 2 :=
        pow_le_pow_left₀ (norm_nonneg _) h1 2
    _ = S ^ 2 * (∑ i ∈ range k, x i * y i) ^ 2 := by ring
    _ ≤ S ^ 2 * (‖a‖ ^ 2 * ‖b‖ ^ 2) := mul_le_mul_of_nonneg_left h2 (sq_nonneg _)
    _ = S ^ 2 * ‖a‖ ^ 2 * ‖b‖ ^ 2 := by ring

/-- `⟪ε ⊗ β, M⟫ = ⟪β, Σ_i (s_i ⟪ε,u_i⟫) v_i⟫`. -/
theorem pairing_eq_inner (k : ℕ) (s : ℕ → ℝ) (u : ℕ → E) (v : ℕ → F) (a : E) (b : F) :
    pairing 𝕜 k s u v a b
      = inner 𝕜 b (∑ i ∈ range k, ((s i : 𝕜) * inner 𝕜 a (u i)) • v i) := by
  unfold pairing
  rw [inner_sum]
  exact Finset.sum_congr rfl (fun i _ => by rw [inner_smul_right])

/-- `‖Σ_i c_i v_i‖² = Σ_i ‖c_i‖²` for an orthonormal family indexed by `i < k`. -/
theorem norm_sq_sum_range (k : ℕ) (v : ℕ → F) (hv : Orthonormal 𝕜 (fun i : Fin k => v i))
    (c : ℕ → 𝕜) : ‖∑ i ∈ range k, c i • v i‖ ^ 2 = ∑ i ∈ range k, ‖c i‖ ^ 2 := by
  rw [Finset.sum_range, Finset.sum_range]
  have h := hv.inner_sum (fun i : Fin k => c i) (fun i : Fin k => c i) Finset.univ
  rw [inner_self_eq_norm_sq_to_K] at h
  have h' : ((‖∑ i : Fin k, c i • v i‖ ^ 2 : ℝ) : 𝕜) = ((∑ i : Fin k, ‖c i‖ ^ 2 : ℝ) : 𝕜) := by
    push_cast
    rw [h]
    exact Finset.sum_congr rfl (fun i _ => RCLike.conj_mul _)
  exact_mod_cast h'

/-- **Rank `r`, orthonormal left factors.**  For orthonormal `ε_0 … ε_{d-1}`, `d ≤ r ≤ k`, any
`β_l`, non-increasing non-negative `s`:  `‖Σ_l ⟪ε_l ⊗ β_l, M⟫‖² ≤ (Σ_{i<r} s_i²) · Σ_l ‖β_l‖²`. -/
theorem pairing_orth_le (k r d : ℕ) (hdr : d ≤ r) (hrk : r ≤ k) (s : ℕ → ℝ)
    (hs : ∀ i j, i ≤ j → j < k → s j ≤ s i) (hs0 : ∀ i, i < k → 0 ≤ s i)
    (u : ℕ → E) (v : ℕ → F)
    (hu : Orthonormal 𝕜 (fun i : Fin k => u i)) (hv : Orthonormal 𝕜 (fun i : Fin k => v i))
    (ε : Fin d → E) (hε : Orthonormal 𝕜 ε) (β : Fin d → F) :
    ‖∑ l, pairing 𝕜 k s u v (ε l) (β l)‖ ^ 2
      ≤ (∑ i ∈ range r, s i ^ 2) * ∑ l, ‖β l‖ ^ 2 := by
  set m : Fin d → F := fun l => ∑ i ∈ range k, ((s i : 𝕜) * inner 𝕜 (ε l) (u i)) • v i with hm
  have h1 : ‖∑ l, pairing 𝕜 k s u v (ε l) (β l)‖ ≤ ∑ l, ‖β l‖ * ‖m l‖ := by
    refine (norm_sum_le _ _).trans (Finset.sum_le_sum (fun l _ => ?_))
    rw [pairing_eq_inner]
    exact norm_inner_le_norm _ _
  have hml : ∀ l, ‖m l‖ ^ 2 = ∑ i ∈ range k, s i ^ 2 * ‖inner 𝕜 (ε l) (u i)‖ ^ 2 := by
    intro l
    rw [hm]
    simp only
    rw [norm_sq_sum_range k v hv]
    refine Finset.sum_congr rfl (fun i _ => ?_)
    rw [norm_mul, RCLike.norm_ofReal, mul_pow, sq_abs]
  set w : ℕ → ℝ := fun i => ∑ l, ‖inner 𝕜 (ε l) (u i)‖ ^ 2 with hw
  have hsum : ∑ l, ‖m l‖ ^ 2 = ∑ i ∈ range k, s i ^ 2 * w i := by
    simp only [hml, hw, Finset.mul_sum]
    rw [Finset.sum_comm]
  have hw0 : ∀ i, i < k → 0 ≤ w i := fun i _ => Finset.sum_nonneg (fun l _ => sq_nonneg _)
  have hw1 : ∀ i, i < k → w i ≤ 1 := by
    intro i hi
    have := hε.sum_inner_products_le (u i) (s := Finset.univ)
    have hn : ‖u i‖ = 1 := hu.norm_eq_one ⟨i, hi⟩
    rw [hn, one_pow] at this
    exact this
  have hws : ∑ i ∈ range k, w i ≤ r := by
    simp only [hw]
    rw [Finset.sum_comm]
    have : ∀ l ∈ (Finset.univ : Finset (Fin d)), ∑ i ∈ range k, ‖inner 𝕜 (ε l) (u i)‖ ^ 2 ≤ 1 := by
      intro l _
      have := bessel_range k u hu (ε l)
      rw [hε.norm_eq_one l, one_pow] at this
      exact this
    refine (Finset.sum_le_sum this).trans ?_
    simp only [Finset.sum_const, Finset.card_univ, Fintype.card_fin, nsmul_eq_mul, mul_one]
    exact_mod_cast hdr
  have hwf := waterfill k r hrk (fun i => s i ^ 2) w
    (fun i j hij hj => pow_le_pow_left₀ (hs0 j hj) (hs i j hij hj) 2)
    (fun i _ => sq_nonneg _) hw0 hw1 hws
  calc ‖∑ l, pairing 𝕜 k s u v (ε l) (β l)‖ ^ 2 ≤ (∑ l, ‖β l‖ * ‖m l‖) ^ 2 :=
        pow_le_pow_left₀ (norm_nonneg _) h1 2
    _ ≤ (∑ l, ‖β l‖ ^ 2) * ∑ l, ‖m l‖ ^ 2 := Finset.sum_mul_sq_le_sq_mul_sq _ _ _
    _ ≤ (∑ l, ‖β l‖ ^ 2) * ∑ i ∈ range r, s i ^ 2 := by
        rw [hsum]
        exact mul_le_mul_of_nonneg_left hwf (Finset.sum_nonneg (fun l _ => sq_nonneg _))
    _ = (∑ i ∈ range r, s i ^ 2) * ∑ l, ‖β l‖ ^ 2 := mul_comm _ _

/-! ### arbitrary left factors: orthonormalise -/

theorem pairing_sum_smul_left (k : ℕ) (s : ℕ → ℝ) (u : ℕ → E) (v : ℕ → F) {d : ℕ}
    (c : Fin d → 𝕜) (ε : Fin d → E) (b : F) :
    pairing 𝕜 k s u v (∑ l, c l • ε l) b = ∑ l, pairing 𝕜 k s u v (ε l) (c l • b) := by
  unfold pairing
  rw [Finset.sum_comm]
  refine Finset.sum_congr rfl (fun i _ => ?_)
  rw [sum_inner, Finset.mul_sum, Finset.sum_mul]
  refine Finset.sum_congr rfl (fun l _ => ?_)
  rw [inner_smul_left, inner_smul_left]
  ring

theorem pairing_sum_right (k : ℕ) (s : ℕ → ℝ) (u : ℕ → E) (v : ℕ → F) {ι : Type*}
    (t : Finset ι) (a : E) (b : ι → F) :
    pairing 𝕜 k s u v a (∑ j ∈ t, b j) = ∑ j ∈ t, pairing 𝕜 k s u v a (b j) := by
  unfold pairing
  rw [Finset.sum_comm]
  refine Finset.sum_congr rfl (fun i _ => ?_)
  rw [sum_inner, Finset.mul_sum]

/-- Every finite family lies in the span of an orthonormal family that is no longer. -/
theorem exists_orthonormal_coords (r : ℕ) (a : Fin r → E) :
    ∃ (d : ℕ) (_ : d ≤ r) (ε : Fin d → E) (c : Fin r → Fin d → 𝕜), Orthonormal 𝕜 ε ∧
      ∀ j, a j = ∑ l, c j l • ε l := by
  classical
  let S : Submodule 𝕜 E := Submodule.span 𝕜 (Set.range a)
  have : FiniteDimensional 𝕜 S := FiniteDimensional.span_of_finite 𝕜 (Set.finite_range a)
  let e := stdOrthonormalBasis 𝕜 S
  have hd : Module.finrank 𝕜 S ≤ r := by
    have := finrank_range_le_card (R := 𝕜) a
    simpa [Set.finrank] using this
  refine ⟨Module.finrank 𝕜 S, hd, fun l => (e l : E),
    fun j l => inner 𝕜 (e l) (⟨a j, Submodule.subset_span ⟨j, rfl⟩⟩ : S), ?_, fun j => ?_⟩
  · have := e.orthonormal.comp_linearIsometry S.subtypeₗᵢ
    exact this
  · have h := e.sum_repr' (⟨a j, Submodule.subset_span ⟨j, rfl⟩⟩ : S)
    have h' := congrArg (Subtype.val) h
    simp only [Submodule.coe_sum, Submodule.coe_smul] at h'
    exact h'.symm

/-- **Rank `r` (Eckart–Young–Mirsky for overlaps).**  For ARBITRARY `a_0 … a_{r-1} ∈ E`,
`b_0 … b_{r-1} ∈ F`, `r ≤ k`, `T = Σ_j a_j ⊗ b_j`:
`‖⟪T, M⟫‖² ≤ (Σ_{i<r} s_i²) · ‖T‖²`, where `‖T‖² = Σ_{j,j'} ⟪a_j,a_j'⟫ ⟪b_j,b_j'⟫`. -/
theorem pairing_rank_le (k r : ℕ) (hrk : r ≤ k) (s : ℕ → ℝ)
    (hs : ∀ i j, i ≤ j → j < k → s j ≤ s i) (hs0 : ∀ i, i < k → 0 ≤ s i)
    (u : ℕ → E) (v : ℕ → F)
    (hu : Orthonormal 𝕜 (fun i : Fin k => u i)) (hv : Orthonormal 𝕜 (fun i : Fin k => v i))
    (a : Fin r → E) (b : Fin r → F) :
    ‖∑ j, pairing 𝕜 k s u v (a j) (b j)‖ ^ 2
      ≤ (∑ i ∈ range r, s i ^ 2)
        * RCLike.re (∑ j, ∑ j', inner 𝕜 (a j) (a j') * inner 𝕜 (b j) (b j')) := by
  obtain ⟨d, hdr, ε, c, hε, hac⟩ := exists_orthonormal_coords (𝕜 := 𝕜) r a
  set β : Fin d → F := fun l => ∑ j, c j l • b j with hβ
  have h1 : ∑ j, pairing 𝕜 k s u v (a j) (b j) = ∑ l, pairing 𝕜 k s u v (ε l) (β l) := by
    have : ∀ j, pairing 𝕜 k s u v (a j) (b j) = ∑ l, pairing 𝕜 k s u v (ε l) (c j l • b j) := by
      intro j
      conv_lhs => rw [hac j]
      exact pairing_sum_smul_left k s u v (c j) ε (b j)
    simp only [this]
    rw [Finset.sum_comm]
    refine Finset.sum_congr rfl (fun l _ => ?_)
    rw [hβ]
    simp only
    rw [pairing_sum_right]
  have haa : ∀ j j', inner 𝕜 (a j) (a j') = ∑ l, (starRingEnd 𝕜) (c j l) * c j' l := by
    intro j j'
    rw [hac j, hac j']
    exact hε.inner_sum (c j) (c j') Finset.univ
  have h2 : ((∑ l, ‖β l‖ ^ 2 : ℝ) : 𝕜)
      = ∑ j, ∑ j', inner 𝕜 (a j) (a j') * inner 𝕜 (b j) (b j') := by
    push_cast
    have hb : ∀ l, ((‖β l‖ : 𝕜)) ^ 2
        = ∑ j, ∑ j', (starRingEnd 𝕜) (c j l) * c j' l * inner 𝕜 (b j) (b j') := by
      intro l
      rw [← inner_self_eq_norm_sq_to_K (𝕜 := 𝕜), hβ]
      simp only
      rw [sum_inner]
      refine Finset.sum_congr rfl (fun j _ => ?_)
      rw [inner_sum]
      refine Finset.sum_congr rfl (fun j' _ => ?_)
      rw [inner_smul_left, inner_smul_right]
      ring
    simp only [hb, haa, Finset.sum_mul]
    rw [Finset.sum_comm]
    refine Finset.sum_congr rfl (fun j _ => ?_)
    rw [Finset.sum_comm]
  have h3 : ∑ l, ‖β l‖ ^ 2
      = RCLike.re (∑ j, ∑ j', inner 𝕜 (a j) (a j') * inner 𝕜 (b j) (b j')) := by
    rw [← h2, RCLike.ofReal_re]
  rw [h1, ← h3]
  exact pairing_orth_le k r d hdr hrk s hs hs0 u v hu hv ε hε β

end Qclib.Schmidt
