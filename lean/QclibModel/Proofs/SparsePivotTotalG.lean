import QclibModel.Proofs.SparsePivotTotalF
/-
  C06 — PivotInitialize, whole circuit (part G): assembly.  Generic in the wire offset `off`
  (`0` without auxiliaries, `t − 1` with): the loop succeeds, `dense_state` is built, and the
  circuit `dense ; reversed pivot gates` prepares the dictionary.
-/
namespace Qclib.Sparse
open Qclib

theorem keys_length_le_pow {α : Type} (n : Nat) (d : Dict α) (hnd : d.keys.Nodup)
    (hlen : ∀ k ∈ d.keys, k.length = n) : d.length ≤ 2 ^ n := by
  have h1 : (d.keys.map strToNat).Nodup := by
    apply List.Nodup.map_on _ hnd
    intro x hx y hy e
    exact strToNat_inj n x y (hlen x hx) (hlen y hy) e
  have h2 : d.keys.map strToNat ⊆ List.range (2 ^ n) := by
    intro x hx
    obtain ⟨k, hk, rfl⟩ := List.mem_map.mp hx
    rw [List.mem_range, ← hlen k hk]
    exact strToNat_lt k
  have := (List.subperm_of_subset h1 h2).length_le
  simpa [Dict.keys] using this

theorem mem_shift (t off w : Nat) : w ∈ (List.range t).map (· + off) ↔ off ≤ w ∧ w < off + t := by
  rw [List.mem_map]
  constructor
  · rintro ⟨a, ha, rfl⟩
    rw [List.mem_range] at ha; omega
  · intro h
    exact ⟨w - off, List.mem_range.mpr (by omega), by omega⟩

theorem wiresIdx_low_off (n t off : Nat) (ht : t ≤ n) (b : Bits)
    (hlow : inLow n t (keyOf (fun i => n + off - 1 - i) n b)) :
    wiresIdx ((List.range t).map (· + off)) b
      = strToNat (keyOf (fun i => n + off - 1 - i) n b) := by
  have e1 : keyOf (fun i => n + off - 1 - i) n b
      = keyOf (fun i => n - 1 - i) n (fun w => b (w + off)) := by
    unfold keyOf
    apply List.map_congr_left
    intro i hi
    rw [List.mem_range] at hi
    show b (n + off - 1 - i) = b (n - 1 - i + off)
    congr 1; omega
  rw [e1] at hlow ⊢
  rw [← wiresIdx_low n t ht _ hlow]
  unfold wiresIdx
  rw [← List.map_reverse, List.map_map]
  rfl

section
variable {Θ R : Type} [CommRing R] [RotSem Θ R] [NumOps Θ]

/-- **assembly** (any offset): for a dictionary of `m ≥ 2` distinct `n`-character keys,
`t = ⌈log₂ m⌉`, the loop with fuel `m` returns, `dense_state` is built, and
`dense ; reversed pivot gates` maps `ψ₀` (supported on "all `n + off` circuit wires `0`") to
`amplitude(key on the data wires) · ψ₀(label with the data wires cleared)`. -/
theorem pivot_assemble (iu : R) (dn : List Nat → List (Amp Θ) → State R → State R)
    (amp : Amp Θ → R) (hamp0 : amp zeroAmp = 0) (n off : Nat) (aux : Bool) (d : Dict Θ)
    (hnd : d.keys.Nodup) (hlen : ∀ k ∈ d.keys, k.length = n) (hm2 : 2 ≤ d.length)
    (hstep : StepSem iu dn (fun q => n + off - 1 - q) n (ceilLog2 d.length) aux
      (fun b => ∀ w, w < off → b w = false)) :
    ceilLog2 d.length ≤ n ∧
    ∃ (st : Dict Θ) (g : List (SG Θ)) (e : List (PStep Θ)) (v : List (Amp Θ)),
      pivotLoop n (ceilLog2 d.length) d.length aux d.length d [] [] = some (st, g, e) ∧
      denseVec (ceilLog2 d.length) st = some v ∧ v.length = 2 ^ ceilLog2 d.length ∧
      (DenseOn amp dn ((List.range (ceilLog2 d.length)).map (· + off)) v →
        ∀ ψ0 : State R, (∀ b : Bits, (∃ w, w < n + off ∧ b w = true) → ψ0 b = 0) →
        ∀ b : Bits,
          semSG iu dn (SG.dense ((List.range (ceilLog2 d.length)).map (· + off)) v ::
              (g.map (SG.mapWires (fun q => n + off - 1 - q))).reverse) ψ0 b
            = amp ((d.lookup (keyOf (fun i => n + off - 1 - i) n b)).getD zeroAmp)
              * ψ0 (clearWires ((List.range n).map (· + off)) b)) := by
  obtain ⟨hmt, htm, hmin⟩ := ceilLog2_spec d.length
  have hmn := keys_length_le_pow n d hnd hlen
  have htn : ceilLog2 d.length ≤ n := hmin n hmn
  have ht1 : 1 ≤ ceilLog2 d.length := by
    by_contra h
    have : ceilLog2 d.length = 0 := by omega
    rw [this] at hmt; simp at hmt; omega
  refine ⟨htn, ?_⟩
  generalize ceilLog2 d.length = t at *
  have hinv : PInv n d.length d := ⟨hnd, hlen, rfl⟩
  have hr : ∀ i j, i < n → j < n → n + off - 1 - i = n + off - 1 - j → i = j := by
    intro i j hi hj e; omega
  have hfuel : highCount (n - t) d ≤ d.length := by
    unfold highCount
    have := List.countP_le_length (p := isHigh (n - t)) (l := d.keys)
    simpa [Dict.keys] using this
  obtain ⟨st, gs, es, F, P, hloop, hexit, hst, hinv', hFinj, hFlen, hP, hkey, hout⟩ :=
    pivotLoop_total iu dn (fun q => n + off - 1 - q) n t d.length aux
      (fun b => ∀ w, w < off → b w = false)
      (by
        intro b b' hbb hb w hw
        rw [hbb w (by intro i hi; show n + off - 1 - i ≠ w; omega)]
        exact hb w hw)
      hstep ht1 hmt htm d.length d [] [] hinv hfuel
  obtain ⟨hnd', hlen', _⟩ := hinv'
  have hlt := exit_all_low n t htn st hlen' hexit
  obtain ⟨v, hv, hvl, hvget⟩ := denseVec_spec n t st hnd' hlen' hlt
  refine ⟨st, gs, es, v, by simpa using hloop, hv, hvl, ?_⟩
  intro hdn ψ0 hψ0 b
  have hlowkeys : ∀ k ∈ st.keys, inLow n t k := by
    intro k hk
    rw [getIndexNz_eq, List.find?_eq_none] at hexit
    have := hexit k hk
    rw [← isHigh_false_iff n t k (hlen' k hk)]
    simpa using this
  have hψws : ∀ b' : Bits, (∃ w ∈ (List.range t).map (· + off), b' w = true) → ψ0 b' = 0 := by
    rintro b' ⟨w, hw, hb'⟩
    rw [mem_shift] at hw
    exact hψ0 b' ⟨w, by omega, hb'⟩
  show semSG iu dn ((gs.map (SG.mapWires (fun q => n + off - 1 - q))).reverse)
      (dn ((List.range t).map (· + off)) v ψ0) b = _
  rw [hP, hdn ψ0 hψws]
  by_cases hcl : ∀ w, w < off → b w = false
  · -- clean auxiliaries: the key of `P b` is `F (key of b)`
    have hk := hkey b hcl
    have hklen : (keyOf (fun i => n + off - 1 - i) n b).length = n := keyOf_length _ _ _
    have hlk : (st.lookup (F (keyOf (fun i => n + off - 1 - i) n b)))
        = d.lookup (keyOf (fun i => n + off - 1 - i) n b) := by
      rw [hst]; exact lookup_mapKeys_inj n F hFinj d hlen _ hklen
    by_cases hlow : inLow n t (F (keyOf (fun i => n + off - 1 - i) n b))
    · rw [wiresIdx_low_off n t off htn (P b) (by rw [hk]; exact hlow), hk,
        hvget _ (hFlen _ hklen), hlk]
      congr 1
      congr 1
      funext w
      unfold clearWires
      by_cases hw1 : off ≤ w ∧ w < off + n
      · have hc2 : ((List.range n).map (· + off)).contains w = true := by
          rw [List.contains_iff_mem, mem_shift]; exact hw1
        rw [hc2]
        by_cases hw2 : w < off + t
        · have hc1 : ((List.range t).map (· + off)).contains w = true := by
            rw [List.contains_iff_mem, mem_shift]; exact ⟨hw1.1, hw2⟩
          rw [hc1]; rfl
        · have hc1 : ((List.range t).map (· + off)).contains w = false := by
            rw [Bool.eq_false_iff]; intro h
            rw [List.contains_iff_mem, mem_shift] at h; omega
          rw [hc1]
          have hi : n + off - 1 - w < n - t := by omega
          have := hlow (n + off - 1 - w) hi
          rw [← hk, bitAt_keyOf, if_pos (by omega)] at this
          have e : n + off - 1 - (n + off - 1 - w) = w := by omega
          rw [e] at this
          simpa using this
      · have hc2 : ((List.range n).map (· + off)).contains w = false := by
          rw [Bool.eq_false_iff]; intro h
          rw [List.contains_iff_mem, mem_shift] at h; exact hw1 h
        have hc1 : ((List.range t).map (· + off)).contains w = false := by
          rw [Bool.eq_false_iff]; intro h
          rw [List.contains_iff_mem, mem_shift] at h; omega
        rw [hc1, hc2]
        simp only [Bool.false_eq_true, if_false]
        exact hout b w (by intro i hi; show n + off - 1 - i ≠ w; omega)
    · -- the image is outside the low block: zero on both sides
      have hex : ∃ i, i < n - t ∧ bitAt (F (keyOf (fun i => n + off - 1 - i) n b)) i = true := by
        by_contra h
        apply hlow
        intro i hi
        by_contra hb
        exact h ⟨i, hi, by simpa using hb⟩
      obtain ⟨i, hi, hbi⟩ := hex
      rw [← hk, bitAt_keyOf, if_pos (by omega)] at hbi
      have h0 : ψ0 (clearWires ((List.range t).map (· + off)) (P b)) = 0 := by
        apply hψ0
        refine ⟨n + off - 1 - i, by omega, ?_⟩
        unfold clearWires
        have hc1 : ((List.range t).map (· + off)).contains (n + off - 1 - i) = false := by
          rw [Bool.eq_false_iff]; intro h
          rw [List.contains_iff_mem, mem_shift] at h; omega
        rw [hc1]; simpa using hbi
      have hnone : d.lookup (keyOf (fun i => n + off - 1 - i) n b) = none := by
        rw [← hlk]
        apply lookup_none_of_not_mem
        intro hmem
        exact hlow (hlowkeys _ hmem)
      rw [h0, hnone]
      simp [hamp0]
  · -- a dirty auxiliary wire: zero on both sides
    have hex : ∃ a, a < off ∧ b a = true := by
      by_contra h
      apply hcl
      intro w hw
      by_contra hb
      exact h ⟨w, hw, by simpa using hb⟩
    obtain ⟨a, ha, hba⟩ := hex
    have hPa : P b a = true := by
      rw [hout b a (by intro i hi; show n + off - 1 - i ≠ a; omega)]; exact hba
    have h1 : ψ0 (clearWires ((List.range t).map (· + off)) (P b)) = 0 := by
      apply hψ0
      refine ⟨a, by omega, ?_⟩
      unfold clearWires
      have hc1 : ((List.range t).map (· + off)).contains a = false := by
        rw [Bool.eq_false_iff]; intro h
        rw [List.contains_iff_mem, mem_shift] at h; omega
      rw [hc1]; simpa using hPa
    have h2 : ψ0 (clearWires ((List.range n).map (· + off)) b) = 0 := by
      apply hψ0
      refine ⟨a, by omega, ?_⟩
      unfold clearWires
      have hc1 : ((List.range n).map (· + off)).contains a = false := by
        rw [Bool.eq_false_iff]; intro h
        rw [List.contains_iff_mem, mem_shift] at h; omega
      rw [hc1]; simpa using hba
    rw [h1, h2]; simp

end
end Qclib.Sparse
