import QclibModel.Proofs.BaaNestedFin
import QclibModel.Proofs.BaaExact
import QclibModel.Proofs.SchmidtOptimalReindex
/-
  C08, true loss for `n ≤ 3`: the link between the model's plan tensor (factors placed through
  `gather`/`toBits` on interleaved registers) and the bipartition-matrix form of
  `C08_rank1_loss`.

  For every node reachable while at most one register has more than one qubit (all nodes when
  `n ≤ 3`), under the SVD specification of the oracle's answers, the overlap of the input vector
  with the plan's product state — with the factor of the still entangled register replaced by an
  ARBITRARY vector `w` — is `z · ⟨current factor | w⟩` with `conj(z)·z = 1 − total_fidelity_loss`.
  This is `childOf_semOK`'s index bookkeeping redone for inner products.
-/
namespace Qclib.Baa
open Qclib.Schmidt Finset

section defs
variable {R : Type} [CommRing R] [StarRing R]

/-- `⟨x|y⟩` over the first `m` entries. -/
def ipTo (m : Nat) (x y : Nat → R) : R := sumTo m (fun i => star (x i) * y i)

/-- Amplitude at the global axis values `b` of the product state that puts `f e` on register `e`. -/
def planValueF (f : Entry → Nat → R) (entries : List Entry) (b : List Bool) : R :=
  (entries.map (fun e => f e (ofBits (gather e.qubits b)))).prod

/-- `⟨v | product state⟩` over all `2^n` indices. -/
def ovF (n : Nat) (v : Nat → R) (f : Entry → Nat → R) (entries : List Entry) : R :=
  sumTo (2 ^ n) (fun I => star (v I) * planValueF f entries (toBits n I))

/-- `∏ ⟨val e | f e⟩` over the registers that can still be split (`rank 0`). -/
def freeProd (val : Nat → Nat → R) (f : Entry → Nat → R) (entries : List Entry) : R :=
  (entries.map (fun e =>
    if e.rank = 0 then ipTo (2 ^ e.qubits.length) (val e.vec) (f e) else 1)).prod

theorem ipTo_congr (m : Nat) (x x' y y' : Nat → R) (hx : ∀ i, i < m → x i = x' i)
    (hy : ∀ i, i < m → y i = y' i) : ipTo m x y = ipTo m x' y' := by
  unfold ipTo
  exact sumTo_congr _ _ _ (fun i hi => by rw [hx i hi, hy i hi])

/-- `⟨v | x ⊗ y placed through the reshape⟩` is the entry-wise inner product of the bipartition
matrix of `v` with `x ⊗ y`. -/
theorem ipTo_split {m : Nat} {lp : List Nat} (hv : ValidAxes m lp) (v x y : Nat → R) :
    ipTo (2 ^ m) v (fun i => x (sepIndexAx m lp i).1 * y (sepIndexAx m lp i).2)
      = inner2 star (2 ^ (m - lp.length)) (2 ^ lp.length) (sepMat m lp v) (fun r c => x r * y c) := by
  exact sumTo_inner_undoVec hv v (fun r c => x r * y c)

end defs

/-! ### the SVD specification of the oracle's answers -/

/-- What `schmidt_decomposition` / `low_rank_approximation` are specified to return, for the use
`_reduce_entanglement` / `_create_node` make of it.  Losses live in the ordered ring `K`, amplitudes
in `R` (e.g. `ℝ → ℂ`), `ι` the embedding.
* A rank-1 answer: the bipartition matrix of the vector across the local partition is
  `Σ_{i<k} U[:,i] σ_i V[i,:]`, the leading column `U₀` and row `V₀` are normalised and orthogonal to
  the others, the two new vectors are `svd_u[:, 0] = U₀`, `svd_v.T[:, 0] = V₀`, and
  `fidelity_loss = 1 − σ₀²`.
* An answer of higher rank: the approximate state has overlap `z` with the vector, where
  `|z|² = 1 − fidelity_loss` (the conclusion of `C07_fidelity` for the renormalised truncation). -/
def SvdSplits {K R : Type} [CommRing K] [CommRing R] [StarRing R] (ι : K →+* R) (O : Oracle K)
    (val : Nat → Nat → R) (size : Nat → Nat) : Prop :=
  ∀ vec lp u, ∀ s ∈ O.schmidt vec lp u, lp.Pairwise (· < ·) → (∀ a ∈ lp, a < size vec) →
    (s.rank = 1 → size s.vecV = lp.length ∧ size s.vecU = size vec - lp.length ∧
      ∃ (k : Nat) (U : Nat → Nat → R) (σ : Nat → R) (V : Nat → Nat → R), 0 < k ∧
        (∀ r c, r < 2 ^ (size vec - lp.length) → c < 2 ^ lp.length →
          sepMat (size vec) lp (val vec) r c = composeMat k U σ V r c) ∧
        (∀ i, i < k → gramCols (2 ^ (size vec - lp.length)) U i 0 = if i = 0 then 1 else 0) ∧
        (∀ i, i < k → gramRows (2 ^ lp.length) V i 0 = if i = 0 then 1 else 0) ∧
        (∀ r, r < 2 ^ (size vec - lp.length) → val s.vecU r = U r 0) ∧
        (∀ c, c < 2 ^ lp.length → val s.vecV c = V 0 c) ∧
        star (σ 0) * σ 0 = ι (1 - s.loss)) ∧
    (s.rank ≠ 1 → size s.vecA = size vec ∧
      ∃ z : R, ipTo (2 ^ size vec) (val vec) (val s.vecA) = z ∧ star z * z = ι (1 - s.loss))

/-! ### the invariant -/

structure TLInv {K R : Type} [CommRing K] [CommRing R] [StarRing R] (ι : K →+* R) (n vec : Nat)
    (val : Nat → Nat → R) (size : Nat → Nat) (nd : Node K) : Prop where
  sizes : ∀ e ∈ nd.entries, size e.vec = e.qubits.length
  normed : ∀ e ∈ nd.entries, e.rank = 0 → ipTo (2 ^ e.qubits.length) (val e.vec) (val e.vec) = 1
  overlap : ∃ z : R, star z * z = ι (1 - nd.totalLoss) ∧
    ∀ f : Entry → Nat → R, (∀ e ∈ nd.entries, e.rank ≠ 0 → f e = val e.vec) →
      ovF n (val vec) f nd.entries = z * freeProd val f nd.entries

section step
variable {K R : Type} [CommRing K] [LinearOrder K] [CommRing R] [StarRing R]

omit [StarRing R] in
theorem prod_map_eq_one {β : Type} (l : List β) (g : β → R) (h : ∀ x ∈ l, g x = 1) :
    (l.map g).prod = 1 := by
  induction l with
  | nil => rfl
  | cons x xs ih =>
    rw [List.map_cons, List.prod_cons, h x (by simp), ih (fun y hy => h y (by simp [hy])), mul_one]

theorem childOf_trueLoss (ι : K →+* R) (O : Oracle K) (P : Params K) (n vec : Nat)
    (val : Nat → Nat → R) (size : Nat → Nat) (hspec : SvdSplits ι O val size) (hR : RankPos O)
    (hprop : ProperCandidates (orderedOps K) O P.strategy) (hn3 : n ≤ 3)
    (path : List (Node K)) (nd c : Node K) (hsh : ShapeInv n path nd)
    (hi : TLInv ι n vec val size nd) (hc : ChildOf (orderedOps K) O P nd c) :
    TLInv ι n vec val size c := by
  have hshc := childOf_shape (orderedOps K) O P n hR hprop path nd c hsh hc
  obtain ⟨ent, part, e, k0, hent, hr0, hpart, he, _, hcn, _⟩ := hc
  have hs := hsh.reg.sorted ent hent
  have hcand := candidates_ok _ O P.strategy ent _ hs part hpart
  have hf := reduceEntanglement_fields O _ _ _ _ e he
  have hlen2 : 2 ≤ ent.qubits.length := by
    have h1 := hsh.reg.rank0 ent hent hr0
    have h2 := hsh.nonempty ent hent
    have : ent.qubits.length ≠ 0 := fun h => h2 (List.length_eq_zero_iff.mp h)
    omega
  have hck := clampK_range k0 _ hlen2
  have hpr := hprop ent _ hlen2 hck.1 hck.2 part hpart
  obtain ⟨idx, orig, hidx, horig, _, _, _, hnl, htl, hentries⟩ := createNode_some _ O nd c e hcn
  rw [hf.1] at hidx
  have huniq := unique_register n nd.entries hsh.reg ent hent (hsh.nonempty ent hent) idx orig
    hidx horig
  subst huniq
  obtain ⟨s, hsm, hls, hrk, hvV, hvU, hvA⟩ := reduceEntanglement_vecs O _ _ _ _ e he
  have hrpos : 1 ≤ e.rank := by rw [hrk]; exact hR _ _ _ s hsm
  have hl := localPartition_spec orig.qubits part hs hcand.1 hcand.2
  have hsz := hi.sizes orig hent
  have hsp := hspec orig.vec _ P.ulr s hsm hl.2.1 (by rw [hsz]; exact hl.2.2.1)
  have hfl := filter_length_lt orig.qubits part hcand.1 hcand.2 hs
  have hp1 : sortU (orig.qubits.filter (fun q => !part.contains q))
      = orig.qubits.filter (fun q => !part.contains q) := sortU_of_pairwise _ (hs.filter _)
  have hlpl : (localPartition orig.qubits part).length = part.length := by
    rw [hl.1, List.length_map]
  have hva : ValidAxes orig.qubits.length (localPartition orig.qubits part) :=
    ⟨hl.2.1.imp (fun h => by omega), hl.2.2.1⟩
  -- the entries that stay are closed (single qubits)
  have hno : ns orig = 1 := by unfold ns; rw [if_neg (by omega)]
  have hnsum := sum_map_eraseIdx ns nd.entries idx orig horig
  have hErank : ∀ x ∈ nd.entries.eraseIdx idx, x.rank ≠ 0 := by
    intro x hx h0
    have hxm : x ∈ nd.entries := List.mem_of_mem_eraseIdx hx
    have h1 := le_sum_map_of_mem ns _ x hx
    have h2 := hsh.single hn3
    have h3 : ns x = 0 := by omega
    have h4 := hsh.reg.rank0 x hxm h0
    unfold ns at h3
    rw [if_neg h4] at h3
    exact absurd h3 (by decide)
  have hnsnew : ((newEntries e orig).map ns).sum ≤ 1 := by
    have := hshc.single hn3
    rw [hentries, List.map_append, List.sum_append] at this
    omega
  -- total loss
  have htot : ι (1 - c.totalLoss) = ι (1 - nd.totalLoss) * ι (1 - s.loss) := by
    rw [htl, compose_ordered, ← map_mul, hls]
    congr 1
    ring
  obtain ⟨z, hz, hov⟩ := hi.overlap
  -- splitting the parent's products at `orig`
  have hplanF : ∀ (f : Entry → Nat → R) (b : List Bool), planValueF f nd.entries b
      = f orig (ofBits (gather orig.qubits b)) * planValueF f (nd.entries.eraseIdx idx) b := by
    intro f b
    exact prod_eraseIdx (fun e => f e (ofBits (gather e.qubits b))) nd.entries idx orig horig
  have hfreeF : ∀ (f : Entry → Nat → R), freeProd val f nd.entries
      = ipTo (2 ^ orig.qubits.length) (val orig.vec) (f orig) := by
    intro f
    unfold freeProd
    rw [prod_eraseIdx (fun e => if e.rank = 0 then ipTo (2 ^ e.qubits.length) (val e.vec) (f e)
      else 1) nd.entries idx orig horig, if_pos hr0, prod_map_eq_one, mul_one]
    intro x hx
    rw [if_neg (hErank x hx)]
  by_cases h1 : e.rank = 1
  · -- rank 1: two new registers
    obtain ⟨hsV, hsU, k, U, σ, V, hk, hsvd, hU, hV, hvalU, hvalV, hσ⟩ :=
      hsp.1 (by rw [← hrk]; exact h1)
    simp only [hsz, hlpl] at hsV hsU hsvd hU hV hvalU hvalV
    set rest := orig.qubits.filter (fun q => !part.contains q) with hrest
    have hrl : rest.length = orig.qubits.length - part.length := by omega
    set eV : Entry := ⟨e.vecV, part, if part.length = 1 then 1 else 0, none⟩ with heV
    set eU : Entry := ⟨e.vecU, rest, if rest.length = 1 then 1 else 0, none⟩ with heU
    have hnew : newEntries e orig = [eV, eU] := by
      unfold newEntries
      rw [if_pos h1, hf.2.1, hp1]
    rw [hnew] at hentries hnsnew
    have hone : part.length = 1 ∨ rest.length = 1 := by
      simp only [List.map_cons, List.map_nil, List.sum_cons, List.sum_nil, ns, heV, heU] at hnsnew
      by_contra hcon
      rw [not_or] at hcon
      rw [if_neg hcon.1, if_neg hcon.2] at hnsnew
      omega
    have hnormU : ipTo (2 ^ rest.length) (val e.vecU) (val e.vecU) = 1 := by
      have := hU 0 hk
      rw [if_pos rfl] at this
      rw [← this, hrl]
      unfold gramCols ipTo
      exact sumTo_congr _ _ _ (fun r hr => by rw [hvU, hvalU r hr])
    have hnormV : ipTo (2 ^ part.length) (val e.vecV) (val e.vecV) = 1 := by
      have := hV 0 hk
      rw [if_pos rfl] at this
      rw [← this]
      unfold gramRows ipTo
      exact sumTo_congr _ _ _ (fun r hr => by rw [hvV, hvalV r hr])
    refine ⟨?_, ?_, ⟨z * star (σ 0), ?_, ?_⟩⟩
    · intro x hx
      rw [hentries] at hx
      rcases List.mem_append.mp hx with hx | hx
      · exact hi.sizes x (List.mem_of_mem_eraseIdx hx)
      · simp only [List.mem_cons, List.not_mem_nil, or_false] at hx
        rcases hx with rfl | rfl
        · simp only [heV]; rw [hvV, hsV]
        · simp only [heU]; rw [hvU, hsU, hrl]
    · intro x hx hx0
      rw [hentries] at hx
      rcases List.mem_append.mp hx with hx | hx
      · exact absurd hx0 (hErank x hx)
      · simp only [List.mem_cons, List.not_mem_nil, or_false] at hx
        rcases hx with rfl | rfl
        · exact hnormV
        · exact hnormU
    · rw [htot, ← hz, ← hσ, star_mul, star_star]
      ring
    · intro f' hf'
      -- the parent's plan with `orig` carrying the product of the two new factors
      set w : Nat → R := fun i =>
        f' eU (sepIndexAx orig.qubits.length (localPartition orig.qubits part) i).1
          * f' eV (sepIndexAx orig.qubits.length (localPartition orig.qubits part) i).2 with hw
      set f : Entry → Nat → R := fun x => if x.rank = 0 then w else val x.vec with hfdef
      have hfc : ∀ x ∈ nd.entries, x.rank ≠ 0 → f x = val x.vec := by
        intro x _ hx
        simp only [hfdef]
        rw [if_neg hx]
      have hforig : f orig = w := by simp only [hfdef]; rw [if_pos hr0]
      have hEr : ∀ b, planValueF f' (nd.entries.eraseIdx idx) b
          = planValueF f (nd.entries.eraseIdx idx) b := by
        intro b
        unfold planValueF
        congr 1
        apply List.map_congr_left
        intro x hx
        rw [hfc x (List.mem_of_mem_eraseIdx hx) (hErank x hx),
          hf' x (by rw [hentries]; exact List.mem_append_left _ hx) (hErank x hx)]
      have hpv : ∀ b, planValueF f' c.entries b = planValueF f nd.entries b := by
        intro b
        rw [hplanF f b, hforig, ← hEr b]
        simp only [hw]
        rw [split_index orig.qubits part hs hcand.1 hcand.2 b]
        unfold planValueF
        rw [hentries, List.map_append, List.prod_append]
        simp only [List.map_cons, List.map_nil, List.prod_cons, List.prod_nil, mul_one, heV, heU]
        ring
      have hovc : ovF n (val vec) f' c.entries = ovF n (val vec) f nd.entries := by
        unfold ovF
        exact sumTo_congr _ _ _ (fun I _ => by rw [hpv])
      rw [hovc, hov f hfc, hfreeF f, hforig]
      simp only [hw]
      rw [ipTo_split hva, hlpl,
        inner2_congr _ _ _ (composeMat k U σ V) _ (fun r c => f' eU r * f' eV c) hsvd
          (fun _ _ _ _ => rfl)]
      -- the child's product of free overlaps
      have hfreec : freeProd val f' c.entries
          = (if eV.rank = 0 then ipTo (2 ^ part.length) (val e.vecV) (f' eV) else 1)
            * (if eU.rank = 0 then ipTo (2 ^ rest.length) (val e.vecU) (f' eU) else 1) := by
        unfold freeProd
        rw [hentries, List.map_append, List.prod_append, prod_map_eq_one _ _ (fun x hx => by
          rw [if_neg (hErank x hx)]), one_mul]
        simp only [List.map_cons, List.map_nil, List.prod_cons, List.prod_nil, mul_one, heV, heU]
      rw [hfreec]
      have hmemV : eV ∈ c.entries := by rw [hentries]; simp
      have hmemU : eU ∈ c.entries := by rw [hentries]; simp
      rcases hone with hp | hq
      · -- the partition is a single qubit, kept exactly
        have hrankV : eV.rank = 1 := by simp only [heV]; rw [if_pos hp]
        have hfV : f' eV = val e.vecV := hf' eV hmemV (by rw [hrankV]; decide)
        have hnV : ¬ eV.rank = 0 := by rw [hrankV]; decide
        rw [if_neg hnV, one_mul,
          inner2_congr _ _ (composeMat k U σ V) (composeMat k U σ V) _
            (fun r c => f' eU r * V 0 c) (fun _ _ _ _ => rfl)
            (fun r c _ hc => by rw [hfV, hvV, hvalV c hc]),
          nested_overlap_row _ _ k hk U σ V (f' eU) hV]
        by_cases hq : rest.length = 1
        · have hrankU : eU.rank = 1 := by simp only [heU]; rw [if_pos hq]
          have hfU : f' eU = val e.vecU := hf' eU hmemU (by rw [hrankU]; decide)
          have hnU : ¬ eU.rank = 0 := by rw [hrankU]; decide
          rw [if_neg hnU, mul_one]
          have : sumTo (2 ^ (orig.qubits.length - part.length)) (fun r => star (U r 0) * f' eU r)
              = 1 := by
            have h0 := hU 0 hk
            rw [if_pos rfl] at h0
            rw [← h0]
            unfold gramCols
            exact sumTo_congr _ _ _ (fun r hr => by rw [hfU, hvU, hvalU r hr])
          rw [this]
          ring
        · have hrankU : eU.rank = 0 := by simp only [heU]; rw [if_neg hq]
          rw [if_pos hrankU]
          have : sumTo (2 ^ (orig.qubits.length - part.length)) (fun r => star (U r 0) * f' eU r)
              = ipTo (2 ^ rest.length) (val e.vecU) (f' eU) := by
            rw [hrl]
            unfold ipTo
            exact sumTo_congr _ _ _ (fun r hr => by rw [hvU, hvalU r hr])
          rw [this]
          ring
      · -- the rest is a single qubit, kept exactly
        have hrankU : eU.rank = 1 := by simp only [heU]; rw [if_pos hq]
        have hfU : f' eU = val e.vecU := hf' eU hmemU (by rw [hrankU]; decide)
        have hnU : ¬ eU.rank = 0 := by rw [hrankU]; decide
        rw [if_neg hnU, mul_one,
          inner2_congr _ _ (composeMat k U σ V) (composeMat k U σ V) _
            (fun r c => U r 0 * f' eV c) (fun _ _ _ _ => rfl)
            (fun r c hr _ => by rw [hfU, hvU, hvalU r hr]),
          nested_overlap_col _ _ k hk U σ V (f' eV) hU]
        by_cases hp : part.length = 1
        · have hrankV : eV.rank = 1 := by simp only [heV]; rw [if_pos hp]
          have hfV : f' eV = val e.vecV := hf' eV hmemV (by rw [hrankV]; decide)
          have hnV : ¬ eV.rank = 0 := by rw [hrankV]; decide
          rw [if_neg hnV]
          have : sumTo (2 ^ part.length) (fun c => star (V 0 c) * f' eV c) = 1 := by
            have h0 := hV 0 hk
            rw [if_pos rfl] at h0
            rw [← h0]
            unfold gramRows
            exact sumTo_congr _ _ _ (fun r hr => by rw [hfV, hvV, hvalV r hr])
          rw [this]
          ring
        · have hrankV : eV.rank = 0 := by simp only [heV]; rw [if_neg hp]
          rw [if_pos hrankV]
          have : sumTo (2 ^ part.length) (fun c => star (V 0 c) * f' eV c)
              = ipTo (2 ^ part.length) (val e.vecV) (f' eV) := by
            unfold ipTo
            exact sumTo_congr _ _ _ (fun r hr => by rw [hvV, hvalV r hr])
          rw [this]
          ring
  · -- higher rank: the register is replaced by the approximate state and closed
    obtain ⟨hsA, ζ, hζ, hζ2⟩ := hsp.2 (by rw [← hrk]; exact h1)
    rw [hsz] at hsA hζ
    set eA : Entry := ⟨e.vecA, orig.qubits, e.rank, some e.localPartition⟩ with heA
    have hnew : newEntries e orig = [eA] := by
      unfold newEntries
      rw [if_neg h1]
    rw [hnew] at hentries
    have hrankA : eA.rank ≠ 0 := by simp only [heA]; omega
    refine ⟨?_, ?_, ⟨z * ζ, ?_, ?_⟩⟩
    · intro x hx
      rw [hentries] at hx
      rcases List.mem_append.mp hx with hx | hx
      · exact hi.sizes x (List.mem_of_mem_eraseIdx hx)
      · simp only [List.mem_singleton] at hx
        subst hx
        simp only [heA]; rw [hvA, hsA]
    · intro x hx hx0
      rw [hentries] at hx
      rcases List.mem_append.mp hx with hx | hx
      · exact absurd hx0 (hErank x hx)
      · simp only [List.mem_singleton] at hx
        subst hx
        exact absurd hx0 hrankA
    · rw [htot, ← hz, ← hζ2, star_mul]
      ring
    · intro f' hf'
      set f : Entry → Nat → R := fun x => if x.rank = 0 then val e.vecA else val x.vec with hfdef
      have hfc : ∀ x ∈ nd.entries, x.rank ≠ 0 → f x = val x.vec := by
        intro x _ hx
        simp only [hfdef]
        rw [if_neg hx]
      have hforig : f orig = val e.vecA := by simp only [hfdef]; rw [if_pos hr0]
      have hmemA : eA ∈ c.entries := by rw [hentries]; simp
      have hfA : f' eA = val e.vecA := hf' eA hmemA hrankA
      have hEr : ∀ b, planValueF f' (nd.entries.eraseIdx idx) b
          = planValueF f (nd.entries.eraseIdx idx) b := by
        intro b
        unfold planValueF
        congr 1
        apply List.map_congr_left
        intro x hx
        rw [hfc x (List.mem_of_mem_eraseIdx hx) (hErank x hx),
          hf' x (by rw [hentries]; exact List.mem_append_left _ hx) (hErank x hx)]
      have hpv : ∀ b, planValueF f' c.entries b = planValueF f nd.entries b := by
        intro b
        rw [hplanF f b, hforig, ← hEr b]
        unfold planValueF
        rw [hentries, List.map_append, List.prod_append]
        simp only [List.map_cons, List.map_nil, List.prod_cons, List.prod_nil, mul_one]
        rw [hfA, mul_comm]
      have hovc : ovF n (val vec) f' c.entries = ovF n (val vec) f nd.entries := by
        unfold ovF
        exact sumTo_congr _ _ _ (fun I _ => by rw [hpv])
      rw [hovc, hov f hfc, hfreeF f, hforig, hvA, hζ]
      have hfreec : freeProd val f' c.entries = 1 := by
        unfold freeProd
        apply prod_map_eq_one
        intro x hx
        rw [hentries] at hx
        rcases List.mem_append.mp hx with hx | hx
        · rw [if_neg (hErank x hx)]
        · simp only [List.mem_singleton] at hx
          subst hx
          rw [if_neg hrankA]
      rw [hfreec, mul_one]

end step

/-! ### the root, reachable nodes, and the returned plan -/

section reach
variable {K R : Type} [CommRing K] [LinearOrder K] [CommRing R] [StarRing R]

theorem rootNode_trueLoss (ι : K →+* R) (n vec : Nat) (val : Nat → Nat → R) (size : Nat → Nat)
    (hsize : size vec = n) (hunit : ipTo (2 ^ n) (val vec) (val vec) = 1) :
    TLInv ι n vec val size (rootNode (orderedOps K) n vec) := by
  refine ⟨?_, ?_, ⟨1, ?_, ?_⟩⟩
  · intro e he
    simp only [rootNode, List.mem_singleton] at he
    subst he
    simpa using hsize
  · intro e he _
    simp only [rootNode, List.mem_singleton] at he
    subst he
    simpa using hunit
  · simp [rootNode, orderedOps]
  · intro f _
    simp only [rootNode, ovF, freeProd, planValueF, List.map_cons, List.map_nil, List.prod_cons,
      List.prod_nil, mul_one, if_true, one_mul, List.length_range, ipTo]
    refine sumTo_congr _ _ _ (fun I hI => ?_)
    have hr : gather (List.range n) (toBits n I) = toBits n I := by
      have := map_getD_range (toBits n I)
      rwa [length_toBits] at this
    rw [hr, ofBits_toBits, Nat.mod_eq_of_lt hI]

/-- Along every path of the search, for `n ≤ 3`: shape and true-loss invariants together. -/
theorem reach_trueLoss (ι : K →+* R) (O : Oracle K) (P : Params K) (n vec k0 : Nat) (hn : 2 ≤ n)
    (hn3 : n ≤ 3) (val : Nat → Nat → R) (size : Nat → Nat) (hsize : size vec = n)
    (hunit : ipTo (2 ^ n) (val vec) (val vec) = 1) (hspec : SvdSplits ι O val size)
    (hR : RankPos O) (hprop : ProperCandidates (orderedOps K) O P.strategy)
    (path : List (Node K)) (nd : Node K) (k : Nat)
    (h : Reach (orderedOps K) O P (rootNode (orderedOps K) n vec) k0 path nd k) :
    ShapeInv n path nd ∧ TLInv ι n vec val size nd := by
  refine Reach.induct (L := orderedOps K) (O := O) (P := P)
    (fun path nd => ShapeInv n path nd ∧ TLInv ι n vec val size nd) ?_
    (fun path nd c hi hc =>
      ⟨childOf_shape (orderedOps K) O P n hR hprop path nd c hi.1 hc,
       childOf_trueLoss ι O P n vec val size hspec hR hprop hn3 path nd c hi.1 hi.2 hc⟩) h
  exact ⟨reach_shape (orderedOps K) O P n vec k0 hn hR hprop _ _ _ Reach.root,
    rootNode_trueLoss ι n vec val size hsize hunit⟩

omit [LinearOrder K] in
/-- The plan's own product state: overlap `z` with the input, `conj(z)·z = 1 − total loss`. -/
theorem trueLoss_of_inv (ι : K →+* R) (n vec : Nat) (val : Nat → Nat → R) (size : Nat → Nat)
    (nd : Node K) (hi : TLInv ι n vec val size nd) :
    star (ovF n (val vec) (fun e => val e.vec) nd.entries)
        * ovF n (val vec) (fun e => val e.vec) nd.entries = ι (1 - nd.totalLoss) := by
  obtain ⟨z, hz, hov⟩ := hi.overlap
  have h1 : freeProd val (fun e => val e.vec) nd.entries = 1 := by
    unfold freeProd
    apply prod_map_eq_one
    intro x hx
    split
    · rename_i h0
      exact hi.normed x hx h0
    · rfl
  rw [hov _ (fun _ _ _ => rfl), h1, mul_one, hz]

end reach

/-! ### a concrete instance: every vector is `|0…0⟩` -/

section demo

theorem toBits_zero (m : Nat) : toBits m 0 = List.replicate m false := by
  induction m with
  | zero => rfl
  | succ m ih => simp [toBits, ih, List.replicate_succ]

theorem ofBits_all_false (b : List Bool) (h : ∀ x ∈ b, x = false) : ofBits b = 0 := by
  induction b with
  | nil => rfl
  | cons x xs ih =>
    have hx := h x (by simp)
    subst hx
    simp [ofBits, ih (fun y hy => h y (by simp [hy]))]

theorem sepIndexAx_zero (m : Nat) (lp : List Nat) : sepIndexAx m lp 0 = (0, 0) := by
  have key : ∀ l : List Nat, ofBits (gather l (toBits m 0)) = 0 := by
    intro l
    apply ofBits_all_false
    intro x hx
    unfold gather at hx
    obtain ⟨a, _, rfl⟩ := List.mem_map.mp hx
    rw [toBits_zero, List.getD_eq_getElem?_getD]
    by_cases ha : a < m
    · simp [ha]
    · simp [ha]
  rw [sepIndexAx_eq, key, key]

/-- The bipartition matrix of `|0…0⟩` is `|0…0⟩ ⊗ |0…0⟩`, across every valid partition. -/
theorem sepMat_e0 {R : Type} [MulZeroOneClass R] {m : Nat} {lp : List Nat} (hv : ValidAxes m lp)
    (r c : Nat) (hr : r < 2 ^ (m - lp.length)) (hc : c < 2 ^ lp.length) :
    sepMat m lp (fun i => if i = 0 then (1 : R) else 0) r c
      = (if r = 0 then 1 else 0) * (if c = 0 then 1 else 0) := by
  unfold sepMat
  beta_reduce
  have h1 := sep_undo_index hv r c hr hc
  by_cases h0 : undoIndexAx m lp r c = 0
  · rw [if_pos h0]
    rw [h0, sepIndexAx_zero] at h1
    have hr0 : r = 0 := (Prod.mk.inj h1).1.symm
    have hc0 : c = 0 := (Prod.mk.inj h1).2.symm
    rw [if_pos hr0, if_pos hc0, mul_one]
  · have : ¬ (r = 0 ∧ c = 0) := by
      rintro ⟨rfl, rfl⟩
      apply h0
      have h2 := undo_sep_index hv 0 (Nat.pos_of_ne_zero (by simp))
      rw [sepIndexAx_zero] at h2
      exact h2
    rw [if_neg h0]
    by_cases hr0 : r = 0
    · have hc0 : c ≠ 0 := fun h => this ⟨hr0, h⟩
      simp [hc0]
    · simp [hr0]

theorem sumTo_e0 {R : Type} [CommRing R] [StarRing R] (m : Nat) (hm : 0 < m) :
    sumTo m (fun i => star (if i = 0 then (1 : R) else 0) * (if i = 0 then 1 else 0)) = 1 := by
  rw [sumTo_eq_sum, Finset.sum_eq_single 0]
  · simp
  · intro b _ hb
    simp [hb]
  · intro h
    exact absurd (Finset.mem_range.mpr hm) h

end demo

end Qclib.Baa
