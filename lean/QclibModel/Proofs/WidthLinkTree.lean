import QclibModel.Proofs.WidthLinkCore
import QclibModel.Proofs.TreeBdsp
import QclibModel.Model.TopDown
/-
  C15 link — the gate lists of the ancilla-tree state preparations (`DcspInitialize`,
  `BdspInitialize`, `TopDownInitialize` models of Model/Tree.lean, Model/TopDown.lean) only touch
  wires below the width the class declares (`Widths.declaredWidth`), for every `n ≥ 1`, every
  split `1 ≤ s ≤ n`, every leaf values, every number type; and when the top wire is used.
-/
namespace Qclib
namespace WL
namespace Tree

section
variable {F : Type}

/-- Every node wire of the tree (default `0` for nodes without qubit) is `< n`. -/
def AllLt (n : Nat) (t : BT (QV F)) : Prop := ∀ w ∈ treeWires t, w < n

theorem allLt_nil (n : Nat) : AllLt n (.nil : BT (QV F)) := fun _ h => absurd h List.not_mem_nil

theorem allLt_node {n : Nat} {v : QV F} {l r : BT (QV F)} :
    AllLt n (.node v l r) ↔ wire v.q < n ∧ AllLt n l ∧ AllLt n r := by
  unfold AllLt
  rw [treeWires_node]
  constructor
  · intro h
    exact ⟨h _ List.mem_cons_self,
      fun w hw => h w (List.mem_cons_of_mem _ (List.mem_append_left _ hw)),
      fun w hw => h w (List.mem_cons_of_mem _ (List.mem_append_right _ hw))⟩
  · rintro ⟨h0, hl, hr⟩ w hw
    rcases List.mem_cons.1 hw with rfl | hw
    · exact h0
    rcases List.mem_append.1 hw with hw | hw
    · exact hl w hw
    · exact hr w hw

theorem allLt_leftmost {n : Nat} {t : BT (QV F)} (h : AllLt n t) : AllLt n (BT.leftmost t) :=
  fun w hw => h w (leftmost_wires t w hw)

theorem allLt_left {n : Nat} {t : BT (QV F)} (h : AllLt n t) : AllLt n t.left := by
  cases t with
  | nil => exact h
  | node v l r => exact (allLt_node.1 h).2.1

theorem allLt_right {n : Nat} {t : BT (QV F)} (h : AllLt n t) : AllLt n t.right := by
  cases t with
  | nil => exact h
  | node v l r => exact (allLt_node.1 h).2.2

theorem allLt_valD {n : Nat} (hn : 0 < n) {t : BT (QV F)} (h : AllLt n t) (z : F) :
    wire (t.valD ⟨z, z, none⟩).q < n := by
  cases t with
  | nil => exact hn
  | node v l r => exact (allLt_node.1 h).1

theorem allLt_children {n : Nat} {ts : List (BT (QV F))} (h : ∀ t ∈ ts, AllLt n t) :
    ∀ t ∈ children ts, AllLt n t := by
  intro t ht
  simp only [children, List.mem_flatMap, List.mem_append] at ht
  obtain ⟨p, hp, ht⟩ := ht
  rcases ht with ht | ht
  · unfold BT.nonNil at ht
    split at ht
    · exact absurd ht List.not_mem_nil
    · rw [List.mem_singleton.1 ht]; exact allLt_left (h p hp)
  · unfold BT.nonNil at ht
    split at ht
    · exact absurd ht List.not_mem_nil
    · rw [List.mem_singleton.1 ht]; exact allLt_right (h p hp)

/-- Every node wire is an allocated wire or the default `0`. -/
theorem treeWires_alloc_or_zero : ∀ (t : BT (QV F)) (w : Nat), w ∈ treeWires t →
    w ∈ allocWires t ∨ w = 0
  | .nil, w, h => absurd h List.not_mem_nil
  | .node v l r, w, h => by
    rw [treeWires_node] at h
    have hsub : ∀ x, x ∈ allocWires l ∨ x ∈ allocWires r → x ∈ allocWires (.node v l r) := by
      intro x hx
      simp only [allocWires, BT.preorder, List.filterMap_cons, List.filterMap_append] at hx ⊢
      have : x ∈ List.filterMap (fun v => v.q) l.preorder ++ List.filterMap (fun v => v.q) r.preorder :=
        List.mem_append.2 hx
      split
      · exact this
      · exact List.mem_cons_of_mem _ this
    rcases List.mem_cons.1 h with rfl | h
    · cases hq : v.q with
      | none => right; simp [wire]
      | some q =>
        left
        rw [allocWires_node v l r q hq]
        simp [wire]
    rcases List.mem_append.1 h with h | h
    · rcases treeWires_alloc_or_zero l w h with h | h
      · exact Or.inl (hsub w (Or.inl h))
      · exact Or.inr h
    · rcases treeWires_alloc_or_zero r w h with h | h
      · exact Or.inl (hsub w (Or.inr h))
      · exact Or.inr h

theorem allLt_of_alloc {n : Nat} (hn : 0 < n) {t : BT (QV F)}
    (h : ∀ w ∈ allocWires t, w < n) : AllLt n t := by
  intro w hw
  rcases treeWires_alloc_or_zero t w hw with h' | h'
  · exact h w h'
  · omega

/-! ### `bottom_up` -/

theorem below_cswapChain {n c : Nat} (hc : c < n) : ∀ (l r : BT (QV F)), AllLt n l → AllLt n r →
    Below G.wires n (cswapChain c l r)
  | .nil, _, _, _ => by unfold cswapChain; exact below_nil
  | .node .., .nil, _, _ => by unfold cswapChain; exact below_nil
  | .node vl ll lr, .node vr rl rr, hl, hr => by
    unfold cswapChain
    rw [below_cons]
    refine ⟨?_, below_cswapChain hc ll _ (allLt_node.1 hl).2.1 (allLt_leftmost hr)⟩
    intro w hw
    simp only [G.wires, List.mem_cons, List.not_mem_nil, or_false] at hw
    rcases hw with rfl | rfl | rfl
    · exact hc
    · exact (allLt_node.1 hl).1
    · exact (allLt_node.1 hr).1

variable (o : TOps F)

theorem below_nodeRots {n : Nat} (v : QV F) (h : wire v.q < n) :
    Below G.wires n (nodeRots o v) := by
  unfold nodeRots
  rw [below_append]
  constructor
  · apply below_ite
    · intro _; rw [below_singleton]; intro w hw
      simp only [G.wires, List.mem_singleton] at hw; omega
    · intro _; exact below_nil
  · apply below_ite
    · intro _; rw [below_singleton]; intro w hw
      simp only [G.wires, List.mem_singleton] at hw; omega
    · intro _; exact below_nil

/-- `bottom_up` only touches wires of nodes of the tree. -/
theorem below_bottomUp {n : Nat} (sl : Nat) : ∀ (t : BT (QV F)) (lvl : Nat), AllLt n t →
    Below G.wires n (bottomUp o sl lvl t)
  | .nil, _, _ => by unfold bottomUp; exact below_nil
  | .node v l r, lvl, h => by
    obtain ⟨h0, hl, hr⟩ := allLt_node.1 h
    unfold bottomUp
    apply below_ite
    · intro _
      rw [below_append, below_append, below_append]
      refine ⟨⟨⟨below_nodeRots o v h0, below_bottomUp sl l _ hl⟩, below_bottomUp sl r _ hr⟩, ?_⟩
      unfold applyCswaps
      apply below_ite
      · intro _; exact below_cswapChain h0 l r hl hr
      · intro _; exact below_nil
    · intro _; exact below_nil

/-! ### `top_down` -/

theorem below_place {n : Nat} (hn : 0 < n) (c : Circ F) (ws : List Nat) (h : ∀ w ∈ ws, w < n) :
    Below G.wires n (place c ws) := by
  intro g hg w hw
  simp only [place, List.mem_map] at hg
  obtain ⟨g', _, rfl⟩ := hg
  rw [wires_mapWires', List.mem_map] at hw
  obtain ⟨w', _, rfl⟩ := hw
  by_cases hlt : w' < ws.length
  · rw [List.getD_eq_getElem?_getD, List.getElem?_eq_getElem hlt]
    exact h _ (List.getElem_mem hlt)
  · rw [List.getD_eq_getElem?_getD, List.getElem?_eq_none (by omega)]
    exact hn

theorem below_levelMux {n : Nat} (hn : 0 < n) (ctrl : List Nat) (targets : List (BT (QV F)))
    (hc : ∀ c ∈ ctrl, c < n) (ht : ∀ t ∈ targets, AllLt n t) :
    Below G.wires n (levelMux o ctrl targets) := by
  cases targets with
  | nil => unfold levelMux; exact below_nil
  | cons t0 rest =>
    unfold levelMux
    have hws : ∀ w ∈ wire (t0.valD ⟨o.zero, o.zero, none⟩).q :: ctrl.reverse, w < n := by
      intro w hw
      rcases List.mem_cons.1 hw with rfl | hw
      · exact allLt_valD hn (ht t0 List.mem_cons_self) o.zero
      · exact hc w (List.mem_reverse.1 hw)
    simp only []
    rw [below_append]
    constructor
    · apply below_ite
      · intro _; exact below_place hn _ _ hws
      · intro _; exact below_nil
    · apply below_ite
      · intro _; exact below_place hn _ _ hws
      · intro _; exact below_nil

theorem below_topDownChain {n : Nat} (hn : 0 < n) : ∀ (t : BT (QV F)) (ctrl : List Nat)
    (targets : List (BT (QV F))), AllLt n t → (∀ c ∈ ctrl, c < n) → (∀ t ∈ targets, AllLt n t) →
    Below G.wires n (topDownChain o t ctrl targets)
  | .nil, _, _, _, _, _ => by unfold topDownChain; exact below_nil
  | .node v l r, ctrl, targets, h, hc, ht => by
    obtain ⟨h0, hl, -⟩ := allLt_node.1 h
    unfold topDownChain
    rw [below_append]
    refine ⟨below_levelMux o hn ctrl targets hc ht,
      below_topDownChain hn l _ _ hl ?_ (allLt_children ht)⟩
    intro c hc'
    rcases List.mem_append.1 hc' with hc' | hc'
    · exact hc c hc'
    · rw [List.mem_singleton.1 hc']; exact h0

/-- `top_down` only touches wires of nodes of the tree (or the default wire `0`). -/
theorem below_topDown {n : Nat} (hn : 0 < n) (sl : Nat) : ∀ (t : BT (QV F)) (lvl : Nat),
    AllLt n t → Below G.wires n (topDown o sl lvl t)
  | .nil, _, _ => by unfold topDown; exact below_nil
  | .node v l r, lvl, h => by
    obtain ⟨h0, hl, hr⟩ := allLt_node.1 h
    unfold topDown
    apply below_ite
    · intro _
      rw [below_append]
      exact ⟨below_topDown hn sl l _ hl, below_topDown hn sl r _ hr⟩
    · intro _
      apply below_topDownChain o hn _ _ _ h (fun _ hc => absurd hc List.not_mem_nil)
      intro t ht
      rw [List.mem_singleton.1 ht]; exact h

/-! ### The three classes -/

end
end Tree
open Qclib.WL.Tree

section
variable {F : Type} (o : TOps F)

theorem tree_declared_dcsp (n : Nat) : Widths.declaredWidth .dcsp { len := 2^n } = 2^n - 1 := rfl

theorem tree_declared_bdsp (n s : Nat) :
    Widths.declaredWidth .bdsp { len := 2^n, s := s } = (s + 1) * 2^(n - s) - 1 := by
  show (s + 1) * 2 ^ (Nat.log2 (2^n) - s) - 1 = _
  rw [Nat.log2_two_pow]

theorem tree_declared_topDown (n : Nat) : Widths.declaredWidth .topDown { len := 2^n } = n := by
  show Nat.log2 (2^n) = n
  rw [Nat.log2_two_pow]

/-- **DcspInitialize, soundness.**  For every number type and operations `o`, every `n ≥ 1` and
all `2^n` leaf values: every wire of every gate of the model's gate list is below the declared
width `len − 1 = 2^n − 1`. -/
theorem dcsp_below (n : Nat) (hn : 1 ≤ n) (leaves : Nat → SV F) (out : TreeOut F)
    (hout : dcsp o (2^n) leaves = some out) :
    Below G.wires (Widths.declaredWidth .dcsp { len := 2^n }) out.gates := by
  obtain ⟨out', hout', hs⟩ := dcsp_spec o n hn leaves
  rw [hout] at hout'
  cases hout'
  rw [tree_declared_dcsp, hs.gates_eq]
  have hle : n ≤ 2^n - 1 := by have := two_pow_ge n; omega
  apply below_bottomUp
  intro w hw
  rw [hs.wires, mem_qubitOrder _ _ hle] at hw
  exact hw

/-- What `bdsp` returns, with the allocated wires bounded. -/
theorem bdsp_alloc (n s : Nat) (hs : 1 ≤ s) (hn : s ≤ n) (leaves : Nat → SV F) (out : TreeOut F)
    (hout : bdsp o (2^n) leaves (some s) = some out) :
    out.gates = topDown o (n - s) 0 out.alloc.tree ++ bottomUp o (n - s) 0 out.alloc.tree
      ∧ allocWires out.alloc.tree = qubitOrder n ((s + 1) * 2^(n - s) - 1) := by
  have hc : complete n (angleTree o (stateTree o n leaves)) := by
    obtain ⟨m, rfl⟩ : ∃ m, n = m + 1 := ⟨n - 1, by omega⟩
    exact angleTree_complete o m leaves
  obtain ⟨a, ha, hq, -, -, -, hws, -⟩ := addRegister_complete n s hs hn _ hc
  simp only [bdsp, Nat.log2_two_pow, Option.getD_some, ha] at hout
  rw [if_neg (by omega)] at hout
  simp only [Option.some.injEq] at hout
  subst hout
  refine ⟨rfl, ?_⟩
  show allocWires a.tree = _
  rw [hws, show a.nqubits = (s + 1) * 2^(n - s) - 1 by omega]

/-- **BdspInitialize, soundness.**  For every number type and operations `o`, every `n ≥ 1`,
every split `1 ≤ s ≤ n` and all `2^n` leaf values: every wire of every gate of the model's gate
list (`top_down` multiplexers followed by `bottom_up` rotations and controlled swaps) is below
the declared width `(s+1)·2^(n−s) − 1`. -/
theorem bdsp_below (n s : Nat) (hs : 1 ≤ s) (hn : s ≤ n) (leaves : Nat → SV F) (out : TreeOut F)
    (hout : bdsp o (2^n) leaves (some s) = some out) :
    Below G.wires (Widths.declaredWidth .bdsp { len := 2^n, s := s }) out.gates := by
  obtain ⟨hg, hw⟩ := bdsp_alloc o n s hs hn leaves out hout
  have hle : n + 1 ≤ (s + 1) * 2^(n - s) := width_ge n s hn
  have hall : AllLt ((s + 1) * 2^(n - s) - 1) out.alloc.tree := by
    apply allLt_of_alloc (by omega)
    intro w hw'
    rw [hw, mem_qubitOrder _ _ (by omega)] at hw'
    exact hw'
  rw [tree_declared_bdsp, hg, below_append]
  exact ⟨below_topDown o (by omega) _ _ _ hall, below_bottomUp o _ _ _ hall⟩

/-- The default split `⌈n/2⌉` of `BdspInitialize` is one of the splits covered. -/
theorem bdsp_default (n : Nat) (leaves : Nat → SV F) :
    bdsp o (2^n) leaves none = bdsp o (2^n) leaves (some ((n + 1) / 2)) := by
  simp only [bdsp, bdspDefaultSplit, Nat.log2_two_pow, Option.getD_none, Option.getD_some]

/-- **BdspInitialize with the default split, soundness**: the declared width is taken at
`s = ⌈n/2⌉ = (n+1)/2`. -/
theorem bdsp_default_below (n : Nat) (hn : 1 ≤ n) (leaves : Nat → SV F) (out : TreeOut F)
    (hout : bdsp o (2^n) leaves none = some out) :
    Below G.wires (Widths.declaredWidth .bdsp { len := 2^n, s := (n + 1) / 2 }) out.gates := by
  rw [bdsp_default] at hout
  exact bdsp_below o n ((n + 1) / 2) (by omega) (by omega) leaves out hout

/-- What `topDownInit` returns, with the allocated wires bounded. -/
theorem topDownInit_alloc (n : Nat) (hn : 1 ≤ n) (leaves : Nat → SV F) (gp : Bool)
    (out : TopDownOut F) (hout : topDownInit o n leaves gp = some out) :
    out.gates = topDown o 0 0 out.alloc.tree ∧ allocWires out.alloc.tree = qubitOrder n n := by
  have hc : complete n (angleTree o (stateTree o n leaves)) := by
    obtain ⟨m, rfl⟩ : ∃ m, n = m + 1 := ⟨n - 1, by omega⟩
    exact angleTree_complete o m leaves
  obtain ⟨a, ha, hq, -, -, -, hws, -⟩ := addRegister_complete n n hn (Nat.le_refl _) _ hc
  rw [Nat.sub_self] at ha hq
  simp only [topDownInit, ha] at hout
  rw [if_neg (by omega)] at hout
  simp only [Option.some.injEq] at hout
  subst hout
  refine ⟨rfl, ?_⟩
  show allocWires a.tree = _
  rw [hws, show a.nqubits = n by omega]

/-- **TopDownInitialize, soundness.**  For every number type and operations `o`, every `n ≥ 1`,
all `2^n` leaf values and both settings of `global_phase`: every wire of every gate of the whole
definition (`circ` = optional global-phase gate + the `top_down` multiplexers) is below the
declared width `int(log2(len)) = n`. -/
theorem topDown_below (n : Nat) (hn : 1 ≤ n) (leaves : Nat → SV F) (gp : Bool)
    (out : TopDownOut F) (hout : topDownInit o n leaves gp = some out) :
    Below G.wires (Widths.declaredWidth .topDown { len := 2^n }) out.circ := by
  obtain ⟨hg, hw⟩ := topDownInit_alloc o n hn leaves gp out hout
  have hall : AllLt n out.alloc.tree := by
    apply allLt_of_alloc (by omega)
    intro w hw'
    rw [hw, mem_qubitOrder _ _ (Nat.le_refl _)] at hw'
    exact hw'
  rw [tree_declared_topDown]
  unfold TopDownOut.circ
  rw [below_append, hg]
  refine ⟨?_, below_topDown o (by omega) _ _ _ hall⟩
  cases out.phase with
  | none => exact below_nil
  | some p => rw [below_singleton]; intro w hw'; simp [G.wires] at hw'

/-- The same for the gate list without the global phase. -/
theorem topDown_gates_below (n : Nat) (hn : 1 ≤ n) (leaves : Nat → SV F) (gp : Bool)
    (out : TopDownOut F) (hout : topDownInit o n leaves gp = some out) :
    Below G.wires (Widths.declaredWidth .topDown { len := 2^n }) out.gates := by
  have h := topDown_below o n hn leaves gp out hout
  unfold TopDownOut.circ at h
  exact (below_append.1 h).2

/-! ### Tightness for `DcspInitialize` -/

namespace Tree

theorem preorder_map {α β : Type} (f : α → β) : ∀ t : BT α, (t.map f).preorder = t.preorder.map f
  | .nil => rfl
  | .node v l r => by
    simp only [BT.map, BT.preorder, List.map_cons, List.map_append, preorder_map f l,
      preorder_map f r]

/-- If every node of a complete tree whose levels are all processed carries a non-zero rotation
angle, `bottom_up` touches the wire of every node. -/
theorem uses_bottomUp_all (sl w : Nat) : ∀ (t : BT (QV F)) (h lvl : Nat), complete h t →
    lvl + h ≤ sl → (∀ v ∈ t.preorder, o.neZero v.y = true ∨ o.neZero v.z = true) →
    w ∈ treeWires t → Uses G.wires w (bottomUp o sl lvl t)
  | .nil, _, _, _, _, _, hw => absurd hw List.not_mem_nil
  | .node .., 0, _, hc, _, _, _ => by simp [complete] at hc
  | .node v l r, h+1, lvl, hc, hle, hnz, hw => by
    unfold bottomUp
    rw [if_pos (by omega)]
    rw [treeWires_node] at hw
    have hnl : ∀ v' ∈ l.preorder, o.neZero v'.y = true ∨ o.neZero v'.z = true := fun v' hv' =>
      hnz v' (by simp only [BT.preorder]; exact List.mem_cons_of_mem _ (List.mem_append_left _ hv'))
    have hnr : ∀ v' ∈ r.preorder, o.neZero v'.y = true ∨ o.neZero v'.z = true := fun v' hv' =>
      hnz v' (by simp only [BT.preorder]; exact List.mem_cons_of_mem _ (List.mem_append_right _ hv'))
    rcases List.mem_cons.1 hw with rfl | hw
    · apply uses_append_left; apply uses_append_left; apply uses_append_left
      unfold nodeRots
      rcases hnz v (by simp only [BT.preorder]; exact List.mem_cons_self) with hy | hz
      · apply uses_append_left; rw [if_pos hy]
        exact uses_cons_self _ (by simp [G.wires])
      · apply uses_append_right; rw [if_pos hz]
        exact uses_cons_self _ (by simp [G.wires])
    rcases List.mem_append.1 hw with hw | hw
    · apply uses_append_left; apply uses_append_left; apply uses_append_right
      exact uses_bottomUp_all sl w l h (lvl+1) hc.1 (by omega) hnl hw
    · apply uses_append_left; apply uses_append_right
      exact uses_bottomUp_all sl w r h (lvl+1) hc.2 (by omega) hnr hw

end Tree

/-- **DcspInitialize, tightness.**  If every node of the angle tree of the input carries a
non-zero rotation (`angle_y != 0` or `angle_z != 0`, the tests that guard the `ry`/`rz` gates —
true for generic amplitudes), then EVERY wire below the declared width `2^n − 1` is touched by
some gate; in particular the top wire `2^n − 2`.  Without the hypothesis the statement is false:
for the basis state `|0…0⟩` all angles vanish and the gate list is empty (see the example
below). -/
theorem dcsp_uses_all (n : Nat) (hn : 1 ≤ n) (leaves : Nat → SV F) (out : TreeOut F)
    (hout : dcsp o (2^n) leaves = some out)
    (hnz : ∀ v ∈ (angleTree o (stateTree o n leaves)).preorder,
      o.neZero v.y = true ∨ o.neZero v.z = true) :
    ∀ w, w < Widths.declaredWidth .dcsp { len := 2^n } → Uses G.wires w out.gates := by
  obtain ⟨out', hout', hs⟩ := dcsp_spec o n hn leaves
  rw [hout] at hout'
  cases hout'
  intro w hw
  rw [tree_declared_dcsp] at hw
  have hle : n ≤ 2^n - 1 := by have := two_pow_ge n; omega
  rw [hs.gates_eq]
  apply uses_bottomUp_all o n w _ n 0 hs.shape (by omega)
  · intro v hv
    have h1 : (⟨v.y, v.z⟩ : AV F) ∈ (angleTree o (stateTree o n leaves)).preorder := by
      rw [← hs.angles_eq]
      unfold angles
      rw [preorder_map]
      exact List.mem_map_of_mem hv
    exact hnz _ h1
  · rw [hs.wires, mem_qubitOrder _ _ hle]; exact hw

/-- Under the same hypothesis the set of touched wires is exactly `{0,…,2^n − 2}`. -/
theorem dcsp_uses_iff (n : Nat) (hn : 1 ≤ n) (leaves : Nat → SV F) (out : TreeOut F)
    (hout : dcsp o (2^n) leaves = some out)
    (hnz : ∀ v ∈ (angleTree o (stateTree o n leaves)).preorder,
      o.neZero v.y = true ∨ o.neZero v.z = true) (w : Nat) :
    Uses G.wires w out.gates ↔ w < Widths.declaredWidth .dcsp { len := 2^n } :=
  ⟨uses_lt (dcsp_below o n hn leaves out hout), dcsp_uses_all o n hn leaves out hout hnz w⟩

/-- **TopDownInitialize, tightness (root rotation).**  The top wire `n − 1` is the qubit of the
root of the angle tree.  If the root's `angle_y` passes both tests that guard its `ry` gate
(`!= 0` in `top_down`, and not negligible in `ucr`), some gate touches wire `n − 1`. -/
theorem topDown_uses_top (n : Nat) (hn : 1 ≤ n) (leaves : Nat → SV F) (gp : Bool)
    (out : TopDownOut F) (hout : topDownInit o n leaves gp = some out)
    (hroot : ∀ v l r, angleTree o (stateTree o n leaves) = .node v l r →
      o.neZero v.y = true ∧ o.aops.negl v.y = false) :
    Uses G.wires (Widths.declaredWidth .topDown { len := 2^n } - 1) out.circ := by
  have hc : complete n (angleTree o (stateTree o n leaves)) := by
    obtain ⟨m, rfl⟩ : ∃ m, n = m + 1 := ⟨n - 1, by omega⟩
    exact angleTree_complete o m leaves
  obtain ⟨a, ha, hq, -, -, -, hws, spec⟩ := addRegister_complete n n hn (Nat.le_refl _) _ hc
  rw [Nat.sub_self] at ha hq
  simp only [topDownInit, ha] at hout
  rw [if_neg (by omega)] at hout
  simp only [Option.some.injEq] at hout
  subst hout
  rw [tree_declared_topDown]
  unfold TopDownOut.circ
  apply uses_append_right
  show Uses G.wires (n - 1) (topDown o 0 0 a.tree)
  obtain ⟨m, rfl⟩ : ∃ m, n = m + 1 := ⟨n - 1, by omega⟩
  obtain ⟨v, l, r, ht, -, -⟩ := (complete_succ_iff m a.tree).1 spec.shape
  have hsp := spec.spineW
  have hang := spec.angles_eq
  rw [ht] at hsp hang
  rw [qubitOrder_take, List.range_succ, List.reverse_append] at hsp
  simp only [leftSpine, List.reverse_singleton, List.singleton_append, List.cons.injEq] at hsp
  obtain ⟨hy, hng⟩ := hroot ⟨v.y, v.z⟩ _ _ (by rw [← hang]; rfl)
  simp only [] at hy hng
  rw [ht]
  unfold topDown
  rw [if_neg (by omega)]
  unfold topDownChain
  apply uses_append_left
  unfold levelMux
  simp only []
  apply uses_append_left
  have hany : ([BT.node v l r].map fun t => (t.valD ⟨o.zero, o.zero, none⟩).y).any o.neZero = true := by
    simp [BT.valD, hy]
  rw [if_pos hany]
  have hucr : ∀ last, ucr o.aops .Y .CX (Nat.log2 [BT.node v l r].length)
      (fun i => ([BT.node v l r].map fun t => (t.valD ⟨o.zero, o.zero, none⟩).y).getD i o.zero) last
      = [G.ry v.y 0] := by
    intro last
    show ucr o.aops .Y .CX (Nat.log2 1) _ last = _
    rw [show Nat.log2 1 = 0 by decide]
    unfold ucr
    simp [BT.valD, hng, rotG]
  rw [hucr]
  refine ⟨_, List.mem_map_of_mem List.mem_cons_self, ?_⟩
  simp [G.mapWires, G.wires, BT.valD, hsp.1]

end

/-! ### Non-vacuity: a toy integer instance the kernel can evaluate -/

namespace Tree

/-- Toy operations on `Int` (the theorems hold for every `TOps`, so also for this one). -/
def toyOps : TOps Int where
  zero := 0
  one := 1
  two := 2
  pi := 3
  neg := fun x => -x
  add := (· + ·)
  sub := (· - ·)
  mul := (· * ·)
  div := (· / ·)
  sq := fun x => x * x
  sqrt := fun x => x
  asin := fun x => x
  lt := fun a b => decide (a < b)
  neZero := fun x => x != 0
  aops := ⟨(· + ·), (· - ·), (· / 2), fun x => x == 0⟩

/-- Generic leaves and the basis state `|0…0⟩`. -/
def toyLeaves : Nat → SV Int := fun k => ⟨(k : Int) + 1, (k : Int)⟩
def zeroLeaves : Nat → SV Int := fun k => if k = 0 then ⟨1, 0⟩ else ⟨0, 0⟩

/-- `P` holds of the gate list returned (and something is returned). -/
def onGates {α : Type} (r : Option α) (gates : α → Circ Int) (P : Circ Int → Prop) : Prop :=
  match r with
  | none => False
  | some t => P (gates t)

instance {α : Type} (r : Option α) (gates : α → Circ Int) (P : Circ Int → Prop)
    [DecidablePred P] : Decidable (onGates r gates P) := by
  unfold onGates; cases r <;> infer_instance

end Tree
end WL
end Qclib

namespace Qclib
namespace WL
open Qclib.WL.Tree

/-! ### Non-vacuity and sharpness on concrete parameters (kernel-evaluated, `decide`) -/

-- the declared widths at the parameters used below
example : Widths.declaredWidth .dcsp { len := 8 } = 7
    ∧ Widths.declaredWidth .bdsp { len := 16, s := 1 } = 15
    ∧ Widths.declaredWidth .bdsp { len := 16, s := 2 } = 11
    ∧ Widths.declaredWidth .bdsp { len := 16, s := 4 } = 4
    ∧ Widths.declaredWidth .topDown { len := 8 } = 3 := by decide

-- dcsp, 8 generic amplitudes: all gates below 7, the top wire 6 (and wire 0) is used, 7 is not
example : onGates (dcsp toyOps 8 toyLeaves) (·.gates)
    (fun c => Below G.wires 7 c ∧ Uses G.wires 6 c ∧ Uses G.wires 0 c ∧ ¬ Below G.wires 6 c) := by
  decide

-- dcsp, basis state |000⟩: the gate list is empty, so NO declared wire is touched
-- (the hypothesis of `dcsp_uses_all` cannot be dropped)
example : onGates (dcsp toyOps 8 zeroLeaves) (·.gates) (fun c => c = []) := by decide

-- bdsp, 16 generic amplitudes, splits 1, 2 (default), 4: below the declared width, top wire used
example : onGates (bdsp toyOps 16 toyLeaves (some 1)) (·.gates)
    (fun c => Below G.wires 15 c ∧ Uses G.wires 14 c ∧ ¬ Below G.wires 14 c) := by decide
example : onGates (bdsp toyOps 16 toyLeaves none) (·.gates)
    (fun c => Below G.wires 11 c ∧ Uses G.wires 10 c ∧ ¬ Below G.wires 10 c) := by decide
example : onGates (bdsp toyOps 16 toyLeaves (some 4)) (·.gates)
    (fun c => Below G.wires 4 c ∧ Uses G.wires 3 c ∧ ¬ Below G.wires 3 c) := by decide
-- bdsp, basis state: empty gate list
example : onGates (bdsp toyOps 16 zeroLeaves (some 2)) (·.gates) (fun c => c = []) := by decide

-- topDown, 8 generic amplitudes, with global phase: below 3, top wire 2 used
example : onGates (topDownInit toyOps 3 toyLeaves true) (·.circ)
    (fun c => Below G.wires 3 c ∧ Uses G.wires 2 c ∧ ¬ Below G.wires 2 c) := by decide
-- topDown, basis state, no global phase: empty gate list
example : onGates (topDownInit toyOps 3 zeroLeaves false) (·.circ) (fun c => c = []) := by decide

end WL
end Qclib
