import QclibModel.Proofs.SemLemmas
import QclibModel.Proofs.UcrProof
/-
  Transport of the amplitude-function semantics along an injective renaming of wires
  (`QuantumCircuit.append(sub, wires)`): if `f : ℕ → ℕ` has a left inverse `g` and a decidable
  range `inR`, then running the renamed circuit on `ψ` and looking at label `b` is the same as
  running the original circuit on the pulled-back state (the wires outside the range are frozen to
  their values in `b`) and looking at `b ∘ f`.  In particular a circuit that denotes a
  wire-0 operator with matrix family `F` denotes, after renaming, the wire-`f 0` operator with
  family `F (b ∘ f)`.
-/
namespace Qclib.Dense
open RotSem

/-- An injective renaming of wires with explicit left inverse and range test. -/
structure WireEmb where
  f : Nat → Nat
  g : Nat → Nat
  inR : Nat → Bool
  gf : ∀ i, g (f i) = i
  inf : ∀ i, inR (f i) = true
  fg : ∀ w, inR w = true → f (g w) = w

/-- Shift by `s`: local wire `i` ↦ `i + s`. -/
def shiftEmb (s : Nat) : WireEmb where
  f := fun i => i + s
  g := fun w => w - s
  inR := fun w => decide (s ≤ w)
  gf := fun i => by simp
  inf := fun i => by simp
  fg := fun w h => by
    have : s ≤ w := by simpa using h
    show w - s + s = w
    omega

namespace WireEmb
variable (e : WireEmb)

/-- Global label from a frame `b` (wires outside the range) and a local label `x`. -/
def embed (b x : Bits) : Bits := fun w => if e.inR w then x (e.g w) else b w

theorem embed_f (b x : Bits) (i : Nat) : e.embed b x (e.f i) = x i := by
  simp [embed, e.inf, e.gf]

theorem f_inj {i j : Nat} (h : e.f i = e.f j) : i = j := by
  have := congrArg e.g h
  rwa [e.gf, e.gf] at this

theorem f_eq_iff (i j : Nat) : e.f i = e.f j ↔ i = j :=
  ⟨e.f_inj, fun h => by rw [h]⟩

theorem embed_setBit (b x : Bits) (t : Nat) (v : Bool) :
    e.embed b (setBit x t v) = setBit (e.embed b x) (e.f t) v := by
  funext w
  by_cases hw : e.inR w = true
  · have hwi : w = e.f (e.g w) := (e.fg w hw).symm
    generalize e.g w = i at hwi
    subst hwi
    simp only [embed, setBit, e.inf, e.gf, if_true, e.f_eq_iff]
  · have hw' : e.inR w = false := by simpa using hw
    have : w ≠ e.f t := by
      intro h; rw [h, e.inf] at hw'; cases hw'
    simp [embed, setBit, hw', this]

theorem embed_self (b : Bits) : e.embed b (fun i => b (e.f i)) = b := by
  funext w
  simp only [embed]
  by_cases hw : e.inR w = true
  · rw [if_pos hw, e.fg w hw]
  · have hw' : e.inR w = false := by simpa using hw
    simp [hw']

theorem embed_swapBits (b x : Bits) (p q : Nat) :
    e.embed b (swapBits p q x) = swapBits (e.f p) (e.f q) (e.embed b x) := by
  funext w
  by_cases hw : e.inR w = true
  · have hwi : w = e.f (e.g w) := (e.fg w hw).symm
    generalize e.g w = i at hwi
    subst hwi
    simp only [embed, swapBits, e.inf, e.gf, if_true, e.f_eq_iff]
  · have hw' : e.inR w = false := by simpa using hw
    have hp : w ≠ e.f p := by intro h; rw [h, e.inf] at hw'; cases hw'
    have hq : w ≠ e.f q := by intro h; rw [h, e.inf] at hw'; cases hw'
    simp [embed, swapBits, hw', hp, hq]

theorem ctrlOk_embed (b x : Bits) (cs : List (Nat × Bool)) :
    ctrlOk (cs.map (fun cv => (e.f cv.1, cv.2))) (e.embed b x) = ctrlOk cs x := by
  simp only [ctrlOk, List.all_map]
  congr 1
  funext cv
  simp [embed_f]

section sem
variable {Θ R : Type} [CommRing R] [RotSem Θ R]

/-- Pull a global state back to the local wires, freezing the other wires to their values in `b`. -/
def pull (b : Bits) (ψ : State R) : State R := fun x => ψ (e.embed b x)

theorem applyMcu_pull (b : Bits) (cs : List (Nat × Bool)) (m : Mat2 R) (t : Nat) (ψ : State R) :
    e.pull b (applyMcu (cs.map (fun cv => (e.f cv.1, cv.2))) m (e.f t) ψ)
      = applyMcu cs m t (e.pull b ψ) := by
  funext x
  simp only [pull, applyMcu, ctrlOk_embed, embed_f, embed_setBit]

theorem denote_pull (b : Bits) (g : G Θ) (ψ : State R) :
    e.pull b (denote (G.mapWires e.f g) ψ) = denote g (e.pull b ψ) := by
  cases g with
  | x q => exact e.applyMcu_pull b [] _ q ψ
  | h q => exact e.applyMcu_pull b [] _ q ψ
  | cx c t => exact e.applyMcu_pull b [(c, true)] _ t ψ
  | cz c t => exact e.applyMcu_pull b [(c, true)] _ t ψ
  | ccx a c t => exact e.applyMcu_pull b [(a, true), (c, true)] _ t ψ
  | mcx cs t =>
    have := e.applyMcu_pull b (cs.map (fun c => (c, true))) Mat2.X t ψ
    simp only [List.map_map] at this
    simpa [denote, G.mapWires, List.map_map, Function.comp_def] using this
  | ry θ q => exact e.applyMcu_pull b [] _ q ψ
  | rz θ q => exact e.applyMcu_pull b [] _ q ψ
  | p θ q => exact e.applyMcu_pull b [] _ q ψ
  | cp θ c t => exact e.applyMcu_pull b [(c, true)] _ t ψ
  | u θ φ l q => exact e.applyMcu_pull b [] _ q ψ
  | cu θ φ l γ c t => exact e.applyMcu_pull b [(c, true)] _ t ψ
  | swap p q =>
    funext x
    simp only [pull, denote, G.mapWires, applyPerm, embed_swapBits]
  | cswap c p q =>
    funext x
    simp only [pull, denote, G.mapWires, applyPerm, embed_f]
    split
    · rw [embed_swapBits]
    · rfl
  | gphase θ => rfl

theorem sem_pull (b : Bits) (c : Circ Θ) : ∀ (ψ : State R),
    e.pull b (sem (c.map (G.mapWires e.f)) ψ) = sem c (e.pull b ψ) := by
  induction c with
  | nil => intro ψ; rfl
  | cons g c ih =>
    intro ψ
    show e.pull b (sem (c.map (G.mapWires e.f)) (denote (G.mapWires e.f g) ψ)) = _
    rw [ih, denote_pull]
    rfl

/-- Evaluate a renamed circuit at a label. -/
theorem sem_map_eval (c : Circ Θ) (ψ : State R) (b : Bits) :
    sem (c.map (G.mapWires e.f)) ψ b = sem c (e.pull b ψ) (fun i => b (e.f i)) := by
  rw [← e.sem_pull b c ψ]
  show _ = sem (c.map (G.mapWires e.f)) ψ (e.embed b (fun i => b (e.f i)))
  rw [embed_self]

/-- A circuit denoting the wire-0 operator with family `F` denotes, after renaming, the
wire-`f 0` operator with family `F (b ∘ f)`. -/
theorem rep_map (c : Circ Θ) (F : Bits → Mat2 R) (h : ∀ ψ : State R, sem c ψ = applyFam F 0 ψ)
    (ψ : State R) :
    sem (c.map (G.mapWires e.f)) ψ = applyFam (fun b => F (fun i => b (e.f i))) (e.f 0) ψ := by
  funext b
  rw [sem_map_eval, h]
  simp only [applyFam, pull, embed_setBit, embed_self]

end sem
end WireEmb
end Qclib.Dense
