import QclibModel.Proofs.Mcu2Pairs
import Mathlib.Algebra.Field.Rat
import Mathlib.Algebra.BigOperators.Group.List.Basic
import Mathlib.Tactic.Ring
import Mathlib.Tactic.FieldSimp
import Mathlib.Tactic.Linarith
/-
  Exponent bookkeeping of the four-sweep ladder of `Ldmcu` (C04, part B).

  Every scheduled gate `(c, t)` carries the weight `signal / param`: the exponent of `U` it adds
  on the target, or the number of half-turns (`RX(π·w)`) it adds on a control wire, when its
  control reads 1.  `arrive n first fwd v q` is the total weight wire `q` receives in one sweep
  when the gates see the control values `v`.  The lemmas evaluate it in closed form for the
  actual sorted schedule (through `qubitPairs_perm`) and prove the telescoping identities.
-/
namespace Qclib.Mcu2

/-- `signal / param` of a scheduled pair. -/
def wt (pr : Nat × Nat) (first fwd : Bool) : ℚ := (signal pr first fwd : ℚ) / (param pr : ℚ)

/-- Total weight arriving at wire `q` in the sweep `_c1c2(n, first, step)` when control wire `c`
reads `v c` at the moment its gates fire. -/
def arrive (n : Nat) (first fwd : Bool) (v : Nat → Bool) (q : Nat) : ℚ :=
  ((qubitPairs n fwd).map fun pr => if pr.2 = q ∧ v pr.1 = true then wt pr first fwd else 0).sum

/-- All wires below `t` read 1. -/
def allBelow (x : Nat → Bool) (t : Nat) : Bool := (List.range t).all x

/-- `1` if all wires below `t` read 1, else `0`. -/
def andQ (x : Nat → Bool) (t : Nat) : ℚ := if allBelow x t then 1 else 0

/-- The value wire `c` carries between the second and the third sweep: `x c` flipped iff all
wires below it read 1 (wire 0 is never a target). -/
def mid (x : Nat → Bool) (c : Nat) : Bool := if c = 0 then x 0 else xor (x c) (allBelow x c)

theorem allBelow_succ (x : Nat → Bool) (t : Nat) : allBelow x (t + 1) = (allBelow x t && x t) := by
  simp [allBelow, List.range_succ, List.all_append]

theorem allBelow_iff (x : Nat → Bool) (t : Nat) : allBelow x t = true ↔ ∀ i < t, x i = true := by
  simp [allBelow]

/-! ### Sums over the raw comprehension -/

theorem rawPairs_succ (n s : Nat) :
    rawPairs (n + 1) s = rawPairs n s ++ (List.range' s (n - s)).map fun c => (c, n) := by
  simp [rawPairs, List.range_succ, List.flatMap_append]

/-- The contribution of the block `target = q` of the comprehension. -/
def blockSum (s : Nat) (g : Nat × Nat → ℚ) (q : Nat) : ℚ :=
  ((List.range' s (q - s)).map fun c => g (c, q)).sum

theorem sum_rawPairs (g : Nat × Nat → ℚ) (q s : Nat) (hg : ∀ pr, pr.2 ≠ q → g pr = 0) (n : Nat) :
    ((rawPairs n s).map g).sum = if q < n then blockSum s g q else 0 := by
  induction n with
  | zero => simp [rawPairs]
  | succ n ih =>
    rw [rawPairs_succ, List.map_append, List.sum_append, ih, List.map_map]
    by_cases hq : q = n
    · subst hq
      simp [blockSum, Function.comp_def]
    · have h0 : ((List.range' s (n - s)).map (g ∘ fun c => (c, n))).sum = 0 := by
        apply List.sum_eq_zero
        intro y hy
        simp only [List.mem_map, Function.comp] at hy
        obtain ⟨c, _, rfl⟩ := hy
        exact hg (c, n) (fun h => hq h.symm)
      rw [h0]
      by_cases h1 : q < n
      · simp [h1, Nat.lt_succ_of_lt h1]
      · have : ¬ q < n + 1 := by omega
        simp [h1, this]

theorem arrive_eq (n : Nat) (first fwd : Bool) (v : Nat → Bool) (q : Nat) :
    arrive n first fwd v q
      = if q < n then
          blockSum (startOf fwd) (fun pr => if pr.2 = q ∧ v pr.1 = true then wt pr first fwd else 0) q
        else 0 := by
  unfold arrive
  rw [((qubitPairs_perm n fwd).map _).sum_eq]
  exact sum_rawPairs _ q _ (fun pr h => by simp [h]) n

/-! ### The dyadic sum `Σ_{c=1}^{q-1} f c / 2^(q-c)` by its recurrence -/

def dy (f : Nat → ℚ) : Nat → ℚ
  | 0 => 0
  | 1 => 0
  | q + 2 => (dy f (q + 1) + f (q + 1)) / 2

theorem sum_map_half {α : Type} (l : List α) (g h : α → ℚ) (hh : ∀ c ∈ l, g c = h c / 2) :
    (l.map g).sum = (l.map h).sum / 2 := by
  induction l with
  | nil => simp
  | cons a l ih =>
    simp only [List.map_cons, List.sum_cons]
    rw [ih (fun c hc => hh c (List.mem_cons_of_mem _ hc)), hh a (List.mem_cons_self)]
    ring

theorem sum_map_mul {α : Type} (σ : ℚ) (l : List α) (h : α → ℚ) :
    (l.map fun c => σ * h c).sum = σ * (l.map h).sum := by
  induction l with
  | nil => simp
  | cons a l ih => simp only [List.map_cons, List.sum_cons, ih]; ring

theorem sum_dy (f : Nat → ℚ) (q : Nat) :
    ((List.range' 1 (q - 1)).map fun c => f c / 2 ^ (q - c)).sum = dy f q := by
  induction q with
  | zero => simp [dy]
  | succ q ih =>
    cases q with
    | zero => simp [dy]
    | succ q =>
      have : q + 1 + 1 - 1 = q + 1 := by omega
      rw [this, List.range'_1_concat, List.map_append, List.sum_append]
      have hq : q + 1 - 1 = q := by omega
      rw [hq] at ih
      rw [sum_map_half (List.range' 1 q) _ (fun c => f c / 2 ^ (q + 1 - c)), ih]
      · have : q + 1 + 1 - (1 + q) = 1 := by omega
        simp only [List.map_cons, List.map_nil, List.sum_cons, List.sum_nil, this, dy]
        have h1 : 1 + q = q + 1 := by omega
        rw [h1]
        ring
      · intro c hc
        rw [List.mem_range'_1] at hc
        have : q + 1 + 1 - c = (q + 1 - c) + 1 := by omega
        rw [this, pow_succ]
        field_simp

/-- `[b]` as a rational. -/
def ind (b : Bool) : ℚ := if b then 1 else 0

/-- Closed form of a block for control values `v`: the wire-0 gate plus the dyadic sum. -/
theorem block_closed (first fwd : Bool) (v : Nat → Bool) (q : Nat) (hq : 1 ≤ q) :
    blockSum (startOf fwd) (fun pr => if pr.2 = q ∧ v pr.1 = true then wt pr first fwd else 0) q
      = (if fwd then (if first then 1 else -1) * ind (v 0) / 2 ^ (q - 1) else 0)
        + (if fwd then 1 else -1) * dy (fun c => ind (v c)) q := by
  have hdy : ∀ σ : ℚ, ((List.range' 1 (q - 1)).map fun c =>
      if (c, q).2 = q ∧ v (c, q).1 = true then σ / (2 ^ (q - c) : ℚ) else 0).sum
      = σ * dy (fun c => ind (v c)) q := by
    intro σ
    rw [← sum_dy, ← sum_map_mul]
    congr 1
    apply List.map_congr_left
    intro c _
    by_cases hv : v c = true <;> simp [hv, ind] <;> ring
  have hwt : ∀ c, 1 ≤ c → c < q → wt (c, q) first fwd = (if fwd then 1 else -1) / (2 ^ (q - c) : ℚ) := by
    intro c h1 h2
    have : c ≠ 0 := by omega
    cases fwd <;> simp [wt, signal, param, exponent, this]
  have hrest : ((List.range' 1 (q - 1)).map fun c =>
      if (c, q).2 = q ∧ v (c, q).1 = true then wt (c, q) first fwd else 0).sum
      = (if fwd then 1 else -1) * dy (fun c => ind (v c)) q := by
    rw [← hdy]
    congr 1
    apply List.map_congr_left
    intro c hc
    rw [List.mem_range'_1] at hc
    rw [hwt c hc.1 (by omega)]
  cases fwd
  · -- start = 1
    simp only [blockSum, startOf, Bool.false_eq_true, if_false, zero_add]
    simpa using hrest
  · -- start = 0: split off the wire-0 gate
    simp only [blockSum, startOf, if_true, Nat.sub_zero]
    obtain ⟨q', rfl⟩ : ∃ q', q = q' + 1 := ⟨q - 1, by omega⟩
    rw [List.range'_succ, List.map_cons, List.sum_cons]
    have hrest' := hrest
    simp only [Nat.add_sub_cancel, if_true] at hrest'
    have h01 : (0 : Nat) + 1 = 1 := rfl
    rw [h01, hrest']
    congr 1
    have hw0 : wt (0, q' + 1) first true = (if first then 1 else -1) / (2 ^ q' : ℚ) := by
      cases first <;> simp [wt, signal, param, exponent]
    by_cases hv : v 0 = true
    · simp [hv, ind, hw0]
    · simp [hv, ind]

/-! ### The telescoping identity -/

theorem ind_mid (x : Nat → Bool) (q : Nat) (hq : 1 ≤ q) :
    ind (x q) - ind (mid x q) = 2 * andQ x (q + 1) - andQ x q := by
  have : q ≠ 0 := by omega
  simp only [mid, this, if_false, andQ, allBelow_succ]
  cases x q <;> cases allBelow x q <;> simp [ind] <;> norm_num

theorem dy_sub (f g : Nat → ℚ) (q : Nat) :
    dy (fun c => f c - g c) q = dy f q - dy g q := by
  induction q using dy.induct with
  | case1 => simp [dy]
  | case2 => simp [dy]
  | case3 q ih => simp only [dy, ih]; ring

/-- Key identity: `[x 0]/2^(q-1) + Σ_{c=1}^{q-1} ([x c] - [mid c]) / 2^(q-c) = [all wires below q are 1]`. -/
theorem telescope (x : Nat → Bool) (q : Nat) (hq : 1 ≤ q) :
    ind (x 0) / 2 ^ (q - 1) + (dy (fun c => ind (x c)) q - dy (fun c => ind (mid x c)) q)
      = andQ x q := by
  rw [← dy_sub]
  obtain ⟨q', rfl⟩ : ∃ q', q = q' + 1 := ⟨q - 1, by omega⟩
  clear hq
  induction q' with
  | zero =>
    simp only [dy, andQ, allBelow, ind]
    cases h : x 0 <;> simp [h]
  | succ q ih =>
    have hm := ind_mid x (q + 1) (by omega)
    simp only [Nat.add_sub_cancel] at ih ⊢
    simp only [dy]
    rw [pow_succ]
    have : ind (x 0) / (2 ^ q * 2) = ind (x 0) / 2 ^ q / 2 := by field_simp
    rw [this]
    linarith

/-! ### The four sweeps -/

theorem mid_zero (x : Nat → Bool) : mid x 0 = x 0 := by simp [mid]

/-- No gate targets wire 0. -/
theorem arrive_zero (n : Nat) (first fwd : Bool) (v : Nat → Bool) : arrive n first fwd v 0 = 0 := by
  rw [arrive_eq]
  split
  · simp [blockSum]
  · rfl

/-- Sweeps 1 and 2 (`first = True`, on `k+1` wires).  Sweep 1's gates see the inputs `x`; sweep 2's
gates see `mid x`.  Wire `t` receives in total `1` if all wires below it read 1, else `0`. -/
theorem sweeps12 (k : Nat) (x : Nat → Bool) (t : Nat) (h1 : 1 ≤ t) (h2 : t ≤ k) :
    arrive (k + 1) true true x t + arrive (k + 1) true false (mid x) t = andQ x t := by
  have ht : t < k + 1 := by omega
  rw [arrive_eq, arrive_eq, if_pos ht, if_pos ht, block_closed _ _ _ _ h1, block_closed _ _ _ _ h1]
  have := telescope x t h1
  simp only [if_true, Bool.false_eq_true, if_false] at this ⊢
  rw [← this]
  ring

/-- Sweeps 3 and 4 (`first = False`, on the `k` control wires).  Sweep 3's gates see `mid x`,
sweep 4's gates see the restored inputs `x`.  Wire `t` receives in total `-1` if all wires below it
read 1, else `0` — the opposite of what sweeps 1 and 2 left on it. -/
theorem sweeps34 (k : Nat) (x : Nat → Bool) (t : Nat) (h1 : 1 ≤ t) (h2 : t < k) :
    arrive k false true (mid x) t + arrive k false false x t = - andQ x t := by
  rw [arrive_eq, arrive_eq, if_pos h2, if_pos h2, block_closed _ _ _ _ h1, block_closed _ _ _ _ h1]
  have := telescope x t h1
  simp only [if_true, Bool.false_eq_true, if_false, mid_zero] at this ⊢
  rw [← this]
  ring

end Qclib.Mcu2
