import QclibModel.Proofs.MixedBits
import Mathlib.Algebra.Order.Field.Basic
import Mathlib.Algebra.Order.Ring.Abs
import Mathlib.Algebra.BigOperators.Group.List.Basic
import Mathlib.Tactic.Linarith
/-
  C14: the validation chain of `MixedInitialize.__init__` read over a linearly ordered field
  (exact arithmetic; `ℚ` with `ε = 1/10^9` is the instance the `example`s use).
-/
namespace Qclib.Mixed

variable {K : Type} [Field K] [LinearOrder K] [IsStrictOrderedRing K]

/-- The model's number operations read in an ordered field; `ε` is `rel_tol` (1e-9), `abs_tol = 0`,
no infinities. -/
def fieldVOps (K : Type) [Field K] [LinearOrder K] [IsStrictOrderedRing K] (ε : K) : VOps K where
  ofNat n := (n : K)
  add := (· + ·)
  sub := (· - ·)
  mul := (· * ·)
  inv k := 1 / (k : K)
  abs x := |x|
  lt a b := decide (a < b)
  le a b := decide (a ≤ b)
  eq a b := decide (a = b)
  isInf _ := false
  relTol := ε
  absTol := 0

/-- `math.isclose(s, 1.0)` in exact arithmetic. -/
def CloseTo1 (ε s : K) : Prop := |s - 1| ≤ ε * max |s| 1

theorem isclose_one_iff (ε : K) (hε : 0 ≤ ε) (s : K) :
    isclose (fieldVOps K ε) s ((fieldVOps K ε).ofNat 1) = true ↔ CloseTo1 ε s := by
  unfold isclose CloseTo1
  simp only [fieldVOps, Nat.cast_one, Bool.false_or, Bool.false_eq_true, if_false, mul_one]
  by_cases h : s = 1
  · subst h
    simp only [decide_true, if_true, sub_self, abs_zero, abs_one, max_self, mul_one, true_iff]
    exact hε
  · simp only [h, decide_false, Bool.false_eq_true, if_false, Bool.or_eq_true, decide_eq_true_eq]
    rw [abs_mul, abs_of_nonneg hε, abs_sub_comm 1 s, mul_max_of_nonneg _ _ hε, le_max_iff, mul_one]
    constructor
    · rintro ((h1 | h2) | h3)
      · exact Or.inr h1
      · exact Or.inl h2
      · exfalso; apply h
        have := abs_nonpos_iff.1 h3
        linarith
    · rintro (h1 | h2)
      · exact Or.inl (Or.inr h1)
      · exact Or.inl (Or.inl h2)

omit [LinearOrder K] [IsStrictOrderedRing K] in
theorem foldl_add_eq (ps : List K) (acc : K) : ps.foldl (· + ·) acc = acc + ps.sum := by
  induction ps generalizing acc with
  | nil => simp
  | cons h t ih => rw [List.foldl_cons, ih, List.sum_cons, add_assoc]

theorem pySum_eq (ε : K) (ps : List K) : pySum (fieldVOps K ε) ps = ps.sum := by
  unfold pySum
  show ps.foldl (· + ·) ((0 : Nat) : K) = ps.sum
  rw [foldl_add_eq, Nat.cast_zero, zero_add]

/-- A probability vector as the property means it, with the tolerance of `isclose`. -/
def ValidProbs (ε : K) (ps : List K) : Prop :=
  (∀ p ∈ ps, 0 ≤ p) ∧ (∀ p ∈ ps, p ≤ 1) ∧ CloseTo1 ε ps.sum

theorem checkProbs_neg (ε : K) (k : Nat) (ps : List K) (h : ∃ p ∈ ps, p < 0) :
    checkProbs (fieldVOps K ε) k (some ps) = .error .valueNeg := by
  unfold checkProbs
  have : ps.any (fun i => (fieldVOps K ε).lt i ((fieldVOps K ε).ofNat 0)) = true := by
    rw [List.any_eq_true]
    obtain ⟨p, hp, hlt⟩ := h
    exact ⟨p, hp, by simp [fieldVOps, hlt]⟩
  simp only [this, if_true]

theorem any_neg_false (ε : K) (ps : List K) (h : ∀ p ∈ ps, 0 ≤ p) :
    ps.any (fun i => (fieldVOps K ε).lt i ((fieldVOps K ε).ofNat 0)) = false := by
  rw [List.any_eq_false]
  intro p hp
  have := h p hp
  simp [fieldVOps, not_lt.2 this]

theorem any_gt1_false (ε : K) (ps : List K) (h : ∀ p ∈ ps, p ≤ 1) :
    ps.any (fun i => (fieldVOps K ε).lt ((fieldVOps K ε).ofNat 1) i) = false := by
  rw [List.any_eq_false]
  intro p hp
  have := h p hp
  simp [fieldVOps, not_lt.2 this]

theorem checkProbs_gt1 (ε : K) (k : Nat) (ps : List K) (h0 : ∀ p ∈ ps, 0 ≤ p)
    (h : ∃ p ∈ ps, 1 < p) : checkProbs (fieldVOps K ε) k (some ps) = .error .valueGt1 := by
  unfold checkProbs
  have : ps.any (fun i => (fieldVOps K ε).lt ((fieldVOps K ε).ofNat 1) i) = true := by
    rw [List.any_eq_true]
    obtain ⟨p, hp, hlt⟩ := h
    exact ⟨p, hp, by simp [fieldVOps, hlt]⟩
  simp only [any_neg_false ε ps h0, this, if_true, Bool.false_eq_true, if_false]

theorem checkProbs_sum (ε : K) (hε : 0 ≤ ε) (k : Nat) (ps : List K) (h0 : ∀ p ∈ ps, 0 ≤ p)
    (h1 : ∀ p ∈ ps, p ≤ 1) (h : ¬ CloseTo1 ε ps.sum) :
    checkProbs (fieldVOps K ε) k (some ps) = .error .valueSum := by
  unfold checkProbs
  have : isclose (fieldVOps K ε) (pySum (fieldVOps K ε) ps) ((fieldVOps K ε).ofNat 1) = false := by
    rw [Bool.eq_false_iff]
    intro hc
    rw [pySum_eq] at hc
    exact h ((isclose_one_iff ε hε _).1 hc)
  simp only [any_neg_false ε ps h0, any_gt1_false ε ps h1, this, Bool.false_eq_true, if_false,
    Bool.not_false, if_true]

theorem checkProbs_ok (ε : K) (hε : 0 ≤ ε) (k : Nat) (ps : List K) (h : ValidProbs ε ps) :
    checkProbs (fieldVOps K ε) k (some ps) = .ok ps := by
  unfold checkProbs
  have : isclose (fieldVOps K ε) (pySum (fieldVOps K ε) ps) ((fieldVOps K ε).ofNat 1) = true := by
    rw [pySum_eq]; exact (isclose_one_iff ε hε _).2 h.2.2
  simp only [any_neg_false ε ps h.1, any_gt1_false ε ps h.2.1, this, Bool.false_eq_true, if_false,
    Bool.not_true]

/-- every outcome of the chain on an explicit vector, by cases -/
theorem checkProbs_cases (ε : K) (hε : 0 ≤ ε) (k : Nat) (ps : List K) :
    (ValidProbs ε ps ∧ checkProbs (fieldVOps K ε) k (some ps) = .ok ps)
    ∨ (¬ ValidProbs ε ps ∧ ∃ e, checkProbs (fieldVOps K ε) k (some ps) = .error e
        ∧ (e = .valueNeg ∨ e = .valueGt1 ∨ e = .valueSum)) := by
  by_cases h0 : ∀ p ∈ ps, 0 ≤ p
  · by_cases h1 : ∀ p ∈ ps, p ≤ 1
    · by_cases h2 : CloseTo1 ε ps.sum
      · exact Or.inl ⟨⟨h0, h1, h2⟩, checkProbs_ok ε hε k ps ⟨h0, h1, h2⟩⟩
      · exact Or.inr ⟨fun v => h2 v.2.2, _, checkProbs_sum ε hε k ps h0 h1 h2, by simp⟩
    · refine Or.inr ⟨fun v => h1 v.2.1, _, checkProbs_gt1 ε k ps h0 ?_, by simp⟩
      simpa [not_le] using h1
  · refine Or.inr ⟨fun v => h0 v.1, _, checkProbs_neg ε k ps ?_, by simp⟩
    simpa [not_le] using h0

/-- `initDecision` on `k ≥ 1` states of `n ≥ 1` qubits each, once the probabilities passed. -/
theorem initDecision_of_check (ε : K) (n k : Nat) (hn : 1 ≤ n) (hk : 1 ≤ k) (probs : Option (List K)) :
    initDecision (fieldVOps K ε) true (List.replicate k (2 ^ n)) probs
      = match checkProbs (fieldVOps K ε) k probs with
        | .error e => .error e
        | .ok ps => .ok ⟨ps, n + clog2 k, clog2 k, n⟩ := by
  obtain ⟨k', rfl⟩ : ∃ k', k = k' + 1 := ⟨k - 1, by omega⟩
  unfold initDecision
  simp only [Bool.not_true, Bool.false_eq_true, if_false, List.length_replicate]
  cases checkProbs (fieldVOps K ε) (k' + 1) probs with
  | error e => rfl
  | ok ps =>
    simp only [List.replicate_succ]
    have hpos : (2 : Nat) ^ n ≠ 0 := Nat.pos_iff_ne_zero.1 (Nat.two_pow_pos n)
    simp only [hpos, if_false, isPow2Pos_two_pow hn, Bool.not_true, Bool.false_eq_true, numQubits,
      clog2_two_pow]

/-- the uniform default is a probability vector (exactly: tolerance 0 suffices) -/
theorem uniform_valid (ε : K) (k : Nat) (hk : 1 ≤ k) :
    checkProbs (fieldVOps K ε) k none = .ok (List.replicate k (1 / (k : K)))
      ∧ (∀ p ∈ List.replicate k (1 / (k : K)), 0 ≤ p ∧ p ≤ 1)
      ∧ (List.replicate k (1 / (k : K))).sum = 1 := by
  have hk0 : k ≠ 0 := by omega
  have hkK : (0 : K) < (k : K) := by exact_mod_cast (by omega : 0 < k)
  have h1k : (1 : K) ≤ (k : K) := by exact_mod_cast hk
  refine ⟨?_, ?_, ?_⟩
  · unfold checkProbs
    simp only [hk0, if_false]
    rfl
  · intro p hp
    rw [List.eq_of_mem_replicate hp]
    constructor
    · exact le_of_lt (one_div_pos.2 hkK)
    · rw [div_le_one hkK]; exact h1k
  · rw [List.sum_replicate, nsmul_eq_mul, mul_one_div, div_self (ne_of_gt hkK)]

/-- what acceptance means for the sum with `ε < 1`: within relative tolerance on both sides -/
theorem closeTo1_bounds (ε : K) (hε : 0 ≤ ε) (hε1 : ε < 1) (s : K) (h : CloseTo1 ε s) :
    1 - ε ≤ s ∧ s * (1 - ε) ≤ 1 := by
  unfold CloseTo1 at h
  rcases le_total |s| 1 with hs | hs
  · rw [max_eq_right hs, mul_one] at h
    have h1 := abs_le.1 h
    have h2 := abs_le.1 hs
    constructor
    · linarith
    · nlinarith
  · rw [max_eq_left hs] at h
    have h1 := abs_le.1 h
    rcases le_total 0 s with h0 | h0
    · rw [abs_of_nonneg h0] at h1 hs
      constructor <;> nlinarith
    · rw [abs_of_nonpos h0] at h1 hs
      exfalso; nlinarith

end Qclib.Mixed
