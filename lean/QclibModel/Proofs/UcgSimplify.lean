import QclibModel.Spec.Ucg
import QclibModel.Proofs.UcgIndex
/-
  C12: `_repetition_verify` / `_repetition_search` only accept strides along which the operator
  list really is periodic; a multiplexer that is periodic along a control does not read it.
-/
namespace Qclib.Ucg

variable {α : Type}

/-- `eqv` (the model of `np.allclose`) only accepts equal matrices. -/
def EqvSound (eqv : Mat2 α → Mat2 α → Bool) : Prop := ∀ a b, eqv a b = true → a = b

/-- `_repetition_verify` succeeds only if the `cnt` entries from `base` equal those from `nxt`;
then exactly the entries `nxt … nxt+cnt-1` of the copy are set to `None`. -/
theorem repVerify_some (eqv : Mat2 α → Mat2 α → Bool) (hs : EqvSound eqv) (mux : Nat → Mat2 α) :
    ∀ (cnt base nxt : Nat) (cpy cpy' : Nat → Bool),
      repVerify eqv mux cnt base nxt cpy = some cpy' →
      (∀ i, i < cnt → mux (base + i) = mux (nxt + i)) ∧
      (∀ k, cpy' k = (if nxt ≤ k ∧ k < nxt + cnt then false else cpy k)) := by
  intro cnt
  induction cnt with
  | zero =>
    intro base nxt cpy cpy' h
    simp only [repVerify, Option.some.injEq] at h
    subst h
    exact ⟨fun i hi => absurd hi (by omega), fun k => by rw [if_neg (by omega)]⟩
  | succ cnt ih =>
    intro base nxt cpy cpy' h
    rw [repVerify] at h
    split at h
    · rename_i he
      obtain ⟨h1, h2⟩ := ih _ _ _ _ h
      refine ⟨fun i hi => ?_, fun k => ?_⟩
      · cases i with
        | zero => exact hs _ _ he
        | succ i =>
          have := h1 i (by omega)
          rwa [show base + 1 + i = base + (i + 1) by omega, show nxt + 1 + i = nxt + (i + 1) by omega] at this
      · rw [h2 k]
        by_cases hk : k = nxt
        · subst hk; simp
        · by_cases hk2 : nxt + 1 ≤ k ∧ k < nxt + 1 + cnt
          · rw [if_pos hk2, if_pos (by omega)]
          · rw [if_neg hk2, if_neg hk, if_neg (by omega)]
    · exact absurd h (by simp)

/-- the `while repetitions` loop succeeds only if every block `[base+2dr, base+2dr+d)` equals the
block `d` further on. -/
theorem repBlocks_some (eqv : Mat2 α → Mat2 α → Bool) (hs : EqvSound eqv) (mux : Nat → Mat2 α) (d : Nat) :
    ∀ (reps base : Nat) (cpy cpy' : Nat → Bool),
      repBlocks eqv mux d reps base cpy = some cpy' →
      ∀ r, r < reps → ∀ i, i < d → mux (base + 2 * d * r + i) = mux (base + 2 * d * r + d + i) := by
  intro reps
  induction reps with
  | zero => intro _ _ _ _ r hr; exact absurd hr (by omega)
  | succ reps ih =>
    intro base cpy cpy' h r hr i hi
    rw [repBlocks] at h
    split at h
    · exact absurd h (by simp)
    · rename_i cpy1 hv
      cases r with
      | zero =>
        have := (repVerify_some eqv hs mux _ _ _ _ _ hv).1 i hi
        simpa using this
      | succ r =>
        have := ih _ _ _ h r (by omega) i hi
        rw [show base + 2 * d + 2 * d * r = base + 2 * d * (r + 1) by rw [Nat.mul_add]; omega] at this
        exact this

/-- the operator list does not depend on bit `j` of the index, below `len`. -/
def PeriodicAt (mux : Nat → Mat2 α) (len d : Nat) : Prop :=
  ∀ k, k < len → k / d % 2 = 0 → mux k = mux (k + d)

theorem periodic_of_blocks (mux : Nat → Mat2 α) (d reps : Nat) (hd : 0 < d)
    (h : ∀ r, r < reps → ∀ i, i < d → mux (0 + 2 * d * r + i) = mux (0 + 2 * d * r + d + i)) :
    PeriodicAt mux (2 * d * reps) d := by
  intro k hk hb
  have hi : k % d < d := Nat.mod_lt _ hd
  have hk' : k = 2 * d * (k / d / 2) + k % d := by
    have h1 := Nat.mod_add_div k d
    have h2 : k / d = 2 * (k / d / 2) := by omega
    calc k = k % d + d * (k / d) := h1.symm
      _ = k % d + d * (2 * (k / d / 2)) := by rw [← h2]
      _ = 2 * d * (k / d / 2) + k % d := by rw [Nat.add_comm, ← Nat.mul_assoc, Nat.mul_comm d 2]
  have hr : k / d / 2 < reps := by
    rw [Nat.div_div_eq_div_mul, Nat.div_lt_iff_lt_mul (by omega)]
    calc k < 2 * d * reps := hk
      _ = reps * (d * 2) := by rw [Nat.mul_comm, Nat.mul_comm 2 d]
  have := h (k / d / 2) hr (k % d) hi
  rw [Nat.zero_add] at this
  rw [hk'] at ⊢
  rw [this]
  congr 1
  omega

/-- what `_repetition_search` guarantees for an entry of `dont_carry`. -/
def DroppedOk (mux : Nat → Mat2 α) (len nq x : Nat) : Prop :=
  ∃ j, x = nq + j + 1 ∧ 1 ≤ 2 ^ j ∧ 2 ^ j ≤ len / 2 ∧
    PeriodicAt mux (2 * 2 ^ j * (len / (2 * 2 ^ j))) (2 ^ j)

theorem repStep_inv (eqv : Mat2 α → Mat2 α → Bool) (hs : EqvSound eqv) (mux : Nat → Mat2 α) (len nq : Nat)
    (st : (Nat → Bool) × List Nat) (i : Nat) (hi1 : 1 ≤ i) (hi2 : i ≤ len / 2)
    (h : ∀ x ∈ st.2, DroppedOk mux len nq x) :
    ∀ x ∈ (repStep eqv mux len nq st i).2, DroppedOk mux len nq x := by
  unfold repStep
  split
  · rename_i hc
    simp only [Bool.and_eq_true] at hc
    dsimp only
    split
    · exact h
    · split
      · rename_i cpy' hb
        intro x hx
        simp only [List.mem_append, List.mem_singleton] at hx
        rcases hx with hx | hx
        · exact h x hx
        · have hp : 2 ^ Nat.log2 i = i := by simpa [isPow2] using hc.1
          refine ⟨Nat.log2 i, hx, ?_, ?_, ?_⟩
          · rw [hp]; exact hi1
          · rw [hp]; exact hi2
          · rw [hp]
            exact periodic_of_blocks mux i _ (by omega) (repBlocks_some eqv hs mux i _ 0 _ _ hb)
      · exact h
  · exact h

theorem foldl_inv {β γ : Type} (f : β → γ → β) (P : β → Prop) (Q : γ → Prop) (l : List γ) (b : β)
    (hb : P b) (hl : ∀ x ∈ l, Q x) (hf : ∀ b x, P b → Q x → P (f b x)) : P (l.foldl f b) := by
  induction l generalizing b with
  | nil => exact hb
  | cons x xs ih =>
    exact ih (f b x) (hf b x hb (hl x (by simp))) (fun y hy => hl y (by simp [hy]))

/-- every control `_repetition_search` reports in `dont_carry` is one the operator list does not
depend on. -/
theorem repSearch_dropped (eqv : Mat2 α → Mat2 α → Bool) (hs : EqvSound eqv) (mux : Nat → Mat2 α)
    (len nq : Nat) : ∀ x ∈ (repSearch eqv mux len nq).2, DroppedOk mux len nq x := by
  unfold repSearch
  refine foldl_inv (repStep eqv mux len nq) (fun st => ∀ x ∈ st.2, DroppedOk mux len nq x)
    (fun i => 1 ≤ i ∧ i ≤ len / 2) _ _ (by simp) ?_ ?_
  · intro i hi
    rw [List.mem_range'_1] at hi
    omega
  · intro st i hst hi
    exact repStep_inv eqv hs mux len nq st i hi.1 hi.2 hst

/-- index with bit `j` cleared. -/
def clearBit (j h : Nat) : Nat := if h / 2 ^ j % 2 = 1 then h - 2 ^ j else h

theorem periodic_clear (mux : Nat → Mat2 α) (len j : Nat) (hp : PeriodicAt mux len (2 ^ j))
    (h : Nat) (hh : h < len) : mux h = mux (clearBit j h) := by
  unfold clearBit
  split
  · rename_i hb
    have hge : 2 ^ j ≤ h := by
      by_contra hlt
      rw [Nat.div_eq_of_lt (by omega)] at hb
      omega
    have hdiv : h / 2 ^ j = (h - 2 ^ j) / 2 ^ j + 1 := by
      conv_lhs => rw [← Nat.sub_add_cancel hge]
      exact Nat.add_div_right _ (pow_pos2 j)
    have := hp (h - 2 ^ j) (Nat.lt_of_le_of_lt (Nat.sub_le _ _) hh) (by omega)
    rw [Nat.sub_add_cancel hge] at this
    exact this.symm
  · rfl

/-- **A multiplexer that is periodic along control `j` does not read it**: on every label whose
entry index is below `len` it acts as the multiplexer that looks its entry up with bit `j`
cleared (i.e. with that control wire dropped). -/
theorem muxApply_drop {K : Type} [Add K] [Mul K] (mux : Nat → Mat2 K) (len j q : Nat)
    (hp : PeriodicAt mux len (2 ^ j)) (ψ : Vec K) (i : Nat) (hi : i / 2 ^ q / 2 < len) :
    muxApply mux q ψ i = muxApply (fun h => mux (clearBit j h)) q ψ i := by
  unfold muxApply
  simp only [← periodic_clear mux len j hp _ hi]

theorem stride_lt (m j : Nat) (h1 : 2 ^ j ≤ 2 ^ m / 2) : j < m := by
  have hpos : 0 < 2 ^ j := pow_pos2 j
  have hlt : 2 ^ j < 2 ^ m := by
    have : 2 ^ m / 2 < 2 ^ m := Nat.div_lt_self (pow_pos2 m) (by omega)
    omega
  exact (Nat.pow_lt_pow_iff_right (by omega)).1 hlt

theorem full_len (m j : Nat) (hj : j < m) : 2 * 2 ^ j * (2 ^ m / (2 * 2 ^ j)) = 2 ^ m := by
  have e : 2 * 2 ^ j = 2 ^ (j + 1) := by rw [Nat.pow_succ, Nat.mul_comm]
  rw [e, Nat.pow_div (by omega) (by omega), ← Nat.pow_add]
  congr 1
  omega

/-- `_simplify`: every control in `dont_carry` of a multiplexer with `2^m` entries is one of the
level's control wires `target+1 … target+m` and the operator list is periodic along it. -/
theorem simplify_dropped (eqv : Mat2 α → Mat2 α → Bool) (hs : EqvSound eqv) (mux : Nat → Mat2 α)
    (m n level x : Nat) (hx : x ∈ (simplify eqv mux (2 ^ m) n level).1) :
    ∃ j, x = (n - level) + j + 1 ∧ j < m ∧ PeriodicAt mux (2 ^ m) (2 ^ j) := by
  unfold simplify at hx
  split at hx
  · obtain ⟨j, hxj, _, h2, hp⟩ := repSearch_dropped eqv hs mux (2 ^ m) (n - level) x hx
    have hj := stride_lt m j h2
    rw [full_len m j hj] at hp
    exact ⟨j, hxj, hj, hp⟩
  · exact absurd hx (by simp)

end Qclib.Ucg
