import QclibModel.Proofs.BaaExact
import QclibModel.Proofs.BaaBest
/-
  C08: `_greedy_combinations` yields non-empty proper subsets.  The hypothesis on the oracle is
  what the real `_reduce_entanglement(…, use_low_rank=False)` guarantees: exactly the rank-1
  answer comes first (`schmidt_decomposition(rank=1)` followed by the loop `ebits = 0` only).

  Invariant of the round loop (`GInv j`): the node's register list is `front ++ [last]` where every
  register of `front` is a single qubit, `last` is the current entangled remainder, and `front` has
  exactly `j` members unless the remainder ran empty.
-/
namespace Qclib.Baa

variable {α : Type}

/-- `_reduce_entanglement` without low rank returns the rank-1 answer first (in the real code: it
returns exactly that one answer). -/
def GreedyOracle (O : Oracle α) : Prop :=
  ∀ v lp, ∃ s rest, O.schmidt v lp false = s :: rest ∧ s.rank = 1

theorem reduceEntanglement_greedy (O : Oracle α) (hO : GreedyOracle O) (vec : Nat) (reg part : List Nat) :
    ∃ e es, reduceEntanglement O vec reg part false = e :: es ∧ e.rank = 1 ∧ e.register = reg
      ∧ e.partition = part := by
  obtain ⟨s, rest, hs, hr⟩ := hO vec (localPartition reg part)
  have h : reduceEntanglement O vec reg part false =
      (⟨s.rank, s.loss, s.vecV, s.vecU, s.vecA, reg, part, localPartition reg part⟩ : EInfo α) ::
        rest.map (fun s => ⟨s.rank, s.loss, s.vecV, s.vecU, s.vecA, reg, part, localPartition reg part⟩) := by
    unfold reduceEntanglement
    simp only [hs, List.map_cons]
  exact ⟨_, _, h, hr, rfl, rfl⟩

theorem createNode_isSome (L : LossOps α) (O : Oracle α) (parent : Node α) (e : EInfo α)
    (h : ∃ x ∈ parent.entries, x.qubits = e.register) : ∃ c, createNode L O parent e = some c := by
  obtain ⟨x, hx, hxe⟩ := h
  have hany : (parent.entries.findIdx? (fun x => x.qubits == e.register)).isSome = true := by
    rw [List.findIdx?_isSome, List.any_eq_true]
    exact ⟨x, hx, by simp [hxe]⟩
  obtain ⟨idx, hidx⟩ := Option.isSome_iff_exists.mp hany
  have hlt := (List.findIdx?_eq_some_iff_getElem.mp hidx).1
  unfold createNode
  rw [hidx]
  dsimp only
  rw [List.getElem?_eq_getElem hlt]
  exact ⟨_, rfl⟩

def GInv (j : Nat) (nd : Node α) : Prop :=
  ∃ front last, nd.entries = front ++ [last] ∧ (∀ x ∈ front, x.qubits.length = 1)
    ∧ (front.length = j ∨ (last.qubits = [] ∧ front ≠ [])) ∧ (j = 0 → last.qubits ≠ [])

theorem greedyStep_inv (L : LossOps α) (O : Oracle α) (hO : GreedyOracle O) (j : Nat)
    (st : Node α × List Query) (h : GInv j st.1) : GInv (j + 1) (greedyStep L O st).1 := by
  obtain ⟨front, last, hE, hS, hL, h0⟩ := h
  have hlast : st.1.entries.getLast? = some last := by rw [hE]; simp
  unfold greedyStep
  rw [hlast]
  dsimp only
  by_cases hq : last.qubits = []
  · rw [hq]
    simp only [List.filterMap_nil, searchBest]
    refine ⟨front, last, hE, hS, Or.inr ⟨hq, ?_⟩, by omega⟩
    rcases hL with hL | hL
    · intro hf
      rw [hf] at hL
      exact h0 hL.symm hq
    · exact hL.2
  · generalize hnodes : List.filterMap _ last.qubits = nodes
    split
    · -- `searchBest` failed: impossible, the list of nodes is not empty
      rename_i hnone
      exfalso
      obtain ⟨q0, qs', hqs⟩ := List.exists_cons_of_ne_nil hq
      obtain ⟨e, es, hre, _, hreg, _⟩ := reduceEntanglement_greedy O hO last.vec last.qubits [q0]
      obtain ⟨c, hc⟩ := createNode_isSome L O st.1 e ⟨last, by rw [hE]; simp, hreg.symm⟩
      have hmem : c ∈ nodes := by
        rw [← hnodes]
        refine List.mem_filterMap.mpr ⟨q0, by rw [hqs]; simp, ?_⟩
        rw [hre]
        exact hc
      obtain ⟨n0, rest', hnr⟩ := List.exists_cons_of_ne_nil (List.ne_nil_of_mem hmem)
      rw [hnr] at hnone
      obtain ⟨b, hb⟩ := searchBest_isSome L n0 rest'
      rw [hb] at hnone
      exact absurd hnone (by simp)
    · rename_i b hb
      have hm := searchBest_mem L _ _ hb
      rw [← hnodes] at hm
      obtain ⟨q, hqm, hqq⟩ := List.mem_filterMap.mp hm
      obtain ⟨e, es, hre, hrk, hreg, hpart⟩ := reduceEntanglement_greedy O hO last.vec last.qubits [q]
      rw [hre] at hqq
      dsimp only at hqq
      obtain ⟨idx, orig, _, horig, horigq, _, _, _, _, hent⟩ := createNode_some L O st.1 b e hqq
      have hidxlt : idx < (front ++ [last]).length := by
        rw [hE] at horig
        by_contra hge
        rw [List.getElem?_eq_none (by omega)] at horig
        exact absurd horig (by simp)
      have hfrontE : ∀ x ∈ (front ++ [last]).eraseIdx idx, x.qubits.length = 1 := by
        by_cases hi : idx < front.length
        · have horig' : orig ∈ front := by
            rw [hE, List.getElem?_append_left hi] at horig
            exact List.mem_of_getElem? horig
          have hl1 : last.qubits.length = 1 := by rw [← hreg, ← horigq]; exact hS orig horig'
          intro x hx
          rcases List.mem_append.mp (List.mem_of_mem_eraseIdx hx) with hx | hx
          · exact hS x hx
          · simp only [List.mem_singleton] at hx; subst hx; exact hl1
        · have hidx : idx = front.length := by
            simp only [List.length_append, List.length_singleton] at hidxlt; omega
          rw [hidx, List.eraseIdx_append_of_length_le (Nat.le_refl _), Nat.sub_self]
          simpa using hS
      obtain ⟨nl, hnew⟩ : ∃ nl, newEntries e orig = [⟨e.vecV, [q], 1, none⟩, nl] := by
        unfold newEntries
        rw [if_pos hrk, hpart]
        exact ⟨_, rfl⟩
      refine ⟨(front ++ [last]).eraseIdx idx ++ [⟨e.vecV, [q], 1, none⟩], nl, ?_, ?_, Or.inl ?_, by omega⟩
      · rw [hent, hnew, hE]
        simp
      · intro x hx
        rcases List.mem_append.mp hx with hx | hx
        · exact hfrontE x hx
        · simp only [List.mem_singleton] at hx; subst hx; rfl
      · have hfl : front.length = j := by
          rcases hL with hL | hL
          · exact hL
          · exact absurd hL.1 hq
        rw [List.length_append, List.length_eraseIdx_of_lt hidxlt]
        simp only [List.length_append, List.length_singleton]
        omega

theorem greedyIter_inv (L : LossOps α) (O : Oracle α) (hO : GreedyOracle O) (k : Nat) :
    ∀ (j : Nat) (st : Node α × List Query), GInv j st.1 → GInv (j + k) (iter (greedyStep L O) k st).1 := by
  induction k with
  | zero => intro j st h; exact h
  | succ k ih =>
    intro j st h
    simp only [iter]
    have := ih (j + 1) _ (greedyStep_inv L O hO j st h)
    rwa [show j + 1 + k = j + (k + 1) by omega] at this

theorem length_insertU_le (a : Nat) (l : List Nat) : (insertU a l).length ≤ l.length + 1 := by
  induction l with
  | nil => simp [insertU]
  | cons b bs ih =>
    unfold insertU
    split
    · simp
    · split
      · simp
      · simp only [List.length_cons]; omega

theorem length_sortU_le (l : List Nat) : (sortU l).length ≤ l.length := by
  induction l with
  | nil => simp [sortU]
  | cons a as ih =>
    have := length_insertU_le a (sortU as)
    simp only [sortU, List.length_cons]
    omega

theorem length_flatMap_le {β : Type} (f : β → List Nat) (l : List β) (h : ∀ y ∈ l, (f y).length ≤ 1) :
    (l.flatMap f).length ≤ l.length := by
  induction l with
  | nil => simp
  | cons x xs ih =>
    have h1 := h x (by simp)
    have h2 := ih (fun y hy => h y (by simp [hy]))
    simp only [List.flatMap_cons, List.length_append, List.length_cons]
    omega

/-- **`_greedy_combinations`: the `k'`-th candidate is a non-empty duplicate-free increasing list of
at most `k'` qubits of the register** (`1 ≤ k' ≤ max_k`, register not empty). -/
theorem greedy_candidates (L : LossOps α) (O : Oracle α) (hO : GreedyOracle O) (vec : Nat)
    (qs : List Nat) (hqs : qs ≠ []) (maxK : Nat) :
    ∀ part ∈ (greedyCombinations L O vec qs maxK).1,
      part ≠ [] ∧ part.length ≤ maxK ∧ part.Pairwise (· < ·) ∧ ∀ q ∈ part, q ∈ qs := by
  intro part hp
  simp only [greedyCombinations] at hp
  obtain ⟨k', hk', rfl⟩ := List.mem_map.mp hp
  rw [List.mem_range'_1] at hk'
  have hstart : GInv 0 (⟨0, 0, L.zero, L.zero, [⟨vec, qs, 0, none⟩]⟩ : Node α) :=
    ⟨[], ⟨vec, qs, 0, none⟩, rfl, by simp, Or.inl rfl, fun _ => hqs⟩
  have hinv := greedyIter_inv L O hO maxK 0 (⟨0, 0, L.zero, L.zero, [⟨vec, qs, 0, none⟩]⟩, []) hstart
  rw [Nat.zero_add] at hinv
  obtain ⟨front, last, hE, hS, hL, _⟩ := hinv
  have hfne : front ≠ [] := by
    rcases hL with hL | hL
    · intro hf; rw [hf] at hL; simp at hL; omega
    · exact hL.2
  rw [hE]
  have hle1 : ∀ y ∈ (front ++ [last]).take k', y.qubits.length ≤ 1 := by
    intro y hy
    rcases hL with hL | hL
    · rw [List.take_append_of_le_length (by omega)] at hy
      exact Nat.le_of_eq (hS y (List.mem_of_mem_take hy))
    · rcases List.mem_append.mp (List.mem_of_mem_take hy) with hy | hy
      · exact Nat.le_of_eq (hS y hy)
      · simp only [List.mem_singleton] at hy; subst hy; rw [hL.1]; simp
  have hlen := length_flatMap_le (fun x : Entry => x.qubits) _ hle1
  have htl : ((front ++ [last]).take k').length ≤ k' := List.length_take_le _ _
  refine ⟨?_, ?_, pairwise_sortU _, ?_⟩
  · obtain ⟨x, xs, hx⟩ := List.exists_cons_of_ne_nil hfne
    obtain ⟨k'', hk''⟩ : ∃ k'', k' = k'' + 1 := ⟨k' - 1, by omega⟩
    have hx1 := hS x (by rw [hx]; simp)
    obtain ⟨q, hq⟩ : ∃ q, q ∈ x.qubits := by
      cases hxq : x.qubits with
      | nil => rw [hxq] at hx1; simp at hx1
      | cons q _ => exact ⟨q, by simp⟩
    have : q ∈ sortU (((front ++ [last]).take k').flatMap (·.qubits)) := by
      rw [mem_sortU, hx, hk'']
      simp [hq]
    intro hnil
    rw [hnil] at this
    exact absurd this (by simp)
  · have := length_sortU_le (((front ++ [last]).take k').flatMap (·.qubits))
    omega
  · intro q hq
    rw [mem_sortU] at hq
    obtain ⟨x, hx, hqx⟩ := List.mem_flatMap.mp hq
    rw [← hE] at hx
    refine greedy_qubits L O qs maxK _ ?_ x (List.mem_of_mem_take hx) q hqx
    intro x hx q hq
    simp only [List.mem_singleton] at hx
    subst hx
    exact hq

/-- `ProperCandidates` holds for every strategy, `greedy` included, for an oracle whose answers
without low rank start with the rank-1 separation. -/
theorem properCandidates_all (L : LossOps α) (O : Oracle α) (hO : GreedyOracle O) (s : Strategy) :
    ProperCandidates L O s := by
  by_cases hs : s = .greedy
  · subst hs
    intro ent k hlen hk1 hk2 part hp
    simp only [candidates] at hp
    have hne : ent.qubits ≠ [] := by intro h; rw [h] at hlen; simp at hlen
    obtain ⟨h1, h2, _, _⟩ := greedy_candidates L O hO ent.vec ent.qubits hne k part hp
    exact ⟨h1, by omega⟩
  · exact properCandidates_of_ne_greedy L O s hs

end Qclib.Baa
