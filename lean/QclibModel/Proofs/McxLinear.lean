import QclibModel.Proofs.McxCtrl
/-
  C05: `LinearMcx` — `G1 ; G2 ; G1 ; G2` with `G1` the relative-phase V-chain of the first half of
  the controls onto the ancilla (borrowing second-half controls) and `G2` the exact V-chain of the
  second half and the ancilla onto the target (borrowing first-half controls).
-/
set_option linter.unusedSectionVars false
set_option linter.unnecessarySeqFocus false
set_option linter.unusedTactic false
set_option linter.unreachableTactic false

namespace Qclib
open RotSem

section nat
variable {Θ : Type}

theorem mapWires_comp (f g : Nat → Nat) (x : G Θ) :
    G.mapWires f (G.mapWires g x) = G.mapWires (fun i => f (g i)) x := by
  cases x <;> simp [G.mapWires, List.map_map, Function.comp_def]

theorem toffoli_map (o : McxAngles Θ) (cn : Cancel) (f : Nat → Nat) (x y z : Nat) :
    (toffoli o cn x y z).map (G.mapWires f) = toffoli o cn (f x) (f y) (f z) := by
  cases cn <;> rfl

theorem tmtWires_comp (f : Nat → Nat) (x y : Nat) (t : Nat → Nat) :
    (fun i => f (tmtWires x y t i)) = tmtWires (f x) (f y) (fun i => f (t i)) := by
  funext i
  simp only [tmtWires]
  split
  · rfl
  · split <;> rfl

theorem tmtOn_map (nt : Nat) (side : Side) (f : Nat → Nat) (x y : Nat) (t : Nat → Nat) :
    (tmtOn nt side x y t : Circ Θ).map (G.mapWires f)
      = tmtOn nt side (f x) (f y) (fun i => f (t i)) := by
  simp only [tmtOn, List.map_map]
  apply List.map_congr_left
  intro g _
  simp only [Function.comp, mapWires_comp, tmtWires_comp]

/-- Renaming the wires of the V-chain body renames the three registers. -/
theorem vchainBody_map (o : McxAngles Θ) (k nt : Nat) (c a t : Nat → Nat) (rp ao : Bool)
    (f : Nat → Nat) :
    (vchainBody o k nt c a t rp ao).map (G.mapWires f)
      = vchainBody o k nt (fun i => f (c i)) (fun i => f (a i)) (fun i => f (t i)) rp ao := by
  simp only [vchainBody, vchainRound, actionCircuit, resetCircuit, apply_ite (List.map (G.mapWires f)),
    List.map_append, List.map_flatMap, List.map_map, List.map_nil, toffoli_map, tmtOn_map,
    Function.comp_def, G.mapWires, List.map_cons, apply_ite f]

end nat

/-! ### The wire lists of the split -/

theorem getD_app_left {l l' : List Nat} {i : Nat} (h : i < l.length) (d : Nat) :
    (l ++ l').getD i d = l.getD i d := by
  simp only [List.getD_eq_getElem?_getD, List.getElem?_append_left h]

theorem getD_app_right {l l' : List Nat} {i : Nat} (h : l.length ≤ i) (d : Nat) :
    (l ++ l').getD i d = l'.getD (i - l.length) d := by
  simp only [List.getD_eq_getElem?_getD, List.getElem?_append_right h]

theorem getD_snoc (l : List Nat) (x d i : Nat) (h : i = l.length) : (l ++ [x]).getD i d = x := by
  subst h
  simp [List.getD_eq_getElem?_getD]

theorem getD_range' {s n i : Nat} (h : i < n) (d : Nat) : (List.range' s n).getD i d = s + i := by
  simp [List.getD_eq_getElem?_getD, List.getElem?_range' h]

/-- `k_2 = int(np.ceil(num_qubits / 2.0))` with `num_qubits = k + 2`. -/
def linK2 (k : Nat) : Nat := (k + 2 + 1) / 2
/-- `k_1 = num_ctrl - k_2 + 1`. -/
def linK1 (k : Nat) : Nat := k - linK2 k + 1
/-- `control_qubits[:k_1] + control_qubits[k_1 : k_1 + k_1 - 2] + [ancilla_qubit]`. -/
def linW1 (k : Nat) : List Nat :=
  (List.range k).take (linK1 k)
    ++ ((List.range k).drop (linK1 k)).take (linK1 k + linK1 k - 2 - linK1 k) ++ [k + 1]
/-- `[*control_qubits[k_1:], ancilla_qubit] + control_qubits[k_1 - k_2 + 2 : k_1] + [target]`. -/
def linW2 (k : Nat) : List Nat :=
  ((List.range k).drop (linK1 k) ++ [k + 1])
    ++ ((List.range k).take (linK1 k)).drop (linK1 k + 2 - linK2 k) ++ [k]

theorem linW1_eq (k : Nat) (hk : 6 ≤ k) :
    linW1 k = List.range' 0 (linK1 k) ++ List.range' (linK1 k) (linK1 k - 2) ++ [k + 1] := by
  have h2 : linK2 k = (k + 3) / 2 := rfl
  have h1 : linK1 k = k - (k + 3) / 2 + 1 := rfl
  simp only [linW1, List.range_eq_range']
  rw [List.take_range'_of_length_ge (by omega), List.drop_range',
    List.take_range'_of_length_ge (by omega)]
  congr 3 <;> omega

theorem linW2_eq (k : Nat) (hk : 6 ≤ k) :
    linW2 k = List.range' (linK1 k) (linK2 k - 1) ++ [k + 1]
      ++ List.range' (linK1 k + 2 - linK2 k) (linK2 k - 2) ++ [k] := by
  have h2 : linK2 k = (k + 3) / 2 := rfl
  have h1 : linK1 k = k - (k + 3) / 2 + 1 := rfl
  simp only [linW2, List.range_eq_range']
  rw [List.take_range'_of_length_ge (by omega), List.drop_range', List.drop_range']
  congr 3 <;> first | omega | (congr 1 <;> omega)

section wires
variable (k : Nat) (hk : 6 ≤ k)
include hk

theorem w1_c (i : Nat) (hi : i < linK1 k) : (linW1 k).getD i 0 = i := by
  rw [linW1_eq k hk, getD_app_left (by simp <;> omega), getD_app_left (by simp <;> omega),
    getD_range' hi]
  omega

theorem w1_a (i : Nat) (hi : i < linK1 k - 2) : (linW1 k).getD (linK1 k + i) 0 = linK1 k + i := by
  rw [linW1_eq k hk, getD_app_left (by simp <;> omega), getD_app_right (by simp),
    getD_range' (by simp <;> omega)]
  simp

theorem w1_t : (linW1 k).getD (linK1 k + (linK1 k - 2) + 0) 0 = k + 1 := by
  rw [linW1_eq k hk]
  exact getD_snoc _ _ _ _ (by simp <;> omega)

theorem w2_c (i : Nat) (hi : i < linK2 k - 1) : (linW2 k).getD i 0 = linK1 k + i := by
  rw [linW2_eq k hk, getD_app_left (by simp <;> omega), getD_app_left (by simp <;> omega),
    getD_app_left (by simp <;> omega), getD_range' hi]

theorem w2_c' : (linW2 k).getD (linK2 k - 1) 0 = k + 1 := by
  have h2 : linK2 k = (k + 3) / 2 := rfl
  rw [linW2_eq k hk, getD_app_left (by simp <;> omega), getD_app_left (by simp <;> omega)]
  exact getD_snoc _ _ _ _ (by simp)

theorem w2_a (i : Nat) (hi : i < linK2 k - 2) :
    (linW2 k).getD (linK2 k + i) 0 = linK1 k + 2 - linK2 k + i := by
  have h2 : linK2 k = (k + 3) / 2 := rfl
  rw [linW2_eq k hk, getD_app_left (by simp <;> omega), getD_app_right (by simp <;> omega),
    getD_range' (by simp <;> omega)]
  simp
  omega

theorem w2_t : (linW2 k).getD (linK2 k + (linK2 k - 2) + 0) 0 = k := by
  have h2 : linK2 k = (k + 3) / 2 := rfl
  rw [linW2_eq k hk]
  exact getD_snoc _ _ _ _ (by simp <;> omega)

end wires

/-! ### The relative-phase family alone is an involutive signed relabelling -/

section rel
variable {R : Type} [CommRing R] (P : Bits → Bool) (c0 t : Nat)

theorem relTof_invol (hPt : ∀ b v, P (setBit b t v) = P b) (hct : c0 ≠ t) : Invol (relSgn (R := R) P c0 t) (relPerm P c0 t) := by
  have h := ext_invol (fun _ => (1 : R)) (fun b => b) P c0 t ⟨fun _ _ => rfl, fun _ _ => rfl⟩
    (fun _ => rfl) (fun _ => rfl) hPt hct ⟨fun _ => rfl, fun _ => by simp⟩
  refine ⟨h.invπ, fun b => ?_⟩
  have := h.invσ b
  simpa using this

theorem relTof_free (q : Nat) (hqt : q ≠ t) (hqc : q ≠ c0) (hPq : ∀ b v, P (setBit b q v) = P b) :
    FreeAt q (relSgn (R := R) P c0 t) (relPerm P c0 t) := by
  have h := ext_free (fun _ => (1 : R)) (fun b => b) P c0 t q ⟨fun _ _ => rfl, fun _ _ => rfl⟩
    hqt hqc hPq
  refine ⟨fun b v => ?_, h.perm⟩
  have := h.sig b v
  simpa using this

end rel

theorem all1_congr_fun (c c' : Nat → Nat) (n : Nat) (b : Bits) (h : ∀ i, i < n → c i = c' i) :
    all1 c n b = all1 c' n b := by
  induction n with
  | zero => rfl
  | succ n ih => rw [all1, all1, ih (fun i hi => h i (by omega)), h n (by omega)]

theorem all1_add (c : Nat → Nat) (m n : Nat) (b : Bits) :
    all1 c (m + n) b = (all1 c m b && all1 (fun i => c (m + i)) n b) := by
  induction n with
  | zero => simp [all1]
  | succ n ih => rw [← Nat.add_assoc, all1, ih, all1, Bool.and_assoc]

section main
variable {Θ R : Type} [CommRing R] [RotSem Θ R] (o : McxAngles Θ) (hp : Pi8 R o)

/-- `McxVchainDirty(kk, relative_phase, action_only).definition` on its own register layout. -/
def linSub (kk : Nat) (rp ao : Bool) : Circ Θ :=
  vchainBody o kk 1 (fun i => i) (fun i => kk + i) (fun i => kk + (kk - 2) + i) rp ao

theorem linearBody_big (k : Nat) (hk : 6 ≤ k) (ao : Bool) :
    linearBody o k ao
      = place (linSub o (linK1 k) true false) (linW1 k) ++ place (linSub o (linK2 k) false false) (linW2 k)
        ++ place (linSub o (linK1 k) true false) (linW1 k) ++ place (linSub o (linK2 k) false ao) (linW2 k) := by
  have h1 : ¬ (k + 2 < 5) := by omega
  have h2 : ¬ (k + 2 = 5) := by omega
  have h3 : ¬ (k + 2 = 6) := by omega
  have h4 : ¬ (k + 2 = 7) := by omega
  simp only [linearBody, if_neg h1, if_neg h2, if_neg h3, if_neg h4, Nat.add_sub_cancel,
    List.length_range, linSub, linW1, linW2, linK1, linK2]
  rfl

include hp

/-- The split branch (`k ≥ 6` controls): target flipped iff all `k` controls are 1; the ancilla
`k+1` and every control are restored, for every state. -/
theorem linear_big (k : Nat) (hk : 6 ≤ k) (ψ : State R) :
    sem (linearBody o k false) ψ = condFlipAll (all1 (fun i => i) k) [k] ψ := by
  have h2 : linK2 k = (k + 3) / 2 := rfl
  have h1 : linK1 k = k - (k + 3) / 2 + 1 := rfl
  -- the two sub-circuits on their actual wires
  let f1 : Nat → Nat := fun i => (linW1 k).getD i 0
  let f2 : Nat → Nat := fun i => (linW2 k).getD i 0
  have L1 : VLayout (linK1 k) 1 (fun i => f1 i) (fun i => f1 (linK1 k + i))
      (fun i => f1 (linK1 k + (linK1 k - 2) + i)) := by
    constructor
    · intro i j hi hj h
      simp only [f1, w1_c k hk i hi, w1_c k hk j hj] at h
      exact h
    · intro i j hi hj h
      simp only [f1, w1_a k hk i hi, w1_a k hk j hj] at h
      omega
    · intro i j hi hj _
      omega
    · intro i j hi hj
      simp only [f1, w1_c k hk i hi, w1_a k hk j hj]
      omega
    · intro i j hi hj
      have hj0 : j = 0 := by omega
      subst hj0
      simp only [f1, w1_c k hk i hi, w1_t k hk]
      omega
    · intro i j hi hj
      have hj0 : j = 0 := by omega
      subst hj0
      simp only [f1, w1_a k hk i hi, w1_t k hk]
      omega
  have hc2 : ∀ i, i < linK2 k → f2 i = if i < linK2 k - 1 then linK1 k + i else k + 1 := by
    intro i hi
    by_cases h : i < linK2 k - 1
    · simp only [f2, if_pos h, w2_c k hk i h]
    · have : i = linK2 k - 1 := by omega
      subst this
      simp only [f2, if_neg h, w2_c' k hk]
  have L2 : VLayout (linK2 k) 1 (fun i => f2 i) (fun i => f2 (linK2 k + i))
      (fun i => f2 (linK2 k + (linK2 k - 2) + i)) := by
    constructor
    · intro i j hi hj h
      simp only [hc2 i hi, hc2 j hj] at h
      split at h <;> split at h <;> omega
    · intro i j hi hj h
      simp only [f2, w2_a k hk i hi, w2_a k hk j hj] at h
      omega
    · intro i j hi hj _
      omega
    · intro i j hi hj
      simp only [hc2 i hi]
      simp only [f2, w2_a k hk j hj]
      split <;> omega
    · intro i j hi hj
      have hj0 : j = 0 := by omega
      subst hj0
      simp only [hc2 i hi]
      simp only [f2, w2_t k hk]
      split <;> omega
    · intro i j hi hj
      have hj0 : j = 0 := by omega
      subst hj0
      simp only [f2, w2_a k hk i hi, w2_t k hk]
      omega
  have hG1 := body_relphase (R := R) o hp (linK1 k) 1 (by omega) (by omega) _ _ _ L1
  have hG2 := body_exact (R := R) o hp (linK2 k) 1 (by omega) (by omega) _ _ _ L2 false (Or.inl rfl)
  rw [linearBody_big o k hk false]
  simp only [place, linSub, vchainBody_map, sem_append]
  simp only [f1, f2] at hG1 hG2
  rw [hG1, hG2, hG1, hG2]
  -- evaluate the wires
  have e1 : linK1 k - 1 < linK1 k := by omega
  have et1 : (linW1 k).getD (linK1 k + (linK1 k - 2) + 0) 0 = k + 1 := w1_t k hk
  have et2 : (linW2 k).getD (linK2 k + (linK2 k - 2) + 0) 0 = k := w2_t k hk
  have eu : (linW1 k).getD (linK1 k - 1) 0 = linK1 k - 1 := w1_c k hk _ e1
  simp only [et1, et2, eu, List.range_one, List.map_cons, List.map_nil]
  have hk2 : linK2 k = (linK2 k - 1) + 1 := by omega
  have hH : ∀ b, all1 (fun i => (linW2 k).getD i 0) (linK2 k) b
      = (all1 (fun i => linK1 k + i) (linK2 k - 1) b && b (k + 1)) := by
    intro b
    conv_lhs => rw [hk2]
    rw [all1, all1_congr_fun _ (fun i => linK1 k + i) _ b (fun i hi => w2_c k hk i hi)]
    simp only [w2_c' k hk]
  have hP : ∀ b, all1 (fun i => (linW1 k).getD i 0) (linK1 k - 1) b
      = all1 (fun i => i) (linK1 k - 1) b := fun b =>
    all1_congr_fun _ _ _ b (fun i hi => w1_c k hk i (by omega))
  have hPfun : all1 (fun i => (linW1 k).getD i 0) (linK1 k - 1) = all1 (fun i => i) (linK1 k - 1) :=
    funext hP
  have hcf : ∀ φ : State R, condFlipAll (all1 (fun i => (linW2 k).getD i 0) (linK2 k)) [k] φ
      = condFlip (fun b => all1 (fun i => linK1 k + i) (linK2 k - 1) b && b (k + 1)) k φ := by
    intro φ
    funext b
    simp only [condFlipAll, condFlip, hH]
    rfl
  rw [hcf, hcf, hPfun]
  have hPt : ∀ (b : Bits) (v : Bool), all1 (fun i => i) (linK1 k - 1) (setBit b (k + 1) v)
      = all1 (fun i => i) (linK1 k - 1) b := fun b v =>
    all1_setBit _ _ b _ v (fun i hi => by omega)
  rw [sandwich' (relSgn (all1 (fun i => i) (linK1 k - 1)) (linK1 k - 1) (k + 1))
    (relPerm (all1 (fun i => i) (linK1 k - 1)) (linK1 k - 1) (k + 1)) (k + 1) k
    (fun b => all1 (fun i => i) (linK1 k - 1) b && b (linK1 k - 1))
    (all1 (fun i => linK1 k + i) (linK2 k - 1))
    (relTof_free _ _ _ k (by omega) (by omega)
      (fun b v => all1_setBit _ _ b _ v (fun i hi => by omega)))
    (fun b => relPerm_get _ _ _ b)
    (fun b => all1_congr _ _ b _ (fun i hi => relPerm_get_ne _ _ _ b (by omega)))
    (fun b => by
      rw [all1_flipBit _ _ b _ (fun i hi => by omega), flipBit_ne b (by omega)])
    (fun b => all1_flipBit _ _ b _ (fun i hi => by omega))
    (by omega) (relTof_invol _ _ _ hPt (by omega))]
  funext b
  have hk1 : linK1 k = (linK1 k - 1) + 1 := by omega
  have hkk : k = linK1 k + (linK2 k - 1) := by omega
  have hall : all1 (fun i => i) k b
      = (all1 (fun i => i) (linK1 k) b && all1 (fun i => linK1 k + i) (linK2 k - 1) b) := by
    conv_lhs => rw [hkk]
    exact all1_add _ _ _ b
  have hall1 : all1 (fun i => i) (linK1 k) b
      = (all1 (fun i => i) (linK1 k - 1) b && b (linK1 k - 1)) := by
    conv_lhs => rw [hk1]
    rfl
  simp only [condFlip, condFlipAll, hall, hall1, Bool.and_comm]
  rfl

omit hp in
/-- The hard-coded branches (`k ≤ 5` controls) by direct evaluation. -/
theorem linear_small (k : Nat) (hk1 : 1 ≤ k) (hk5 : k ≤ 5) (ψ : State R) :
    sem (linearBody o k false) ψ = condFlipAll (all1 (fun i => i) k) [k] ψ := by
  have hcases : k = 1 ∨ k = 2 ∨ k = 3 ∨ k = 4 ∨ k = 5 := by omega
  rcases hcases with rfl | rfl | rfl | rfl | rfl
  · have e : linearBody o 1 false = [G.cx 0 1] := rfl
    rw [e, sem_single, denote_cx_condFlip]
    funext b
    simp [condFlip, condFlipAll, all1, flipAll]
  · have e : linearBody o 2 false = [G.ccx 0 1 2] := rfl
    rw [e, sem_single, denote_ccx_condFlip]
    funext b
    simp [condFlip, condFlipAll, all1, flipAll]
  · have e : linearBody o 3 false = [G.mcx [0, 1, 2] 3] := rfl
    rw [e, sem_single, denote_mcx_condFlip]
    funext b
    simp [condFlip, condFlipAll, all1, flipAll, Bool.and_assoc]
  · have e : linearBody o 4 false = [G.mcx [0, 1, 2, 3] 4] := rfl
    rw [e, sem_single, denote_mcx_condFlip]
    funext b
    simp [condFlip, condFlipAll, all1, flipAll, Bool.and_assoc]
  · have e : linearBody o 5 false
        = [G.mcx [0, 1, 2] 6, G.mcx [3, 4, 6] 5, G.mcx [0, 1, 2] 6, G.mcx [3, 4, 6] 5] := rfl
    have e' : ∀ φ : State R, sem [G.mcx [0, 1, 2] 6, G.mcx [3, 4, 6] 5, G.mcx [0, 1, 2] 6,
        (G.mcx [3, 4, 6] 5 : G Θ)] φ
        = denote (G.mcx [3, 4, 6] 5 : G Θ) (denote (G.mcx [0, 1, 2] 6 : G Θ)
            (denote (G.mcx [3, 4, 6] 5 : G Θ) (denote (G.mcx [0, 1, 2] 6 : G Θ) φ))) := fun _ => rfl
    rw [e, e']
    funext b
    have n56 : (5 : Nat) ≠ 6 := by omega
    have n65 : (6 : Nat) ≠ 5 := by omega
    have n05 : (0 : Nat) ≠ 5 := by omega
    have n15 : (1 : Nat) ≠ 5 := by omega
    have n25 : (2 : Nat) ≠ 5 := by omega
    have n36 : (3 : Nat) ≠ 6 := by omega
    have n46 : (4 : Nat) ≠ 6 := by omega
    have n06 : (0 : Nat) ≠ 6 := by omega
    have n16 : (1 : Nat) ≠ 6 := by omega
    have n26 : (2 : Nat) ≠ 6 := by omega
    have n35 : (3 : Nat) ≠ 5 := by omega
    have n45 : (4 : Nat) ≠ 5 := by omega
    simp only [denote_mcx_condFlip, condFlip, condFlipAll, all1, flipAll, List.all_cons,
      List.all_nil, Bool.and_true, List.foldl, flipBit_ne _ n56, flipBit_ne _ n65, flipBit_ne _ n05,
      flipBit_ne _ n15, flipBit_ne _ n25, flipBit_ne _ n36, flipBit_ne _ n46, flipBit_ne _ n06,
      flipBit_ne _ n16, flipBit_ne _ n26, flipBit_ne _ n35, flipBit_ne _ n45, flipBit_eq,
      Bool.true_and]
    by_cases h0 : b 0 = true <;> by_cases h1 : b 1 = true <;> by_cases h2 : b 2 = true <;>
      by_cases h3 : b 3 = true <;> by_cases h4 : b 4 = true <;> by_cases h6 : b 6 = true <;>
      simp [h0, h1, h2, h3, h4, h6, flipBit_flipBit, flipBit_comm]

include hp in
/-- `LinearMcx._define` without `ctrl_state`, every `k ≥ 1`. -/
theorem linear_body (k : Nat) (hk : 1 ≤ k) (ψ : State R) :
    sem (linearBody o k false) ψ = condFlipAll (all1 (fun i => i) k) [k] ψ := by
  by_cases h : k ≤ 5
  · exact linear_small o k hk h ψ
  · exact linear_big o hp k (by omega) ψ

end main

end Qclib
