import QclibModel.Proofs.TreeBdsp
import QclibModel.Proofs.TreePhase
/-
  C11: `BdspInitialize` with split `s = n`: the circuit (the top-down cascade on wires `n-1 … 0`)
  maps `|0…0⟩` to the vector itself up to the global phase `e^{-i·rootArg}`.
-/
namespace Qclib
open RotSem

theorem chainAmp_pathAmp : ∀ (n : Nat) (t : BT (QV ℝ)), complete n t → ∀ b,
    (chainAmp (List.range n).reverse t b : ℂ) = pathAmp n (angles t) (bitsVal n b)
  | 0, .nil, _, b => by simp [chainAmp, pathAmp]
  | 0, .node .., h, _ => by simp [complete] at h
  | n+1, .nil, h, _ => by simp [complete] at h
  | n+1, .node v l r, h, b => by
    have hlt := bitsVal_lt n b
    rw [List.range_succ, List.reverse_append, List.reverse_singleton, List.singleton_append]
    simp only [chainAmp, angles, BT.map, pathAmp, bitsVal, nodeAmpW]
    have ihl := chainAmp_pathAmp n l h.1 b
    have ihr := chainAmp_pathAmp n r h.2 b
    simp only [angles] at ihl ihr
    cases hb : b n
    · simp only [Bool.false_eq_true, if_false, Nat.add_zero, hlt, if_true, ihl]
      rfl
    · simp only [if_true]
      rw [if_neg (by omega), show bitsVal n b + 2^n - 2^n = bitsVal n b by omega, ihr]
      rfl

/-- **`s = n`: the state is the vector up to a global phase.**  For every `n ≥ 1`, every unit
vector `a` and every input state `ψ` whose `n` circuit wires are `|0⟩`: the amplitude after the
gate list of the model of `BdspInitialize(a, {'split': n})` at label `b` is
`e^{-i·rootArg} · a_k · ψ(b with the circuit wires cleared)`, `k` = number read on wires
`0 … n−1`; `rootArg` (the mean of the leaf phases as `state_decomposition` averages them) does not
depend on `k`. -/
theorem bdsp_s_eq_n_state (n : Nat) (hn : 1 ≤ n) (a : Nat → ℂ)
    (hunit : sumSq n (leavesOf a) = 1)
    (out : TreeOut ℝ) (hout : bdsp realTOps (2^n) (leavesOf a) (some n) = some out)
    (ψ : State ℂ) (hψ : ZeroOn (List.range n) ψ) (b : Bits) :
    sem out.gates ψ b
      = Complex.exp (-((((stateTree realTOps n (leavesOf a)).valD ⟨0, 0⟩).arg : ℝ) : ℂ) * Complex.I)
        * a (bitsVal n b) * ψ (clr (List.range n) b) := by
  obtain ⟨out', hout', hsp⟩ := bdsp_spec realTOps n n hn (Nat.le_refl n) (leavesOf a)
  rw [hout] at hout'
  cases hout'
  obtain ⟨m, rfl⟩ : ∃ m, n = m + 1 := ⟨n - 1, by omega⟩
  have hw := hsp.wires
  rw [Nat.sub_self, Nat.pow_zero, Nat.mul_one, show m + 1 + 1 - 1 = m + 1 by omega] at hw
  have hq : qubitOrder (m+1) (m+1) = (List.range (m+1)).reverse := by simp [qubitOrder]
  rw [hq] at hw
  have hmem : ∀ w, w ∈ wiresS 0 0 out.alloc.tree ↔ w ∈ List.range (m+1) := by
    intro w; rw [hw, List.mem_reverse]
  have hnd : (wiresS 0 0 out.alloc.tree).Nodup := by
    rw [hw]; exact nodup_reverse' List.nodup_range
  have hψ' : ZeroOn (wiresS 0 0 out.alloc.tree) ψ :=
    ZeroOn_congr _ _ (fun w => (hmem w).symm) ψ hψ
  have hg := hsp.gates_eq
  rw [Nat.sub_self] at hg
  rw [hg, bdsp_closedS realTOps realTOps_neZero realTOps_chainSem 0 (m+1) out.alloc.tree
    hsp.shape hnd ψ hψ' b, clr_congr _ _ hmem]
  congr 1
  obtain ⟨v, l, r, htree, -, -⟩ := (complete_succ_iff m out.alloc.tree).1 hsp.shape
  have hamp : (treeAmpS realTOps 0 0 out.alloc.tree b : ℂ)
      = chainAmp (leftSpine out.alloc.tree) out.alloc.tree b := by
    rw [htree]; simp [treeAmpS]
  rw [hamp, hsp.spineW, chainAmp_pathAmp (m+1) _ hsp.shape, hsp.angles_eq]
  exact tree_path_amp_unit m a hunit (bitsVal (m+1) b) (bitsVal_lt _ _)

#print axioms bdsp_s_eq_n_state

end Qclib
