import QclibModel.Proofs.SparsePivotTotalG
import QclibModel.Proofs.SparseReal
/-
  C06 — PivotInitialize, whole circuit (part H): the theorems for `opt_params = {'aux': False}`.

  * `pivot_succeeds`: the constructor model returns a circuit for every dictionary of `m ≥ 2`
    distinct `n`-character keys (free index found by pigeonhole, loop stops within `m` passes,
    `dense_state` indexable).
  * `pivot_total`: the returned circuit prepares the dictionary exactly, zero elsewhere.
-/
namespace Qclib.Sparse
open Qclib

section
variable {Θ R : Type} [CommRing R] [RotSem Θ R]

/-- the gates of one step without auxiliaries satisfy what the loop needs (`off = 0`) -/
theorem stepSem_noaux (iu : R) (dn : List Nat → List (Amp Θ) → State R → State R) (n t : Nat) :
    StepSem iu dn (fun q => n + 0 - 1 - q) n t false (fun b => ∀ w, w < 0 → b w = false) := by
  intro nz zero st hnzlen hzlen hzlow hnlow
  have hsp := pvDiffer_spec n t nz zero hzlow hnlow
  have hr : ∀ i j, i < n → j < n → n + 0 - 1 - i = n + 0 - 1 - j → i = j := by
    intro i j hi hj e; omega
  have hdt : pvDiffer n t nz zero ∉ pvTcx n t nz zero := by
    intro h; exact ((mem_pvTcx n t nz zero hsp.1 _).mp h).2.1 rfl
  have htn : ∀ k ∈ pvTcx n t nz zero, k < n := fun k hk => ((mem_pvTcx n t nz zero hsp.1 k).mp hk).1
  refine ⟨stepB (fun q => n + 0 - 1 - q) n (n - t) (pvDiffer n t nz zero)
    (bitAt nz (pvDiffer n t nz zero)) (pvTcx n t nz zero) zero,
    step_permCirc_noaux iu dn _ n t nz zero st, ?_, ?_⟩
  · intro b _
    exact stepB_key _ n (n - t) _ _ _ zero hr (by omega) hsp.1 hdt (pvTcx_nodup n t nz zero) htn
      hzlen b
  · intro b w hw
    exact stepB_out _ n (n - t) _ _ _ zero (by omega) hsp.1 htn b w hw

end

theorem range_map_add_zero (t : Nat) : (List.range t).map (· + 0) = List.range t := by simp

/-- **PivotInitialize succeeds** (`aux = False`).  For every `n` and every dictionary of `m ≥ 2`
distinct `n`-character keys the model of `PivotInitialize(d).definition` returns a circuit:
`_get_index_zero` always finds a free index (it lies in the low block — pigeonhole), the
`while` loop stops within `m` passes (the number of keys outside the low block strictly
decreases), and `dense_state[int(key, 2)]` is never out of range.  The dense vector has
`2^t` entries, `t = ⌈log₂ m⌉ ≤ n`. -/
theorem pivot_succeeds {Θ : Type} [NumOps Θ] (n : Nat) (d : Dict Θ) (hnd : d.keys.Nodup)
    (hlen : ∀ k ∈ d.keys, k.length = n) (hm2 : 2 ≤ d.length) :
    ∃ out : PivotOut Θ, pivotInit n false d = some out ∧ out.t = ceilLog2 d.length ∧
      out.t ≤ n ∧ out.dense.length = 2 ^ out.t := by
  let _ : RotSem Θ Int := ⟨fun _ => 0, fun _ => 0, fun _ => 0, fun _ => 0, 0⟩
  obtain ⟨htn, st, g, e, v, hloop, hv, hvl, -⟩ :=
    pivot_assemble (R := Int) 0 (fun _ _ ψ => ψ) (fun _ => 0) rfl n 0 false d hnd hlen hm2
      (stepSem_noaux 0 _ n _)
  have h1 : ¬ d.length < 2 := by omega
  have h : pivotInit n false d = some ⟨ceilLog2 d.length, e, v,
      SG.dense ((List.range (ceilLog2 d.length)).map (· + 0)) v ::
        (g.map (SG.mapWires (fun q => n - 1 - q))).reverse⟩ := by
    unfold pivotInit
    simp only [h1, if_false, Bool.false_and, Bool.false_eq_true, hloop, hv]
  exact ⟨_, h, rfl, htn, hvl⟩

section
variable {Θ R : Type} [CommRing R] [RotSem Θ R] [NumOps Θ]

/-- **PivotInitialize prepares the dictionary** (`aux = False`), whole circuit.
For every `n`, every dictionary `d` of `m ≥ 2` distinct `n`-character keys, if the constructor model
returns `out`, and the dense hand-off of *this* call behaves as property C01 states (`DenseOn`: on a
state supported on "wires `0 … t−1` are `0`" it puts `out.dense[int of those wires]` times the input
amplitude of the cleared label), then for every `ψ₀` supported on the labels whose `n` circuit wires
are `0` (spectator wires arbitrary) and every label `b`:

`(dense ; pivot gates in inverse order, bit-reversed) ψ₀ b
   = amp(d[key read off b]) · ψ₀(b with the n circuit wires cleared)`

where the key read off `b` has character `i` on wire `n−1−i` (wire `q` = bit `q` of `int(key, 2)`)
and the amplitude is the zero entry (`amp zeroAmp = 0`) when that key is not in the dictionary.
The opaque multi-controlled X gates denote the ideal gate (their decompositions: C04/C05). -/
theorem pivot_total (iu : R) (dn : List Nat → List (Amp Θ) → State R → State R)
    (amp : Amp Θ → R) (hamp0 : amp zeroAmp = 0) (n : Nat) (d : Dict Θ)
    (hnd : d.keys.Nodup) (hlen : ∀ k ∈ d.keys, k.length = n) (hm2 : 2 ≤ d.length)
    (out : PivotOut Θ) (hout : pivotInit n false d = some out)
    (hdn : DenseOn amp dn (List.range out.t) out.dense)
    (ψ0 : State R) (hψ0 : ∀ b : Bits, (∃ w, w < n ∧ b w = true) → ψ0 b = 0) (b : Bits) :
    semSG iu dn out.gates ψ0 b
      = amp ((d.lookup (keyOf (fun i => n - 1 - i) n b)).getD zeroAmp)
        * ψ0 (clearWires (List.range n) b) := by
  obtain ⟨htn, st, g, e, v, hloop, hv, hvl, hsem⟩ :=
    pivot_assemble iu dn amp hamp0 n 0 false d hnd hlen hm2 (stepSem_noaux iu dn n _)
  have h1 : ¬ d.length < 2 := by omega
  unfold pivotInit at hout
  simp only [h1, if_false, Bool.false_and, Bool.false_eq_true, hloop, hv, Option.some.injEq] at hout
  subst hout
  simp only [range_map_add_zero] at hsem ⊢
  exact hsem hdn ψ0 hψ0 b

end

/-! ### non-vacuity -/

/-- Non-vacuity of `pivot_succeeds` / `pivot_total`: the dictionary `{001: 0.6, 110: 0.8i, 111: 0}`
(three distinct 3-character keys, two of them outside the low block) over `ℝ → ℂ`, the ideal
dense initializer, and the state that is `1` on "all three wires `0`". -/
example : ∃ (d : Dict ℝ) (out : PivotOut ℝ)
    (dn : List Nat → List (Amp ℝ) → State ℂ → State ℂ) (ψ0 : State ℂ),
    d.keys.Nodup ∧ (∀ k ∈ d.keys, k.length = 3) ∧ 2 ≤ d.length ∧
    pivotInit 3 false d = some out ∧ DenseOn Amp.toC dn (List.range out.t) out.dense ∧
    Amp.toC zeroAmp = 0 ∧ (∀ b : Bits, (∃ w, w < 3 ∧ b w = true) → ψ0 b = 0) ∧
    ψ0 (fun _ => false) = 1 := by
  let d : Dict ℝ := [([false, false, true], ⟨0.6, 0, true⟩), ([true, true, false], ⟨0, 0.8, true⟩),
    ([true, true, true], ⟨0, 0, true⟩)]
  have hnd : d.keys.Nodup := by decide
  have hlen : ∀ k ∈ d.keys, k.length = 3 := by decide
  obtain ⟨out, hout, _⟩ := pivot_succeeds 3 d hnd hlen (by decide)
  refine ⟨d, out,
    fun ws v ψ b => Amp.toC (v.getD (wiresIdx ws b) zeroAmp) * ψ (clearWires ws b),
    fun b => if b 0 || b 1 || b 2 then 0 else 1, hnd, hlen, by decide, hout,
    fun _ _ _ => rfl, ?_, ?_, by simp⟩
  · show (⟨(0 : ℝ), (0 : ℝ)⟩ : ℂ) = 0
    rfl
  · rintro b ⟨w, hw, hb⟩
    have : w = 0 ∨ w = 1 ∨ w = 2 := by omega
    rcases this with rfl | rfl | rfl <;> simp [hb]

end Qclib.Sparse
