import QclibModel.Proofs.UnitaryFullFam
import QclibModel.Proofs.UnitaryFullQsd
/-
  C02 — WHOLE-RECURSION assembly of `build_unitary(gate, "csd", iso)`.

  `_unitary(gate_list, n, "csd")` for `2^(n-s)` blocks of `s` qubits: `s = 1` → one `UCGate` on all
  qubits (data-carrying leaf); otherwise `_csd`: one `cossin` per block, the left blocks
  `[v0_0, v1_0, v0_1, …]` recursively, `UCRYGate(2θ)` on `[s-1] + (0 … s-2, s … n-1)`, the right
  blocks recursively.  A list of blocks denotes the multiplexed matrix `applyMatFam s (B ∘ hiIdx)`:
  block number = the number on the wires `s … n-1`.
-/
namespace Qclib.Uni
open Qclib Matrix RotSem

/-! ### list lemmas -/

theorem getD_append_l {α : Type} (l l' : List α) (d : α) (i : Nat) (h : i < l.length) :
    (l ++ l').getD i d = l.getD i d := by
  simp only [List.getD_eq_getElem?_getD, List.getElem?_append_left h]

theorem getD_append_r {α : Type} (l l' : List α) (d : α) (i : Nat) (h : l.length ≤ i) :
    (l ++ l').getD i d = l'.getD (i - l.length) d := by
  simp only [List.getD_eq_getElem?_getD, List.getElem?_append_right h]

theorem popN_append {Θ : Type} (θ : List (List Θ)) (rest : Tape Θ) :
    popN θ.length (θ ++ rest) = (θ, rest) := by
  induction θ with
  | nil => rfl
  | cons x θ ih =>
    simp only [List.length_cons, List.cons_append, popN, pop, ih]

theorem flat_getD {Θ : Type} [Zero Θ] (L : List (List Θ)) (len : Nat)
    (hL : ∀ l ∈ L, l.length = len) (h i : Nat) (hi : i < len) :
    (L.flatMap id).getD (i + len * h) 0 = (L.getD h []).getD i 0 := by
  induction L generalizing h with
  | nil => simp
  | cons l L ih =>
    have hl : l.length = len := hL l (List.mem_cons_self)
    have hL' : ∀ l' ∈ L, l'.length = len := fun l' h' => hL l' (List.mem_cons_of_mem _ h')
    rw [List.flatMap_cons]
    cases h with
    | zero =>
      simp only [Nat.mul_zero, Nat.add_zero, id, List.getD_cons_zero]
      rw [getD_append_l _ _ _ _ (by omega)]
    | succ h =>
      have e : i + len * (h + 1) = l.length + (i + len * h) := by rw [hl, Nat.mul_succ]; omega
      simp only [id, List.getD_cons_succ]
      rw [e, getD_append_r _ _ _ _ (by omega), Nat.add_sub_cancel_left]
      exact ih hL' h

theorem ctrlIdxW_split (cw : Nat → Nat) (k1 k2 : Nat) (b : Bits) :
    ctrlIdxW cw (k1 + k2) b = ctrlIdxW cw k1 b + 2 ^ k1 * ctrlIdxW (fun j => cw (j + k1)) k2 b := by
  induction k2 with
  | zero => simp [ctrlIdxW]
  | succ k2 ih =>
    show ctrlIdxW cw (k1 + k2) b + (if b (cw (k1 + k2 + 1)) then 2 ^ (k1 + k2) else 0) = _
    rw [ih]
    show _ = ctrlIdxW cw k1 b + 2 ^ k1 *
      (ctrlIdxW (fun j => cw (j + k1)) k2 b + (if b (cw (k2 + 1 + k1)) then 2 ^ k2 else 0))
    have e : k1 + k2 + 1 = k2 + 1 + k1 := by omega
    rw [e, Nat.pow_add, Nat.mul_add]
    cases b (cw (k2 + 1 + k1)) <;> (simp; try omega)

/-! ### the `UCRYGate` of `_csd` on `[target] + control` -/

/-- the wire list of `_csd`'s `UCRYGate` for target `t` on `n = t + 1 + d` qubits. -/
def csdWires (t d : Nat) : List Nat :=
  t :: (List.range t ++ (List.range d).map (fun q => q + t + 1))

theorem csdWires_length (t d : Nat) : (csdWires t d).length - 1 = t + d := by
  simp [csdWires]

theorem csdWires_low (t d j : Nat) (h1 : 1 ≤ j) (hj : j ≤ t) : (csdWires t d).getD j 0 = lowW j := by
  obtain ⟨i, rfl⟩ : ∃ i, j = i + 1 := ⟨j - 1, by omega⟩
  show (List.range t ++ (List.range d).map (fun q => q + t + 1)).getD i 0 = i
  rw [getD_append_l _ _ _ _ (by simp; omega), List.getD_eq_getElem?_getD,
    List.getElem?_range (by omega)]
  rfl

theorem csdWires_high (t d j : Nat) (h1 : 1 ≤ j) (hj : j ≤ d) :
    (csdWires t d).getD (j + t) 0 = j - 1 + (t + 1) := by
  obtain ⟨i, rfl⟩ : ∃ i, j = i + 1 := ⟨j - 1, by omega⟩
  have e : i + 1 + t = (t + i) + 1 := by omega
  rw [e]
  show (List.range t ++ (List.range d).map (fun q => q + t + 1)).getD (t + i) 0 = _
  have hlen : (List.range t).length = t := List.length_range
  rw [show t + i = (List.range t).length + i by rw [hlen],
    getD_append_r _ _ _ _ (by omega), Nat.add_sub_cancel_left,
    List.getD_eq_getElem?_getD, List.getElem?_map, List.getElem?_range (by omega)]
  simp only [Option.map_some, Option.getD_some]
  omega

/-- the number the `UCRYGate` on `csdWires t d` reads on its controls: the `t` low wires, then the
`d` wires above the target, little-endian. -/
theorem csdWires_idx (t d : Nat) (b : Bits) :
    ctrlIdxW (fun j => (csdWires t d).getD j 0) (t + d) b
      = natOf t (enc t b) + 2 ^ t * hiIdx (t + 1) d b := by
  rw [ctrlIdxW_split, ← ctrlIdxW_low]
  congr 1
  · exact ctrlIdxW_congr b t (fun j h1 hj => csdWires_low t d j h1 hj)
  · congr 1
    exact ctrlIdxW_congr b d (fun j h1 hj => csdWires_high t d j h1 hj)

section ucry
variable {Θ R : Type} [AddCommGroup Θ] [CommRing R] [RotSem Θ R]

theorem getD_map_dbl (half : Θ → Θ) (negl : Θ → Bool) (l : List Θ) (i : Nat) :
    (l.map (stdUOps half negl).dbl).getD i 0 = l.getD i 0 + l.getD i 0 := by
  simp only [List.getD_eq_getElem?_getD, List.getElem?_map]
  cases l[i]? with
  | none => simp
  | some x => rfl

/-- **the `UCRYGate(2θ)` of `_csd`** with target wire `t`, on `n = t+1+d` qubits, angle blocks
`θ_h` (`h < 2^d`, each of length `2^t`): it denotes the multiplexed `CS(θ_h)` on the wires `0 … t`,
`h` = the number on the wires `t+1 … n-1`. -/
theorem ucry_den (half : Θ → Θ) (negl : Θ → Bool) (t d : Nat) (θ : List (List Θ))
    (hθ : ∀ l ∈ θ, l.length = 2 ^ t) (ψ : State R) :
    ugDen (UG.ucry ((θ.flatMap id).map (stdUOps half negl).dbl) (csdWires t d)) ψ
      = applyMatFam (t + 1)
          (fun b => (CSmat t (fun j => (θ.getD (hiIdx (t + 1) d b) []).getD j 0)
            : Matrix (QI (t + 1)) (QI (t + 1)) R)) ψ := by
  have h0 : (csdWires t d).getD 0 0 = t := rfl
  show applyFam _ _ ψ = _
  rw [csdWires_length, h0]
  unfold CSmat
  rw [applyMatFam_diagBlocks]
  congr 1
  funext b
  have hlt : natOf t (enc t b) < 2 ^ t := by
    have : ∀ (n : Nat) (j : QI n), natOf n j < 2 ^ n := by
      intro n
      induction n with
      | zero => intro _; simp [natOf]
      | succ n ih =>
        intro j
        rcases j with j | j
        · show natOf n j < 2 ^ (n + 1)
          have := ih j; rw [Nat.pow_succ]; omega
        · show natOf n j + 2 ^ n < 2 ^ (n + 1)
          have := ih j; rw [Nat.pow_succ]; omega
    exact this t _
  rw [csdWires_idx, getD_map_dbl, flat_getD θ (2 ^ t) hθ _ _ hlt]
  rfl

end ucry

/-! ### the recursion, unfolded -/

theorem csdList_one {Θ} (o : UOps Θ) (n : Nat) (tape : Tape Θ) :
    csdList o n 1 tape = ([UG.ucg (2 ^ (n - 1)) (List.range n)], tape) := rfl

theorem csdList_step {Θ} (o : UOps Θ) (n s : Nat) (tape : Tape Θ) :
    csdList o n (s + 2) tape =
      (let p := popN (2 ^ (n - (s + 2))) tape
       let l := csdList o n (s + 1) p.2
       let r := csdList o n (s + 1) l.2
       (l.1 ++ [UG.ucry ((p.1.flatMap id).map o.dbl) (csdWires (s + 1) (n - (s + 1) - 1))] ++ r.1,
        r.2)) := by
  rw [csdList]
  rfl

theorem buildCsd_node {Θ} (o : UOps Θ) (n iso : Nat) (tape : Tape Θ) :
    buildCsd o (n + 3) iso tape =
      (let l := if iso ≠ 0 then buildCsd o (n + 2) (iso - 1) (pop tape).2
                else csdList o (n + 3) (n + 2) (pop tape).2
       let r := csdList o (n + 3) (n + 2) l.2
       (l.1 ++ middle o (n + 3) (pop tape).1 ++ r.1, r.2)) := by
  rw [buildCsd]

theorem buildCsd_leaf {Θ} (o : UOps Θ) (n iso : Nat) (hn : n ≤ 2) (tape : Tape Θ) :
    buildCsd o n iso tape = ([UG.unitary (List.range n)], tape) := by
  match n, hn with
  | 0, _ => rfl
  | 1, _ => rfl
  | 2, _ => rfl

/-! ### the kernel specifications along the recursion -/

/-- the list `[a0 0, a1 0, a0 1, a1 1, …]` (`left = left + list(left_gates)` of `_multiplexed_csd`). -/
def altern {α : Type} (a0 a1 : Nat → α) : Nat → α :=
  fun k => if k % 2 = 1 then a1 (k / 2) else a0 (k / 2)

theorem altern_hi {α : Type} (a0 a1 : Nat → α) (t d : Nat) (b : Bits) :
    altern a0 a1 (hiIdx t (d + 1) b)
      = if b t then a1 (hiIdx (t + 1) d b) else a0 (hiIdx (t + 1) d b) := by
  rw [hiIdx_succ_low]
  unfold altern
  cases b t
  · have h1 : (0 + 2 * hiIdx (t + 1) d b) % 2 ≠ 1 := by omega
    have h2 : (0 + 2 * hiIdx (t + 1) d b) / 2 = hiIdx (t + 1) d b := by omega
    simp only [Bool.false_eq_true, if_false, if_neg h1, h2]
  · have h1 : (1 + 2 * hiIdx (t + 1) d b) % 2 = 1 := by omega
    have h2 : (1 + 2 * hiIdx (t + 1) d b) / 2 = hiIdx (t + 1) d b := by omega
    simp only [if_true, if_pos h1, h2]

section synth
variable {Θ R : Type} [AddCommGroup Θ] [CommRing R] [RotSem Θ R]

/-- what is being synthesised: one matrix on `n` qubits in isometry mode `iso`, or a list of
`2^(n-s)` blocks of `s` qubits (the multiplexed matrix on `n` qubits). -/
inductive CGoal (R : Type) where
  | one (n iso : Nat) (X : Matrix (QI n) (QI n) R)
  | list (n s : Nat) (B : Nat → Matrix (QI s) (QI s) R)

/-- **The record of a run of `build_unitary(X, "csd", iso)` whose kernel outputs all meet their
specifications.**
* `leaf`: `size ≤ 4`: `UnitaryGate(X)` denotes `X`.
* `ucg`: blocks of one qubit: `UCGate(gate_list)` on `[0] + (1 … n-1)` denotes the multiplexed 2×2
  blocks, block number = the number on the wires `1 … n-1` (qiskit's specification).
* `step` (`_csd` / `_multiplexed_csd` on `2^(n-s-2)` blocks of `s+2` qubits): the tape holds one
  `theta` (of length `2^(s+1)`) per block, `B_h = diag(u0_h,u1_h)·CS(θ_h)·diag(v0_h,v1_h)`; the
  recursion continues on the interleaved lists `[v0_0, v1_0, v0_1, …]` and `[u0_0, u1_0, …]`.
* `node` / `nodeIso`: the top level of `build_unitary` as in QSD: CZ multiplexer without its last
  CZ, `u1` with the right half of its columns negated; in isometry mode only `v0` on the left. -/
inductive CsdSynth : CGoal R → Tape Θ → List (Leaf R) → Prop
  | leaf (n iso : Nat) (X : Matrix (QI n) (QI n) R) (hn : n ≤ 2) :
      CsdSynth (.one n iso X) [] [applyMat n X]
  | ucg (n : Nat) (B : Nat → Matrix (QI 1) (QI 1) R) :
      CsdSynth (.list n 1 B) [] [applyMatFam 1 (fun b => B (hiIdx 1 (n - 1) b))]
  | step (n s : Nat) (hs : s + 2 ≤ n) (B : Nat → Matrix (QI (s + 2)) (QI (s + 2)) R)
      (u0 u1 v0 v1 : Nat → Matrix (QI (s + 1)) (QI (s + 1)) R) (θ : List (List Θ))
      (tL tR : Tape Θ) (lL lR : List (Leaf R))
      (hlen : θ.length = 2 ^ (n - (s + 2))) (hθ : ∀ l ∈ θ, l.length = 2 ^ (s + 1))
      (hB : ∀ h, h < 2 ^ (n - (s + 2)) →
        B h = bd (u0 h) (u1 h) * CSmat (s + 1) (fun j => (θ.getD h []).getD j 0) * bd (v0 h) (v1 h))
      (hL : CsdSynth (.list n (s + 1) (altern v0 v1)) tL lL)
      (hR : CsdSynth (.list n (s + 1) (altern u0 u1)) tR lR) :
      CsdSynth (.list n (s + 2) B) (θ ++ (tL ++ tR)) (lL ++ lR)
  | node (m : Nat) (X : Matrix (QI (m + 3)) (QI (m + 3)) R)
      (u0 u1 v0 v1 : Matrix (QI (m + 2)) (QI (m + 2)) R) (θ : List Θ)
      (tL tR : Tape Θ) (lL lR : List (Leaf R))
      (hX : X = bd u0 u1 * CSmat (m + 2) (fun j => θ.getD j 0) * bd v0 v1)
      (hL : CsdSynth (.list (m + 3) (m + 2) (altern (fun _ => v0) (fun _ => v1))) tL lL)
      (hR : CsdSynth (.list (m + 3) (m + 2) (altern (fun _ => u0) (fun _ => u1 * Zlow (m + 1))))
        tR lR) :
      CsdSynth (.one (m + 3) 0 X) (θ :: (tL ++ tR)) (lL ++ lR)
  | nodeIso (m t : Nat) (X : Matrix (QI (m + 3)) (QI (m + 3)) R)
      (u0 u1 v0 v1 : Matrix (QI (m + 2)) (QI (m + 2)) R) (θ : List Θ)
      (tL tR : Tape Θ) (lL lR : List (Leaf R))
      (hX : X = bd u0 u1 * CSmat (m + 2) (fun j => θ.getD j 0) * bd v0 v1)
      (hL : CsdSynth (.one (m + 2) t v0) tL lL)
      (hR : CsdSynth (.list (m + 3) (m + 2) (altern (fun _ => u0) (fun _ => u1 * Zlow (m + 1))))
        tR lR) :
      CsdSynth (.one (m + 3) (t + 1) X) (θ :: (tL ++ tR)) (lL ++ lR)

/-- what the induction proves for each kind of goal. -/
def CConcl (o : UOps Θ) : CGoal R → Tape Θ → List (Leaf R) → Prop
  | .one n iso X, tape, leaves => ∀ rest : Tape Θ, ∃ gs,
      buildCsd o n iso (tape ++ rest) = (gs, rest) ∧
      ∃ C : Matrix (QI n) (QI n) R,
        (∀ (Ls : List (Leaf R)) (ψ : State R), runUG gs (leaves ++ Ls) ψ = (applyMat n C ψ, Ls)) ∧
        LeadEq n iso C X
  | .list n s B, tape, leaves => ∀ rest : Tape Θ, ∃ gs,
      csdList o n s (tape ++ rest) = (gs, rest) ∧
      ∀ (Ls : List (Leaf R)) (ψ : State R), runUG gs (leaves ++ Ls) ψ
        = (applyMatFam s (fun b => B (hiIdx s (n - s) b)) ψ, Ls)

end synth

/-! ### the steps -/

section steps
variable {Θ R : Type} [AddCommGroup Θ] [CommRing R] [RotSem Θ R]

/-- an interleaved list one level down is the block-diagonal family one level up. -/
theorem altern_fam (s d : Nat) (a0 a1 : Nat → Matrix (QI (s + 1)) (QI (s + 1)) R) (ψ : State R) :
    applyMatFam (s + 1) (fun b => altern a0 a1 (hiIdx (s + 1) (d + 1) b)) ψ
      = applyMatFam (s + 2) (fun b => bd (a0 (hiIdx (s + 2) d b)) (a1 (hiIdx (s + 2) d b))) ψ := by
  rw [applyMatFam_congr (s + 1) _ _ (fun b => altern_hi a0 a1 (s + 1) d b)]
  exact (applyMatFam_blockDiag (s + 1) (fun b => a0 (hiIdx (s + 2) d b))
    (fun b => a1 (hiIdx (s + 2) d b)) ψ).symm

/-- semantics of the gate list of one `_csd` call from the semantics of its two sub-lists. -/
theorem step_run (half : Θ → Θ) (negl : Θ → Bool) (s d : Nat)
    (B : Nat → Matrix (QI (s + 2)) (QI (s + 2)) R)
    (u0 u1 v0 v1 : Nat → Matrix (QI (s + 1)) (QI (s + 1)) R) (θ : List (List Θ))
    (hθ : ∀ l ∈ θ, l.length = 2 ^ (s + 1))
    (hB : ∀ h, h < 2 ^ d →
      B h = bd (u0 h) (u1 h) * CSmat (s + 1) (fun j => (θ.getD h []).getD j 0) * bd (v0 h) (v1 h))
    (gsL gsR : List (UG Θ)) (lL lR : List (Leaf R))
    (hL : ∀ (Ls : List (Leaf R)) (ψ : State R), runUG gsL (lL ++ Ls) ψ
      = (applyMatFam (s + 1) (fun b => altern v0 v1 (hiIdx (s + 1) (d + 1) b)) ψ, Ls))
    (hR : ∀ (Ls : List (Leaf R)) (ψ : State R), runUG gsR (lR ++ Ls) ψ
      = (applyMatFam (s + 1) (fun b => altern u0 u1 (hiIdx (s + 1) (d + 1) b)) ψ, Ls))
    (Ls : List (Leaf R)) (ψ : State R) :
    runUG (gsL ++ [UG.ucry ((θ.flatMap id).map (stdUOps half negl).dbl) (csdWires (s + 1) d)] ++ gsR)
        ((lL ++ lR) ++ Ls) ψ
      = (applyMatFam (s + 2) (fun b => B (hiIdx (s + 2) d b)) ψ, Ls) := by
  rw [runUG_append, runUG_append, List.append_assoc, hL]
  have h1 : ∀ (Ls' : List (Leaf R)) (φ : State R),
      runUG [UG.ucry ((θ.flatMap id).map (stdUOps half negl).dbl) (csdWires (s + 1) d)] Ls' φ
        = (ugDen (UG.ucry ((θ.flatMap id).map (stdUOps half negl).dbl) (csdWires (s + 1) d)) φ,
            Ls') := by
    intro Ls' φ; cases Ls' <;> rfl
  simp only [h1, hR]
  rw [ucry_den half negl (s + 1) d θ hθ, altern_fam, altern_fam]
  have hfreeV : LowFree (s + 2)
      (fun b => bd (v0 (hiIdx (s + 2) d b)) (v1 (hiIdx (s + 2) d b))) := by
    intro j b
    show bd (v0 (hiIdx (s + 2) d (over (s + 2) j b))) (v1 (hiIdx (s + 2) d (over (s + 2) j b))) = _
    rw [hiIdx_over (s + 2) (s + 2) d (Nat.le_refl _)]
  have hfreeC : LowFree (s + 2)
      (fun b => (CSmat (s + 1) (fun j => (θ.getD (hiIdx (s + 2) d b) []).getD j 0)
        : Matrix (QI (s + 2)) (QI (s + 2)) R)) := by
    intro j b
    show CSmat (s + 1) (fun j' => (θ.getD (hiIdx (s + 2) d (over (s + 2) j b)) []).getD j' 0) = _
    rw [hiIdx_over (s + 2) (s + 2) d (Nat.le_refl _)]
  rw [← applyMatFam_mul (s + 2) _ _ hfreeV, ← applyMatFam_mul (s + 2) _ _
    (by
      intro j b
      have e := hiIdx_over (s + 2) (s + 2) d (Nat.le_refl _) j b
      show (CSmat (s + 1) (fun j' => (θ.getD (hiIdx (s + 2) d (over (s + 2) j b)) []).getD j' 0)
          : Matrix (QI (s + 2)) (QI (s + 2)) R)
        * bd (v0 (hiIdx (s + 2) d (over (s + 2) j b))) (v1 (hiIdx (s + 2) d (over (s + 2) j b))) = _
      rw [e])]
  refine congrArg (fun x => (x, Ls)) (applyMatFam_congr (s + 2) _ _ (fun b => ?_) ψ)
  rw [hB _ (hiIdx_lt (s + 2) d b), Matrix.mul_assoc]

end steps

/-! ### the induction over the recursion -/

section main
variable {Θ R : Type} [AddCommGroup Θ] [CommRing R] [RotSem Θ R] [RotLaws Θ R]

omit [RotLaws Θ R] in
/-- a two-element list `[a0, a1]` of `(m+2)`-qubit blocks on `m+3` qubits is `diag(a0, a1)`. -/
theorem pair_list_fam (m : Nat) (a0 a1 : Matrix (QI (m + 2)) (QI (m + 2)) R) (ψ : State R) :
    applyMatFam (m + 2)
        (fun b => altern (fun _ => a0) (fun _ => a1) (hiIdx (m + 2) (m + 3 - (m + 2)) b)) ψ
      = applyMat (m + 3) (bd a0 a1) ψ := by
  have e : m + 3 - (m + 2) = 0 + 1 := by omega
  rw [e, altern_fam (m + 1) 0 (fun _ => a0) (fun _ => a1) ψ]
  rfl

/-- **Whole-recursion assembly, CSD.** -/
theorem csd_main (half : Θ → Θ) (negl : Θ → Bool)
    (hhalf : ∀ a, half a + half a = a) (hadd : ∀ a b, half (a + b) = half a + half b)
    (hnegl : ∀ a, negl a = true → a = 0)
    {g : CGoal R} {tape : Tape Θ} {leaves : List (Leaf R)} (h : CsdSynth g tape leaves) :
    CConcl (stdUOps half negl) g tape leaves := by
  induction h with
  | leaf n iso X hn =>
    simp only [CConcl]
    intro rest
    exact ⟨_, buildCsd_leaf _ n iso hn _, X, fun Ls ψ => rfl, fun i j _ => rfl⟩
  | ucg n B =>
    simp only [CConcl]
    intro rest
    exact ⟨_, csdList_one _ n _, fun Ls ψ => rfl⟩
  | step n s hs B u0 u1 v0 v1 θ tL tR lL lR hlen hθ hB _ _ ihL ihR =>
    obtain ⟨d, rfl⟩ : ∃ d, n = s + 2 + d := ⟨n - (s + 2), by omega⟩
    have e1 : s + 2 + d - (s + 2) = d := by omega
    have e2 : s + 2 + d - (s + 1) = d + 1 := by omega
    have e3 : s + 2 + d - (s + 1) - 1 = d := by omega
    simp only [CConcl, e1, e2] at ihL ihR hlen hB ⊢
    intro rest
    obtain ⟨gsL, hbL, hrL⟩ := ihL (tR ++ rest)
    obtain ⟨gsR, hbR, hrR⟩ := ihR rest
    refine ⟨gsL ++ [UG.ucry ((θ.flatMap id).map (stdUOps half negl).dbl) (csdWires (s + 1) d)]
      ++ gsR, ?_, step_run half negl s d B u0 u1 v0 v1 θ hθ hB gsL gsR lL lR hrL hrR⟩
    rw [csdList_step, e1, e3, ← hlen]
    simp only [List.append_assoc, popN_append, hbL, hbR]
  | node m X u0 u1 v0 v1 θ tL tR lL lR hX _ _ ihL ihR =>
    simp only [CConcl] at ihL ihR ⊢
    intro rest
    obtain ⟨gsL, hbL, hrL⟩ := ihL (tR ++ rest)
    obtain ⟨gsR, hbR, hrR⟩ := ihR rest
    simp only [pair_list_fam] at hrL hrR
    refine ⟨gsL ++ middle (stdUOps half negl) (m + 3) θ ++ gsR, ?_, X, ?_, fun i j _ => rfl⟩
    · rw [buildCsd_node]
      simp only [pop, List.cons_append, List.append_assoc, ne_eq, not_true_eq_false, if_false,
        hbL, hbR]
    · intro Ls ψ
      rw [node_run half negl hhalf hadd hnegl m _ _ θ gsL gsR lL lR hrL hrR Ls ψ, node_mat, hX]
  | nodeIso m t X u0 u1 v0 v1 θ tL tR lL lR hX _ _ ihL ihR =>
    simp only [CConcl] at ihL ihR ⊢
    intro rest
    obtain ⟨gsL, hbL, C0, hrL, hC0⟩ := ihL (tR ++ rest)
    obtain ⟨gsR, hbR, hrR⟩ := ihR rest
    simp only [pair_list_fam] at hrR
    refine ⟨gsL ++ middle (stdUOps half negl) (m + 3) θ ++ gsR, ?_,
      bd u0 u1 * CSmat (m + 2) (fun j => θ.getD j 0) * bd C0 C0, ?_, ?_⟩
    · rw [buildCsd_node]
      simp only [pop, List.cons_append, List.append_assoc, ne_eq, Nat.add_one_ne_zero,
        not_false_eq_true, if_true, Nat.add_sub_cancel, hbL, hbR]
    · intro Ls ψ
      have hrL' : ∀ (Ls : List (Leaf R)) (ψ : State R),
          runUG gsL (lL ++ Ls) ψ = (applyMat (m + 3) (bd C0 C0) ψ, Ls) := by
        intro Ls ψ; rw [hrL, applyMat_same]
      rw [node_run half negl hhalf hadd hnegl m _ _ θ gsL gsR lL lR hrL' hrR Ls ψ, node_mat]
    · intro i jj hjj
      obtain ⟨j, rfl, hj⟩ := TopZero_succ (m + 2) t jj hjj
      rw [hX]
      exact iso_step (bd u0 u1 * CSmat (m + 2) (fun j => θ.getD j 0)) v0 C0 v1 C0
        {j | TopZero (m + 2) t j} (fun i' j' hj' => hC0 i' j' hj') i j hj

/-- **`build_unitary(X, "csd", iso)` as a whole** (all `n`, all `iso`). -/
theorem csd_full (half : Θ → Θ) (negl : Θ → Bool)
    (hhalf : ∀ a, half a + half a = a) (hadd : ∀ a b, half (a + b) = half a + half b)
    (hnegl : ∀ a, negl a = true → a = 0)
    {n iso : Nat} {X : Matrix (QI n) (QI n) R} {tape : Tape Θ} {leaves : List (Leaf R)}
    (h : CsdSynth (.one n iso X) tape leaves) :
    (buildUnitary (stdUOps half negl) Dec.csd n iso tape).2 = [] ∧
    ∃ C : Matrix (QI n) (QI n) R,
      (∀ ψ : State R, runUG (buildUnitary (stdUOps half negl) Dec.csd n iso tape).1 leaves ψ
        = (applyMat n C ψ, [])) ∧ LeadEq n iso C X := by
  have hc := csd_main half negl hhalf hadd hnegl h
  simp only [CConcl] at hc
  obtain ⟨gs, hb, C, hr, hC⟩ := hc []
  rw [List.append_nil] at hb
  refine ⟨by simp only [buildUnitary, hb], C, fun ψ => ?_, hC⟩
  have := hr [] ψ
  rw [List.append_nil] at this
  simp only [buildUnitary, hb, this]

end main

end Qclib.Uni
