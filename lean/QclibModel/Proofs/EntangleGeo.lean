import Mathlib.Analysis.Real.Sqrt
import QclibModel.Proofs.EntangleAlg
/-
  C20 — post-processing of the geometric measure: product of unit factors is a unit vector,
  normalisation, fidelity, Cauchy–Schwarz on lists, `pickMin`.
-/
namespace Qclib.Ent
open Finset Complex

/-- The geometric-measure post-processing instantiated at `ℂ`/`ℝ`. -/
noncomputable def geoCode (results : List (Tucker1 ℂ)) : Option (ℝ × List ℂ × List (ℂ × ℂ)) :=
  geoPost Complex.normSq (1 : ℂ) (1 : ℝ) (fun a b => decide (a ≤ b)) Real.sqrt (fun r => (r : ℂ)) results

theorem sumL_map_normSq (v : List ℂ) : sumL (v.map normSq) = nrm2L v := by
  induction v with
  | nil => rfl
  | cons a v ih => simp only [List.map_cons, sumL, nrm2L, ih]

theorem nrm2L_append (u v : List ℂ) : nrm2L (u ++ v) = nrm2L u + nrm2L v := by
  induction u with
  | nil => simp [nrm2L]
  | cons a u ih => simp only [List.cons_append, nrm2L, ih]; ring

theorem nrm2L_map_mul (c : ℂ) (v : List ℂ) : nrm2L (v.map (c * ·)) = normSq c * nrm2L v := by
  induction v with
  | nil => simp [nrm2L]
  | cons a v ih => simp only [List.map_cons, nrm2L, ih, normSq_mul]; ring

theorem nrm2L_nonneg (v : List ℂ) : 0 ≤ nrm2L v := by
  induction v with
  | nil => simp [nrm2L]
  | cons a v ih => simp only [nrm2L]; have := normSq_nonneg a; linarith

theorem dotL_map_mul_left (c : ℂ) (u v : List ℂ) :
    dotL (u.map (c * ·)) v = (starRingEnd ℂ) c * dotL u v := by
  induction u generalizing v with
  | nil => simp [dotL]
  | cons a u ih =>
    cases v with
    | nil => simp [dotL]
    | cons b v => simp only [List.map_cons, dotL, ih, map_mul]; ring

theorem length_kronAll (fs : List (ℂ × ℂ)) : (kronAll (1 : ℂ) fs).length = 2 ^ fs.length := by
  induction fs with
  | nil => rfl
  | cons f fs ih => simp only [kronAll, List.length_append, List.length_map, ih, List.length_cons]; ring

/-- The Kronecker product of unit one-qubit vectors is a unit vector. -/
theorem nrm2L_kronAll (fs : List (ℂ × ℂ)) (h : ∀ f ∈ fs, normSq f.1 + normSq f.2 = 1) :
    nrm2L (kronAll (1 : ℂ) fs) = 1 := by
  induction fs with
  | nil => simp [kronAll, nrm2L]
  | cons f fs ih =>
    have hf := h f (List.mem_cons_self ..)
    have ih' := ih (fun g hg => h g (List.mem_cons_of_mem _ hg))
    simp only [kronAll, nrm2L_append, nrm2L_map_mul, ih']
    linarith

/-- Lists of equal length as indexed vectors. -/
theorem nrm2L_eq (u : List ℂ) : nrm2L u = nrm2 u.length (fun i => u.getD i 0) := by
  induction u with
  | nil => simp [nrm2L, nrm2]
  | cons a u ih =>
    unfold nrm2 at *
    rw [List.length_cons, sum_range_succ', nrm2L, ih]
    simp [add_comm]

theorem dotL_eq (u v : List ℂ) (h : u.length = v.length) :
    dotL u v = inner u.length (fun i => u.getD i 0) (fun i => v.getD i 0) := by
  induction u generalizing v with
  | nil => simp [dotL, inner]
  | cons a u ih =>
    cases v with
    | nil => simp at h
    | cons b v =>
      have h' : u.length = v.length := by simpa using h
      unfold inner at *
      rw [List.length_cons, sum_range_succ', dotL, ih v h']
      simp [add_comm]

/-- Cauchy–Schwarz for lists of equal length. -/
theorem cauchy_schwarzL (u v : List ℂ) (h : u.length = v.length) :
    normSq (dotL u v) ≤ nrm2L u * nrm2L v := by
  rw [dotL_eq u v h, nrm2L_eq u, nrm2L_eq v, ← h]
  exact cauchy_schwarz _ _ _

/-- `pickMin` returns a restart with the smallest loss. -/
theorem pickMin_spec (results : List (Tucker1 ℂ)) (l : ℝ) (t : Tucker1 ℂ)
    (h : pickMin Complex.normSq (1 : ℝ) (fun a b => decide (a ≤ b)) results = some (l, t)) :
    t ∈ results ∧ l = 1 - normSq t.core ∧ ∀ t' ∈ results, l ≤ 1 - normSq t'.core := by
  induction results generalizing l t with
  | nil => simp [pickMin] at h
  | cons t0 ts ih =>
    simp only [pickMin] at h
    cases hp : pickMin Complex.normSq (1 : ℝ) (fun a b => decide (a ≤ b)) ts with
    | none =>
      rw [hp] at h
      simp only [Option.some.injEq, Prod.mk.injEq] at h
      obtain ⟨rfl, rfl⟩ := h
      cases ts with
      | nil =>
        refine ⟨List.mem_cons_self .., rfl, ?_⟩
        intro t' ht'; simp at ht'; subst ht'; exact le_refl _
      | cons t1 ts' =>
        exfalso
        simp only [pickMin] at hp
        cases hq : pickMin Complex.normSq (1 : ℝ) (fun a b => decide (a ≤ b)) ts' with
        | none => rw [hq] at hp; simp at hp
        | some p => rw [hq] at hp; obtain ⟨l', t'⟩ := p; simp only at hp; split at hp <;> simp at hp
    | some p =>
      obtain ⟨l', t'⟩ := p
      rw [hp] at h
      obtain ⟨hmem, hl', hmin⟩ := ih l' t' hp
      simp only [fidelityLoss] at h
      by_cases hle : l' ≤ 1 - normSq t0.core
      · simp only [hle, decide_true, if_true, Option.some.injEq, Prod.mk.injEq] at h
        obtain ⟨rfl, rfl⟩ := h
        refine ⟨List.mem_cons_of_mem _ hmem, hl', ?_⟩
        intro t'' ht''
        rcases List.mem_cons.mp ht'' with rfl | hin
        · exact hle
        · exact hmin _ hin
      · simp only [hle, decide_false, Bool.false_eq_true, if_false, Option.some.injEq,
          Prod.mk.injEq] at h
        obtain ⟨rfl, rfl⟩ := h
        refine ⟨List.mem_cons_self .., rfl, ?_⟩
        intro t'' ht''
        rcases List.mem_cons.mp ht'' with rfl | hin
        · exact le_refl _
        · have := hmin _ hin; linarith [not_le.mp hle]

/-- Everything the property says about what `geometric_entanglement` returns, given the
specification of the Tucker kernel (unit factors, `core = ⟨⊗f_k, ψ⟩`). -/
theorem geo_post (results : List (Tucker1 ℂ)) (ψ : List ℂ) (hψ : nrm2L ψ = 1)
    (hK4 : ∀ t ∈ results, (∀ f ∈ t.factors, normSq f.1 + normSq f.2 = 1)
      ∧ ψ.length = 2 ^ t.factors.length ∧ t.core = dotL (kronAll (1 : ℂ) t.factors) ψ)
    (l : ℝ) (ps : List ℂ) (fs : List (ℂ × ℂ)) (h : geoCode results = some (l, ps, fs)) :
    ∃ t ∈ results, fs = t.factors ∧ l = 1 - normSq t.core
      ∧ (∀ t' ∈ results, l ≤ 1 - normSq t'.core)
      ∧ 0 ≤ l ∧ l ≤ 1
      ∧ (t.core ≠ 0 →
          ps = (kronAll (1 : ℂ) fs).map ((t.core / (Real.sqrt (normSq t.core) : ℂ)) * ·)
          ∧ normSq (t.core / (Real.sqrt (normSq t.core) : ℂ)) = 1
          ∧ nrm2L ps = 1 ∧ normSq (dotL ps ψ) = 1 - l) := by
  unfold geoCode geoPost at h
  cases hp : pickMin Complex.normSq (1 : ℝ) (fun a b => decide (a ≤ b)) results with
  | none => rw [hp] at h; simp at h
  | some p =>
    obtain ⟨l0, t⟩ := p
    rw [hp] at h
    simp only [Option.some.injEq, Prod.mk.injEq] at h
    obtain ⟨rfl, hps, rfl⟩ := h
    obtain ⟨hmem, hl, hmin⟩ := pickMin_spec results l0 t hp
    obtain ⟨hunit, hlen, hcore⟩ := hK4 t hmem
    have hK : nrm2L (kronAll (1 : ℂ) t.factors) = 1 := nrm2L_kronAll _ hunit
    have hcs : normSq t.core ≤ 1 := by
      rw [hcore]
      have := cauchy_schwarzL (kronAll (1 : ℂ) t.factors) ψ (by rw [length_kronAll, hlen])
      rw [hK, hψ] at this; linarith
    refine ⟨t, hmem, rfl, hl, hmin, by rw [hl]; linarith, by rw [hl]; linarith [normSq_nonneg t.core], ?_⟩
    intro hc
    have hpos : 0 < normSq t.core := normSq_pos.mpr hc
    have hs : Real.sqrt (normSq t.core) ≠ 0 := (Real.sqrt_pos.mpr hpos).ne'
    have hsC : ((Real.sqrt (normSq t.core) : ℝ) : ℂ) ≠ 0 := by exact_mod_cast hs
    have hphase : normSq (t.core / (Real.sqrt (normSq t.core) : ℂ)) = 1 := by
      rw [normSq_div, normSq_ofReal, Real.mul_self_sqrt hpos.le]; exact div_self hpos.ne'
    have hpsEq : ps = (kronAll (1 : ℂ) t.factors).map ((t.core / (Real.sqrt (normSq t.core) : ℂ)) * ·) := by
      rw [← hps]
      unfold normalise tuckerToVec
      rw [sumL_map_normSq, nrm2L_map_mul, hK, mul_one, List.map_map]
      apply List.map_congr_left
      intro x _
      simp only [Function.comp]
      field_simp
    refine ⟨hpsEq, hphase, ?_, ?_⟩
    · rw [hpsEq, nrm2L_map_mul, hK, hphase, mul_one]
    · rw [hpsEq, dotL_map_mul_left, ← hcore, normSq_mul, normSq_conj, hphase, hl]; ring

end Qclib.Ent
