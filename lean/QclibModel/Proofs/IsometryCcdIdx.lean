import QclibModel.Model.Isometry
import Mathlib.Tactic.Ring
/-
  C03 — column-by-column decomposition, part 1: the index arithmetic of `_g_k`
  (`_a`, `_b`, `_k_s`, `idx1/idx2` of `_mc_unitary` and `_uc_unitaries`, `start`, the rows a gate of
  step `(k, i)` touches).  All statements for every `k`, `i`, `n`.
-/
namespace Qclib.Iso

/-! ### decomposition of a row into (bits above `i`, bit `i`, bits below `i`) -/

/-- Every number splits as `2·(2^i·(r / 2^(i+1))) + [bit i]·2^i + r % 2^i`. -/
theorem row_decomp (i r : Nat) :
    r = 2 * (2 ^ i * (r / 2 ^ (i + 1))) + (if r.testBit i then 2 ^ i else 0) + r % 2 ^ i := by
  have h1 := Nat.div_add_mod r (2 ^ (i + 1))
  have h2 : r % 2 ^ (i + 1) = r % 2 ^ i + 2 ^ i * (r / 2 ^ i % 2) := Nat.mod_pow_succ
  have h3 : r.testBit i = decide (r / 2 ^ i % 2 = 1) := Nat.testBit_eq_decide_div_mod_eq
  have h4 : 2 ^ (i + 1) * (r / 2 ^ (i + 1)) = 2 * (2 ^ i * (r / 2 ^ (i + 1))) := by
    rw [Nat.pow_succ]; ring
  rw [h4] at h1
  by_cases hb : r / 2 ^ i % 2 = 1
  · simp only [h3, hb, decide_true, if_true]
    rw [hb] at h2; omega
  · have hb0 : r / 2 ^ i % 2 = 0 := by omega
    simp only [h3, hb, decide_false]
    rw [hb0] at h2; simp at h2 ⊢; omega

theorem two_pow_pos' (i : Nat) : 0 < 2 ^ i := Nat.pos_of_ne_zero (by simp)

/-- Uniqueness of the decomposition. -/
theorem row_decomp_unique (i r j l : Nat) (e : Bool) (hl : l < 2 ^ i)
    (h : r = 2 * (2 ^ i * j) + (if e then 2 ^ i else 0) + l) :
    r / 2 ^ (i + 1) = j ∧ r.testBit i = e ∧ r % 2 ^ i = l := by
  have hp := two_pow_pos' i
  have hd := row_decomp i r
  have hlt : r % 2 ^ i < 2 ^ i := Nat.mod_lt _ hp
  generalize hJ : r / 2 ^ (i + 1) = J at hd ⊢
  generalize hL : r % 2 ^ i = L at hd hlt ⊢
  generalize hB : r.testBit i = B at hd ⊢
  generalize hP : 2 ^ i = p at *
  have hjJ : j = J := by
    rcases Nat.lt_trichotomy j J with hlt' | heq | hgt
    · have : p * (j + 1) ≤ p * J := Nat.mul_le_mul_left p hlt'
      rw [Nat.mul_add] at this
      cases e <;> cases B <;> simp at h hd <;> omega
    · exact heq
    · have : p * (J + 1) ≤ p * j := Nat.mul_le_mul_left p hgt
      rw [Nat.mul_add] at this
      cases e <;> cases B <;> simp at h hd <;> omega
  subst hjJ
  cases e <;> cases B <;> simp at h hd ⊢ <;> omega

/-- Comparison of products with a common positive factor, in the shape `omega` needs. -/
theorem mul_cmp (p j a : Nat) :
    (j < a → p * j + p ≤ p * a) ∧ (j = a → p * j = p * a) ∧ (a < j → p * a + p ≤ p * j) := by
  refine ⟨fun h => ?_, fun h => by rw [h], fun h => ?_⟩
  · have : p * (j + 1) ≤ p * a := Nat.mul_le_mul_left p h
    rw [Nat.mul_add] at this; omega
  · have : p * (a + 1) ≤ p * j := Nat.mul_le_mul_left p h
    rw [Nat.mul_add] at this; omega

/-! ### `_a`, `_b`, `_k_s` -/

/-- `_a(k, i) = k // 2^i` (definition). -/
theorem aFn_eq (k i : Nat) : aFn k i = k / 2 ^ i := rfl

/-- `_b(k, i) = k mod 2^i`: the `i` least significant bits. -/
theorem bFn_eq (k i : Nat) : bFn k i = k % 2 ^ i := by
  unfold bFn aFn
  have := Nat.div_add_mod k (2 ^ i)
  rw [Nat.mul_comm] at this
  omega

/-- `_k_s(k, i)` is bit `i` of `k`. -/
theorem kS_eq (k i : Nat) : kS k i = if k.testBit i then 1 else 0 := by
  unfold kS
  have h : k &&& 2 ^ i = if k.testBit i then 2 ^ i else 0 := by
    apply Nat.eq_of_testBit_eq
    intro b
    rw [Nat.testBit_and, Nat.testBit_two_pow]
    by_cases hb : i = b
    · subst hb; cases h : k.testBit i <;> simp
    · cases h : k.testBit i <;> simp [hb]
  rw [h]
  cases k.testBit i <;> simp [two_pow_pos' i]

theorem kS_eq_zero_iff (k i : Nat) : kS k i = 0 ↔ k.testBit i = false := by
  rw [kS_eq]; cases k.testBit i <;> simp

theorem kS_eq_one_iff (k i : Nat) : kS k i = 1 ↔ k.testBit i = true := by
  rw [kS_eq]; cases k.testBit i <;> simp

/-- The MCG is scheduled exactly when bit `i` of `k` is `0` and `k mod 2^(i+1) ≠ 0`. -/
theorem hasMcg_iff (k i : Nat) :
    hasMcg k i = true ↔ k.testBit i = false ∧ k % 2 ^ (i + 1) ≠ 0 := by
  unfold hasMcg
  rw [bFn_eq, Bool.and_eq_true, beq_iff_eq, kS_eq_zero_iff, bne_iff_ne]

/-- When the MCG is scheduled, bit `i` of `k` is `0` and some lower bit is set
(`k mod 2^i ≠ 0`). -/
theorem hasMcg_low (k i : Nat) (h : hasMcg k i = true) :
    k.testBit i = false ∧ k % 2 ^ i ≠ 0 := by
  rw [hasMcg_iff] at h
  refine ⟨h.1, ?_⟩
  have h2 : k % 2 ^ (i + 1) = k % 2 ^ i + 2 ^ i * (k / 2 ^ i % 2) := Nat.mod_pow_succ
  have h3 : k.testBit i = decide (k / 2 ^ i % 2 = 1) := Nat.testBit_eq_decide_div_mod_eq
  have : k / 2 ^ i % 2 = 0 := by
    have := h.1; rw [h3] at this; simp at this; omega
  rw [this] at h2; simp at h2; rw [← h2]; exact h.2

/-- `idx1, idx2` of `_mc_unitary` are the rows `k` and `k + 2^i`. -/
theorem mcIdx_eq (k i : Nat) : mcIdx k i = (k, k + 2 ^ i) := by
  unfold mcIdx
  rw [bFn_eq, aFn_eq]
  have h1 := Nat.div_add_mod k (2 ^ (i + 1))
  have h4 : 2 ^ (i + 1) * (k / 2 ^ (i + 1)) = 2 * (2 ^ i * (k / 2 ^ (i + 1))) := by
    rw [Nat.pow_succ]; ring
  have h5 : 2 * (k / 2 ^ (i + 1)) * 2 ^ i = 2 * (2 ^ i * (k / 2 ^ (i + 1))) := by ring
  have h6 : (2 * (k / 2 ^ (i + 1)) + 1) * 2 ^ i = 2 * (2 ^ i * (k / 2 ^ (i + 1))) + 2 ^ i := by ring
  rw [h5, h6]; rw [h4] at h1
  ext <;> simp only <;> omega

/-- `idx1, idx2` of `_uc_unitaries` for block `j`: the two rows of block `j` whose low `i` bits are
those of `k`. -/
theorem ucIdx_eq (k i j : Nat) :
    ucIdx k i j = (2 * (2 ^ i * j) + k % 2 ^ i, 2 * (2 ^ i * j) + 2 ^ i + k % 2 ^ i) := by
  unfold ucIdx
  rw [bFn_eq]
  have h5 : 2 * j * 2 ^ i = 2 * (2 ^ i * j) := by ring
  have h6 : (2 * j + 1) * 2 ^ i = 2 * (2 ^ i * j) + 2 ^ i := by ring
  rw [h5, h6]

/-- The same in the shape `j·2^(i+1) + …`. -/
theorem ucIdx_eq' (k i j : Nat) :
    ucIdx k i j = (j * 2 ^ (i + 1) + k % 2 ^ i, j * 2 ^ (i + 1) + 2 ^ i + k % 2 ^ i) := by
  rw [ucIdx_eq]
  have : j * 2 ^ (i + 1) = 2 * (2 ^ i * j) := by rw [Nat.pow_succ]; ring
  rw [this]

/-- `start` of `_uc_unitaries`: `k / 2^(i+1)` when `k` is a multiple of `2^(i+1)`, one more
otherwise. -/
theorem ucStart_eq (k i : Nat) :
    ucStart k i = if k % 2 ^ (i + 1) = 0 then k / 2 ^ (i + 1) else k / 2 ^ (i + 1) + 1 := by
  unfold ucStart
  simp only [bFn_eq, aFn_eq, beq_iff_eq]
  split <;> simp

/-- The first non-identity block of the UCG starts at or after row `k`. -/
theorem ucStart_mul_ge (k i : Nat) : k ≤ 2 * (2 ^ i * ucStart k i) := by
  rw [ucStart_eq]
  have h1 := Nat.div_add_mod k (2 ^ (i + 1))
  have h4 : 2 ^ (i + 1) * (k / 2 ^ (i + 1)) = 2 * (2 ^ i * (k / 2 ^ (i + 1))) := by
    rw [Nat.pow_succ]; ring
  have hlt : k % 2 ^ (i + 1) < 2 ^ (i + 1) := Nat.mod_lt _ (two_pow_pos' _)
  rw [h4] at h1
  split
  · omega
  · rw [Nat.mul_add, Nat.pow_succ] at *; omega

theorem ucStart_mul_ge' (k i : Nat) : k ≤ ucStart k i * 2 ^ (i + 1) := by
  have := ucStart_mul_ge k i
  have h : ucStart k i * 2 ^ (i + 1) = 2 * (2 ^ i * ucStart k i) := by rw [Nat.pow_succ]; ring
  rw [h]; exact this

/-- If `k` is a multiple of `2^(i+1)` the first non-identity block starts exactly at row `k`. -/
theorem ucStart_mul_eq (k i : Nat) (h : k % 2 ^ (i + 1) = 0) : ucStart k i * 2 ^ (i + 1) = k := by
  rw [ucStart_eq, if_pos h]
  have h1 := Nat.div_add_mod k (2 ^ (i + 1))
  rw [h, Nat.mul_comm] at h1; exact h1

/-! ### `row0`, `row1` -/

theorem row0_le (i r : Nat) : row0 i r ≤ r := by
  have := two_pow_pos' i
  unfold row0; split <;> omega
theorem row0_le_row1 (i r : Nat) : row0 i r ≤ row1 i r := by
  have := two_pow_pos' i
  unfold row0 row1; split <;> omega
theorem le_row1 (i r : Nat) : r ≤ row1 i r := by
  have := two_pow_pos' i
  unfold row1; split <;> omega

theorem row0_of_bit (i r : Nat) (h : r.testBit i = true) : row0 i r = r - 2 ^ i := by
  simp [row0, h]
theorem row0_of_not_bit (i r : Nat) (h : r.testBit i = false) : row0 i r = r := by
  simp [row0, h]
theorem row1_of_bit (i r : Nat) (h : r.testBit i = true) : row1 i r = r := by
  simp [row1, h]
theorem row1_of_not_bit (i r : Nat) (h : r.testBit i = false) : row1 i r = r + 2 ^ i := by
  simp [row1, h]

/-- `row0 i r = 2·(2^i·(r / 2^(i+1))) + r % 2^i`: bit `i` cleared. -/
theorem row0_eq (i r : Nat) : row0 i r = 2 * (2 ^ i * (r / 2 ^ (i + 1))) + r % 2 ^ i := by
  have hd := row_decomp i r
  unfold row0
  cases h : r.testBit i <;> simp [h] at hd ⊢ <;> omega

/-- `row1 i r = 2·(2^i·(r / 2^(i+1))) + 2^i + r % 2^i`: bit `i` set. -/
theorem row1_eq (i r : Nat) : row1 i r = 2 * (2 ^ i * (r / 2 ^ (i + 1))) + 2 ^ i + r % 2 ^ i := by
  have hd := row_decomp i r
  unfold row1
  cases h : r.testBit i <;> simp [h] at hd ⊢ <;> omega

theorem row0_parts (i r : Nat) :
    row0 i r / 2 ^ (i + 1) = r / 2 ^ (i + 1) ∧ (row0 i r).testBit i = false ∧
      row0 i r % 2 ^ i = r % 2 ^ i :=
  row_decomp_unique i (row0 i r) _ _ false (Nat.mod_lt _ (two_pow_pos' i))
    (by rw [row0_eq]; simp)

theorem row1_parts (i r : Nat) :
    row1 i r / 2 ^ (i + 1) = r / 2 ^ (i + 1) ∧ (row1 i r).testBit i = true ∧
      row1 i r % 2 ^ i = r % 2 ^ i :=
  row_decomp_unique i (row1 i r) _ _ true (Nat.mod_lt _ (two_pow_pos' i))
    (by rw [row1_eq]; simp)

/-- Both rows of a pair stay below `2^n` (for `i < n`). -/
theorem row1_lt (n i r : Nat) (hi : i < n) (hr : r < 2 ^ n) : row1 i r < 2 ^ n := by
  have hn : 2 ^ n = 2 * (2 ^ i * 2 ^ (n - 1 - i)) := by
    have : n = (n - 1 - i) + i + 1 := by omega
    conv_lhs => rw [this]
    rw [Nat.pow_succ, Nat.pow_add]; ring
  rw [row1_eq]
  have hd := row_decomp i r
  have hlt : r % 2 ^ i < 2 ^ i := Nat.mod_lt _ (two_pow_pos' i)
  have hc := mul_cmp (2 ^ i) (r / 2 ^ (i + 1)) (2 ^ (n - 1 - i))
  rw [hn] at hr ⊢
  generalize r / 2 ^ (i + 1) = J at *
  generalize r % 2 ^ i = L at *
  generalize 2 ^ (n - 1 - i) = M at *
  generalize 2 ^ i = p at *
  rcases Nat.lt_trichotomy J M with h | h | h
  · have := hc.1 h; omega
  · have := hc.2.1 h; split at hd <;> omega
  · have := hc.2.2 h; split at hd <;> omega

theorem row0_lt (n i r : Nat) (hr : r < 2 ^ n) : row0 i r < 2 ^ n :=
  Nat.lt_of_le_of_lt (row0_le i r) hr

/-- The block index of a row below `2^n` is below `2^(n-1-i)`. -/
theorem block_lt (n i r : Nat) (hi : i < n) (hr : r < 2 ^ n) : r / 2 ^ (i + 1) < 2 ^ (n - 1 - i) := by
  have hn : 2 ^ n = 2 ^ (i + 1) * 2 ^ (n - 1 - i) := by
    rw [← Nat.pow_add]; congr 1; omega
  rw [hn] at hr
  exact Nat.div_lt_of_lt_mul hr

/-! ### which rows the gates of step `(k, i)` touch -/

/-- Every row in a non-identity block of the UCG of step `(k, i)` has its bit-`i`-cleared partner
at or after row `k`. -/
theorem uc_row0_ge (k i r : Nat) (h : ucStart k i ≤ r / 2 ^ (i + 1)) : k ≤ row0 i r := by
  rw [row0_eq]
  have h1 := ucStart_mul_ge k i
  have h2 : 2 ^ i * ucStart k i ≤ 2 ^ i * (r / 2 ^ (i + 1)) := Nat.mul_le_mul_left _ h
  omega

/-- Membership in the control list of the MCG: every wire except the target. -/
theorem mem_mcCtrls (n k i q : Nat) (hi : i < n) :
    q ∈ mcCtrls n k i ↔ q < n ∧ q ≠ n - 1 - i ∧ k.testBit (n - 1 - q) = true := by
  unfold mcCtrls control ancilla target kBin
  simp only [List.mem_filter, List.mem_append, List.mem_range, List.mem_map]
  constructor
  · rintro ⟨h | ⟨a, ha, rfl⟩, hb⟩
    · exact ⟨by omega, by omega, hb⟩
    · exact ⟨by omega, by omega, hb⟩
  · rintro ⟨h1, h2, h3⟩
    refine ⟨?_, h3⟩
    by_cases hq : q < n - i - 1
    · exact Or.inl hq
    · exact Or.inr ⟨q - (n - i - 1) - 1, by omega, by omega⟩

/-- The MCG of step `(k, i)` is active on row `r` iff every `1`-bit of `k` below `n` other than bit
`i` is a `1`-bit of `r`. -/
theorem mcActive_iff (n k i r : Nat) (hi : i < n) :
    mcActive n k i r = true ↔
      ∀ b, b < n → b ≠ i → k.testBit b = true → r.testBit b = true := by
  unfold mcActive
  rw [List.all_eq_true]
  constructor
  · intro h b hb hbi hk
    have := h (n - 1 - b) ((mem_mcCtrls n k i _ hi).2 ⟨by omega, by omega, by
      rw [show n - 1 - (n - 1 - b) = b by omega]; exact hk⟩)
    rw [show n - 1 - (n - 1 - b) = b by omega] at this
    exact this
  · intro h q hq
    rw [mem_mcCtrls n k i q hi] at hq
    exact h (n - 1 - q) (by omega) (by omega) hq.2.2

/-- A number whose `1`-bits are all `1`-bits of `r` is at most `r`. -/
theorem le_of_testBit_imp (k r : Nat) (h : ∀ b, k.testBit b = true → r.testBit b = true) :
    k ≤ r := by
  have : k &&& r = k := by
    apply Nat.eq_of_testBit_eq
    intro b
    rw [Nat.testBit_and]
    cases hk : k.testBit b
    · simp
    · simp [h b hk]
  rw [← this]; exact Nat.and_le_right

/-- Two numbers with the same bits above `i` and the same bits below `i` agree on every bit other
than `i`. -/
theorem testBit_of_parts (i x y b : Nat) (hhi : x / 2 ^ (i + 1) = y / 2 ^ (i + 1))
    (hlo : x % 2 ^ i = y % 2 ^ i) (hb : b ≠ i) : x.testBit b = y.testBit b := by
  rcases Nat.lt_or_gt_of_ne hb with h | h
  · have hx := Nat.testBit_mod_two_pow x i b
    have hy := Nat.testBit_mod_two_pow y i b
    rw [hlo] at hx
    simp only [h, decide_true, Bool.true_and] at hx hy
    rw [← hx, hy]
  · have hx := Nat.testBit_div_two_pow (n := i + 1) x (b - (i + 1))
    have hy := Nat.testBit_div_two_pow (n := i + 1) y (b - (i + 1))
    rw [show b - (i + 1) + (i + 1) = b by omega] at hx hy
    rw [← hx, ← hy, hhi]

/-- Bits of `row0 i r`: bit `i` cleared, the others those of `r`. -/
theorem testBit_row0 (i r b : Nat) :
    (row0 i r).testBit b = if b = i then false else r.testBit b := by
  have hp := row0_parts i r
  by_cases hb : b = i
  · subst hb; simp only [if_true]; exact hp.2.1
  · simp only [hb, if_false]
    exact testBit_of_parts i _ _ b hp.1 hp.2.2 hb

/-- Bits of `row1 i r`: bit `i` set, the others those of `r`. -/
theorem testBit_row1 (i r b : Nat) :
    (row1 i r).testBit b = if b = i then true else r.testBit b := by
  have hp := row1_parts i r
  by_cases hb : b = i
  · subst hb; simp only [if_true]; exact hp.2.1
  · simp only [hb, if_false]
    exact testBit_of_parts i _ _ b hp.1 hp.2.2 hb

/-- Every row on which the MCG of step `(k, i)` acts non-trivially has its bit-`i`-cleared partner
at or after row `k` (given that the MCG is scheduled, i.e. bit `i` of `k` is `0`). -/
theorem mc_row0_ge (n k i r : Nat) (hi : i < n) (hk : k < 2 ^ n) (hm : hasMcg k i = true)
    (ha : mcActive n k i r = true) : k ≤ row0 i r := by
  apply le_of_testBit_imp
  intro b hb
  have hbn : b < n := by
    by_contra hge
    have : k.testBit b = false :=
      Nat.testBit_lt_two_pow (Nat.lt_of_lt_of_le hk (Nat.pow_le_pow_right (by omega) (by omega)))
    rw [this] at hb; cases hb
  have hbi : b ≠ i := by
    intro e; subst e; rw [(hasMcg_low k b hm).1] at hb; cases hb
  rw [testBit_row0, if_neg hbi]
  exact (mcActive_iff n k i r hi).1 ha b hbn hbi hb

/-- Activity of the MCG does not depend on bit `i` of the row. -/
theorem mcActive_row0 (n k i r : Nat) (hi : i < n) :
    mcActive n k i (row0 i r) = mcActive n k i r := by
  rw [Bool.eq_iff_iff, mcActive_iff n k i _ hi, mcActive_iff n k i _ hi]
  constructor
  · intro h b hb hbi hkb
    have := h b hb hbi hkb
    rwa [testBit_row0, if_neg hbi] at this
  · intro h b hb hbi hkb
    rw [testBit_row0, if_neg hbi]; exact h b hb hbi hkb

/-- The MCG of step `(k, i)` is active on row `k + 2^i` (and on row `k`). -/
theorem mcActive_pivot (n k i : Nat) (hi : i < n) (hm : hasMcg k i = true) :
    mcActive n k i (k + 2 ^ i) = true := by
  rw [mcActive_iff n k i _ hi]
  intro b _ hbi hkb
  have hlow := (hasMcg_low k i hm).1
  rw [← row1_of_not_bit i k hlow, testBit_row1, if_neg hbi]
  exact hkb

/-- **Index facts of the schedule of `_g_k`, all in one** (for every `n`, `k < 2^n`, `i < n`):
`_b` is the remainder, `_a` the quotient, `_k_s` bit `i`; the MCG is scheduled only when bit `i` of
`k` is `0` and a lower bit is set; its pair is `(k, k + 2^i)`; the UCG pair of block `j` consists of
the two rows of block `j` with the low bits of `k`; `start` is `⌈k / 2^(i+1)⌉`, so the first
non-identity block begins at or after row `k`; every row in a non-identity UCG block and every row
the MCG is active on has its bit-`i`-cleared partner `≥ k`. -/
theorem ccd_index_facts (n k i : Nat) (hi : i < n) (hk : k < 2 ^ n) :
    bFn k i = k % 2 ^ i ∧ aFn k i = k / 2 ^ i ∧ kS k i = (if k.testBit i then 1 else 0) ∧
    (hasMcg k i = true → k.testBit i = false ∧ k % 2 ^ i ≠ 0) ∧
    mcIdx k i = (k, k + 2 ^ i) ∧
    (∀ j, ucIdx k i j = (j * 2 ^ (i + 1) + k % 2 ^ i, j * 2 ^ (i + 1) + 2 ^ i + k % 2 ^ i)) ∧
    ucStart k i = (if k % 2 ^ (i + 1) = 0 then k / 2 ^ (i + 1) else k / 2 ^ (i + 1) + 1) ∧
    k ≤ ucStart k i * 2 ^ (i + 1) ∧
    (∀ r, ucStart k i ≤ r / 2 ^ (i + 1) → k ≤ row0 i r) ∧
    (hasMcg k i = true → ∀ r, mcActive n k i r = true → k ≤ row0 i r) :=
  ⟨bFn_eq k i, aFn_eq k i, kS_eq k i, hasMcg_low k i, mcIdx_eq k i, ucIdx_eq' k i, ucStart_eq k i,
    ucStart_mul_ge' k i, uc_row0_ge k i, fun hm r ha => mc_row0_ge n k i r hi hk hm ha⟩

end Qclib.Iso
