import QclibModel.Proofs.SparseCvoTotalMain
/-
  C06 — CVO-QRAM rotation law for a *real* feature (`isinstance(feature, complex)` is false:
  `_compute_matrix_angles` returns `(2·arcsin(−x/√norm), 0, 0)`, an `RY`), so that the whole-circuit
  theorem covers dictionaries with Python-float amplitudes of either sign as well.
-/
namespace Qclib.Sparse
open Qclib Complex

/-- **real branch**: `U(α,0,0)·(0, √norm)ᵀ = (x, √(norm − x²))ᵀ` for real `x ≠ 0`, `x² ≤ norm`. -/
theorem cvo_rot_realamp (x : Amp ℝ) (hx : x.cplx = false) (him : x.im = 0) (norm : ℝ)
    (hp : 0 < x.re ^ 2 + x.im ^ 2) (hle : x.re ^ 2 + x.im ^ 2 ≤ norm) :
    (matU (cvoAngles x norm).1 (cvoAngles x norm).2.1 (cvoAngles x norm).2.2 : Mat2 ℂ).b
        * ((Real.sqrt norm : ℝ) : ℂ) = x.toC ∧
    (matU (cvoAngles x norm).1 (cvoAngles x norm).2.1 (cvoAngles x norm).2.2 : Mat2 ℂ).d
        * ((Real.sqrt norm : ℝ) : ℂ) = ((Real.sqrt (norm - (x.re ^ 2 + x.im ^ 2)) : ℝ) : ℂ) ∧
    normNext x norm = norm - (x.re ^ 2 + x.im ^ 2) := by
  rw [him] at hp hle ⊢
  have hn : 0 < norm := lt_of_lt_of_le hp hle
  have hsn : 0 < Real.sqrt norm := Real.sqrt_pos.mpr hn
  have hsq : Real.sqrt norm ^ 2 = norm := Real.sq_sqrt hn.le
  set v := -x.re / Real.sqrt norm with hv
  have hv2 : v ^ 2 ≤ 1 := by
    rw [hv, div_pow, div_le_one (by positivity), hsq]; nlinarith
  have hvb : -1 ≤ v ∧ v ≤ 1 := by
    constructor <;> nlinarith [sq_nonneg (v + 1), sq_nonneg (v - 1)]
  have hang : cvoAngles x norm = (2 * Real.arcsin v, 0, 0) := by
    unfold cvoAngles
    rw [if_neg (by rw [hx]; simp)]
    show (2 * Real.arcsin (clampTrig (-x.re / Real.sqrt norm)), (0 : ℝ), (0 : ℝ)) = _
    rw [clampTrig_id _ hvb.1 hvb.2]
  have hnext : normNext x norm = norm - (x.re ^ 2 + 0 ^ 2) := by
    unfold normNext
    rw [if_neg (by rw [hx]; simp)]
    show norm - absSq x.re 0 = _
    rw [absSq_real]
  have half : 2 * Real.arcsin v / 2 = Real.arcsin v := by ring
  have ex0 : (RotSem.ex (0 : ℝ) : ℂ) = 1 := (instRotLawsReal).ex_zero
  have hsin : Real.sin (Real.arcsin v) = v := Real.sin_arcsin hvb.1 hvb.2
  have hcos : Real.cos (Real.arcsin v) * Real.sqrt norm = Real.sqrt (norm - (x.re ^ 2 + 0 ^ 2)) := by
    rw [Real.cos_arcsin]
    have e : 1 - v ^ 2 = (norm - (x.re ^ 2 + 0 ^ 2)) / norm := by
      rw [hv, div_pow, hsq]; field_simp; ring
    rw [e, Real.sqrt_div (by nlinarith)]
    field_simp
  rw [hang]
  refine ⟨?_, ?_, hnext⟩
  · simp only [matU, ex0, cs_real, sn_real, half, hsin]
    apply Complex.ext
    · simp [Amp.toC, hv]; field_simp
    · simp [Amp.toC, him]
  · simp only [matU, ex0, cs_real, half, one_mul]
    rw [← hcos]; push_cast; ring

/-- the rotation law for every amplitude the constructor can be given: a Python `complex`, or a
real scalar (then `im` is `0`) -/
theorem rotOk_any (x : Amp ℝ) (hreal : x.cplx = false → x.im = 0)
    (hp : 0 < x.re ^ 2 + x.im ^ 2) : RotOk x := by
  intro norm hle
  cases hc : x.cplx
  · exact cvo_rot_realamp x hc (hreal hc) norm hp hle
  · exact cvo_rot x hc norm hp hle

end Qclib.Sparse
