import QclibModel.Proofs.McsuSem
/-
  The eight-gate core of `Ldmcsu.linear_depth_mcv` (Theorem 1 of arXiv:2302.06377) with ideal
  multi-controlled X gates, over any commutative ring, on every state.
-/
set_option linter.unusedSimpArgs false
namespace Qclib.Mcsu

variable {R : Type} [CommRing R]

/-- The both-halves-fire product, in operator order: `(A' X A X)²`. -/
def coreW (A A' : Mat2 R) : Mat2 R :=
  A' * Mat2.X * A * Mat2.X * (A' * Mat2.X * A * Mat2.X)

/-- Time order `MCX₁, A, MCX₂, A', MCX₁, A, MCX₂, A'` (innermost = first). -/
def coreSeq (l1 l2 : List (Nat × Bool)) (t : Nat) (A A' : Mat2 R) (ψ : State R) : State R :=
  applyMcu [] A' t (applyMcu l2 Mat2.X t (applyMcu [] A t (applyMcu l1 Mat2.X t
    (applyMcu [] A' t (applyMcu l2 Mat2.X t (applyMcu [] A t (applyMcu l1 Mat2.X t ψ)))))))

theorem mcuFam_nil (m : Mat2 R) : mcuFam [] m = fun _ => m := by
  funext b; simp [mcuFam, ctrlOk]

theorem core_fam (l1 l2 : List (Nat × Bool)) (A A' : Mat2 R) (hA : A * A' = 1) (hA' : A' * A = 1)
    (b : Bits) :
    A' * mcuFam l2 Mat2.X b * A * mcuFam l1 Mat2.X b * A' * mcuFam l2 Mat2.X b * A
        * mcuFam l1 Mat2.X b
      = mcuFam (l1 ++ l2) (coreW A A') b := by
  have e1 : ∀ M : Mat2 R, A * (A' * M) = M := fun M => by
    rw [← mat_mul_assoc, hA, mat_one_mul]
  have e2 : ∀ M : Mat2 R, A' * (A * M) = M := fun M => by
    rw [← mat_mul_assoc, hA', mat_one_mul]
  have e3 : ∀ M : Mat2 R, (Mat2.X : Mat2 R) * (Mat2.X * M) = M := fun M => by
    rw [← mat_mul_assoc, mat_X_mul_X, mat_one_mul]
  simp only [mcuFam, ctrlOk_append, coreW]
  cases h1 : ctrlOk l1 b <;> cases h2 : ctrlOk l2 b <;>
    simp [mat_mul_assoc, mat_one_mul, mat_mul_one, e1, e2, e3, hA, hA', mat_X_mul_X]

/-- **Core of `linear_depth_mcv`.**  For literal lists `l1`, `l2` that do not mention the target,
and any `A`, `A'` inverse to each other, the eight-gate sequence is the multi-controlled gate with
literals `l1 ++ l2` and matrix `(A' X A X)²` — on every state `ψ`. -/
theorem core_seq (l1 l2 : List (Nat × Bool)) (t : Nat) (A A' : Mat2 R) (hA : A * A' = 1)
    (hA' : A' * A = 1) (h1 : Avoids l1 t) (h2 : Avoids l2 t) (ψ : State R) :
    coreSeq l1 l2 t A A' ψ = applyMcu (l1 ++ l2) (coreW A A') t ψ := by
  have f1 := mcuFam_free l1 (Mat2.X : Mat2 R) t h1
  have f2 := mcuFam_free l2 (Mat2.X : Mat2 R) t h2
  have fA := TFree_const (R := R) t A
  have fA' := TFree_const (R := R) t A'
  unfold coreSeq
  simp only [applyMcu_eq_fam, mcuFam_nil]
  rw [applyFam_comp t _ _ f2, applyFam_comp t _ _ fA, applyFam_comp t _ _ f1,
    applyFam_comp t _ _ fA', applyFam_comp t _ _ f2, applyFam_comp t _ _ fA,
    applyFam_comp t _ _ f1]
  exact applyFam_congr t (fun b => core_fam l1 l2 A A' hA hA' b) ψ

end Qclib.Mcsu
