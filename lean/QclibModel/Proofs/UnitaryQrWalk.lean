import QclibModel.Proofs.UnitaryQr
/-
  C02 — QR part: the `while n_diff > 1` walk of `_build_qr_circuit`.  Counting of differing
  positions, totality, the one-bit end state, and the simultaneous action on the two labels.
  Core Lean only.
-/
namespace Qclib.Uni

/-! ### counting over `range n` -/

theorem cnt_pos_exists {n : Nat} {f : Nat → Bool} (h : 0 < ((List.range n).filter f).length) :
    ∃ q, q < n ∧ f q = true := by
  obtain ⟨q, hq⟩ := List.exists_mem_of_length_pos h
  rw [List.mem_filter, List.mem_range] at hq
  exact ⟨q, hq⟩

theorem cnt_zero_none {n : Nat} {f : Nat → Bool} (h : ((List.range n).filter f).length = 0)
    {q : Nat} (hq : q < n) : f q = false := by
  cases hf : f q with
  | false => rfl
  | true =>
    have : q ∈ (List.range n).filter f := by
      rw [List.mem_filter, List.mem_range]; exact ⟨hq, hf⟩
    have := List.length_pos_of_mem this
    omega

/-- switching the predicate off at one position `m < n` lowers the count by one. -/
theorem cnt_flip {f g : Nat → Bool} {m : Nat} (hfm : f m = true) (hgm : g m = false)
    (hne : ∀ q, q ≠ m → f q = g q) :
    ∀ n, m < n → ((List.range n).filter f).length = ((List.range n).filter g).length + 1 := by
  intro n
  induction n with
  | zero => intro h; omega
  | succ k ih =>
    intro h
    rw [List.range_succ, List.filter_append, List.filter_append, List.length_append,
      List.length_append]
    by_cases hk : m = k
    · subst hk
      have : (List.range m).filter f = (List.range m).filter g := by
        apply List.filter_congr
        intro q hq
        have := List.mem_range.mp hq
        exact hne q (by omega)
      rw [this]
      simp [hfm, hgm]
    · have hlt : m < k := by omega
      have hfk : f k = g k := hne k (fun e => hk e.symm)
      rw [ih hlt]
      simp only [List.filter, hfk]
      cases g k <;> simp <;> omega

/-- the predicate `g` obtained from `f` by switching it off at `m`. -/
def offAt (f : Nat → Bool) (m : Nat) : Nat → Bool := fun q => if q = m then false else f q

theorem cnt_two_other {n : Nat} {f : Nat → Bool} (h : 2 ≤ ((List.range n).filter f).length)
    (m : Nat) : ∃ q, q < n ∧ q ≠ m ∧ f q = true := by
  by_cases hm : m < n ∧ f m = true
  · have := cnt_flip (f := f) (g := offAt f m) hm.2 (by simp [offAt])
      (fun q hq => by simp [offAt, hq]) n hm.1
    obtain ⟨q, hq, hg⟩ := cnt_pos_exists (n := n) (f := offAt f m) (by omega)
    refine ⟨q, hq, ?_, ?_⟩
    · intro e; simp [offAt, e] at hg
    · by_cases e : q = m
      · simp [offAt, e] at hg
      · simpa [offAt, e] using hg
  · obtain ⟨q, hq, hf⟩ := cnt_pos_exists (n := n) (f := f) (by omega)
    refine ⟨q, hq, ?_, hf⟩
    intro e
    subst e
    exact hm ⟨hq, hf⟩

theorem cnt_one_unique {n : Nat} {f : Nat → Bool} (h : ((List.range n).filter f).length = 1)
    {m : Nat} (hm : m < n) (hfm : f m = true) {q : Nat} (hq : q < n) (hfq : f q = true) : q = m := by
  have := cnt_flip (f := f) (g := offAt f m) hfm (by simp [offAt])
      (fun q hq => by simp [offAt, hq]) n hm
  have h0 : ((List.range n).filter (offAt f m)).length = 0 := by omega
  have := cnt_zero_none h0 hq
  by_cases e : q = m
  · exact e
  · simp [offAt, e, hfq] at this

/-! ### `nDiff` under one step -/

/-- the differing-position predicate of two bit lists. -/
def diffP (r c : List Bool) : Nat → Bool := fun q => r.getD q false != c.getD q false

theorem nDiff_eq (r c : List Bool) : nDiff r c = ((List.range r.length).filter (diffP r c)).length := rfl

theorem diffP_true {r c : List Bool} {q : Nat} : diffP r c q = true ↔ r.getD q false ≠ c.getD q false := by
  simp [diffP]

theorem nDiff_set_row {n m : Nat} {r c : List Bool} (hr : r.length = n) (hm : m < n)
    (hrm : r.getD m false = false) (hcm : c.getD m false = true) :
    nDiff (r.set m true) c + 1 = nDiff r c := by
  rw [nDiff_eq, nDiff_eq, List.length_set, hr]
  refine (cnt_flip (f := diffP r c) (g := diffP (r.set m true) c) ?_ ?_ ?_ n hm).symm
  · show (r.getD m false != c.getD m false) = true
    rw [hrm, hcm]; rfl
  · show ((r.set m true).getD m false != c.getD m false) = false
    rw [getD_set_eq r m true (by omega), hcm]; rfl
  · intro q hq
    simp only [diffP, getD_set_ne r m q true hq]

theorem nDiff_set_col {n m : Nat} {r c : List Bool} (hr : r.length = n) (hc : c.length = n) (hm : m < n)
    (hrm : r.getD m false = true) (hcm : c.getD m false = false) :
    nDiff r (c.set m true) + 1 = nDiff r c := by
  rw [nDiff_eq, nDiff_eq, hr]
  refine (cnt_flip (f := diffP r c) (g := diffP r (c.set m true)) ?_ ?_ ?_ n hm).symm
  · show (r.getD m false != c.getD m false) = true
    rw [hrm, hcm]; rfl
  · show (r.getD m false != (c.set m true).getD m false) = false
    rw [getD_set_eq c m true (by omega), hrm]; rfl
  · intro q hq
    simp only [diffP, getD_set_ne c m q true hq]

/-- `_apply_mcxs` finds a position whenever the lists differ somewhere (`memory` is bound). -/
theorem applyMcxs_total {n : Nat} {r c : List Bool} (hr : r.length = n) (h : 1 ≤ nDiff r c) :
    ∃ s, applyMcxs n r c = some s := by
  rw [nDiff_eq, hr] at h
  obtain ⟨q, hq, hf⟩ := cnt_pos_exists (n := n) (f := diffP r c) (by omega)
  unfold applyMcxs
  cases hfd : firstDiff n r c with
  | none =>
    unfold firstDiff at hfd
    rw [List.find?_eq_none] at hfd
    exact absurd hf (hfd q (List.mem_range.mpr hq))
  | some m =>
    dsimp only
    split <;> exact ⟨_, rfl⟩

/-- one step keeps the lengths and lowers `n_diff` by exactly one. -/
theorem step_shape {n : Nat} {r c : List Bool} {s : WalkStep} (h : applyMcxs n r c = some s)
    (hr : r.length = n) (hc : c.length = n) :
    s.row.length = n ∧ s.col.length = n ∧ nDiff s.row s.col + 1 = nDiff r c := by
  obtain ⟨m, hf, hs⟩ := applyMcxs_spec h
  obtain ⟨hm, hd, _⟩ := firstDiff_spec hf
  rcases hs with ⟨hrm, _, _, hrow, hcol⟩ | ⟨hrm, _, _, hrow, hcol⟩
  · have hcm : c.getD m false = true := by
      cases hcv : c.getD m false with
      | true => rfl
      | false => rw [hrm, hcv] at hd; exact absurd rfl hd
    rw [hrow, hcol]
    exact ⟨by rw [List.length_set, hr], hc, nDiff_set_row hr hm hrm hcm⟩
  · have hcm : c.getD m false = false := by
      cases hcv : c.getD m false with
      | false => rfl
      | true => rw [hrm, hcv] at hd; exact absurd rfl hd
    rw [hrow, hcol]
    exact ⟨hr, by rw [List.length_set, hc], nDiff_set_col hr hc hm hrm hcm⟩

/-! ### one step on the two labels -/

theorem patFlip_hit {n m : Nat} {pat : List Bool} {b : Bits} (hp : pat.length = n) (hb : Reads pat b) :
    patFlip n m pat b = flipBit b m := by
  unfold patFlip
  rw [if_pos]
  rw [patMatch_iff]
  intro q hq _
  exact hb q (by omega)

theorem patFlip_miss {n m : Nat} {pat l : List Bool} {b : Bits} (hl : l.length = n) (hb : Reads l b)
    {q : Nat} (hq : q < n) (hqm : q ≠ m) (hne : pat.getD q false ≠ l.getD q false) :
    patFlip n m pat b = b := by
  unfold patFlip
  rw [if_neg]
  rw [patMatch_iff]
  intro h
  have h1 := h q hq hqm
  have h2 := hb q (by omega)
  exact hne (by rw [← h1, h2])

theorem reads_set_flip {n m : Nat} {l : List Bool} {b : Bits} (_hl : l.length = n) (_hm : m < n)
    (hlm : l.getD m false = false) (hb : Reads l b) : Reads (l.set m true) (flipBit b m) := by
  intro q hq
  rw [List.length_set] at hq
  by_cases e : q = m
  · subst e
    rw [getD_set_eq l q true hq]
    show (if q = q then !(b q) else b q) = true
    rw [if_pos rfl, hb q hq, hlm]; rfl
  · rw [getD_set_ne l m q true e]
    simp [flipBit, e, hb q hq]

/-- while at least two positions differ, one `_apply_mcxs` step moves the label reading `row` to the
new `row` and the label reading `col` to the new `col`, and leaves wires `≥ n` alone. -/
theorem step_reads {n : Nat} {r c : List Bool} {s : WalkStep} (h : applyMcxs n r c = some s)
    (hr : r.length = n) (hc : c.length = n) (h2 : 2 ≤ nDiff r c) (b : Bits) :
    (Reads r b → Reads s.row (qgEval s.gates b)) ∧ (Reads c b → Reads s.col (qgEval s.gates b)) ∧
    (∀ q, n ≤ q → qgEval s.gates b q = b q) := by
  obtain ⟨m, hf, hs⟩ := applyMcxs_spec h
  obtain ⟨hm, hd, _⟩ := firstDiff_spec hf
  rw [nDiff_eq, hr] at h2
  obtain ⟨q, hq, hqm, hdq⟩ := cnt_two_other h2 m
  rw [diffP_true] at hdq
  rcases hs with ⟨hrm, hg, _, hrow, hcol⟩ | ⟨hrm, hg, _, hrow, hcol⟩
  · have he : ∀ b, qgEval s.gates b = patFlip n m r b := fun b => by
      rw [hg]; exact (qr_sandwich_patFlip n m hm r b).1
    rw [he, hrow, hcol]
    refine ⟨fun hb => ?_, fun hb => ?_, fun q hq => patFlip_ne n m r b (by omega)⟩
    · rw [patFlip_hit hr hb]; exact reads_set_flip hr hm hrm hb
    · rw [patFlip_miss hc hb hq hqm hdq]; exact hb
  · have hcm : c.getD m false = false := by
      cases hcv : c.getD m false with
      | false => rfl
      | true => rw [hrm, hcv] at hd; exact absurd rfl hd
    have he : ∀ b, qgEval s.gates b = patFlip n m c b := fun b => by
      rw [hg]; exact (qr_sandwich_patFlip n m hm c b).1
    rw [he, hrow, hcol]
    refine ⟨fun hb => ?_, fun hb => ?_, fun q hq => patFlip_ne n m c b (by omega)⟩
    · rw [patFlip_miss hr hb hq hqm (fun e => hdq e.symm)]; exact hb
    · rw [patFlip_hit hc hb]; exact reads_set_flip hc hm hcm hb

/-- `h` is the highest position where the two lists differ. -/
def TopDiff (r c : List Bool) (h : Nat) : Prop :=
  r.getD h false ≠ c.getD h false ∧ ∀ j, h < j → r.getD j false = c.getD j false

/-- while at least two positions differ, a step never touches the highest differing position (it
works on the lowest one). -/
theorem step_top {n : Nat} {r c : List Bool} {s : WalkStep} (h : applyMcxs n r c = some s)
    (hr : r.length = n) (h2 : 2 ≤ nDiff r c) {t : Nat} (ht : TopDiff r c t) :
    TopDiff s.row s.col t ∧ s.row.getD t false = r.getD t false ∧ s.col.getD t false = c.getD t false := by
  obtain ⟨m, hf, hs⟩ := applyMcxs_spec h
  obtain ⟨hm, hd, hlow⟩ := firstDiff_spec hf
  rw [nDiff_eq, hr] at h2
  obtain ⟨q, hq, hqm, hdq⟩ := cnt_two_other h2 m
  rw [diffP_true] at hdq
  have hmt : m < t := by
    -- every differing position lies in [m, t]; `q ≠ m` is one of them
    have h1 : m ≤ q := by
      by_cases e : q < m
      · exact absurd (hlow q e) hdq
      · omega
    have h3 : q ≤ t := by
      by_cases e : t < q
      · exact absurd (ht.2 q e) hdq
      · omega
    omega
  have hne : t ≠ m := by omega
  have hrow : ∀ j, m < j → s.row.getD j false = r.getD j false := by
    intro j hj
    rcases hs with ⟨_, _, _, e, _⟩ | ⟨_, _, _, e, _⟩
    · rw [e, getD_set_ne r m j true (by omega)]
    · rw [e]
  have hcol : ∀ j, m < j → s.col.getD j false = c.getD j false := by
    intro j hj
    rcases hs with ⟨_, _, _, _, e⟩ | ⟨_, _, _, _, e⟩
    · rw [e]
    · rw [e, getD_set_ne c m j true (by omega)]
  refine ⟨⟨?_, ?_⟩, hrow t hmt, hcol t hmt⟩
  · rw [hrow t hmt, hcol t hmt]; exact ht.1
  · intro j hj
    rw [hrow j (by omega), hcol j (by omega)]; exact ht.2 j hj

/-! ### the whole walk -/

/-- the `while n_diff > 1` loop never fails when started with at most `n_diff` iterations. -/
theorem walk_total {n : Nat} : ∀ (d : Nat) {r c : List Bool}, r.length = n → c.length = n →
    d ≤ nDiff r c → ∃ w, walk n d r c = some w
  | 0, r, c, _, _, _ => ⟨_, rfl⟩
  | d + 1, r, c, hr, hc, hd => by
    obtain ⟨s, hs⟩ := applyMcxs_total (c := c) hr (by omega)
    obtain ⟨hr', hc', hn⟩ := step_shape hs hr hc
    obtain ⟨w, hw⟩ := walk_total d hr' hc' (by omega)
    refine ⟨⟨s.gates ++ w.gates, s.mem :: w.mems, w.row, w.col⟩, ?_⟩
    simp only [walk, hs, hw]

/-- invariant of the loop, for `d < n_diff` iterations. -/
theorem walk_inv {n : Nat} : ∀ (d : Nat) {r c : List Bool} {w : Walk}, walk n d r c = some w →
    r.length = n → c.length = n → d + 1 ≤ nDiff r c →
    w.row.length = n ∧ w.col.length = n ∧ nDiff w.row w.col + d = nDiff r c ∧
    (∀ b, (Reads r b → Reads w.row (qgEval w.gates b)) ∧ (Reads c b → Reads w.col (qgEval w.gates b)) ∧
      (∀ q, n ≤ q → qgEval w.gates b q = b q)) ∧
    (∀ t, TopDiff r c t → TopDiff w.row w.col t ∧ w.row.getD t false = r.getD t false ∧
      w.col.getD t false = c.getD t false)
  | 0, r, c, w, h, hr, hc, _ => by
    simp only [walk, Option.some.injEq] at h
    subst h
    exact ⟨hr, hc, rfl, fun b => ⟨id, id, fun _ _ => rfl⟩, fun t ht => ⟨ht, rfl, rfl⟩⟩
  | d + 1, r, c, w, h, hr, hc, hd => by
    obtain ⟨s, w', hs, hw', hg, _, hrow, hcol⟩ := walk_succ h
    obtain ⟨hr', hc', hn⟩ := step_shape hs hr hc
    obtain ⟨i1, i2, i3, i4, i5⟩ := walk_inv d hw' hr' hc' (by omega)
    rw [hrow, hcol, hg]
    refine ⟨i1, i2, by omega, fun b => ?_, fun t ht => ?_⟩
    · obtain ⟨s1, s2, s3⟩ := step_reads hs hr hc (by omega) b
      obtain ⟨j1, j2, j3⟩ := i4 (qgEval s.gates b)
      rw [qgEval_append]
      exact ⟨fun hb => j1 (s1 hb), fun hb => j2 (s2 hb), fun q hq => by rw [j3 q hq, s3 q hq]⟩
    · obtain ⟨t1, t2, t3⟩ := step_top hs hr (by omega) ht
      obtain ⟨u1, u2, u3⟩ := i5 t t1
      exact ⟨u1, by rw [u2, t2], by rw [u3, t3]⟩
