import QclibModel.Proofs.TopDownPlace
import QclibModel.Spec.Dense
/-
  C01: one level of `top_down`.  The two multiplexers the walk appends for a level — `ucr RY` with
  `last_control = not any(angles_z)` and the reversed `ucr RZ` with `last_control = not
  any(angles_y)`, each only if its angle list has a non-zero entry — denote together the operator
  `RZ(z_j)·RY(y_j)` on the target wire, `j` the number read on the control wires.  First on the
  local wires `0 … k` (from the two-sided invariant `ucr_inv` behind C13), then placed on the
  wires `s, s+1 … s+k` (`Proofs/TopDownPlace.lean`).
-/
namespace Qclib.Dense
open RotSem

section loc
variable {Θ R : Type} [AddCommGroup Θ] [CommRing R] [RotSem Θ R] [RotLaws Θ R]
variable (half : Θ → Θ) (negl : Θ → Bool)
  (hhalf : ∀ a, half a + half a = a) (hadd : ∀ a b, half (a + b) = half a + half b)
  (hnegl : ∀ a, negl a = true → a = 0)

theorem Ek_sq (e : Ent) (k : Nat) (b : Bits) : (Ek e k b * Ek e k b : Mat2 R) = 1 := by
  rcases Ek_cases (R := R) e k b with h | h <;> rw [h]
  · exact Mat2.one_mul' _
  · exact ent_sq e

omit [AddCommGroup Θ] in
theorem ucr_true_succ (o : AOps Θ) (ax : Axis) (e : Ent) (k : Nat) (a : Nat → Θ) :
    ucr o ax e (k+1) a true = ucr o ax e (k+1) a false ++ [entG e (k+1) 0] := by
  rw [ucr_succ, ucr_succ]; simp

omit [AddCommGroup Θ] in
theorem ucr_true_zero (o : AOps Θ) (ax : Axis) (e : Ent) (a : Nat → Θ) :
    ucr o ax e 0 a true = ucr o ax e 0 a false := by
  simp only [ucr]

include hhalf hadd hnegl

/-- `ucr … last_control = True` denotes the multiplexer (C13), as a `Rep` fact. -/
theorem ucr_true_rep {ax : Axis} {e : Ent} (hv : validPair ax e = true) (k : Nat) (a : Nat → Θ) :
    Rep (ucr (stdOps half negl) ax e k a true)
      (fun b => (rotMat ax (a (ctrlIdx k b)) : Mat2 R)) := by
  cases k with
  | zero =>
    rw [ucr_true_zero]
    exact (ucr_inv half negl hhalf hadd hnegl hv 0 a).1.congr
      (fun b => by simp only [Ek_zero, Mat2.one_mul'])
  | succ k =>
    rw [ucr_true_succ]
    refine ((ucr_inv half negl hhalf hadd hnegl hv (k+1) a).1.append
      (Rep.ent (Θ := Θ) (R := R) e k)).congr (fun b => ?_)
    simp only [Ek_succ]
    by_cases hb : b (k+1) = true
    · simp only [hb, if_true, ent_sq_assoc]
    · have hb' : b (k+1) = false := by simpa using hb
      simp only [hb', Bool.false_eq_true, if_false, Mat2.one_mul']

/-- The reversed `ucr … last_control = True` denotes the same multiplexer. -/
theorem ucr_true_rev_rep {ax : Axis} {e : Ent} (hv : validPair ax e = true) (k : Nat)
    (a : Nat → Θ) :
    Rep (ucr (stdOps half negl) ax e k a true).reverse
      (fun b => (rotMat ax (a (ctrlIdx k b)) : Mat2 R)) := by
  cases k with
  | zero =>
    rw [ucr_true_zero]
    exact (ucr_inv half negl hhalf hadd hnegl hv 0 a).2.congr
      (fun b => by simp only [Ek_zero, Mat2.mul_one'])
  | succ k =>
    rw [ucr_true_succ, List.reverse_append, List.reverse_cons, List.reverse_nil, List.nil_append]
    refine ((Rep.ent (Θ := Θ) (R := R) e k).append
      (ucr_inv half negl hhalf hadd hnegl hv (k+1) a).2).congr (fun b => ?_)
    simp only [Ek_succ]
    by_cases hb : b (k+1) = true
    · simp only [hb, if_true, Mat2.mul_assoc', ent_sq, Mat2.mul_one']
    · have hb' : b (k+1) = false := by simpa using hb
      simp only [hb', Bool.false_eq_true, if_false, Mat2.mul_one']

/-- The level circuit on local wires: target 0, controls `1 … k`. -/
theorem level_local_rep (k : Nat) (ys zs : Nat → Θ) (anyY anyZ : Bool)
    (hY : anyY = false → ∀ j, ys j = 0) (hZ : anyZ = false → ∀ j, zs j = 0) :
    Rep ((if anyY then ucr (stdOps half negl) .Y .CX k ys (!anyZ) else [])
          ++ (if anyZ then (ucr (stdOps half negl) .Z .CX k zs (!anyY)).reverse else []))
      (fun b => (rotMat .Z (zs (ctrlIdx k b)) * rotMat .Y (ys (ctrlIdx k b)) : Mat2 R)) := by
  have hvY : validPair .Y .CX = true := rfl
  have hvZ : validPair .Z .CX = true := rfl
  cases anyY <;> cases anyZ
  · -- neither multiplexer
    simp only [Bool.false_eq_true, if_false, List.append_nil]
    refine (Rep.nil (Θ := Θ) (R := R)).congr (fun b => ?_)
    rw [hY rfl, hZ rfl, rot_zero, rot_zero, Mat2.one_mul']
  · -- only RZ (reversed, with its trailing CX)
    simp only [Bool.false_eq_true, if_false, if_true, List.nil_append, Bool.not_false]
    refine (ucr_true_rev_rep half negl hhalf hadd hnegl hvZ k zs).congr (fun b => ?_)
    rw [hY rfl, rot_zero, Mat2.mul_one']
  · -- only RY
    simp only [Bool.false_eq_true, if_false, if_true, List.append_nil, Bool.not_false]
    refine (ucr_true_rep half negl hhalf hadd hnegl hvY k ys).congr (fun b => ?_)
    rw [hZ rfl, rot_zero, Mat2.one_mul']
  · -- both: the two omitted CX gates cancel
    simp only [if_true, Bool.not_true]
    refine ((ucr_inv half negl hhalf hadd hnegl hvY k ys).1.append
      (ucr_inv half negl hhalf hadd hnegl hvZ k zs).2).congr (fun b => ?_)
    show rotMat Axis.Z (zs (ctrlIdx k b)) * Ek Ent.CX k b
        * (Ek Ent.CX k b * rotMat Axis.Y (ys (ctrlIdx k b))) = _
    rw [Mat2.mul_assoc', ← Mat2.mul_assoc' (Ek Ent.CX k b), Ek_sq, Mat2.one_mul']

end loc

/-! ### Which wires `ucr` touches -/

section wires
variable {Θ : Type}

theorem ucr_gates (o : AOps Θ) (ax : Axis) (e : Ent) : ∀ (k : Nat) (a : Nat → Θ) (last : Bool),
    ∀ g ∈ ucr o ax e k a last,
      (∃ θ, g = rotG ax θ 0) ∨ (∃ j, 1 ≤ j ∧ j ≤ k ∧ g = entG e j 0) := by
  intro k
  induction k with
  | zero =>
    intro a last g hg
    simp only [ucr] at hg
    split at hg
    · cases hg
    · rw [List.mem_singleton] at hg; exact Or.inl ⟨_, hg⟩
  | succ k ih =>
    intro a last g hg
    rw [ucr_succ] at hg
    simp only [List.mem_append, List.mem_singleton, List.mem_reverse] at hg
    rcases hg with ((h | h) | h) | h
    · rcases ih _ _ g h with h' | ⟨j, h1, h2, h3⟩
      · exact Or.inl h'
      · exact Or.inr ⟨j, h1, by omega, h3⟩
    · exact Or.inr ⟨k+1, by omega, Nat.le_refl _, h⟩
    · rcases ih _ _ g h with h' | ⟨j, h1, h2, h3⟩
      · exact Or.inl h'
      · exact Or.inr ⟨j, h1, by omega, h3⟩
    · split at h
      · rw [List.mem_singleton] at h
        exact Or.inr ⟨k+1, by omega, Nat.le_refl _, h⟩
      · cases h

/-- Two renamings that agree on the wires `0 … k` rename `ucr … k …` identically. -/
theorem ucr_map_congr (o : AOps Θ) (ax : Axis) (e : Ent) (k : Nat) (a : Nat → Θ) (last : Bool)
    (f f' : Nat → Nat) (h : ∀ i, i ≤ k → f i = f' i) :
    (ucr o ax e k a last).map (G.mapWires f) = (ucr o ax e k a last).map (G.mapWires f') := by
  apply List.map_congr_left
  intro g hg
  rcases ucr_gates o ax e k a last g hg with ⟨θ, rfl⟩ | ⟨j, h1, h2, rfl⟩
  · cases ax <;> simp [rotG, G.mapWires, h 0 (Nat.zero_le _)]
  · cases e <;> simp [entG, G.mapWires, h 0 (Nat.zero_le _), h j h2]

end wires

/-! ### The level on the wires `s … s+k` -/

theorem any_false_getD {Θ : Type} [Zero Θ] (o : TOps Θ) (hz : o.zero = 0) (hnz : ∀ x, o.neZero x = false → x = 0)
    (l : List Θ) (h : l.any o.neZero = false) (j : Nat) : l.getD j o.zero = 0 := by
  rw [List.getD_eq_getElem?_getD]
  cases hj : l[j]? with
  | none => simpa using hz
  | some x =>
    have hx : x ∈ l := List.mem_of_getElem? hj
    have := List.any_eq_false.1 h x hx
    simp only [Option.getD_some]
    exact hnz x (by simpa using this)


section placed
variable {Θ R : Type} [AddCommGroup Θ] [CommRing R] [RotSem Θ R] [RotLaws Θ R]
variable (half : Θ → Θ) (negl : Θ → Bool)
  (hhalf : ∀ a, half a + half a = a) (hadd : ∀ a b, half (a + b) = half a + half b)
  (hnegl : ∀ a, negl a = true → a = 0)
include hhalf hadd hnegl

/-- **Level step.**  For a level with `2^k` target nodes whose multiplexers are appended on the
wires `[s, s+1, …, s+k]` (`ws[i] = s + i`): the gates `top_down` emits for that level denote, on
every state, the operator `RZ(z_j)·RY(y_j)` on wire `s`, where `j` is the number read on the
wires `s+1 … s+k` and `y_j, z_j` are the angles of the `j`-th node of the level. -/
theorem levelMux_sem (o : TOps Θ) (ho : o.aops = stdOps half negl) (hz : o.zero = 0)
    (hnz : ∀ x, o.neZero x = false → x = 0)
    (ctrl : List Nat) (t0 : BT (QV Θ)) (rest : List (BT (QV Θ))) (k s : Nat)
    (hlen : (t0 :: rest).length = 2^k)
    (hws : ∀ i, i ≤ k → (wire (t0.valD ⟨o.zero, o.zero, none⟩).q :: ctrl.reverse).getD i 0 = i + s)
    (ψ : State R) :
    sem (levelMux o ctrl (t0 :: rest)) ψ
      = applyFam (fun b =>
          (rotMat .Z (((t0 :: rest).map fun t => (t.valD ⟨o.zero, o.zero, none⟩).z).getD
              (topIdx s k b) o.zero)
            * rotMat .Y (((t0 :: rest).map fun t => (t.valD ⟨o.zero, o.zero, none⟩).y).getD
              (topIdx s k b) o.zero) : Mat2 R)) s ψ := by
  set ys := (t0 :: rest).map fun t => (t.valD ⟨o.zero, o.zero, none⟩).y with hys
  set zs := (t0 :: rest).map fun t => (t.valD ⟨o.zero, o.zero, none⟩).z with hzs
  set ws := wire (t0.valD ⟨o.zero, o.zero, none⟩).q :: ctrl.reverse with hwsd
  have hk : Nat.log2 (t0 :: rest).length = k := by rw [hlen, Nat.log2_two_pow]
  have hlm : levelMux o ctrl (t0 :: rest)
      = ((if ys.any o.neZero then ucr (stdOps half negl) .Y .CX k (fun i => ys.getD i o.zero)
              (!zs.any o.neZero) else [])
          ++ (if zs.any o.neZero then (ucr (stdOps half negl) .Z .CX k (fun i => zs.getD i o.zero)
              (!ys.any o.neZero)).reverse else [])).map (G.mapWires (shiftEmb s).f) := by
    simp only [levelMux, hk, ho, place, ← hys, ← hzs, ← hwsd, List.map_append,
      apply_ite (List.map (G.mapWires (shiftEmb s).f)), List.map_nil, List.map_reverse]
    have hc : ∀ i, i ≤ k → (fun i => ws.getD i 0) i = (shiftEmb s).f i := fun i hi => hws i hi
    rw [ucr_map_congr _ _ _ k _ _ _ _ hc, ucr_map_congr _ _ _ k _ _ _ _ hc]
  rw [hlm]
  have hrep := level_local_rep (R := R) half negl hhalf hadd hnegl k (fun i => ys.getD i o.zero)
    (fun i => zs.getD i o.zero) (ys.any o.neZero) (zs.any o.neZero)
    (fun h j => any_false_getD o hz hnz ys h j)
    (fun h j => any_false_getD o hz hnz zs h j)
  have := (shiftEmb s).rep_map _ _ hrep.2 ψ
  rw [this]
  show applyFam _ (0 + s) ψ = _
  rw [Nat.zero_add]
  rfl

end placed
end Qclib.Dense
