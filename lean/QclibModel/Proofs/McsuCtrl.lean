import QclibModel.Proofs.McsuSem
import QclibModel.Model.Mcsu
/-
  `apply_ctrl_state` (C04_ctrl_state): conjugating by X on the controls whose pattern character
  (read in the code's reversed order) is '0' turns "all controls 1" into "controls read the
  pattern".  First on basis labels (`Bits`), then in the amplitude-function semantics.
-/
namespace Qclib.Mcsu

variable {R : Type} [CommRing R]

/-- Flip the wires of `zs` in a basis label. -/
def flipSet (zs : List Nat) (b : Bits) : Bits := fun i => if i ∈ zs then !b i else b i

/-- The denotation of a layer of `x` gates on the wires `zs` (in list order). -/
def xLayer (zs : List Nat) (ψ : State R) : State R :=
  zs.foldl (fun s q => applyMcu [] (Mat2.X : Mat2 R) q s) ψ

/-- Control literals "control `cw[i]` must read `r[i]`" (`r` = the reversed string; controls beyond
the string must read 1). -/
def litsOf : List Nat → List Bool → List (Nat × Bool)
  | [], _ => []
  | c :: cw, [] => (c, true) :: litsOf cw []
  | c :: cw, v :: r => (c, v) :: litsOf cw r

/-- All controls must read 1. -/
def allOnes (cw : List Nat) : List (Nat × Bool) := cw.map (fun c => (c, true))

theorem applyX (q : Nat) (ψ : State R) :
    applyMcu [] (Mat2.X : Mat2 R) q ψ = fun b => ψ (flipBit b q) := by
  funext b
  rw [← setBit_not]
  simp only [applyMcu, ctrlOk, List.all_nil, Mat2.X]
  cases h : b q <;> simp

theorem flipSet_nil (b : Bits) : flipSet [] b = b := by
  funext i; simp [flipSet]

theorem flipSet_cons (z : Nat) (zs : List Nat) (hz : z ∉ zs) (b : Bits) :
    flipSet (z :: zs) b = flipBit (flipSet zs b) z := by
  funext i
  by_cases h : i = z
  · subst h; simp [flipSet, flipBit, hz]
  · simp [flipSet, flipBit, h]

theorem xLayer_eq (zs : List Nat) (hn : zs.Nodup) (ψ : State R) :
    xLayer zs ψ = fun b => ψ (flipSet zs b) := by
  induction zs generalizing ψ with
  | nil => funext b; simp [xLayer, flipSet_nil]
  | cons z zs ih =>
    have hz : z ∉ zs := (List.nodup_cons.mp hn).1
    have hn' : zs.Nodup := (List.nodup_cons.mp hn).2
    have : xLayer (z :: zs) ψ = xLayer zs (applyMcu [] (Mat2.X : Mat2 R) z ψ) := rfl
    rw [this, ih hn', applyX]
    funext b
    rw [flipSet_cons z zs hz]

theorem flipSet_invol (zs : List Nat) (b : Bits) : flipSet zs (flipSet zs b) = b := by
  funext i; by_cases h : i ∈ zs <;> simp [flipSet, h]

theorem flipSet_get_of_not_mem (zs : List Nat) (b : Bits) {t : Nat} (h : t ∉ zs) :
    flipSet zs b t = b t := by simp [flipSet, h]

theorem flipSet_setBit (zs : List Nat) (b : Bits) {t : Nat} (h : t ∉ zs) (v : Bool) :
    flipSet zs (setBit (flipSet zs b) t v) = setBit b t v := by
  funext i
  by_cases hi : i = t
  · subst hi; simp [flipSet, setBit, h]
  · by_cases hm : i ∈ zs <;> simp [flipSet, setBit, hi, hm]

/-- Conjugating a multi-controlled gate by a relabelling that flips wires other than the
target. -/
theorem conj_flipSet (zs : List Nat) (l l' : List (Nat × Bool)) (m : Mat2 R) (t : Nat)
    (ht : t ∉ zs) (hl : ∀ b, ctrlOk l (flipSet zs b) = ctrlOk l' b) (ψ : State R) :
    (fun b => applyMcu l m t (fun b' => ψ (flipSet zs b')) (flipSet zs b)) = applyMcu l' m t ψ := by
  funext b
  simp only [applyMcu, hl b, flipSet_get_of_not_mem zs b ht, flipSet_setBit zs b ht,
    flipSet_invol]

/-! ### The Bits-level statement -/

theorem all_congr_mem {α : Type} {l : List α} {f g : α → Bool} (h : ∀ x ∈ l, f x = g x) :
    l.all f = l.all g := by
  induction l with
  | nil => rfl
  | cons a l ih =>
    simp only [List.all_cons]
    rw [h a (by simp), ih (fun x hx => h x (by simp [hx]))]

theorem zeroWires_nil_ok (r : List Bool) (zs : List Nat) (h : zeroWires [] r = some zs) : zs = [] := by
  induction r with
  | nil => simpa [zeroWires] using h.symm
  | cons v r ih =>
    cases v
    · simp [zeroWires] at h
    · simp only [zeroWires, if_true] at h; exact ih h

theorem ctrlOk_allOnes_nil (cw : List Nat) (b : Bits) :
    ctrlOk (allOnes cw) b = ctrlOk (litsOf cw []) b := by
  induction cw with
  | nil => rfl
  | cons c cw ih =>
    simp only [allOnes, List.map_cons, litsOf, ctrlOk, List.all_cons] at *
    rw [ih]

/-- What `zeroWires` returns: a duplicate-free sub-collection of the controls such that flipping
it turns "all ones" into "read the pattern". -/
theorem zeroWires_spec (cw : List Nat) (r : List Bool) (zs : List Nat) (hn : cw.Nodup)
    (h : zeroWires cw r = some zs) :
    (∀ z ∈ zs, z ∈ cw) ∧ zs.Nodup ∧
      ∀ b, ctrlOk (allOnes cw) (flipSet zs b) = ctrlOk (litsOf cw r) b := by
  induction cw generalizing r zs with
  | nil =>
    have := zeroWires_nil_ok r zs (by simpa using h)
    subst this
    refine ⟨by simp, by simp, fun b => ?_⟩
    simp [allOnes, litsOf, ctrlOk]
  | cons c cw ih =>
    have hc : c ∉ cw := (List.nodup_cons.mp hn).1
    have hn' : cw.Nodup := (List.nodup_cons.mp hn).2
    cases r with
    | nil =>
      simp only [zeroWires, Option.some.injEq] at h
      subst h
      refine ⟨by simp, by simp, fun b => ?_⟩
      rw [flipSet_nil]; exact ctrlOk_allOnes_nil (c :: cw) b
    | cons v r =>
      simp only [zeroWires, Option.map_eq_some_iff] at h
      obtain ⟨zs', h', rfl⟩ := h
      obtain ⟨hsub, hnd, hb⟩ := ih r zs' hn' h'
      have hcz : c ∉ zs' := fun hm => hc (hsub c hm)
      cases v
      · -- '0': an x on `c`
        refine ⟨?_, ?_, fun b => ?_⟩
        · intro z hz
          simp only [Bool.false_eq_true, if_false, List.mem_cons] at hz ⊢
          rcases hz with rfl | hz
          · exact Or.inl rfl
          · exact Or.inr (hsub z hz)
        · simpa using ⟨hcz, hnd⟩
        · have hrest : ctrlOk (allOnes cw) (flipSet (c :: zs') b) = ctrlOk (allOnes cw) (flipSet zs' b) := by
            unfold ctrlOk allOnes
            rw [List.all_map, List.all_map]
            apply all_congr_mem
            intro x hx
            have hxc : x ≠ c := fun e => hc (e ▸ hx)
            simp [flipSet, hxc]
          have hhead : flipSet (c :: zs') b c = !b c := by simp [flipSet]
          simp only [Bool.false_eq_true, if_false]
          simp only [allOnes, List.map_cons, litsOf, ctrlOk, List.all_cons] at hrest hb ⊢
          rw [hrest, hb b, hhead]
          cases b c <;> simp
      · refine ⟨?_, ?_, fun b => ?_⟩
        · intro z hz
          simp only [if_true] at hz
          exact List.mem_cons_of_mem _ (hsub z hz)
        · simpa using hnd
        · simp only [if_true]
          have hhead : flipSet zs' b c = b c := flipSet_get_of_not_mem zs' b hcz
          simp only [allOnes, List.map_cons, litsOf, ctrlOk, List.all_cons] at hb ⊢
          rw [hb b, hhead]

/-- **`apply_ctrl_state`, amplitude-function semantics.**  For duplicate-free controls `cw`, a
target outside them, any pattern (reversed string `r`) the code accepts, and any 2×2 matrix `m`:
the X layer, the all-ones multi-controlled `m`, the X layer again = the gate controlled on the
pattern.  Holds for every state `ψ`. -/
theorem ctrl_state_conj (cw : List Nat) (r : List Bool) (zs : List Nat) (hn : cw.Nodup)
    (h : zeroWires cw r = some zs) (m : Mat2 R) (t : Nat) (ht : t ∉ cw) (ψ : State R) :
    xLayer zs (applyMcu (allOnes cw) m t (xLayer zs ψ)) = applyMcu (litsOf cw r) m t ψ := by
  obtain ⟨hsub, hnd, hb⟩ := zeroWires_spec cw r zs hn h
  have htz : t ∉ zs := fun hm => ht (hsub t hm)
  rw [xLayer_eq zs hnd, xLayer_eq zs hnd]
  exact conj_flipSet zs (allOnes cw) (litsOf cw r) m t htz hb ψ

end Qclib.Mcsu
