import QclibModel.Spec.Ucg
import Mathlib.Tactic.Ring
import Mathlib.Tactic.FieldSimp
import Mathlib.Tactic.LinearCombination
/-
  C12 / C01(c): algebra of the level operators of `UCGInitialize._build_multiplexor`.
-/
namespace Qclib.Ucg

variable {K : Type} [Field K] [StarRing K]

/-- unitarity of a 2×2 matrix, entrywise (`M M† = 1` and `M† M = 1`). -/
def IsUnitary2 (m : Mat2 K) : Prop :=
  m.a * star m.a + m.b * star m.b = 1 ∧ m.c * star m.c + m.d * star m.d = 1 ∧
  m.a * star m.c + m.b * star m.d = 0 ∧ m.c * star m.a + m.d * star m.b = 0 ∧
  star m.a * m.a + star m.c * m.c = 1 ∧ star m.b * m.b + star m.d * m.d = 1 ∧
  star m.a * m.b + star m.c * m.d = 0 ∧ star m.b * m.a + star m.d * m.c = 0

/-- `m` sends the column `(x0, x1)` to `p·e_bit`. -/
def SendsTo (m : Mat2 K) (x0 x1 p : K) (bit : Bool) : Prop :=
  if bit then m.a * x0 + m.b * x1 = 0 ∧ m.c * x0 + m.d * x1 = p
  else m.a * x0 + m.b * x1 = p ∧ m.c * x0 + m.d * x1 = 0

theorem isUnitary2_one : IsUnitary2 (⟨1, 0, 0, 1⟩ : Mat2 K) := by
  simp [IsUnitary2]

variable {nrm : K → K → K} {isZero : K → Bool}

theorem muxKind_identity (hz : ZeroSpec isZero) (c0 p : K) (hp : p = 0) :
    muxKind (ringOps K nrm isZero) c0 p = .identity := by
  simp [muxKind, ringOps, (hz p).2 hp]

theorem muxKind_diagonal (hz : ZeroSpec isZero) (c0 p : K) (hp : p ≠ 0) (h0 : c0 = 0) :
    muxKind (ringOps K nrm isZero) c0 p = .diagonal := by
  have h1 : isZero p = false := by
    cases h : isZero p
    · rfl
    · exact absurd ((hz p).1 h) hp
  have h2 : isZero (c0 / p) = true := (hz _).2 (by rw [h0, zero_div])
  simp [muxKind, ringOps, h1, h2]

theorem muxKind_branch (hz : ZeroSpec isZero) (c0 p : K) (hp : p ≠ 0) (h0 : c0 ≠ 0) :
    muxKind (ringOps K nrm isZero) c0 p = .branch := by
  have h1 : isZero p = false := by
    cases h : isZero p
    · rfl
    · exact absurd ((hz p).1 h) hp
  have h2 : isZero (c0 / p) = false := by
    cases h : isZero (c0 / p)
    · rfl
    · exact absurd ((hz _).1 h) (div_ne_zero h0 hp)
  simp [muxKind, ringOps, h1, h2]

/-- the three shapes the entry can take. -/
theorem muxEntry_cases (hz : ZeroSpec isZero) (bit : Bool) (c0 c1 p : K) :
    (p = 0 ∧ muxEntry (ringOps K nrm isZero) bit c0 c1 p = ⟨1, 0, 0, 1⟩) ∨
    (p ≠ 0 ∧ c0 = 0 ∧ muxEntry (ringOps K nrm isZero) bit c0 c1 p
        = if bit then ⟨1, 0, 0, star (c1 / p)⟩ else ⟨0, star (c1 / p), 1, 0⟩) ∨
    (p ≠ 0 ∧ c0 ≠ 0 ∧ muxEntry (ringOps K nrm isZero) bit c0 c1 p
        = if bit then ⟨-(c1 / p), c0 / p, star (c0 / p), star (c1 / p)⟩
          else ⟨star (c0 / p), star (c1 / p), -(c1 / p), c0 / p⟩) := by
  by_cases hp : p = 0
  · left
    refine ⟨hp, ?_⟩
    rw [muxEntry, muxKind_identity hz c0 p hp]
    simp [eye, ringOps]
  · right
    by_cases h0 : c0 = 0
    · left
      refine ⟨hp, h0, ?_⟩
      rw [muxEntry, muxKind_diagonal hz c0 p hp h0]
      cases bit <;> simp [diagOp, conjT, ringOps]
    · right
      refine ⟨hp, h0, ?_⟩
      rw [muxEntry, muxKind_branch hz c0 p hp h0]
      cases bit <;> simp [branchOp, conjT, ringOps]

end Qclib.Ucg

namespace Qclib.Ucg
variable {K : Type} [Field K] [StarRing K] {nrm : K → K → K} {isZero : K → Bool}

/-- the normalised pair has unit norm. -/
theorem normalised_unit (hN : NrmSpec nrm) (c0 c1 : K) (hp : nrm c0 c1 ≠ 0) :
    (c0 / nrm c0 c1) * star (c0 / nrm c0 c1) + (c1 / nrm c0 c1) * star (c1 / nrm c0 c1) = 1 := by
  have h := hN.sq c0 c1
  rw [star_div₀, star_div₀, hN.real]
  field_simp
  linear_combination (-1 : K) * h

theorem unitary_of_unit_branch (a0 a1 : K) (h : a0 * star a0 + a1 * star a1 = 1) (bit : Bool) :
    IsUnitary2 (if bit then (⟨-a1, a0, star a0, star a1⟩ : Mat2 K) else ⟨star a0, star a1, -a1, a0⟩) := by
  cases bit <;> simp only [IsUnitary2, star_star, star_neg, Bool.false_eq_true, if_false, if_true] <;>
    refine ⟨?_, ?_, ?_, ?_, ?_, ?_, ?_, ?_⟩ <;> first | linear_combination h | ring

theorem unitary_of_unit_diag (u : K) (h : u * star u = 1) (bit : Bool) :
    IsUnitary2 (if bit then (⟨1, 0, 0, star u⟩ : Mat2 K) else ⟨0, star u, 1, 0⟩) := by
  cases bit <;> simp only [IsUnitary2, star_star, star_zero, star_one, Bool.false_eq_true, if_false, if_true] <;>
    refine ⟨?_, ?_, ?_, ?_, ?_, ?_, ?_, ?_⟩ <;> first | linear_combination h | ring

/-- **Level lemma.**  For any sibling pair `(c0, c1)` with parent amplitude `p = nrm c0 c1`, the
entry `_build_multiplexor` takes (branch, diagonal or identity — decided by the code's own zero
tests) is unitary and sends the pair to `p · e_bit`. -/
theorem muxEntry_level (hN : NrmSpec nrm) (hz : ZeroSpec isZero) (bit : Bool) (c0 c1 : K) :
    IsUnitary2 (muxEntry (ringOps K nrm isZero) bit c0 c1 (nrm c0 c1)) ∧
    SendsTo (muxEntry (ringOps K nrm isZero) bit c0 c1 (nrm c0 c1)) c0 c1 (nrm c0 c1) bit := by
  rcases muxEntry_cases (nrm := nrm) hz bit c0 c1 (nrm c0 c1) with ⟨hp, hm⟩ | ⟨hp, h0, hm⟩ | ⟨hp, h0, hm⟩
  · obtain ⟨z0, z1⟩ := hN.zero c0 c1 hp
    rw [hm, hp, z0, z1]
    refine ⟨isUnitary2_one, ?_⟩
    cases bit <;> simp [SendsTo]
  · have hu := normalised_unit hN c0 c1 hp
    have e1 : c1 = (c1 / nrm c0 c1) * nrm c0 c1 := by field_simp
    rw [hm]
    generalize nrm c0 c1 = p at *
    subst h0
    generalize c1 / p = u at *
    simp only [zero_div, star_zero, mul_zero, zero_add] at hu
    refine ⟨unitary_of_unit_diag u hu bit, ?_⟩
    cases bit <;> simp only [SendsTo, Bool.false_eq_true, if_false, if_true] <;>
      refine ⟨?_, ?_⟩ <;> rw [e1] <;> first | linear_combination p * hu | ring
  · have hu := normalised_unit hN c0 c1 hp
    have e0 : c0 = (c0 / nrm c0 c1) * nrm c0 c1 := by field_simp
    have e1 : c1 = (c1 / nrm c0 c1) * nrm c0 c1 := by field_simp
    rw [hm]
    generalize nrm c0 c1 = p at *
    generalize ha0 : c0 / p = a0 at *
    generalize ha1 : c1 / p = a1 at *
    refine ⟨unitary_of_unit_branch a0 a1 hu bit, ?_⟩
    cases bit <;> simp only [SendsTo, Bool.false_eq_true, if_false, if_true] <;>
      refine ⟨?_, ?_⟩ <;> rw [e0, e1] <;> first | linear_combination p * hu | ring

end Qclib.Ucg
