import QclibModel.Proofs.QrFullAmp
import QclibModel.Proofs.QrFullResidual
import Mathlib.Data.List.Forall2
import Mathlib.Algebra.BigOperators.Ring.Finset
/-
  C02 / QR — from the amplitude semantics of the sub-circuits (Proofs/QrFullAmp.lean) to the matrix
  product of the sweep (Proofs/QrFullSweep.lean): a matrix over `Fin (2^n)` acts on amplitude
  functions `Bits → ℂ` through the `n` low wires (`actMat`); the sub-circuit of a located two-level
  matrix denotes it; sub-circuits composed in list order denote `circuitOp`.
-/
namespace Qclib.QrFull
open Qclib Qclib.Uni Matrix

variable {n : ℕ}

/-- the number read on the `n` low wires. -/
def idx (n : ℕ) (b : Bits) : Fin (2 ^ n) :=
  ⟨Nat.ofBits (fun i : Fin n => b i), Nat.ofBits_lt_two_pow _⟩

theorem idx_testBit (b : Bits) {q : ℕ} (hq : q < n) : (idx n b).val.testBit q = b q := by
  simp [idx, Nat.testBit_ofBits_lt _ _ hq]

theorem reads_idx {k : ℕ} (hk : k < 2 ^ n) (b : Bits) :
    Reads (bitsLE n k) b ↔ (idx n b).val = k := by
  rw [reads_iff]
  constructor
  · intro h
    have : (fun i : Fin n => b i) = fun i : Fin n => k.testBit i := by
      funext i; exact h i i.isLt
    simp only [idx, this, Nat.ofBits_testBit]
    exact Nat.mod_eq_of_lt hk
  · intro h q hq
    rw [← h, idx_testBit b hq]

theorem reads_idx_fin (k : Fin (2 ^ n)) (b : Bits) : Reads (bitsLE n k.val) b ↔ idx n b = k := by
  rw [reads_idx k.isLt, Fin.ext_iff]

theorem idx_relabel (k : Fin (2 ^ n)) (b : Bits) : idx n (relabel n k.val b) = k :=
  (reads_idx_fin k _).1 (reads_relabel n k.val b)

theorem relabel_idx (b : Bits) : relabel n (idx n b).val b = b :=
  relabel_of_reads ((reads_idx_fin (idx n b) b).2 rfl)

theorem relabel_relabel (k k' : ℕ) (b : Bits) : relabel n k (relabel n k' b) = relabel n k b := by
  funext q
  by_cases hq : q < n <;> simp [relabel, hq]

/-- a matrix over `Fin (2^n)` acting on the `n` low wires of an amplitude function. -/
def actMat (A : Mat (2 ^ n)) (ψ : Bits → ℂ) : Bits → ℂ :=
  fun b => ∑ k : Fin (2 ^ n), A (idx n b) k * ψ (relabel n k.val b)

theorem actMat_mul (A B : Mat (2 ^ n)) (ψ : Bits → ℂ) :
    actMat (A * B) ψ = actMat A (actMat B ψ) := by
  funext b
  simp only [actMat, Matrix.mul_apply, idx_relabel, relabel_relabel, Finset.sum_mul,
    Finset.mul_sum]
  rw [Finset.sum_comm]
  apply Finset.sum_congr rfl; intro k _
  apply Finset.sum_congr rfl; intro l _
  ring

theorem actMat_one (ψ : Bits → ℂ) : actMat (1 : Mat (2 ^ n)) ψ = ψ := by
  funext b
  simp only [actMat, Matrix.one_apply]
  rw [Finset.sum_eq_single (idx n b)]
  · simp [relabel_idx]
  · intro k _ hk; simp [Ne.symm hk]
  · intro h; exact absurd (Finset.mem_univ _) h

/-- the action of a two-level matrix, label by label. -/
theorem actMat_twoLevel {c r : Fin (2 ^ n)} (hcr : c ≠ r) (p q s t : ℂ) (ψ : Bits → ℂ) (b : Bits) :
    actMat (twoLevel c r p q s t) ψ b =
      if Reads (bitsLE n r.val) b then s * ψ (relabel n c.val b) + t * ψ b
      else if Reads (bitsLE n c.val) b then p * ψ b + q * ψ (relabel n r.val b)
      else ψ b := by
  have h := twoLevel_mul_apply hcr p q s t
    (Matrix.of fun (k : Fin (2 ^ n)) (_ : Fin (2 ^ n)) => ψ (relabel n k.val b)) (idx n b) (idx n b)
  rw [Matrix.mul_apply] at h
  simp only [Matrix.of_apply] at h
  show (∑ k : Fin (2 ^ n), twoLevel c r p q s t (idx n b) k * ψ (relabel n k.val b)) = _
  rw [h]
  by_cases h1 : idx n b = r
  · rw [if_pos h1, if_pos ((reads_idx_fin r b).2 h1)]
    rw [← h1, relabel_idx]
  · rw [if_neg h1, if_neg (fun hh => h1 ((reads_idx_fin r b).1 hh))]
    by_cases h2 : idx n b = c
    · rw [if_pos h2, if_pos ((reads_idx_fin c b).2 h2)]
      rw [← h2, relabel_idx]
    · rw [if_neg h2, if_neg (fun hh => h2 ((reads_idx_fin c b).1 hh)), relabel_idx]

/-! ### stages of `_build_qr_circuit` -/

/-- one iteration of `for matrix_rotation in gate_sequence`: the gate list and the block of its
MCMT. -/
abbrev Stage := List QG × Blk ℂ

/-- the stage for a matrix located at `(row, col)`: `qrRotation` (Model/Unitary.lean) with the
block `[[G[col,col], G[col,row]], [G[row,col], G[row,row]]]`. -/
noncomputable def stageAt (G : Mat (2 ^ n)) (row col : Fin (2 ^ n)) : Option Stage :=
  (qrRotation n row.val col.val).map (fun L => (L, ⟨G col col, G col row, G row col, G row row⟩))

/-- the stage the code builds for `G` (as repaired): locate with `_get_row_col` (`none` =
`ValueError`), then `stageAt`. -/
noncomputable def codeStage (G : Mat (2 ^ n)) : Option Stage :=
  (getRowCol G).bind (fun p =>
    if h : p.1 < 2 ^ n ∧ p.2 < 2 ^ n then stageAt G ⟨p.1, h.1⟩ ⟨p.2, h.2⟩ else none)

/-- the stage the code built BEFORE the repair: `none` where `_get_row_col` raised. -/
noncomputable def codeStageOld (G : Mat (2 ^ n)) : Option Stage :=
  (getRowColOld G).bind (fun p => stageAt G p.1 p.2)

theorem codeStage_of_loc (G : Mat (2 ^ n)) {row col : Fin (2 ^ n)}
    (h : getRowCol G = some (row.val, col.val)) : codeStage G = stageAt G row col := by
  unfold codeStage
  rw [h, Option.bind_some, dif_pos ⟨row.isLt, col.isLt⟩]

/-- the whole circuit: stages in list order. -/
def circSem (sts : List Stage) (ψ : Bits → ℂ) : Bits → ℂ :=
  sts.foldl (fun ψ st => ampSem st.2 st.1 ψ) ψ

/-- `stageAt` never fails for `col < row` and its sub-circuit denotes the re-embedded block. -/
theorem stageAt_denotes (G : Mat (2 ^ n)) {row col : Fin (2 ^ n)} (hlt : col < row) :
    ∃ st, stageAt G row col = some st ∧
      ∀ ψ, ampSem st.2 st.1 ψ = actMat (embedBlock G col row) ψ := by
  have hlt' : col.val < row.val := hlt
  obtain ⟨_, L, hL⟩ := qr_walk_total row.isLt col.isLt (by omega : row.val ≠ col.val)
  refine ⟨(L, ⟨G col col, G col row, G row col, G row row⟩), by simp [stageAt, hL], ?_⟩
  intro ψ
  funext b
  rw [rotation_amp row.isLt hlt' hL, embedBlock, actMat_twoLevel (ne_of_lt hlt)]

theorem circSem_denotes (sts : List Stage) (Gs : List (Mat (2 ^ n)))
    (h : List.Forall₂ (fun (st : Stage) G => ∀ ψ, ampSem st.2 st.1 ψ = actMat G ψ) sts Gs)
    (ψ : Bits → ℂ) : circSem sts ψ = actMat (circuitOp Gs) ψ := by
  induction h generalizing ψ with
  | nil => simp [circSem, circuitOp, actMat_one]
  | cons hst _ ih =>
    show circSem _ (ampSem _ _ ψ) = _
    rw [ih, hst, circuitOp_cons, actMat_mul]

/-- every iteration's `b` is neither `0` nor `1` (so `_get_row_col` locates every rotation). -/
def SweepLoc {N : ℕ} (ps : List (Fin N × Fin N)) (M : Mat N) : Prop :=
  SweepAll (fun M c r => gB M c r ≠ 0 ∧ gB M c r ≠ 1) ps M

theorem factors_stages (ps : List (Fin (2 ^ n) × Fin (2 ^ n))) (hps : ∀ p ∈ ps, p.1 < p.2)
    (M : Mat (2 ^ n)) (hloc : SweepLoc ps M) :
    ∃ sts : List Stage, List.Forall₂ (fun (st : Stage) G => codeStage G = some st ∧
      ∀ ψ, ampSem st.2 st.1 ψ = actMat G ψ) sts (factors ps M) := by
  induction ps generalizing M with
  | nil => exact ⟨[], List.Forall₂.nil⟩
  | cons p ps ih =>
    obtain ⟨⟨h0, h1⟩, h2⟩ := hloc
    have hp := hps p List.mem_cons_self
    obtain ⟨sts, hsts⟩ := ih (fun q hq => hps q (List.mem_cons_of_mem _ hq)) _ h2
    obtain ⟨hg, he⟩ := getRowCol_factor M hp h0 h1
    obtain ⟨st, hst, hden⟩ := stageAt_denotes (givens M p.1 p.2)ᴴ hp
    refine ⟨st :: sts, List.Forall₂.cons ⟨?_, ?_⟩ hsts⟩
    · rw [codeStage_of_loc _ hg, hst]
    · intro ψ
      rw [hden, ← embedAt_fin]
      have : codeMatrix (givens M p.1 p.2)ᴴ = some (embedAt (givens M p.1 p.2)ᴴ p.1.val p.2.val) := by
        rw [codeMatrix, hg]; rfl
      rw [he] at this
      rw [← Option.some.inj this]

theorem factors_codeMatrix {N : ℕ} (ps : List (Fin N × Fin N)) (hps : ∀ p ∈ ps, p.1 < p.2)
    (M : Mat N) (hloc : SweepLoc ps M) :
    (factors ps M).map codeMatrix = (factors ps M).map some := by
  induction ps generalizing M with
  | nil => rfl
  | cons p ps ih =>
    obtain ⟨⟨h0, h1⟩, h2⟩ := hloc
    simp only [factors, List.map_cons]
    rw [(getRowCol_factor M (hps p List.mem_cons_self) h0 h1).2,
      ih (fun q hq => hps q (List.mem_cons_of_mem _ hq)) _ h2]

/-- the residual `diag(1, …, 1, z)` gets the stage of the last two levels, which denotes it. -/
theorem diag_stage (hn : 1 ≤ n) (G : Mat (2 ^ n)) (hid : IdButLast G) :
    ∃ st, codeStage G = some st ∧ ∀ ψ, ampSem st.2 st.1 ψ = actMat G ψ := by
  have hN : 2 ≤ 2 ^ n := by
    calc 2 = 2 ^ 1 := rfl
      _ ≤ 2 ^ n := Nat.pow_le_pow_right (by omega) hn
  obtain ⟨hloc, hcm⟩ := codeMatrix_diag hN G hid
  let row : Fin (2 ^ n) := ⟨2 ^ n - 1, by omega⟩
  let col : Fin (2 ^ n) := ⟨2 ^ n - 2, by omega⟩
  have hlt : col < row := by
    show (2 ^ n - 2 : ℕ) < 2 ^ n - 1
    omega
  obtain ⟨st, hst, hden⟩ := stageAt_denotes G hlt
  refine ⟨st, ?_, ?_⟩
  · rw [codeStage_of_loc G (row := row) (col := col) hloc, hst]
  · intro ψ
    rw [hden, ← embedAt_fin]
    have : codeMatrix G = some (embedAt G col.val row.val) := by rw [codeMatrix, hloc]; rfl
    rw [hcm] at this
    rw [← Option.some.inj this]

end Qclib.QrFull
