import QclibModel.Proofs.TreeSplitDefs
import Mathlib.Tactic.Ring
/-
  C11 (BdspInitialize): closed form of `top_down; bottom_up` on a tree split at level `sl`
  (complete trees), in the amplitude-function semantics.
-/
namespace Qclib
open RotSem

/-! ### Wires of split trees -/

section Wires
variable {Θ : Type} (sl : Nat)

theorem wS_lt {lvl : Nat} (h : lvl < sl) (v : QV Θ) (l r : BT (QV Θ)) :
    wiresS sl lvl (.node v l r) = wire v.q :: (wiresS sl (lvl+1) l ++ wiresS sl (lvl+1) r) := by
  simp [wiresS, h]

theorem wS_ge {lvl : Nat} (h : ¬ lvl < sl) (v : QV Θ) (l r : BT (QV Θ)) :
    wiresS sl lvl (.node v l r) = leftSpine (.node v l r) := by
  simp [wiresS, h]

theorem leftSpine_subset_wiresS : ∀ (t : BT (QV Θ)) (lvl : Nat), ∀ w ∈ leftSpine t,
    w ∈ wiresS sl lvl t
  | .nil, _, w, h => by simp [leftSpine] at h
  | .node v l r, lvl, w, h => by
    by_cases hlt : lvl < sl
    · rw [wS_lt sl hlt]
      simp only [leftSpine, List.mem_cons] at h
      rcases h with rfl | h
      · exact List.mem_cons_self ..
      · exact List.mem_cons_of_mem _ (List.mem_append_left _
          (leftSpine_subset_wiresS l (lvl+1) w h))
    · rw [wS_ge sl hlt]; exact h

theorem blockWires_sublist : ∀ (t : BT (QV Θ)) (lvl : Nat),
    (blockWires sl lvl t).Sublist (wiresS sl lvl t)
  | .nil, _ => by simp [blockWires, wiresS]
  | .node v l r, lvl => by
    by_cases hlt : lvl < sl
    · rw [wS_lt sl hlt]
      simp only [blockWires, hlt, if_true]
      exact List.Sublist.cons _ ((blockWires_sublist l (lvl+1)).append (blockWires_sublist r (lvl+1)))
    · rw [wS_ge sl hlt]
      simp only [blockWires, hlt, if_false]
      exact List.Sublist.refl _

theorem chainPairs_wS (h lvl : Nat) (l r : BT (QV Θ)) (hl : complete h l) (hr : complete h r)
    (p : Nat × Nat) (hp : p ∈ chainPairs l r) :
    p.1 ∈ wiresS sl lvl l ∧ p.2 ∈ wiresS sl lvl r := by
  obtain ⟨h1, h2⟩ := chainPairs_complete h l r hl hr
  constructor
  · apply leftSpine_subset_wiresS
    rw [← h1]; exact List.mem_map.2 ⟨p, hp, rfl⟩
  · apply leftSpine_subset_wiresS
    rw [← h2]; exact List.mem_map.2 ⟨p, hp, rfl⟩

variable (o : TOps Θ)

theorem cswapPermS_outside (h lvl : Nat) (v : QV Θ) (l r : BT (QV Θ)) (hl : complete h l)
    (hr : complete h r) (b : Bits) (w : Nat)
    (hwl : w ∉ wiresS sl lvl l) (hwr : w ∉ wiresS sl lvl r) :
    cswapPerm o (.node v l r) b w = b w := by
  simp only [cswapPerm]
  split
  · apply swapPairs_other
    intro p hp
    obtain ⟨h1, h2⟩ := chainPairs_wS sl h lvl l r hl hr p hp
    exact ⟨fun h => hwl (h ▸ h1), fun h => hwr (h ▸ h2)⟩
  · rfl

theorem cswapPermS_congr (h lvl : Nat) (v : QV Θ) (l r : BT (QV Θ)) (hl : complete h l)
    (hr : complete h r) (b b' : Bits) (hq : b (wire v.q) = b' (wire v.q))
    (hb : ∀ w, (w ∈ wiresS sl lvl l ∨ w ∈ wiresS sl lvl r) → b w = b' w) :
    ∀ w, (w ∈ wiresS sl lvl l ∨ w ∈ wiresS sl lvl r) →
      cswapPerm o (.node v l r) b w = cswapPerm o (.node v l r) b' w := by
  intro w hw
  simp only [cswapPerm, hq]
  split
  · exact swapPairs_congr (fun w => w ∈ wiresS sl lvl l ∨ w ∈ wiresS sl lvl r) _ b b'
      (fun p hp => by
        obtain ⟨h1, h2⟩ := chainPairs_wS sl h lvl l r hl hr p hp
        exact ⟨Or.inl h1, Or.inr h2⟩) hb w hw
  · exact hb w hw

end Wires

/-! ### The amplitude functions read only their wires -/

section Amp
variable {Θ R : Type} [CommRing R] [RotSem Θ R]

theorem chainAmp_congr : ∀ (ws : List Nat) (t : BT (QV Θ)) (b b' : Bits),
    (∀ w ∈ ws, b w = b' w) → (chainAmp ws t b : R) = chainAmp ws t b'
  | [], _, _, _, _ => by simp [chainAmp]
  | _ :: _, .nil, _, _, _ => by simp [chainAmp]
  | w :: ws, .node v l r, b, b', h => by
    have hw : b w = b' w := h w (List.mem_cons_self ..)
    have ht : ∀ x ∈ ws, b x = b' x := fun x hx => h x (List.mem_cons_of_mem _ hx)
    simp only [chainAmp, nodeAmpW, hw, chainAmp_congr ws l b b' ht, chainAmp_congr ws r b b' ht]

variable (sl : Nat)

theorem blockAmp_congr : ∀ (t : BT (QV Θ)) (lvl : Nat) (b b' : Bits),
    (∀ w ∈ blockWires sl lvl t, b w = b' w) → (blockAmp sl lvl t b : R) = blockAmp sl lvl t b'
  | .nil, _, _, _, _ => rfl
  | .node v l r, lvl, b, b', h => by
    by_cases hlt : lvl < sl
    · simp only [blockWires, hlt, if_true] at h
      simp only [blockAmp, hlt, if_true]
      rw [blockAmp_congr l (lvl+1) b b' (fun w hw => h w (List.mem_append_left _ hw)),
        blockAmp_congr r (lvl+1) b b' (fun w hw => h w (List.mem_append_right _ hw))]
    · simp only [blockWires, hlt, if_false] at h
      simp only [blockAmp, hlt, if_false]
      exact chainAmp_congr _ _ b b' h

variable (o : TOps Θ)

theorem treeAmpS_congr : ∀ (h lvl : Nat) (t : BT (QV Θ)), complete h t → ∀ (b b' : Bits),
    (∀ w ∈ wiresS sl lvl t, b w = b' w) → (treeAmpS o sl lvl t b : R) = treeAmpS o sl lvl t b'
  | 0, _, .nil, _, _, _, _ => rfl
  | 0, _, .node .., hc, _, _, _ => by simp [complete] at hc
  | h+1, _, .nil, hc, _, _, _ => by simp [complete] at hc
  | h+1, lvl, .node v l r, hc, b, b', hb => by
    by_cases hlt : lvl < sl
    · rw [wS_lt sl hlt] at hb
      have hq : b (wire v.q) = b' (wire v.q) := hb _ (List.mem_cons_self ..)
      have hcg := cswapPermS_congr sl o h (lvl+1) v l r hc.1 hc.2 b b' hq (fun w hw =>
        hb w (List.mem_cons_of_mem _ (by
          rcases hw with hw | hw
          · exact List.mem_append_left _ hw
          · exact List.mem_append_right _ hw)))
      simp only [treeAmpS, hlt, if_true]
      rw [treeAmpS_congr h (lvl+1) l hc.1 _ _ (fun w hw => hcg w (Or.inl hw)),
        treeAmpS_congr h (lvl+1) r hc.2 _ _ (fun w hw => hcg w (Or.inr hw))]
      simp only [nodeAmp, hq]
    · rw [wS_ge sl hlt] at hb
      simp only [treeAmpS, hlt, if_false]
      exact chainAmp_congr _ _ b b' hb

end Amp

/-! ### `bottom_up` above the split, on a state whose blocks are already prepared -/

section Closed
variable {Θ R : Type} [AddCommGroup Θ] [CommRing R] [RotSem Θ R] [RotLaws Θ R]
variable (o : TOps Θ)

theorem mem_of_sublist {l1 l2 : List Nat} (h : l1.Sublist l2) {w : Nat} (hw : w ∈ l1) : w ∈ l2 :=
  h.subset hw

/-- If the input is `blockAmp · ψ0 ∘ clr blockWires` with `ψ0` vanishing whenever a wire of the
split tree is set, then `bottom_up` produces `treeAmpS · ψ0 ∘ clr wiresS`. -/
theorem bottomUp_closedS (hnz : ∀ x, o.neZero x = false → x = 0) (sl : Nat) :
    ∀ (h lvl : Nat) (t : BT (QV Θ)), complete h t → (wiresS sl lvl t).Nodup →
    ∀ (ψ ψ0 : State R), ZeroOn (wiresS sl lvl t) ψ0 →
      (∀ b, ψ b = blockAmp sl lvl t b * ψ0 (clr (blockWires sl lvl t) b)) →
      ∀ b, sem (bottomUp o sl lvl t) ψ b = treeAmpS o sl lvl t b * ψ0 (clr (wiresS sl lvl t) b)
  | 0, _, .nil, _, _, ψ, ψ0, _, hψ, b => by
    simp [bottomUp, sem_nil, treeAmpS, wiresS, clr_nil, hψ b, blockAmp, blockWires]
  | 0, _, .node .., hc, _, _, _, _, _, _ => by simp [complete] at hc
  | h+1, _, .nil, hc, _, _, _, _, _, _ => by simp [complete] at hc
  | h+1, lvl, .node v l r, hc, hnd, ψ, ψ0, hZ, hψ, b => by
    by_cases hlt : lvl < sl
    · -- a node above the split
      rw [wS_lt sl hlt] at hnd hZ ⊢
      obtain ⟨hq, hlr⟩ := List.nodup_cons.1 hnd
      obtain ⟨hndl, hndr, hdisj⟩ := List.nodup_append.1 hlr
      have hql : wire v.q ∉ wiresS sl (lvl+1) l := fun h => hq (List.mem_append_left _ h)
      have hqr : wire v.q ∉ wiresS sl (lvl+1) r := fun h => hq (List.mem_append_right _ h)
      have hdis : ∀ w, w ∈ wiresS sl (lvl+1) l → w ∉ wiresS sl (lvl+1) r :=
        fun w h1 h2 => hdisj w h1 w h2 rfl
      have hBl := blockWires_sublist sl l (lvl+1)
      have hBr := blockWires_sublist sl r (lvl+1)
      have hqBl : wire v.q ∉ blockWires sl (lvl+1) l := fun h => hql (hBl.subset h)
      have hqBr : wire v.q ∉ blockWires sl (lvl+1) r := fun h => hqr (hBr.subset h)
      have hψ' : ∀ b, ψ b = blockAmp sl (lvl+1) l b * blockAmp sl (lvl+1) r b
          * ψ0 (clr (blockWires sl (lvl+1) l ++ blockWires sl (lvl+1) r) b) := by
        intro b; rw [hψ b]; simp only [blockAmp, blockWires, hlt, if_true]
      -- rotations of the node
      have hzq : ∀ b, b (wire v.q) = true → ψ b = 0 := by
        intro b hb
        rw [hψ' b, hZ _ ⟨wire v.q, List.mem_cons_self .., by
          rw [clr_not_mem _ _ (by
            simp only [List.mem_append]; exact fun h => h.elim hqBl hqBr)]; exact hb⟩, mul_zero]
      have h1 := sem_nodeRots (R := R) o hnz v ψ hzq
      -- the left child
      let ψ0l : State R := fun b => nodeAmp v b * blockAmp sl (lvl+1) r b
        * ψ0 (clr (blockWires sl (lvl+1) r) (setBit b (wire v.q) false))
      have hZl : ZeroOn (wiresS sl (lvl+1) l) ψ0l := by
        intro b ⟨w, hw, hbw⟩
        show nodeAmp v b * blockAmp sl (lvl+1) r b * ψ0 _ = 0
        rw [hZ _ ⟨w, List.mem_cons_of_mem _ (List.mem_append_left _ hw), by
          rw [clr_not_mem _ _ (fun h => hdis w hw (hBr.subset h)),
            setBit_ne _ _ (fun (h : w = wire v.q) => hql (h ▸ hw))]; exact hbw⟩, mul_zero]
      have hψl : ∀ b, sem (nodeRots o v) ψ b
          = blockAmp sl (lvl+1) l b * ψ0l (clr (blockWires sl (lvl+1) l) b) := by
        intro b
        rw [h1 b, hψ' _]
        show _ = blockAmp sl (lvl+1) l b * (nodeAmp v _ * blockAmp sl (lvl+1) r _ * ψ0 _)
        have e1 : (blockAmp sl (lvl+1) l (setBit b (wire v.q) false) : R) = blockAmp sl (lvl+1) l b :=
          blockAmp_congr sl l _ _ _ (fun w hw =>
            setBit_ne _ _ (fun (h : w = wire v.q) => hqBl (h ▸ hw)))
        have e2 : (blockAmp sl (lvl+1) r (setBit b (wire v.q) false) : R)
            = blockAmp sl (lvl+1) r (clr (blockWires sl (lvl+1) l) b) :=
          blockAmp_congr sl r _ _ _ (fun w hw => by
            rw [setBit_ne _ _ (fun (h : w = wire v.q) => hqBr (h ▸ hw)),
              clr_not_mem _ _ (fun h => hdis w (hBl.subset h) (hBr.subset hw))])
        have e3 : (nodeAmp v (clr (blockWires sl (lvl+1) l) b) : R) = nodeAmp v b := by
          simp only [nodeAmp]; rw [clr_not_mem _ _ hqBl]
        have e4 : clr (blockWires sl (lvl+1) l ++ blockWires sl (lvl+1) r) (setBit b (wire v.q) false)
            = clr (blockWires sl (lvl+1) r)
                (setBit (clr (blockWires sl (lvl+1) l) b) (wire v.q) false) := by
          funext i
          by_cases hir : i ∈ blockWires sl (lvl+1) r
          · rw [clr_mem _ _ hir, clr_mem _ _ (List.mem_append_right _ hir)]
          · rw [clr_not_mem _ _ hir]
            by_cases hi : i = wire v.q
            · subst hi
              rw [setBit_eq, clr_not_mem _ _ (by
                simp only [List.mem_append]; exact fun h => h.elim hqBl hqBr), setBit_eq]
            · rw [setBit_ne _ _ hi]
              by_cases hil : i ∈ blockWires sl (lvl+1) l
              · rw [clr_mem _ _ hil, clr_mem _ _ (List.mem_append_left _ hil)]
              · rw [clr_not_mem _ _ hil, clr_not_mem _ _ (by
                  simp only [List.mem_append]; exact fun h => h.elim hil hir), setBit_ne _ _ hi]
        rw [e1, e2, e3, e4]; ring
      have h2 := bottomUp_closedS hnz sl h (lvl+1) l hc.1 hndl _ ψ0l hZl hψl
      -- the right child
      let ψ0r : State R := fun b => treeAmpS o sl (lvl+1) l b * nodeAmp v b
        * ψ0 (setBit (clr (wiresS sl (lvl+1) l) b) (wire v.q) false)
      have hZr : ZeroOn (wiresS sl (lvl+1) r) ψ0r := by
        intro b ⟨w, hw, hbw⟩
        show treeAmpS o sl (lvl+1) l b * nodeAmp v b * ψ0 _ = 0
        rw [hZ _ ⟨w, List.mem_cons_of_mem _ (List.mem_append_right _ hw), by
          rw [setBit_ne _ _ (fun (h : w = wire v.q) => hqr (h ▸ hw)),
            clr_not_mem _ _ (fun h => hdis w h hw)]; exact hbw⟩, mul_zero]
      have hψr : ∀ b, sem (bottomUp o sl (lvl+1) l) (sem (nodeRots o v) ψ) b
          = blockAmp sl (lvl+1) r b * ψ0r (clr (blockWires sl (lvl+1) r) b) := by
        intro b
        rw [h2 b]
        show treeAmpS o sl (lvl+1) l b * (nodeAmp v _ * blockAmp sl (lvl+1) r _ * ψ0 _)
          = blockAmp sl (lvl+1) r b * (treeAmpS o sl (lvl+1) l _ * nodeAmp v _ * ψ0 _)
        have e1 : (treeAmpS o sl (lvl+1) l (clr (blockWires sl (lvl+1) r) b) : R)
            = treeAmpS o sl (lvl+1) l b :=
          treeAmpS_congr sl o h (lvl+1) l hc.1 _ _ (fun w hw =>
            clr_not_mem _ _ (fun h => hdis w hw (hBr.subset h)))
        have e2 : (nodeAmp v (clr (wiresS sl (lvl+1) l) b) : R) = nodeAmp v b := by
          simp only [nodeAmp]; rw [clr_not_mem _ _ hql]
        have e2' : (nodeAmp v (clr (blockWires sl (lvl+1) r) b) : R) = nodeAmp v b := by
          simp only [nodeAmp]; rw [clr_not_mem _ _ hqBr]
        have e3 : (blockAmp sl (lvl+1) r (clr (wiresS sl (lvl+1) l) b) : R)
            = blockAmp sl (lvl+1) r b :=
          blockAmp_congr sl r _ _ _ (fun w hw =>
            clr_not_mem _ _ (fun h => hdis w h (hBr.subset hw)))
        have e4 : clr (blockWires sl (lvl+1) r)
              (setBit (clr (wiresS sl (lvl+1) l) b) (wire v.q) false)
            = setBit (clr (wiresS sl (lvl+1) l) (clr (blockWires sl (lvl+1) r) b))
                (wire v.q) false := by
          funext i
          by_cases hi : i = wire v.q
          · subst hi
            rw [setBit_eq, clr_not_mem _ _ hqBr, setBit_eq]
          · rw [setBit_ne _ _ hi]
            by_cases hir : i ∈ blockWires sl (lvl+1) r
            · rw [clr_mem _ _ hir, clr_not_mem _ _ (fun h => hdis i h (hBr.subset hir)),
                clr_mem _ _ hir]
            · rw [clr_not_mem _ _ hir, setBit_ne _ _ hi]
              by_cases hil : i ∈ wiresS sl (lvl+1) l
              · rw [clr_mem _ _ hil, clr_mem _ _ hil]
              · rw [clr_not_mem _ _ hil, clr_not_mem _ _ hil, clr_not_mem _ _ hir]
        rw [e1, e2, e2', e3, e4]; ring
      have h3 := bottomUp_closedS hnz sl h (lvl+1) r hc.2 hndr _ ψ0r hZr hψr
      -- the swap network
      have hcp : ∀ p ∈ chainPairs l r, p.1 ≠ wire v.q ∧ p.2 ≠ wire v.q := by
        intro p hp
        obtain ⟨p1, p2⟩ := chainPairs_wS sl h (lvl+1) l r hc.1 hc.2 p hp
        exact ⟨fun h => hql (h ▸ p1), fun h => hqr (h ▸ p2)⟩
      simp only [bottomUp, hlt, if_true, sem_append]
      rw [sem_applyCswaps o v l r hcp, h3]
      let π := cswapPerm o (.node v l r) b
      have hπq : π (wire v.q) = b (wire v.q) :=
        cswapPermS_outside sl o h (lvl+1) v l r hc.1 hc.2 b _ hql hqr
      have e1 : (treeAmpS o sl (lvl+1) l (clr (wiresS sl (lvl+1) r) π) : R)
          = treeAmpS o sl (lvl+1) l π :=
        treeAmpS_congr sl o h (lvl+1) l hc.1 _ _ (fun w hw => clr_not_mem _ _ (hdis w hw))
      have e2 : (nodeAmp v (clr (wiresS sl (lvl+1) r) π) : R) = nodeAmp v b := by
        simp only [nodeAmp]; rw [clr_not_mem _ _ hqr, hπq]
      have e3 : setBit (clr (wiresS sl (lvl+1) l) (clr (wiresS sl (lvl+1) r) π)) (wire v.q) false
          = clr (wire v.q :: (wiresS sl (lvl+1) l ++ wiresS sl (lvl+1) r)) b := by
        funext i
        by_cases hi : i = wire v.q
        · subst hi; rw [setBit_eq, clr_mem _ _ (List.mem_cons_self ..)]
        · rw [setBit_ne _ _ hi]
          by_cases hil : i ∈ wiresS sl (lvl+1) l
          · rw [clr_mem _ _ hil,
              clr_mem _ _ (List.mem_cons_of_mem _ (List.mem_append_left _ hil))]
          · rw [clr_not_mem _ _ hil]
            by_cases hir : i ∈ wiresS sl (lvl+1) r
            · rw [clr_mem _ _ hir,
                clr_mem _ _ (List.mem_cons_of_mem _ (List.mem_append_right _ hir))]
            · rw [clr_not_mem _ _ hir, clr_not_mem _ _ (by
                simp only [List.mem_cons, List.mem_append]; tauto)]
              exact cswapPermS_outside sl o h (lvl+1) v l r hc.1 hc.2 b i hil hir
      show treeAmpS o sl (lvl+1) r π * (treeAmpS o sl (lvl+1) l (clr (wiresS sl (lvl+1) r) π)
          * nodeAmp v (clr (wiresS sl (lvl+1) r) π)
          * ψ0 (setBit (clr (wiresS sl (lvl+1) l) (clr (wiresS sl (lvl+1) r) π)) (wire v.q) false))
        = _
      rw [e1, e2, e3]
      simp only [treeAmpS, hlt, if_true]
      ring
    · -- a chain block: `bottom_up` does nothing
      rw [wS_ge sl hlt]
      simp only [bottomUp, hlt, if_false, sem_nil, treeAmpS]
      rw [hψ b]
      simp only [blockAmp, blockWires, hlt, if_false]

#print axioms bottomUp_closedS

/-- What `top_down` must achieve on one chain block (proved in Proofs/TreeChain.lean from the
multiplexer theorem): starting with the chain wires in `|0⟩` it prepares `chainAmp`. -/
def ChainSem (o : TOps Θ) (R : Type) [CommRing R] [RotSem Θ R] : Prop :=
  ∀ (h : Nat) (t : BT (QV Θ)), complete h t → (leftSpine t).Nodup →
    ∀ (ψ0 : State R), ZeroOn (leftSpine t) ψ0 → ∀ b,
      sem (topDownChain o t [] [t]) ψ0 b = chainAmp (leftSpine t) t b * ψ0 (clr (leftSpine t) b)

/-- `top_down` on a split tree prepares every block. -/
theorem topDown_sem (hT : ChainSem o R) (sl : Nat) :
    ∀ (h lvl : Nat) (t : BT (QV Θ)), complete h t → (blockWires sl lvl t).Nodup →
    ∀ (ψ0 : State R), ZeroOn (blockWires sl lvl t) ψ0 → ∀ b,
      sem (topDown o sl lvl t) ψ0 b = blockAmp sl lvl t b * ψ0 (clr (blockWires sl lvl t) b)
  | 0, _, .nil, _, _, ψ0, _, b => by
    simp [topDown, sem_nil, blockAmp, blockWires, clr_nil]
  | 0, _, .node .., hc, _, _, _, _ => by simp [complete] at hc
  | h+1, _, .nil, hc, _, _, _, _ => by simp [complete] at hc
  | h+1, lvl, .node v l r, hc, hnd, ψ0, hZ, b => by
    by_cases hlt : lvl < sl
    · simp only [blockWires, hlt, if_true] at hnd hZ ⊢
      obtain ⟨hndl, hndr, hdisj⟩ := List.nodup_append.1 hnd
      have hdis : ∀ w, w ∈ blockWires sl (lvl+1) l → w ∉ blockWires sl (lvl+1) r :=
        fun w h1 h2 => hdisj w h1 w h2 rfl
      have hZl : ZeroOn (blockWires sl (lvl+1) l) ψ0 := fun b ⟨w, hw, hb⟩ =>
        hZ b ⟨w, List.mem_append_left _ hw, hb⟩
      have h1 := topDown_sem hT sl h (lvl+1) l hc.1 hndl ψ0 hZl
      have hZr : ZeroOn (blockWires sl (lvl+1) r) (sem (topDown o sl (lvl+1) l) ψ0) := by
        intro b ⟨w, hw, hb⟩
        rw [h1, hZ _ ⟨w, List.mem_append_right _ hw, by
          rw [clr_not_mem _ _ (fun h => hdis w h hw)]; exact hb⟩, mul_zero]
      have h2 := topDown_sem hT sl h (lvl+1) r hc.2 hndr _ hZr
      simp only [topDown, hlt, if_true, sem_append, blockAmp]
      rw [h2, h1]
      have e1 : (blockAmp sl (lvl+1) l (clr (blockWires sl (lvl+1) r) b) : R)
          = blockAmp sl (lvl+1) l b :=
        blockAmp_congr sl l _ _ _ (fun w hw => clr_not_mem _ _ (hdis w hw))
      have e2 : clr (blockWires sl (lvl+1) l) (clr (blockWires sl (lvl+1) r) b)
          = clr (blockWires sl (lvl+1) l ++ blockWires sl (lvl+1) r) b := by
        funext i
        simp only [clr, List.mem_append]
        by_cases h1 : i ∈ blockWires sl (lvl+1) l <;> by_cases h2 : i ∈ blockWires sl (lvl+1) r <;>
          simp [h1, h2]
      rw [e1, e2]; ring
    · simp only [blockWires, hlt, if_false] at hnd hZ ⊢
      simp only [topDown, hlt, if_false, blockAmp]
      exact hT (h+1) (.node v l r) hc hnd ψ0 hZ b

/-- **Closed form of `top_down; bottom_up`** on a complete tree split at level `sl`. -/
theorem bdsp_closedS (hnz : ∀ x, o.neZero x = false → x = 0) (hT : ChainSem o R) (sl : Nat)
    (h : Nat) (t : BT (QV Θ)) (hc : complete h t) (hnd : (wiresS sl 0 t).Nodup)
    (ψ0 : State R) (hZ : ZeroOn (wiresS sl 0 t) ψ0) (b : Bits) :
    sem (topDown o sl 0 t ++ bottomUp o sl 0 t) ψ0 b
      = treeAmpS o sl 0 t b * ψ0 (clr (wiresS sl 0 t) b) := by
  have hsub := blockWires_sublist sl t 0
  have hZb : ZeroOn (blockWires sl 0 t) ψ0 := fun b ⟨w, hw, hb⟩ => hZ b ⟨w, hsub.subset hw, hb⟩
  have h1 := topDown_sem o hT sl h 0 t hc (hnd.sublist hsub) ψ0 hZb
  rw [sem_append]
  exact bottomUp_closedS o hnz sl h 0 t hc hnd _ ψ0 hZ h1 b

end Closed
end Qclib
