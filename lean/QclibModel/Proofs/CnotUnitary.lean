import QclibModel.Proofs.CnotBasic
/-
  C10 helper lemmas, part 2: the GENERATED unitary estimates (`Gen/CnotCount.lean`, namespace
  `unitary`) against the structural counts of `buildQsd` / `buildCsd`.
-/
namespace Qclib.Cnot
open Qclib.Py Qclib.Gen.CnotCount

theorem cnotsOf_true_qsd (n : Nat) :
    48 * cnotsOf true (buildQsd (n + 3) 0) + 72 * 2 ^ (n + 3) = 23 * 4 ^ (n + 3) + 64 := by
  have hr := raw_qsdSub (n + 1)
  have hv := vis_qsdSub (n + 1)
  have hle := vis_le_raw (qsdSub (n + 1 + 2))
  simp only [show n + 1 + 2 = n + 3 from rfl] at hr hv hle
  rw [qsdSub_succ] at hr hv hle
  have h4 : 4 ^ (n + 3) = 16 * 4 ^ (n + 1) := by
    rw [show n + 3 = (n + 1) + 2 from rfl, Nat.pow_add]; omega
  have hp := four_pow_pos' (n + 1)
  simp only [cnotsOf, if_true]
  omega

theorem cnotsOf_false_qsd (n : Nat) :
    48 * cnotsOf false (buildQsd (n + 3) 0) + 72 * 2 ^ (n + 3) + 48 = 48 * 4 ^ (n + 1) + 23 * 4 ^ (n + 3) + 64 := by
  have hr := raw_qsdSub (n + 1)
  simp only [show n + 1 + 2 = n + 3 from rfl] at hr
  rw [qsdSub_succ] at hr
  have h4 : 4 ^ (n + 3) = 16 * 4 ^ (n + 1) := by
    rw [show n + 3 = (n + 1) + 2 from rfl, Nat.pow_add]; omega
  simp [cnotsOf]
  omega

theorem est_nqubits (n : Nat) : pyLog2Floor ((2 ^ n : Nat) : Int) = (n : Int) := pyLog2Floor_two_pow n

theorem est_qsd (n : Nat) (a2 : Bool) :
    unitary.cnot_count_estimate ((2 ^ (n + 3) : Nat) : Int) "qsd" 0 a2
      = (cnotsOf a2 (buildQsd (n + 3) 0) : Int) := by
  unfold unitary.cnot_count_estimate
  simp only [est_nqubits]
  have e1 : ¬ (((n + 3 : Nat) : Int) = 1) := by omega
  have e2 : ¬ (((n + 3 : Nat) : Int) = 2) := by omega
  have e3 : ¬ ("qsd" = "csd") := by decide
  have p1 : pyPow 2 (2 * ((n + 3 : Nat) : Int)) = ((4 ^ (n + 3) : Nat) : Int) := by
    have : 2 * ((n + 3 : Nat) : Int) = ((2 * (n + 3) : Nat) : Int) := by omega
    rw [this, four_pow_eq]; exact pyPow_nat 2 _
  have p2 : pyPow 2 ((n + 3 : Nat) : Int) = ((2 ^ (n + 3) : Nat) : Int) := pyPow_nat 2 _
  have p3 : pyPow 4 (((n + 3 : Nat) : Int) - 2) = ((4 ^ (n + 1) : Nat) : Int) := by
    have : ((n + 3 : Nat) : Int) - 2 = ((n + 1 : Nat) : Int) := by omega
    rw [this]; exact pyPow_nat 4 _
  simp only [e1, e2, e3, dite_false, ne_eq, not_true_eq_false, p1, p2, p3]
  cases a2 with
  | true =>
    have h := cnotsOf_true_qsd n
    simp only [dite_true]
    have : ((23 * ((4 ^ (n + 3) : Nat) : Int)) - (24 * (3 * ((2 ^ (n + 3) : Nat) : Int)))) + 64
        = 48 * ((cnotsOf true (buildQsd (n + 3) 0) : Nat) : Int) := by omega
    rw [this, pyCeilDiv_mul]
  | false =>
    have h := cnotsOf_false_qsd n
    simp only [Bool.false_eq_true, dite_false]
    have hp := four_pow_pos' (n + 1)
    have : ((23 * ((4 ^ (n + 3) : Nat) : Int)) - (24 * (3 * ((2 ^ (n + 3) : Nat) : Int)))) + 64
        = 48 * (((cnotsOf false (buildQsd (n + 3) 0) : Nat) : Int) - ((4 ^ (n + 1) : Nat) : Int) + 1) := by omega
    rw [this, pyCeilDiv_mul]
    omega

theorem est_csd (n : Nat) (a2 : Bool) :
    unitary.cnot_count_estimate ((2 ^ (n + 3) : Nat) : Int) "csd" 0 a2
      = (raw (buildCsd (n + 3) 0) : Int) := by
  unfold unitary.cnot_count_estimate
  simp only [est_nqubits]
  have e1 : ¬ (((n + 3 : Nat) : Int) = 1) := by omega
  have e2 : ¬ (((n + 3 : Nat) : Int) = 2) := by omega
  have p1 : pyPow 4 ((n + 3 : Nat) : Int) = ((4 ^ (n + 3) : Nat) : Int) := pyPow_nat 4 _
  have p2 : pyPow 2 ((n + 3 : Nat) : Int) = ((2 ^ (n + 3) : Nat) : Int) := pyPow_nat 2 _
  simp only [e1, e2, dite_false, dite_true, p1, p2]
  have h := raw_buildCsd n
  omega

/-- small sizes: one qubit costs nothing, two qubits cost 3, whatever the options -/
theorem est_small (dec : String) (iso : Int) (a2 : Bool) :
    unitary.cnot_count_estimate ((2 ^ 1 : Nat) : Int) dec iso a2 = 0
    ∧ unitary.cnot_count_estimate ((2 ^ 2 : Nat) : Int) dec iso a2 = 3 := by
  constructor
  · unfold unitary.cnot_count_estimate; simp only [est_nqubits]; simp
  · unfold unitary.cnot_count_estimate; simp only [est_nqubits]; simp

/-! ### isometry mode (A.2 on): the generated recurrences -/


/-- the `_qsd` pair on `n + 3` qubits -/
def qsdPair (n : Nat) : List Prim := qsdSub (n + 2) ++ [Prim.ucrz (n + 2)] ++ qsdSub (n + 2)

theorem raw_qsdPair (n : Nat) : raw (qsdPair n) = 2 * raw (qsdSub (n + 2)) + 2 ^ (n + 2) := by
  simp [qsdPair, Prim.cost]; omega
theorem vis_qsdPair (n : Nat) : vis (qsdPair n) = 2 * vis (qsdSub (n + 2)) := by
  simp [qsdPair, Prim.isVis]; omega

theorem buildQsd_succ' (n iso : Nat) :
    buildQsd (n + 3) iso =
      (if iso ≠ 0 then buildQsd (n + 2) (iso - 1) else qsdPair n) ++ [Prim.ucrCZ (n + 2)] ++ qsdPair n :=
  buildQsd_succ n iso

theorem raw_buildQsd_zero (n : Nat) :
    raw (buildQsd (n + 3) 0) = 2 * raw (qsdPair n) + (2 ^ (n + 2) - 1) := by
  rw [buildQsd_succ']; simp [Prim.cost]; omega
theorem vis_buildQsd_zero (n : Nat) : vis (buildQsd (n + 3) 0) = 2 * vis (qsdPair n) := by
  rw [buildQsd_succ']; simp [Prim.isVis]; omega
theorem raw_buildQsd_iso (n j : Nat) :
    raw (buildQsd (n + 3) (j + 1)) = raw (buildQsd (n + 2) j) + (2 ^ (n + 2) - 1) + raw (qsdPair n) := by
  rw [buildQsd_succ']; simp [Prim.cost]; omega
theorem vis_buildQsd_iso (n j : Nat) :
    vis (buildQsd (n + 3) (j + 1)) = vis (buildQsd (n + 2) j) + vis (qsdPair n) := by
  rw [buildQsd_succ']; simp [Prim.isVis]

theorem iso_base (iso : Int) (a2 : Bool) :
    unitary.cnot_count_iso 2 iso a2 = if a2 = true then 2 else 3 := by
  rw [unitary.cnot_count_iso]; simp

theorem iso_qsd_unfold (n : Nat) (a2 : Bool) :
    unitary.cnot_count_iso_qsd ((n + 3 : Nat) : Int) a2
      = 2 * unitary.cnot_count_iso ((n + 2 : Nat) : Int) 0 a2 + ((2 ^ (n + 2) : Nat) : Int) := by
  rw [unitary.cnot_count_iso_qsd]
  have e : ((n + 3 : Nat) : Int) - 1 = ((n + 2 : Nat) : Int) := by omega
  simp only [e, pyPow_two]
  omega

theorem iso_unfold_zero (n : Nat) (a2 : Bool) :
    unitary.cnot_count_iso ((n + 3 : Nat) : Int) 0 a2
      = 2 * unitary.cnot_count_iso_qsd ((n + 3 : Nat) : Int) a2 + (((2 ^ (n + 2) : Nat) : Int) - 1) := by
  rw [unitary.cnot_count_iso]
  have h : ((n + 3 : Nat) : Int) > 2 := by omega
  have e : ((n + 3 : Nat) : Int) - 1 = ((n + 2 : Nat) : Int) := by omega
  simp only [h, dite_true, e, pyPow_two, ne_eq, not_true_eq_false, if_false]
  omega

theorem iso_unfold_succ (n j : Nat) (a2 : Bool) :
    unitary.cnot_count_iso ((n + 3 : Nat) : Int) ((j + 1 : Nat) : Int) a2
      = unitary.cnot_count_iso ((n + 2 : Nat) : Int) (j : Int) a2 + (if n = 0 then 1 else 0)
        + (((2 ^ (n + 2) : Nat) : Int) - 1) + unitary.cnot_count_iso_qsd ((n + 3 : Nat) : Int) a2 := by
  rw [unitary.cnot_count_iso]
  have h : ((n + 3 : Nat) : Int) > 2 := by omega
  have e : ((n + 3 : Nat) : Int) - 1 = ((n + 2 : Nat) : Int) := by omega
  have e' : ((j + 1 : Nat) : Int) - 1 = (j : Int) := by omega
  have hne : ((j + 1 : Nat) : Int) ≠ 0 := by omega
  have c : (((n + 2 : Nat) : Int) = 2) = (n = 0) := by
    apply propext; constructor <;> intro h <;> omega
  simp only [h, dite_true, e, e', pyPow_two, c, hne, ne_eq, not_false_eq_true, if_true]

/-- Lemma A: in A.2 mode `_cnot_count_iso(m, 0)` counts the half-size block `_qsd` embeds with every
two-qubit block at 2 CNOTs. -/
theorem iso_zero (n : Nat) :
    unitary.cnot_count_iso ((n + 2 : Nat) : Int) 0 true
      = (raw (qsdSub (n + 2)) : Int) - (vis (qsdSub (n + 2)) : Int) := by
  induction n with
  | zero =>
    have h := iso_base 0 true
    have e : ((0 + 2 : Nat) : Int) = 2 := rfl
    rw [e, h, raw_qsdSub_two, vis_qsdSub_two]
    rfl
  | succ n ih =>
    rw [show n + 1 + 2 = n + 3 from rfl, iso_unfold_zero, iso_qsd_unfold, ih, raw_qsdSub_succ, vis_qsdSub_succ]
    have h1 := two_pow_pos' (n + 2)
    omega

theorem iso_qsd_pair (n : Nat) :
    unitary.cnot_count_iso_qsd ((n + 3 : Nat) : Int) true = (raw (qsdPair n) : Int) - (vis (qsdPair n) : Int) := by
  rw [iso_qsd_unfold, iso_zero, raw_qsdPair, vis_qsdPair]
  omega

/-- Lemma B: `_cnot_count_iso(n, iso)` in A.2 mode is `raw − vis` of `build_unitary(·, "qsd", iso)`
(the inline two-qubit block of the isometry branch costs `2 + iso_cnot = 3` and is not visible). -/
theorem iso_general (n : Nat) : ∀ iso : Nat,
    unitary.cnot_count_iso ((n + 3 : Nat) : Int) (iso : Int) true
      = (raw (buildQsd (n + 3) iso) : Int) - (vis (buildQsd (n + 3) iso) : Int) := by
  induction n with
  | zero =>
    intro iso
    cases iso with
    | zero =>
      have e : ((0 : Nat) : Int) = 0 := rfl
      rw [e, iso_unfold_zero, iso_qsd_pair, raw_buildQsd_zero, vis_buildQsd_zero]
      have h1 := two_pow_pos' (0 + 2)
      omega
    | succ j =>
      rw [iso_unfold_succ, iso_qsd_pair, raw_buildQsd_iso, vis_buildQsd_iso]
      have hb := iso_base (j : Int) true
      have e : ((0 + 2 : Nat) : Int) = 2 := rfl
      rw [e, hb]
      have r2 : raw (buildQsd (0 + 2) j) = 3 := by simp [buildQsd, Prim.cost]
      have v2 : vis (buildQsd (0 + 2) j) = 0 := by simp [buildQsd, Prim.isVis]
      rw [r2, v2]
      have h1 := two_pow_pos' (0 + 2)
      simp only [if_true]
      omega
  | succ n ih =>
    intro iso
    cases iso with
    | zero =>
      have e : ((0 : Nat) : Int) = 0 := rfl
      rw [e, iso_unfold_zero, iso_qsd_pair, raw_buildQsd_zero, vis_buildQsd_zero]
      have h1 := two_pow_pos' (n + 1 + 2)
      omega
    | succ j =>
      rw [iso_unfold_succ, iso_qsd_pair, raw_buildQsd_iso, vis_buildQsd_iso]
      have h := ih j
      rw [show n + 1 + 2 = n + 3 from rfl, h]
      have h1 := two_pow_pos' (n + 3)
      have hn : ¬ (n + 1 = 0) := by omega
      simp only [hn, if_false]
      omega

theorem vis_buildQsd_pos (n iso : Nat) : 1 ≤ vis (buildQsd (n + 3) iso) := by
  have hv := vis_qsdSub n
  have hp := four_pow_pos' n
  cases iso with
  | zero => rw [vis_buildQsd_zero, vis_qsdPair]; omega
  | succ j => rw [vis_buildQsd_iso, vis_qsdPair]; omega

theorem est_iso (n iso : Nat) (hiso : 1 ≤ iso) :
    unitary.cnot_count_estimate ((2 ^ (n + 3) : Nat) : Int) "qsd" (iso : Int) true
      = (cnotsOf true (buildQsd (n + 3) iso) : Int) := by
  unfold unitary.cnot_count_estimate
  simp only [est_nqubits]
  have e1 : ¬ (((n + 3 : Nat) : Int) = 1) := by omega
  have e2 : ¬ (((n + 3 : Nat) : Int) = 2) := by omega
  have e3 : ¬ ("qsd" = "csd") := by decide
  have e4 : (iso : Int) ≠ 0 := by omega
  simp only [e1, e2, e3, e4, dite_false, dite_true, ne_eq, not_false_eq_true, if_true, iso_general]
  have h1 := vis_buildQsd_pos n iso
  have h2 := vis_le_raw (buildQsd (n + 3) iso)
  simp only [cnotsOf, if_true]
  omega

end Qclib.Cnot
