import QclibModel.Proofs.SemLemmas
import QclibModel.Spec.Mcu2
import Mathlib.Tactic.Ring
/-
  The recursion of `Qdmcu` (Theorem 4 of Iten et al.) in the amplitude-function semantics:
  `C_c(V) ; MCX(rest → c) ; C_c(V') ; MCX(rest → c) ; C^rest(V)` is `C^{c, rest}(V·V)` on every
  state, and by induction the whole recursion is the multi-controlled root.

  Technique: every gate is rewritten as an operator on the target wire `t` whose 2×2 matrix depends
  on the other wires (`applyFam f t` with a `t`-free family); the MCX pair conjugates the family of
  the gate between them (`conj_mcx`); `t`-free families compose pointwise (`applyFam_comp_t`).
-/
namespace Qclib.Mcu2

variable {R : Type} [CommRing R]

/-! ### Labels -/

theorem ctrlOk_setBit (lits : List (Nat × Bool)) (b : Bits) (q : Nat) (v : Bool)
    (h : ∀ l ∈ lits, l.1 ≠ q) : ctrlOk lits (setBit b q v) = ctrlOk lits b := by
  unfold ctrlOk
  induction lits with
  | nil => rfl
  | cons l ls ih =>
    simp only [List.all_cons]
    rw [ih (fun l' hl' => h l' (List.mem_cons_of_mem _ hl')),
      setBit_ne b v (h l List.mem_cons_self)]

theorem ctrlOk_flipBit (lits : List (Nat × Bool)) (b : Bits) (q : Nat)
    (h : ∀ l ∈ lits, l.1 ≠ q) : ctrlOk lits (flipBit b q) = ctrlOk lits b := by
  rw [← setBit_not, ctrlOk_setBit lits b q _ h]

theorem ctrlOk_cons (c : Nat) (cv : Bool) (lits : List (Nat × Bool)) (b : Bits) :
    ctrlOk ((c, cv) :: lits) b = ((b c == cv) && ctrlOk lits b) := by
  simp [ctrlOk]

theorem ctrlOk_single (c : Nat) (cv : Bool) (b : Bits) : ctrlOk [(c, cv)] b = (b c == cv) := by
  simp [ctrlOk]

theorem ctrlOk_nil (b : Bits) : ctrlOk [] b = true := rfl

theorem flip_set_flip (b : Bits) {c t : Nat} (v : Bool) (h : c ≠ t) :
    flipBit (setBit (flipBit b c) t v) c = setBit b t v := by
  funext i
  by_cases hc : i = c <;> by_cases ht : i = t <;> simp_all [flipBit, setBit]

theorem set_flip_comm (b : Bits) {c t : Nat} (v : Bool) (h : c ≠ t) :
    flipBit (setBit b t v) c = setBit (flipBit b c) t v := by
  funext i
  by_cases hc : i = c <;> by_cases ht : i = t <;> simp_all [flipBit, setBit]

/-! ### Operators on wire `t` given by a `t`-free matrix family -/

/-- The family does not look at wire `t`. -/
def Free (t : Nat) (f : Bits → Mat2 R) : Prop := ∀ b v, f (setBit b t v) = f b

theorem applyFam_comp_t (t : Nat) (f g : Bits → Mat2 R) (hg : Free t g) (ψ : State R) :
    applyFam f t (applyFam g t ψ) = applyFam (fun b => f b * g b) t ψ := by
  funext b
  simp only [applyFam, setBit_eq, setBit_setBit, hg b]
  show _ = (if b t = true then (Mat2.mul (f b) (g b)).c * _ + (Mat2.mul (f b) (g b)).d * _
    else (Mat2.mul (f b) (g b)).a * _ + (Mat2.mul (f b) (g b)).b * _)
  by_cases h : b t = true <;> simp [h, Mat2.mul] <;> ring

theorem applyMcu_fam (cs : List (Nat × Bool)) (m : Mat2 R) (t : Nat) (ψ : State R) :
    applyMcu cs m t ψ = applyFam (fun b => if ctrlOk cs b then m else 1) t ψ := by
  funext b
  by_cases hc : ctrlOk cs b = true
  · simp [applyMcu, applyFam, hc]
  · have hc' : ctrlOk cs b = false := by simpa using hc
    have o : (1 : Mat2 R) = ⟨1, 0, 0, 1⟩ := rfl
    by_cases h : b t = true
    · simp [applyMcu, applyFam, hc', h, setBit_self' b t true h, o]
    · have h' : b t = false := by simpa using h
      simp [applyMcu, applyFam, hc', h', setBit_self' b t false h', o]

theorem mcx_apply (lits : List (Nat × Bool)) (c : Nat) (φ : State R) (b : Bits) :
    applyMcu lits Mat2.X c φ b = if ctrlOk lits b then φ (flipBit b c) else φ b := by
  rw [← setBit_not]
  simp only [applyMcu, Mat2.X]
  cases h : b c <;> simp

/-- Conjugating an operator on `t` by an ideal MCX on `c`: the family is read at the flipped
label where the MCX fires. -/
theorem conj_mcx (lits : List (Nat × Bool)) (c t : Nat) (hct : c ≠ t)
    (hc : ∀ l ∈ lits, l.1 ≠ c) (ht : ∀ l ∈ lits, l.1 ≠ t) (f : Bits → Mat2 R) (φ : State R) :
    applyMcu lits Mat2.X c (applyFam f t (applyMcu lits Mat2.X c φ))
      = applyFam (fun b => if ctrlOk lits b then f (flipBit b c) else f b) t φ := by
  have htc : t ≠ c := fun h => hct h.symm
  funext b
  rw [mcx_apply]
  by_cases hr : ctrlOk lits b = true
  · simp only [hr, if_true, applyFam, mcx_apply, ctrlOk_setBit lits _ t _ ht,
      ctrlOk_flipBit lits _ c hc, flip_set_flip b _ hct, flipBit_ne b htc]
  · have hr' : ctrlOk lits b = false := by simpa using hr
    simp only [hr', Bool.false_eq_true, if_false, applyFam, mcx_apply, ctrlOk_setBit lits _ t _ ht]

/-! ### One level of the recursion -/

/-- `lits` are the control literals of the remaining controls, `(c, cv)` the peeled control and
the value it must read, `t` the target. -/
theorem qdmcu_step (U V V' : Mat2 R) (hVV : V * V = U) (h1 : V' * V = 1) (h2 : V * V' = 1)
    (lits : List (Nat × Bool)) (c t : Nat) (cv : Bool) (hct : c ≠ t)
    (hc : ∀ l ∈ lits, l.1 ≠ c) (ht : ∀ l ∈ lits, l.1 ≠ t) (ψ : State R) :
    applyMcu lits V t (applyMcu lits Mat2.X c (applyMcu [(c, cv)] V' t
        (applyMcu lits Mat2.X c (applyMcu [(c, cv)] V t ψ))))
      = applyMcu ((c, cv) :: lits) U t ψ := by
  have htc : t ≠ c := fun h => hct h.symm
  rw [applyMcu_fam [(c, cv)] V' t, conj_mcx lits c t hct hc ht, applyMcu_fam [(c, cv)] V t,
    applyMcu_fam lits V t, applyMcu_fam ((c, cv) :: lits) U t]
  have free1 : Free t (fun b => if ctrlOk [(c, cv)] b then V else (1 : Mat2 R)) := by
    intro b v
    simp only [ctrlOk_single, setBit_ne b v hct]
  rw [applyFam_comp_t t _ _ free1]
  have free2 : Free t (fun b => (if ctrlOk lits b = true then
        (fun b => if ctrlOk [(c, cv)] b = true then V' else 1) (flipBit b c)
      else (fun b => if ctrlOk [(c, cv)] b = true then V' else 1) b) *
        if ctrlOk [(c, cv)] b = true then V else (1 : Mat2 R)) := by
    intro b v
    simp only [ctrlOk_single, setBit_ne b v hct, ctrlOk_setBit lits b t v ht, flipBit_eq]
  rw [applyFam_comp_t t _ _ free2]
  congr 1
  funext b
  have one_mul' : ∀ m : Mat2 R, (1 : Mat2 R) * m = m := by
    intro m
    show Mat2.mul ⟨1, 0, 0, 1⟩ m = m
    cases m; simp [Mat2.mul]
  have mul_one' : ∀ m : Mat2 R, m * (1 : Mat2 R) = m := by
    intro m
    show Mat2.mul m ⟨1, 0, 0, 1⟩ = m
    cases m; simp [Mat2.mul]
  have assoc : ∀ m n p : Mat2 R, m * n * p = m * (n * p) := by
    intro m n p
    show Mat2.mul (Mat2.mul m n) p = Mat2.mul m (Mat2.mul n p)
    simp only [Mat2.mul, Mat2.mk.injEq]
    refine ⟨?_, ?_, ?_, ?_⟩ <;> ring
  simp only [ctrlOk_cons, ctrlOk_nil, Bool.and_true, flipBit_eq]
  cases hr : ctrlOk lits b <;> cases hbc : b c <;> cases cv <;>
    simp [one_mul', mul_one', h1, h2, hVV]

/-! ### The whole recursion -/

/-- With exact square roots (`V (d+1)² = V d`), exact inverses and ideal MCX gates the recursion
of `Qdmcu` on the literals `lits` (pairwise distinct wires, none of them the target) is the
multi-controlled `V d` — on every amplitude function. -/
theorem qdIdeal_eq (V W : Nat → Mat2 R) (hsq : ∀ d, V (d + 1) * V (d + 1) = V d)
    (hl : ∀ d, W d * V d = 1) (hr : ∀ d, V d * W d = 1) (t : Nat) (lits : List (Nat × Bool))
    (hne : lits ≠ []) (hnd : (lits.map Prod.fst).Nodup) (ht : ∀ l ∈ lits, l.1 ≠ t) (d : Nat)
    (ψ : State R) :
    qdIdeal V W t d lits ψ = applyMcu lits (V d) t ψ := by
  induction lits generalizing d ψ with
  | nil => exact absurd rfl hne
  | cons l ls ih =>
    cases ls with
    | nil => rfl
    | cons l' rest =>
      have hnd' : ((l' :: rest).map Prod.fst).Nodup := (List.nodup_cons.mp hnd).2
      have hnot : l.1 ∉ (l' :: rest).map Prod.fst := (List.nodup_cons.mp hnd).1
      have ht' : ∀ x ∈ l' :: rest, x.1 ≠ t := fun x hx => ht x (List.mem_cons_of_mem _ hx)
      have hc : ∀ x ∈ l' :: rest, x.1 ≠ l.1 := by
        intro x hx h
        exact hnot (h ▸ List.mem_map_of_mem hx)
      have hlt : l.1 ≠ t := ht l List.mem_cons_self
      rw [qdIdeal, ih (List.cons_ne_nil _ _) hnd' ht']
      have := qdmcu_step (V d) (V (d + 1)) (W (d + 1)) (hsq d) (hl (d + 1)) (hr (d + 1))
        (l' :: rest) l.1 t l.2 hlt hc ht' ψ
      exact this

end Qclib.Mcu2
