import QclibModel.Proofs.FnPointsState
/-
  C18, part 4: induction over the processed points and the closing `x(c[1])`.
-/
namespace Qclib
open RotSem

section
variable {Θ R : Type} [CommRing R] [RotSem Θ R]

/-- `bits_z0` after the loop. -/
def fnLast : (Nat → Bool) → List FnPoint → (Nat → Bool)
  | prev, [] => prev
  | _, pt :: rest => fnLast pt.z rest

/-- What the generator still carries after the loop. -/
def fnGenAfter (A : FnAngles Θ) : R → List FnPoint → R
  | gen, [] => gen
  | gen, _ :: rest => fnGenAfter A (cs (A.theta rest.length) * gen) rest

theorem fnGenAfter_zero (A : FnAngles Θ) (h0 : (cs (A.theta 0) : R) = 0) (gen : R)
    (l : List FnPoint) (hl : l ≠ []) : fnGenAfter A gen l = 0 := by
  induction l generalizing gen with
  | nil => exact absurd rfl hl
  | cons pt rest ih =>
    cases rest with
    | nil =>
      show cs (A.theta 0) * gen = 0
      rw [h0, zero_mul]
    | cons q r => exact ih _ (List.cons_ne_nil _ _)

theorem fnCoef_nomatch (A : FnAngles Θ) (n : Nat) (gen : R) (l : List FnPoint) (zf : Nat → Bool)
    (h : l.any (fun p => fnMatch n zf p.z) = false) : fnCoef A n gen l zf = 0 := by
  induction l generalizing gen with
  | nil => rfl
  | cons pt rest ih =>
    rw [List.any_cons, Bool.or_eq_false_iff] at h
    unfold fnCoef
    rw [if_neg (by rw [h.1]; exact Bool.false_ne_true)]
    exact ih _ h.2

variable {n : Nat} {L : FnLayout} (hw : FnWires n L)
include hw

/-- **The loop preserves the invariant**: after running over `l` the processed part is extended by
`fnCoef` on the patterns of `l`. -/
theorem fn_loop_form (hn : 2 ≤ n) (A : FnAngles Θ) (hγ : (ex A.zero * ex A.zero : R) = 1)
    (ψ0 : State R) (l : List FnPoint) :
    ∀ (prev : Nat → Bool) (gen : R) (coef : (Nat → Bool) → R),
      l.Pairwise (fun p q => fnMatch n p.z q.z = false) →
      (∀ p, p ∈ l → ∀ zf, fnMatch n zf p.z = true → coef zf = 0) →
      sem (fnLoop L n A prev l) (fnForm L n ψ0 prev gen coef)
        = fnForm L n ψ0 (fnLast prev l) (fnGenAfter A gen l)
            (fun zf => if l.any (fun p => fnMatch n zf p.z) then fnCoef A n gen l zf
              else coef zf) := by
  induction l with
  | nil =>
    intro prev gen coef _ _
    simp [fnLoop, sem_nil, fnLast, fnGenAfter]
  | cons pt rest ih =>
    intro prev gen coef hpw hcoef
    have hpw' := List.pairwise_cons.mp hpw
    show sem (fnIter L n A prev rest.length pt ++ fnLoop L n A pt.z rest) _ = _
    rw [sem_append, fn_iter_form hw hn A hγ ψ0 prev rest.length pt gen coef
      (hcoef pt (List.mem_cons_self ..))]
    rw [ih pt.z _ _ hpw'.2 (by
      intro p hp zf hz
      have hne : fnMatch n zf pt.z = false := by
        cases hzp : fnMatch n zf pt.z
        · rfl
        · have := fnMatch_trans' n zf pt.z p.z hzp hz
          rw [hpw'.1 p hp] at this; cases this
      rw [hne]
      simp only [Bool.false_eq_true, if_false]
      exact hcoef p (List.mem_cons_of_mem _ hp) zf hz)]
    show fnForm L n ψ0 (fnLast pt.z rest) (fnGenAfter A (cs (A.theta rest.length) * gen) rest) _ = _
    congr 1
    funext zf
    rw [List.any_cons]
    cases hzp : fnMatch n zf pt.z
    · -- the head does not match: defer to the tail
      simp only [Bool.false_or, Bool.false_eq_true, if_false]
      conv => rhs; unfold fnCoef
      rw [hzp]
      simp only [Bool.false_eq_true, if_false]
    · -- the head matches: nothing in the tail does
      have hrest : rest.any (fun p => fnMatch n zf p.z) = false := by
        rw [List.any_eq_false]
        intro p hp hz
        have := fnMatch_trans' n zf pt.z p.z hzp hz
        rw [hpw'.1 p hp] at this; cases this
      rw [hrest]
      simp only [Bool.true_or, Bool.false_eq_true, if_false, if_true]
      conv => rhs; unfold fnCoef
      rw [hzp]
      simp only [if_true]

theorem fnForm_init (ψ0 : State R) (hψ0 : ∀ b, fnZero L n b = false → ψ0 b = 0) :
    ψ0 = fnForm L n ψ0 (fun _ => false) 1 (fun _ => 0) := by
  funext b
  unfold fnForm
  cases hz : fnZero L n b
  · rw [hψ0 b hz]
    unfold fnZero at hz
    cases hg : fnGClr L n b <;> cases h0 : b L.c0 <;> cases h1 : b L.c1 <;>
      cases hx : fnXMatch L n (fun _ => false) b <;> simp_all
  · unfold fnZero at hz
    simp only [Bool.and_eq_true, Bool.not_eq_eq_eq_not, Bool.not_true] at hz
    obtain ⟨⟨⟨hx, hg⟩, h0⟩, h1⟩ := hz
    have hclr : fnClr L n b = b := by
      funext w
      unfold fnClr
      cases hwire : fnIsWire L n w
      · simp
      · simp only [if_true]
        unfold fnIsWire at hwire
        simp only [Bool.or_eq_true, List.any_eq_true, beq_iff_eq] at hwire
        rcases hwire with ((⟨j, hj, rfl⟩ | ⟨k, hk, rfl⟩) | rfl) | rfl
        · have hj' := List.mem_range.mp hj
          rw [fnXMatch_eq hw, List.all_eq_true] at hx
          have := hx j hj
          simpa using this.symm
        · unfold fnGClr at hg
          rw [List.all_eq_true] at hg
          have := hg k hk
          simpa using this.symm
        · exact h0.symm
        · exact h1.symm
    rw [hg, h0, h1, hx, hclr]
    simp

/-- **C18 state, general ring (proof).** -/
theorem fn_state_general (hn : 2 ≤ n) (A : FnAngles Θ) (hγ : (ex A.zero * ex A.zero : R) = 1)
    (h0 : (cs (A.theta 0) : R) = 0) (pts : List FnPoint) (hne : pts ≠ [])
    (hd : pts.Pairwise (fun p q => fnMatch n p.z q.z = false))
    (ψ0 : State R) (hψ0 : ∀ b, fnZero L n b = false → ψ0 b = 0) (b : Bits) :
    sem (fnPointsAt L n A pts) ψ0 b
      = if fnGClr L n b && !b L.c0 && !b L.c1
        then fnCoef A n (1 : R) pts.reverse (fnXbits L n b) * ψ0 (fnClr L n b) else 0 := by
  have hd' : pts.reverse.Pairwise (fun p q => fnMatch n p.z q.z = false) := by
    rw [List.pairwise_reverse]
    exact hd.imp (fun {p q} h => by rw [fnMatch_comm]; exact h)
  unfold fnPointsAt
  rw [sem_append, sem_single, denote_x]
  conv => lhs; rw [fnForm_init hw ψ0 hψ0]
  rw [fn_loop_form hw hn A hγ ψ0 pts.reverse _ _ _ hd' (fun _ _ _ _ => rfl),
    fnGenAfter_zero A h0 1 pts.reverse (by simpa using hne)]
  unfold fnForm
  beta_reduce
  rw [flip1_gclr hw, flipBit_ne _ hw.c0_c1, flipBit_eq, flip1_xbits hw, fnClr_flip _ fnIsWire_c1]
  cases hany : pts.reverse.any (fun p => fnMatch n (fnXbits L n b) p.z)
  · rw [fnCoef_nomatch A n 1 _ _ hany]
    cases fnGClr L n b <;> cases b L.c0 <;> cases b L.c1 <;> simp
  · cases fnGClr L n b <;> cases b L.c0 <;> cases b L.c1 <;> simp

end

/-- The layout the code builds has pairwise distinct wires. -/
theorem fnCodeLayout_wires (n : Nat) (hn : 1 ≤ n) : FnWires n (fnCodeLayout n) where
  x_inj := by intro i j hi hj h; simp only [fnCodeLayout] at h; omega
  g_inj := by intro i j hi hj h; simp only [fnCodeLayout] at h; omega
  x_g := by intro i j hi hj; simp only [fnCodeLayout]; omega
  x_c0 := by intro i hi; simp only [fnCodeLayout]; omega
  x_c1 := by intro i hi; simp only [fnCodeLayout]; omega
  g_c0 := by intro k hk; simp only [fnCodeLayout]; omega
  g_c1 := by intro k hk; simp only [fnCodeLayout]; omega
  c0_c1 := by simp only [fnCodeLayout]; omega

end Qclib
