import QclibModel.Proofs.Mcu2OpFull
/-
  C04, part B — the approximate gate `MCU` (qclib/gates/mcu.py) at operator level, part 1:
  semantics and the one-gate simulation step.

  * `denoteM` / `semM`: the amplitude semantics of the skeleton `LG` in which the multi-target
    call `mtmcsu2 ctrls tgts rx` has its *ideal* meaning — for every `j`, `RX(s_j·π/p_j)` on
    `tgts[j]` controlled by all of `ctrls` reading 1 (this is what `C04_multitarget_spec` proves of
    `MultiTargetMCSU2.definition` for two or more controls).  All other constructors as in
    `denoteLG`.
  * `mc_on_supp`, `mc_rot`: a multi-controlled gate on a state whose control wires are in basis
    states, and on a product state `rot M wires ψ`.
  * `simM_step`, `simM_list`: the classical-propagation run (`stepG`) is the amplitude semantics
    for the gates of the truncated ladder, where the gates of base control 0 are controlled by all
    the wires `0 … e` (`e` = number of extra controls) — they behave like gates controlled by the
    single virtual bit `x 0 ∧ … ∧ x e`.
-/
namespace Qclib.Mcu2

variable {R : Type} [CommRing R]

/-! ### Semantics with the multi-target call -/

/-- The literals "wires `0 … m-1` read 1". -/
def onesLits (m : Nat) : List (Nat × Bool) := (List.range m).map fun i => (i, true)

section sem
variable {Θ : Type} [RotSem Θ R]

/-- Denotation of one skeleton gate, the multi-target call included (ideal meaning). -/
def denoteM (Ur Rx : ℚ → Mat2 R) : LG Θ → State R → State R
  | .mtmcsu2 ctrls tgts rx => fun ψ =>
      (tgts.zip rx).foldl
        (fun s p => applyMcu (ctrls.map fun c => (c, true)) (Rx (qw p.2.1 p.2.2)) p.1 s) ψ
  | .x q => applyMcu [] Mat2.X q
  | .root t p s => applyMcu [] (Ur (qw p s)) t
  | .croot c t cv p s => applyMcu [(c, cv)] (Ur (qw p s)) t
  | .crx c t p s => applyMcu [(c, true)] (Rx (qw p s)) t
  | .prim g => denote g
  | .call _ _ _ _ _ _ => fun ψ => ψ

def semM (Ur Rx : ℚ → Mat2 R) (gs : List (LG Θ)) (ψ : State R) : State R :=
  gs.foldl (fun s g => denoteM Ur Rx g s) ψ

theorem semM_append (Ur Rx : ℚ → Mat2 R) (g1 g2 : List (LG Θ)) (ψ : State R) :
    semM Ur Rx (g1 ++ g2) ψ = semM Ur Rx g2 (semM Ur Rx g1 ψ) := by
  simp [semM, List.foldl_append]

theorem semM_nil (Ur Rx : ℚ → Mat2 R) (ψ : State R) : semM Ur Rx ([] : List (LG Θ)) ψ = ψ := rfl

theorem semM_cons (Ur Rx : ℚ → Mat2 R) (g : LG Θ) (gs : List (LG Θ)) (ψ : State R) :
    semM Ur Rx (g :: gs) ψ = semM Ur Rx gs (denoteM Ur Rx g ψ) := rfl

/-- On lists without the multi-target call the two semantics coincide. -/
theorem semM_eq_semLG (Ur Rx : ℚ → Mat2 R) (gs : List (LG Θ))
    (h : ∀ g ∈ gs, ∀ a b c, g ≠ LG.mtmcsu2 a b c) (ψ : State R) :
    semM Ur Rx gs ψ = semLG Ur Rx gs ψ := by
  induction gs generalizing ψ with
  | nil => rfl
  | cons g gs ih =>
    rw [semM_cons, semLG_cons, ih (fun g' hg' => h g' (List.mem_cons_of_mem _ hg'))]
    congr 1
    cases g with
    | mtmcsu2 a b c => exact absurd rfl (h _ List.mem_cons_self a b c)
    | _ => rfl

theorem foldl_sadd {α : Type} (f : α → State R → State R)
    (hf : ∀ a ψ φ, f a (sadd ψ φ) = sadd (f a ψ) (f a φ)) (l : List α) (ψ φ : State R) :
    l.foldl (fun s a => f a s) (sadd ψ φ)
      = sadd (l.foldl (fun s a => f a s) ψ) (l.foldl (fun s a => f a s) φ) := by
  induction l generalizing ψ φ with
  | nil => rfl
  | cons a l ih => simp only [List.foldl_cons, hf, ih]

theorem denoteM_sadd (Ur Rx : ℚ → Mat2 R) (g : LG Θ) (hg : noPrim g = true) (ψ φ : State R) :
    denoteM Ur Rx g (sadd ψ φ) = sadd (denoteM Ur Rx g ψ) (denoteM Ur Rx g φ) := by
  cases g with
  | mtmcsu2 cs ts rx =>
    exact foldl_sadd (fun (p : Nat × Nat × Int) s =>
      applyMcu (cs.map fun c => (c, true)) (Rx (qw p.2.1 p.2.2)) p.1 s)
      (fun p ψ φ => applyMcu_sadd _ _ _ ψ φ) _ ψ φ
  | prim g => exact absurd hg (by simp [noPrim])
  | x q => exact applyMcu_sadd _ _ _ _ _
  | root t p s => exact applyMcu_sadd _ _ _ _ _
  | croot c t cv p s => exact applyMcu_sadd _ _ _ _ _
  | crx c t p s => exact applyMcu_sadd _ _ _ _ _
  | call _ _ _ _ _ _ => rfl

theorem semM_sadd (Ur Rx : ℚ → Mat2 R) (gs : List (LG Θ)) (hg : ∀ g ∈ gs, noPrim g = true)
    (ψ φ : State R) :
    semM Ur Rx gs (sadd ψ φ) = sadd (semM Ur Rx gs ψ) (semM Ur Rx gs φ) := by
  induction gs generalizing ψ φ with
  | nil => rfl
  | cons g gs ih =>
    rw [semM_cons, semM_cons, semM_cons, denoteM_sadd Ur Rx g (hg g List.mem_cons_self)]
    exact ih (fun g' hg' => hg g' (List.mem_cons_of_mem _ hg')) _ _

end sem

/-! ### Multi-controlled gates on basis states of the controls -/

theorem ctrlOk_onesLits (m : Nat) (b : Bits) :
    ctrlOk (onesLits m) b = true ↔ ∀ i, i < m → b i = true := by
  simp [ctrlOk, onesLits]

/-- A gate controlled by the wires `0 … m-1` on a state whose wires `0 … m-1` are in the basis
state `x`: the gate itself if all `x i` are 1, the identity otherwise. -/
theorem mc_on_supp (m t : Nat) (hmt : m ≤ t) (x : Nat → Bool) (φ : State R)
    (h : ∀ c, c < m → SuppAt c (x c) φ) (G : Mat2 R) :
    applyMcu (onesLits m) G t φ = if allBelow x m then g1 G t φ else φ := by
  funext b
  have hset : ∀ (w : Bool) (i : Nat), i < m → (setBit b t w) i = b i :=
    fun w i hi => setBit_ne b w (by omega)
  by_cases hall : allBelow x m = true
  · rw [if_pos hall]
    have hx := (allBelow_iff x m).mp hall
    by_cases hc : ctrlOk (onesLits m) b = true
    · rw [g1_apply]
      simp only [applyMcu, hc, if_true]
    · have hc' : ctrlOk (onesLits m) b = false := by simpa using hc
      have : ¬ ∀ i, i < m → b i = true := fun h' => hc ((ctrlOk_onesLits m b).mpr h')
      obtain ⟨i, hi⟩ := Classical.not_forall.mp this
      obtain ⟨him, hbi⟩ := Classical.not_imp.mp hi
      have h0 : ∀ w, φ (setBit b t w) = 0 := fun w =>
        h i him _ (by rw [hset w i him, hx i him]; exact hbi)
      have hb0 : φ b = 0 := h i him _ (by rw [hx i him]; exact hbi)
      rw [g1_apply]
      simp [applyMcu, hc', h0, hb0]
  · rw [if_neg hall]
    by_cases hc : ctrlOk (onesLits m) b = true
    · have hb1 := (ctrlOk_onesLits m b).mp hc
      have : ¬ ∀ i, i < m → x i = true := fun h' => hall ((allBelow_iff x m).mpr h')
      obtain ⟨i, hi⟩ := Classical.not_forall.mp this
      obtain ⟨him, hxi⟩ := Classical.not_imp.mp hi
      have hne : b i ≠ x i := by rw [hb1 i him]; exact fun e => hxi e.symm
      have h0 : ∀ w, φ (setBit b t w) = 0 := fun w =>
        h i him _ (by rw [hset w i him]; exact hne)
      have hb0 : φ b = 0 := h i him _ hne
      simp [applyMcu, hc, h0, hb0]
    · have hc' : ctrlOk (onesLits m) b = false := by simpa using hc
      simp [applyMcu, hc']

/-- A wire carrying a diagonal matrix keeps its basis state under `rot`. -/
theorem supp_rot_diag {c : Nat} {v : Bool} {ψ : State R} (h : SuppAt c v ψ) (M : Nat → Mat2 R)
    (hb : (M c).b = 0) (hc : (M c).c = 0) (qs : List Nat) : SuppAt c v (rot M qs ψ) := by
  induction qs with
  | nil => exact h
  | cons p qs ih =>
    by_cases hp : c = p
    · subst hp
      exact supp_diag ih (M c) hb hc
    · exact supp_g1 ih (M p) hp

/-- A one-qubit gate on a wire of a product state multiplies onto that wire's matrix. -/
theorem g1_rot (M : Nat → Mat2 R) (qs : List Nat) (hn : qs.Nodup) {t : Nat} (ht : t ∈ qs)
    (G : Mat2 R) (ψ : State R) :
    g1 G t (rot M qs ψ) = rot (Function.update M t (G * M t)) qs ψ := by
  have htq : t ∉ qs.erase t := List.Nodup.not_mem_erase hn
  rw [rot_pull M qs ht, rot_pull (Function.update M t (G * M t)) qs ht, g1_comp,
    Function.update_self]
  congr 1
  exact rot_congr _ (fun q hq => (Function.update_of_ne (fun (h : q = t) => htq (by rw [← h]; exact h ▸ hq)) _ _).symm) ψ

/-- **A gate controlled by the wires `0 … m-1` on a product state** whose wires `0 … m-1` are in
the basis state `x` and carry the identity. -/
theorem mc_rot (M : Nat → Mat2 R) (qs : List Nat) (hn : qs.Nodup) (m t : Nat) (hmt : m ≤ t)
    (ht : t ∈ qs) (x : Nat → Bool) (ψ : State R) (hs : ∀ c, c < m → SuppAt c (x c) ψ)
    (hM : ∀ c, c < m → M c = 1) (G : Mat2 R) :
    applyMcu (onesLits m) G t (rot M qs ψ)
      = rot (if allBelow x m then Function.update M t (G * M t) else M) qs ψ := by
  have hs' : ∀ c, c < m → SuppAt c (x c) (rot M qs ψ) := by
    intro c hc
    have h1 := hM c hc
    exact supp_rot_diag (hs c hc) M (by rw [h1]; rfl) (by rw [h1]; rfl) qs
  rw [mc_on_supp m t hmt x _ hs' G]
  cases allBelow x m
  · simp
  · simp only [if_true]
    exact g1_rot M qs hn ht G ψ

/-! ### The simulation step for the truncated ladder -/

/-- The virtual input of the merged base control: wire `e` stands for `x 0 ∧ … ∧ x e`. -/
def xMerge (e : Nat) (x : Nat → Bool) : Nat → Bool := Function.update x e (allBelow x (e + 1))

/-- The gate of the pair `(c, t)` (actual wires) with weight `w`: controlled by wire `c`, or — for
the merged base control `c = e` — by all the wires `0 … e`. -/
def opM (e k : Nat) (Ur Rx : ℚ → Mat2 R) (w : ℚ) (pr : Nat × Nat) : State R → State R :=
  applyMcu (if pr.1 = e then onesLits (e + 1) else [(pr.1, true)]) (gmat k Ur Rx pr.2 w) pr.2

section sim
variable {Ur Rx : ℚ → Mat2 R} (hU : OneParam Ur) (hR : OneParam Rx) (hH : HalfTurn Rx)
include hU hR hH

theorem simM_step (e k : Nat) (x : Nat → Bool) (ψ : State R) (hs : CtrlBasis k x ψ)
    (w : Nat × Nat → ℚ) (a a' : Acc) (ha : ∀ q, q ≤ e → a q = 0) (pr : Nat × Nat)
    (h0 : e ≤ pr.1) (h1 : pr.1 < pr.2) (h2 : pr.2 ≤ k)
    (hstep : stepG (xMerge e x) w (some a) pr = some a') :
    opM e k Ur Rx (w pr) pr (rot (matOf k Ur Rx a) (wiresOf k) ψ)
        = rot (matOf k Ur Rx a') (wiresOf k) ψ
      ∧ ∀ q, q ≤ e → a' q = 0 := by
  by_cases hc : pr.1 = e
  · -- merged control
    have hae : a pr.1 = 0 := ha _ (by omega)
    simp only [stepG, seen, hae, seenVal_zero, Option.some.injEq] at hstep
    have hx : xMerge e x pr.1 = allBelow x (e + 1) := by
      rw [hc]; exact Function.update_self _ _ _
    rw [hx] at hstep
    constructor
    · unfold opM
      rw [if_pos hc, mc_rot (matOf k Ur Rx a) (wiresOf k) List.nodup_range (e + 1) pr.2 (by omega)
        (List.mem_range.mpr (by omega)) x ψ (fun c hc' => hs c (by omega)) ?_]
      · rw [← hstep]
        cases allBelow x (e + 1)
        · simp
        · simp only [if_true]
          apply rot_congr
          intro q _
          by_cases hq : q = pr.2
          · subst hq
            simp only [Function.update_self, matOf, gmat]
            split
            · rw [add_comm, hU.add]
            · rw [add_comm, hR.add]
          · simp only [Function.update_of_ne hq, matOf]
      · intro c hc'
        have : c ≠ k := by omega
        simp only [matOf, this, if_false, ha c (by omega)]
        exact hR.zero
    · intro q hq
      rw [← hstep]
      split
      · rw [Function.update_of_ne (by omega)]; exact ha q hq
      · exact ha q hq
  · -- ordinary control: `sim_step`
    have hxe : xMerge e x pr.1 = x pr.1 := Function.update_of_ne hc _ _
    have hstep' : stepG x w (some a) pr = some a' := by
      simp only [stepG, seen] at hstep ⊢
      rw [hxe] at hstep
      exact hstep
    constructor
    · unfold opM
      rw [if_neg hc]
      exact sim_step hU hR hH k x ψ hs w a a' pr h1 h2 hstep'
    · intro q hq
      simp only [stepG] at hstep'
      split at hstep'
      · exact absurd hstep' (by simp)
      · simp only [Option.some.injEq] at hstep'
        rw [← hstep']
        split
        · rw [Function.update_of_ne (by omega)]; exact ha q hq
        · exact ha q hq

theorem simM_list (e k : Nat) (x : Nat → Bool) (ψ : State R) (hs : CtrlBasis k x ψ)
    (w : Nat × Nat → ℚ) (L : List (Nat × Nat))
    (hL : ∀ pr ∈ L, e ≤ pr.1 ∧ pr.1 < pr.2 ∧ pr.2 ≤ k)
    (a a' : Acc) (ha : ∀ q, q ≤ e → a q = 0)
    (h : L.foldl (stepG (xMerge e x) w) (some a) = some a') :
    L.foldl (fun s pr => opM e k Ur Rx (w pr) pr s) (rot (matOf k Ur Rx a) (wiresOf k) ψ)
        = rot (matOf k Ur Rx a') (wiresOf k) ψ
      ∧ ∀ q, q ≤ e → a' q = 0 := by
  induction L generalizing a with
  | nil =>
    simp only [List.foldl_nil, Option.some.injEq] at h
    subst h
    exact ⟨rfl, ha⟩
  | cons pr L ih =>
    rw [List.foldl_cons] at h
    cases hst : stepG (xMerge e x) w (some a) pr with
    | none => rw [hst, foldl_stepG_none] at h; exact absurd h (by simp)
    | some a1 =>
      rw [hst] at h
      have hp := hL pr List.mem_cons_self
      obtain ⟨e1, e2⟩ := simM_step hU hR hH e k x ψ hs w a a1 ha pr hp.1 hp.2.1 hp.2.2 hst
      rw [List.foldl_cons, e1]
      exact ih (fun p hp' => hL p (List.mem_cons_of_mem _ hp')) a1 e2 h

end sim
end Qclib.Mcu2
