import QclibModel.Proofs.Mcu2Ladder
/-
  Operational form of the exponent bookkeeping (C04, part B): the actual sorted schedule is *run*
  gate by gate under the classical-propagation semantics — every wire carries its input bit and
  the rational number of half-turns it has received; a gate fires iff its control wire, which must
  have received an integer number of half-turns, currently reads 1.  The four sweeps succeed (no
  gate ever meets a control in a non-integer state), leave `[all controls are 1]` on the target and
  zero on every control.
-/
namespace Qclib.Mcu2

/-- Half-turns (controls) / exponent of `U` (target) received so far, per wire. -/
abbrev Acc := Nat → ℚ

/-- What a control wire with input bit `xq` reads after `r` half-turns: `RX(π·m) = (-iX)^m` flips
the bit iff the integer `m` is odd; a non-integer count is not a basis state (`none`). -/
def seenVal (xq : Bool) (r : ℚ) : Option Bool :=
  if r.den = 1 then some (xor xq (decide (r.num % 2 = 1))) else none

def seen (x : Nat → Bool) (a : Acc) (q : Nat) : Option Bool := seenVal (x q) (a q)

/-- One scheduled gate with weight `w pr`. -/
def stepG (x : Nat → Bool) (w : Nat × Nat → ℚ) : Option Acc → Nat × Nat → Option Acc
  | none, _ => none
  | some a, pr =>
    match seen x a pr.1 with
    | none => none
    | some b => some (if b then Function.update a pr.2 (a pr.2 + w pr) else a)

/-- Total weight delivered to wire `q` by the gates of `L` whose control reads 1 under `v`. -/
def tsum (L : List (Nat × Nat)) (w : Nat × Nat → ℚ) (v : Nat → Bool) (q : Nat) : ℚ :=
  (L.map fun pr => if pr.2 = q ∧ v pr.1 = true then w pr else 0).sum

theorem tsum_cons (pr : Nat × Nat) (L : List (Nat × Nat)) (w : Nat × Nat → ℚ) (v : Nat → Bool)
    (q : Nat) :
    tsum (pr :: L) w v q = (if pr.2 = q ∧ v pr.1 = true then w pr else 0) + tsum L w v q := by
  simp [tsum]

theorem tsum_eq_zero (L : List (Nat × Nat)) (w : Nat × Nat → ℚ) (v : Nat → Bool) (q : Nat)
    (h : ∀ pr ∈ L, pr.2 ≠ q) : tsum L w v q = 0 := by
  unfold tsum
  apply List.sum_eq_zero
  intro y hy
  simp only [List.mem_map] at hy
  obtain ⟨pr, hpr, rfl⟩ := hy
  simp [h pr hpr]

theorem step_acc (x : Nat → Bool) (w : Nat × Nat → ℚ) (v : Nat → Bool) (a : Acc) (pr : Nat × Nat)
    (L : List (Nat × Nat)) (hs : seen x a pr.1 = some (v pr.1)) :
    ∃ a', stepG x w (some a) pr = some a' ∧
      (∀ q, a' q + tsum L w v q = a q + tsum (pr :: L) w v q) ∧ (∀ q, q ≠ pr.2 → a' q = a q) := by
  simp only [stepG, hs]
  refine ⟨_, rfl, fun q => ?_, fun q hq => ?_⟩
  · rw [tsum_cons]
    by_cases hv : v pr.1 = true
    · by_cases hq : pr.2 = q
      · subst hq; simp [hv]; ring
      · have : q ≠ pr.2 := fun h => hq h.symm
        simp [hv, hq, Function.update_of_ne this]
    · simp [hv]
  · by_cases hv : v pr.1 = true
    · simp [hv, Function.update_of_ne hq]
    · simp [hv]

/-- Descending sweep: no gate targets a wire that a later gate uses as control, so every gate
sees its control as it was at the start of the sweep. -/
theorem fwdRun (x : Nat → Bool) (w : Nat × Nat → ℚ) (v : Nat → Bool) (L : List (Nat × Nat))
    (hdep : L.Pairwise (fun a b => a.2 ≠ b.1)) (a : Acc)
    (hv : ∀ pr ∈ L, seen x a pr.1 = some (v pr.1)) :
    L.foldl (stepG x w) (some a) = some (fun q => a q + tsum L w v q) := by
  induction L generalizing a with
  | nil => simp [tsum]
  | cons pr L ih =>
    obtain ⟨a', h1, h2, h3⟩ := step_acc x w v a pr L (hv pr List.mem_cons_self)
    rw [List.foldl_cons, h1, ih (List.pairwise_cons.mp hdep).2 a']
    · congr 1; funext q; exact h2 q
    · intro pr' hpr'
      have hne : pr'.1 ≠ pr.2 := fun h => (List.pairwise_cons.mp hdep).1 pr' hpr' h.symm
      have := hv pr' (List.mem_cons_of_mem _ hpr')
      simpa [seen, h3 _ hne] using this

/-- Ascending sweep: no gate's control is targeted later, so every gate sees its control in its
final state of the sweep. -/
theorem bwdRun (x : Nat → Bool) (w : Nat × Nat → ℚ) (v : Nat → Bool) (L : List (Nat × Nat))
    (hdep : L.Pairwise (fun a b => a.1 ≠ b.2)) (hself : ∀ pr ∈ L, pr.1 ≠ pr.2) (a : Acc)
    (hv : ∀ pr ∈ L, seen x (fun q => a q + tsum L w v q) pr.1 = some (v pr.1)) :
    L.foldl (stepG x w) (some a) = some (fun q => a q + tsum L w v q) := by
  induction L generalizing a with
  | nil => simp [tsum]
  | cons pr L ih =>
    have hz : tsum (pr :: L) w v pr.1 = 0 := by
      apply tsum_eq_zero
      intro p hp
      rcases List.mem_cons.mp hp with rfl | hp
      · exact fun h => hself p List.mem_cons_self h.symm
      · exact fun h => (List.pairwise_cons.mp hdep).1 p hp h.symm
    have hs : seen x a pr.1 = some (v pr.1) := by
      have := hv pr List.mem_cons_self
      simpa [seen, hz] using this
    obtain ⟨a', h1, h2, _⟩ := step_acc x w v a pr L hs
    have hfun : (fun q => a' q + tsum L w v q) = fun q => a q + tsum (pr :: L) w v q :=
      funext h2
    rw [List.foldl_cons, h1, ih (List.pairwise_cons.mp hdep).2
      (fun p hp => hself p (List.mem_cons_of_mem _ hp)) a', hfun]
    intro pr' hpr'
    rw [hfun]
    exact hv pr' (List.mem_cons_of_mem _ hpr')

/-! ### The four sweeps of `Ldmcu` -/

/-- One sweep of `_c1c2(n, first, step)` run from the state `s`. -/
def runSweep (x : Nat → Bool) (n : Nat) (first fwd : Bool) (s : Option Acc) : Option Acc :=
  (qubitPairs n fwd).foldl (stepG x (fun pr => wt pr first fwd)) s

theorem tsum_arrive (n : Nat) (first fwd : Bool) (v : Nat → Bool) (q : Nat) :
    tsum (qubitPairs n fwd) (fun pr => wt pr first fwd) v q = arrive n first fwd v q := rfl

theorem arrive_ge (n : Nat) (first fwd : Bool) (v : Nat → Bool) (q : Nat) (h : n ≤ q) :
    arrive n first fwd v q = 0 := by
  rw [arrive_eq, if_neg (by omega)]

theorem seenVal_zero (b : Bool) : seenVal b 0 = some b := by simp [seenVal]

theorem seenVal_andQ (x : Nat → Bool) (c : Nat) (hc : c ≠ 0) :
    seenVal (x c) (andQ x c) = some (mid x c) := by
  simp only [andQ, mid, hc, if_false]
  cases allBelow x c <;> simp [seenVal]

theorem dep_fwd (n : Nat) : (qubitPairs n true).Pairwise (fun a b => a.2 ≠ b.1) := by
  simpa using qubitPairs_dep n true

theorem dep_bwd (n : Nat) : (qubitPairs n false).Pairwise (fun a b => a.1 ≠ b.2) := by
  simpa using qubitPairs_dep n false

theorem mem_bounds {n : Nat} {fwd : Bool} {pr : Nat × Nat} (h : pr ∈ qubitPairs n fwd) :
    startOf fwd ≤ pr.1 ∧ pr.1 < pr.2 ∧ pr.2 < n := by
  obtain ⟨c, t⟩ := pr
  exact mem_qubitPairs.mp h

/-- The state after sweeps 1 and 2: wire `q` (`1 ≤ q ≤ k`) has received `[all wires below q are 1]`. -/
def midAcc (k : Nat) (x : Nat → Bool) : Acc := fun q => if 1 ≤ q ∧ q ≤ k then andQ x q else 0

theorem run12 (k : Nat) (x : Nat → Bool) :
    runSweep x (k + 1) true false (runSweep x (k + 1) true true (some fun _ => 0))
      = some (midAcc k x) := by
  have h1 : runSweep x (k + 1) true true (some fun _ => 0)
      = some (fun q => 0 + arrive (k + 1) true true x q) := by
    unfold runSweep
    rw [fwdRun x _ x _ (dep_fwd _) _ (fun pr _ => by simp [seen, seenVal_zero])]
    rfl
  have hsum : ∀ q, (0 + arrive (k + 1) true true x q) + arrive (k + 1) true false (mid x) q
      = midAcc k x q := by
    intro q
    unfold midAcc
    by_cases hq : 1 ≤ q ∧ q ≤ k
    · rw [if_pos hq, zero_add, sweeps12 k x q hq.1 hq.2]
    · rw [if_neg hq, zero_add]
      by_cases h0 : q = 0
      · subst h0; rw [arrive_zero, arrive_zero]; ring
      · rw [arrive_ge _ _ _ _ _ (by omega), arrive_ge _ _ _ _ _ (by omega)]; ring
  rw [h1]
  unfold runSweep
  rw [bwdRun x _ (mid x) _ (dep_bwd _) (fun pr h => by have := mem_bounds h; omega)]
  · congr 1; funext q; exact hsum q
  · intro pr hpr
    have hb := mem_bounds hpr
    simp only [startOf, Bool.false_eq_true, if_false] at hb
    change seenVal (x pr.1) (0 + arrive (k + 1) true true x pr.1
      + arrive (k + 1) true false (mid x) pr.1) = _
    rw [hsum, midAcc, if_pos ⟨hb.1, by omega⟩]
    exact seenVal_andQ x pr.1 (by omega)

theorem run34 (k : Nat) (x : Nat → Bool) :
    runSweep x k false false (runSweep x k false true (some (midAcc k x)))
      = some (fun q => if q = k ∧ 1 ≤ k then andQ x k else 0) := by
  have h3 : runSweep x k false true (some (midAcc k x))
      = some (fun q => midAcc k x q + arrive k false true (mid x) q) := by
    unfold runSweep
    rw [fwdRun x _ (mid x) _ (dep_fwd _)]
    · rfl
    · intro pr hpr
      have hb := mem_bounds hpr
      show seenVal (x pr.1) (midAcc k x pr.1) = _
      by_cases h0 : pr.1 = 0
      · rw [h0, mid_zero, midAcc, if_neg (by omega)]; exact seenVal_zero _
      · rw [midAcc, if_pos ⟨by omega, by omega⟩]; exact seenVal_andQ x pr.1 h0
  have hsum : ∀ q, (midAcc k x q + arrive k false true (mid x) q) + arrive k false false x q
      = if q = k ∧ 1 ≤ k then andQ x k else 0 := by
    intro q
    by_cases hq : 1 ≤ q ∧ q < k
    · have := sweeps34 k x q hq.1 hq.2
      rw [midAcc, if_pos ⟨hq.1, by omega⟩, if_neg (by omega)]
      linarith
    · by_cases h0 : q = 0
      · subst h0
        rw [arrive_zero, arrive_zero, midAcc, if_neg (by omega), if_neg (by omega)]; ring
      · rw [arrive_ge _ _ _ _ _ (by omega), arrive_ge _ _ _ _ _ (by omega), midAcc]
        by_cases hk : q = k
        · subst hk; rw [if_pos ⟨by omega, le_refl _⟩, if_pos ⟨rfl, by omega⟩]; ring
        · rw [if_neg (by omega), if_neg (by omega)]; ring
  rw [h3]
  unfold runSweep
  rw [bwdRun x _ x _ (dep_bwd _) (fun pr h => by have := mem_bounds h; omega)]
  · congr 1; funext q; exact hsum q
  · intro pr hpr
    have hb := mem_bounds hpr
    simp only [startOf, Bool.false_eq_true, if_false] at hb
    change seenVal (x pr.1) (midAcc k x pr.1 + arrive k false true (mid x) pr.1
      + arrive k false false x pr.1) = _
    rw [hsum, if_neg (by omega)]
    exact seenVal_zero _

end Qclib.Mcu2
