import QclibModel.Proofs.PleschSem
/-
  C01 (low-rank assembly): the four phases on two disjoint registers `A` (`reg_a`), `B` (`reg_b`)
  of distinct wires, for every size.  Phase 1 (`Msv` on the first `e` wires of `B`) and phase 2
  (fan-out `cx(B[j], A[j])`, `j < e`) leave, on a label reading `x` on `B` and `y` on `A`, the
  amplitude `[y = x < 2^e] · Msv[y, 0]` times the input amplitude of the cleared label
  (`phase12`); phases 3–4 then give the double sum `plesch_assembly_regs`, which `Schmidt.assembly`
  collapses to `Σ_{j<2^e} MU[x', j] · Msv[j, 0] · MV[y', j]` (`plesch_assembly_regs_sum`).
-/
namespace Qclib.Plesch
open Qclib.Schmidt

section Core
variable {R : Type} [CommRing R]

/-- The fan-out list of phase 2 on registers `B` (controls), `A` (targets). -/
def fanList (A B : List Nat) (e : Nat) : List (Nat × Nat) :=
  (List.range e).map (fun j => (B.getD j 0, A.getD j 0))

theorem fanList_mem {A B : List Nat} {e : Nat} (heA : e ≤ A.length) (heB : e ≤ B.length) {j : Nat}
    (hj : j < e) : (B[j]'(by omega), A[j]'(by omega)) ∈ fanList A B e := by
  refine List.mem_map.mpr ⟨j, List.mem_range.mpr hj, ?_⟩
  simp only [List.getD_eq_getElem?_getD]
  rw [List.getElem?_eq_getElem (by omega), List.getElem?_eq_getElem (by omega)]
  rfl

theorem fanList_snd {A B : List Nat} {e : Nat} (heA : e ≤ A.length) :
    (fanList A B e).map Prod.snd = A.take e := by
  apply List.ext_getElem
  · simp [fanList, List.length_take]; omega
  · intro i h1 h2
    have hi : i < e := by simpa [fanList] using h1
    simp only [fanList, List.map_map, List.getElem_map, List.getElem_range, Function.comp,
      List.getElem_take, List.getD_eq_getElem?_getD]
    rw [List.getElem?_eq_getElem (by omega)]
    rfl

theorem fanList_fst_mem {A B : List Nat} {e : Nat} (heB : e ≤ B.length) {p : Nat × Nat}
    (hp : p ∈ fanList A B e) : p.1 ∈ B := by
  obtain ⟨j, hj, rfl⟩ := List.mem_map.mp hp
  have hj' : j < e := List.mem_range.mp hj
  simp only [List.getD_eq_getElem?_getD]
  rw [List.getElem?_eq_getElem (by omega)]
  exact List.getElem_mem _

variable (A B : List Nat) (hA : A.Nodup) (hB : B.Nodup) (hAB : ∀ w ∈ A, w ∉ B)
  (e : Nat) (heA : e ≤ A.length) (heB : e ≤ B.length)

include hA hAB heA heB in
/-- Fan-out: wires outside the first `e` wires of `A` are untouched; `A[j]` gets `A[j] ⊕ B[j]`. -/
theorem fan_fanList (c : Bits) :
    (∀ w, w ∉ A.take e → fan (fanList A B e) c w = c w) ∧
    (∀ j (hj : j < e), fan (fanList A B e) c (A[j]'(by omega))
        = xor (c (A[j]'(by omega))) (c (B[j]'(by omega)))) := by
  have hsnd := fanList_snd (A := A) (B := B) heA
  refine ⟨fun w hw => fan_not_target _ _ (by rw [hsnd]; exact hw), fun j hj => ?_⟩
  have hnd : ((fanList A B e).map Prod.snd).Nodup := by
    rw [hsnd]; exact (List.take_sublist e A).nodup hA
  have hc : ∀ p ∈ fanList A B e, p.1 ∉ (fanList A B e).map Prod.snd := by
    intro p hp hm
    rw [hsnd] at hm
    exact hAB _ (List.mem_of_mem_take hm) (fanList_fst_mem heB hp)
  exact fan_target _ hnd hc c _ (fanList_mem heA heB hj)

include hA hB hAB heA heB in
/-- **Phases 1–2.**  Input `ψ` vanishing whenever a wire of `A ∪ B` is set.  On a label `c` that
reads `x` on `B`, `y` on `A` and agrees with `b` elsewhere, the amplitude after the singular-value
block and the CNOT fan-out is `Msv[y,0]·ψ(b cleared)` if `y = x < 2^e`, and `0` otherwise. -/
theorem phase12 (Msv : Nat → Nat → R) (ψ : State R)
    (hz : ∀ b, (∃ w ∈ A ++ B, b w = true) → ψ b = 0)
    (x y : Nat) (hx : x < 2 ^ B.length) (hy : y < 2 ^ A.length) (c b : Bits)
    (hcB : ∀ j (hj : j < B.length), c B[j] = x.testBit j)
    (hcA : ∀ j (hj : j < A.length), c A[j] = y.testBit j)
    (hcF : ∀ w, w ∉ A → w ∉ B → c w = b w) :
    semP ([PG.block (B.take e) Msv] ++ (fanList A B e).map (fun ct => PG.cx ct.1 ct.2)) ψ c
      = (if y = x ∧ y < 2 ^ e then Msv y 0 else 0) * ψ (clr (A ++ B) b) := by
  obtain ⟨hd1, hd2⟩ := fan_fanList A B hA hAB e heA heB c
  have hSvnd : (B.take e).Nodup := (List.take_sublist e B).nodup hB
  have hSvlen : (B.take e).length = e := by rw [List.length_take]; omega
  have hzSv : ∀ b', (∃ w ∈ B.take e, b' w = true) → ψ b' = 0 := by
    rintro b' ⟨w, hw, hb'⟩
    exact hz b' ⟨w, List.mem_append_right _ (List.mem_of_mem_take hw), hb'⟩
  rw [semP_append, semP_cxs, semP_cons, semP_nil]
  show applyBlock (B.take e) Msv ψ (fan (fanList A B e) c) = _
  rw [applyBlock_zeroOn hSvnd Msv ψ hzSv]
  -- the fanned-out label on the wires of B and A
  have hdB : ∀ j (hj : j < B.length), fan (fanList A B e) c B[j] = x.testBit j := by
    intro j hj
    rw [hd1 _ (fun hm => hAB _ (List.mem_of_mem_take hm) (List.getElem_mem hj)), hcB j hj]
  have hdAlo : ∀ j (hj : j < e), fan (fanList A B e) c (A[j]'(by omega))
      = xor (y.testBit j) (x.testBit j) := by
    intro j hj
    rw [hd2 j hj, hcA j (by omega), hcB j (by omega)]
  have hdAhi : ∀ j (hj : j < A.length), e ≤ j → fan (fanList A B e) c A[j] = y.testBit j := by
    intro j hj hej
    rw [hd1 _ (getElem_not_mem_take hA hej hj), hcA j hj]
  have hAnotSv : ∀ j (hj : j < A.length), A[j] ∉ B.take e :=
    fun j hj hm => hAB _ (List.getElem_mem hj) (List.mem_of_mem_take hm)
  by_cases h : y = x ∧ y < 2 ^ e
  · obtain ⟨rfl, hlt⟩ := h
    rw [if_pos ⟨rfl, hlt⟩]
    have hval : regVal (B.take e) (fan (fanList A B e) c) = y := by
      have hvl := regVal_lt (B.take e) (fan (fanList A B e) c)
      rw [hSvlen] at hvl
      apply eq_of_testBit_lt (k := e) hvl hlt
      intro j hj
      rw [regVal_testBit _ _ j (by omega), List.getElem_take]
      exact hdB j (by omega)
    have hclr : clr (B.take e) (fan (fanList A B e) c) = clr (A ++ B) b := by
      funext w
      by_cases hwA : w ∈ A
      · obtain ⟨j, hj, rfl⟩ := List.mem_iff_getElem.mp hwA
        rw [clr_of_mem (A ++ B) b (List.mem_append_left _ hwA), clr_of_not_mem _ _ (hAnotSv j hj)]
        by_cases hje : j < e
        · rw [hdAlo j hje, Bool.xor_self]
        · rw [hdAhi j hj (by omega), testBit_false_of_lt hlt (by omega)]
      · by_cases hwB : w ∈ B
        · obtain ⟨j, hj, rfl⟩ := List.mem_iff_getElem.mp hwB
          rw [clr_of_mem (A ++ B) b (List.mem_append_right _ hwB)]
          by_cases hje : j < e
          · rw [clr_of_mem _ _ (getElem_mem_take hje hj)]
          · rw [clr_of_not_mem _ _ (getElem_not_mem_take hB (by omega) hj), hdB j hj,
              testBit_false_of_lt hlt (by omega)]
        · have hnSv : w ∉ B.take e := fun hm => hwB (List.mem_of_mem_take hm)
          have hnAB : w ∉ A ++ B := by
            intro hm
            rcases List.mem_append.mp hm with h1 | h1
            · exact hwA h1
            · exact hwB h1
          rw [clr_of_not_mem _ _ hnSv, clr_of_not_mem _ _ hnAB,
            hd1 _ (fun hm => hwA (List.mem_of_mem_take hm)), hcF w hwA hwB]
    rw [hval, hclr]
  · rw [if_neg h, zero_mul]
    suffices hw : ∃ w ∈ A ++ B, clr (B.take e) (fan (fanList A B e) c) w = true by
      rw [hz _ hw, mul_zero]
    by_cases hxe : x < 2 ^ e
    · have hne : y ≠ x := fun hyx => h ⟨hyx, hyx ▸ hxe⟩
      obtain ⟨j, hj⟩ := exists_bit_ne hne
      by_cases hje : j < e
      · refine ⟨A[j]'(by omega), List.mem_append_left _ (List.getElem_mem _), ?_⟩
        rw [clr_of_not_mem _ _ (hAnotSv j (by omega)), hdAlo j hje]
        revert hj
        cases y.testBit j <;> cases x.testBit j <;> simp
      · have hxj : x.testBit j = false := testBit_false_of_lt hxe (by omega)
        have hyj : y.testBit j = true := by
          rw [hxj] at hj
          revert hj
          cases y.testBit j <;> simp
        have hjA : j < A.length := by
          apply Classical.byContradiction
          intro hn
          rw [testBit_false_of_lt hy (by omega)] at hyj
          cases hyj
        refine ⟨A[j], List.mem_append_left _ (List.getElem_mem _), ?_⟩
        rw [clr_of_not_mem _ _ (hAnotSv j hjA), hdAhi j hjA (by omega), hyj]
    · obtain ⟨j, hej, hxj⟩ := exists_high_bit hxe
      have hjB : j < B.length := by
        apply Classical.byContradiction
        intro hn
        rw [testBit_false_of_lt hx (by omega)] at hxj
        cases hxj
      refine ⟨B[j], List.mem_append_right _ (List.getElem_mem _), ?_⟩
      rw [clr_of_not_mem _ _ (getElem_not_mem_take hB hej hjB), hdB j hjB, hxj]

include hA hB hAB heA heB in
/-- **Plesch assembly at register level.**  Registers `A`, `B` of distinct wires, disjoint;
`e ≤ |A|, |B|`; input vanishing whenever a wire of `A ∪ B` is set.  After the four phases the
amplitude at a label reading `x'` on `B` and `y'` on `A` is
`Σ_y Σ_x MV[y',y]·MU[x',x]·[y = x < 2^e]·Msv[y,0]` times the input amplitude of the label with
`A ∪ B` cleared. -/
theorem plesch_assembly_regs (Msv MU MV : Nat → Nat → R) (ψ : State R)
    (hz : ∀ b, (∃ w ∈ A ++ B, b w = true) → ψ b = 0) (b : Bits) :
    semP ([PG.block (B.take e) Msv] ++ (fanList A B e).map (fun ct => PG.cx ct.1 ct.2) ++
        [PG.block B MU, PG.block A MV]) ψ b
      = sumTo (2 ^ A.length) (fun y => sumTo (2 ^ B.length) (fun x =>
          MV (regVal A b) y * MU (regVal B b) x * (if y = x ∧ y < 2 ^ e then Msv y 0 else 0)))
        * ψ (clr (A ++ B) b) := by
  have hBA : ∀ w ∈ B, w ∉ A := fun w hw hwA => hAB w hwA hw
  rw [semP_append]
  generalize hφ : semP ([PG.block (B.take e) Msv] ++
    (fanList A B e).map (fun ct => PG.cx ct.1 ct.2)) ψ = φ
  show applyBlock A MV (applyBlock B MU φ) b = _
  unfold applyBlock
  rw [← sumTo_mul_right]
  apply sumTo_congr
  intro y hy
  rw [regVal_setReg_other B A hBA, ← sumTo_mul_right, ← sumTo_mul_left]
  apply sumTo_congr
  intro x hx
  rw [← hφ, phase12 A B hA hB hAB e heA heB Msv ψ hz x y hx hy _ b]
  · ring
  · intro j hj
    exact setReg_getElem hB _ _ j hj
  · intro j hj
    rw [setReg_not_mem _ _ _ (hAB _ (List.getElem_mem hj)), setReg_getElem hA _ _ j hj]
  · intro w hwA hwB
    rw [setReg_not_mem _ _ _ hwB, setReg_not_mem _ _ _ hwA]

include hA hB hAB heA heB in
/-- The same with the double sum collapsed (`Schmidt.assembly`):
`Σ_{j<2^e} MU[x',j]·Msv[j,0]·MV[y',j]`. -/
theorem plesch_assembly_regs_sum (Msv MU MV : Nat → Nat → R) (ψ : State R)
    (hz : ∀ b, (∃ w ∈ A ++ B, b w = true) → ψ b = 0) (b : Bits) :
    semP ([PG.block (B.take e) Msv] ++ (fanList A B e).map (fun ct => PG.cx ct.1 ct.2) ++
        [PG.block B MU, PG.block A MV]) ψ b
      = sumTo (2 ^ e) (fun j => MU (regVal B b) j * Msv j 0 * MV (regVal A b) j)
        * ψ (clr (A ++ B) b) := by
  rw [plesch_assembly_regs A B hA hB hAB e heA heB Msv MU MV ψ hz b,
    assembly (2 ^ A.length) (2 ^ B.length) (2 ^ e)
      (Nat.pow_le_pow_right (by decide) heA) (Nat.pow_le_pow_right (by decide) heB)
      MV MU (fun y => Msv y 0) (regVal A b) (regVal B b)]
  congr 1
  apply sumTo_congr
  intro j _
  ring

end Core

/-- Non-vacuity of `plesch_assembly_regs_sum`: `A = [0]`, `B = [1]`, one e-bit, all matrices the
identity pattern over `ℤ`, input `|00⟩`. -/
example : semP ([PG.block ([1].take 1) (fun x _ => if x = 0 then (1 : Int) else 0)] ++
      (fanList [0] [1] 1).map (fun ct => PG.cx ct.1 ct.2) ++
      [PG.block [1] (fun x j => if x = j then 1 else 0),
       PG.block [0] (fun x j => if x = j then 1 else 0)])
      (fun b => if b 0 || b 1 then 0 else 1) (fun _ => false) = 1 := by
  rw [plesch_assembly_regs_sum [0] [1] (by simp) (by simp) (by simp) 1 (by simp) (by simp) _ _ _ _
    (by
      intro b hb
      obtain ⟨w, hw, hbw⟩ := hb
      have : w = 0 ∨ w = 1 := by simpa using hw
      rcases this with rfl | rfl <;> simp [hbw])]
  simp [sumTo, regVal, clr]

end Qclib.Plesch
