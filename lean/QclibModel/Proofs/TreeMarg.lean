import QclibModel.Proofs.TreeSem
import QclibModel.Proofs.TreeSum
import Mathlib.Tactic.Ring
/-
  C11: measurement statistics of the state prepared by the ancilla-tree circuit (`bottom_up` on a
  whole tree, closed form `treeAmp` of Proofs/TreeSem.lean).  `treeProb` is the squared modulus of
  `treeAmp` written with abstract `c2 = cos²(y/2)`, `s2 = sin²(y/2)`.

  * `treeProb_total`     the probabilities sum to one over all tree wires (all tree shapes)
  * `treeProb_marginal`  summing over the ancilla wires (everything off the left spine) of a
                         complete tree leaves `spineProb`
  * `spineProb_eq_spW`   `spineProb` is the root-to-leaf product read off the left-spine wires
-/
namespace Qclib
variable {Θ K : Type} [CommRing K]

def nodeProb (c2 s2 : Θ → K) (v : QV Θ) (b : Bits) : K := if b (wire v.q) then s2 v.y else c2 v.y

def treeProb (o : TOps Θ) (c2 s2 : Θ → K) : BT (QV Θ) → Bits → K
  | .nil, _ => 1
  | .node v l r, b =>
    nodeProb c2 s2 v b * (treeProb o c2 s2 l (cswapPerm o (.node v l r) b)
      * treeProb o c2 s2 r (cswapPerm o (.node v l r) b))

/-- ancilla wires = all wires not on the left spine -/
def anc : BT (QV Θ) → List Nat
  | .nil => []
  | .node _ l r => anc l ++ treeWires r

def spineProb (o : TOps Θ) (c2 s2 : Θ → K) : BT (QV Θ) → Bits → K
  | .nil, _ => 1
  | .node v l r, b =>
    if b (wire v.q) then s2 v.y * spineProb o c2 s2 r (cswapPerm o (.node v l r) b)
    else c2 v.y * spineProb o c2 s2 l b

/-! ### 0. Congruences -/

/-- `f` reads only the wires in `S`. -/
def DepOn (S : List Nat) (f : Bits → K) : Prop := ∀ b b', (∀ w ∈ S, b w = b' w) → f b = f b'

/-- `treeProb` reads only the wires of its tree. -/
theorem treeProb_congr (o : TOps Θ) (c2 s2 : Θ → K) : ∀ (t : BT (QV Θ)) (b b' : Bits),
    (∀ w ∈ treeWires t, b w = b' w) → treeProb o c2 s2 t b = treeProb o c2 s2 t b'
  | .nil, _, _, _ => rfl
  | .node v l r, b, b', h => by
    rw [treeWires_node] at h
    have hq : b (wire v.q) = b' (wire v.q) := h _ (List.mem_cons_self ..)
    have hc := cswapPerm_congr o v l r b b' hq (fun w hw => h w (List.mem_cons_of_mem _ (by
      rcases hw with hw | hw
      · exact List.mem_append_left _ hw
      · exact List.mem_append_right _ hw)))
    simp only [treeProb]
    rw [treeProb_congr o c2 s2 l _ _ (fun w hw => hc w (Or.inl hw)),
      treeProb_congr o c2 s2 r _ _ (fun w hw => hc w (Or.inr hw))]
    simp only [nodeProb, hq]

theorem treeProb_depOn (o : TOps Θ) (c2 s2 : Θ → K) (t : BT (QV Θ)) :
    DepOn (treeWires t) (treeProb o c2 s2 t) := treeProb_congr o c2 s2 t

/-- `spineProb` reads only the wires of its tree. -/
theorem spineProb_congr (o : TOps Θ) (c2 s2 : Θ → K) : ∀ (t : BT (QV Θ)) (b b' : Bits),
    (∀ w ∈ treeWires t, b w = b' w) → spineProb o c2 s2 t b = spineProb o c2 s2 t b'
  | .nil, _, _, _ => rfl
  | .node v l r, b, b', h => by
    rw [treeWires_node] at h
    have hq : b (wire v.q) = b' (wire v.q) := h _ (List.mem_cons_self ..)
    have hc := cswapPerm_congr o v l r b b' hq (fun w hw => h w (List.mem_cons_of_mem _ (by
      rcases hw with hw | hw
      · exact List.mem_append_left _ hw
      · exact List.mem_append_right _ hw)))
    simp only [spineProb, hq]
    rw [spineProb_congr o c2 s2 r _ _ (fun w hw => hc w (Or.inr hw)),
      spineProb_congr o c2 s2 l b b'
        (fun w hw => h w (List.mem_cons_of_mem _ (List.mem_append_left _ hw)))]

/-- Congruence of sums restricted to the labels actually visited. -/
theorem sumOver_congr_on (ws : List Nat) (f g : Bits → K) (b : Bits)
    (h : ∀ x, (∀ i, i ∉ ws → x i = b i) → f x = g x) : sumOver ws f b = sumOver ws g b := by
  induction ws generalizing b with
  | nil => exact h b (fun _ _ => rfl)
  | cons w ws ih =>
    have key : ∀ v : Bool, sumOver ws f (setBit b w v) = sumOver ws g (setBit b w v) := by
      intro v
      apply ih
      intro x hx
      apply h
      intro i hi
      have hiw : i ≠ w := fun e => hi (e ▸ List.mem_cons_self ..)
      rw [hx i (fun hm => hi (List.mem_cons_of_mem _ hm)), setBit_ne _ _ hiw]
    rw [sumOver_cons, sumOver_cons, key false, key true]

omit [CommRing K] in
theorem depOn_setBit {S : List Nat} {f : Bits → K} (hf : DepOn S f) (b : Bits) (w : Nat)
    (v : Bool) (hw : w ∉ S) : f (setBit b w v) = f b :=
  hf _ _ (fun _ hi => setBit_ne _ _ (fun e => hw (e ▸ hi)))

theorem depOn_sumOver {S : List Nat} {f : Bits → K} (hf : DepOn S f) (ws : List Nat) :
    DepOn S (sumOver ws f) := by
  induction ws with
  | nil => exact hf
  | cons w ws ih =>
    intro b b' h
    have key : ∀ v : Bool, ∀ i ∈ S, setBit b w v i = setBit b' w v i := by
      intro v i hi
      by_cases hiw : i = w
      · subst hiw; rw [setBit_eq, setBit_eq]
      · rw [setBit_ne _ _ hiw, setBit_ne _ _ hiw]; exact h i hi
    rw [sumOver_cons, sumOver_cons, ih _ _ (key false), ih _ _ (key true)]

/-- Sum of a product of two factors reading disjoint wire sets. -/
theorem sumOver_prod {S T : List Nat} {f g : Bits → K} (hf : DepOn S f) (hg : DepOn T g)
    (A B : List Nat) (hB : ∀ w ∈ B, w ∉ S) (hA : ∀ w ∈ A, w ∉ T) (b : Bits) :
    sumOver (A ++ B) (fun x => f x * g x) b = sumOver A f b * sumOver B g b := by
  rw [sumOver_append]
  have h1 : ∀ x, sumOver B (fun x => f x * g x) x = f x * sumOver B g x := fun x =>
    sumOver_mul_left B f g (fun b w v hw => depOn_setBit hf b w v (hB w hw)) x
  rw [sumOver_congr A _ _ h1]
  exact sumOver_mul_right A f (sumOver B g)
    (fun b w v hw => depOn_setBit (depOn_sumOver hg B) b w v (hA w hw)) b

/-! ### 1. Wires of the swap network -/

theorem leftmost_sublist (v : QV Θ) (l r : BT (QV Θ)) :
    (treeWires (BT.leftmost (.node v l r))).Sublist (treeWires l ++ treeWires r) := by
  simp only [BT.leftmost]
  split
  · exact List.sublist_append_right _ _
  · exact List.sublist_append_left _ _

theorem chainPairs_fst_sublist : ∀ (l r : BT (QV Θ)),
    ((chainPairs l r).map Prod.fst).Sublist (treeWires l)
  | .nil, _ => by simp [chainPairs]
  | .node .., .nil => by simp [chainPairs]
  | .node vl ll lr, .node vr rl rr => by
    simp only [chainPairs, List.map_cons, treeWires_node]
    exact ((chainPairs_fst_sublist ll _).trans (List.sublist_append_left _ _)).cons_cons _

theorem chainPairs_snd_sublist : ∀ (l r : BT (QV Θ)),
    ((chainPairs l r).map Prod.snd).Sublist (treeWires r)
  | .nil, _ => by simp [chainPairs]
  | .node .., .nil => by simp [chainPairs]
  | .node vl ll lr, .node vr rl rr => by
    have h1 := (chainPairs_snd_sublist ll (BT.leftmost (.node vr rl rr))).trans
      (leftmost_sublist vr rl rr)
    simp only [chainPairs, List.map_cons, treeWires_node]
    exact h1.cons_cons _

theorem chainPairs_nodup (l r : BT (QV Θ)) (h : (treeWires l ++ treeWires r).Nodup) :
    PairsNodup (chainPairs l r) :=
  List.Nodup.sublist ((chainPairs_fst_sublist l r).append (chainPairs_snd_sublist l r)) h

/-! ### 2. The wire renaming of a pair list is an involution -/

theorem pairsWire_invol (ps : List (Nat × Nat)) (hnd : PairsNodup ps) (w : Nat) :
    pairsWire ps (pairsWire ps w) = w := by
  by_cases h1 : ∃ p ∈ ps, p.1 = w
  · obtain ⟨p, hp, rfl⟩ := h1
    rw [pairsWire_fst ps hnd p hp, pairsWire_snd ps hnd p hp]
  · by_cases h2 : ∃ p ∈ ps, p.2 = w
    · obtain ⟨p, hp, rfl⟩ := h2
      rw [pairsWire_snd ps hnd p hp, pairsWire_fst ps hnd p hp]
    · have hw : ∀ p ∈ ps, p.1 ≠ w ∧ p.2 ≠ w :=
        fun p hp => ⟨fun e => h1 ⟨p, hp, e⟩, fun e => h2 ⟨p, hp, e⟩⟩
      rw [pairsWire_other ps w hw, pairsWire_other ps w hw]

theorem pairsWire_mem (ps : List (Nat × Nat)) (hnd : PairsNodup ps) (W : List Nat)
    (hmem : ∀ p ∈ ps, p.1 ∈ W ∧ p.2 ∈ W) (w : Nat) (hw : w ∈ W) : pairsWire ps w ∈ W := by
  by_cases h1 : ∃ p ∈ ps, p.1 = w
  · obtain ⟨p, hp, rfl⟩ := h1
    rw [pairsWire_fst ps hnd p hp]; exact (hmem p hp).2
  · by_cases h2 : ∃ p ∈ ps, p.2 = w
    · obtain ⟨p, hp, rfl⟩ := h2
      rw [pairsWire_snd ps hnd p hp]; exact (hmem p hp).1
    · have hw' : ∀ p ∈ ps, p.1 ≠ w ∧ p.2 ≠ w :=
        fun p hp => ⟨fun e => h1 ⟨p, hp, e⟩, fun e => h2 ⟨p, hp, e⟩⟩
      rw [pairsWire_other ps w hw']; exact hw

/-- Renaming a duplicate-free wire list that contains all the pairs only permutes it. -/
theorem map_pairsWire_perm (ps : List (Nat × Nat)) (hnd : PairsNodup ps) (W : List Nat)
    (hW : W.Nodup) (hmem : ∀ p ∈ ps, p.1 ∈ W ∧ p.2 ∈ W) : (W.map (pairsWire ps)).Perm W := by
  have hinj : Function.Injective (pairsWire ps) := fun a c e => by
    rw [← pairsWire_invol ps hnd a, e, pairsWire_invol ps hnd c]
  have hWm : (W.map (pairsWire ps)).Nodup :=
    List.Pairwise.map _ (fun _ _ hab e => hab (hinj e)) hW
  rw [List.perm_ext_iff_of_nodup hWm hW]
  intro a
  constructor
  · intro ha
    obtain ⟨w, hw, rfl⟩ := List.mem_map.1 ha
    exact pairsWire_mem ps hnd W hmem w hw
  · intro ha
    exact List.mem_map.2 ⟨pairsWire ps a, pairsWire_mem ps hnd W hmem a ha, pairsWire_invol ps hnd a⟩

theorem map_fix (σ : Nat → Nat) (L : List Nat) (h : ∀ w ∈ L, σ w = w) : L.map σ = L := by
  induction L with
  | nil => rfl
  | cons a L ih =>
    rw [List.map_cons, h a (List.mem_cons_self ..), ih (fun w hw => h w (List.mem_cons_of_mem _ hw))]

/-! ### 3. Summing a node over wires other than its own -/

/-- The two children's factors, before the node's relabelling. -/
def childProb (o : TOps Θ) (c2 s2 : Θ → K) (l r : BT (QV Θ)) (x : Bits) : K :=
  treeProb o c2 s2 l x * treeProb o c2 s2 r x

theorem treeProb_node (o : TOps Θ) (c2 s2 : Θ → K) (v : QV Θ) (l r : BT (QV Θ)) (b : Bits) :
    treeProb o c2 s2 (.node v l r) b
      = nodeProb c2 s2 v b * childProb o c2 s2 l r (cswapPerm o (.node v l r) b) := rfl

theorem node_sum_inactive (o : TOps Θ) (c2 s2 : Θ → K) (v : QV Θ) (l r : BT (QV Θ))
    (ws : List Nat) (hq : wire v.q ∉ ws) (b : Bits)
    (hb : (o.neZero v.y && b (wire v.q)) = false) :
    sumOver ws (treeProb o c2 s2 (.node v l r)) b
      = nodeProb c2 s2 v b * sumOver ws (childProb o c2 s2 l r) b := by
  rw [← sumOver_const_mul]
  apply sumOver_congr_on
  intro x hx
  have hxq : x (wire v.q) = b (wire v.q) := hx _ hq
  have e : cswapPerm o (.node v l r) x = x := by
    simp only [cswapPerm, hxq, hb]; rfl
  rw [treeProb_node, e]
  simp only [nodeProb, hxq]

theorem node_sum_active (o : TOps Θ) (c2 s2 : Θ → K) (v : QV Θ) (l r : BT (QV Θ))
    (ws : List Nat) (hq : wire v.q ∉ ws) (b : Bits)
    (hb : (o.neZero v.y && b (wire v.q)) = true) :
    sumOver ws (treeProb o c2 s2 (.node v l r)) b
      = nodeProb c2 s2 v b * sumOver (ws.map (pairsWire (chainPairs l r)))
          (childProb o c2 s2 l r) (swapPairs (chainPairs l r) b) := by
  rw [← sumOver_swapPairs', ← sumOver_const_mul]
  apply sumOver_congr_on
  intro x hx
  have hxq : x (wire v.q) = b (wire v.q) := hx _ hq
  have e : cswapPerm o (.node v l r) x = swapPairs (chainPairs l r) x := by
    simp only [cswapPerm, hxq, hb, if_true]
  rw [treeProb_node, e]
  simp only [nodeProb, hxq]

theorem childProb_sum (o : TOps Θ) (c2 s2 : Θ → K) (l r : BT (QV Θ))
    (hdis : ∀ w, w ∈ treeWires l → w ∉ treeWires r) (A B : List Nat)
    (hA : ∀ w ∈ A, w ∈ treeWires l) (hB : ∀ w ∈ B, w ∈ treeWires r) (b : Bits) :
    sumOver (A ++ B) (childProb o c2 s2 l r) b
      = sumOver A (treeProb o c2 s2 l) b * sumOver B (treeProb o c2 s2 r) b :=
  sumOver_prod (treeProb_depOn o c2 s2 l) (treeProb_depOn o c2 s2 r) A B
    (fun w hw h => hdis w h (hB w hw)) (fun w hw => hdis w (hA w hw)) b

/-! ### 4. Normalisation -/

theorem treeProb_total (o : TOps Θ) (c2 s2 : Θ → K) (hcs : ∀ y, c2 y + s2 y = 1) :
    ∀ (t : BT (QV Θ)), (treeWires t).Nodup →
      ∀ b, sumOver (treeWires t) (treeProb o c2 s2 t) b = 1
  | .nil, _, _ => rfl
  | .node v l r, hnd, b => by
    rw [treeWires_node] at hnd ⊢
    obtain ⟨hq, hlr⟩ := List.nodup_cons.1 hnd
    obtain ⟨hndl, hndr, hdisj⟩ := List.nodup_append.1 hlr
    have hdis : ∀ w, w ∈ treeWires l → w ∉ treeWires r := fun w h1 h2 => hdisj w h1 w h2 rfl
    have ihl := treeProb_total o c2 s2 hcs l hndl
    have ihr := treeProb_total o c2 s2 hcs r hndr
    have hchild : ∀ b0, sumOver (treeWires l ++ treeWires r) (childProb o c2 s2 l r) b0 = 1 := by
      intro b0
      rw [childProb_sum o c2 s2 l r hdis _ _ (fun _ h => h) (fun _ h => h), ihl, ihr, one_mul]
    have hkey : ∀ b0, sumOver (treeWires l ++ treeWires r) (treeProb o c2 s2 (.node v l r)) b0
        = nodeProb c2 s2 v b0 := by
      intro b0
      cases hb : (o.neZero v.y && b0 (wire v.q))
      · rw [node_sum_inactive o c2 s2 v l r _ hq b0 hb, hchild, mul_one]
      · have hperm := map_pairsWire_perm (chainPairs l r) (chainPairs_nodup l r hlr)
          (treeWires l ++ treeWires r) hlr (fun p hp => by
            obtain ⟨h1, h2⟩ := chainPairs_wires l r p hp
            exact ⟨List.mem_append_left _ h1, List.mem_append_right _ h2⟩)
        rw [node_sum_active o c2 s2 v l r _ hq b0 hb, sumOver_perm _ _ hperm, hchild, mul_one]
    rw [sumOver_cons, hkey, hkey]
    simp only [nodeProb, setBit_eq]
    simpa using hcs v.y

/-! ### 5. Spines and ancillas of complete trees -/

theorem anc_subset : ∀ (t : BT (QV Θ)) (w : Nat), w ∈ anc t → w ∈ treeWires t
  | .nil, _, h => by simp [anc] at h
  | .node v l r, w, h => by
    rw [treeWires_node]
    simp only [anc, List.mem_append] at h
    rcases h with h | h
    · exact List.mem_cons_of_mem _ (List.mem_append_left _ (anc_subset l w h))
    · exact List.mem_cons_of_mem _ (List.mem_append_right _ h)

theorem spine_anc_perm : ∀ t : BT (QV Θ), (leftSpine t ++ anc t).Perm (treeWires t)
  | .nil => by simp [leftSpine, anc, treeWires_nil]
  | .node v l r => by
    rw [treeWires_node]
    simp only [leftSpine, anc, List.cons_append]
    rw [← List.append_assoc]
    exact ((spine_anc_perm l).append_right _).cons _

/-- For two complete trees of the same height the swapped pairs are exactly the two left spines. -/
theorem chainPairs_complete : ∀ (h : Nat) (l r : BT (QV Θ)), complete h l → complete h r →
    (chainPairs l r).map Prod.fst = leftSpine l ∧ (chainPairs l r).map Prod.snd = leftSpine r
  | 0, .nil, .nil, _, _ => by simp [chainPairs, leftSpine]
  | 0, .nil, .node .., _, h => by simp [complete] at h
  | 0, .node .., _, h, _ => by simp [complete] at h
  | h+1, .nil, _, hl, _ => by simp [complete] at hl
  | h+1, .node .., .nil, _, hr => by simp [complete] at hr
  | h+1, .node vl ll lr, .node vr rl rr, hl, hr => by
    have hlm := complete_leftmost h (.node vr rl rr) hr
    simp only [BT.left] at hlm
    obtain ⟨i1, i2⟩ := chainPairs_complete h ll rl hl.1 hr.1
    simp only [chainPairs, hlm, List.map_cons, leftSpine, i1, i2, and_self]

/-- The renaming of a node's swap network carries the node's ancillas plus the right child's wires
onto the left child's wires plus the right child's ancillas. -/
theorem marg_perm (h : Nat) (l r : BT (QV Θ)) (hcl : complete h l) (hcr : complete h r)
    (hnd : (treeWires l ++ treeWires r).Nodup) :
    ((anc l ++ treeWires r).map (pairsWire (chainPairs l r))).Perm (treeWires l ++ anc r) := by
  have hpn : PairsNodup (chainPairs l r) := chainPairs_nodup l r hnd
  obtain ⟨hf, hs⟩ := chainPairs_complete h l r hcl hcr
  obtain ⟨hndl, hndr, hdisj⟩ := List.nodup_append.1 hnd
  have hdis : ∀ w, w ∈ treeWires l → w ∉ treeWires r := fun w h1 h2 => hdisj w h1 w h2 rfl
  have hsl : (leftSpine l ++ anc l).Nodup := (spine_anc_perm l).nodup_iff.2 hndl
  have hsr : (leftSpine r ++ anc r).Nodup := (spine_anc_perm r).nodup_iff.2 hndr
  have hp1 : ∀ p ∈ chainPairs l r, p.1 ∈ leftSpine l := fun p hp => by
    rw [← hf]; exact List.mem_map_of_mem hp
  have hp2 : ∀ p ∈ chainPairs l r, p.2 ∈ leftSpine r := fun p hp => by
    rw [← hs]; exact List.mem_map_of_mem hp
  have hfix_l : ∀ w ∈ anc l, pairsWire (chainPairs l r) w = w := by
    intro w hw
    apply pairsWire_other
    intro p hp
    refine ⟨fun e => ?_, fun e => ?_⟩
    · exact (List.nodup_append.1 hsl).2.2 _ (hp1 p hp) _ hw e
    · exact hdis w (anc_subset l w hw) (e ▸ (chainPairs_wires l r p hp).2)
  have hfix_r : ∀ w ∈ anc r, pairsWire (chainPairs l r) w = w := by
    intro w hw
    apply pairsWire_other
    intro p hp
    refine ⟨fun e => ?_, fun e => ?_⟩
    · exact hdis w (e ▸ (chainPairs_wires l r p hp).1) (anc_subset r w hw)
    · exact (List.nodup_append.1 hsr).2.2 _ (hp2 p hp) _ hw e
  have hmap : (leftSpine r).map (pairsWire (chainPairs l r)) = leftSpine l := by
    rw [← hs, ← hf, List.map_map]
    apply List.map_congr_left
    intro p hp
    exact pairsWire_snd _ hpn p hp
  have h1 : ((treeWires r).map (pairsWire (chainPairs l r))).Perm (leftSpine l ++ anc r) := by
    have := (spine_anc_perm r).symm.map (pairsWire (chainPairs l r))
    rw [List.map_append, hmap, map_fix _ _ hfix_r] at this
    exact this
  rw [List.map_append, map_fix _ _ hfix_l]
  refine (List.Perm.append_left _ h1).trans ?_
  rw [← List.append_assoc]
  exact (List.perm_append_comm.trans (spine_anc_perm l)).append_right _

/-! ### 6. The marginal on the left spine -/

theorem treeProb_marginal (o : TOps Θ) (c2 s2 : Θ → K) (hcs : ∀ y, c2 y + s2 y = 1)
    (hs0 : ∀ y, o.neZero y = false → s2 y = 0) :
    ∀ (h : Nat) (t : BT (QV Θ)), complete h t → (treeWires t).Nodup →
      ∀ b, sumOver (anc t) (treeProb o c2 s2 t) b = spineProb o c2 s2 t b
  | 0, .nil, _, _, _ => rfl
  | 0, .node .., hc, _, _ => by simp [complete] at hc
  | h+1, .nil, hc, _, _ => by simp [complete] at hc
  | h+1, .node v l r, hc, hnd, b => by
    obtain ⟨hcl, hcr⟩ := hc
    rw [treeWires_node] at hnd
    obtain ⟨hq, hlr⟩ := List.nodup_cons.1 hnd
    obtain ⟨hndl, hndr, hdisj⟩ := List.nodup_append.1 hlr
    have hdis : ∀ w, w ∈ treeWires l → w ∉ treeWires r := fun w h1 h2 => hdisj w h1 w h2 rfl
    have ihl := treeProb_marginal o c2 s2 hcs hs0 h l hcl hndl
    have ihr := treeProb_marginal o c2 s2 hcs hs0 h r hcr hndr
    have totl := treeProb_total o c2 s2 hcs l hndl
    have totr := treeProb_total o c2 s2 hcs r hndr
    have hqa : wire v.q ∉ anc l ++ treeWires r := by
      intro hm
      rcases List.mem_append.1 hm with hm | hm
      · exact hq (List.mem_append_left _ (anc_subset l _ hm))
      · exact hq (List.mem_append_right _ hm)
    show sumOver (anc l ++ treeWires r) (treeProb o c2 s2 (.node v l r)) b = _
    cases hb : b (wire v.q)
    · have hina : (o.neZero v.y && b (wire v.q)) = false := by rw [hb, Bool.and_false]
      rw [node_sum_inactive o c2 s2 v l r _ hqa b hina,
        childProb_sum o c2 s2 l r hdis _ _ (anc_subset l) (fun _ h => h), ihl, totr]
      simp [spineProb, nodeProb, hb]
    · cases hz : o.neZero v.y
      · have hina : (o.neZero v.y && b (wire v.q)) = false := by rw [hz, Bool.false_and]
        rw [node_sum_inactive o c2 s2 v l r _ hqa b hina]
        simp [spineProb, nodeProb, hb, hs0 _ hz]
      · have hact : (o.neZero v.y && b (wire v.q)) = true := by rw [hz, hb]; rfl
        have e : cswapPerm o (.node v l r) b = swapPairs (chainPairs l r) b := by
          simp only [cswapPerm, hact, if_true]
        rw [node_sum_active o c2 s2 v l r _ hqa b hact,
          sumOver_perm _ _ (marg_perm h l r hcl hcr hlr),
          childProb_sum o c2 s2 l r hdis _ _ (fun _ h => h) (anc_subset r), totl, ihr]
        simp [spineProb, nodeProb, hb, e]

/-! ### 7. Reading the result off the output wires -/

def spW (c2 s2 : Θ → K) : List Nat → BT (QV Θ) → Bits → K
  | w :: ws, .node v l r, b => if b w then s2 v.y * spW c2 s2 ws r b else c2 v.y * spW c2 s2 ws l b
  | _, _, _ => 1

theorem spW_nil_list (c2 s2 : Θ → K) (t : BT (QV Θ)) (b : Bits) : spW c2 s2 [] t b = 1 := by
  cases t <;> rfl

theorem spW_nil_tree (c2 s2 : Θ → K) (ws : List Nat) (b : Bits) :
    spW c2 s2 ws (.nil : BT (QV Θ)) b = 1 := by
  cases ws <;> rfl

theorem spW_cons_node (c2 s2 : Θ → K) (w : Nat) (ws : List Nat) (v : QV Θ) (l r : BT (QV Θ))
    (b : Bits) : spW c2 s2 (w :: ws) (.node v l r) b
      = if b w then s2 v.y * spW c2 s2 ws r b else c2 v.y * spW c2 s2 ws l b := rfl

/-- `spW` depends only on the bits read along the wire list. -/
theorem spW_congr (c2 s2 : Θ → K) : ∀ (ws ws' : List Nat) (t : BT (QV Θ)) (b b' : Bits),
    ws.map b = ws'.map b' → spW c2 s2 ws t b = spW c2 s2 ws' t b'
  | [], [], _, _, _, _ => by rw [spW_nil_list, spW_nil_list]
  | [], _ :: _, _, _, _, h => by simp at h
  | _ :: _, [], _, _, _, h => by simp at h
  | _ :: _, _ :: _, .nil, _, _, _ => by rw [spW_nil_tree, spW_nil_tree]
  | w :: ws, w' :: ws', .node v l r, b, b', h => by
    simp only [List.map_cons, List.cons.injEq] at h
    rw [spW_cons_node, spW_cons_node, h.1, spW_congr c2 s2 ws ws' r b b' h.2,
      spW_congr c2 s2 ws ws' l b b' h.2]

theorem spineProb_eq_spW (o : TOps Θ) (c2 s2 : Θ → K)
    (hs0 : ∀ y, o.neZero y = false → s2 y = 0) :
    ∀ (h : Nat) (t : BT (QV Θ)), complete h t → (treeWires t).Nodup →
      ∀ b, spineProb o c2 s2 t b = spW c2 s2 (leftSpine t) t b
  | 0, .nil, _, _, _ => rfl
  | 0, .node .., hc, _, _ => by simp [complete] at hc
  | h+1, .nil, hc, _, _ => by simp [complete] at hc
  | h+1, .node v l r, hc, hnd, b => by
    obtain ⟨hcl, hcr⟩ := hc
    rw [treeWires_node] at hnd
    obtain ⟨hq, hlr⟩ := List.nodup_cons.1 hnd
    obtain ⟨hndl, hndr, hdisj⟩ := List.nodup_append.1 hlr
    have ihl := spineProb_eq_spW o c2 s2 hs0 h l hcl hndl
    have ihr := spineProb_eq_spW o c2 s2 hs0 h r hcr hndr
    show spineProb o c2 s2 (.node v l r) b = spW c2 s2 (wire v.q :: leftSpine l) (.node v l r) b
    rw [spW_cons_node]
    cases hb : b (wire v.q)
    · simp [spineProb, hb, ihl]
    · cases hz : o.neZero v.y
      · simp [spineProb, hb, hs0 _ hz]
      · have hact : (o.neZero v.y && b (wire v.q)) = true := by rw [hz, hb]; rfl
        have e : cswapPerm o (.node v l r) b = swapPairs (chainPairs l r) b := by
          simp only [cswapPerm, hact, if_true]
        have hpn : PairsNodup (chainPairs l r) := chainPairs_nodup l r hlr
        obtain ⟨hf, hs⟩ := chainPairs_complete h l r hcl hcr
        have hmap : (leftSpine r).map (swapPairs (chainPairs l r) b) = (leftSpine l).map b := by
          rw [← hs, ← hf, List.map_map, List.map_map]
          apply List.map_congr_left
          intro p hp
          exact swapPairs_snd_mem _ hpn b p hp
        have key := spW_congr c2 s2 (leftSpine r) (leftSpine l) r _ b hmap
        simp [spineProb, hb, e, ihr, key]

#print axioms treeProb_total
#print axioms treeProb_marginal
#print axioms spineProb_eq_spW

end Qclib
