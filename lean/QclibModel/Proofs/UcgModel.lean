import QclibModel.Proofs.UcgColumn
/-
  C12: the abstract children / multiplexers used in the proofs are the ones the executable model
  (`Model/Ucg.lean`, run by the driver) computes.
-/
namespace Qclib.Ucg

variable {K : Type} [Field K] [StarRing K] {nrm : K → K → K} {isZero : K → Bool}

/-- plain class: `childrenAt` of the model = `genChildren` with the phases `conj(diag)[bit::2]`. -/
theorem childrenAt_plain (eqv : Mat2 K → Mat2 K → Bool) (n t : Nat) (d : Nat → Nat → K) (v : Nat → K) :
    ∀ q, q ≤ n → childrenAt (ringOps K nrm isZero) false eqv n t d v q = genChildren nrm (phOf t d) v q := by
  intro q
  induction q with
  | zero => intro _; rfl
  | succ q ih =>
    intro hq
    rw [childrenAt, ih (by omega), genChildren]
    funext k
    simp only [nextChildren, levelPlan, Bool.false_eq_true, if_false, applyDiagonal, updateParent,
      stepChildren, phOf, bitTarget_eq n t q (by omega)]
    rfl

/-- the multiplexer of the plain model's level plan is `lvlMux`. -/
theorem levelPlan_mux_plain (eqv : Mat2 K → Mat2 K → Bool) (n t : Nat) (d : Nat → Nat → K) (v : Nat → K)
    (q : Nat) (hq : q < n) :
    (levelPlan (ringOps K nrm isZero) false eqv n t (n - q)
        (childrenAt (ringOps K nrm isZero) false eqv n t d v q)).mux = lvlMux nrm isZero t d v q := by
  rw [childrenAt_plain eqv n t d v q (by omega)]
  simp only [levelPlan, lvlMux, bitTarget_eq n t q hq]

end Qclib.Ucg
