import QclibModel.Proofs.SemLemmas
import QclibModel.Spec.Ucr
import Mathlib.Tactic.Abel
/-
  Proof of C13 (uniformly controlled rotations).

  Every gate of `ucr … k a last` acts on wire 0 with a 2×2 matrix that depends only on the other
  wires, i.e. is `applyFam f 0` for a family `f` with `f (setBit b 0 v) = f b`.  Such operators
  compose by pointwise matrix multiplication (`applyFam_comp`), so `sem circuit` is `applyFam` of
  a product family (`Rep`), and correctness is a pointwise 2×2 matrix identity proved by induction
  on `k` with a two-sided invariant (`ucr_inv`).
-/
namespace Qclib
open RotSem

/-! ### `setBit` -/

theorem setBit_same (b : Bits) (t : Nat) (v : Bool) : setBit b t v t = v := by
  simp [setBit]

theorem setBit_other (b : Bits) {t i : Nat} (v : Bool) (h : i ≠ t) : setBit b t v i = b i := by
  simp [setBit, h]

/-! ### 2×2 matrices over a commutative ring -/

namespace Mat2
variable {R : Type} [CommRing R]

@[simp] theorem mul_a (m n : Mat2 R) : (m * n).a = m.a * n.a + m.b * n.c := rfl
@[simp] theorem mul_b (m n : Mat2 R) : (m * n).b = m.a * n.b + m.b * n.d := rfl
@[simp] theorem mul_c (m n : Mat2 R) : (m * n).c = m.c * n.a + m.d * n.c := rfl
@[simp] theorem mul_d (m n : Mat2 R) : (m * n).d = m.c * n.b + m.d * n.d := rfl
@[simp] theorem one_a : (1 : Mat2 R).a = 1 := rfl
@[simp] theorem one_b : (1 : Mat2 R).b = 0 := rfl
@[simp] theorem one_c : (1 : Mat2 R).c = 0 := rfl
@[simp] theorem one_d : (1 : Mat2 R).d = 1 := rfl

theorem mul_assoc' (m n p : Mat2 R) : m * n * p = m * (n * p) := by
  ext <;> simp <;> ring

theorem one_mul' (m : Mat2 R) : 1 * m = m := by
  ext <;> simp

theorem mul_one' (m : Mat2 R) : m * 1 = m := by
  ext <;> simp

end Mat2

/-! ### Rotation / entangler matrix algebra -/

/-- Matrix of the entangler on the target. -/
def entMat {R : Type} [CommRing R] (e : Ent) : Mat2 R :=
  match e with | .CX => Mat2.X | .CZ => Mat2.Z

theorem ent_sq {R : Type} [CommRing R] (e : Ent) : (entMat e * entMat e : Mat2 R) = 1 := by
  cases e <;> ext <;> simp [entMat, Mat2.X, Mat2.Z]

theorem ent_sq_assoc {R : Type} [CommRing R] (e : Ent) (M : Mat2 R) :
    entMat e * (entMat e * M) = M := by
  rw [← Mat2.mul_assoc', ent_sq, Mat2.one_mul']

section rot
variable {Θ R : Type} [AddCommGroup Θ] [CommRing R] [RotSem Θ R] [RotLaws Θ R]

theorem rot_add (ax : Axis) (a b : Θ) :
    (rotMat ax a * rotMat ax b : Mat2 R) = rotMat ax (a + b) := by
  cases ax
  · ext <;> simp [rotMat, matRY, RotLaws.cs_add, RotLaws.sn_add] <;> ring
  · ext <;> simp [rotMat, matRZ, RotLaws.exb_eq, RotLaws.ex_add]
    ring

theorem rot_add_assoc (ax : Axis) (a b : Θ) (M : Mat2 R) :
    rotMat ax a * (rotMat ax b * M) = rotMat ax (a + b) * M := by
  rw [← Mat2.mul_assoc', rot_add]

theorem rot_zero (ax : Axis) : (rotMat ax (0 : Θ) : Mat2 R) = 1 := by
  cases ax
  · ext <;> simp [rotMat, matRY, RotLaws.cs_zero, RotLaws.sn_zero]
  · ext <;> simp [rotMat, matRZ, RotLaws.exb_eq, RotLaws.ex_zero]

/-- Conjugation law `R(θ)·E = E·R(-θ)` for the valid (axis, entangler) pairs. -/
theorem rot_ent {ax : Axis} {e : Ent} (hv : validPair ax e = true) (θ : Θ) :
    (rotMat ax θ * entMat e : Mat2 R) = entMat e * rotMat ax (-θ) := by
  cases ax <;> cases e
  · ext <;> simp [rotMat, matRY, entMat, Mat2.X, RotLaws.cs_neg, RotLaws.sn_neg]
  · ext <;> simp [rotMat, matRY, entMat, Mat2.Z, RotLaws.cs_neg, RotLaws.sn_neg]
  · ext <;> simp [rotMat, matRZ, entMat, Mat2.X, RotLaws.exb_eq]
  · simp [validPair] at hv

theorem rot_ent_assoc {ax : Axis} {e : Ent} (hv : validPair ax e = true) (θ : Θ) (M : Mat2 R) :
    rotMat ax θ * (entMat e * M) = entMat e * (rotMat ax (-θ) * M) := by
  rw [← Mat2.mul_assoc', rot_ent hv, Mat2.mul_assoc']

section steps
variable {ax : Axis} {e : Ent} (hv : validPair ax e = true)
include hv

theorem step_true (M : Mat2 R) (hM : M = 1 ∨ M = entMat e) (α β : Θ) :
    (rotMat ax β * M) * (entMat e * (M * rotMat ax α)) = entMat e * rotMat ax (α - β) := by
  have h : (-β + α : Θ) = α - β := by abel
  rcases hM with rfl | rfl <;>
    simp only [Mat2.mul_assoc', Mat2.one_mul', Mat2.mul_one', rot_ent hv, rot_ent_assoc hv,
      ent_sq_assoc, rot_add, h]

theorem step_false (M : Mat2 R) (hM : M = 1 ∨ M = entMat e) (α β : Θ) :
    (rotMat ax β * M) * (1 * (M * rotMat ax α)) = 1 * rotMat ax (α + β) := by
  have h : (β + α : Θ) = α + β := by abel
  rcases hM with rfl | rfl <;>
    simp only [Mat2.mul_assoc', Mat2.one_mul', Mat2.mul_one', rot_ent hv, rot_ent_assoc hv,
      ent_sq_assoc, rot_add, h, neg_neg]

theorem stepr_true (M : Mat2 R) (hM : M = 1 ∨ M = entMat e) (α β : Θ) :
    (rotMat ax α * M) * (entMat e * (M * rotMat ax β)) = rotMat ax (α - β) * entMat e := by
  have h : (-α + β : Θ) = -(α - β) := by abel
  rcases hM with rfl | rfl <;>
    simp only [Mat2.mul_assoc', Mat2.one_mul', Mat2.mul_one', rot_ent hv, rot_ent_assoc hv,
      ent_sq_assoc, rot_add, h]

theorem stepr_false (M : Mat2 R) (hM : M = 1 ∨ M = entMat e) (α β : Θ) :
    (rotMat ax α * M) * (1 * (M * rotMat ax β)) = rotMat ax (α + β) * 1 := by
  rcases hM with rfl | rfl <;>
    simp only [Mat2.mul_assoc', Mat2.one_mul', Mat2.mul_one', rot_ent hv, rot_ent_assoc hv,
      ent_sq_assoc, rot_add, neg_neg]

end steps
end rot

/-! ### Operators on wire 0 given by a matrix family independent of wire 0 -/

section rep
variable {Θ R : Type} [CommRing R] [RotSem Θ R]

/-- The family does not look at wire 0. -/
def Bit0Free (f : Bits → Mat2 R) : Prop := ∀ b v, f (setBit b 0 v) = f b

theorem applyFam_comp (f g : Bits → Mat2 R) (hg : Bit0Free g) (ψ : State R) :
    applyFam f 0 (applyFam g 0 ψ) = applyFam (fun b => f b * g b) 0 ψ := by
  funext b
  simp only [applyFam, setBit_same, setBit_setBit, hg b]
  by_cases h : b 0 = true <;> simp [h] <;> ring

/-- `c` denotes the wire-0 operator with matrix family `f`. -/
def Rep (c : Circ Θ) (f : Bits → Mat2 R) : Prop :=
  Bit0Free f ∧ ∀ ψ : State R, sem c ψ = applyFam f 0 ψ

theorem Rep.congr {c : Circ Θ} {f g : Bits → Mat2 R} (h : Rep c f) (hfg : ∀ b, f b = g b) :
    Rep c g := by
  have : f = g := funext hfg
  rwa [← this]

theorem Rep.nil : Rep ([] : Circ Θ) (fun _ => (1 : Mat2 R)) := by
  refine ⟨fun _ _ => rfl, fun ψ => ?_⟩
  funext b
  by_cases h : b 0 = true
  · simp [sem, applyFam, h, setBit_self' b 0 true h]
  · have h' : b 0 = false := by simpa using h
    simp [sem, applyFam, h', setBit_self' b 0 false h']

theorem Rep.append {c d : Circ Θ} {f g : Bits → Mat2 R} (hc : Rep c f) (hd : Rep d g) :
    Rep (c ++ d) (fun b => g b * f b) := by
  refine ⟨fun b v => ?_, fun ψ => ?_⟩
  · show g (setBit b 0 v) * f (setBit b 0 v) = g b * f b
    rw [hc.1 b v, hd.1 b v]
  · have : sem (c ++ d) ψ = sem d (sem c ψ) := by simp [sem, List.foldl_append]
    rw [this, hc.2, hd.2, applyFam_comp _ _ hc.1]

theorem applyMcu_nil (m : Mat2 R) (ψ : State R) :
    applyMcu [] m 0 ψ = applyFam (fun _ => m) 0 ψ := by
  funext b
  simp [applyMcu, applyFam, ctrlOk]

theorem applyMcu_one (c : Nat) (m : Mat2 R) (ψ : State R) :
    applyMcu [(c, true)] m 0 ψ = applyFam (fun b => if b c then m else 1) 0 ψ := by
  funext b
  by_cases hc : b c = true
  · simp [applyMcu, applyFam, ctrlOk, hc]
  · have hc' : b c = false := by simpa using hc
    by_cases h : b 0 = true
    · simp [applyMcu, applyFam, ctrlOk, hc', h, setBit_self' b 0 true h]
    · have h' : b 0 = false := by simpa using h
      simp [applyMcu, applyFam, ctrlOk, hc', h', setBit_self' b 0 false h']

theorem Rep.rot (ax : Axis) (θ : Θ) :
    Rep [rotG ax θ 0] (fun _ => (rotMat ax θ : Mat2 R)) := by
  refine ⟨fun _ _ => rfl, fun ψ => ?_⟩
  cases ax
  · exact applyMcu_nil (matRY θ) ψ
  · exact applyMcu_nil (matRZ θ) ψ

theorem Rep.ent (e : Ent) (k : Nat) :
    Rep ([entG e (k+1) 0] : Circ Θ) (fun b => if b (k+1) then (entMat e : Mat2 R) else 1) := by
  refine ⟨fun b v => ?_, fun ψ => ?_⟩
  · simp only [setBit_other b v (Nat.succ_ne_zero k)]
  · cases e
    · exact applyMcu_one (k+1) Mat2.X ψ
    · exact applyMcu_one (k+1) Mat2.Z ψ

/-! ### The invariant -/

/-- The pending entangler factor of level `k`. -/
def Ek (e : Ent) : Nat → Bits → Mat2 R
  | 0, _ => 1
  | k+1, b => if b (k+1) then entMat e else 1

theorem Ek_zero (e : Ent) (b : Bits) : (Ek e 0 b : Mat2 R) = 1 := rfl

theorem Ek_succ (e : Ent) (k : Nat) (b : Bits) :
    (Ek e (k+1) b : Mat2 R) = if b (k+1) then entMat e else 1 := rfl

theorem Ek_cases (e : Ent) (k : Nat) (b : Bits) :
    (Ek e k b : Mat2 R) = 1 ∨ (Ek e k b : Mat2 R) = entMat e := by
  cases k with
  | zero => exact Or.inl rfl
  | succ k =>
    by_cases h : b (k+1) = true
    · right; simp [Ek_succ, h]
    · left; simp [Ek_succ, h]

theorem Ek_setBit0 (e : Ent) (k : Nat) (b : Bits) (v : Bool) :
    (Ek e k (setBit b 0 v) : Mat2 R) = Ek e k b := by
  cases k with
  | zero => rfl
  | succ k => simp only [Ek_succ, setBit_other b v (Nat.succ_ne_zero k)]

theorem ctrlIdx_setBit0 (k : Nat) (b : Bits) (v : Bool) :
    ctrlIdx k (setBit b 0 v) = ctrlIdx k b := by
  induction k with
  | zero => rfl
  | succ k ih => simp only [ctrlIdx, ih, setBit_other b v (Nat.succ_ne_zero k)]

theorem ucr_succ (o : AOps Θ) (ax : Axis) (e : Ent) (k : Nat) (a : Nat → Θ) (last : Bool) :
    ucr o ax e (k+1) a last =
      ucr o ax e k (fun j => o.half (o.add (a j) (a (j + 2^k)))) false ++ [entG e (k+1) 0]
        ++ (ucr o ax e k (fun j => o.half (o.sub (a j) (a (j + 2^k)))) false).reverse
        ++ (if last then [entG e (k+1) 0] else []) := by
  simp [ucr]

end rep

section half
variable {Θ : Type} [AddCommGroup Θ] (half : Θ → Θ)
  (hhalf : ∀ a, half a + half a = a) (hadd : ∀ a b, half (a + b) = half a + half b)
include hhalf hadd

theorem half_sum (p q : Θ) : half (p + q) + half (p - q) = p := by
  have h : p + q + (p - q) = p + p := by abel
  rw [← hadd, h, hadd, hhalf]

theorem half_diff (p q : Θ) : half (p + q) - half (p - q) = q := by
  have h : p + q = (p - q) + (q + q) := by abel
  have h2 : half (p + q) = half (p - q) + q := by
    conv_lhs => rw [h]
    rw [hadd, hadd, hhalf]
  rw [h2]; abel

end half

variable {Θ R : Type} [AddCommGroup Θ] [CommRing R] [RotSem Θ R] [RotLaws Θ R]

theorem ucr_inv (half : Θ → Θ) (negl : Θ → Bool)
    (hhalf : ∀ a, half a + half a = a) (hadd : ∀ a b, half (a + b) = half a + half b)
    (hnegl : ∀ a, negl a = true → a = 0)
    {ax : Axis} {e : Ent} (hv : validPair ax e = true) (k : Nat) : ∀ a : Nat → Θ,
    Rep (ucr (stdOps half negl) ax e k a false)
        (fun b => (Ek e k b * rotMat ax (a (ctrlIdx k b)) : Mat2 R)) ∧
    Rep (ucr (stdOps half negl) ax e k a false).reverse
        (fun b => (rotMat ax (a (ctrlIdx k b)) * Ek e k b : Mat2 R)) := by
  induction k with
  | zero =>
    intro a
    have key : Rep (ucr (stdOps half negl) ax e 0 a false)
        (fun _ => (rotMat ax (a 0) : Mat2 R)) := by
      simp only [ucr]
      by_cases h : (stdOps half negl).negl (a 0) = true
      · rw [if_pos h, hnegl _ h, rot_zero]; exact Rep.nil
      · rw [if_neg h]; exact Rep.rot ax (a 0)
    have hrev : (ucr (stdOps half negl) ax e 0 a false).reverse
        = ucr (stdOps half negl) ax e 0 a false := by
      simp only [ucr]; split <;> rfl
    constructor
    · exact key.congr (fun b => by simp only [Ek_zero, ctrlIdx, Mat2.one_mul'])
    · rw [hrev]
      exact key.congr (fun b => by simp only [Ek_zero, ctrlIdx, Mat2.mul_one'])
  | succ k ih =>
    intro a
    have hp : ∀ j, a j = half (a j + a (j + 2^k)) + half (a j - a (j + 2^k)) :=
      fun j => (half_sum half hhalf hadd _ _).symm
    have hq : ∀ j, a (j + 2^k) = half (a j + a (j + 2^k)) - half (a j - a (j + 2^k)) :=
      fun j => (half_diff half hhalf hadd _ _).symm
    obtain ⟨hα, hαr⟩ := ih (fun j => half (a j + a (j + 2^k)))
    obtain ⟨hβ, hβr⟩ := ih (fun j => half (a j - a (j + 2^k)))
    have hE := Rep.ent (Θ := Θ) (R := R) e k
    rw [ucr_succ]
    simp only [stdOps, Bool.false_eq_true, if_false, List.append_nil, List.reverse_append,
      List.reverse_reverse, List.reverse_cons, List.reverse_nil, List.nil_append,
      ← List.append_assoc]
    constructor
    · refine ((hα.append hE).append hβr).congr (fun b => ?_)
      simp only [Ek_succ, ctrlIdx]
      by_cases hb : b (k+1) = true
      · simp only [hb, if_true]
        exact (step_true hv _ (Ek_cases e k b) _ _).trans (by rw [← hq])
      · have hb' : b (k+1) = false := by simpa using hb
        simp only [hb', Bool.false_eq_true, if_false, Nat.add_zero]
        exact (step_false hv _ (Ek_cases e k b) _ _).trans (by rw [← hp])
    · refine ((hβ.append hE).append hαr).congr (fun b => ?_)
      simp only [Ek_succ, ctrlIdx]
      by_cases hb : b (k+1) = true
      · simp only [hb, if_true]
        exact (stepr_true hv _ (Ek_cases e k b) _ _).trans (by rw [← hq])
      · have hb' : b (k+1) = false := by simpa using hb
        simp only [hb', Bool.false_eq_true, if_false, Nat.add_zero]
        exact (stepr_false hv _ (Ek_cases e k b) _ _).trans (by rw [← hp])

theorem ucr_nolast_correct (half : Θ → Θ) (negl : Θ → Bool)
    (hhalf : ∀ a, half a + half a = a) (hadd : ∀ a b, half (a + b) = half a + half b)
    (hnegl : ∀ a, negl a = true → a = 0)
    (ax : Axis) (e : Ent) (hv : validPair ax e = true) (k : Nat) (a : Nat → Θ) (ψ : State R) :
    sem (ucr (stdOps half negl) ax e (k+1) a false ++ [entG e (k+1) 0]) ψ
      = muxIdeal ax (k+1) a ψ := by
  have h := ((ucr_inv half negl hhalf hadd hnegl hv (k+1) a).1.append
    (Rep.ent (Θ := Θ) (R := R) e k)).congr
      (g := fun b => (rotMat ax (a (ctrlIdx (k+1) b)) : Mat2 R)) (fun b => by
        simp only [Ek_succ]
        by_cases hb : b (k+1) = true
        · simp only [hb, if_true, ent_sq_assoc]
        · have hb' : b (k+1) = false := by simpa using hb
          simp only [hb', Bool.false_eq_true, if_false, Mat2.one_mul'])
  exact h.2 ψ

theorem ucr_last_correct (half : Θ → Θ) (negl : Θ → Bool)
    (hhalf : ∀ a, half a + half a = a) (hadd : ∀ a b, half (a + b) = half a + half b)
    (hnegl : ∀ a, negl a = true → a = 0)
    (ax : Axis) (e : Ent) (hv : validPair ax e = true) (k : Nat) (a : Nat → Θ) (ψ : State R) :
    sem (ucr (stdOps half negl) ax e k a true) ψ = muxIdeal ax k a ψ := by
  cases k with
  | zero =>
    have h := (ucr_inv half negl hhalf hadd hnegl hv 0 a).1.congr
      (g := fun b => (rotMat ax (a (ctrlIdx 0 b)) : Mat2 R))
      (fun b => by simp only [Ek_zero, Mat2.one_mul'])
    have h0 : ucr (stdOps half negl) ax e 0 a true = ucr (stdOps half negl) ax e 0 a false := by
      simp only [ucr]
    rw [h0]
    exact h.2 ψ
  | succ k =>
    have h0 : ucr (stdOps half negl) ax e (k+1) a true
        = ucr (stdOps half negl) ax e (k+1) a false ++ [entG e (k+1) 0] := by
      rw [ucr_succ, ucr_succ]; simp
    rw [h0]
    exact ucr_nolast_correct half negl hhalf hadd hnegl ax e hv k a ψ

end Qclib
