import QclibModel.Proofs.RotLaws
import QclibModel.Spec.Ucr
namespace Qclib
open RotSem
variable {Θ R : Type} [AddCommGroup Θ] [CommRing R] [RotSem Θ R] [RotLaws Θ R]

theorem ucr_last_correct (half : Θ → Θ) (negl : Θ → Bool)
    (hhalf : ∀ a, half a + half a = a) (hnegl : ∀ a, negl a = true → a = 0)
    (ax : Axis) (e : Ent) (hv : validPair ax e = true) (k : Nat) (a : Nat → Θ) (ψ : State R) :
    sem (ucr (stdOps half negl) ax e k a true) ψ = muxIdeal ax k a ψ := by
  sorry

theorem ucr_nolast_correct (half : Θ → Θ) (negl : Θ → Bool)
    (hhalf : ∀ a, half a + half a = a) (hnegl : ∀ a, negl a = true → a = 0)
    (ax : Axis) (e : Ent) (hv : validPair ax e = true) (k : Nat) (a : Nat → Θ) (ψ : State R) :
    sem (ucr (stdOps half negl) ax e (k+1) a false ++ [entG e (k+1) 0]) ψ
      = muxIdeal ax (k+1) a ψ := by
  sorry
end Qclib
