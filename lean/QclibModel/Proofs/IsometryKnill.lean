import QclibModel.Model.Isometry
import Mathlib.Data.Matrix.Mul
import Mathlib.Data.Matrix.Basic
import Mathlib.LinearAlgebra.Matrix.ConjTranspose
import Mathlib.Algebra.Star.Basic
import Mathlib.Algebra.BigOperators.Group.Finset.Basic
import Mathlib.Algebra.BigOperators.Group.List.Basic
import Mathlib.Algebra.Ring.Int.Defs
import Mathlib.Data.Fin.VecNotation
import Mathlib.Tactic.Ring
import Mathlib.Tactic.Abel
import Mathlib.Tactic.FinCases
import Mathlib.Algebra.BigOperators.Fin
/-
  C03 — Knill's decomposition (`_knill` of `qclib/isometry.py`), the algebra around the eigen
  kernel.  The code extends the isometry to a unitary `U`, takes an eigen-decomposition
  `U = ∑ λ_i |w_i⟩⟨w_i|` (complex Schur form: the `w_i` are ORTHONORMAL) and emits, for every
  eigenvalue whose argument is not (numerically) `0`, the factor
  `prep_i · X^{⊗n} · MCP(arg λ_i) · X^{⊗n} · prep_i† = 1 + (λ_i - 1)|w_i⟩⟨w_i|`.

  * `knill_factor`   : the emitted factor is `1 + (z - 1)|w⟩⟨w|`;
  * `knill_product`  : for orthonormal `w_i` the product of the factors, in ANY order, is
                       `1 + ∑ (λ_i - 1)|w_i⟩⟨w_i|`;
  * `knill_complete` : with completeness `∑ |w_i⟩⟨w_i| = 1` this is `∑ λ_i |w_i⟩⟨w_i| = U`;
  * `knill_skip`     : dropping the factors with `λ_i = 1` does not change the product;
  * `knill_sandwich` : in the amplitude semantics `X^{⊗n} · MCP(z) · X^{⊗n}` is the diagonal
                       operator "`z` on `|0…0⟩`, `1` elsewhere", for all `n ≥ 1`;
  * an `example` that `knill_product` fails for non-orthogonal eigenvectors (what
    `np.linalg.eig` may return on a repeated eigenvalue — the defect that was repaired).

  Everything over an arbitrary commutative `StarRing`; namespace `Qclib.Iso.Knill`.
-/
namespace Qclib.Iso.Knill

open Matrix

section algebra
variable {ι κ R : Type} [CommRing R] [StarRing R] [Fintype ι] [DecidableEq ι]

/-- The rank-one projector `|w⟩⟨w|`. -/
def proj (w : ι → R) : Matrix ι ι R := vecMulVec w (star w)

/-- One factor of Knill's product: `1 + (z - 1)|w⟩⟨w|`. -/
def factor (z : R) (w : ι → R) : Matrix ι ι R := 1 + (z - 1) • proj w

omit [DecidableEq ι] in
/-- `|u⟩⟨u| · |v⟩⟨v| = ⟨u|v⟩ · |u⟩⟨v|`. -/
theorem proj_mul_proj (u v : ι → R) :
    proj u * proj v = (star u ⬝ᵥ v) • vecMulVec u (star v) := by
  unfold proj
  rw [vecMulVec_mul_vecMulVec, vecMulVec_smul]

variable [DecidableEq κ]

omit [DecidableEq ι] in
/-- Orthonormal vectors give orthogonal idempotent projectors. -/
theorem proj_orth (w : κ → ι → R)
    (horth : ∀ i j, star (w i) ⬝ᵥ w j = if i = j then 1 else 0) (i j : κ) :
    proj (w i) * proj (w j) = if i = j then proj (w i) else 0 := by
  rw [proj_mul_proj, horth]
  by_cases h : i = j
  · subst h; simp [proj]
  · simp [h]

omit [DecidableEq ι] in
/-- A projector annihilates a combination of the projectors of the other vectors. -/
theorem proj_mul_sum (w : κ → ι → R)
    (horth : ∀ i j, star (w i) ⬝ᵥ w j = if i = j then 1 else 0) (c : κ → R) (i : κ) :
    ∀ l : List κ, i ∉ l → proj (w i) * (l.map (fun j => c j • proj (w j))).sum = 0
  | [], _ => by simp
  | j :: l, h => by
    have hij : i ≠ j := fun e => h (by simp [e])
    have hl : i ∉ l := fun e => h (by simp [e])
    rw [List.map_cons, List.sum_cons, mul_add, proj_mul_sum w horth c i l hl, add_zero,
      mul_smul_comm, proj_orth w horth, if_neg hij, smul_zero]

/-- **Knill's product, any order.**  For orthonormal `w_i` and any duplicate-free list `l` of
indices, the ordered product (in the non-commutative matrix ring) of the factors
`1 + (λ_i - 1)|w_i⟩⟨w_i|` is `1 + ∑_{i ∈ l} (λ_i - 1)|w_i⟩⟨w_i|`. -/
theorem knill_product (w : κ → ι → R) (lam : κ → R)
    (horth : ∀ i j, star (w i) ⬝ᵥ w j = if i = j then 1 else 0) :
    ∀ l : List κ, l.Nodup →
      (l.map (fun i => 1 + (lam i - 1) • proj (w i))).prod
        = 1 + (l.map (fun i => (lam i - 1) • proj (w i))).sum
  | [], _ => by simp
  | i :: l, h => by
    obtain ⟨hi, hl⟩ := List.nodup_cons.mp h
    rw [List.map_cons, List.prod_cons, knill_product w lam horth l hl, List.map_cons,
      List.sum_cons, add_mul, one_mul, mul_add, mul_one, smul_mul_assoc,
      proj_mul_sum w horth (fun j => lam j - 1) i l hi, smul_zero, add_zero]
    abel

/-- The product does not depend on the order of the factors. -/
theorem knill_product_perm (w : κ → ι → R) (lam : κ → R)
    (horth : ∀ i j, star (w i) ⬝ᵥ w j = if i = j then 1 else 0)
    (l l' : List κ) (hl : l.Nodup) (hp : l.Perm l') :
    (l.map (fun i => 1 + (lam i - 1) • proj (w i))).prod
      = (l'.map (fun i => 1 + (lam i - 1) • proj (w i))).prod := by
  rw [knill_product w lam horth l hl, knill_product w lam horth l' (hp.nodup_iff.mp hl),
    (hp.map _).sum_eq]

/-- **Knill's product is the spectral form of the unitary.**  If moreover the projectors are
complete (`∑ |w_i⟩⟨w_i| = 1`) and `l` enumerates the index type, the product of the factors is
`∑ λ_i |w_i⟩⟨w_i|`. -/
theorem knill_complete [Fintype κ] (w : κ → ι → R) (lam : κ → R)
    (horth : ∀ i j, star (w i) ⬝ᵥ w j = if i = j then 1 else 0)
    (hcomp : ∑ i, proj (w i) = 1) (l : List κ) (hnd : l.Nodup) (hall : ∀ i, i ∈ l) :
    (l.map (fun i => 1 + (lam i - 1) • proj (w i))).prod = ∑ i, lam i • proj (w i) := by
  rw [knill_product w lam horth l hnd, ← List.sum_toFinset _ hnd]
  have huniv : l.toFinset = Finset.univ := by
    ext i; simp [hall i]
  rw [huniv]
  simp only [sub_smul, one_smul, Finset.sum_sub_distrib, hcomp]
  abel

omit [DecidableEq κ] in
/-- **Skipping trivial eigenvalues.**  A factor with `λ_i = 1` is the identity, so the product
over the retained indices `l.filter keep` equals the product over all of `l` whenever every
dropped index has `λ_i = 1`.  (No orthogonality needed.) -/
theorem knill_skip (w : κ → ι → R) (lam : κ → R) (keep : κ → Bool)
    (hkeep : ∀ i, keep i = false → lam i = 1) :
    ∀ l : List κ,
      ((l.filter keep).map (fun i => 1 + (lam i - 1) • proj (w i))).prod
        = (l.map (fun i => 1 + (lam i - 1) • proj (w i))).prod
  | [] => by simp
  | i :: l => by
    cases hk : keep i with
    | true =>
      rw [List.filter_cons_of_pos (by simpa using hk), List.map_cons, List.prod_cons,
        knill_skip w lam keep hkeep l, List.map_cons, List.prod_cons]
    | false =>
      rw [List.filter_cons_of_neg (by simp [hk]), knill_skip w lam keep hkeep l, List.map_cons,
        List.prod_cons, hkeep i hk, sub_self, zero_smul, add_zero, one_mul]

/-- **What `_knill` builds.**  Orthonormal, complete eigenvectors; the factors of the eigenvalues
the code keeps (every dropped one is `1`), in the order of any duplicate-free enumeration:
the product is `∑ λ_i |w_i⟩⟨w_i|`. -/
theorem knill_kept_complete [Fintype κ] (w : κ → ι → R) (lam : κ → R)
    (horth : ∀ i j, star (w i) ⬝ᵥ w j = if i = j then 1 else 0)
    (hcomp : ∑ i, proj (w i) = 1) (keep : κ → Bool) (hkeep : ∀ i, keep i = false → lam i = 1)
    (l : List κ) (hnd : l.Nodup) (hall : ∀ i, i ∈ l) :
    ((l.filter keep).map (fun i => 1 + (lam i - 1) • proj (w i))).prod
      = ∑ i, lam i • proj (w i) := by
  rw [knill_skip w lam keep hkeep l, knill_complete w lam horth hcomp l hnd hall]

/-- **The circuit factor.**  `prep† ; X^{⊗n} ; MCP ; X^{⊗n} ; prep` is the operator `A D Aᴴ` with
`A` the state-preparation unitary (`A A† = 1`, column `i0 = |0…0⟩` equal to the eigenvector `w`)
and `D` the diagonal matrix with `z` at `i0` and `1` elsewhere.  It equals `1 + (z - 1)|w⟩⟨w|`. -/
theorem knill_factor (A : Matrix ι ι R) (w : ι → R) (i0 : ι) (z : R)
    (hA : A * Aᴴ = 1) (hcol : ∀ x, A x i0 = w x) :
    A * Matrix.diagonal (fun x => if x = i0 then z else 1) * Aᴴ = 1 + (z - 1) • proj w := by
  ext x y
  have hk : ∀ k, A x k * (if k = i0 then z else 1) * star (A y k)
      = A x k * star (A y k) + if k = i0 then (z - 1) * (A x i0 * star (A y i0)) else 0 := by
    intro k
    by_cases h : k = i0
    · subst h; simp only [if_true]; ring
    · simp only [if_neg h]; ring
  rw [← hA, Matrix.mul_apply]
  simp only [Matrix.mul_diagonal, conjTranspose_apply, hk, Finset.sum_add_distrib,
    Finset.sum_ite_eq', Finset.mem_univ, if_true]
  simp only [Matrix.add_apply, Matrix.smul_apply, Matrix.mul_apply, conjTranspose_apply, proj,
    vecMulVec_apply, smul_eq_mul, Pi.star_apply, ← hcol]

/-- **The whole Knill circuit.**  State preparations `A i` (unitary, column `i0` equal to the
eigenvector `w i`), one emitted block `A i · D(λ_i) · (A i)†` per retained eigenvalue (every
dropped one equals `1`), orthonormal and complete eigenvectors: the product of the emitted blocks
— in the order of ANY duplicate-free enumeration `l` of the eigen-indices, in particular in the
reversed order in which a circuit composes — is the spectral form `∑ λ_i |w_i⟩⟨w_i|` of the
unitary. -/
theorem knill_circuit [Fintype κ] (w : κ → ι → R) (lam : κ → R)
    (A : κ → Matrix ι ι R) (i0 : ι)
    (hA : ∀ i, A i * (A i)ᴴ = 1) (hcol : ∀ i x, A i x i0 = w i x)
    (horth : ∀ i j, star (w i) ⬝ᵥ w j = if i = j then 1 else 0)
    (hcomp : ∑ i, proj (w i) = 1) (keep : κ → Bool) (hkeep : ∀ i, keep i = false → lam i = 1)
    (l : List κ) (hnd : l.Nodup) (hall : ∀ i, i ∈ l) :
    ((l.filter keep).map
        (fun i => A i * Matrix.diagonal (fun x => if x = i0 then lam i else 1) * (A i)ᴴ)).prod
      = ∑ i, lam i • proj (w i) := by
  have hf : (fun i => A i * Matrix.diagonal (fun x => if x = i0 then lam i else 1) * (A i)ᴴ)
      = fun i => 1 + (lam i - 1) • proj (w i) :=
    funext fun i => knill_factor (A i) (w i) i0 (lam i) (hA i) (hcol i)
  rw [hf]
  exact knill_kept_complete w lam horth hcomp keep hkeep l hnd hall

end algebra

/-! ### the `X^{⊗n} · MCP(z) · X^{⊗n}` sandwich in the amplitude semantics -/

section sandwich
variable {R : Type} [CommRing R]

/-- `circuit.x(list(range(n)))`: an `X` on each of the wires `0, …, n-1`, in this order. -/
def xAll : Nat → State R → State R
  | 0, ψ => ψ
  | n + 1, ψ => applyMcu [] Mat2.X n (xAll n ψ)

/-- `xAll` is the left fold of the single `X` gates over `range n`. -/
theorem xAll_eq_foldl (n : Nat) (ψ : State R) :
    xAll n ψ = (List.range n).foldl (fun φ q => applyMcu [] Mat2.X q φ) ψ := by
  induction n with
  | zero => rfl
  | succ n ih => rw [List.range_succ, List.foldl_append, ← ih]; rfl

/-- `circuit.mcp(arg, list(range(n-1)), n-1)` with `z = e^{i·arg}`: the phase `diag(1, z)` on wire
`n-1`, controlled on the wires `0 … n-2` all being `1`. -/
def mcp (n : Nat) (z : R) (ψ : State R) : State R :=
  applyMcu ((List.range (n - 1)).map (·, true)) ⟨1, 0, 0, z⟩ (n - 1) ψ

/-- The label with the wires `0 … n-1` negated. -/
def flipAll (n : Nat) (b : Bits) : Bits := fun i => if i < n then !b i else b i

/-- Are the wires `0 … n-1` of the label all `0`? -/
def allFalse (n : Nat) (b : Bits) : Bool := (List.range n).all (fun i => !b i)

theorem allFalse_iff (n : Nat) (b : Bits) : allFalse n b = true ↔ ∀ i, i < n → b i = false := by
  simp [allFalse, List.all_eq_true]

theorem x_apply (q : Nat) (ψ : State R) (b : Bits) :
    applyMcu [] Mat2.X q ψ b = ψ (flipBit b q) := by
  have hf : ∀ v, b q = !v → setBit b q v = flipBit b q := by
    intro v hv; funext i
    simp only [setBit, flipBit]
    split
    · next h => subst h; rw [hv]; simp
    · rfl
  simp only [applyMcu, ctrlOk, List.all_nil, if_true, Mat2.X]
  cases h : b q
  · simp only [Bool.false_eq_true, if_false, zero_mul, one_mul, zero_add]
    rw [hf true (by simp [h])]
  · simp only [if_true, zero_mul, one_mul, add_zero]
    rw [hf false (by simp [h])]

theorem xAll_apply (n : Nat) (ψ : State R) (b : Bits) : xAll n ψ b = ψ (flipAll n b) := by
  induction n generalizing b with
  | zero =>
    have h0 : flipAll 0 b = b := by funext i; simp [flipAll]
    rw [xAll, h0]
  | succ n ih =>
    rw [xAll, x_apply, ih]
    congr 1
    funext i
    simp only [flipAll, flipBit]
    by_cases h1 : i = n
    · subst h1; simp
    · by_cases h2 : i < n
      · simp [h1, h2, Nat.lt_succ_of_lt h2]
      · have : ¬ i < n + 1 := by omega
        simp [h1, h2, this]

theorem flipAll_flipAll (n : Nat) (b : Bits) : flipAll n (flipAll n b) = b := by
  funext i; simp only [flipAll]; split <;> simp

theorem mcp_apply (m : Nat) (z : R) (ψ : State R) (b : Bits) :
    mcp (m + 1) z ψ b = (if (List.range (m + 1)).all (fun i => b i) then z else 1) * ψ b := by
  have hc : ctrlOk ((List.range m).map (·, true)) b = (List.range m).all (fun i => b i) := by
    simp [ctrlOk, List.all_map, Function.comp_def]
  have hs : ∀ v, b m = v → setBit b m v = b := by
    intro v h; funext i; simp only [setBit]; split
    · next e => subst e; exact h.symm
    · rfl
  simp only [mcp, Nat.add_sub_cancel, applyMcu, hc, List.range_succ, List.all_append,
    List.all_cons, List.all_nil, Bool.and_true]
  cases h1 : (List.range m).all (fun i => b i) <;> cases h2 : b m <;>
    simp [hs _ h2]

/-- **The phase sandwich.**  For every `n ≥ 1`, `X^{⊗n} ; MCP(z) ; X^{⊗n}` on the wires `0 … n-1`
multiplies the amplitude of a basis label by `z` exactly when its wires `0 … n-1` are all `0`,
and by `1` otherwise: it is the diagonal operator `D` of `knill_factor` with `i0 = |0…0⟩`. -/
theorem knill_sandwich (n : Nat) (hn : 1 ≤ n) (z : R) (ψ : State R) (b : Bits) :
    xAll n (mcp n z (xAll n ψ)) b = (if allFalse n b then z else 1) * ψ b := by
  obtain ⟨m, rfl⟩ : ∃ m, n = m + 1 := ⟨n - 1, by omega⟩
  rw [xAll_apply, mcp_apply, xAll_apply, flipAll_flipAll]
  have : (List.range (m + 1)).all (fun i => flipAll (m + 1) b i) = allFalse (m + 1) b := by
    rw [Bool.eq_iff_iff, allFalse_iff, List.all_eq_true]
    constructor
    · intro h i hi
      have := h i (List.mem_range.mpr hi)
      simpa [flipAll, hi] using this
    · intro h i hi
      have hi' := List.mem_range.mp hi
      simp [flipAll, hi', h i hi']
  rw [this]

/-- Non-vacuity / sanity on two qubits: the label `00` picks up `z`, the label `10` does not. -/
example (z : ℤ) (ψ : State ℤ) :
    xAll 2 (mcp 2 z (xAll 2 ψ)) (fun _ => false) = z * ψ (fun _ => false) ∧
    xAll 2 (mcp 2 z (xAll 2 ψ)) (fun i => i == 0) = ψ (fun i => i == 0) := by
  constructor
  · rw [knill_sandwich 2 (by decide)]; simp [allFalse]
  · rw [knill_sandwich 2 (by decide)]; simp [allFalse, List.range_succ]

end sandwich

/-! ### non-vacuity and the failure without orthogonality -/

section examples

/-- Non-vacuity of `knill_product` / `knill_complete` / `knill_kept_complete`: over `ℤ`,
`ι = κ = Fin 2`, the standard basis is orthonormal and complete. -/
example :
    (∀ i j : Fin 2, star ((fun k : Fin 2 => (Pi.single k 1 : Fin 2 → ℤ)) i)
        ⬝ᵥ (fun k : Fin 2 => (Pi.single k 1 : Fin 2 → ℤ)) j = if i = j then 1 else 0) ∧
    ∑ i : Fin 2, proj (Pi.single i 1 : Fin 2 → ℤ) = 1 := by
  constructor
  · decide
  · ext x y; fin_cases x <;> fin_cases y <;> simp [proj, vecMulVec_apply, Fin.sum_univ_two]

/-- Non-vacuity of `knill_factor`: `A = 1`, `w = e_{i0}`. -/
example : (1 : Matrix (Fin 2) (Fin 2) ℤ) * (1 : Matrix (Fin 2) (Fin 2) ℤ)ᴴ = 1 ∧
    ∀ x, (1 : Matrix (Fin 2) (Fin 2) ℤ) x 0 = (Pi.single 0 1 : Fin 2 → ℤ) x := by
  constructor
  · simp
  · decide

/-- **Without orthogonality `knill_product` fails.**  Over `ℤ` with `w₀ = (1,0)`, `w₁ = (1,1)`
(not orthogonal) and `λ₀ = λ₁ = 2`: the product of the two factors differs from
`1 + P₀ + P₁` (entry `(0,1)`: `3` versus `1`).  This is the situation `np.linalg.eig` could
produce on a repeated eigenvalue. -/
example :
    let w : Fin 2 → Fin 2 → ℤ := ![![1, 0], ![1, 1]]
    let lam : Fin 2 → ℤ := fun _ => 2
    ([0, 1].map (fun i => 1 + (lam i - 1) • proj (w i))).prod
      ≠ 1 + ([0, 1].map (fun i => (lam i - 1) • proj (w i))).sum := by
  intro w lam h
  have h01 := congrFun (congrFun h 0) 1
  simp [w, lam, proj, Matrix.mul_apply, vecMulVec_apply, Fin.sum_univ_two, Matrix.add_apply] at h01

end examples

end Qclib.Iso.Knill
