import QclibModel.Spec.Sparse
import QclibModel.Proofs.SemLemmas
import QclibModel.Proofs.SparsePivotProof
/-
  C06 — PivotInitialize, whole circuit (part A): label-level (classical) action of the gates the
  pivot generator emits.

  * `PermCirc gs τ`: the gate list `gs` acts on every state as the relabelling `ψ ↦ ψ ∘ τ`.
  * `x`, `cx` (with `ctrl_state`), `mcuX`, `mcxd` are such relabellings (`mcxTau`).
  * closed forms of a CX fan with one control (`fanFold_apply`) and of an X layer (`xsFold_apply`).
-/
namespace Qclib.Sparse
open Qclib

/-- classical action of a multi-controlled X with control literals `cs` and target `t` -/
def mcxTau (cs : List (Nat × Bool)) (t : Nat) (b : Bits) : Bits :=
  if ctrlOk cs b then flipBit b t else b

section
variable {Θ R : Type} [CommRing R] [RotSem Θ R]

/-- the gate list acts as the relabelling `ψ ↦ ψ ∘ τ` on every state -/
def PermCirc (iu : R) (dn : List Nat → List (Amp Θ) → State R → State R) (gs : List (SG Θ))
    (τ : Bits → Bits) : Prop :=
  ∀ (ψ : State R) (b : Bits), semSG iu dn gs ψ b = ψ (τ b)

theorem applyMcu_X (cs : List (Nat × Bool)) (t : Nat) (ψ : State R) (b : Bits) :
    applyMcu cs Mat2.X t ψ b = ψ (mcxTau cs t b) := by
  unfold applyMcu mcxTau
  by_cases h : ctrlOk cs b = true
  · rw [if_pos h, if_pos h, ← setBit_not]
    cases hb : b t <;> simp [Mat2.X]
  · rw [if_neg h, if_neg h]

theorem pv_semSG_append (iu : R) (dn : List Nat → List (Amp Θ) → State R → State R)
    (c1 c2 : List (SG Θ)) (ψ : State R) :
    semSG iu dn (c1 ++ c2) ψ = semSG iu dn c2 (semSG iu dn c1 ψ) := by
  simp [semSG, List.foldl_append]

theorem PermCirc.nil (iu : R) (dn : List Nat → List (Amp Θ) → State R → State R) :
    PermCirc iu dn ([] : List (SG Θ)) id := fun _ _ => rfl

theorem PermCirc.append {iu : R} {dn : List Nat → List (Amp Θ) → State R → State R}
    {g1 g2 : List (SG Θ)} {τ1 τ2 : Bits → Bits} (h1 : PermCirc iu dn g1 τ1)
    (h2 : PermCirc iu dn g2 τ2) : PermCirc iu dn (g1 ++ g2) (fun b => τ1 (τ2 b)) := by
  intro ψ b
  rw [pv_semSG_append, h2, h1]

theorem PermCirc.x (iu : R) (dn : List Nat → List (Amp Θ) → State R → State R) (q : Nat) :
    PermCirc iu dn [SG.x q] (mcxTau [] q) := fun ψ b => applyMcu_X [] q ψ b

theorem PermCirc.cx (iu : R) (dn : List Nat → List (Amp Θ) → State R → State R) (c t : Nat)
    (cv : Bool) : PermCirc iu dn [SG.cx c t cv] (mcxTau [(c, cv)] t) :=
  fun ψ b => applyMcu_X [(c, cv)] t ψ b

theorem PermCirc.mcuX (iu : R) (dn : List Nat → List (Amp Θ) → State R → State R) (be : String)
    (cs : List Nat) (t : Nat) :
    PermCirc iu dn [SG.mcuX be cs t] (mcxTau (cs.map (fun c => (c, true))) t) :=
  fun ψ b => applyMcu_X _ t ψ b

theorem PermCirc.mcxd (iu : R) (dn : List Nat → List (Amp Θ) → State R → State R)
    (cs : List Nat) (t : Nat) (dirty : List Nat) :
    PermCirc iu dn [SG.mcxd cs t dirty] (mcxTau (cs.map (fun c => (c, true))) t) :=
  fun ψ b => applyMcu_X _ t ψ b

/-- a list of gates each of which is a relabelling, in reverse order, is the relabelling by the
forward composition -/
theorem PermCirc.reverse_of_each (iu : R) (dn : List Nat → List (Amp Θ) → State R → State R)
    (L : List (SG Θ)) (τf : SG Θ → Bits → Bits) (h : ∀ g ∈ L, PermCirc iu dn [g] (τf g)) :
    PermCirc iu dn L.reverse (fun b => L.foldl (fun b g => τf g b) b) := by
  induction L with
  | nil => exact PermCirc.nil iu dn
  | cons g L ih =>
    rw [List.reverse_cons]
    have h1 := ih (fun g' hg' => h g' (List.mem_cons_of_mem _ hg'))
    have h2 := h g (List.mem_cons_self ..)
    exact PermCirc.append h1 h2

end

/-! ### closed forms -/

theorem mcxTau_nil (t : Nat) (b : Bits) : mcxTau [] t b = flipBit b t := by
  simp [mcxTau, ctrlOk]

theorem mcxTau_one (c : Nat) (cv : Bool) (t : Nat) (b : Bits) :
    mcxTau [(c, cv)] t b = if (b c == cv) then flipBit b t else b := by
  simp [mcxTau, ctrlOk]

/-- CX fan: one control `c` (required value `cv`), targets `ts` -/
def fanFold (c : Nat) (cv : Bool) (ts : List Nat) (b : Bits) : Bits :=
  ts.foldl (fun b k => mcxTau [(c, cv)] k b) b

theorem fanFold_apply (c : Nat) (cv : Bool) (ts : List Nat) (hc : c ∉ ts) (hnd : ts.Nodup)
    (b : Bits) (w : Nat) :
    fanFold c cv ts b w = if (b c == cv) && ts.contains w then !b w else b w := by
  induction ts generalizing b with
  | nil => simp [fanFold]
  | cons k ts ih =>
    have hck : c ≠ k := fun e => hc (e ▸ List.mem_cons_self ..)
    have hc' : c ∉ ts := fun e => hc (List.mem_cons_of_mem _ e)
    have hk : k ∉ ts := (List.nodup_cons.mp hnd).1
    have hnd' := (List.nodup_cons.mp hnd).2
    show fanFold c cv ts (mcxTau [(c, cv)] k b) w = _
    rw [ih hc' hnd', mcxTau_one]
    by_cases hcv : (b c == cv) = true
    · rw [if_pos hcv, flipBit_ne _ hck, hcv]
      by_cases hw : w = k
      · subst hw
        simp [hk, flipBit_eq]
      · simp [hw, flipBit_ne _ hw]
    · rw [if_neg hcv]
      have : (b c == cv) = false := by simpa using hcv
      simp [this]

/-- X layer on the wires `ws` -/
def xsFold (ws : List Nat) (b : Bits) : Bits := ws.foldl (fun b k => flipBit b k) b

theorem xsFold_flip (ws : List Nat) (b : Bits) (q : Nat) :
    xsFold ws (flipBit b q) = flipBit (xsFold ws b) q := by
  induction ws generalizing b with
  | nil => rfl
  | cons k ws ih =>
    show xsFold ws (flipBit (flipBit b q) k) = flipBit (xsFold ws (flipBit b k)) q
    rw [flipBit_comm, ih]

theorem xsFold_xsFold (ws : List Nat) (b : Bits) : xsFold ws (xsFold ws b) = b := by
  induction ws generalizing b with
  | nil => rfl
  | cons k ws ih =>
    show xsFold ws (flipBit (xsFold ws (flipBit b k)) k) = b
    rw [← xsFold_flip, flipBit_flipBit, ih]

theorem xsFold_apply (ws : List Nat) (hnd : ws.Nodup) (b : Bits) (w : Nat) :
    xsFold ws b w = if ws.contains w then !b w else b w := by
  induction ws generalizing b with
  | nil => simp [xsFold]
  | cons k ws ih =>
    have hk : k ∉ ws := (List.nodup_cons.mp hnd).1
    show xsFold ws (flipBit b k) w = _
    rw [ih (List.nodup_cons.mp hnd).2]
    by_cases hw : w = k
    · subst hw
      simp [hk, flipBit_eq]
    · simp [hw, flipBit_ne _ hw]


/-! ### one pivot step on labels -/

/-- key read off a label: character `i` sits on wire `r i` -/
def keyOf (r : Nat → Nat) (n : Nat) (b : Bits) : Str := (List.range n).map (fun i => b (r i))

theorem keyOf_length (r : Nat → Nat) (n : Nat) (b : Bits) : (keyOf r n b).length = n := by
  simp [keyOf]

theorem bitAt_keyOf (r : Nat → Nat) (n : Nat) (b : Bits) (i : Nat) :
    bitAt (keyOf r n b) i = if i < n then b (r i) else false := bitAt_map_range n _ i

/-- forward classical action of the gates of one `_pivoting` call (CX fan, X sandwich, MCX,
X sandwich), character `k` on wire `r k` -/
def stepB (r : Nat → Nat) (n lo d : Nat) (cv : Bool) (tcx : List Nat) (zero : Str) (b : Bits) :
    Bits :=
  let remain := (List.range n).drop lo
  let xs := (remain.filter (fun k => bitAt zero k == false)).map r
  xsFold xs (mcxTau ((remain.map r).map (fun c => (c, true))) (r d)
    (xsFold xs (fanFold (r d) cv (tcx.map r) b)))

theorem stepB_eq (r : Nat → Nat) (n lo d : Nat) (cv : Bool) (tcx : List Nat) (zero : Str)
    (b : Bits) :
    stepB r n lo d cv tcx zero b =
      if ctrlOk ((((List.range n).drop lo).map r).map (fun c => (c, true)))
          (xsFold ((((List.range n).drop lo).filter (fun k => bitAt zero k == false)).map r)
            (fanFold (r d) cv (tcx.map r) b)) = true
      then flipBit (fanFold (r d) cv (tcx.map r) b) (r d)
      else fanFold (r d) cv (tcx.map r) b := by
  unfold stepB mcxTau
  simp only
  split
  · rw [xsFold_flip, xsFold_xsFold]
  · rw [xsFold_xsFold]

theorem map_contains_inj (r : Nat → Nat) (n : Nat)
    (hr : ∀ i j, i < n → j < n → r i = r j → i = j) (l : List Nat) (hl : ∀ k ∈ l, k < n)
    (i : Nat) (hi : i < n) : (l.map r).contains (r i) = l.contains i := by
  rw [Bool.eq_iff_iff, List.contains_iff_mem, List.contains_iff_mem, List.mem_map]
  constructor
  · rintro ⟨k, hk, e⟩
    rw [← hr k i (hl k hk) hi e]; exact hk
  · intro h; exact ⟨i, h, rfl⟩

theorem map_nodup_inj (r : Nat → Nat) (n : Nat)
    (hr : ∀ i j, i < n → j < n → r i = r j → i = j) (l : List Nat) (hl : ∀ k ∈ l, k < n)
    (hnd : l.Nodup) : (l.map r).Nodup := by
  induction l with
  | nil => simp
  | cons k l ih =>
    rw [List.map_cons, List.nodup_cons]
    have hk := (List.nodup_cons.mp hnd).1
    refine ⟨?_, ih (fun k' hk' => hl k' (List.mem_cons_of_mem _ hk')) (List.nodup_cons.mp hnd).2⟩
    intro hmem
    obtain ⟨k', hk', e⟩ := List.mem_map.mp hmem
    have := hr k' k (hl k' (List.mem_cons_of_mem _ hk')) (hl k (List.mem_cons_self ..)) e
    exact hk (this ▸ hk')

end Qclib.Sparse
