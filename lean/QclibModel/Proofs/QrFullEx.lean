import QclibModel.Proofs.QrFullResidual
import Mathlib.LinearAlgebra.Matrix.Notation
import Mathlib.Algebra.BigOperators.Fin
import Mathlib.Tactic.FinCases
import Mathlib.Tactic.NormNum
/-
  C02 / QR — concrete instances for the non-vacuity examples of Props/C02QR.lean.
-/
namespace Qclib.QrFull
open Matrix

variable {N : ℕ}

theorem pairs_two : pairs 2 = [((0 : Fin 2), (1 : Fin 2))] := by decide

theorem pairs_three : pairs 3 = [((0 : Fin 3), (1 : Fin 3)), (0, 2), (1, 2)] := by decide

/-- the real orthogonal `(1/5)·[[3, 4], [4, −3]]` (no zero entry). -/
noncomputable def ex345 : Mat 2 := !![3 / 5, 4 / 5; 4 / 5, -(3 / 5)]

theorem ex345_unitary : ex345ᴴ * ex345 = 1 := by
  ext i j
  fin_cases i <;> fin_cases j <;>
    simp [ex345, Matrix.mul_apply, Fin.sum_univ_two, conjTranspose_apply, map_ofNat] <;> norm_num

theorem ex345_ok : SweepOk (pairs 2) ex345 := by
  rw [pairs_two]
  refine ⟨?_, trivial⟩
  intro h
  have := (pairNorm_eq_zero.1 h).1
  simp [ex345] at this

theorem ex345_norm : pairNorm (ex345 0 0) (ex345 1 0) = 1 := by
  unfold pairNorm; rw [Real.sqrt_eq_one]; simp [ex345]; norm_num

/-- `b = 4/5` is neither `0` nor `1`. -/
theorem ex345_loc : gB ex345 0 1 ≠ 0 ∧ gB ex345 0 1 ≠ 1 := by
  unfold gB; rw [ex345_norm]; simp [ex345]; norm_num

theorem ex345_nonzero : ∀ i j, ex345 i j ≠ 0 := by
  intro i j; fin_cases i <;> fin_cases j <;> simp [ex345]

/-- `((1+i)/2)·[[1, 1], [1, −1]]`: unitary, every entry is `±(1+i)/2` (exactly representable in
binary floating point), no zero entry. -/
noncomputable def exHi : Mat 2 :=
  !![(1 + Complex.I) / 2, (1 + Complex.I) / 2; (1 + Complex.I) / 2, -((1 + Complex.I) / 2)]

theorem exHi_unitary : exHiᴴ * exHi = 1 := by
  ext i j
  fin_cases i <;> fin_cases j <;>
    simp [exHi, Matrix.mul_apply, Fin.sum_univ_two, conjTranspose_apply, map_ofNat, Complex.ext_iff] <;>
    norm_num

theorem exHi_nonzero : ∀ i j, exHi i j ≠ 0 := by
  intro i j; fin_cases i <;> fin_cases j <;> simp [exHi, Complex.ext_iff]

theorem exHi_ok : SweepOk (pairs 2) exHi := by
  rw [pairs_two]
  refine ⟨?_, trivial⟩
  intro h
  have := (pairNorm_eq_zero.1 h).1
  simp [exHi, Complex.ext_iff] at this

theorem exHi_norm : pairNorm (exHi 0 0) (exHi 1 0) = 1 := by
  unfold pairNorm; rw [Real.sqrt_eq_one]; simp [exHi, Complex.normSq_apply]; norm_num

/-- its residual is exactly `diag(1, i)`: diagonal, phase `i ≠ 1`. -/
theorem exHi_residual : residual exHi = !![1, 0; 0, Complex.I] := by
  have h01 : (0 : Fin 2) ≠ 1 := by decide
  rw [residual_eq, pairs_two]
  simp only [final]
  ext i j
  fin_cases i <;> fin_cases j
  · simp only [Fin.zero_eta, Fin.isValue]
    rw [givens_mul_row_c _ h01]; simp [gA, gB, exHi_norm]; simp [exHi, Complex.ext_iff, map_ofNat]; norm_num
  · simp only [Fin.zero_eta, Fin.mk_one, Fin.isValue]
    rw [givens_mul_row_c _ h01]; simp [gA, gB, exHi_norm]; simp [exHi]
  · simp only [Fin.zero_eta, Fin.mk_one, Fin.isValue]
    rw [givens_mul_row_r _ h01]; simp [gA, gB, exHi_norm]; simp [exHi]
  · simp only [Fin.mk_one, Fin.isValue]
    rw [givens_mul_row_r _ h01]; simp [gA, gB, exHi_norm]; simp [exHi, Complex.ext_iff]; norm_num

/-- any diagonal matrix with non-zero diagonal passes the sweep (all `b = 0`), for every `N`. -/
theorem sweepOk_diagonal (ps : List (Fin N × Fin N)) (hps : ∀ p ∈ ps, p.1 ≠ p.2) (M : Mat N)
    (hd : ∀ i j : Fin N, i ≠ j → M i j = 0) (hnz : ∀ i : Fin N, M i i ≠ 0) : SweepOk ps M := by
  induction ps generalizing M with
  | nil => trivial
  | cons p ps ih =>
    obtain ⟨c, r⟩ := p
    have hcr : c ≠ r := hps (c, r) List.mem_cons_self
    have hν : pairNorm (M c c) (M r c) ≠ 0 := fun h => hnz c (pairNorm_eq_zero.1 h).1
    have hνc : ((pairNorm (M c c) (M r c) : ℝ) : ℂ) ≠ 0 := by exact_mod_cast hν
    have hb : gB M c r = 0 := by unfold gB; rw [hd r c hcr.symm]; simp
    have ha : gA M c r ≠ 0 := by unfold gA; exact div_ne_zero (hnz c) hνc
    refine ⟨hν, ih (fun q hq => hps q (List.mem_cons_of_mem _ hq)) _ ?_ ?_⟩
    · intro i j hij
      by_cases h1 : i = r
      · subst h1
        rw [givens_mul_row_r M hcr, hb, hd i j hij]; simp
      · by_cases h2 : i = c
        · subst h2
          rw [givens_mul_row_c M hcr, hb, hd i j hij]; simp
        · rw [givens_mul_other M hcr h2 h1]; exact hd i j hij
    · intro i
      by_cases h1 : i = r
      · subst h1
        rw [givens_mul_row_r M hcr, hb]
        simpa using mul_ne_zero ha (hnz i)
      · by_cases h2 : i = c
        · subst h2
          rw [givens_mul_row_c M hcr, hb]
          simpa using mul_ne_zero ha (hnz i)
        · rw [givens_mul_other M hcr h2 h1]; exact hnz i

theorem sweepOk_one (N : ℕ) : SweepOk (pairs N) (1 : Mat N) :=
  sweepOk_diagonal _ (fun _ hp => pairs_ne hp) 1 (fun i j hij => Matrix.one_apply_ne hij)
    (fun i => by simp)

end Qclib.QrFull
