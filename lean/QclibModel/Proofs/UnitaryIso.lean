import Mathlib.Data.Matrix.Block
import Mathlib.Data.Matrix.Mul
import Mathlib.Data.Fintype.Sum
import Mathlib.Algebra.Star.Basic
import Mathlib.Tactic.Ring
/-
  C02 — isometry mode of `qclib/unitary.py::build_unitary` (`iso > 0`).

      right_gates, theta, left_gates = cossin(gate)          # gate = u · CS · vdh
      if iso:
          gate_left = build_unitary(left_gates[0], decomposition, iso=iso-1)
          circuit = circuit.compose(gate_left, qubits[:-1])   # I₂ ⊗ (circuit of v0)
      else:
          gate_left = _unitary(list(left_gates), …)           # diag(v0, v1)

  In isometry mode only `left_gates[0] = v0` is synthesised (recursively, in mode `iso-1`) and put on
  the low wires, so the operator applied first is `I₂ ⊗ c0 = fromBlocks c0 0 0 c0` instead of
  `fromBlocks v0 0 0 v1`.  The theorems say: the leading columns (top qubit(s) reading `0`) of the
  circuit operator are those of the target; they do not depend on the dropped block `v1`.
  Block index: outer `Sum` = the top qubit.
-/
namespace Qclib.Uni
open Matrix

section Step
variable {R κ ρ : Type} [CommRing R] [Fintype κ]

/-- A column of `Xl · diag(a, b)` through the upper-left block only depends on that column of `a`. -/
theorem mul_fromBlocks_inl (Xl : Matrix ρ (κ ⊕ κ) R) (a b : Matrix κ κ R) (i : ρ) (j : κ) :
    (Xl * fromBlocks a 0 0 b) i (Sum.inl j) = ∑ k, Xl i (Sum.inl k) * a k j := by
  simp [Matrix.mul_apply, Fintype.sum_sum_type]

/-- **One isometry-mode step.**  `Xl` is everything applied after the left circuit (`u · CS`),
`v0, v1` the blocks of `vdh`, `v0'` the operator actually synthesised for `v0` (agreeing with `v0`
on the columns in `S`), `B` whatever sits in the other diagonal block (`v0'` again in the code).
The columns `Sum.inl j`, `j ∈ S`, of the circuit operator `Xl · diag(v0', B)` equal those of the
target `Xl · diag(v0, v1)`: they depend neither on the dropped block `v1` nor on `B`. -/
theorem iso_step (Xl : Matrix ρ (κ ⊕ κ) R) (v0 v0' v1 B : Matrix κ κ R) (S : Set κ)
    (hS : ∀ i, ∀ j ∈ S, v0' i j = v0 i j) :
    ∀ i, ∀ j ∈ S, (Xl * fromBlocks v0' 0 0 B) i (Sum.inl j)
      = (Xl * fromBlocks v0 0 0 v1) i (Sum.inl j) := by
  intro i j hj
  rw [mul_fromBlocks_inl, mul_fromBlocks_inl]
  exact Finset.sum_congr rfl (fun k _ => by rw [hS k j hj])

/-- Non-vacuity of `iso_step` (`κ = Fin 2` over `ℤ`, `S = {0}`): `v0'` differs from `v0` in column
`1`, `v1 ≠ B`, and still column `inl 0` agrees. -/
example (Xl : Matrix (Fin 2 ⊕ Fin 2) (Fin 2 ⊕ Fin 2) ℤ) (i : Fin 2 ⊕ Fin 2) :
    (Xl * (fromBlocks (Matrix.of fun _ b : Fin 2 => if b = 0 then (1 : ℤ) else 5) 0 0
            (Matrix.of fun _ _ : Fin 2 => (7 : ℤ)) : Matrix (Fin 2 ⊕ Fin 2) (Fin 2 ⊕ Fin 2) ℤ))
        i (Sum.inl 0)
      = (Xl * (fromBlocks (Matrix.of fun _ _ : Fin 2 => (1 : ℤ)) 0 0
            (Matrix.of fun _ _ : Fin 2 => (3 : ℤ)) : Matrix (Fin 2 ⊕ Fin 2) (Fin 2 ⊕ Fin 2) ℤ))
        i (Sum.inl 0) :=
  iso_step Xl (Matrix.of fun _ _ : Fin 2 => (1 : ℤ))
    (Matrix.of fun _ b : Fin 2 => if b = 0 then (1 : ℤ) else 5) _ _ {0}
    (by intro a b hb; simp at hb; simp [hb]) i 0 (by simp)

end Step

/-! ### all levels -/

/-- Index type after `t` isometry levels above a block indexed by `κ`: each level adds one top
qubit (outer `Sum`). -/
def Idx (κ : Type) : Nat → Type
  | 0 => κ
  | t + 1 => Idx κ t ⊕ Idx κ t

/-- `Fintype` on `Idx κ t`, by recursion (the step is the `Sum` instance, so that Mathlib's block
lemmas apply). -/
@[instance_reducible]
def Idx.fintype {κ : Type} [Fintype κ] : (t : Nat) → Fintype (Idx κ t)
  | 0 => (inferInstance : Fintype κ)
  | t + 1 => @instFintypeSum _ _ (Idx.fintype t) (Idx.fintype t)

instance {κ : Type} [Fintype κ] (t : Nat) : Fintype (Idx κ t) := Idx.fintype t

/-- The leading columns: all `t` top qubits read `0` (`t`-fold `Sum.inl`). -/
def lead {κ : Type} : (t : Nat) → κ → Idx κ t
  | 0, j => j
  | t + 1, j => Sum.inl (lead t j)

section Levels
variable {R κ : Type} [CommRing R] [Fintype κ]

/-- "Circuit operator `C` was obtained from target `U` by (at most) `t` levels of isometry-mode
synthesis."
* `exact`: no isometry level is used (mode `iso = 0`, or the `size ≤ 4` leaf `UnitaryGate(gate)`):
  the circuit operator is the target (the correctness of the non-isometry synthesis is the subject
  of the other theorems).
* `step`: `build_unitary(X, iso = t+1)` with `X = Xl · diag(v0, v1)` (`Xl = u · CS`): if `c0` was
  obtained from `v0 = left_gates[0]` by `t` levels, the circuit operator is `Xl · diag(c0, B)`
  (`B = c0` in the code: `I₂ ⊗ c0`). -/
inductive IsoSynth : (t : Nat) → Matrix (Idx κ t) (Idx κ t) R → Matrix (Idx κ t) (Idx κ t) R → Prop
  | exact (t : Nat) (U : Matrix (Idx κ t) (Idx κ t) R) : IsoSynth t U U
  | step {t : Nat} (Xl : Matrix (Idx κ t ⊕ Idx κ t) (Idx κ t ⊕ Idx κ t) R)
      (v0 c0 v1 B : Matrix (Idx κ t) (Idx κ t) R) :
      IsoSynth t v0 c0 →
      IsoSynth (t + 1) (Xl * fromBlocks v0 0 0 v1) (Xl * fromBlocks c0 0 0 B)

/-- **Isometry mode, all levels.**  If the circuit operator `C` comes from the target `U` by `t`
levels of isometry-mode synthesis then `C` and `U` have the same leading columns (`lead t j`: all
`t` top qubits `0`), for every row `i` and every `j : κ` — i.e. `C` restricted to inputs whose top
`t` qubits are `|0⟩` is the isometry given by the first `|κ|` columns of `U`. -/
theorem iso_columns {t : Nat} {U C : Matrix (Idx κ t) (Idx κ t) R} (h : IsoSynth t U C) :
    ∀ i j, C i (lead t j) = U i (lead t j) := by
  induction h with
  | exact t U => intro i j; rfl
  | @step t Xl v0 c0 v1 B _ ih =>
    intro i j
    classical
    exact iso_step Xl v0 c0 v1 B (Set.range (lead t))
      (by rintro i' _ ⟨j', rfl⟩; exact ih i' j') i (lead t j) ⟨j, rfl⟩

/-- Vector form of `iso_columns`: on every input vector supported on the leading labels (the `t`
top qubits in `|0⟩`) the circuit operator acts like the target. -/
theorem iso_mulVec {t : Nat} {U C : Matrix (Idx κ t) (Idx κ t) R} (h : IsoSynth t U C)
    (x : Idx κ t → R) (hx : ∀ c, c ∉ Set.range (lead (κ := κ) t) → x c = 0) :
    C *ᵥ x = U *ᵥ x := by
  funext i
  simp only [Matrix.mulVec, dotProduct]
  refine Finset.sum_congr rfl (fun c _ => ?_)
  by_cases hc : c ∈ Set.range (lead (κ := κ) t)
  · obtain ⟨j, rfl⟩ := hc
    rw [iso_columns h i j]
  · rw [hx c hc, mul_zero, mul_zero]

/-- Non-vacuity of `iso_columns`, two levels, arbitrary data: any `Xl₁, Xl₂`, dropped blocks
`v1, v1'` and fillers `B, B'` give an `IsoSynth 2` pair, whose leading columns therefore agree. -/
example (v0 v1 B : Matrix κ κ R) (Xl₁ : Matrix (κ ⊕ κ) (κ ⊕ κ) R)
    (v1' B' : Matrix (κ ⊕ κ) (κ ⊕ κ) R) (Xl₂ : Matrix ((κ ⊕ κ) ⊕ (κ ⊕ κ)) ((κ ⊕ κ) ⊕ (κ ⊕ κ)) R)
    (i : (κ ⊕ κ) ⊕ (κ ⊕ κ)) (j : κ) :
    (Xl₂ * fromBlocks (Xl₁ * fromBlocks v0 0 0 B) 0 0 B') i (Sum.inl (Sum.inl j))
      = (Xl₂ * fromBlocks (Xl₁ * fromBlocks v0 0 0 v1) 0 0 v1') i (Sum.inl (Sum.inl j)) :=
  iso_columns (κ := κ) (t := 2)
    (IsoSynth.step (t := 1) Xl₂ _ _ v1' B'
      (IsoSynth.step (t := 0) Xl₁ v0 v0 v1 B (IsoSynth.exact 0 v0))) i j

/-- … and the relation is not the identity: over `ℤ`, `κ = Unit`, one level, target
`diag(1, 1)` and circuit operator `diag(1, 0)` are related but different (they differ in the
non-leading column). -/
example : ∃ U C : Matrix (Idx Unit 1) (Idx Unit 1) ℤ, IsoSynth 1 U C ∧ U ≠ C := by
  refine ⟨_, _, IsoSynth.step (κ := Unit) (t := 0) (1 : Matrix (Unit ⊕ Unit) (Unit ⊕ Unit) ℤ)
    (1 : Matrix Unit Unit ℤ) (1 : Matrix Unit Unit ℤ) (1 : Matrix Unit Unit ℤ)
    (0 : Matrix Unit Unit ℤ) (IsoSynth.exact 0 _), ?_⟩
  intro h
  have h' : ((1 * fromBlocks (1 : Matrix Unit Unit ℤ) 0 0 1 : Matrix (Unit ⊕ Unit) (Unit ⊕ Unit) ℤ))
        (Sum.inr ()) (Sum.inr ())
      = ((1 * fromBlocks (1 : Matrix Unit Unit ℤ) 0 0 0 : Matrix (Unit ⊕ Unit) (Unit ⊕ Unit) ℤ))
        (Sum.inr ()) (Sum.inr ()) := congrFun (congrFun h (Sum.inr ())) (Sum.inr ())
  simp at h'

end Levels

end Qclib.Uni
