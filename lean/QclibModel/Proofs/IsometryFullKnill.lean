import QclibModel.Proofs.IsometryKnill
import QclibModel.Proofs.UnitaryFullMat
/-
  C03 — Knill's decomposition AT CIRCUIT LEVEL: the transformer of states the whole `_knill`
  circuit denotes, from `C03_knill` / `C03_knill_factor` and the specifications of the state
  preparations.

  Per retained eigenvalue the code emits  `prep_i† ; X^{⊗n} ; MCP(arg λ_i) ; X^{⊗n} ; prep_i`.
  Hypotheses: `prep_i` denotes a unitary matrix `A_i` on the wires `0 … n-1` whose column `|0…0⟩` is
  the eigenvector `w_i` (C01), `prep_i.inverse()` denotes `A_i†` (C15); the `w_i` are orthonormal and
  complete with `Σ λ_i |w_i⟩⟨w_i|` the spectral form (the Schur specification); dropped eigenvalues
  are `1`.  Conclusion: the whole circuit, blocks in the order of the loop, denotes
  `Σ λ_i |w_i⟩⟨w_i|` on the wires `0 … n-1` — on every state.
-/
namespace Qclib.Iso.Knill
open Qclib Qclib.Uni Matrix

section
variable {R : Type} [CommRing R]

/-- the index `|0…0⟩`. -/
def zeroIdx (n : Nat) : QI n := enc n (fun _ => false)

theorem enc_eq_zero_iff (n : Nat) (b : Bits) : enc n b = zeroIdx n ↔ allFalse n b = true := by
  rw [allFalse_iff]
  constructor
  · intro h i hi
    rw [← bitOf_enc n b hi, h, zeroIdx, bitOf_enc n _ hi]
  · intro h
    exact enc_congr n (fun q hq => h q hq)

/-- a diagonal matrix multiplies the amplitude of a label by the entry at its low wires. -/
theorem applyMat_diagonal (n : Nat) (d : QI n → R) (ψ : State R) (b : Bits) :
    applyMat n (diagonal d) ψ b = d (enc n b) * ψ b := by
  simp only [applyMat]
  rw [Finset.sum_eq_single (enc n b)]
  · rw [diagonal_apply_eq, over_enc]
  · intro j _ hj
    rw [diagonal_apply_ne _ (Ne.symm hj), zero_mul]
  · intro h; exact absurd (Finset.mem_univ _) h

/-- the basis state `|j0⟩` on the wires `0 … n-1`, tensor an arbitrary state `φ` of the other
wires. -/
def ket (n : Nat) (j0 : QI n) (φ : State R) : State R := fun b => if enc n b = j0 then φ b else 0

/-- a matrix maps `|j0⟩ ⊗ φ` to (column `j0`) `⊗ φ`. -/
theorem applyMat_ket (n : Nat) (M : Matrix (QI n) (QI n) R) (j0 : QI n) (φ : State R)
    (hφ : ∀ j b, φ (over n j b) = φ b) (b : Bits) :
    applyMat n M (ket n j0 φ) b = M (enc n b) j0 * φ b := by
  simp only [applyMat, ket, enc_over, hφ]
  rw [Finset.sum_eq_single j0]
  · rw [if_pos rfl]
  · intro j _ hj
    rw [if_neg hj, mul_zero]
  · intro h; exact absurd (Finset.mem_univ _) h

/-- **`X^{⊗n} ; MCP(z) ; X^{⊗n}` denotes `diag(z at |0…0⟩, 1 elsewhere)`** on the wires
`0 … n-1`, `n ≥ 1`. -/
theorem sandwich_mat (n : Nat) (hn : 1 ≤ n) (z : R) (ψ : State R) :
    xAll n (mcp n z (xAll n ψ))
      = applyMat n (diagonal (fun x => if x = zeroIdx n then z else 1)) ψ := by
  funext b
  rw [knill_sandwich n hn, applyMat_diagonal]
  congr 1
  by_cases h : allFalse n b = true
  · rw [if_pos h, if_pos ((enc_eq_zero_iff n b).2 h)]
  · rw [if_neg h, if_neg (fun e => h ((enc_eq_zero_iff n b).1 e))]

/-- one block of `_knill`: `prep† ; X^{⊗n} ; MCP ; X^{⊗n} ; prep`. -/
def block (n : Nat) (prep prepInv : State R → State R) (z : R) : State R → State R :=
  fun ψ => prep (xAll n (mcp n z (xAll n (prepInv ψ))))

/-- blocks applied in list order (head first), like the `for` loop of `_knill`. -/
def run {κ : Type} (blk : κ → State R → State R) : List κ → State R → State R
  | [], ψ => ψ
  | i :: l, ψ => run blk l (blk i ψ)

theorem run_mat {κ : Type} (n : Nat) (blk : κ → State R → State R)
    (M : κ → Matrix (QI n) (QI n) R) (hblk : ∀ i ψ, blk i ψ = applyMat n (M i) ψ)
    (l : List κ) (ψ : State R) :
    run blk l ψ = applyMat n ((l.reverse.map M).prod) ψ := by
  induction l generalizing ψ with
  | nil => simp [run, applyMat_one]
  | cons i l ih =>
    rw [run, ih, hblk, ← applyMat_mul]
    simp

variable [StarRing R]

/-- one block denotes `A · diag(z at |0…0⟩) · A†`. -/
theorem block_mat (n : Nat) (hn : 1 ≤ n) (prep prepInv : State R → State R)
    (A : Matrix (QI n) (QI n) R) (z : R)
    (hp : ∀ ψ, prep ψ = applyMat n A ψ) (hpi : ∀ ψ, prepInv ψ = applyMat n Aᴴ ψ) (ψ : State R) :
    block n prep prepInv z ψ
      = applyMat n (A * diagonal (fun x => if x = zeroIdx n then z else 1) * Aᴴ) ψ := by
  rw [block, hp, sandwich_mat n hn, hpi, ← applyMat_mul, ← applyMat_mul]

/-- **The whole Knill circuit, at circuit level.** -/
theorem knill_full {κ : Type} [Fintype κ] [DecidableEq κ] (n : Nat) (hn : 1 ≤ n)
    (w : κ → QI n → R) (lam : κ → R) (A : κ → Matrix (QI n) (QI n) R)
    (prep prepInv : κ → State R → State R)
    (hp : ∀ i ψ, prep i ψ = applyMat n (A i) ψ)
    (hpi : ∀ i ψ, prepInv i ψ = applyMat n (A i)ᴴ ψ)
    (hA : ∀ i, A i * (A i)ᴴ = 1) (hcol : ∀ i x, A i x (zeroIdx n) = w i x)
    (horth : ∀ i j, star (w i) ⬝ᵥ w j = if i = j then 1 else 0)
    (hcomp : ∑ i, proj (w i) = 1) (keep : κ → Bool) (hkeep : ∀ i, keep i = false → lam i = 1)
    (l : List κ) (hnd : l.Nodup) (hall : ∀ i, i ∈ l) (ψ : State R) :
    run (fun i => block n (prep i) (prepInv i) (lam i)) (l.filter keep) ψ
      = applyMat n (∑ i, lam i • proj (w i)) ψ := by
  rw [run_mat n _ (fun i => A i * diagonal (fun x => if x = zeroIdx n then lam i else 1) * (A i)ᴴ)
    (fun i ψ => block_mat n hn _ _ (A i) (lam i) (hp i) (hpi i) ψ)]
  have hrev : (l.filter keep).reverse = l.reverse.filter keep := (List.filter_reverse ..).symm
  rw [hrev, knill_circuit w lam A (zeroIdx n) hA hcol horth hcomp keep hkeep l.reverse
    (List.nodup_reverse.mpr hnd) (fun i => List.mem_reverse.mpr (hall i))]

end

end Qclib.Iso.Knill
