import QclibModel.Gen.SchmidtRank
import QclibModel.Proofs.PyLemmas
import QclibModel.Model.Schmidt
/-
  Source tie of the rank rule (C07, C09): the definitions re-translated on every run from the current
  source of `qclib/entanglement.py` (`_effective_rank`, the statements of `low_rank_approximation`
  that compute `rank`) equal the hand models `effRank`, `rankRule` of `Model/Schmidt.lean`.
  Core Lean only.
-/
namespace Qclib.Schmidt
open Qclib.Py

/-- The binary64 value Python computes for `10**-7` (`(10**-7).as_integer_ratio()`), the threshold of
`_effective_rank`. -/
def pyThreshold : Rat := mkRat 944473296573929 9444732965739290427392

theorem effRank_src (s : List Rat) :
    Gen.SchmidtRank.effective_rank s = ((effRank pyThreshold s : Nat) : Int) := by
  unfold Gen.SchmidtRank.effective_rank effRank pySum pyThreshold
  induction s with
  | nil => rfl
  | cons x xs ih =>
    simp only [List.map_cons, List.sum_cons, List.filter_cons, ih]
    by_cases h : mkRat 944473296573929 9444732965739290427392 < x
    · have h' : x > mkRat 944473296573929 9444732965739290427392 := h
      simp [pyB2I, h]; omega
    · have h' : ¬ x > mkRat 944473296573929 9444732965739290427392 := h
      simp [pyB2I, h]

theorem pyLog2Ceil_eq_ceilLog2 (e : Nat) : pyLog2Ceil (e : Int) = ((ceilLog2 e : Nat) : Int) := by
  unfold pyLog2Ceil ceilLog2
  by_cases h : e ≤ 1
  · have : (e : Int) ≤ 1 := by omega
    simp [h, this]
  · have : ¬ (e : Int) ≤ 1 := by omega
    rw [if_neg this, if_neg h, Int.toNat_natCast]
    simp

/-- The rank computed by the translated `low_rank_approximation` is the hand model `rankRule`
wherever Python does not raise (`effective rank ≠ 0`; for `0` the code raises in `log2(0)` and the
model says `none`). -/
theorem rankRule_src (lowRank : Int) (s : List Rat) (h : effRank pyThreshold s ≠ 0) :
    (rankRule lowRank (effRank pyThreshold s)).map (fun (r : Nat) => (r : Int))
      = some (Gen.SchmidtRank.low_rank_rank lowRank s) := by
  unfold Gen.SchmidtRank.low_rank_rank rankRule cappedRank clp2
  simp only [effRank_src]
  generalize effRank pyThreshold s = eff at h
  by_cases hc : 0 < lowRank ∧ lowRank < (eff : Int)
  · obtain ⟨k, rfl⟩ : ∃ k : Nat, lowRank = (k : Int) := ⟨lowRank.toNat, by omega⟩
    have hne : k ≠ 0 := by omega
    simp only [if_pos hc, Int.toNat_natCast, hne, if_false, Option.map_some]
    rw [pyLog2Ceil_eq_ceilLog2, pyPow]
    simp
  · simp only [if_neg hc, h, if_false, Option.map_some]
    rw [pyLog2Ceil_eq_ceilLog2, pyPow]
    simp

end Qclib.Schmidt
