import QclibModel.Proofs.SemLemmas
import QclibModel.Model.Mcu2
import Mathlib.Algebra.Field.Rat
import Mathlib.Tactic.Ring
/-
  C04, part B — amplitude semantics of the gate skeleton `LG` of `Model/Mcu2.lean`
  (`Ldmcu`, `Qdmcu`).

  The two numerical kernels of the skeleton enter as *one-parameter groups of 2×2 matrices
  indexed by ℚ*:

  * `Ur r` — the power `U^r` of the input matrix (`Ldmcu._gate_u`, `Qdmcu.custom_sqrtm`:
    `P·diag(λ^r, μ^r)·P†` from `orthonormal_eig`, inverted when `signal < 0`), so that
    `croot c t cv p s` denotes the controlled `Ur (s/p)`;
  * `Rx r` — `RX(π·r)` (`r` half-turns), so that `crx c t p s` (`crx(s·π/p)`) denotes the
    controlled `Rx (s/p)`.

  `OneParam` is the only property of `Ur` the operator theorems use (exponents add, `U^0 = 1`);
  for `Rx` they use in addition that `Rx (±1)` is anti-diagonal (`RX(±π) = ∓iX`): `HalfTurn`.
  `Mcu2OpInst.lean` shows that `P·diag(λ r, μ r)·P'` for multiplicative characters `λ, μ` and
  `[[cs(π r), -I·sn(π r)], [-I·sn(π r), cs(π r)]]` over any `RotLaws` instance are such groups.
-/
namespace Qclib.Mcu2
open RotSem

/-- The weight `signal / param` of a skeleton gate. -/
def qw (p : Nat) (s : Int) : ℚ := (s : ℚ) / (p : ℚ)

/-- `r ↦ M r` is a one-parameter group of 2×2 matrices. -/
structure OneParam {R : Type} [Add R] [Mul R] [Zero R] [One R] (M : ℚ → Mat2 R) : Prop where
  add : ∀ a b : ℚ, M (a + b) = M a * M b
  zero : M 0 = 1

/-- `M (±1)` are anti-diagonal (`RX(±π) = ∓iX`). -/
structure HalfTurn {R : Type} [Zero R] (M : ℚ → Mat2 R) : Prop where
  a1 : (M 1).a = 0
  d1 : (M 1).d = 0
  am : (M (-1)).a = 0
  dm : (M (-1)).d = 0

section
variable {Θ R : Type} [Add R] [Mul R] [Neg R] [Zero R] [One R] [RotSem Θ R]

/-- Denotation of one skeleton gate.  The two opaque constructors (`mtmcsu2`, `call`: calls of
other gate classes inside `MCU` / `Mcg`) never occur in the lists of `Ldmcu` and `Qdmcu`
(`plainLG`); they are given the identity so that the function is total. -/
def denoteLG (Ur Rx : ℚ → Mat2 R) : LG Θ → State R → State R
  | .x q => applyMcu [] Mat2.X q
  | .root t p s => applyMcu [] (Ur (qw p s)) t
  | .croot c t cv p s => applyMcu [(c, cv)] (Ur (qw p s)) t
  | .crx c t p s => applyMcu [(c, true)] (Rx (qw p s)) t
  | .prim g => denote g
  | .mtmcsu2 _ _ _ => fun ψ => ψ
  | .call _ _ _ _ _ _ => fun ψ => ψ

/-- Gates are applied in list order. -/
def semLG (Ur Rx : ℚ → Mat2 R) (gs : List (LG Θ)) (ψ : State R) : State R :=
  gs.foldl (fun s g => denoteLG Ur Rx g s) ψ

/-- The constructors with a denotation of their own. -/
def plainLG : LG Θ → Bool
  | .mtmcsu2 _ _ _ => false
  | .call _ _ _ _ _ _ => false
  | _ => true

theorem semLG_append (Ur Rx : ℚ → Mat2 R) (g1 g2 : List (LG Θ)) (ψ : State R) :
    semLG Ur Rx (g1 ++ g2) ψ = semLG Ur Rx g2 (semLG Ur Rx g1 ψ) := by
  simp [semLG, List.foldl_append]

theorem semLG_nil (Ur Rx : ℚ → Mat2 R) (ψ : State R) : semLG Ur Rx ([] : List (LG Θ)) ψ = ψ := rfl

theorem semLG_cons (Ur Rx : ℚ → Mat2 R) (g : LG Θ) (gs : List (LG Θ)) (ψ : State R) :
    semLG Ur Rx (g :: gs) ψ = semLG Ur Rx gs (denoteLG Ur Rx g ψ) := rfl

theorem semLG_prim (Ur Rx : ℚ → Mat2 R) (c : Circ Θ) (ψ : State R) :
    semLG Ur Rx (c.map LG.prim) ψ = sem c ψ := by
  induction c generalizing ψ with
  | nil => rfl
  | cons g c ih =>
    show semLG Ur Rx (c.map LG.prim) (denote g ψ) = sem c (denote g ψ)
    exact ih _

end
end Qclib.Mcu2
