import QclibModel.Model.CnotShape
/-
  C10 helper lemmas, part 1: list algebra of `raw` / `vis`, closed forms of the QSD and CSD shapes,
  arithmetic of the translation prelude on natural-number arguments.  Core Lean only (`omega`, `simp`).
-/
namespace Qclib.Cnot
open Qclib.Py Qclib.Gen.CnotCount

@[simp] theorem raw_nil : raw [] = 0 := rfl
@[simp] theorem vis_nil : vis [] = 0 := rfl
@[simp] theorem raw_cons (p : Prim) (l : List Prim) : raw (p :: l) = p.cost + raw l := by
  simp [raw]
@[simp] theorem vis_cons (p : Prim) (l : List Prim) : vis (p :: l) = (if p.isVis then 1 else 0) + vis l := by
  simp [vis]
@[simp] theorem raw_append (a b : List Prim) : raw (a ++ b) = raw a + raw b := by
  simp [raw, List.sum_append]
@[simp] theorem vis_append (a b : List Prim) : vis (a ++ b) = vis a + vis b := by
  simp [vis, List.sum_append]

theorem vis_le_raw (l : List Prim) : vis l ≤ raw l := by
  induction l with
  | nil => simp
  | cons p l ih =>
    simp only [raw_cons, vis_cons]
    cases p with
    | u2 v => cases v <;> simp [Prim.isVis, Prim.cost] <;> omega
    | _ => simp [Prim.isVis] <;> omega

theorem two_pow_pos' (k : Nat) : 1 ≤ 2 ^ k := Nat.one_le_two_pow
theorem four_pow_pos' (k : Nat) : 1 ≤ 4 ^ k := Nat.pow_pos (by omega)
theorem four_pow_eq (k : Nat) : 4 ^ k = 2 ^ (2 * k) := by
  rw [Nat.pow_mul]
theorem four_pow_eq_sq (k : Nat) : 4 ^ k = 2 ^ k * 2 ^ k := by
  rw [four_pow_eq, Nat.two_mul, Nat.pow_add]

/-! ### QSD -/

/-- the half-size block as `_qsd` embeds it on `m` qubits (`m ≥ 2`) -/
def qsdSub (m : Nat) : List Prim := if m = 2 then [Prim.u2 true] else buildQsd m 0

theorem buildQsd_succ (n iso : Nat) :
    buildQsd (n + 3) iso =
      (if iso ≠ 0 then buildQsd (n + 2) (iso - 1)
        else qsdSub (n + 2) ++ [Prim.ucrz (n + 2)] ++ qsdSub (n + 2))
      ++ [Prim.ucrCZ (n + 2)] ++ (qsdSub (n + 2) ++ [Prim.ucrz (n + 2)] ++ qsdSub (n + 2)) := by
  rw [buildQsd]
  simp only [qsdSub]
  have : (n + 2 = 2) = (n = 0) := by simp
  simp only [this]

theorem qsdSub_succ (n : Nat) : qsdSub (n + 3) = buildQsd (n + 3) 0 := by
  simp [qsdSub]

theorem raw_qsdSub_two : raw (qsdSub 2) = 3 := by simp [qsdSub, Prim.cost]
theorem vis_qsdSub_two : vis (qsdSub 2) = 1 := by simp [qsdSub, Prim.isVis]

theorem raw_qsdSub_succ (n : Nat) :
    raw (qsdSub (n + 3)) = 4 * raw (qsdSub (n + 2)) + 2 * 2 ^ (n + 2) + (2 ^ (n + 2) - 1) := by
  rw [qsdSub_succ, buildQsd_succ]
  simp [Prim.cost]
  omega

theorem vis_qsdSub_succ (n : Nat) : vis (qsdSub (n + 3)) = 4 * vis (qsdSub (n + 2)) := by
  rw [qsdSub_succ, buildQsd_succ]
  simp [Prim.isVis]
  omega

theorem vis_qsdSub (n : Nat) : vis (qsdSub (n + 2)) = 4 ^ n := by
  induction n with
  | zero => simp [vis_qsdSub_two]
  | succ n ih => rw [vis_qsdSub_succ, ih, Nat.pow_succ]; omega

/-- `48·Q(m) = 26·4^m − 72·2^m + 16` for the unoptimised QSD count `Q` of an `m`-qubit block -/
theorem raw_qsdSub (n : Nat) :
    48 * raw (qsdSub (n + 2)) + 72 * 2 ^ (n + 2) = 26 * 4 ^ (n + 2) + 16 := by
  induction n with
  | zero => simp [raw_qsdSub_two]
  | succ n ih =>
    rw [raw_qsdSub_succ]
    have h1 := two_pow_pos' (n + 2)
    have h2 : 2 ^ (n + 1 + 2) = 2 * 2 ^ (n + 2) := by rw [show n + 1 + 2 = (n + 2) + 1 from rfl, Nat.pow_succ]; omega
    have h3 : 4 ^ (n + 1 + 2) = 4 * 4 ^ (n + 2) := by rw [show n + 1 + 2 = (n + 2) + 1 from rfl, Nat.pow_succ]; omega
    omega

/-! ### CSD -/

theorem raw_csdList (n s : Nat) (hn : 2 ≤ n) :
    raw (csdList n (s + 1)) + 3 * 2 ^ s + 2 ^ (n - 1) = 2 ^ (s + (n - 1) + 2) := by
  induction s with
  | zero =>
    simp [csdList, Prim.cost]
    have h1 := two_pow_pos' (n - 1)
    have h2 : 2 ^ (n - 1 + 1) = 2 * 2 ^ (n - 1) := by rw [Nat.pow_succ]; omega
    have h3 : 2 ^ (n - 1 + 2) = 4 * 2 ^ (n - 1) := by rw [Nat.pow_add]; omega
    omega
  | succ s ih =>
    rw [csdList]
    have hk : n - 1 ≠ 0 := by omega
    simp [Prim.cost, hk]
    have h2 : 2 ^ (s + 1) = 2 * 2 ^ s := by rw [Nat.pow_succ]; omega
    have h3 : 2 ^ (s + 1 + (n - 1) + 2) = 2 * 2 ^ (s + (n - 1) + 2) := by
      rw [show s + 1 + (n - 1) + 2 = (s + (n - 1) + 2) + 1 by omega, Nat.pow_succ]; omega
    omega

/-- `build_unitary(·, "csd")` on `n + 3` qubits costs `4^N − 2·2^N − 1`, `N = n + 3` -/
theorem raw_buildCsd (n : Nat) :
    raw (buildCsd (n + 3) 0) + 2 * 2 ^ (n + 3) + 1 = 4 ^ (n + 3) := by
  rw [buildCsd]
  simp [Prim.cost]
  have h := raw_csdList (n + 3) (n + 1) (by omega)
  simp only [show n + 3 - 1 = n + 2 from rfl, show n + 1 + 1 = n + 2 from rfl] at h
  have h1 := two_pow_pos' (n + 2)
  have h2 : 2 ^ (n + 3) = 2 * 2 ^ (n + 2) := by rw [Nat.pow_succ]; omega
  have h2' : 2 ^ (n + 2) = 2 * 2 ^ (n + 1) := by rw [Nat.pow_succ]; omega
  have h3 : 2 ^ (n + 1 + (n + 2) + 2) = 2 * 4 ^ (n + 2) := by
    rw [four_pow_eq, show n + 1 + (n + 2) + 2 = 2 * (n + 2) + 1 by omega, Nat.pow_succ]; omega
  have h4 : 4 ^ (n + 3) = 4 * 4 ^ (n + 2) := by rw [Nat.pow_succ]; omega
  omega

/-! ### the prelude on natural-number arguments -/

theorem pyPow_nat (a k : Nat) : pyPow (a : Int) (k : Int) = ((a ^ k : Nat) : Int) := by
  simp [pyPow, Int.natCast_pow]

theorem pyPow_two (k : Nat) : pyPow 2 (k : Int) = ((2 ^ k : Nat) : Int) := pyPow_nat 2 k
theorem pyPow_four (k : Nat) : pyPow 4 (k : Int) = ((4 ^ k : Nat) : Int) := pyPow_nat 4 k

theorem pyLog2Floor_two_pow (k : Nat) : pyLog2Floor ((2 ^ k : Nat) : Int) = k := by
  unfold pyLog2Floor
  rw [Int.toNat_natCast, Nat.log2_two_pow]
  rfl

theorem pyCeilDiv_mul (s : Int) : pyCeilDiv (48 * s) 48 = s := by
  unfold pyCeilDiv; omega

end Qclib.Cnot
