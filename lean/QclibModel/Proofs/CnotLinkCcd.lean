import QclibModel.Model.Isometry
import QclibModel.Proofs.CnotCcd
import QclibModel.Proofs.CnotBits
/-
  C10 link, part 3: the schedule of the C03 model of `isometry._ccd` (`Model/Isometry.lean`:
  `Iso.hasMcg`, `Iso.mcWires`, `Iso.ucWires` — the definitions `stepLines`/`ccdLines` print for the
  tie and `gkCol`/`stepCol` act with in `C03_ccd_schedule`, `C03_ccd_code`) against the shape
  `Cnot.ccdShape` of the C10 model, which is written with the GENERATED `_k_s`, `_b` and Python's
  `f"{k:0{n}b}"`.

  `ccdSched n m` lists, in the order of `Iso.ccdLines`, the object of every line: per column
  `k < 2^m` and bit `i < n` a `UCGate` up to diagonal on `mcWires n k i` when `hasMcg k i`, then one on
  `ucWires n i` (a plain one-qubit gate when that is the target alone), and the closing `DiagonalGate`.
  `ccd_link`: `ccdSched n m = ccdShape n m`, object for object, for all `m ≤ n`.   Core Lean only.
-/
namespace Qclib.CnotLink
open Qclib Qclib.Cnot Qclib.Py Qclib.Gen.CnotCount

/-- the objects of step `(k, i)` of `_g_k` in the C03 model, each with the number of controls it
has on the wires the model puts it on (`[target] + controls[::-1]`). -/
def ccdStep (n k i : Nat) : List Prim :=
  (if Iso.hasMcg k i then [Prim.ucgd ((Iso.mcWires n k i).length - 1)] else [])
  ++ [if (Iso.ucWires n i).length = 1 then Prim.u1 else Prim.ucgd ((Iso.ucWires n i).length - 1)]

/-- the objects of `_ccd(iso, n, m)` in the C03 model, in the order of `Iso.ccdLines`. -/
def ccdSched (n m : Nat) : List Prim :=
  (List.range (2 ^ m)).flatMap (fun k => (List.range n).flatMap (fun i => ccdStep n k i))
  ++ (if m > 0 then [Prim.diag (List.range m).length] else [])

/-! ### index helpers: generated (Int) vs C03 model (Nat) -/

theorem kS_eq_mod (k i : Nat) : Iso.kS k i = (k / 2 ^ i) % 2 := by
  unfold Iso.kS
  rw [and_two_pow, Nat.mul_div_cancel_left _ (Nat.two_pow_pos i)]

theorem bFn_eq_mod (k i : Nat) : Iso.bFn k i = k % 2 ^ i := by
  unfold Iso.bFn Iso.aFn
  have := Nat.div_add_mod k (2 ^ i)
  rw [Nat.mul_comm] at this
  omega

/-- the condition of `_g_k` as the C10 shape evaluates it (generated `_k_s`, `_b` on `Int`) is the
condition `hasMcg` of the C03 model. -/
theorem cond_iff (k i : Nat) :
    (isometry.k_s (k : Int) (i : Int) = 0 ∧ isometry.b (k : Int) ((i : Int) + 1) ≠ 0)
      ↔ Iso.hasMcg k i = true := by
  have e : ((i : Int) + 1) = ((i + 1 : Nat) : Int) := by omega
  rw [e, k_s_eq, b_eq]
  unfold Iso.hasMcg
  rw [kS_eq_mod, bFn_eq_mod, Bool.and_eq_true, beq_iff_eq, bne_iff_ne]
  constructor
  · rintro ⟨h1, h2⟩
    exact ⟨by omega, by omega⟩
  · rintro ⟨h1, h2⟩
    exact ⟨by omega, by omega⟩

/-! ### `k_bin` -/

theorem log2_succ_le (k n : Nat) (hn : 1 ≤ n) (hk : k < 2 ^ n) : Nat.log2 k + 1 ≤ n := by
  by_cases h0 : k = 0
  · subst h0; simp [Nat.log2_zero]; omega
  · have := (Nat.log2_lt h0).mpr hk
    omega

/-- `k_bin[q] == '1'` for `k_bin = f"{k:0{n}b}"`, `k < 2^n`, `q < n`, is bit `n-1-q` of `k`: the
`kBin` of the C03 model. -/
theorem pyBit_pyBin (n k q : Nat) (hk : k < 2 ^ n) (hq : q < n) :
    pyBit (pyBin (k : Int) (n : Int)) (q : Int) = Iso.kBin n k q := by
  have hl := log2_succ_le k n (by omega) hk
  unfold pyBit pyBin Iso.kBin
  simp only [Int.toNat_natCast]
  have hlen : max (max n (Nat.log2 k + 1)) 1 = n := by omega
  rw [hlen, List.getD_eq_getElem?_getD, List.getElem?_map, List.getElem?_range hq]
  rfl

theorem filter_map_length {α β : Type} (f : α → β) (p : β → Bool) (l : List α) :
    ((l.map f).filter p).length = (l.filter (fun a => p (f a))).length := by
  rw [List.filter_map, List.length_map]
  rfl

theorem filter_length_congr {α : Type} (p q : α → Bool) (l : List α) (h : ∀ a ∈ l, p a = q a) :
    (l.filter p).length = (l.filter q).length := by
  rw [List.filter_congr h]

/-- `control + ancilla` of `_g_k` as Python integers is the Nat list of the C03 model. -/
theorem others_eq (n i : Nat) (hi : i < n) :
    pyRange 0 ((n - i - 1 : Nat) : Int) ++ pyRange (((n - i - 1 : Nat) : Int) + 1) (n : Int)
      = (Iso.control n i ++ Iso.ancilla n i).map (fun q : Nat => (q : Int)) := by
  unfold pyRange Iso.control Iso.ancilla Iso.target
  have e1 : (((n - i - 1 : Nat) : Int) - 0).toNat = n - i - 1 := by omega
  have e2 : ((n : Int) - (((n - i - 1 : Nat) : Int) + 1)).toNat = n - (n - i - 1) - 1 := by omega
  rw [e1, e2, List.map_append, List.map_map]
  congr 1
  · apply List.map_congr_left
    intro a _
    simp
  · apply List.map_congr_left
    intro a _
    simp only [Function.comp_apply, Int.ofNat_eq_natCast]
    omega

theorem mem_others_lt (n i q : Nat) (hi : i < n) (hq : q ∈ Iso.control n i ++ Iso.ancilla n i) : q < n := by
  unfold Iso.control Iso.ancilla Iso.target at hq
  simp only [List.mem_append, List.mem_range, List.mem_map] at hq
  rcases hq with h | ⟨a, ha, rfl⟩ <;> omega

/-- number of controls of the multi-controlled gate: C10 shape (Python string) = C03 model. -/
theorem mc_count (n k i : Nat) (hk : k < 2 ^ n) (hi : i < n) :
    ((pyRange 0 ((n - i - 1 : Nat) : Int) ++ pyRange (((n - i - 1 : Nat) : Int) + 1) (n : Int)).filter
        (fun q => pyBit (pyBin (k : Int) (n : Int)) q)).length
      = (Iso.mcWires n k i).length - 1 := by
  rw [others_eq n i hi, filter_map_length]
  unfold Iso.mcWires Iso.mcCtrls
  rw [List.length_cons, List.length_reverse, Nat.add_sub_cancel]
  apply filter_length_congr
  intro q hq
  exact pyBit_pyBin n k q hk (mem_others_lt n i q hi hq)

theorem ucWires_length (n i : Nat) : (Iso.ucWires n i).length = (n - i - 1) + 1 := by
  simp [Iso.ucWires, Iso.control, Iso.target]

/-- step `(k, i)`: the object list of the C03 schedule is that of the C10 shape. -/
theorem ccdStep_eq (n k i : Nat) (hk : k < 2 ^ n) (hi : i < n) : ccdStep n k i = stepPrims n k i := by
  unfold ccdStep stepPrims
  simp only [ucWires_length, Nat.add_sub_cancel, mc_count n k i hk hi]
  have hc := cond_iff k i
  by_cases h : Iso.hasMcg k i = true
  · have h' := hc.mpr h
    simp only [h, if_true, h', and_self, ne_eq, not_false_eq_true]
    by_cases h0 : n - i - 1 = 0 <;> simp [h0]
  · have h' : ¬ (isometry.k_s (k : Int) (i : Int) = 0 ∧ isometry.b (k : Int) ((i : Int) + 1) ≠ 0) :=
      fun hh => h (hc.mp hh)
    simp only [h, h', if_false]
    by_cases h0 : n - i - 1 = 0 <;> simp [h0]

theorem flatMap_congr' {α β : Type} (l : List α) (f g : α → List β) (h : ∀ a ∈ l, f a = g a) :
    l.flatMap f = l.flatMap g := by
  induction l with
  | nil => rfl
  | cons a l ih =>
    rw [List.flatMap_cons, List.flatMap_cons, h a (List.mem_cons_self ..),
      ih (fun b hb => h b (List.mem_cons_of_mem _ hb))]

/-- **CCD link**: for `m ≤ n` the C03 schedule and the C10 shape are the same list of objects. -/
theorem ccd_link (n m : Nat) (hm : m ≤ n) : ccdSched n m = ccdShape n m := by
  unfold ccdSched ccdShape
  congr 1
  · apply flatMap_congr'
    intro k hk
    have hk' : k < 2 ^ n :=
      Nat.lt_of_lt_of_le (List.mem_range.mp hk) (Nat.pow_le_pow_right (by omega) hm)
    rw [gkShape_eq]
    apply flatMap_congr'
    intro i hi
    exact ccdStep_eq n k i hk' (List.mem_range.mp hi)
  · by_cases h0 : m = 0
    · subst h0; rfl
    · have : m > 0 := by omega
      simp [h0, this]

/-- CNOTs of one step, in closed form: `2^c − 1` for the multi-controlled gate on `c` one-bits of
`k_bin` (when scheduled) plus `2^(n−i−1) − 1` for the uniformly controlled gate. -/
theorem raw_ccdStep (n k i : Nat) :
    raw (ccdStep n k i) = (if Iso.hasMcg k i then 2 ^ (Iso.mcCtrls n k i).length - 1 else 0)
      + (2 ^ (n - i - 1) - 1) := by
  unfold ccdStep
  simp only [ucWires_length, Nat.add_sub_cancel, Iso.mcWires, List.length_cons, List.length_reverse]
  by_cases h : Iso.hasMcg k i = true <;> by_cases h0 : n - i - 1 = 0 <;>
    simp [h, h0, Prim.cost]

end Qclib.CnotLink
