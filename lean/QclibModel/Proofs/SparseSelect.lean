import QclibModel.Proofs.SparsePre
/-
  C06 — the merge touches exactly the selected pair: from the uniqueness postconditions of
  `_select_strings` and the preprocessing lemmas.
-/
namespace Qclib.Sparse
open Qclib

variable {α : Type}

theorem bitAt_ge (s : Str) (j : Nat) (h : s.length ≤ j) : bitAt s j = false := by
  have : s[j]? = none := List.getElem?_eq_none h
  simp [bitAt, List.getD_eq_getElem?_getD, this]

theorem eq_of_bitAt (a b : Str) (hl : a.length = b.length) (h : ∀ j, bitAt a j = bitAt b j) :
    a = b := by
  apply List.ext_getElem hl
  intro i h1 h2
  have := h i
  simp only [bitAt, List.getD_eq_getElem?_getD, List.getElem?_eq_getElem h1,
    List.getElem?_eq_getElem h2, Option.getD_some] at this
  exact this

theorem mapKeys_id (d : Dict α) : d.mapKeys (applyOps []) = d := by
  simp [Dict.mapKeys, applyOps]

/-- `_preprocess_states`: one list of allowed operations relabels `bitstr1`, `bitstr2` and the
dictionary; afterwards the two strings carry `1`/`0` on `dif`, agree elsewhere and have `1` on
every control. -/
theorem preprocess_spec (n dif : Nat) (dq : List Nat) (st0 : MSt α) (hl1 : st0.b1.length = n)
    (hl2 : st0.b2.length = n) (hdn : dif < n) (hdq : dif ∉ dq) (hqn : ∀ q ∈ dq, q < n)
    (hdiff : bitAt st0.b1 dif ≠ bitAt st0.b2 dif) :
    ∃ ops, Rel st0 (preprocess st0 dif dq) ops ∧ OkOps n dif ops ∧
      PreInv n dif (preprocess st0 dif dq) ∧
      (∀ j, j ≠ dif → bitAt (preprocess st0 dif dq).b1 j = bitAt (preprocess st0 dif dq).b2 j) ∧
      ∀ q ∈ dq, bitAt (preprocess st0 dif dq).b2 q = true := by
  -- phase 1
  obtain ⟨st1, ops1, hst1, hrel1, hok1, inv1⟩ :
      ∃ st1 ops1, st1 = (if bitAt st0.b1 dif != true then applyX st0 dif else st0) ∧
        Rel st0 st1 ops1 ∧ OkOps n dif ops1 ∧ PreInv n dif st1 := by
    by_cases h : bitAt st0.b1 dif = true
    · refine ⟨st0, [], by simp [h], ⟨rfl, rfl, (mapKeys_id _).symm⟩, by intro o ho; simp at ho,
        ⟨hl1, hl2, h, ?_⟩⟩
      cases hb : bitAt st0.b2 dif
      · rfl
      · exact absurd (h.trans hb.symm) hdiff
    · have hf : bitAt st0.b1 dif = false := by simpa using h
      have hrel0 : Rel st0 st0 [] := ⟨rfl, rfl, (mapKeys_id _).symm⟩
      refine ⟨applyX st0 dif, [] ++ [KOp.x dif], by simp [hf], hrel0.applyX dif,
        OkOps.snoc (by intro o ho; simp at ho) (show (KOp.x dif).ok n dif from hdn),
        ⟨(computeOpX_length _ _ (hl1 ▸ hdn)).trans hl1, (computeOpX_length _ _ (hl2 ▸ hdn)).trans hl2,
          ?_, ?_⟩⟩
      · show bitAt (computeOpX st0.b1 dif) dif = true
        rw [bitAt_computeOpX _ _ _ (hl1 ▸ hdn)]; simp [hf]
      · show bitAt (computeOpX st0.b2 dif) dif = false
        rw [bitAt_computeOpX _ _ _ (hl2 ▸ hdn)]
        cases hb : bitAt st0.b2 dif
        · exact absurd (hf.trans hb.symm) hdiff
        · simp
  -- phase 2
  have hidx_d : dif ∉ (List.range st1.b1.length).erase dif :=
    fun h => (List.Nodup.mem_erase_iff List.nodup_range).mp h |>.1 rfl
  have hidx_n : ∀ b ∈ (List.range st1.b1.length).erase dif, b < n := by
    intro b hb
    have := List.mem_of_mem_erase hb
    rw [List.mem_range, inv1.l1] at this; exact this
  obtain ⟨⟨ops2, hrel2, hok2⟩, inv2, heq2⟩ :=
    equalize_fold n dif st0 _ hidx_d hidx_n st1 ops1 hrel1 hok1 inv1
  have heq2' : ∀ j, j ≠ dif → bitAt (equalize st1 dif).b1 j = bitAt (equalize st1 dif).b2 j := by
    intro j hj
    by_cases hjn : j < n
    · apply heq2 j _ hj
      left
      rw [List.Nodup.mem_erase_iff List.nodup_range, List.mem_range, inv1.l1]
      exact ⟨hj, hjn⟩
    · have e1 := bitAt_ge (equalize st1 dif).b1 j (by rw [show (equalize st1 dif).b1.length = n from inv2.l1]; omega)
      have e2 := bitAt_ge (equalize st1 dif).b2 j (by rw [show (equalize st1 dif).b2.length = n from inv2.l2]; omega)
      rw [e1, e2]
  -- phase 3
  obtain ⟨⟨ops3, hrel3, hok3⟩, inv3, heq3, hone⟩ :=
    nots_fold n dif st0 dq hdq hqn (equalize st1 dif) ops2 hrel2 hok2 inv2 heq2'
  have hpre : preprocess st0 dif dq = applyNots (equalize st1 dif) dq := by
    unfold preprocess; rw [hst1]
  rw [hpre]
  exact ⟨ops3, hrel3, hok3, inv3, heq3, fun q hq => hone q (Or.inl hq)⟩

theorem ctrlOk_ones (dq : List Nat) (b : Bits) :
    ctrlOk (dq.map (fun q => (q, true))) b = true ↔ ∀ q ∈ dq, b q = true := by
  unfold ctrlOk
  rw [List.all_eq_true]
  constructor
  · intro h q hq
    have := h (q, true) (List.mem_map.mpr ⟨q, hq, rfl⟩)
    simpa using this
  · intro h cv hcv
    obtain ⟨q, hq, rfl⟩ := List.mem_map.mp hcv
    simp [h q hq]

/-- **The multi-controlled merge touches exactly the pair.** -/
theorem merge_pair_only (n : Nat) (keys : List Str) (hlen : ∀ k ∈ keys, k.length = n)
    (b1 b2 : Str) (hb1 : b1 ∈ keys) (hb2 : b2 ∈ keys) (dif : Nat) (dq : List Nat) (hdn : dif < n)
    (hdq : dif ∉ dq) (hqn : ∀ q ∈ dq, q < n) (hdiff : bitAt b1 dif ≠ bitAt b2 dif)
    (U1 : ∀ k ∈ keys, (∀ q ∈ dq, bitAt k q = bitAt b1 q) → bitAt k dif = bitAt b1 dif → k = b1)
    (U2 : ∀ k ∈ keys, k ≠ b1 → (∀ q ∈ dq, bitAt k q = bitAt b2 q) → k = b2)
    (d : Dict α) (g : List (SG α)) (e : List (MEv α)) :
    ∃ f : Str → Str,
      (preprocess ⟨b1, b2, d, g, e⟩ dif dq).d = d.mapKeys f ∧
      (preprocess ⟨b1, b2, d, g, e⟩ dif dq).b1 = f b1 ∧
      (preprocess ⟨b1, b2, d, g, e⟩ dif dq).b2 = f b2 ∧
      (∀ k ∈ keys, ∀ k' ∈ keys, f k = f k' → k = k') ∧
      (∀ k ∈ keys, (f k).length = n) ∧
      (∀ k ∈ keys, ctrlOk (dq.map (fun q => (q, true))) (lab (f k)) = true ↔ (k = b1 ∨ k = b2)) ∧
      bitAt (f b1) dif = true ∧ bitAt (f b2) dif = false ∧
      (∀ j, j ≠ dif → bitAt (f b1) j = bitAt (f b2) j) := by
  obtain ⟨ops, ⟨r1, r2, r3⟩, hok, inv, heq, hone⟩ :=
    preprocess_spec n dif dq (⟨b1, b2, d, g, e⟩ : MSt α) (hlen b1 hb1) (hlen b2 hb2) hdn hdq hqn hdiff
  simp only at r1 r2 r3
  refine ⟨applyOps ops, r3, r1, r2, ?_, ?_, ?_, ?_, ?_, ?_⟩
  · intro k hk k' hk' hf
    have hag : agreeOn (applyOps ops k) (applyOps ops k') (fun _ => True) := by
      intro q _; rw [hf]
    have := (applyOps_agree n dif ops hok k k' (hlen k hk) (hlen k' hk') (fun _ => True) trivial).mp hag
    exact eq_of_bitAt k k' ((hlen k hk).trans (hlen k' hk').symm) (fun j => this j trivial)
  · intro k hk; exact applyOps_length n dif ops hok k (hlen k hk)
  · intro k hk
    rw [ctrlOk_ones]
    have f1 : ∀ q ∈ dq, bitAt (applyOps ops b2) q = true := fun q hq => r2 ▸ hone q hq
    have f1' : ∀ q ∈ dq, bitAt (applyOps ops b1) q = true := by
      intro q hq
      have hqd : q ≠ dif := fun e => hdq (e ▸ hq)
      have := heq q hqd
      rw [r1, r2] at this
      rw [this]; exact f1 q hq
    let S : Nat → Prop := fun q => q ∈ dq ∨ q = dif
    constructor
    · intro h
      have h' : ∀ q ∈ dq, bitAt (applyOps ops k) q = true := h
      by_cases hd : bitAt (applyOps ops k) dif = true
      · left
        have hag : agreeOn (applyOps ops k) (applyOps ops b1) S := by
          intro q hq
          rcases hq with hq | rfl
          · rw [h' q hq, f1' q hq]
          · rw [hd]; have := inv.d1; rw [r1] at this; exact this.symm
        have := (applyOps_agree n dif ops hok k b1 (hlen k hk) (hlen b1 hb1) S (Or.inr rfl)).mp hag
        exact U1 k hk (fun q hq => this q (Or.inl hq)) (this dif (Or.inr rfl))
      · right
        have hd' : bitAt (applyOps ops k) dif = false := by simpa using hd
        have hag : agreeOn (applyOps ops k) (applyOps ops b2) S := by
          intro q hq
          rcases hq with hq | rfl
          · rw [h' q hq, f1 q hq]
          · rw [hd']; have := inv.d2; rw [r2] at this; exact this.symm
        have := (applyOps_agree n dif ops hok k b2 (hlen k hk) (hlen b2 hb2) S (Or.inr rfl)).mp hag
        apply U2 k hk _ (fun q hq => this q (Or.inl hq))
        intro e
        apply hdiff
        rw [← e, this dif (Or.inr rfl)]
    · intro h q hq
      rcases h with rfl | rfl
      · exact f1' q hq
      · exact f1 q hq
  · have := inv.d1; rw [r1] at this; exact this
  · have := inv.d2; rw [r2] at this; exact this
  · intro j hj; have := heq j hj; rw [r1, r2] at this; exact this

end Qclib.Sparse
