import QclibModel.Sem.Denote
import QclibModel.Model.Ucr
import Mathlib.Algebra.Ring.Basic
import Mathlib.Algebra.Group.Basic
import Mathlib.Tactic.Ring
/-
  The algebraic laws of rotations the theorems rely on (S3 `Angle` of DESIGN.md).
  `RotLaws Θ R` says: angles form an abelian group with a halving map, `θ ↦ (cs θ, sn θ)` is a
  homomorphism into the circle `c² + s² = 1` of the commutative ring `R`, `ex` is a
  multiplicative character, and `2·rh² = 1`.  The instance `Θ = ℝ`, `R = ℂ`
  (`cs θ = cos(θ/2)`, …) is proved from Mathlib in `Proofs/RotReal.lean`.
-/
namespace Qclib
open RotSem

class RotLaws (Θ R : Type) [AddCommGroup Θ] [CommRing R] [RotSem Θ R] : Prop where
  cs_add : ∀ a b : Θ, (cs (a + b) : R) = cs a * cs b - sn a * sn b
  sn_add : ∀ a b : Θ, (sn (a + b) : R) = sn a * cs b + cs a * sn b
  cs_zero : (cs (0 : Θ) : R) = 1
  sn_zero : (sn (0 : Θ) : R) = 0
  cs_neg : ∀ a : Θ, (cs (-a) : R) = cs a
  sn_neg : ∀ a : Θ, (sn (-a) : R) = -sn a
  ex_add : ∀ a b : Θ, (ex (a + b) : R) = ex a * ex b
  ex_zero : (ex (0 : Θ) : R) = 1
  exb_eq : ∀ a : Θ, (exb a : R) = ex (-a)
  rh_sq : (2 : R) * (rh Θ * rh Θ) = 1

/-- The generator's angle operations instantiated from an abelian group with a halving map and a
"negligible" test that only fires on the zero angle (the exact shadow of `abs(angle) > 1e-8`). -/
def stdOps {Θ : Type} [AddCommGroup Θ] (half : Θ → Θ) (negl : Θ → Bool) : AOps Θ :=
  ⟨(· + ·), (· - ·), half, negl⟩

end Qclib
