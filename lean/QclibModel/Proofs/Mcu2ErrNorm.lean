import QclibModel.Proofs.Mcu2ErrOp
import QclibModel.Proofs.Mcu2OpInst
import QclibModel.Proofs.Mcu2Base
import Mathlib.Data.Fintype.Pi
import Mathlib.Algebra.BigOperators.Group.Finset.Basic
import Mathlib.Algebra.Order.BigOperators.Group.Finset
/-
  C04, part B — the approximate gate `MCU`, part 5: from the operator identity to the ℓ² bound.

  * 2-vectors: a matrix with `P†·P = 1` preserves `|x|² + |y|²` (`unitary_N2`); for
    `M = P·diag(λ, μ)·P†` with `|λ - 1|, |μ - 1| ≤ ε` one has `‖M v - v‖² ≤ ε²·‖v‖²` (`eig_close`).
  * the characters: `|e^{iφr} - 1| ≤ ε` when `|φ| ≤ angle` and `angle·r ≤ arccos(1 - ε²/2)`
    (`char_close`).
  * labels: for every basis label the pair of amplitudes (target 0 / target 1) of
    `C^k(U)∘D ψ - C^k(U) ψ` is bounded by `ε` times the pair of `ψ` (`pair_bound`), and the sum over
    all labels of `n > k` wires is a sum over such pairs (`sum_pairs`).
-/
namespace Qclib.Mcu2
open Complex

/-! ### 2-vectors -/

/-- Conjugate transpose. -/
noncomputable def cadj (M : Mat2 ℂ) : Mat2 ℂ :=
  ⟨(starRingEnd ℂ) M.a, (starRingEnd ℂ) M.c, (starRingEnd ℂ) M.b, (starRingEnd ℂ) M.d⟩

/-- Squared length of a 2-vector. -/
noncomputable def N2 (x y : ℂ) : ℝ := normSq x + normSq y

theorem N2_nonneg (x y : ℂ) : 0 ≤ N2 x y := add_nonneg (normSq_nonneg x) (normSq_nonneg y)

theorem cadj_cadj (M : Mat2 ℂ) : cadj (cadj M) = M := by
  cases M
  simp [cadj]

/-- A matrix with `P†·P = 1` preserves the length of 2-vectors. -/
theorem unitary_N2 (P : Mat2 ℂ) (h : cadj P * P = 1) (x y : ℂ) :
    N2 (P.a * x + P.b * y) (P.c * x + P.d * y) = N2 x y := by
  have ha : (starRingEnd ℂ) P.a * P.a + (starRingEnd ℂ) P.c * P.c = 1 := congrArg Mat2.a h
  have hb : (starRingEnd ℂ) P.a * P.b + (starRingEnd ℂ) P.c * P.d = 0 := congrArg Mat2.b h
  have hc : (starRingEnd ℂ) P.b * P.a + (starRingEnd ℂ) P.d * P.c = 0 := congrArg Mat2.c h
  have hd : (starRingEnd ℂ) P.b * P.b + (starRingEnd ℂ) P.d * P.d = 1 := congrArg Mat2.d h
  have key : ((N2 (P.a * x + P.b * y) (P.c * x + P.d * y) : ℝ) : ℂ) = ((N2 x y : ℝ) : ℂ) := by
    simp only [N2, ofReal_add, normSq_eq_conj_mul_self, map_add, map_mul]
    linear_combination ((starRingEnd ℂ) x * x) * ha + ((starRingEnd ℂ) x * y) * hb
      + ((starRingEnd ℂ) y * x) * hc + ((starRingEnd ℂ) y * y) * hd
  exact_mod_cast key

theorem normSq_mul_le {d z : ℂ} {ε : ℝ} (_h0 : 0 ≤ ε) (hd : ‖d‖ ≤ ε) :
    normSq (d * z) ≤ ε ^ 2 * normSq z := by
  rw [normSq_mul]
  have : normSq d ≤ ε ^ 2 := by
    rw [normSq_eq_norm_sq]
    exact pow_le_pow_left₀ (norm_nonneg d) hd 2
  exact mul_le_mul_of_nonneg_right this (normSq_nonneg z)

/-- `M` moves no 2-vector by more than `ε` times its length. -/
def Close (M : Mat2 ℂ) (ε : ℝ) : Prop :=
  ∀ x y : ℂ, N2 (M.a * x + M.b * y - x) (M.c * x + M.d * y - y) ≤ ε ^ 2 * N2 x y

/-- `P·diag(λ, μ)·P†` with a unitary `P` and `|λ - 1|, |μ - 1| ≤ ε` is `ε`-close to the identity. -/
theorem eig_close (P : Mat2 ℂ) (h1 : P * cadj P = 1) (h2 : cadj P * P = 1) (lam mu : ℂ) (ε : ℝ)
    (h0 : 0 ≤ ε) (hl : ‖lam - 1‖ ≤ ε) (hm : ‖mu - 1‖ ≤ ε) :
    Close (P * Mat2.diag lam mu * cadj P) ε := by
  intro x y
  set Q := cadj P with hQ
  set u1 := Q.a * x + Q.b * y with hu1
  set u2 := Q.c * x + Q.d * y with hu2
  have ha : P.a * Q.a + P.b * Q.c = 1 := congrArg Mat2.a h1
  have hb : P.a * Q.b + P.b * Q.d = 0 := congrArg Mat2.b h1
  have hc : P.c * Q.a + P.d * Q.c = 0 := congrArg Mat2.c h1
  have hd : P.c * Q.b + P.d * Q.d = 1 := congrArg Mat2.d h1
  have e1 : (P * Mat2.diag lam mu * Q).a * x + (P * Mat2.diag lam mu * Q).b * y - x
      = P.a * ((lam - 1) * u1) + P.b * ((mu - 1) * u2) := by
    simp only [mat_mul_a, mat_mul_b, Mat2.diag, hu1, hu2]
    linear_combination x * ha + y * hb
  have e2 : (P * Mat2.diag lam mu * Q).c * x + (P * Mat2.diag lam mu * Q).d * y - y
      = P.c * ((lam - 1) * u1) + P.d * ((mu - 1) * u2) := by
    simp only [mat_mul_c, mat_mul_d, Mat2.diag, hu1, hu2]
    linear_combination x * hc + y * hd
  rw [e1, e2, unitary_N2 P h2]
  have hQQ : cadj Q * Q = 1 := by rw [hQ, cadj_cadj]; exact h1
  have hu : N2 u1 u2 = N2 x y := unitary_N2 Q hQQ x y
  rw [← hu]
  unfold N2
  have := normSq_mul_le (z := u1) h0 hl
  have := normSq_mul_le (z := u2) h0 hm
  nlinarith

/-! ### The characters -/

open Real in
/-- `|e^{iφr} - 1| ≤ ε` when `|φ| ≤ angle` and `angle·|r| ≤ arccos(1 - ε²/2)`. -/
theorem char_close {angle ε φ r : ℝ} (h0 : 0 < ε) (h2 : ε ≤ 2)
    (hφ : |φ| ≤ angle) (hθ : angle * |r| ≤ thetaEps ε) :
    ‖Complex.exp (Complex.I * ((φ * r : ℝ) : ℂ)) - 1‖ ≤ ε := by
  have hx : |φ * r| ≤ angle * |r| := by
    rw [abs_mul]
    exact mul_le_mul_of_nonneg_right hφ (abs_nonneg r)
  have hpi : angle * |r| ≤ π := le_trans hθ (arccos_le_pi _)
  have h1 := norm_one_sub_exp_le hx hpi
  rw [norm_sub_rev]
  refine le_trans h1 ?_
  rw [thetaEps_eq h0.le h2] at hθ
  have hnn : 0 ≤ angle * |r| := le_trans (abs_nonneg _) hx
  have := sin_le_sin_of_le_of_le_pi_div_two (x := angle * |r| / 2) (y := arcsin (ε / 2))
    (by linarith [pi_pos]) (arcsin_le_pi_div_two _) (by linarith)
  rw [sin_arcsin (by linarith) (by linarith)] at this
  linarith

/-- `M` preserves the length of 2-vectors. -/
def Iso (M : Mat2 ℂ) : Prop :=
  ∀ x y : ℂ, N2 (M.a * x + M.b * y) (M.c * x + M.d * y) = N2 x y

/-- `P·diag(λ, μ)·P†` with a unitary `P` and `|λ| = |μ| = 1` preserves lengths. -/
theorem eig_iso (P : Mat2 ℂ) (h1 : P * cadj P = 1) (h2 : cadj P * P = 1) (lam mu : ℂ)
    (hl : normSq lam = 1) (hm : normSq mu = 1) : Iso (P * Mat2.diag lam mu * cadj P) := by
  intro x y
  set Q := cadj P with hQ
  have e1 : (P * Mat2.diag lam mu * Q).a * x + (P * Mat2.diag lam mu * Q).b * y
      = P.a * (lam * (Q.a * x + Q.b * y)) + P.b * (mu * (Q.c * x + Q.d * y)) := by
    simp only [mat_mul_a, mat_mul_b, Mat2.diag]
    ring
  have e2 : (P * Mat2.diag lam mu * Q).c * x + (P * Mat2.diag lam mu * Q).d * y
      = P.c * (lam * (Q.a * x + Q.b * y)) + P.d * (mu * (Q.c * x + Q.d * y)) := by
    simp only [mat_mul_c, mat_mul_d, Mat2.diag]
    ring
  have hQQ : cadj Q * Q = 1 := by rw [hQ, cadj_cadj]; exact h1
  rw [e1, e2, unitary_N2 P h2, ← unitary_N2 Q hQQ x y]
  simp only [N2, normSq_mul, hl, hm, one_mul]

theorem expChar_real (α : ℝ) (q : ℚ) :
    expChar α q = Complex.exp (Complex.I * ((α * (q : ℝ) : ℝ) : ℂ)) := by
  simp only [expChar]
  congr 2
  push_cast
  ring

theorem normSq_expChar (α : ℝ) (q : ℚ) : normSq (expChar α q) = 1 := by
  rw [expChar_real, normSq_eq_norm_sq, mul_comm, Complex.norm_exp_ofReal_mul_I]
  norm_num

/-- The powers of `U = P·diag(e^{iα}, e^{iβ})·P†` preserve lengths. -/
theorem ur_iso (P : Mat2 ℂ) (h1 : P * cadj P = 1) (h2 : cadj P * P = 1) (α β : ℝ) (q : ℚ) :
    Iso (urReal P (cadj P) α β q) :=
  eig_iso P h1 h2 _ _ (normSq_expChar α q) (normSq_expChar β q)

/-- `U^q` is `ε`-close to the identity when the eigen-angles are at most `angle` in modulus and
`angle·|q| ≤ arccos(1 - ε²/2)`. -/
theorem ur_close (P : Mat2 ℂ) (h1 : P * cadj P = 1) (h2 : cadj P * P = 1) (α β angle ε : ℝ)
    (h0 : 0 < ε) (h2' : ε ≤ 2) (hα : |α| ≤ angle) (hβ : |β| ≤ angle) (q : ℚ)
    (hθ : angle * |(q : ℝ)| ≤ thetaEps ε) : Close (urReal P (cadj P) α β q) ε := by
  apply eig_close P h1 h2 _ _ ε h0.le
  · rw [expChar_real]; exact char_close h0 h2' hα hθ
  · rw [expChar_real]; exact char_close h0 h2' hβ hθ

/-! ### Pairs of amplitudes -/

theorem ctrlOk_setBitK (lits : List (Nat × Bool)) (k : Nat) (hk : ∀ l ∈ lits, l.1 ≠ k)
    (b : Bits) (w : Bool) : ctrlOk lits (setBit b k w) = ctrlOk lits b := by
  induction lits with
  | nil => rfl
  | cons l lits ih =>
    simp only [ctrlOk, List.all_cons] at ih ⊢
    rw [setBit_ne b w (hk l List.mem_cons_self),
      ih (fun l' hl' => hk l' (List.mem_cons_of_mem _ hl'))]

theorem applyMcu_lo {R : Type} [Add R] [Mul R] (lits : List (Nat × Bool)) (k : Nat)
    (hk : ∀ l ∈ lits, l.1 ≠ k) (M : Mat2 R) (ψ : State R) (b : Bits) :
    applyMcu lits M k ψ (setBit b k false)
      = if ctrlOk lits b then M.a * ψ (setBit b k false) + M.b * ψ (setBit b k true)
        else ψ (setBit b k false) := by
  simp only [applyMcu, ctrlOk_setBitK lits k hk, setBit_eq, setBit_setBit, Bool.false_eq_true,
    if_false]

theorem applyMcu_hi {R : Type} [Add R] [Mul R] (lits : List (Nat × Bool)) (k : Nat)
    (hk : ∀ l ∈ lits, l.1 ≠ k) (M : Mat2 R) (ψ : State R) (b : Bits) :
    applyMcu lits M k ψ (setBit b k true)
      = if ctrlOk lits b then M.c * ψ (setBit b k false) + M.d * ψ (setBit b k true)
        else ψ (setBit b k true) := by
  simp only [applyMcu, ctrlOk_setBitK lits k hk, setBit_eq, setBit_setBit, if_true]

theorem patLits_ne (m k : Nat) (hm : m ≤ k) (cs : Option (List Bool)) :
    ∀ l ∈ patLits m (fun i => i) cs, l.1 ≠ k := by
  intro l hl
  simp only [patLits, List.mem_map, List.mem_range] at hl
  obtain ⟨i, hi, rfl⟩ := hl
  simp only
  omega

/-- **The pair bound**: with `U` unitary and `V` `ε`-close to the identity, the amplitudes of
`C(U)∘C'(V) ψ - C(U) ψ` at the two labels that differ from `b` only in the target are bounded by
those of `ψ`. -/
theorem pair_bound (lits lits' : List (Nat × Bool)) (k : Nat) (hk : ∀ l ∈ lits, l.1 ≠ k)
    (hk' : ∀ l ∈ lits', l.1 ≠ k) (U V : Mat2 ℂ) (hU : Iso U) (ε : ℝ) (hV : Close V ε)
    (ψ : State ℂ) (b : Bits) :
    N2 (applyMcu lits U k (applyMcu lits' V k ψ) (setBit b k false)
          - applyMcu lits U k ψ (setBit b k false))
        (applyMcu lits U k (applyMcu lits' V k ψ) (setBit b k true)
          - applyMcu lits U k ψ (setBit b k true))
      ≤ ε ^ 2 * N2 (ψ (setBit b k false)) (ψ (setBit b k true)) := by
  rw [applyMcu_lo lits k hk, applyMcu_lo lits k hk, applyMcu_hi lits k hk, applyMcu_hi lits k hk,
    applyMcu_lo lits' k hk', applyMcu_hi lits' k hk']
  set x := ψ (setBit b k false)
  set y := ψ (setBit b k true)
  have hε : 0 ≤ ε ^ 2 * N2 x y := mul_nonneg (sq_nonneg ε) (N2_nonneg x y)
  by_cases hc' : ctrlOk lits' b = true
  · simp only [hc', if_true]
    by_cases hc : ctrlOk lits b = true
    · simp only [hc, if_true]
      have e1 : U.a * (V.a * x + V.b * y) + U.b * (V.c * x + V.d * y) - (U.a * x + U.b * y)
          = U.a * (V.a * x + V.b * y - x) + U.b * (V.c * x + V.d * y - y) := by ring
      have e2 : U.c * (V.a * x + V.b * y) + U.d * (V.c * x + V.d * y) - (U.c * x + U.d * y)
          = U.c * (V.a * x + V.b * y - x) + U.d * (V.c * x + V.d * y - y) := by ring
      rw [e1, e2, hU]
      exact hV x y
    · simp only [hc, Bool.false_eq_true, if_false]
      exact hV x y
  · simp only [hc', Bool.false_eq_true, if_false, sub_self]
    simpa [N2] using hε

/-- The same for the identity circuit (negative base count): `ψ - C(U) ψ` with `U` `ε`-close to
the identity. -/
theorem pair_bound_id (lits : List (Nat × Bool)) (k : Nat) (hk : ∀ l ∈ lits, l.1 ≠ k)
    (U : Mat2 ℂ) (ε : ℝ) (hV : Close U ε) (ψ : State ℂ) (b : Bits) :
    N2 (ψ (setBit b k false) - applyMcu lits U k ψ (setBit b k false))
        (ψ (setBit b k true) - applyMcu lits U k ψ (setBit b k true))
      ≤ ε ^ 2 * N2 (ψ (setBit b k false)) (ψ (setBit b k true)) := by
  rw [applyMcu_lo lits k hk, applyMcu_hi lits k hk]
  set x := ψ (setBit b k false)
  set y := ψ (setBit b k true)
  have hε : 0 ≤ ε ^ 2 * N2 x y := mul_nonneg (sq_nonneg ε) (N2_nonneg x y)
  by_cases hc : ctrlOk lits b = true
  · simp only [hc, if_true]
    have := hV x y
    unfold N2 at this ⊢
    rw [← normSq_neg (x - _), ← normSq_neg (y - _), neg_sub, neg_sub]
    exact this
  · simp only [hc, Bool.false_eq_true, if_false, sub_self]
    simpa [N2] using hε

/-! ### Sums over all labels of `n` wires -/

/-- The label with the bits `f` on the wires `0 … n-1` and the background `bg` elsewhere. -/
def emb (n : Nat) (bg : Bits) (f : Fin n → Bool) : Bits :=
  fun i => if h : i < n then f ⟨i, h⟩ else bg i

/-- Flip bit `k` of `f`. -/
def flipF {n : Nat} (k : Fin n) (f : Fin n → Bool) : Fin n → Bool :=
  Function.update f k (!f k)

theorem flipF_invol {n : Nat} (k : Fin n) : Function.Involutive (flipF k) := by
  intro f
  funext i
  by_cases h : i = k
  · subst h; simp [flipF]
  · simp [flipF, Function.update_of_ne h]

theorem emb_flipF (n : Nat) (bg : Bits) (k : Fin n) (f : Fin n → Bool) :
    emb n bg (flipF k f) = flipBit (emb n bg f) k := by
  funext i
  by_cases hi : i = (k : Nat)
  · subst hi
    simp [emb, flipF, flipBit]
  · rw [flipBit_ne _ hi]
    simp only [emb]
    split
    · rename_i h
      have : (⟨i, h⟩ : Fin n) ≠ k := fun e => hi (congrArg Fin.val e)
      simp [flipF, Function.update_of_ne this]
    · rfl

/-- A sum over all labels is half the sum over the target pairs. -/
theorem sum_pairs (n : Nat) (bg : Bits) (k : Fin n) (g : Bits → ℝ) :
    2 * ∑ f : Fin n → Bool, g (emb n bg f)
      = ∑ f : Fin n → Bool,
          (g (setBit (emb n bg f) k false) + g (setBit (emb n bg f) k true)) := by
  have hσ : ∑ f : Fin n → Bool, g (emb n bg (flipF k f)) = ∑ f : Fin n → Bool, g (emb n bg f) :=
    Equiv.sum_comp (flipF_invol k).toPerm (fun f => g (emb n bg f))
  rw [two_mul]
  nth_rewrite 2 [← hσ]
  rw [← Finset.sum_add_distrib]
  apply Finset.sum_congr rfl
  intro f _
  rw [emb_flipF]
  cases hb : emb n bg f k
  · have e0 : setBit (emb n bg f) k false = emb n bg f := setBit_self' _ _ _ hb
    have e1 : setBit (emb n bg f) k true = flipBit (emb n bg f) k := by
      rw [← setBit_not, hb]; rfl
    rw [e0, e1]
  · have e1 : setBit (emb n bg f) k true = emb n bg f := setBit_self' _ _ _ hb
    have e0 : setBit (emb n bg f) k false = flipBit (emb n bg f) k := by
      rw [← setBit_not, hb]; rfl
    rw [e0, e1, add_comm]

/-- From the pair bound to the ℓ² bound over all labels. -/
theorem sum_bound (n : Nat) (bg : Bits) (k : Fin n) (Δ ψ : State ℂ) (ε : ℝ)
    (h : ∀ b : Bits, N2 (Δ (setBit b k false)) (Δ (setBit b k true))
      ≤ ε ^ 2 * N2 (ψ (setBit b k false)) (ψ (setBit b k true))) :
    ∑ f : Fin n → Bool, normSq (Δ (emb n bg f))
      ≤ ε ^ 2 * ∑ f : Fin n → Bool, normSq (ψ (emb n bg f)) := by
  have h1 := sum_pairs n bg k (fun b => normSq (Δ b))
  have h2 := sum_pairs n bg k (fun b => normSq (ψ b))
  have h3 : ∑ f : Fin n → Bool, (normSq (Δ (setBit (emb n bg f) k false))
        + normSq (Δ (setBit (emb n bg f) k true)))
      ≤ ∑ f : Fin n → Bool, ε ^ 2 * (normSq (ψ (setBit (emb n bg f) k false))
        + normSq (ψ (setBit (emb n bg f) k true))) :=
    Finset.sum_le_sum (fun f _ => h (emb n bg f))
  rw [← Finset.mul_sum] at h3
  nlinarith

end Qclib.Mcu2
