import QclibModel.Proofs.WidthLinkCore
/-
  C15 link — McxVchainDirty, LinearMcx, Toffoli (models of C05, `Model/Mcx.lean`): every gate of
  the gate-list model touches only wires below the width the C15 table declares, and which
  declared wires are actually used.
-/
import QclibModel.Model.Mcx
import QclibModel.Proofs.McxLinear
namespace Qclib
namespace WL
open Widths
variable {Θ : Type}

theorem toffoli_below (o : McxAngles Θ) (cancel : Cancel) {c0 c1 t n : Nat}
    (h0 : c0 < n) (h1 : c1 < n) (ht : t < n) : Below G.wires n (toffoli o cancel c0 c1 t) := by
  cases cancel <;> simp [toffoli, Below, G.wires, or_imp, forall_and, h0, h1, ht]

theorem toffoli_uses_t (o : McxAngles Θ) (cancel : Cancel) (c0 c1 t : Nat) :
    Uses G.wires t (toffoli o cancel c0 c1 t) :=
  ⟨G.cx c1 t, by simp [toffoli], by simp [G.wires]⟩

theorem tmt_below (nt : Nat) (hnt : 1 ≤ nt) (side : Side) :
    Below G.wires (nt + 2) (toffoliMultiTarget (Θ := Θ) nt side) := by
  have hl : Below G.wires (nt + 2)
      ((List.range (nt - 1)).map (fun i => (G.cx (2 + nt - i - 2) (2 + nt - i - 1) : G Θ))) := by
    apply below_map; intro i hi w hw
    simp only [List.mem_range] at hi
    simp only [G.wires, List.mem_cons, List.not_mem_nil, or_false] at hw
    omega
  have hr : Below G.wires (nt + 2)
      ((List.range (nt - 1)).map (fun i => (G.cx (i + 2) (i + 3) : G Θ))) := by
    apply below_map; intro i hi w hw
    simp only [List.mem_range] at hi
    simp only [G.wires, List.mem_cons, List.not_mem_nil, or_false] at hw
    omega
  have hm : Below G.wires (nt + 2) [(G.ccx 0 1 2 : G Θ)] := by
    rw [below_singleton]; intro w hw
    simp only [G.wires, List.mem_cons, List.not_mem_nil, or_false] at hw
    omega
  cases side <;> simp only [toffoliMultiTarget, below_append] <;> simp only [hl, hr, hm, and_self]

/-- The top local wire `nt + 1` of `toffoli_multi_target` is used (for every `side`). -/
theorem tmt_uses_top (nt : Nat) (hnt : 1 ≤ nt) (side : Side) :
    Uses G.wires (nt + 1) (toffoliMultiTarget (Θ := Θ) nt side) := by
  by_cases h1 : nt = 1
  · subst h1
    refine ⟨G.ccx 0 1 2, ?_, by simp [G.wires]⟩
    cases side <;> simp [toffoliMultiTarget]
  · cases side
    · refine ⟨G.cx nt (nt + 1), ?_, by simp [G.wires]⟩
      simp only [toffoliMultiTarget, List.mem_append, List.mem_map, List.mem_range]
      left; exact ⟨0, by omega, by congr 1 <;> omega⟩
    · refine ⟨G.cx nt (nt + 1), ?_, by simp [G.wires]⟩
      simp only [toffoliMultiTarget, List.mem_append, List.mem_map, List.mem_range]
      right; exact ⟨nt - 2, by omega, by congr 1 <;> omega⟩
    · refine ⟨G.cx nt (nt + 1), ?_, by simp [G.wires]⟩
      simp only [toffoliMultiTarget, List.mem_append, List.mem_map, List.mem_range]
      left; left; exact ⟨0, by omega, by congr 1 <;> omega⟩

theorem tmtOn_below (nt : Nat) (hnt : 1 ≤ nt) (side : Side) {x y n : Nat} {t : Nat → Nat}
    (hx : x < n) (hy : y < n) (ht : ∀ i, i < nt → t i < n) :
    Below G.wires n (tmtOn (Θ := Θ) nt side x y t) := by
  unfold tmtOn
  apply below_mapWires (tmt_below nt hnt side)
  intro w hw
  unfold tmtWires
  split
  · exact hx
  · split
    · exact hy
    · exact ht _ (by omega)

theorem tmtOn_uses_top (nt : Nat) (hnt : 1 ≤ nt) (side : Side) (x y : Nat) (t : Nat → Nat) :
    Uses G.wires (t (nt - 1)) (tmtOn (Θ := Θ) nt side x y t) := by
  have h := uses_mapWires (f := tmtWires x y t) (tmt_uses_top (Θ := Θ) nt hnt side)
  have e : tmtWires x y t (nt + 1) = t (nt - 1) := by
    unfold tmtWires
    rw [if_neg (by omega), if_neg (by omega)]
    congr 1
  rw [e] at h
  exact h

theorem ctrlXs_below {k n : Nat} {c : Nat → Nat} (hc : ∀ i, i < k → c i < n)
    (cs : Option (List Bool)) (xs : Circ Θ) (h : ctrlXs k c cs = some xs) :
    Below G.wires n xs := by
  cases cs with
  | none => simp only [ctrlXs, Option.some.injEq] at h; subst h; exact below_nil
  | some p =>
    simp only [ctrlXs] at h
    split at h
    · rename_i hall
      simp only [Option.some.injEq] at h; subst h
      apply below_flatMap
      intro i hi
      split
      · exact below_nil
      · rename_i hf
        rw [below_singleton]; intro w hw
        simp only [G.wires, List.mem_singleton] at hw; subst hw
        have := List.all_eq_true.mp hall i hi
        simp only [hf, Bool.false_or, decide_eq_true_eq] at this
        exact hc i this
    · exact absurd h (by simp)

section body
variable (o : McxAngles Θ) {k nt n : Nat} {c a t : Nat → Nat}

theorem action_below (hk : 3 ≤ k) (hnt : 1 ≤ nt) (hc : ∀ i, i < k → c i < n)
    (ha : ∀ i, i < k - 2 → a i < n) (rp : Bool) (ht0 : t 0 < n)
    (ht : rp = false → ∀ i, i < nt → t i < n) (j : Nat)
    (side : Side) : Below G.wires n (actionCircuit o k nt c a t rp j side) := by
  simp only [actionCircuit]
  apply below_flatMap
  intro i hi
  simp only [List.mem_range] at hi
  have htaux : (if i = 0 then t 0 else a (k - 2 - i)) < n := by
    split
    · exact ht0
    · exact ha _ (by omega)
  split
  · split
    · split
      · exact toffoli_below o _ (hc _ (by omega)) (ha _ (by omega)) htaux
      · exact toffoli_below o _ (hc _ (by omega)) (ha _ (by omega)) htaux
    · rename_i hrp
      have hrp' : rp = false := by
        cases rp
        · rfl
        · exact absurd (Or.inr rfl) hrp
      exact tmtOn_below nt hnt side (hc _ (by omega)) (ha _ (by omega)) (ht hrp')
  · exact toffoli_below o _ (hc _ (by omega)) (hc _ (by omega)) htaux

theorem reset_below (hc : ∀ i, i < k → c i < n) (ha : ∀ i, i < k - 2 → a i < n) :
    Below G.wires n (resetCircuit o k c a) := by
  simp only [resetCircuit]
  apply below_flatMap
  intro i hi
  simp only [List.mem_range] at hi
  exact toffoli_below o _ (hc _ (by omega)) (ha _ (by omega)) (ha _ (by omega))

theorem round_below (hk : 3 ≤ k) (hnt : 1 ≤ nt) (hc : ∀ i, i < k → c i < n)
    (ha : ∀ i, i < k - 2 → a i < n) (rp ao : Bool) (ht0 : t 0 < n)
    (ht : rp = false ∨ ao = true → ∀ i, i < nt → t i < n) (j : Nat)
    (side : Side) : Below G.wires n (vchainRound o k nt c a t rp ao j side) := by
  simp only [vchainRound, below_append]
  refine ⟨⟨action_below o hk hnt hc ha rp ht0 (fun h => ht (Or.inl h)) j side,
    reset_below o hc ha⟩, ?_⟩
  split
  · rename_i hao
    exact tmtOn_below nt hnt .r (hc _ (by omega)) (ha _ (by omega)) (ht (Or.inr hao))
  · exact below_nil

/-- Every gate of `McxVchainDirty._define` (without the ctrl-state X gates) is on a control wire
`c i` (`i < k`), an ancilla wire `a i` (`i < k − 2`) or a target wire `t i` (`i < nt`). -/
theorem vchainBody_below (hk : 1 ≤ k) (hnt : 1 ≤ nt) (hc : ∀ i, i < k → c i < n)
    (ha : ∀ i, i < k - 2 → a i < n) (ht : ∀ i, i < nt → t i < n) (rp ao : Bool) :
    Below G.wires n (vchainBody o k nt c a t rp ao) := by
  unfold vchainBody
  split
  · exact tmtOn_below nt hnt .both (hc _ (by omega)) (hc _ (by omega)) ht
  · split
    · apply below_map; intro j hj w hw
      simp only [List.mem_range] at hj
      simp only [G.wires, List.mem_cons, List.not_mem_nil, or_false] at hw
      rcases hw with rfl | rfl
      · exact hc _ (by omega)
      · exact ht _ hj
    · split
      · apply below_map; intro j hj w hw
        simp only [List.mem_range] at hj
        simp only [G.wires, List.mem_append, List.mem_cons, List.not_mem_nil, or_false] at hw
        rcases hw with (rfl | rfl | rfl) | rfl
        · exact hc _ (by omega)
        · exact hc _ (by omega)
        · exact hc _ (by omega)
        · exact ht _ hj
      · have hk3 : 3 ≤ k := by omega
        split
        · exact round_below o hk3 hnt hc ha rp ao (ht 0 (by omega)) (fun _ => ht) 0 .l
        · rw [below_append]
          exact ⟨round_below o hk3 hnt hc ha rp ao (ht 0 (by omega)) (fun _ => ht) 0 .l,
            round_below o hk3 hnt hc ha rp ao (ht 0 (by omega)) (fun _ => ht) 1 .r⟩

/-- `relative_phase=True`, `k ≥ 3`, not `action_only`: only the FIRST target wire is touched
(the multi-target Toffoli is replaced by a single-target one), so targets `1 … nt−1` stay idle. -/
theorem vchainBody_relphase_below (hk : 3 ≤ k) (hnt : 1 ≤ nt) (hc : ∀ i, i < k → c i < n)
    (ha : ∀ i, i < k - 2 → a i < n) (ht0 : t 0 < n) :
    Below G.wires n (vchainBody o k nt c a t true false) := by
  unfold vchainBody
  rw [if_neg (by omega), if_neg (by omega), if_neg (by simp), if_neg (by simp), below_append]
  exact ⟨round_below o hk hnt hc ha true false ht0 (by simp) 0 .l,
    round_below o hk hnt hc ha true false ht0 (by simp) 1 .r⟩

theorem action_uses (hk : 3 ≤ k) (hnt : 1 ≤ nt) (rp : Bool) (h : rp = false ∨ nt = 1) (j : Nat)
    (side : Side) : Uses G.wires (t (nt - 1)) (actionCircuit o k nt c a t rp j side) := by
  simp only [actionCircuit]
  apply uses_flatMap (x := 0) (List.mem_range.mpr (by omega))
  rw [if_pos (by omega)]
  cases rp with
  | false =>
    rw [if_neg (by simp)]
    exact tmtOn_uses_top nt hnt side _ _ t
  | true =>
    have h1 : nt = 1 := by simpa using h
    subst h1
    rw [if_pos (by simp)]
    split
    · exact toffoli_uses_t o _ _ _ _
    · exact toffoli_uses_t o _ _ _ _

/-- The last target wire is used by some gate, unless `relative_phase=True` with several targets,
`k ≥ 3` controls and no `action_only`. -/
theorem vchainBody_uses_top (hk : 1 ≤ k) (hnt : 1 ≤ nt) (rp ao : Bool)
    (h : rp = false ∨ nt = 1 ∨ k ≤ 2 ∨ ao = true) :
    Uses G.wires (t (nt - 1)) (vchainBody o k nt c a t rp ao) := by
  unfold vchainBody
  split
  · exact tmtOn_uses_top nt hnt .both _ _ t
  · split
    · exact ⟨G.cx (c 0) (t (nt - 1)), List.mem_map.mpr ⟨nt - 1, List.mem_range.mpr (by omega), rfl⟩,
        by simp [G.wires]⟩
    · split
      · exact ⟨G.mcx [c 0, c 1, c 2] (t (nt - 1)),
          List.mem_map.mpr ⟨nt - 1, List.mem_range.mpr (by omega), rfl⟩, by simp [G.wires]⟩
      · have hk3 : 3 ≤ k := by omega
        split
        · rename_i hao
          simp only [vchainRound, hao, if_true]
          exact uses_append_right _ (tmtOn_uses_top nt hnt .r _ _ t)
        · rename_i hao
          have h' : rp = false ∨ nt = 1 := by
            rcases h with h | h | h | h
            · exact Or.inl h
            · exact Or.inr h
            · omega
            · exact absurd h hao
          apply uses_append_left
          simp only [vchainRound]
          exact uses_append_left _ (uses_append_left _ (action_uses o hk3 hnt rp h' 0 .l))

end body

/-! ### Whole classes against the C15 table -/

theorem toffoli_class_below (o : McxAngles Θ) (cancel : Cancel) (p : Params) :
    Below G.wires (declaredWidth .toffoli p) (toffoli o cancel 0 1 2) :=
  toffoli_below o cancel (by show 0 < 3; omega) (by show 1 < 3; omega) (by show 2 < 3; omega)


theorem vchainAncillas_eq (k : Nat) : vchainAncillas k = k - 2 := by
  unfold vchainAncillas; split <;> omega

theorem vchain_split (o : McxAngles Θ) (k nt : Nat) (cs : Option (List Bool)) (rp ao : Bool)
    (circ : Circ Θ) (h : vchain o k nt cs rp ao = some circ) :
    1 ≤ k ∧ 1 ≤ nt ∧ ∃ xs : Circ Θ, ctrlXs k (fun i => i) cs = some xs
      ∧ circ = xs ++ vchainBody o k nt (fun i => i) (fun i => k + i) (fun i => k + (k - 2) + i) rp ao
          ++ xs := by
  simp only [vchain, vchainW] at h
  split at h
  · exact absurd h (by simp)
  · rename_i hk
    split at h
    · exact absurd h (by simp)
    · rename_i xs hxs
      simp only [Option.some.injEq] at h
      exact ⟨by omega, by omega, xs, hxs, h.symm⟩

/-- Soundness for `McxVchainDirty`. -/
theorem vchain_below (o : McxAngles Θ) (k nt : Nat) (cs : Option (List Bool)) (rp ao : Bool)
    (circ : Circ Θ) (h : vchain o k nt cs rp ao = some circ) :
    Below G.wires (declaredWidth .mcxVchainDirty { k := k, t := nt }) circ := by
  obtain ⟨hk, hnt, xs, hxs, rfl⟩ := vchain_split o k nt cs rp ao circ h
  show Below G.wires (k + vchainAncillas k + nt) _
  rw [vchainAncillas_eq]
  have hx : Below G.wires (k + (k - 2) + nt) xs :=
    ctrlXs_below (c := fun i => i) (fun i hi => by omega) cs xs hxs
  rw [below_append, below_append]
  exact ⟨⟨hx, vchainBody_below o hk hnt (fun i hi => by omega) (fun i hi => by omega)
    (fun i hi => by omega) rp ao⟩, hx⟩

/-- Tightness for `McxVchainDirty`. -/
theorem vchain_uses_top (o : McxAngles Θ) (k nt : Nat) (cs : Option (List Bool)) (rp ao : Bool)
    (circ : Circ Θ) (h : vchain o k nt cs rp ao = some circ)
    (hd : rp = false ∨ nt = 1 ∨ k ≤ 2 ∨ ao = true) :
    Uses G.wires (declaredWidth .mcxVchainDirty { k := k, t := nt } - 1) circ := by
  obtain ⟨hk, hnt, xs, hxs, rfl⟩ := vchain_split o k nt cs rp ao circ h
  show Uses G.wires (k + vchainAncillas k + nt - 1) _
  rw [vchainAncillas_eq]
  have := vchainBody_uses_top o (c := fun i => i) (a := fun i => k + i)
    (t := fun i => k + (k - 2) + i) hk hnt rp ao hd
  have e : k + (k - 2) + (nt - 1) = k + (k - 2) + nt - 1 := by omega
  simp only [e] at this
  exact uses_append_left _ (uses_append_right _ this)

/-- The excluded case: `relative_phase=True`, `k ≥ 3`, several targets, no `action_only` — every
gate stays below the SECOND target wire (targets `1 … nt−1` are idle). -/
theorem vchain_relphase_idle (o : McxAngles Θ) (k nt : Nat) (hk : 3 ≤ k) (cs : Option (List Bool))
    (circ : Circ Θ) (h : vchain o k nt cs true false = some circ) :
    Below G.wires (k + (k - 2) + 1) circ := by
  obtain ⟨_, hnt, xs, hxs, rfl⟩ := vchain_split o k nt cs true false circ h
  have hx : Below G.wires (k + (k - 2) + 1) xs :=
    ctrlXs_below (c := fun i => i) (fun i hi => by omega) cs xs hxs
  rw [below_append, below_append]
  exact ⟨⟨hx, vchainBody_relphase_below o hk hnt (fun i hi => by omega) (fun i hi => by omega)
    (by omega)⟩, hx⟩

/-! ### LinearMcx: wires of the placed sub-chains

(Restated here from `Proofs/McxAoBracket.lean` so that this file only depends on
`Proofs/McxLinear.lean`; the C04 files behind `McxAoBracket` cannot be imported together with the
C11 tree files.) -/

theorem linearBody_small_ao' (o : McxAngles Θ) (k : Nat) (hk5 : k ≤ 5) (ao : Bool) :
    linearBody o k ao = linearBody o k false := by
  have : k = 0 ∨ k = 1 ∨ k = 2 ∨ k = 3 ∨ k = 4 ∨ k = 5 := by omega
  rcases this with rfl | rfl | rfl | rfl | rfl | rfl <;> rfl

/-- Every wire of a placed circuit is a listed wire (or the default `0`). -/
theorem place_wires' (c : Circ Θ) (ws : List Nat) :
    ∀ g ∈ place c ws, ∀ w ∈ g.wires, w ∈ ws ∨ w = 0 := by
  intro g hg w hw
  simp only [place, List.mem_map] at hg
  obtain ⟨g', _, rfl⟩ := hg
  rw [wires_mapWires', List.mem_map] at hw
  obtain ⟨w', _, rfl⟩ := hw
  by_cases h : w' < ws.length
  · left
    rw [List.getD_eq_getElem?_getD, List.getElem?_eq_getElem h]
    exact List.getElem_mem h
  · right
    rw [List.getD_eq_getElem?_getD, List.getElem?_eq_none (by omega)]
    rfl

theorem linW1_lt' (k : Nat) (hk : 6 ≤ k) : ∀ w ∈ linW1 k, w < k + 2 := by
  have h2 : linK2 k = (k + 3) / 2 := rfl
  have h1 : linK1 k = k - (k + 3) / 2 + 1 := rfl
  intro w hw
  rw [linW1_eq k hk] at hw
  simp only [List.mem_append, List.mem_range'_1, List.mem_singleton] at hw
  omega

theorem linW2_lt' (k : Nat) (hk : 6 ≤ k) : ∀ w ∈ linW2 k, w < k + 2 := by
  have h2 : linK2 k = (k + 3) / 2 := rfl
  have h1 : linK1 k = k - (k + 3) / 2 + 1 := rfl
  intro w hw
  rw [linW2_eq k hk] at hw
  simp only [List.mem_append, List.mem_range'_1, List.mem_singleton] at hw
  omega

/-- Every wire of `LinearMcx._define` is one of `0 … k+1`. -/
theorem linearBody_below (o : McxAngles Θ) (k : Nat) (hk : 1 ≤ k) (ao : Bool) :
    Below G.wires (k + 2) (linearBody o k ao) := by
  by_cases h5 : k ≤ 5
  · rw [linearBody_small_ao' o k h5 ao]
    have : k = 1 ∨ k = 2 ∨ k = 3 ∨ k = 4 ∨ k = 5 := by omega
    rcases this with rfl | rfl | rfl | rfl | rfl
    · have e : linearBody o 1 false = [G.cx 0 1] := rfl
      rw [e, below_singleton]; intro w hw; simp [G.wires] at hw; omega
    · have e : linearBody o 2 false = [G.ccx 0 1 2] := rfl
      rw [e, below_singleton]; intro w hw; simp [G.wires] at hw; omega
    · have e : linearBody o 3 false = [G.mcx [0, 1, 2] 3] := rfl
      rw [e, below_singleton]; intro w hw; simp [G.wires] at hw; omega
    · have e : linearBody o 4 false = [G.mcx [0, 1, 2, 3] 4] := rfl
      rw [e, below_singleton]; intro w hw; simp [G.wires] at hw; omega
    · have e : linearBody o 5 false
          = [G.mcx [0, 1, 2] 6, G.mcx [3, 4, 6] 5, G.mcx [0, 1, 2] 6, G.mcx [3, 4, 6] 5] := rfl
      rw [e]; intro g hg
      simp only [List.mem_cons, List.not_mem_nil, or_false] at hg
      rcases hg with rfl | rfl | rfl | rfl <;> (intro w hw; simp [G.wires] at hw; omega)
  · have hk6 : 6 ≤ k := by omega
    rw [linearBody_big o k hk6 ao]
    intro g hg w hw
    simp only [List.mem_append] at hg
    have h1 : ∀ c : Circ Θ, g ∈ place c (linW1 k) → w < k + 2 := fun c hc => by
      rcases place_wires' c _ g hc w hw with h | h
      · exact linW1_lt' k hk6 w h
      · omega
    have h2 : ∀ c : Circ Θ, g ∈ place c (linW2 k) → w < k + 2 := fun c hc => by
      rcases place_wires' c _ g hc w hw with h | h
      · exact linW2_lt' k hk6 w h
      · omega
    rcases hg with ((h | h) | h) | h
    · exact h1 _ h
    · exact h2 _ h
    · exact h1 _ h
    · exact h2 _ h

theorem linearMcx_split (o : McxAngles Θ) (k : Nat) (cs : Option (List Bool)) (ao : Bool)
    (circ : Circ Θ) (h : linearMcx o k cs ao = some circ) :
    1 ≤ k ∧ ∃ xs : Circ Θ, ctrlXs k (fun i => i) cs = some xs
      ∧ circ = xs ++ linearBody o k ao ++ xs := by
  simp only [linearMcx] at h
  split at h
  · exact absurd h (by simp)
  · rename_i hk
    split at h
    · exact absurd h (by simp)
    · rename_i xs hxs
      simp only [Option.some.injEq] at h
      exact ⟨by omega, xs, hxs, h.symm⟩

theorem linearBody_uses_anc (o : McxAngles Θ) (k : Nat) (hk : 5 ≤ k) (ao : Bool) :
    Uses G.wires (k + 1) (linearBody o k ao) := by
  by_cases h5 : k = 5
  · subst h5
    rw [linearBody_small_ao' o 5 (by omega) ao]
    have e : linearBody o 5 false
        = [G.mcx [0, 1, 2] 6, G.mcx [3, 4, 6] 5, G.mcx [0, 1, 2] 6, G.mcx [3, 4, 6] 5] := rfl
    rw [e]
    exact ⟨G.mcx [0, 1, 2] 6, List.mem_cons_self, by simp [G.wires]⟩
  · have hk6 : 6 ≤ k := by omega
    rw [linearBody_big o k hk6 ao]
    have h1 : linK1 k = k - (k + 3) / 2 + 1 := rfl
    have hu := vchainBody_uses_top o (k := linK1 k) (nt := 1) (c := fun i => i)
      (a := fun i => linK1 k + i) (t := fun i => linK1 k + (linK1 k - 2) + i)
      (by omega) (by omega) true false (Or.inr (Or.inl rfl))
    have hm := uses_mapWires (f := fun i => (linW1 k).getD i 0) hu
    simp only [Nat.sub_self] at hm
    rw [w1_t k hk6] at hm
    exact uses_append_left _ (uses_append_left _ (uses_append_left _ hm))

theorem linearBody_small_below (o : McxAngles Θ) (k : Nat) (hk1 : 1 ≤ k) (hk : k ≤ 4) (ao : Bool) :
    Below G.wires (k + 1) (linearBody o k ao) := by
  rw [linearBody_small_ao' o k (by omega) ao]
  have : k = 1 ∨ k = 2 ∨ k = 3 ∨ k = 4 := by omega
  rcases this with rfl | rfl | rfl | rfl
  · have e : linearBody o 1 false = [G.cx 0 1] := rfl
    rw [e, below_singleton]; intro w hw; simp [G.wires] at hw; omega
  · have e : linearBody o 2 false = [G.ccx 0 1 2] := rfl
    rw [e, below_singleton]; intro w hw; simp [G.wires] at hw; omega
  · have e : linearBody o 3 false = [G.mcx [0, 1, 2] 3] := rfl
    rw [e, below_singleton]; intro w hw; simp [G.wires] at hw; omega
  · have e : linearBody o 4 false = [G.mcx [0, 1, 2, 3] 4] := rfl
    rw [e, below_singleton]; intro w hw; simp [G.wires] at hw; omega

/-- Soundness for `LinearMcx`. -/
theorem linear_below (o : McxAngles Θ) (k : Nat) (cs : Option (List Bool)) (ao : Bool)
    (circ : Circ Θ) (h : linearMcx o k cs ao = some circ) :
    Below G.wires (declaredWidth .linearMcx { k := k }) circ := by
  obtain ⟨hk, xs, hxs, rfl⟩ := linearMcx_split o k cs ao circ h
  show Below G.wires (k + 2) _
  have hx : Below G.wires (k + 2) xs :=
    ctrlXs_below (c := fun i => i) (fun i hi => by omega) cs xs hxs
  rw [below_append, below_append]
  exact ⟨⟨hx, linearBody_below o k hk ao⟩, hx⟩

/-- The target `k` is always used; the ancilla `k + 1` (the top wire) is used iff `k ≥ 5`. -/
theorem linear_uses_anc_iff (o : McxAngles Θ) (k : Nat) (cs : Option (List Bool)) (ao : Bool)
    (circ : Circ Θ) (h : linearMcx o k cs ao = some circ) :
    Uses G.wires (declaredWidth .linearMcx { k := k } - 1) circ ↔ 5 ≤ k := by
  obtain ⟨hk, xs, hxs, rfl⟩ := linearMcx_split o k cs ao circ h
  show Uses G.wires (k + 2 - 1) _ ↔ _
  rw [show k + 2 - 1 = k + 1 by omega]
  constructor
  · intro hu
    by_cases h5 : 5 ≤ k
    · exact h5
    · exfalso
      have hx : Below G.wires (k + 1) xs :=
        ctrlXs_below (c := fun i => i) (fun i hi => by omega) cs xs hxs
      have hb : Below G.wires (k + 1) (xs ++ linearBody o k ao ++ xs) := by
        rw [below_append, below_append]
        exact ⟨⟨hx, linearBody_small_below o k hk (by omega) ao⟩, hx⟩
      exact not_uses_of_below hb hu
  · intro h5
    exact uses_append_left _ (uses_append_right _ (linearBody_uses_anc o k h5 ao))

end WL
end Qclib
