import QclibModel.Proofs.McxChain
import Mathlib.Data.List.Nodup
/-
  C05: classical pieces around the sweep — conditional flips, the `T ; S ; T ; S` sandwich, the
  CX chains of the multi-target Toffoli, lists of `x` gates (ctrl_state).
-/
set_option linter.unusedSectionVars false

namespace Qclib
open RotSem

/-! ### `flipAll` -/

theorem flipAll_nil (b : Bits) : flipAll [] b = b := rfl

theorem flipAll_cons (w : Nat) (l : List Nat) (b : Bits) :
    flipAll (w :: l) b = flipAll l (flipBit b w) := rfl

theorem flipAll_append (l l' : List Nat) (b : Bits) :
    flipAll (l ++ l') b = flipAll l' (flipAll l b) := by
  simp [flipAll, List.foldl_append]

theorem flipAll_flipBit (l : List Nat) (b : Bits) (w : Nat) :
    flipAll l (flipBit b w) = flipBit (flipAll l b) w := by
  induction l generalizing b with
  | nil => rfl
  | cons v l ih => rw [flipAll_cons, flipAll_cons, flipBit_comm, ih]

theorem flipAll_get (l : List Nat) (hl : l.Nodup) (b : Bits) (q : Nat) :
    (flipAll l b) q = if q ∈ l then !(b q) else b q := by
  induction l generalizing b with
  | nil => simp [flipAll_nil]
  | cons v l ih =>
    rw [flipAll_cons, ih (List.nodup_cons.mp hl).2]
    have hv : v ∉ l := (List.nodup_cons.mp hl).1
    by_cases h : q = v
    · subst h
      simp [hv, flipBit_eq]
    · have : q ∈ (v :: l) ↔ q ∈ l := by simp [h]
      simp only [this, flipBit_ne b h]

theorem flipAll_get_not_mem (l : List Nat) (b : Bits) (q : Nat) (h : q ∉ l) :
    (flipAll l b) q = b q := by
  induction l generalizing b with
  | nil => rfl
  | cons v l ih =>
    rw [flipAll_cons, ih _ (fun h' => h (List.mem_cons_of_mem _ h'))]
    exact flipBit_ne b (fun e => h (e ▸ List.mem_cons_self))

theorem flipAll_flipAll_comm (l l' : List Nat) (b : Bits) :
    flipAll l (flipAll l' b) = flipAll l' (flipAll l b) := by
  induction l' generalizing b with
  | nil => rfl
  | cons v l' ih => rw [flipAll_cons, flipAll_cons, ih, flipAll_flipBit]

theorem flipAll_invol (l : List Nat) (b : Bits) : flipAll l (flipAll l b) = b := by
  induction l generalizing b with
  | nil => rfl
  | cons v l ih =>
    simp only [flipAll_cons, flipAll_flipBit, ih, flipBit_flipBit]

section
variable {Θ R : Type} [CommRing R] [RotSem Θ R]

/-! ### Conditional flips -/

/-- Flip wire `t` where `Q` holds (as an operator on amplitude functions). -/
def condFlip (Q : Bits → Bool) (t : Nat) (ψ : State R) : State R :=
  fun b => if Q b then ψ (flipBit b t) else ψ b

/-- Flip all wires of `ts` where `Q` holds. -/
def condFlipAll (Q : Bits → Bool) (ts : List Nat) (ψ : State R) : State R :=
  fun b => if Q b then ψ (flipAll ts b) else ψ b

omit [CommRing R] [RotSem Θ R] in
theorem mcxIdeal_eq (lits : List (Nat × Bool)) (ts : List Nat) (ψ : State R) :
    mcxIdeal lits ts ψ = condFlipAll (ctrlOk lits) ts ψ := rfl

theorem denote_cx_condFlip (c t : Nat) (ψ : State R) :
    denote (G.cx c t : G Θ) ψ = condFlip (fun b => b c) t ψ := by
  funext b; exact denote_cx c t ψ b

theorem denote_ccx_condFlip (a c t : Nat) (ψ : State R) :
    denote (G.ccx a c t : G Θ) ψ = condFlip (fun b => b a && b c) t ψ := by
  funext b; exact denote_ccx a c t ψ b

theorem denote_mcx_condFlip (cs : List Nat) (t : Nat) (ψ : State R) :
    denote (G.mcx cs t : G Θ) ψ = condFlip (fun b => cs.all (fun c => b c)) t ψ := by
  funext b
  have e : ctrlOk (cs.map (fun c => (c, true))) b = cs.all (fun c => b c) := by
    simp [ctrlOk, List.all_map, Function.comp_def]
  simp only [denote, applyMcu, e, condFlip, Mat2.X, ← setBit_not]
  cases h : b t <;> simp

/-- `T ; S ; T ; S` (time order): `S = sp σ π` an involution that flips `a` exactly under `C` and
does not see `t`; `T` flips `t` under `H ∧ a`.  The result flips `t` under `H ∧ C`. -/
theorem sandwich (σ : Bits → R) (π : Bits → Bits) (a t : Nat) (C H : Bits → Bool)
    (hf : FreeAt t σ π) (ha : ∀ b, (π b) a = xor (b a) (C b))
    (hC : ∀ b, C (π b) = C b) (hH : ∀ b, H (π b) = H b)
    (hCt : ∀ b, C (flipBit b t) = C b) (hHt : ∀ b, H (flipBit b t) = H b)
    (hat : a ≠ t) (hi : Invol σ π) (ψ : State R) :
    sp σ π (condFlip (fun b => H b && b a) t (sp σ π (condFlip (fun b => H b && b a) t ψ)))
      = condFlip (fun b => H b && C b) t ψ := by
  funext b
  have hs : ∀ x : R, σ b * (σ (π b) * x) = x := fun x => by
    rw [← mul_assoc, hi.invσ, one_mul]
  simp only [sp, condFlip, hf.sig_flip, hf.perm_flip, ha, hC, hH, hCt, hHt, hi.invπ,
    flipBit_ne _ hat, flipBit_flipBit]
  by_cases h1 : H b = true <;> by_cases h2 : b a = true <;> by_cases h3 : C b = true <;>
    simp [h1, h2, h3, hs]

/-- `S ; T ; S ; T` (time order), same hypotheses. -/
theorem sandwich' (σ : Bits → R) (π : Bits → Bits) (a t : Nat) (C H : Bits → Bool)
    (hf : FreeAt t σ π) (ha : ∀ b, (π b) a = xor (b a) (C b))
    (hH : ∀ b, H (π b) = H b)
    (hCt : ∀ b, C (flipBit b t) = C b) (hHt : ∀ b, H (flipBit b t) = H b)
    (hat : a ≠ t) (hi : Invol σ π) (ψ : State R) :
    condFlip (fun b => H b && b a) t (sp σ π (condFlip (fun b => H b && b a) t (sp σ π ψ)))
      = condFlip (fun b => H b && C b) t ψ := by
  funext b
  have hs : ∀ x : R, σ b * (σ (π b) * x) = x := fun x => by
    rw [← mul_assoc, hi.invσ, one_mul]
  simp only [sp, condFlip, hf.sig_flip, hf.perm_flip, ha, hH, hCt, hHt, hi.invπ,
    flipBit_ne _ hat, flipBit_flipBit]
  by_cases h1 : H b = true <;> by_cases h2 : b a = true <;> by_cases h3 : C b = true <;>
    simp [h1, h2, h3, hs]

/-! ### CX chains of the multi-target Toffoli -/

/-- `cx (t (n-2)) (t (n-1)), …, cx (t 0) (t 1)` (the `'l'` side). -/
def chainL (t : Nat → Nat) : Nat → Circ Θ
  | 0 => []
  | n + 1 => G.cx (t n) (t (n + 1)) :: chainL t n

/-- `cx (t 0) (t 1), …, cx (t (n-2)) (t (n-1))` (the `'r'` side). -/
def chainR (t : Nat → Nat) : Nat → Circ Θ
  | 0 => []
  | n + 1 => chainR t n ++ [G.cx (t n) (t (n + 1))]

/-- Conjugating "flip `t 0` under `Q`" by the CX chains flips all of `t 0 … t n` under `Q`. -/
theorem chain_sem (t : Nat → Nat) (Q : Bits → Bool) (n : Nat)
    (ht : ∀ i j, i ≤ n → j ≤ n → t i = t j → i = j)
    (hQ : ∀ b i, i ≤ n → Q (flipBit b (t i)) = Q b) (ψ : State R) :
    sem (chainR t n : Circ Θ) (condFlip Q (t 0) (sem (chainL t n : Circ Θ) ψ))
      = condFlipAll Q ((List.range (n + 1)).map t) ψ := by
  induction n generalizing ψ with
  | zero =>
    funext b
    simp [chainL, chainR, sem_nil, condFlip, condFlipAll, flipAll]
  | succ n ih =>
    have ih' := ih (fun i j hi hj => ht i j (by omega) (by omega))
      (fun b i hi => hQ b i (by omega))
    have hnd : ((List.range (n + 1)).map t).Nodup := by
      refine List.Nodup.map_on (fun i hi j hj h => ?_) List.nodup_range
      exact ht i j (by have := List.mem_range.mp hi; omega) (by have := List.mem_range.mp hj; omega) h
    have hu : t n ∈ (List.range (n + 1)).map t :=
      List.mem_map.mpr ⟨n, List.mem_range.mpr (by omega), rfl⟩
    have hv : t (n + 1) ∉ (List.range (n + 1)).map t := by
      intro h
      obtain ⟨i, hi, e⟩ := List.mem_map.mp h
      have := ht i (n + 1) (by have := List.mem_range.mp hi; omega) (by omega) e
      have := List.mem_range.mp hi
      omega
    have huv : t n ≠ t (n + 1) := fun h => by
      have := ht n (n + 1) (by omega) (by omega) h
      omega
    have hQall : ∀ b, Q (flipAll ((List.range (n + 1)).map t) b) = Q b := by
      intro b
      suffices h : ∀ (l : List Nat), (∀ i ∈ l, i ≤ n + 1) → ∀ b, Q (flipAll (l.map t) b) = Q b from
        h _ (fun i hi => by have := List.mem_range.mp hi; omega) b
      intro l
      induction l with
      | nil => intro _ b; rfl
      | cons w l ihl =>
        intro hl b
        rw [List.map_cons, flipAll_cons, ihl (fun i hi => hl i (List.mem_cons_of_mem _ hi)),
          hQ b w (hl w List.mem_cons_self)]
    have e1 : (chainL t (n + 1) : Circ Θ) = [G.cx (t n) (t (n + 1))] ++ chainL t n := rfl
    have e2 : (chainR t (n + 1) : Circ Θ) = chainR t n ++ [G.cx (t n) (t (n + 1))] := rfl
    rw [e1, e2, sem_append, sem_append, sem_single, sem_single, ih']
    funext b
    have hr : List.range (n + 1 + 1) = List.range (n + 1) ++ [n + 1] := List.range_succ
    simp only [denote_cx, condFlipAll, hr, List.map_append, List.map_cons, List.map_nil,
      flipAll_append, flipAll_cons, flipAll_nil, hQ b (n + 1) (by omega),
      flipAll_get _ hnd _ (t n), hu, if_true, flipBit_ne _ huv, flipAll_flipBit, flipBit_flipBit]
    by_cases h1 : Q b = true <;> by_cases h2 : b (t n) = true <;> simp [h1, h2]

/-- A list of `cx` on wires that a signed relabelling does not see commutes with it. -/
theorem cxs_sp_comm (σ : Bits → R) (π : Bits → Bits) (K : Circ Θ)
    (hK : ∀ g ∈ K, ∃ u v, g = G.cx u v ∧ FreeAt u σ π ∧ FreeAt v σ π) (ψ : State R) :
    sem K (sp σ π ψ) = sp σ π (sem K ψ) := by
  induction K generalizing ψ with
  | nil => rfl
  | cons g K ih =>
    obtain ⟨u, v, rfl, hu, hv⟩ := hK _ List.mem_cons_self
    have e : ∀ φ : State R, sem (G.cx u v :: K) φ = sem K (denote (G.cx u v : G Θ) φ) :=
      fun _ => rfl
    rw [e, e, cx_sp_comm σ π u v hu hv, ih (fun g hg => hK g (List.mem_cons_of_mem _ hg))]

omit [CommRing R] [RotSem Θ R] in
theorem chainR_mem (t : Nat → Nat) (n : Nat) (g : G Θ) (hg : g ∈ (chainR t n : Circ Θ)) :
    ∃ i, i < n ∧ g = G.cx (t i) (t (i + 1)) := by
  induction n with
  | zero => simp [chainR] at hg
  | succ n ih =>
    simp only [chainR, List.mem_append, List.mem_singleton] at hg
    rcases hg with h | h
    · obtain ⟨i, hi, e⟩ := ih h
      exact ⟨i, by omega, e⟩
    · exact ⟨n, by omega, h⟩

/-! ### One `cx` per target (the one-control branch) -/

theorem cx_fan_sem (c0 : Nat) (t : Nat → Nat) (n : Nat)
    (hct : ∀ i, i < n → c0 ≠ t i) (ψ : State R) :
    sem ((List.range n).map (fun j => (G.cx c0 (t j) : G Θ))) ψ
      = condFlipAll (fun b => b c0) ((List.range n).map t) ψ := by
  induction n with
  | zero =>
    funext b
    simp [sem_nil, condFlipAll, flipAll]
  | succ n ih =>
    rw [List.range_succ, List.map_append, sem_append, ih (fun i hi => hct i (by omega))]
    funext b
    simp only [List.map_cons, List.map_nil, sem_single, denote_cx, condFlipAll, List.map_append,
      flipAll_append, flipAll_cons, flipAll_nil, flipBit_ne _ (hct n (by omega)),
      flipAll_flipBit]
    by_cases h : b c0 = true <;> simp [h]

/-! ### Lists of `x` gates -/

theorem xs_sem (l : List Nat) (ψ : State R) :
    sem (l.map (fun w => (G.x w : G Θ))) ψ = fun b => ψ (flipAll l b) := by
  induction l generalizing ψ with
  | nil => rfl
  | cons w l ih =>
    have e : sem ((w :: l).map (fun w => (G.x w : G Θ))) ψ
        = sem (l.map (fun w => (G.x w : G Θ))) (denote (G.x w : G Θ) ψ) := rfl
    rw [e, ih]
    funext b
    rw [denote_x, flipAll_cons, flipAll_flipBit]

end
end Qclib
