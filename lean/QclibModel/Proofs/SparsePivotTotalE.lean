import QclibModel.Proofs.SparsePivotTotalD
/-
  C06 — PivotInitialize, whole circuit (part E): the `while index_nonzero is not None` loop.
  It terminates within `m` passes, never fails to find a free index, and its accumulated gate list
  (mapped to the final wires and reversed) is the relabelling by the forward composition `P` of the
  steps, which relabels the key carried by a label exactly as the dictionary bookkeeping `F` does.
-/
namespace Qclib.Sparse
open Qclib

section
variable {Θ R : Type} [CommRing R] [RotSem Θ R]

/-- What the loop needs from the gates of one `_pivoting` call (wire map `r`; `cl` = "the
auxiliary wires are clean", `True` without auxiliaries). -/
def StepSem (iu : R) (dn : List Nat → List (Amp Θ) → State R → State R) (r : Nat → Nat)
    (n t : Nat) (aux : Bool) (cl : Bits → Prop) : Prop :=
  ∀ (nz zero : Str) (st : Dict Θ), nz.length = n → zero.length = n → inLow n t zero →
    ¬ inLow n t nz →
    ∃ P : Bits → Bits,
      PermCirc iu dn (((pivoting n t aux nz zero st).1.map (SG.mapWires r)).reverse) P ∧
      (∀ b, cl b → keyOf r n (P b)
        = nextKey (pvDiffer n t nz zero) (bitAt nz (pvDiffer n t nz zero)) (pvTcx n t nz zero)
            (n - t) zero (keyOf r n b)) ∧
      (∀ b w, (∀ i, i < n → r i ≠ w) → P b w = b w)

theorem pv_mapKeys_mapKeys {α : Type} (f g : Str → Str) (st : Dict α) :
    (st.mapKeys f).mapKeys g = st.mapKeys (fun s => g (f s)) := by
  simp [Dict.mapKeys, List.map_map, Function.comp_def]

theorem mapKeys_id' {α : Type} (st : Dict α) : st.mapKeys (fun s => s) = st := by
  simp [Dict.mapKeys]

theorem highCount_pos_of_nz {α : Type} (pre : Nat) (st : Dict α) (nz : Str)
    (h : getIndexNz pre st = some nz) : 0 < highCount pre st := by
  rw [getIndexNz_eq] at h
  unfold highCount
  rw [List.countP_pos_iff]
  exact ⟨nz, List.mem_of_find?_eq_some h, List.find?_some h⟩

/-- **the loop**: for every tracked dictionary of `m` distinct `n`-character keys and enough fuel
the loop returns; the result has no key outside the low block, is the relabelling of the input by
an injective length-preserving `F`, and the emitted gates realise `F` on labels. -/
theorem pivotLoop_total (iu : R) (dn : List Nat → List (Amp Θ) → State R → State R)
    (r : Nat → Nat) (n t m : Nat) (aux : Bool) (cl : Bits → Prop)
    (hcl : ∀ b b' : Bits, (∀ w, (∀ i, i < n → r i ≠ w) → b' w = b w) → cl b → cl b')
    (hstep : StepSem iu dn r n t aux cl)
    (ht : 1 ≤ t) (hm : m ≤ 2 ^ t) (htm : t ≤ m) :
    ∀ (fuel : Nat) (st : Dict Θ) (g : List (SG Θ)) (e : List (PStep Θ)), PInv n m st →
      highCount (n - t) st ≤ fuel →
      ∃ (st' : Dict Θ) (gs : List (SG Θ)) (es : List (PStep Θ)) (F : Str → Str) (P : Bits → Bits),
        pivotLoop n t m aux fuel st g e = some (st', g ++ gs, e ++ es) ∧
        getIndexNz (n - t) st' = none ∧ st' = st.mapKeys F ∧ PInv n m st' ∧
        (∀ s1 s2 : Str, s1.length = n → s2.length = n → F s1 = F s2 → s1 = s2) ∧
        (∀ s : Str, s.length = n → (F s).length = n) ∧
        PermCirc iu dn ((gs.map (SG.mapWires r)).reverse) P ∧
        (∀ b, cl b → keyOf r n (P b) = F (keyOf r n b)) ∧
        (∀ b w, (∀ i, i < n → r i ≠ w) → P b w = b w) := by
  intro fuel
  induction fuel with
  | zero =>
    intro st g e hinv hfuel
    cases hnz : getIndexNz (n - t) st with
    | some nz => have := highCount_pos_of_nz _ _ _ hnz; omega
    | none =>
      refine ⟨st, [], [], fun s => s, fun b => b, ?_, hnz, (mapKeys_id' st).symm, hinv,
        fun _ _ _ _ h => h, fun _ h => h, PermCirc.nil iu dn, fun _ _ => rfl, fun _ _ _ => rfl⟩
      unfold pivotLoop
      simp [hnz]
  | succ fuel ih =>
    intro st g e hinv hfuel
    cases hnz : getIndexNz (n - t) st with
    | none =>
      refine ⟨st, [], [], fun s => s, fun b => b, ?_, hnz, (mapKeys_id' st).symm, hinv,
        fun _ _ _ _ h => h, fun _ h => h, PermCirc.nil iu dn, fun _ _ => rfl, fun _ _ _ => rfl⟩
      unfold pivotLoop
      simp [hnz]
    | some nz =>
      obtain ⟨htn, hnzmem, hnzlen, hnlow, zero, hzero, hzlen, hzlow, hzfree⟩ :=
        step_indices n t m ht hm htm st hinv nz hnz
      obtain ⟨hinv1, hdec⟩ := step_inv n t m aux st hinv nz zero hnzmem hnzlen hnlow hzlen hzlow hzfree
      obtain ⟨P1, hP1, hkey1, hout1⟩ := hstep nz zero st hnzlen hzlen hzlow hnlow
      obtain ⟨st', gs, es, F, P, hloop, hexit, hst', hinv', hFinj, hFlen, hP, hkey, hout⟩ :=
        ih (pivoting n t aux nz zero st).2.st (g ++ (pivoting n t aux nz zero st).1)
          (e ++ [(pivoting n t aux nz zero st).2]) hinv1 (by omega)
      have hsp := pvDiffer_spec n t nz zero hzlow hnlow
      have hdt : pvDiffer n t nz zero ∉ pvTcx n t nz zero := by
        intro h; exact ((mem_pvTcx n t nz zero hsp.1 _).mp h).2.1 rfl
      refine ⟨st', (pivoting n t aux nz zero st).1 ++ gs, [(pivoting n t aux nz zero st).2] ++ es,
        fun s => F (nextKey (pvDiffer n t nz zero) (bitAt nz (pvDiffer n t nz zero))
          (pvTcx n t nz zero) (n - t) zero s), fun b => P (P1 b), ?_, hexit, ?_, hinv', ?_, ?_, ?_, ?_, ?_⟩
      · rw [pivotLoop]
        simp only [hnz, hzero]
        rw [hloop, List.append_assoc, List.append_assoc]
      · rw [hst', pivoting_st, nextState, pv_mapKeys_mapKeys]
      · intro s1 s2 h1 h2 hF
        have hl : ∀ s : Str, s.length = n → (nextKey (pvDiffer n t nz zero)
            (bitAt nz (pvDiffer n t nz zero)) (pvTcx n t nz zero) (n - t) zero s).length = n := by
          intro s hs; rw [nextKey_length _ _ _ _ _ _ (by omega), hs]
        have := hFinj _ _ (hl s1 h1) (hl s2 h2) hF
        exact nextKey_injective _ _ _ _ _ s1 s2 hsp.1 (by omega) (by omega) hdt this
      · intro s hs
        apply hFlen
        rw [nextKey_length _ _ _ _ _ _ (by omega), hs]
      · rw [List.map_append, List.reverse_append]
        exact PermCirc.append hP hP1
      · intro b hb
        show keyOf r n (P (P1 b)) = _
        rw [hkey (P1 b) (hcl b (P1 b) (fun w hw => hout1 b w hw) hb), hkey1 b hb]
      · intro b w hw
        show P (P1 b) w = b w
        rw [hout (P1 b) w hw, hout1 b w hw]

end
end Qclib.Sparse
