import QclibModel.Proofs.McxAoChain
import QclibModel.Proofs.McxLinear
/-
  C05/C04: `LinearMcx(k, ctrl_state, action_only=True)`.

  For `k ≤ 5` controls the hard-coded branches ignore the flag.  For `k ≥ 6` the circuit is
  `G1 ; G2 ; G1 ; G2'` with `G2'` the *action-only* V-chain of the second half of the controls and
  the ancilla onto the target, borrowing first-half controls: by `body_ao` it denotes
  `S ∘ G2` with `S` the placed sweep, so the whole circuit denotes `S ∘ MCX`, its inverse
  `MCX ∘ S`, and `S` sees no wire `≥ k` (target `k`, ancilla `k+1`, spectators).
-/
set_option linter.unusedSectionVars false

namespace Qclib
open RotSem Mcsu

section layouts
variable (k : Nat) (hk : 6 ≤ k)
include hk

/-- The wire layout of the first (relative-phase) sub-chain of the split. -/
theorem lin_L1 : VLayout (linK1 k) 1 (fun i => (linW1 k).getD i 0)
    (fun i => (linW1 k).getD (linK1 k + i) 0)
    (fun i => (linW1 k).getD (linK1 k + (linK1 k - 2) + i) 0) := by
  have h2 : linK2 k = (k + 3) / 2 := rfl
  have h1 : linK1 k = k - (k + 3) / 2 + 1 := rfl
  constructor
  · intro i j hi hj h
    simp only [w1_c k hk i hi, w1_c k hk j hj] at h
    exact h
  · intro i j hi hj h
    simp only [w1_a k hk i hi, w1_a k hk j hj] at h
    omega
  · intro i j hi hj _
    omega
  · intro i j hi hj
    simp only [w1_c k hk i hi, w1_a k hk j hj]
    omega
  · intro i j hi hj
    have hj0 : j = 0 := by omega
    subst hj0
    simp only [w1_c k hk i hi, w1_t k hk]
    omega
  · intro i j hi hj
    have hj0 : j = 0 := by omega
    subst hj0
    simp only [w1_a k hk i hi, w1_t k hk]
    omega

theorem lin_c2 (i : Nat) (hi : i < linK2 k) :
    (linW2 k).getD i 0 = if i < linK2 k - 1 then linK1 k + i else k + 1 := by
  by_cases h : i < linK2 k - 1
  · simp only [if_pos h, w2_c k hk i h]
  · have : i = linK2 k - 1 := by omega
    subst this
    simp only [if_neg h, w2_c' k hk]

/-- The wire layout of the second (exact / action-only) sub-chain of the split. -/
theorem lin_L2 : VLayout (linK2 k) 1 (fun i => (linW2 k).getD i 0)
    (fun i => (linW2 k).getD (linK2 k + i) 0)
    (fun i => (linW2 k).getD (linK2 k + (linK2 k - 2) + i) 0) := by
  have h2 : linK2 k = (k + 3) / 2 := rfl
  have h1 : linK1 k = k - (k + 3) / 2 + 1 := rfl
  constructor
  · intro i j hi hj h
    simp only [lin_c2 k hk i hi, lin_c2 k hk j hj] at h
    split at h <;> split at h <;> omega
  · intro i j hi hj h
    simp only [w2_a k hk i hi, w2_a k hk j hj] at h
    omega
  · intro i j hi hj _
    omega
  · intro i j hi hj
    simp only [lin_c2 k hk i hi]
    simp only [w2_a k hk j hj]
    split <;> omega
  · intro i j hi hj
    have hj0 : j = 0 := by omega
    subst hj0
    simp only [lin_c2 k hk i hi]
    simp only [w2_t k hk]
    split <;> omega
  · intro i j hi hj
    have hj0 : j = 0 := by omega
    subst hj0
    simp only [w2_a k hk i hi, w2_t k hk]
    omega

end layouts

section place
variable {Θ : Type} (o : McxAngles Θ)

theorem place_linSub (kk : Nat) (rp ao : Bool) (ws : List Nat) :
    place (linSub o kk rp ao) ws
      = vchainBody o kk 1 (fun i => ws.getD i 0) (fun i => ws.getD (kk + i) 0)
          (fun i => ws.getD (kk + (kk - 2) + i) 0) rp ao := by
  simp only [place, linSub, vchainBody_map]

theorem linearBody_small_ao (k : Nat) (hk5 : k ≤ 5) (ao : Bool) :
    linearBody o k ao = linearBody o k false := by
  have : k = 0 ∨ k = 1 ∨ k = 2 ∨ k = 3 ∨ k = 4 ∨ k = 5 := by omega
  rcases this with rfl | rfl | rfl | rfl | rfl | rfl <;> rfl

/-- Every gate of `LinearMcx._define` is well formed and in the alphabet of `invCirc`. -/
theorem ok_linearBody (k : Nat) (hk : 1 ≤ k) (ao : Bool) : OkC (linearBody o k ao) := by
  by_cases h5 : k ≤ 5
  · rw [linearBody_small_ao o k h5 ao]
    have : k = 1 ∨ k = 2 ∨ k = 3 ∨ k = 4 ∨ k = 5 := by omega
    rcases this with rfl | rfl | rfl | rfl | rfl
    · have e : linearBody o 1 false = [G.cx 0 1] := rfl
      rw [e]; intro g hg; simp only [List.mem_singleton] at hg; subst hg; rfl
    · have e : linearBody o 2 false = [G.ccx 0 1 2] := rfl
      rw [e]; intro g hg; simp only [List.mem_singleton] at hg; subst hg; rfl
    · have e : linearBody o 3 false = [G.mcx [0, 1, 2] 3] := rfl
      rw [e]; intro g hg; simp only [List.mem_singleton] at hg; subst hg; rfl
    · have e : linearBody o 4 false = [G.mcx [0, 1, 2, 3] 4] := rfl
      rw [e]; intro g hg; simp only [List.mem_singleton] at hg; subst hg; rfl
    · have e : linearBody o 5 false
          = [G.mcx [0, 1, 2] 6, G.mcx [3, 4, 6] 5, G.mcx [0, 1, 2] 6, G.mcx [3, 4, 6] 5] := rfl
      rw [e]; intro g hg
      simp only [List.mem_cons, List.not_mem_nil, or_false] at hg
      rcases hg with rfl | rfl | rfl | rfl <;> rfl
  · have hk6 : 6 ≤ k := by omega
    have h2 : linK2 k = (k + 3) / 2 := rfl
    have h1 : linK1 k = k - (k + 3) / 2 + 1 := rfl
    rw [linearBody_big o k hk6 ao]
    simp only [place_linSub]
    have o1 := ok_body o _ _ _ _ _ (lin_L1 k hk6) (by omega) (by omega) true false
    have o2 := fun ao' => ok_body o _ _ _ _ _ (lin_L2 k hk6) (by omega) (by omega) false ao'
    exact ((o1.append (o2 false)).append o1).append (o2 ao)

theorem ok_linearMcx (k : Nat) (cs : Option (List Bool)) (ao : Bool) (circ : Circ Θ)
    (h : linearMcx o k cs ao = some circ) : OkC circ := by
  simp only [linearMcx] at h
  split at h
  · exact absurd h (by simp)
  · rename_i hk
    split at h
    · exact absurd h (by simp)
    · rename_i xs hxs
      simp only [Option.some.injEq] at h
      subst h
      obtain ⟨rfl, -⟩ := ctrlXs_eq k (fun i => i) cs xs hxs
      have hx : OkC ((csFlips (fun i => i) cs).map (fun w => (G.x w : G Θ))) := by
        apply OkC.map; intro i _; rfl
      exact (hx.append (ok_linearBody o k (by omega) ao)).append hx

end place

section main
variable {Θ R : Type} [CommRing R] [RotSem Θ R] (o : McxAngles Θ) (hp : Pi8 R o)
include hp

/-- `LinearMcx._define` with `action_only=True`, no `ctrl_state`: the ideal MCX followed by an
involutive signed relabelling that sees no wire `≥ k`. -/
theorem linearBody_ao (k : Nat) (hk : 1 ≤ k) :
    ∃ (σ : Bits → R) (π : Bits → Bits),
      (∀ ψ : State R, sem (linearBody o k true) ψ
        = sp σ π (condFlipAll (all1 (fun i => i) k) [k] ψ))
      ∧ Invol σ π ∧ ∀ q, k ≤ q → FreeAt q σ π := by
  by_cases h5 : k ≤ 5
  · refine ⟨fun _ => 1, fun b => b, fun ψ => ?_, (aoInv_id 0 id id).invol,
      fun q _ => ⟨fun _ _ => rfl, fun _ _ => rfl⟩⟩
    rw [linearBody_small_ao o k h5 true, sp_id, linear_body o hp k hk]
  · have hk6 : 6 ≤ k := by omega
    have h2 : linK2 k = (k + 3) / 2 := rfl
    have h1 : linK1 k = k - (k + 3) / 2 + 1 := rfl
    obtain ⟨σ, π, hsem, hinv⟩ := body_ao (R := R) o hp (linK2 k) 1 (by omega) (by omega) _ _ _
      (lin_L2 k hk6)
    have hex := body_exact (R := R) o hp (linK2 k) 1 (by omega) (by omega) _ _ _ (lin_L2 k hk6)
      false (Or.inl rfl)
    refine ⟨σ, π, fun ψ => ?_, hinv.invol, fun q hq => ?_⟩
    · have hb := linear_big o hp k hk6 ψ
      rw [linearBody_big o k hk6 false] at hb
      rw [linearBody_big o k hk6 true]
      simp only [sem_append, place_linSub] at hb ⊢
      rw [hsem, ← hb, hex, hex]
    · apply hinv.free
      · intro i hi
        rw [w2_c k hk6 i (by omega)]
        omega
      · intro i hi
        rw [w2_a k hk6 i hi]
        omega

end main

section final
variable {Θ R : Type} [CommRing R] [RotSem Θ R]

/-- Forward half of `linear_action_only` (needs only `Pi8`). -/
theorem linear_action_only_fwd (o : McxAngles Θ) (hp : Pi8 R o) (k : Nat)
    (cs : Option (List Bool)) (circ : Circ Θ) (h : linearMcx o k cs true = some circ) :
    ∃ (σ : Bits → R) (π : Bits → Bits),
      (∀ ψ : State R, sem circ ψ = sp σ π (mcxIdeal (patLits k (fun i => i) cs) [k] ψ))
      ∧ Invol σ π ∧ ∀ q, k ≤ q → FreeAt q σ π := by
  simp only [linearMcx] at h
  split at h
  · exact absurd h (by simp)
  · rename_i hk
    split at h
    · exact absurd h (by simp)
    · rename_i xs hxs
      simp only [Option.some.injEq] at h
      subst h
      obtain ⟨σ, π, hbody, hinv, hfree⟩ := linearBody_ao (R := R) o hp k (by omega)
      exact ⟨_, _, fun ψ => ctrl_ao k (fun i => i) cs [k] xs _ hxs (fun i j _ _ e => e) σ π hbody ψ,
        conj_invol _ σ π hinv, fun q hq => conj_free _ σ π q (hfree q hq)⟩

omit [RotSem Θ R] in
theorem mcxIdeal_lin_invol (k : Nat) (cs : Option (List Bool)) (ψ : State R) :
    mcxIdeal (patLits k (fun i => i) cs) [k] (mcxIdeal (patLits k (fun i => i) cs) [k] ψ) = ψ := by
  apply Mcsu.mcxIdeal_invol
  intro cv hcv hmem
  simp only [patLits, List.mem_map, List.mem_range] at hcv
  obtain ⟨i, hi, rfl⟩ := hcv
  simp only [List.mem_singleton] at hmem
  omega

variable [AddCommGroup Θ] [RotLaws Θ R]

/-- **C05 (`LinearMcx`, `action_only=True`).**  For every `k ≥ 1` controls (wires `0..k-1`, target
`k`, dirty ancilla `k+1`) and every accepted `ctrl_state`, `LinearMcx(k, ctrl_state,
action_only=True).definition` equals on every state the ideal MCX followed by a signed relabelling
`S = sp σ π`, and its `.inverse()` equals `S` followed by the ideal MCX; `S` is an involution that
neither reads nor writes the target `k`, the ancilla `k+1` or any wire above (it permutes labels of
borrowed *control* wires only; for `k ≤ 5` it is the identity). -/
theorem linear_action_only (o : McxAngles Θ) (hp : Pi8 R o) (k : Nat) (cs : Option (List Bool))
    (circ : Circ Θ) (h : linearMcx o k cs true = some circ) :
    ∃ (σ : Bits → R) (π : Bits → Bits),
      (∀ ψ : State R, sem circ ψ = sp σ π (mcxIdeal (patLits k (fun i => i) cs) [k] ψ))
      ∧ (∀ ψ : State R, sem (Circ.inv circ) ψ
          = mcxIdeal (patLits k (fun i => i) cs) [k] (sp σ π ψ))
      ∧ Invol σ π ∧ ∀ q, k ≤ q → FreeAt q σ π := by
  obtain ⟨σ, π, hsem, hinv, hfree⟩ := linear_action_only_fwd (R := R) o hp k cs circ h
  refine ⟨σ, π, hsem, fun ψ => ?_, hinv, hfree⟩
  exact inv_of_SP circ (ok_linearMcx o k cs true circ h).wf (sp σ π)
    (mcxIdeal (patLits k (fun i => i) cs) [k]) (sp_invol σ π hinv.invπ hinv.invσ)
    (mcxIdeal_lin_invol k cs) hsem ψ

/-- The "dirt" form used by `lmBracket_of_dirt` and by Qdmcu: operators `D`, `Dinv` with
`circ = D ∘ MCX`, `circ⁻¹ = MCX ∘ Dinv`, `Dinv ∘ D = id = D ∘ Dinv`, and `D` commutes with every
multi-controlled one-qubit gate all of whose wires are `≥ k` — in particular with a gate on the
target controlled by the ancilla and with a gate on the ancilla controlled by the target. -/
theorem linear_action_only_dirt (o : McxAngles Θ) (hp : Pi8 R o) (k : Nat)
    (cs : Option (List Bool)) (circ : Circ Θ) (h : linearMcx o k cs true = some circ) :
    ∃ D : State R → State R,
      (∀ ψ, sem circ ψ = D (mcxIdeal (patLits k (fun i => i) cs) [k] ψ))
      ∧ (∀ ψ, sem (Circ.inv circ) ψ = mcxIdeal (patLits k (fun i => i) cs) [k] (D ψ))
      ∧ (∀ ψ, sem (invCirc (fun x : Θ => -x) circ) ψ
          = mcxIdeal (patLits k (fun i => i) cs) [k] (D ψ))
      ∧ (∀ φ, D (D φ) = φ)
      ∧ (∀ (lits : List (Nat × Bool)) (B : Mat2 R) (t : Nat), k ≤ t → (∀ cv ∈ lits, k ≤ cv.1) →
          ∀ φ, D (applyMcu lits B t φ) = applyMcu lits B t (D φ))
      ∧ (∀ (B : Mat2 R) (v : Bool) φ,
          D (applyMcu [(k + 1, v)] B k φ) = applyMcu [(k + 1, v)] B k (D φ))
      ∧ (∀ (B : Mat2 R) (v : Bool) φ,
          D (applyMcu [(k, v)] B (k + 1) φ) = applyMcu [(k, v)] B (k + 1) (D φ)) := by
  obtain ⟨σ, π, hsem, hinvs, hinv, hfree⟩ := linear_action_only (R := R) o hp k cs circ h
  have hcomm : ∀ (lits : List (Nat × Bool)) (B : Mat2 R) (t : Nat), k ≤ t →
      (∀ cv ∈ lits, k ≤ cv.1) →
      ∀ φ, sp σ π (applyMcu lits B t φ) = applyMcu lits B t (sp σ π φ) := by
    intro lits B t ht hl φ
    exact (applyMcu_sp_comm σ π lits B t (hfree t ht) (fun cv hcv => hfree _ (hl cv hcv)) φ).symm
  refine ⟨sp σ π, hsem, hinvs, ?_, sp_invol σ π hinv.invπ hinv.invσ, hcomm, ?_, ?_⟩
  · rw [invCirc_eq_inv circ (ok_linearMcx o k cs true circ h)]
    exact hinvs
  · intro B v φ
    exact hcomm _ B k (Nat.le_refl k) (by intro cv hcv; simp at hcv; subst hcv; simp) φ
  · intro B v φ
    exact hcomm _ B (k + 1) (by omega) (by intro cv hcv; simp at hcv; subst hcv; simp) φ

end final

/-! ### Non-vacuity -/

/-- `LinearMcx` with nine controls (split branch: `k_1 = 4`, `k_2 = 6`, the action-only chain
borrows the controls `0..3`), a pattern, over `ℂ` with the real angles. -/
example : ∃ circ, linearMcx realAngles 9 (some (parseCs "110100101")) true = some circ ∧
    ∃ (σ : Bits → ℂ) (π : Bits → Bits),
      (∀ ψ : State ℂ, sem circ ψ
        = sp σ π (mcxIdeal (patLits 9 (fun i => i) (some (parseCs "110100101"))) [9] ψ))
      ∧ (∀ ψ : State ℂ, sem (Circ.inv circ) ψ
        = mcxIdeal (patLits 9 (fun i => i) (some (parseCs "110100101"))) [9] (sp σ π ψ))
      ∧ Invol σ π ∧ ∀ q, 9 ≤ q → FreeAt q σ π := by
  refine ⟨_, rfl, ?_⟩
  exact linear_action_only (R := ℂ) realAngles pi8_real 9 _ _ rfl

end Qclib
