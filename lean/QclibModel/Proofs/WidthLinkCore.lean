import QclibModel.Spec.Placement
import QclibModel.Model.Widths
/-
  C15 link — generic vocabulary: "every gate of a gate list only touches wires below `n`"
  (`Below`) and "wire `w` is touched by some gate" (`Uses`), for any gate type given its
  executable `wiresOf : γ → List Nat`.  For the shared alphabet `G Θ` the function is the existing
  `G.wires` (Spec/Placement.lean) — the one the hypothesis of `C15_place` speaks about.
  Core Lean only.
-/
namespace Qclib
namespace WL

variable {γ : Type}

/-- Every wire of every gate is `< n`. -/
def Below (wiresOf : γ → List Nat) (n : Nat) (c : List γ) : Prop :=
  ∀ g ∈ c, ∀ w ∈ wiresOf g, w < n

/-- Some gate touches wire `w`. -/
def Uses (wiresOf : γ → List Nat) (w : Nat) (c : List γ) : Prop :=
  ∃ g ∈ c, w ∈ wiresOf g

instance (wo : γ → List Nat) (n : Nat) (c : List γ) : Decidable (Below wo n c) := by
  unfold Below; infer_instance

instance (wo : γ → List Nat) (w : Nat) (c : List γ) : Decidable (Uses wo w c) := by
  unfold Uses; infer_instance

/-- Executable list of all wires mentioned by a gate list. -/
def allWires (wiresOf : γ → List Nat) (c : List γ) : List Nat := c.flatMap wiresOf

variable {wo : γ → List Nat} {n : Nat}

theorem below_nil : Below wo n [] := fun _ h => absurd h List.not_mem_nil

theorem below_append {a b : List γ} : Below wo n (a ++ b) ↔ Below wo n a ∧ Below wo n b := by
  constructor
  · intro h
    exact ⟨fun g hg => h g (List.mem_append_left _ hg), fun g hg => h g (List.mem_append_right _ hg)⟩
  · rintro ⟨ha, hb⟩ g hg
    rcases List.mem_append.mp hg with h | h
    · exact ha g h
    · exact hb g h

theorem below_cons {g : γ} {c : List γ} :
    Below wo n (g :: c) ↔ (∀ w ∈ wo g, w < n) ∧ Below wo n c := by
  constructor
  · intro h
    exact ⟨h g List.mem_cons_self, fun g' hg' => h g' (List.mem_cons_of_mem _ hg')⟩
  · rintro ⟨hg, hc⟩ g' hg'
    rcases List.mem_cons.mp hg' with rfl | h
    · exact hg
    · exact hc g' h

theorem below_singleton {g : γ} : Below wo n [g] ↔ ∀ w ∈ wo g, w < n := by
  rw [below_cons]; exact ⟨fun h => h.1, fun h => ⟨h, below_nil⟩⟩

theorem below_reverse {c : List γ} : Below wo n c.reverse ↔ Below wo n c := by
  unfold Below; simp only [List.mem_reverse]

theorem below_flatMap {α : Type} {l : List α} {f : α → List γ}
    (h : ∀ a ∈ l, Below wo n (f a)) : Below wo n (l.flatMap f) := by
  intro g hg
  obtain ⟨a, ha, hga⟩ := List.mem_flatMap.mp hg
  exact h a ha g hga

theorem below_map {α : Type} {l : List α} {f : α → γ}
    (h : ∀ a ∈ l, ∀ w ∈ wo (f a), w < n) : Below wo n (l.map f) := by
  intro g hg
  obtain ⟨a, ha, rfl⟩ := List.mem_map.mp hg
  exact h a ha

theorem below_ite {p : Prop} [Decidable p] {a b : List γ}
    (ha : p → Below wo n a) (hb : ¬p → Below wo n b) : Below wo n (if p then a else b) := by
  split
  · exact ha ‹_›
  · exact hb ‹_›

theorem below_mono {m : Nat} {c : List γ} (h : Below wo n c) (hnm : n ≤ m) : Below wo m c :=
  fun g hg w hw => Nat.lt_of_lt_of_le (h g hg w hw) hnm

theorem uses_append_left {w : Nat} {a : List γ} (b : List γ) (h : Uses wo w a) :
    Uses wo w (a ++ b) := by
  obtain ⟨g, hg, hw⟩ := h
  exact ⟨g, List.mem_append_left _ hg, hw⟩

theorem uses_append_right {w : Nat} (a : List γ) {b : List γ} (h : Uses wo w b) :
    Uses wo w (a ++ b) := by
  obtain ⟨g, hg, hw⟩ := h
  exact ⟨g, List.mem_append_right _ hg, hw⟩

theorem uses_cons_self {w : Nat} {g : γ} (c : List γ) (h : w ∈ wo g) : Uses wo w (g :: c) :=
  ⟨g, List.mem_cons_self, h⟩

theorem uses_cons_of {w : Nat} (g : γ) {c : List γ} (h : Uses wo w c) : Uses wo w (g :: c) := by
  obtain ⟨g', hg, hw⟩ := h
  exact ⟨g', List.mem_cons_of_mem _ hg, hw⟩

theorem uses_reverse {w : Nat} {c : List γ} : Uses wo w c.reverse ↔ Uses wo w c := by
  unfold Uses; simp only [List.mem_reverse]

theorem uses_flatMap {α : Type} {w : Nat} {l : List α} {f : α → List γ}
    {x : α} (hx : x ∈ l) (h : Uses wo w (f x)) : Uses wo w (l.flatMap f) := by
  obtain ⟨g, hg, hw⟩ := h
  exact ⟨g, List.mem_flatMap.mpr ⟨x, hx, hg⟩, hw⟩

/-- A wire that is used is below any bound that holds for the list. -/
theorem uses_lt {w : Nat} {c : List γ} (hb : Below wo n c) (hu : Uses wo w c) : w < n := by
  obtain ⟨g, hg, hw⟩ := hu
  exact hb g hg w hw

/-- No gate touches `w`. -/
theorem not_uses_of_below {w : Nat} {c : List γ} (hb : Below wo w c) : ¬ Uses wo w c :=
  fun hu => Nat.lt_irrefl _ (uses_lt hb hu)

/-! ### The shared alphabet `G Θ` -/

section G
variable {Θ : Type}

theorem wires_mapWires' (f : Nat → Nat) (g : G Θ) : (g.mapWires f).wires = g.wires.map f := by
  cases g <;> simp [G.mapWires, G.wires]

/-- Renaming: if `f` sends every wire of `c` below `n`, the renamed circuit is below `n`. -/
theorem below_mapWires {c : Circ Θ} {f : Nat → Nat} {m : Nat}
    (hc : Below G.wires m c) (hf : ∀ w, w < m → f w < n) :
    Below G.wires n (c.map (G.mapWires f)) := by
  intro g hg w hw
  obtain ⟨g', hg', rfl⟩ := List.mem_map.mp hg
  rw [wires_mapWires', List.mem_map] at hw
  obtain ⟨w', hw', rfl⟩ := hw
  exact hf w' (hc g' hg' w' hw')

theorem uses_mapWires {c : Circ Θ} {f : Nat → Nat} {w : Nat} (h : Uses G.wires w c) :
    Uses G.wires (f w) (c.map (G.mapWires f)) := by
  obtain ⟨g, hg, hw⟩ := h
  refine ⟨g.mapWires f, List.mem_map_of_mem hg, ?_⟩
  rw [wires_mapWires']
  exact List.mem_map_of_mem hw

end G

end WL
end Qclib
