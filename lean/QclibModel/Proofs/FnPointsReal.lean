import QclibModel.Proofs.FnPointsLoop
import QclibModel.Proofs.RotReal
import Mathlib.Analysis.SpecialFunctions.Trigonometric.Inverse
import Mathlib.Tactic.FieldSimp
/-
  C18, part 5: the code's angles over ℝ → ℂ.  `θ_p = -2·arccos √(p/(p+1))` gives
  `cos(θ_p/2) = √(p/(p+1))`, `sin(θ_p/2) = -√(1/(p+1))`; the generator carries `√(k/m)` when `k`
  points are still to come, hence every point receives `-(1/√m)·e^{2πi s/N'}`.
-/
namespace Qclib
open RotSem

/-- The parameters `_apply_smatrix` computes, as exact reals. -/
noncomputable def fnRealAngles (N' : Int) : FnAngles ℝ where
  theta p := -2 * Real.arccos (Real.sqrt ((p : ℝ) / ((p : ℝ) + 1)))
  lam s := -(s : ℝ) * 2 * Real.pi / (N' : ℝ)
  phi s := -(-(s : ℝ) * 2 * Real.pi / (N' : ℝ))
  zero := 0

theorem fnReal_frac (p : Nat) : 0 ≤ (p : ℝ) / ((p : ℝ) + 1) ∧ (p : ℝ) / ((p : ℝ) + 1) ≤ 1 := by
  have hp : (0 : ℝ) ≤ p := Nat.cast_nonneg p
  have hp1 : (0 : ℝ) < (p : ℝ) + 1 := by linarith
  refine ⟨div_nonneg hp hp1.le, ?_⟩
  rw [div_le_one hp1]; linarith

theorem fnReal_cs (N' : Int) (p : Nat) :
    (cs ((fnRealAngles N').theta p) : ℂ) = ((Real.sqrt ((p : ℝ) / ((p : ℝ) + 1)) : ℝ) : ℂ) := by
  show ((Real.cos ((-2 * Real.arccos (Real.sqrt ((p : ℝ) / ((p : ℝ) + 1)))) / 2) : ℝ) : ℂ) = _
  have h := fnReal_frac p
  rw [show (-2 * Real.arccos (Real.sqrt ((p : ℝ) / ((p : ℝ) + 1)))) / 2
      = -Real.arccos (Real.sqrt ((p : ℝ) / ((p : ℝ) + 1))) by ring,
    Real.cos_neg, Real.cos_arccos (by linarith [Real.sqrt_nonneg ((p : ℝ) / ((p : ℝ) + 1))])
      (Real.sqrt_le_one.mpr h.2)]

theorem fnReal_sn (N' : Int) (p : Nat) :
    (sn ((fnRealAngles N').theta p) : ℂ) = ((-(Real.sqrt (1 / ((p : ℝ) + 1))) : ℝ) : ℂ) := by
  show ((Real.sin ((-2 * Real.arccos (Real.sqrt ((p : ℝ) / ((p : ℝ) + 1)))) / 2) : ℝ) : ℂ) = _
  have h := fnReal_frac p
  have hp1 : ((p : ℝ) + 1) ≠ 0 := by
    have : (0 : ℝ) ≤ p := Nat.cast_nonneg p
    linarith
  rw [show (-2 * Real.arccos (Real.sqrt ((p : ℝ) / ((p : ℝ) + 1)))) / 2
      = -Real.arccos (Real.sqrt ((p : ℝ) / ((p : ℝ) + 1))) by ring,
    Real.sin_neg, Real.sin_arccos, Real.sq_sqrt h.1]
  congr 3
  field_simp
  ring

theorem fnReal_ex (N' : Int) (s : Int) :
    (ex ((fnRealAngles N').phi s) * ex ((fnRealAngles N').phi s) : ℂ)
      = Complex.exp (((2 * Real.pi * (s : ℝ) / (N' : ℝ) : ℝ) : ℂ) * Complex.I) := by
  show Complex.exp ((((-(-(s : ℝ) * 2 * Real.pi / (N' : ℝ))) / 2 : ℝ) : ℂ) * Complex.I)
      * Complex.exp ((((-(-(s : ℝ) * 2 * Real.pi / (N' : ℝ))) / 2 : ℝ) : ℂ) * Complex.I) = _
  rw [← Complex.exp_add]
  congr 1
  push_cast
  ring

theorem fnReal_zero (N' : Int) :
    (ex (fnRealAngles N').zero * ex (fnRealAngles N').zero : ℂ) = 1 := by
  show Complex.exp ((((0 : ℝ) / 2 : ℝ) : ℂ) * Complex.I)
      * Complex.exp ((((0 : ℝ) / 2 : ℝ) : ℂ) * Complex.I) = 1
  simp

theorem fnReal_cs0 (N' : Int) : (cs ((fnRealAngles N').theta 0) : ℂ) = 0 := by
  rw [fnReal_cs]
  simp

/-- The amplitude of the property. -/
noncomputable def fnTargetAmp (m : Nat) (N' : Int) (s : Int) : ℂ :=
  -(((Real.sqrt m)⁻¹ : ℝ) : ℂ)
    * Complex.exp (((2 * Real.pi * (s : ℝ) / (N' : ℝ) : ℝ) : ℂ) * Complex.I)

/-- With `k` points still to come the generator carries `√(k/m)`; the first listed point matching
`zf` then receives `-(1/√m)·e^{2πi s/N'}`. -/
theorem fnCoef_real (N' : Int) (n m : Nat) (l : List FnPoint) (hlen : l.length ≤ m)
    (hpw : l.Pairwise (fun p q => fnMatch n p.z q.z = false)) (zf : Nat → Bool)
    (p : FnPoint) (hp : p ∈ l) (hz : fnMatch n zf p.z = true) :
    fnCoef (fnRealAngles N') n (((Real.sqrt ((l.length : ℝ) / (m : ℝ))) : ℝ) : ℂ) l zf
      = fnTargetAmp m N' p.s := by
  induction l with
  | nil => cases hp
  | cons pt rest ih =>
    have hpw' := List.pairwise_cons.mp hpw
    have hm : (0 : ℝ) < m := by
      have : 0 < m := by
        have := hlen; simp only [List.length_cons] at this; omega
      exact_mod_cast this
    have hk : (0 : ℝ) ≤ (rest.length : ℝ) := Nat.cast_nonneg _
    have hk1 : (0 : ℝ) < (rest.length : ℝ) + 1 := by linarith
    unfold fnCoef
    rw [fnReal_ex, fnReal_sn, fnReal_cs]
    rcases List.mem_cons.mp hp with rfl | hp'
    · rw [if_pos hz]
      unfold fnTargetAmp
      have : Real.sqrt (1 / ((rest.length : ℝ) + 1))
          * Real.sqrt (((p :: rest).length : ℝ) / (m : ℝ)) = (Real.sqrt m)⁻¹ := by
        rw [← Real.sqrt_mul (by positivity), ← Real.sqrt_inv]
        congr 1
        simp only [List.length_cons, Nat.cast_add, Nat.cast_one]
        field_simp
      rw [← this]
      push_cast
      ring
    · have hne : fnMatch n zf pt.z = false := by
        cases hzp : fnMatch n zf pt.z
        · rfl
        · have := fnMatch_trans' n zf pt.z p.z hzp hz
          rw [hpw'.1 p hp'] at this; cases this
      rw [if_neg (by rw [hne]; exact Bool.false_ne_true)]
      have hgen : (((Real.sqrt ((rest.length : ℝ) / ((rest.length : ℝ) + 1)) : ℝ) : ℂ)
          * ((Real.sqrt (((pt :: rest).length : ℝ) / (m : ℝ)) : ℝ) : ℂ))
          = ((Real.sqrt ((rest.length : ℝ) / (m : ℝ)) : ℝ) : ℂ) := by
        rw [← Complex.ofReal_mul, ← Real.sqrt_mul (by positivity)]
        congr 2
        simp only [List.length_cons, Nat.cast_add, Nat.cast_one]
        field_simp
      rw [hgen]
      exact ih (by simp only [List.length_cons] at hlen; omega) hpw'.2 hp'

end Qclib
