import QclibModel.Proofs.BlackBoxAmp
import Mathlib.Algebra.BigOperators.Group.Finset.Basic
import Mathlib.Algebra.BigOperators.Ring.Finset
/-
  C19: the overlap fact `IsOverlap` — `U†·(flag-0 part of U|0…0⟩)` is supported on `ZeroAbove n`
  and its amplitude at `|0…0⟩` is `rh^{2n}·Σ_k cs(θ_k)²`.
-/
namespace Qclib
open RotSem BlackBox
set_option linter.unusedSectionVars false

section
variable {Θ R : Type} [AddCommGroup Θ] [CommRing R] [RotSem Θ R] [RotLaws Θ R]

/-! ### Support -/

/-- `χ` vanishes on every label with a wire above `n` set. -/
def SuppZA (n : Nat) (χ : State R) : Prop := ∀ b, ¬ ZeroAbove n b → χ b = 0

theorem not_za_setBit {n q : Nat} (hq : q ≤ n) (b : Bits) (v : Bool) (h : ¬ ZeroAbove n b) :
    ¬ ZeroAbove n (setBit b q v) := by
  intro hz; apply h; intro i hi
  have := hz i hi
  rwa [setBit_ne _ _ (by omega)] at this

theorem supp_mcu {n q : Nat} (hq : q ≤ n) (m : Mat2 R) (χ : State R) (hχ : SuppZA n χ) :
    SuppZA n (applyMcu [] m q χ) := by
  intro b hb
  simp only [applyMcu, ctrlOk, List.all_nil, if_true]
  rw [hχ _ (not_za_setBit hq b false hb), hχ _ (not_za_setBit hq b true hb)]
  split <;> ring

theorem supp_fam {n : Nat} (f : Bits → Mat2 R) (χ : State R) (hχ : SuppZA n χ) :
    SuppZA n (applyFam f 0 χ) := by
  intro b hb
  simp only [applyFam]
  rw [hχ _ (not_za_setBit (Nat.zero_le n) b false hb), hχ _ (not_za_setBit (Nat.zero_le n) b true hb)]
  split <;> ring

theorem supp_hLayerRev {n : Nat} (m : Nat) (hm : m ≤ n) (χ : State R) (hχ : SuppZA n χ) :
    SuppZA n (bsem (hLayerRev m : List (BG Θ)) χ) := by
  induction m generalizing χ with
  | zero => exact hχ
  | succ m ih =>
    rw [hLayerRev, bsem_cons]
    exact ih (by omega) _ (supp_mcu (by omega) _ χ hχ)

theorem supp_goodPart (n : Nat) (θ φ : Nat → Θ) : SuppZA n (goodPart n θ φ : State R) := by
  intro b hb
  have hb' : ¬ ∀ i, n < i → b i = false := hb
  simp only [goodPart, planeState, uState, if_neg hb']
  split <;> ring

/-! ### The reversed Hadamard layer at a label that is zero on wires `1..m` -/

/-- Write `k` (little-endian, `m` bits) on wires `1..m` of `b`. -/
def withIdx : Nat → Nat → Bits → Bits
  | 0, _, b => b
  | m+1, k, b => setBit (withIdx m (k % 2 ^ m) b) (m+1) (decide (2 ^ m ≤ k))

theorem withIdx_other (m k : Nat) (b : Bits) (i : Nat) (hi : i = 0 ∨ m < i) :
    withIdx m k b i = b i := by
  induction m generalizing k with
  | zero => rfl
  | succ m ih =>
    rw [withIdx, setBit_ne _ _ (by omega)]
    exact ih _ (by omega)

theorem ctrlIdx_setBit_above (m q : Nat) (hq : m < q) (b : Bits) (v : Bool) :
    ctrlIdx m (setBit b q v) = ctrlIdx m b := by
  induction m with
  | zero => rfl
  | succ m ih =>
    simp only [ctrlIdx]
    rw [ih (by omega), setBit_ne _ _ (by omega)]

theorem ctrlIdx_withIdx (m k : Nat) (hk : k < 2 ^ m) (b : Bits) :
    ctrlIdx m (withIdx m k b) = k := by
  induction m generalizing k with
  | zero => simp [ctrlIdx] at hk ⊢; omega
  | succ m ih =>
    have hp : 2 ^ (m+1) = 2 ^ m + 2 ^ m := by rw [pow_succ]; omega
    simp only [ctrlIdx, withIdx, setBit_eq]
    rw [ctrlIdx_setBit_above m (m+1) (Nat.lt_succ_self m)]
    by_cases h : 2 ^ m ≤ k
    · have hmod : k % 2 ^ m = k - 2 ^ m := by
        rw [Nat.mod_eq_sub_mod h, Nat.mod_eq_of_lt (by omega)]
      rw [ih _ (by rw [hmod]; omega), hmod]
      simp [h]
    · have hmod : k % 2 ^ m = k := Nat.mod_eq_of_lt (by omega)
      rw [ih _ (by rw [hmod]; omega), hmod]
      simp [h]

theorem denote_bh (q : Nat) (χ : State R) (b : Bits) (hb : b q = false) :
    bdenote (BG.h q : BG Θ) χ b
      = rh Θ * (χ (setBit b q false) + χ (setBit b q true)) := by
  simp only [bdenote, applyMcu, ctrlOk, List.all_nil, matH, if_true, hb, Bool.false_eq_true, if_false]
  ring

theorem hLayerRev_at (m : Nat) (χ : State R) (b : Bits)
    (hb : ∀ i, 1 ≤ i → i ≤ m → b i = false) :
    bsem (hLayerRev m : List (BG Θ)) χ b
      = rh Θ ^ m * ∑ k ∈ Finset.range (2 ^ m), χ (withIdx m k b) := by
  induction m generalizing χ with
  | zero => simp [hLayerRev, bsem_nil, withIdx]
  | succ m ih =>
    have hp : 2 ^ (m+1) = 2 ^ m + 2 ^ m := by rw [pow_succ]; omega
    rw [hLayerRev, bsem_cons, ih _ (fun i h1 h2 => hb i h1 (by omega)), hp, Finset.sum_range_add,
      pow_succ]
    have h1 : ∀ k ∈ Finset.range (2 ^ m),
        bdenote (BG.h (m+1) : BG Θ) χ (withIdx m k b)
          = rh Θ * (χ (withIdx (m+1) k b) + χ (withIdx (m+1) (2 ^ m + k) b)) := by
      intro k hk
      have hk' : k < 2 ^ m := Finset.mem_range.mp hk
      rw [denote_bh _ _ _ (by rw [withIdx_other m k b (m+1) (Or.inr (Nat.lt_succ_self m))];
                              exact hb (m+1) (by omega) (Nat.le_refl _))]
      have e0 : withIdx (m+1) k b = setBit (withIdx m k b) (m+1) false := by
        simp only [withIdx, Nat.mod_eq_of_lt hk']
        congr 1; simp; omega
      have e1 : withIdx (m+1) (2 ^ m + k) b = setBit (withIdx m k b) (m+1) true := by
        simp only [withIdx, Nat.add_mod_left, Nat.mod_eq_of_lt hk']
        congr 1; simp
      rw [e0, e1]
    rw [Finset.sum_congr rfl h1, ← Finset.mul_sum, Finset.sum_add_distrib]
    ring

/-! ### `U†·(good part)` -/

theorem dg_good_at (n : Nat) (θ φ : Nat → Θ) (b : Bits) (hz : ZeroAbove n b) (h0 : b 0 = false) :
    bsem [BG.ucrzDg n φ, BG.ucryDg n θ] (goodPart n θ φ : State R) b
      = rh Θ ^ n * (cs (θ (ctrlIdx n b)) * cs (θ (ctrlIdx n b))) := by
  have hz0 : ∀ i, n < i → setBit b 0 false i = false := by
    intro i hi; rw [setBit_ne _ _ (by omega)]; exact hz i hi
  have hz00 : ∀ i, n < i → setBit (setBit b 0 false) 0 false i = false := by
    rw [setBit_setBit]; exact hz0
  have hE : (exb (-(φ (ctrlIdx n b))) : R) * exb (φ (ctrlIdx n b)) = 1 := by
    rw [RotLaws.exb_eq, RotLaws.exb_eq, ← RotLaws.ex_add, neg_neg, add_neg_cancel, RotLaws.ex_zero]
  have hC : (cs (-(θ (ctrlIdx n b))) : R) = cs (θ (ctrlIdx n b)) := RotLaws.cs_neg _
  simp only [bsem_cons, bsem_nil, bdenote, muxIdeal, applyFam, rotMat, matRY, matRZ,
    ctrlIdx_setBit0, setBit_eq, setBit_setBit, goodPart, planeState, uState, h0, if_pos hz00,
    Bool.false_eq_true, if_false, if_true, hC]
  linear_combination (rh Θ ^ n * cs (θ (ctrlIdx n b)) * cs (θ (ctrlIdx n b))) * hE

theorem supp_dg_good (n : Nat) (θ φ : Nat → Θ) :
    SuppZA n (bsem [BG.ucrzDg n φ, BG.ucryDg n θ] (goodPart n θ φ : State R)) := by
  simp only [bsem_cons, bsem_nil, bdenote, muxIdeal]
  exact supp_fam _ _ (supp_fam _ _ (supp_goodPart n θ φ))

/-- **The overlap fact.**  If `Σ_{k<2^n} cs(θ_k)² = 1` (for the code's angles: `Σ|a_k|² = 1`), then
`I_s` acts on `U†·(good part)` as `I − 2·rh^{2n}·|0…0⟩⟨…|`. -/
theorem isOverlap (n : Nat) (θ φ : Nat → Θ)
    (hnorm : ∑ k ∈ Finset.range (2 ^ n), (cs (θ k) : R) * cs (θ k) = 1) :
    IsOverlap n θ φ (rh Θ ^ n * rh Θ ^ n : R) := by
  intro b
  rw [denote_is]
  have hW : bsem (gateUdg n θ φ) (goodPart n θ φ : State R)
      = bsem (hLayerRev n : List (BG Θ)) (bsem [BG.ucrzDg n φ, BG.ucryDg n θ] (goodPart n θ φ)) := by
    rw [gateUdg, bsem_append]
  rw [hW]
  by_cases hall : ∀ i, i ≤ n → b i = false
  · rw [if_pos hall]
    by_cases hz : ZeroAbove n b
    · have hzero : ∀ i, b i = false := by
        intro i
        by_cases hi : i ≤ n
        · exact hall i hi
        · exact hz i (by omega)
      have hδ : (zeroState : State R) b = 1 := by simp only [zeroState]; rw [if_pos hzero]
      rw [hδ, hLayerRev_at n _ b (fun i _ h2 => hall i h2)]
      have hterm : ∀ k ∈ Finset.range (2 ^ n),
          bsem [BG.ucrzDg n φ, BG.ucryDg n θ] (goodPart n θ φ : State R) (withIdx n k b)
            = rh Θ ^ n * (cs (θ k) * cs (θ k)) := by
        intro k hk
        have hk' : k < 2 ^ n := Finset.mem_range.mp hk
        rw [dg_good_at n θ φ _
          (fun i hi => by rw [withIdx_other n k b i (Or.inr hi)]; exact hz i hi)
          (by rw [withIdx_other n k b 0 (Or.inl rfl)]; exact hzero 0),
          ctrlIdx_withIdx n k hk']
      rw [Finset.sum_congr rfl hterm, ← Finset.mul_sum, hnorm]
      ring
    · have hδ : (zeroState : State R) b = 0 := by
        simp only [zeroState]; rw [if_neg]
        intro hzero; exact hz (fun i _ => hzero i)
      rw [hδ, supp_hLayerRev n (Nat.le_refl n) _ (supp_dg_good n θ φ) b hz]
      ring
  · rw [if_neg hall]
    have hδ : (zeroState : State R) b = 0 := by
      simp only [zeroState]; rw [if_neg]
      intro hzero; exact hall (fun i _ => hzero i)
    rw [hδ]; ring

end
end Qclib
