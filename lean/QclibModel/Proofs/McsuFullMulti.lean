import QclibModel.Proofs.McsuFullSpec
import QclibModel.Proofs.McsuMulti
/-
  C04 (part A): `MultiTargetMCSU2(...).definition` of the model, multi-target V-chains expanded to
  primitive gates, denotes "every target gets its own multi-controlled gate" — `C04_multitarget`
  with the ideal multi-target MCX replaced by the expanded `McxVchainDirty(k_i, num_target)` (and its
  `.inverse()`), via `vchain_on_list`; the Hadamard layers around the chain are pushed onto the
  individual targets.
-/
set_option linter.unusedSectionVars false
set_option linter.unusedSimpArgs false
namespace Qclib.Mcsu
open RotSem

section layers
variable {R : Type} [CommRing R]

theorem ctrlOk_flipAll (l : List (Nat × Bool)) (ts : List Nat) (h : ∀ cv ∈ l, cv.1 ∉ ts)
    (b : Bits) : ctrlOk l (flipAll ts b) = ctrlOk l b := by
  unfold ctrlOk
  apply all_congr_mem
  intro cv hcv
  rw [flipAll_get_not_mem ts b cv.1 (h cv hcv)]

theorem mcxIdeal_cons (l : List (Nat × Bool)) (t : Nat) (ts : List Nat)
    (h : ∀ cv ∈ l, cv.1 ∉ ts) (ψ : State R) :
    mcxIdeal l (t :: ts) ψ = mcxIdeal l ts (mcxIdeal l [t] ψ) := by
  funext b
  simp only [mcxIdeal, ctrlOk_flipAll l ts h, flipAll_cons, flipAll_nil, flipAll_flipBit]
  split <;> rfl

/-- The ideal multi-target MCX is the layer of one controlled X per target. -/
theorem mcxIdeal_layer (l : List (Nat × Bool)) (G : List (Tgt R))
    (hav : ∀ g ∈ G, Avoids l g.t) (ψ : State R) :
    mcxIdeal l (G.map (·.t)) ψ = layer (lx l G) ψ := by
  induction G generalizing ψ with
  | nil =>
    funext b
    simp [mcxIdeal, flipAll_nil, lx, layer]
  | cons g G ih =>
    have hav' : ∀ x ∈ G, Avoids l x.t := fun x hx => hav x (by simp [hx])
    rw [List.map_cons, mcxIdeal_cons l g.t _ (by
      intro cv hcv hm
      obtain ⟨x, hx, e⟩ := List.mem_map.mp hm
      exact hav' x hx cv hcv e.symm), ih hav', lx_cons, layer_cons, mcxIdeal_single,
      applyMcu_eq_fam]

/-- Three layers on the same duplicate-free wire list, regrouped wire by wire. -/
theorem layer3_regroup {α : Type} (P : List α) (w : α → Nat) (f1 f2 f3 : α → Bits → Mat2 R)
    (hnd : (P.map w).Nodup)
    (h1 : ∀ p ∈ P, ∀ q ∈ P, w p ≠ w q → TFree (w q) (f1 p))
    (h2 : ∀ p ∈ P, ∀ q ∈ P, w p ≠ w q → TFree (w q) (f2 p))
    (h3 : ∀ p ∈ P, ∀ q ∈ P, w p ≠ w q → TFree (w q) (f3 p)) (ψ : State R) :
    layer (P.map (fun p => (f3 p, w p))) (layer (P.map (fun p => (f2 p, w p)))
        (layer (P.map (fun p => (f1 p, w p))) ψ))
      = P.foldl (fun s p => applyFam (f3 p) (w p) (applyFam (f2 p) (w p) (applyFam (f1 p) (w p) s))) ψ := by
  induction P generalizing ψ with
  | nil => rfl
  | cons p P ih =>
    have hne : ∀ q ∈ P, w q ≠ w p := by
      intro q hq e
      have := (List.nodup_cons.mp (show (w p :: P.map w).Nodup from hnd)).1
      exact this (by rw [← e]; exact List.mem_map_of_mem hq)
    have hnd' : (P.map w).Nodup := (List.nodup_cons.mp (show (w p :: P.map w).Nodup from hnd)).2
    have comm : ∀ (f : Bits → Mat2 R) (fj : α → Bits → Mat2 R),
        (∀ q ∈ P, TFree (w q) f) → (∀ q ∈ P, TFree (w p) (fj q)) → ∀ φ,
        applyFam f (w p) (layer (P.map (fun q => (fj q, w q))) φ)
          = layer (P.map (fun q => (fj q, w q))) (applyFam f (w p) φ) := by
      intro f fj hf hfj φ
      apply applyFam_layer_comm
      intro g hg
      obtain ⟨q, hq, rfl⟩ := List.mem_map.mp hg
      exact ⟨hne q hq, hfj q hq, hf q hq⟩
    have a1 : ∀ q ∈ P, TFree (w q) (f1 p) := fun q hq => h1 p (by simp) q (by simp [hq]) (hne q hq).symm
    have a2 : ∀ q ∈ P, TFree (w q) (f2 p) := fun q hq => h2 p (by simp) q (by simp [hq]) (hne q hq).symm
    have a3 : ∀ q ∈ P, TFree (w q) (f3 p) := fun q hq => h3 p (by simp) q (by simp [hq]) (hne q hq).symm
    have b1 : ∀ q ∈ P, TFree (w p) (f1 q) := fun q hq => h1 q (by simp [hq]) p (by simp) (hne q hq)
    have b2 : ∀ q ∈ P, TFree (w p) (f2 q) := fun q hq => h2 q (by simp [hq]) p (by simp) (hne q hq)
    simp only [List.map_cons, layer_cons, List.foldl_cons]
    rw [comm _ f1 a2 b1, comm _ f2 a3 b2, comm _ f1 a3 b1]
    exact ih hnd' (fun x hx y hy => h1 x (by simp [hx]) y (by simp [hy]))
      (fun x hx y hy => h2 x (by simp [hx]) y (by simp [hy]))
      (fun x hx y hy => h3 x (by simp [hx]) y (by simp [hy])) _

theorem semSG_un_layer {K : Type} (ι : CMat K → Mat2 R) (rh : R) (M : McxSem R) {α : Type}
    (P : List α) (m : α → CMat K) (w : α → Nat) (ψ : State R) :
    semSG ι rh M (P.map (fun p => SG.un (m p) (w p))) ψ
      = layer (P.map (fun p => ((fun _ => ι (m p)), w p))) ψ := by
  induction P generalizing ψ with
  | nil => rfl
  | cons p P ih =>
    simp only [List.map_cons, layer_cons]
    show semSG ι rh M (P.map _) (applyMcu [] (ι (m p)) (w p) ψ) = _
    rw [ih, applyMcu_eq_fam, mcuFam_nil]

/-- The layer of Hadamards on the flagged wires, as a full layer (identity where not flagged). -/
theorem semSG_h_layer {K : Type} (ι : CMat K → Mat2 R) (rh : R) (M : McxSem R) {α : Type}
    (P : List α) (fl : α → Bool) (w : α → Nat) (ψ : State R) :
    semSG ι rh M (P.flatMap (fun p => if fl p then [SG.h (w p)] else [])) ψ
      = layer (P.map (fun p => ((fun _ => if fl p then (⟨rh, rh, rh, -rh⟩ : Mat2 R) else 1), w p))) ψ := by
  induction P generalizing ψ with
  | nil => rfl
  | cons p P ih =>
    simp only [List.flatMap_cons, List.map_cons, layer_cons, semSG_append]
    rw [ih]
    congr 1
    cases fl p
    · simp only [Bool.false_eq_true, if_false]
      rw [applyFam_one]; rfl
    · simp only [if_true]
      show applyMcu [] (⟨rh, rh, rh, -rh⟩ : Mat2 R) (w p) ψ = _
      rw [applyMcu_eq_fam, mcuFam_nil]

end layers

theorem allSome_unGate {K α : Type} (o : ROps K) (P : List α) (m : α → CMat K) (w : α → Nat)
    (ga : List (SG K)) (h : allSome (P.map (fun p => unGate o (m p) (w p))) = some ga) :
    ga = P.map (fun p => SG.un (m p) (w p)) := by
  induction P generalizing ga with
  | nil => simp only [List.map_nil, allSome, Option.some.injEq] at h; subst h; rfl
  | cons p P ih =>
    rw [List.map_cons] at h
    obtain ⟨y, l', hy, hl', rfl⟩ := allSome_cons_some _ _ _ h
    rw [ih l' hl', List.map_cons]
    congr 1
    unfold unGate at hy
    split at hy
    · exact (Option.some.inj hy).symm
    · exact absurd hy (by simp)

section multi
variable {K Θ R : Type} [AddCommGroup Θ] [CommRing R] [RotSem Θ R] [RotLaws Θ R]

/-- The first-half multi-target MCX of the model, expanded. -/
theorem mcxHalf1_multi (a : McxAngles Θ) (hp : Pi8 R a) (ι : CMat K → Mat2 R) (cw ts : List Nat)
    (cs : Option (List Bool)) (hk : 2 ≤ cw.length) (hn : (cw ++ ts).Nodup) (ht : 1 ≤ ts.length)
    (m : List (MG K Θ))
    (hm : expandSG a (fun x : Θ => -x) (mcxHalf1 cw ts cs : SG K) = some m) (ψ : State R) :
    denoteSG ι (rh Θ) (expMcx a (fun x : Θ => -x)) (mcxHalf1 cw ts cs) ψ
      = mcxIdeal (litsOf (ctl1 cw) (csK1 (cs.getD []) cw.length).reverse) ts ψ := by
  obtain ⟨c, hc⟩ := expandSG_mcxv_some a _ _ _ _ _ _ _ m hm
  have hl := ctl1_length cw (by omega)
  have hc' := hc
  simp only [wires1_parts, ← hl] at hc'
  have h := vchain_on_list a hp (ctl1 cw) (anc1 cw) ts (cs.map (csK1 · cw.length))
    (by rw [← wires1_parts]; exact wires1_nodup cw ts hn)
    (by rw [anc1_length cw hk, hl])
    (by rw [hl]; unfold k1; omega) ht c hc' false ψ
  rw [map_getD_csK1] at h
  simp only [denoteSG, mcxHalf1, expMcx, hc]
  exact h

/-- The second-half multi-target MCX of the model and its `.inverse()`, expanded. -/
theorem mcxHalf2_multi (a : McxAngles Θ) (hp : Pi8 R a) (ι : CMat K → Mat2 R) (cw ts : List Nat)
    (cs : Option (List Bool)) (inv0 inv : Bool) (hk : 2 ≤ cw.length) (hn : (cw ++ ts).Nodup)
    (ht : 1 ≤ ts.length) (m : List (MG K Θ))
    (hm : expandSG a (fun x : Θ => -x) (mcxHalf2 cw ts cs false inv0 : SG K) = some m)
    (ψ : State R) :
    denoteSG ι (rh Θ) (expMcx a (fun x : Θ => -x)) (mcxHalf2 cw ts cs false inv) ψ
      = mcxIdeal (litsOf (ctl2 cw) (csK2 (cs.getD []) cw.length).reverse) ts ψ := by
  obtain ⟨c, hc⟩ := expandSG_mcxv_some a _ _ _ _ _ _ _ m hm
  have hl := ctl2_length cw
  have hc' := hc
  simp only [wires2_parts, ← hl] at hc'
  have h := vchain_on_list a hp (ctl2 cw) (anc2 cw) ts (cs.map (csK2 · cw.length))
    (by rw [← wires2_parts]; exact wires2_nodup cw ts hn)
    (by rw [anc2_length cw hk, hl])
    (by rw [hl]; unfold k2; omega) ht c hc' inv ψ
  rw [map_getD_csK2] at h
  simp only [denoteSG, mcxHalf2, expMcx, hc]
  exact h

/-- `op_a` of one unitary. -/
def opA (o : ROps K) (u : CMat K) : CMat K := computeGateA o (getXZ o u).1 (getXZ o u).2

/-- Does target `u` get the Hadamard sandwich? (`not secondary real and main real`) -/
def hFlag (o : ROps K) (u : CMat K) : Bool := !secondaryReal o u && mainReal o u

/-- The matrix each target sees: `(A' X A X)²`, conjugated by `H` when flagged. -/
def tgtMat (o : ROps K) (ι : CMat K → Mat2 R) (rhv : R) (u : CMat K) : Mat2 R :=
  (if hFlag o u then (⟨rhv, rhv, rhv, -rhv⟩ : Mat2 R) else 1)
    * coreW (ι (opA o u)) (ι (adj o (opA o u)))
    * (if hFlag o u then (⟨rhv, rhv, rhv, -rhv⟩ : Mat2 R) else 1)

/-- **`MultiTargetMCSU2` (model, `k ≥ 2`), V-chains expanded, denotes one multi-controlled gate per
target.**  Targets on the wires `|cw| + i` (the layout of the definition), all wires pairwise
different. -/
theorem multiTarget_exp (o : ROps K) (a : McxAngles Θ) (hp : Pi8 R a) (ι : CMat K → Mat2 R)
    (us : List (CMat K)) (cw ts : List Nat) (cs : Option (List Bool)) (gs : List (SG K))
    (hk : 2 ≤ cw.length) (hus : 1 ≤ us.length)
    (hts : ts = (List.range us.length).map (cw.length + ·)) (hn : (cw ++ ts).Nodup)
    (hg : multiTarget o us cw ts cs = some gs)
    (hx : ∀ g ∈ gs, ∃ m : List (MG K Θ), expandSG a (fun x : Θ => -x) g = some m)
    (hA : ∀ u ∈ us, ι (opA o u) * ι (adj o (opA o u)) = 1 ∧ ι (adj o (opA o u)) * ι (opA o u) = 1)
    (ψ : State R) :
    semSG ι (rh Θ) (expMcx a (fun x : Θ => -x)) gs ψ
      = (us.zipIdx).foldl (fun s p => applyMcu (litsOf cw (cs.getD []).reverse)
          (tgtMat o ι (rh Θ) p.1) (cw.length + p.2) s) ψ := by
  have hk1 : ¬ cw.length = 1 := by omega
  -- the index list and the per-target data
  set P := us.zipIdx with hP
  have hPi : ∀ p ∈ P, p.2 < us.length := by
    intro p hp'
    have := List.mem_zipIdx (x := p.1) (i := p.2) (xs := us) (k := 0) hp'
    omega
  have hPu : ∀ p ∈ P, p.1 ∈ us := by
    intro p hp'
    have := List.mem_zipIdx (x := p.1) (i := p.2) (xs := us) (k := 0) hp'
    rw [this.2.2]
    exact List.getElem_mem _
  have hPsnd : P.map (·.2) = List.range us.length := by
    rw [hP, List.zipIdx_eq_zip_range', List.range_eq_range']
    exact List.map_snd_zip (by simp)
  have htsP : ts = P.map (fun p => cw.length + p.2) := by
    rw [hts, ← hPsnd, List.map_map]; rfl
  have htsget : ∀ p ∈ P, ts.getD p.2 0 = cw.length + p.2 := by
    intro p hp'
    have hi := hPi p hp'
    rw [hts, List.getD_eq_getElem?_getD, List.getElem?_map, List.getElem?_range hi]
    rfl
  have htlen : 1 ≤ ts.length := by rw [hts]; simpa using hus
  -- unfold the model
  unfold multiTarget at hg
  simp only [if_neg hk1] at hg
  have ezip : (us.map (fun u => computeGateA o (getXZ o u).1 (getXZ o u).2)).zipIdx
      = P.map (fun p => (opA o p.1, p.2)) := by
    rw [List.zipIdx_map]; rfl
  rw [ezip, List.map_map, List.map_map] at hg
  cases hga : allSome (P.map (fun p => unGate o (opA o p.1) (cw.length + p.2))) with
  | none =>
    rw [show ((fun x : CMat K × Nat => match x with | (m, i) => unGate o m (cw.length + i))
        ∘ fun p : CMat K × Nat => (opA o p.1, p.2)) = fun p => unGate o (opA o p.1) (cw.length + p.2)
        from rfl, hga] at hg
    simp at hg
  | some ga =>
    cases hgai : allSome (P.map (fun p => unGate o (adj o (opA o p.1)) (cw.length + p.2))) with
    | none =>
      rw [show ((fun x : CMat K × Nat => match x with | (m, i) => unGate o (adj o m) (cw.length + i))
          ∘ fun p : CMat K × Nat => (opA o p.1, p.2))
            = fun p => unGate o (adj o (opA o p.1)) (cw.length + p.2) from rfl, hgai] at hg
      cases hga' : allSome (List.map ((fun x : CMat K × Nat => match x with
          | (m, i) => unGate o m (cw.length + i)) ∘ fun p : CMat K × Nat => (opA o p.1, p.2)) P) <;>
        rw [hga'] at hg <;> simp at hg
    | some gai =>
      rw [show ((fun x : CMat K × Nat => match x with | (m, i) => unGate o m (cw.length + i))
          ∘ fun p : CMat K × Nat => (opA o p.1, p.2)) = fun p => unGate o (opA o p.1) (cw.length + p.2)
          from rfl, hga,
        show ((fun x : CMat K × Nat => match x with | (m, i) => unGate o (adj o m) (cw.length + i))
          ∘ fun p : CMat K × Nat => (opA o p.1, p.2))
            = fun p => unGate o (adj o (opA o p.1)) (cw.length + p.2) from rfl, hgai] at hg
      simp only [Option.some.injEq] at hg
      have ega := allSome_unGate o P (fun p => opA o p.1) (fun p => cw.length + p.2) ga hga
      have egai := allSome_unGate o P (fun p => adj o (opA o p.1)) (fun p => cw.length + p.2) gai hgai
      -- the Hadamard layer on the wires `|cw| + i`
      have ehs : (P.flatMap (fun x : CMat K × Nat =>
            if (!secondaryReal o x.1 && mainReal o x.1) = true then [(SG.h (ts.getD x.2 0) : SG K)] else []))
          = P.flatMap (fun p => if hFlag o p.1 then [(SG.h (cw.length + p.2) : SG K)] else []) := by
        apply flatMap_congr'
        intro p hp'
        show (if hFlag o p.1 = true then [(SG.h (ts.getD p.2 0) : SG K)] else []) = _
        rw [htsget p hp']
      rw [← hP, ehs, ega, egai] at hg
      subst hg
      -- the MCX gates
      obtain ⟨m1, hm1⟩ := hx (mcxHalf1 cw ts cs) (by simp)
      obtain ⟨m2, hm2⟩ := hx (mcxHalf2 cw ts cs false false) (by simp)
      have e1 := fun φ => mcxHalf1_multi a hp ι cw ts cs hk hn htlen m1 hm1 φ
      have e2 := fun inv φ => mcxHalf2_multi a hp ι cw ts cs false inv hk hn htlen m2 hm2 φ
      -- targets
      set l1 := litsOf (ctl1 cw) (csK1 (cs.getD []) cw.length).reverse with hl1
      set l2 := litsOf (ctl2 cw) (csK2 (cs.getD []) cw.length).reverse with hl2
      let G : List (Tgt R) :=
        P.map (fun p => ⟨ι (opA o p.1), ι (adj o (opA o p.1)), cw.length + p.2⟩)
      have hGt : G.map (·.t) = ts := by
        rw [htsP]; simp only [G, List.map_map]; rfl
      have hcwts : ∀ x ∈ cw, x ∉ ts := by
        intro x hx hm
        exact (List.nodup_append.mp hn).2.2 x hx x hm rfl
      have hav : ∀ (cc : List Nat) (r : List Bool), (∀ x ∈ cc, x ∈ cw) → ∀ g ∈ G, Avoids (litsOf cc r) g.t := by
        intro cc r hcc g hg' cv hcv e
        have hw := hcc _ (litsOf_wires cc r cv hcv)
        have : g.t ∈ ts := by rw [← hGt]; exact List.mem_map_of_mem hg'
        exact hcwts _ hw (e ▸ this)
      have hav1 := hav (ctl1 cw) (csK1 (cs.getD []) cw.length).reverse (fun x hx => List.mem_of_mem_take hx)
      have hav2 := hav (ctl2 cw) (csK2 (cs.getD []) cw.length).reverse (fun x hx => List.mem_of_mem_drop hx)
      have hok : TgtOk l1 l2 G :=
        ⟨by rw [hGt]; exact (List.nodup_append.mp hn).2.1, hav1, hav2, by
          intro g hg'
          obtain ⟨p, hp', rfl⟩ := List.mem_map.mp hg'
          exact hA p.1 (hPu p hp')⟩
      have eM1 : ∀ φ, mcxIdeal l1 ts φ = layer (lx l1 G) φ := by
        intro φ; rw [← hGt]; exact mcxIdeal_layer l1 G hav1 φ
      have eM2 : ∀ φ, mcxIdeal l2 ts φ = layer (lx l2 G) φ := by
        intro φ; rw [← hGt]; exact mcxIdeal_layer l2 G hav2 φ
      have eU : ∀ φ, semSG ι (rh Θ) (expMcx a (fun x : Θ => -x))
          (P.map (fun p => SG.un (opA o p.1) (cw.length + p.2))) φ = layer (lu G) φ := by
        intro φ
        rw [semSG_un_layer]; simp only [lu, G, List.map_map]; rfl
      have eU' : ∀ φ, semSG ι (rh Θ) (expMcx a (fun x : Θ => -x))
          (P.map (fun p => SG.un (adj o (opA o p.1)) (cw.length + p.2))) φ = layer (lu' G) φ := by
        intro φ
        rw [semSG_un_layer]; simp only [lu', G, List.map_map]; rfl
      have single : ∀ (g : SG K) φ, semSG ι (rh Θ) (expMcx a (fun x : Θ => -x)) [g] φ
          = denoteSG ι (rh Θ) (expMcx a (fun x : Θ => -x)) g φ := fun _ _ => rfl
      simp only [semSG_append, single, e1, e2, eM1, eM2, eU, eU', semSG_h_layer]
      have hms := multi_seq l1 l2 G hok
      unfold multiSeq at hms
      rw [hms]
      -- the ideal as a layer, then regroup with the two Hadamard layers
      have hlits : l1 ++ l2 = litsOf cw (cs.getD []).reverse := pattern_split cw (cs.getD [])
      have eI : ∀ φ, multiIdeal l1 l2 G φ
          = layer (P.map (fun p => (mcuFam (litsOf cw (cs.getD []).reverse)
              (coreW (ι (opA o p.1)) (ι (adj o (opA o p.1)))), cw.length + p.2))) φ := by
        intro φ
        unfold multiIdeal layer
        rw [hlits]
        simp only [G, List.foldl_map, applyMcu_eq_fam]
      rw [eI]
      have hndP : (P.map (fun p => cw.length + p.2)).Nodup := by
        rw [← htsP]; exact (List.nodup_append.mp hn).2.1
      have hfreeC : ∀ (M : Mat2 R) (q : CMat K × Nat), q ∈ P →
          TFree (cw.length + q.2) (mcuFam (litsOf cw (cs.getD []).reverse) M) := by
        intro M q hq
        apply mcuFam_free
        apply litsOf_avoids
        intro hm
        exact hcwts _ hm (by rw [htsP]; exact List.mem_map_of_mem (f := fun p : CMat K × Nat => cw.length + p.2) hq)
      rw [layer3_regroup P (fun p => cw.length + p.2) _ _ _ hndP
        (fun p _ q _ _ => TFree_const _ _) (fun p _ q hq _ => hfreeC _ q hq)
        (fun p _ q _ _ => TFree_const _ _)]
      -- per target: H C(W) H = C(H W H)
      have hHH : (⟨rh Θ, rh Θ, rh Θ, -rh Θ⟩ : Mat2 R) * ⟨rh Θ, rh Θ, rh Θ, -rh Θ⟩ = 1 := by
        have hrh : (2 : R) * (rh Θ * rh Θ) = 1 := RotLaws.rh_sq
        apply Mat2.ext' <;> simp only [mat_mul_def, Mat2.mul, mat_one_def, Mat2.one] <;>
          first | linear_combination hrh | ring
      have hstep : ∀ (s : State R) (p : CMat K × Nat), p ∈ P →
          applyFam (fun _ => if hFlag o p.1 then (⟨rh Θ, rh Θ, rh Θ, -rh Θ⟩ : Mat2 R) else 1)
              (cw.length + p.2)
            (applyFam (mcuFam (litsOf cw (cs.getD []).reverse)
                (coreW (ι (opA o p.1)) (ι (adj o (opA o p.1))))) (cw.length + p.2)
              (applyFam (fun _ => if hFlag o p.1 then (⟨rh Θ, rh Θ, rh Θ, -rh Θ⟩ : Mat2 R) else 1)
                (cw.length + p.2) s))
          = applyMcu (litsOf cw (cs.getD []).reverse) (tgtMat o ι (rh Θ) p.1) (cw.length + p.2) s := by
        intro s p hp'
        have hav' : Avoids (litsOf cw (cs.getD []).reverse) (cw.length + p.2) := by
          apply litsOf_avoids
          intro hm
          exact hcwts _ hm (by rw [htsP]; exact List.mem_map_of_mem (f := fun p : CMat K × Nat => cw.length + p.2) hp')
        have hHp : (if hFlag o p.1 then (⟨rh Θ, rh Θ, rh Θ, -rh Θ⟩ : Mat2 R) else 1)
            * (if hFlag o p.1 then (⟨rh Θ, rh Θ, rh Θ, -rh Θ⟩ : Mat2 R) else 1) = 1 := by
          cases hFlag o p.1
          · simp only [Bool.false_eq_true, if_false, mat_one_mul]
          · simp only [if_true, hHH]
        have := h_sandwich (litsOf cw (cs.getD []).reverse) (cw.length + p.2)
          (if hFlag o p.1 then (⟨rh Θ, rh Θ, rh Θ, -rh Θ⟩ : Mat2 R) else 1)
          (coreW (ι (opA o p.1)) (ι (adj o (opA o p.1)))) hHp hav' s
        simp only [applyMcu_eq_fam, mcuFam_nil] at this
        rw [this, tgtMat, applyMcu_eq_fam]
      -- fold congruence
      have hfold : ∀ (Q : List (CMat K × Nat)), (∀ p ∈ Q, p ∈ P) → ∀ s : State R,
          Q.foldl (fun s p =>
            applyFam (fun _ => if hFlag o p.1 then (⟨rh Θ, rh Θ, rh Θ, -rh Θ⟩ : Mat2 R) else 1)
              (cw.length + p.2)
            (applyFam (mcuFam (litsOf cw (cs.getD []).reverse)
                (coreW (ι (opA o p.1)) (ι (adj o (opA o p.1))))) (cw.length + p.2)
              (applyFam (fun _ => if hFlag o p.1 then (⟨rh Θ, rh Θ, rh Θ, -rh Θ⟩ : Mat2 R) else 1)
                (cw.length + p.2) s))) s
          = Q.foldl (fun s p => applyMcu (litsOf cw (cs.getD []).reverse)
              (tgtMat o ι (rh Θ) p.1) (cw.length + p.2) s) s := by
        intro Q
        induction Q with
        | nil => intro _ _; rfl
        | cons q Q ih =>
          intro hQ s
          simp only [List.foldl_cons]
          rw [hstep s q (hQ q (by simp))]
          exact ih (fun p hp' => hQ p (by simp [hp'])) _
      exact hfold P (fun p hp' => hp') ψ

/-- The expanded list, same statement. -/
theorem multiTarget_full (o : ROps K) (a : McxAngles Θ) (hp : Pi8 R a) (ι : CMat K → Mat2 R)
    (us : List (CMat K)) (cw ts : List Nat) (cs : Option (List Bool)) (gs : List (SG K))
    (ms : List (MG K Θ)) (hk : 2 ≤ cw.length) (hus : 1 ≤ us.length)
    (hts : ts = (List.range us.length).map (cw.length + ·)) (hn : (cw ++ ts).Nodup)
    (hg : multiTarget o us cw ts cs = some gs)
    (hx : expandAll a (fun x : Θ => -x) gs = some ms)
    (hA : ∀ u ∈ us, ι (opA o u) * ι (adj o (opA o u)) = 1 ∧ ι (adj o (opA o u)) * ι (opA o u) = 1)
    (ψ : State R) :
    semMG ι ms ψ
      = (us.zipIdx).foldl (fun s p => applyMcu (litsOf cw (cs.getD []).reverse)
          (tgtMat o ι (rh Θ) p.1) (cw.length + p.2) s) ψ := by
  rw [expandAll_sem a _ ι gs ms hx]
  exact multiTarget_exp o a hp ι us cw ts cs gs hk hus hts hn hg (expandAll_mem a _ gs ms hx) hA ψ

omit [AddCommGroup Θ] in
/-- Every gate `MultiTargetMCSU2` emits has an expansion when the pattern is no longer than the
control register. -/
theorem multiTarget_expands (o : ROps K) (a : McxAngles Θ) (neg : Θ → Θ) (us : List (CMat K))
    (cw ts : List Nat) (cs : Option (List Bool)) (gs : List (SG K)) (hts : 1 ≤ ts.length)
    (hp : ∀ p, cs = some p → p.length ≤ cw.length)
    (hg : multiTarget o us cw ts cs = some gs) :
    ∀ g ∈ gs, ∃ m : List (MG K Θ), expandSG a neg g = some m := by
  have hv1 : ∃ m : List (MG K Θ), expandSG a neg (mcxHalf1 cw ts cs : SG K) = some m := by
    obtain ⟨c, hc⟩ := expandMcxv_defined a (k1 cw.length) ts.length (wires1 cw ts)
      (cs.map (csK1 · cw.length)) false hts (by
        intro p hp'
        cases cs with
        | none => simp at hp'
        | some q =>
          simp only [Option.map_some, Option.some.injEq] at hp'
          subst hp'
          exact csK1_length_le q _)
    exact ⟨(if false = true then invCirc neg c else c).map MG.prim, by
      simp only [mcxHalf1, expandSG, hc, Option.map_some]⟩
  have hv2 : ∀ inv, ∃ m : List (MG K Θ),
      expandSG a neg (mcxHalf2 cw ts cs false inv : SG K) = some m := by
    intro inv
    obtain ⟨c, hc⟩ := expandMcxv_defined a (k2 cw.length) ts.length (wires2 cw ts)
      (cs.map (csK2 · cw.length)) false hts (by
        intro p hp'
        cases cs with
        | none => simp at hp'
        | some q =>
          simp only [Option.map_some, Option.some.injEq] at hp'
          subst hp'
          exact csK2_length_le q _ (hp q rfl))
    exact ⟨(if inv = true then invCirc neg c else c).map MG.prim, by
      simp only [mcxHalf2, expandSG, hc, Option.map_some]⟩
  have hun : ∀ (L : List (CMat K × Nat)) (f : CMat K × Nat → Option (SG K)) (ga : List (SG K)),
      (∀ p, f p = none ∨ ∃ m q, f p = some (SG.un m q)) → allSome (L.map f) = some ga →
      ∀ g ∈ ga, ∃ m : List (MG K Θ), expandSG a neg g = some m := by
    intro L f
    induction L with
    | nil => intro ga _ h g hg'; simp [allSome] at h; subst h; simp at hg'
    | cons p L ih =>
      intro ga hf h g hg'
      rw [List.map_cons] at h
      obtain ⟨y, l', hy, hl', rfl⟩ := allSome_cons_some _ _ _ h
      rcases List.mem_cons.mp hg' with rfl | hg''
      · rcases hf p with h0 | ⟨m, q, h1⟩
        · rw [h0] at hy; simp at hy
        · rw [h1] at hy; cases hy; exact ⟨_, rfl⟩
      · exact ih l' hf hl' g hg''
  have hung : ∀ (w : Nat → Nat) (f : CMat K → CMat K) (p : CMat K × Nat),
      (match p with | (m, i) => unGate o (f m) (w i)) = none
        ∨ ∃ m q, (match p with | (m, i) => unGate o (f m) (w i)) = some (SG.un m q) := by
    intro w f p
    obtain ⟨m, i⟩ := p
    simp only [unGate]
    split
    · exact Or.inr ⟨_, _, rfl⟩
    · exact Or.inl rfl
  unfold multiTarget at hg
  split at hg
  · simp only [Option.some.injEq] at hg
    subst hg
    intro g hg'
    obtain ⟨p, _, rfl⟩ := List.mem_map.mp hg'
    exact ⟨_, rfl⟩
  · dsimp only at hg
    split at hg
    · rename_i ga gai hga hgai
      simp only [Option.some.injEq] at hg
      subst hg
      have hga' := hun _ _ ga (hung (fun i => cw.length + i) (fun m => m)) hga
      have hgai' := hun _ _ gai (hung (fun i => cw.length + i) (fun m => adj o m)) hgai
      have hhs : ∀ g ∈ (us.zipIdx).flatMap (fun x : CMat K × Nat => match x with
          | (u, i) => if (!secondaryReal o u && mainReal o u) = true then [SG.h (ts.getD i 0)] else []),
          ∃ m : List (MG K Θ), expandSG a neg g = some m := by
        intro g hg'
        obtain ⟨p, _, hgp⟩ := List.mem_flatMap.mp hg'
        obtain ⟨u, i⟩ := p
        dsimp only at hgp
        split at hgp
        · rw [List.mem_singleton.mp hgp]; exact ⟨_, rfl⟩
        · simp at hgp
      intro g hg'
      simp only [List.mem_append, List.mem_singleton] at hg'
      rcases hg' with ((((((((h | h) | h) | h) | h) | h) | h) | h) | h) | h
      · exact hhs g h
      · subst h; exact hv1
      · exact hga' g h
      · subst h; exact hv2 _
      · exact hgai' g h
      · subst h; exact hv1
      · exact hga' g h
      · subst h; exact hv2 _
      · exact hgai' g h
      · exact hhs g h
    · exact absurd hg (by simp)

end multi

/-! ### Real instance: every target gets its own `U_j` -/

open Complex in
/-- For an SU(2) matrix with real secondary or real main diagonal, `op_a` is unitary and the
matrix the target sees (H-conjugated when flagged) is the matrix itself. -/
theorem tgtMat_real (r4 : ℝ → ℝ → ℝ × ℝ) (cosH sinH : ℝ → ℝ) (ar ai br bi : ℝ)
    (hu : ar ^ 2 + ai ^ 2 + br ^ 2 + bi ^ 2 = 1) (hd : bi = 0 ∨ ai = 0)
    (hr : (getXZ (realOps r4 cosH sinH) (su2Mat ar ai br bi)).1 = 0 →
      (⟨(r4 (getXZ (realOps r4 cosH sinH) (su2Mat ar ai br bi)).2.re
            (getXZ (realOps r4 cosH sinH) (su2Mat ar ai br bi)).2.im).1,
        (r4 (getXZ (realOps r4 cosH sinH) (su2Mat ar ai br bi)).2.re
            (getXZ (realOps r4 cosH sinH) (su2Mat ar ai br bi)).2.im).2⟩ : ℂ) ^ 4
        = ⟨(getXZ (realOps r4 cosH sinH) (su2Mat ar ai br bi)).2.re,
           (getXZ (realOps r4 cosH sinH) (su2Mat ar ai br bi)).2.im⟩) :
    let o := realOps r4 cosH sinH
    let u := su2Mat ar ai br bi
    (toMat (opA o u) * toMat (adj o (opA o u)) = 1 ∧ toMat (adj o (opA o u)) * toMat (opA o u) = 1)
      ∧ tgtMat o toMat (rh ℝ) u = toMat u := by
  intro o u
  by_cases hb : bi = 0
  · subst hb
    obtain ⟨hxz, hW, hnorm⟩ := get_x_z_secondary r4 cosH sinH ar ai br
    obtain ⟨hA, hA', hcore⟩ := gateA_real r4 cosH sinH
      (getXZ (realOps r4 cosH sinH) (su2Mat ar ai br 0)).1
      (getXZ (realOps r4 cosH sinH) (su2Mat ar ai br 0)).2.re
      (getXZ (realOps r4 cosH sinH) (su2Mat ar ai br 0)).2.im
      (by rw [hnorm]; linarith) hr
    refine ⟨⟨hA, hA'⟩, ?_⟩
    have hfl : hFlag o u = false := by
      simp [hFlag, o, u, secondaryReal, realOps, su2Mat]
    simp only [tgtMat, hfl, Bool.false_eq_true, if_false, mat_one_mul, mat_mul_one]
    exact hcore.trans hW.symm
  · have ha : ai = 0 := hd.resolve_left hb
    subst ha
    have hrh : (2 : ℂ) * (rh ℝ * rh ℝ) = 1 := RotLaws.rh_sq
    obtain ⟨hxz, hW, hnorm⟩ := h_conj r4 cosH sinH ar br bi hb (rh ℝ) hrh
    obtain ⟨hA, hA', hcore⟩ := gateA_real r4 cosH sinH
      (getXZ (realOps r4 cosH sinH) (su2Mat ar 0 br bi)).1
      (getXZ (realOps r4 cosH sinH) (su2Mat ar 0 br bi)).2.re
      (getXZ (realOps r4 cosH sinH) (su2Mat ar 0 br bi)).2.im
      (by rw [hnorm]; linarith) hr
    refine ⟨⟨hA, hA'⟩, ?_⟩
    have hfl : hFlag o u = true := by
      simp [hFlag, o, u, secondaryReal, mainReal, realOps, su2Mat, hb]
    have hHH : (⟨rh ℝ, rh ℝ, rh ℝ, -rh ℝ⟩ : Mat2 ℂ) * ⟨rh ℝ, rh ℝ, rh ℝ, -rh ℝ⟩ = 1 := by
      apply Mat2.ext' <;> simp only [mat_mul_def, Mat2.mul, mat_one_def, Mat2.one] <;>
        first | linear_combination hrh | ring
    simp only [tgtMat, hfl, if_true]
    have : coreW (toMat (opA o u)) (toMat (adj o (opA o u)))
        = (⟨rh ℝ, rh ℝ, rh ℝ, -rh ℝ⟩ : Mat2 ℂ) * toMat u * ⟨rh ℝ, rh ℝ, rh ℝ, -rh ℝ⟩ :=
      hcore.trans hW.symm
    rw [this, mat_mul_assoc, mat_mul_assoc, hHH, mat_mul_one, ← mat_mul_assoc, hHH, mat_one_mul]

/-- The hypothesis on each listed unitary: SU(2), real secondary or real main diagonal, fourth
root specified where `x = 0`. -/
def Su2Diag (r4 : ℝ → ℝ → ℝ × ℝ) (cosH sinH : ℝ → ℝ) (u : CMat ℝ) : Prop :=
  ∃ ar ai br bi : ℝ, u = su2Mat ar ai br bi ∧ ar ^ 2 + ai ^ 2 + br ^ 2 + bi ^ 2 = 1
    ∧ (bi = 0 ∨ ai = 0)
    ∧ ((getXZ (realOps r4 cosH sinH) u).1 = 0 →
      (⟨(r4 (getXZ (realOps r4 cosH sinH) u).2.re (getXZ (realOps r4 cosH sinH) u).2.im).1,
        (r4 (getXZ (realOps r4 cosH sinH) u).2.re (getXZ (realOps r4 cosH sinH) u).2.im).2⟩ : ℂ) ^ 4
        = ⟨(getXZ (realOps r4 cosH sinH) u).2.re, (getXZ (realOps r4 cosH sinH) u).2.im⟩)

theorem foldl_congr_mem {α β : Type} (Q : List α) (f g : β → α → β)
    (h : ∀ p ∈ Q, ∀ s, f s p = g s p) (s : β) : Q.foldl f s = Q.foldl g s := by
  induction Q generalizing s with
  | nil => rfl
  | cons q Q ih =>
    simp only [List.foldl_cons]
    rw [h q (by simp) s]
    exact ih (fun p hp s => h p (by simp [hp]) s) _

/-- **`MultiTargetMCSU2` (model, real instance, expanded) applies `U_j` to target `j` iff the
controls read the pattern.** -/
theorem multiTarget_spec (r4 : ℝ → ℝ → ℝ × ℝ) (cosH sinH : ℝ → ℝ) (us : List (CMat ℝ))
    (hU : ∀ u ∈ us, Su2Diag r4 cosH sinH u) (cw ts : List Nat) (cs : Option (List Bool))
    (gs : List (SG ℝ)) (ms : List (MG ℝ ℝ)) (hk : 2 ≤ cw.length) (hus : 1 ≤ us.length)
    (hts : ts = (List.range us.length).map (cw.length + ·)) (hn : (cw ++ ts).Nodup)
    (hg : multiTarget (realOps r4 cosH sinH) us cw ts cs = some gs)
    (hx : expandAll realAngles (fun x : ℝ => -x) gs = some ms) (ψ : State ℂ) :
    semMG toMat ms ψ
      = (us.zipIdx).foldl (fun s p => applyMcu (litsOf cw (cs.getD []).reverse)
          (toMat p.1) (cw.length + p.2) s) ψ := by
  have hall : ∀ u ∈ us,
      (toMat (opA (realOps r4 cosH sinH) u) * toMat (adj (realOps r4 cosH sinH) (opA (realOps r4 cosH sinH) u)) = 1
        ∧ toMat (adj (realOps r4 cosH sinH) (opA (realOps r4 cosH sinH) u)) * toMat (opA (realOps r4 cosH sinH) u) = 1)
      ∧ tgtMat (realOps r4 cosH sinH) toMat (rh ℝ) u = toMat u := by
    intro u hu
    obtain ⟨ar, ai, br, bi, rfl, hn', hd, hr⟩ := hU u hu
    exact tgtMat_real r4 cosH sinH ar ai br bi hn' hd hr
  rw [multiTarget_full (realOps r4 cosH sinH) realAngles pi8_real toMat us cw ts cs gs ms hk hus hts
    hn hg hx (fun u hu => (hall u hu).1) ψ]
  apply foldl_congr_mem
  intro p hp s
  have hpu : p.1 ∈ us := by
    have := List.mem_zipIdx (x := p.1) (i := p.2) (xs := us) (k := 0) hp
    rw [this.2.2]
    exact List.getElem_mem _
  rw [(hall p.1 hpu).2]

end Qclib.Mcsu
