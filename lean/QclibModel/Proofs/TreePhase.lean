import QclibModel.Proofs.TreeAngles
import Mathlib.Analysis.SpecialFunctions.Trigonometric.Inverse
import Mathlib.Analysis.SpecialFunctions.Complex.Arg
import Mathlib.Tactic.Ring
import Mathlib.Tactic.Linarith
import Mathlib.Tactic.Positivity
import Mathlib.Tactic.FieldSimp
/-
  Amplitude (not squared) version of `tree_path_product`, with phases (C11 / C01):

    * `svZ`               the complex number `mag · e^{i·arg}` of a state-tree payload
    * `pathAmp`           root-to-leaf product of `cos(y/2)e^{-iz/2}` (left) / `sin(y/2)e^{iz/2}` (right)
    * `angleY_cos/sin`    one node: `m cos(θ/2) = l`, `m sin(θ/2) = r`
    * `node_step_left/right`  one node in ℂ
    * `tree_path_amp`     `svZ root · pathAmp … k = svZ (a k)`
    * `tree_path_amp_unit` for a unit vector `c`: `pathAmp … k = e^{-i·rootArg} · c k`
-/
namespace Qclib

/-- complex number represented by a state-tree payload -/
noncomputable def svZ (v : SV ℝ) : ℂ := (v.mag : ℂ) * Complex.exp ((v.arg : ℂ) * Complex.I)

/-- Product along the path to leaf `k` (most significant bit first) of
`cos(y/2)·e^{-iz/2}` when going left and `sin(y/2)·e^{iz/2}` when going right. -/
noncomputable def pathAmp : Nat → BT (AV ℝ) → Nat → ℂ
  | n+1, .node v l r, k =>
    if k < 2^n then
      ((Real.cos (v.y / 2) : ℝ) : ℂ) * Complex.exp (-(((v.z / 2 : ℝ) : ℂ) * Complex.I))
        * pathAmp n l k
    else
      ((Real.sin (v.y / 2) : ℝ) : ℂ) * Complex.exp (((v.z / 2 : ℝ) : ℂ) * Complex.I)
        * pathAmp n r (k - 2^n)
  | _, _, _ => 1

/-! ### One node, magnitudes -/

theorem angleY_half_cos_nonneg (m r : ℝ) : 0 ≤ Real.cos (angleY realTOps m r / 2) := by
  rw [angleY_eq]
  have e : (2 * Real.arcsin (if m ≠ 0 then r / m else 0)) / 2
      = Real.arcsin (if m ≠ 0 then r / m else 0) := by ring
  rw [e]
  exact Real.cos_arcsin_nonneg _

theorem angleY_cos (l r m : ℝ) (hl : 0 ≤ l) (hr : 0 ≤ r) (hm : m = Real.sqrt (l ^ 2 + r ^ 2)) :
    m * Real.cos (angleY realTOps m r / 2) = l := by
  have hm0 : 0 ≤ m := by rw [hm]; exact Real.sqrt_nonneg _
  have hc := angleY_half_cos_nonneg m r
  have hsq := angleY_cos_sq l r m hl hr hm
  have h0 : 0 ≤ m * Real.cos (angleY realTOps m r / 2) := mul_nonneg hm0 hc
  rw [← Real.sqrt_sq h0, mul_pow, hsq, Real.sqrt_sq hl]

theorem angleY_sin (l r m : ℝ) (_hl : 0 ≤ l) (hr : 0 ≤ r) (hm : m = Real.sqrt (l ^ 2 + r ^ 2)) :
    m * Real.sin (angleY realTOps m r / 2) = r := by
  have hm2 : m ^ 2 = l ^ 2 + r ^ 2 := by rw [hm, Real.sq_sqrt (by positivity)]
  have hm0 : 0 ≤ m := by rw [hm]; exact Real.sqrt_nonneg _
  have hrm : r ≤ m := by
    by_contra hlt
    have hlt := not_le.mp hlt
    nlinarith [sq_nonneg l]
  rw [angleY_half_sin m r hr hrm]
  split_ifs with h
  · field_simp
  · have h0 : m = 0 := not_not.mp h
    have hr0 : r = 0 := le_antisymm (h0 ▸ hrm) hr
    rw [hr0]; ring

/-! ### One node, phases -/

theorem angleZ_eq (φ ra : ℝ) : angleZ realTOps φ ra = 2 * (ra - φ) := rfl

theorem angleZ_left (la ra : ℝ) :
    (la + ra) / 2 - angleZ realTOps ((la + ra) / 2) ra / 2 = la := by
  rw [angleZ_eq]; ring

theorem angleZ_right (la ra : ℝ) :
    (la + ra) / 2 + angleZ realTOps ((la + ra) / 2) ra / 2 = ra := by
  rw [angleZ_eq]; ring

/-! ### One node in ℂ -/

theorem node_step_left (lv rv v : SV ℝ) (hl : 0 ≤ lv.mag) (hr : 0 ≤ rv.mag)
    (hm : v.mag = Real.sqrt (lv.mag ^ 2 + rv.mag ^ 2)) (ha : v.arg = (lv.arg + rv.arg) / 2) :
    svZ v * (((Real.cos (angleY realTOps v.mag rv.mag / 2) : ℝ) : ℂ)
        * Complex.exp (-(((angleZ realTOps v.arg rv.arg / 2 : ℝ) : ℂ) * Complex.I)))
      = svZ lv := by
  have h1 : ((v.mag : ℝ) : ℂ) * ((Real.cos (angleY realTOps v.mag rv.mag / 2) : ℝ) : ℂ)
      = ((lv.mag : ℝ) : ℂ) := by
    exact_mod_cast angleY_cos lv.mag rv.mag v.mag hl hr hm
  have hp : v.arg - angleZ realTOps v.arg rv.arg / 2 = lv.arg := by
    rw [ha]; exact angleZ_left _ _
  have h2 : Complex.exp ((v.arg : ℂ) * Complex.I)
        * Complex.exp (-(((angleZ realTOps v.arg rv.arg / 2 : ℝ) : ℂ) * Complex.I))
      = Complex.exp ((lv.arg : ℂ) * Complex.I) := by
    rw [← Complex.exp_add]
    congr 1
    have e : ((lv.arg : ℝ) : ℂ) = ((v.arg - angleZ realTOps v.arg rv.arg / 2 : ℝ) : ℂ) := by rw [hp]
    rw [e]
    push_cast
    ring
  unfold svZ
  rw [← h1, ← h2]
  ring

theorem node_step_right (lv rv v : SV ℝ) (hl : 0 ≤ lv.mag) (hr : 0 ≤ rv.mag)
    (hm : v.mag = Real.sqrt (lv.mag ^ 2 + rv.mag ^ 2)) (ha : v.arg = (lv.arg + rv.arg) / 2) :
    svZ v * (((Real.sin (angleY realTOps v.mag rv.mag / 2) : ℝ) : ℂ)
        * Complex.exp (((angleZ realTOps v.arg rv.arg / 2 : ℝ) : ℂ) * Complex.I))
      = svZ rv := by
  have h1 : ((v.mag : ℝ) : ℂ) * ((Real.sin (angleY realTOps v.mag rv.mag / 2) : ℝ) : ℂ)
      = ((rv.mag : ℝ) : ℂ) := by
    exact_mod_cast angleY_sin lv.mag rv.mag v.mag hl hr hm
  have hp : v.arg + angleZ realTOps v.arg rv.arg / 2 = rv.arg := by
    rw [ha]; exact angleZ_right _ _
  have h2 : Complex.exp ((v.arg : ℂ) * Complex.I)
        * Complex.exp (((angleZ realTOps v.arg rv.arg / 2 : ℝ) : ℂ) * Complex.I)
      = Complex.exp ((rv.arg : ℂ) * Complex.I) := by
    rw [← Complex.exp_add]
    congr 1
    have e : ((rv.arg : ℝ) : ℂ) = ((v.arg + angleZ realTOps v.arg rv.arg / 2 : ℝ) : ℂ) := by rw [hp]
    rw [e]
    push_cast
    ring
  unfold svZ
  rw [← h1, ← h2]
  ring

/-! ### Unfolding one level -/

theorem stateTree_root_arg_succ (n : Nat) (a : Nat → SV ℝ) :
    ((stateTree realTOps (n + 1) a).valD ⟨0, 0⟩).arg
      = (((stateTree realTOps n a).valD ⟨0, 0⟩).arg
          + ((stateTree realTOps n (fun i => a (i + 2 ^ n))).valD ⟨0, 0⟩).arg) / 2 := rfl

theorem pathAmp_zero (t : BT (AV ℝ)) (k : Nat) : pathAmp 0 t k = 1 := by
  simp [pathAmp]

theorem pathAmp_angleTree_stateTree (n : Nat) (a : Nat → SV ℝ) (k : Nat) :
    pathAmp (n + 1) (angleTree realTOps (stateTree realTOps (n + 1) a)) k
      = if k < 2 ^ n then
          ((Real.cos (angleY realTOps ((stateTree realTOps (n + 1) a).valD ⟨0, 0⟩).mag
                ((stateTree realTOps n (fun i => a (i + 2 ^ n))).valD ⟨0, 0⟩).mag / 2) : ℝ) : ℂ)
            * Complex.exp (-(((angleZ realTOps ((stateTree realTOps (n + 1) a).valD ⟨0, 0⟩).arg
                ((stateTree realTOps n (fun i => a (i + 2 ^ n))).valD ⟨0, 0⟩).arg / 2 : ℝ) : ℂ)
                  * Complex.I))
            * pathAmp n (angleTree realTOps (stateTree realTOps n a)) k
        else
          ((Real.sin (angleY realTOps ((stateTree realTOps (n + 1) a).valD ⟨0, 0⟩).mag
                ((stateTree realTOps n (fun i => a (i + 2 ^ n))).valD ⟨0, 0⟩).mag / 2) : ℝ) : ℂ)
            * Complex.exp (((angleZ realTOps ((stateTree realTOps (n + 1) a).valD ⟨0, 0⟩).arg
                ((stateTree realTOps n (fun i => a (i + 2 ^ n))).valD ⟨0, 0⟩).arg / 2 : ℝ) : ℂ)
                  * Complex.I)
            * pathAmp n (angleTree realTOps (stateTree realTOps n (fun i => a (i + 2 ^ n))))
                (k - 2 ^ n) := by
  cases n with
  | zero =>
    rw [pathAmp_zero, pathAmp_zero]
    rfl
  | succ m =>
    have hl := stateTree_succ_isLeaf realTOps m a
    have e : angleTree realTOps (stateTree realTOps (m + 1 + 1) a)
        = .node ⟨angleY realTOps ((stateTree realTOps (m + 1 + 1) a).valD ⟨0, 0⟩).mag
              ((stateTree realTOps (m + 1) (fun i => a (i + 2 ^ (m + 1)))).valD ⟨0, 0⟩).mag,
            angleZ realTOps ((stateTree realTOps (m + 1 + 1) a).valD ⟨0, 0⟩).arg
              ((stateTree realTOps (m + 1) (fun i => a (i + 2 ^ (m + 1)))).valD ⟨0, 0⟩).arg⟩
            (angleTree realTOps (stateTree realTOps (m + 1) a))
            (angleTree realTOps (stateTree realTOps (m + 1) (fun i => a (i + 2 ^ (m + 1))))) := by
      show (if (stateTree realTOps (m + 1) a).isLeaf then _ else _) = _
      rw [hl]
      rfl
    rw [e]
    rfl

/-! ### Main theorem -/

/-- Amplitude path product for every height `n ≥ 0` (for `n = 0` the product is empty). -/
theorem tree_path_amp_aux (n : Nat) : ∀ (a : Nat → SV ℝ), (∀ k, 0 ≤ (a k).mag) → ∀ k, k < 2 ^ n →
    svZ ((stateTree realTOps n a).valD ⟨0, 0⟩)
      * pathAmp n (angleTree realTOps (stateTree realTOps n a)) k
    = svZ (a k) := by
  induction n with
  | zero =>
    intro a _ k hk
    have hk0 : k = 0 := by simpa using hk
    subst hk0
    rw [pathAmp_zero, mul_one]
    rfl
  | succ n ih =>
    intro a h k hk
    have h' : ∀ j, 0 ≤ (a (j + 2 ^ n)).mag := fun j => h _
    have hl := stateTree_root_nonneg n a h
    have hr := stateTree_root_nonneg n (fun i => a (i + 2 ^ n)) h'
    have hm := stateTree_root_succ n a
    have ha := stateTree_root_arg_succ n a
    rw [pathAmp_angleTree_stateTree]
    split_ifs with hlt
    · rw [← mul_assoc, node_step_left _ _ _ hl hr hm ha]
      exact ih a h k hlt
    · have hp : 2 ^ (n + 1) = 2 * 2 ^ n := by ring
      have hk' : k - 2 ^ n < 2 ^ n := by omega
      rw [← mul_assoc, node_step_right _ _ _ hl hr hm ha,
        ih (fun i => a (i + 2 ^ n)) h' (k - 2 ^ n) hk']
      show svZ (a (k - 2 ^ n + 2 ^ n)) = _
      rw [Nat.sub_add_cancel (not_lt.mp hlt)]

theorem tree_path_amp (n : Nat) (a : Nat → SV ℝ) (h : ∀ k, 0 ≤ (a k).mag) (k : Nat)
    (hk : k < 2 ^ (n + 1)) :
    svZ ((stateTree realTOps (n + 1) a).valD ⟨0, 0⟩)
      * pathAmp (n + 1) (angleTree realTOps (stateTree realTOps (n + 1) a)) k
    = svZ (a k) :=
  tree_path_amp_aux (n + 1) a h k hk

/-! ### Actual amplitudes -/

/-- The leaf payload `(abs c, phase c)` represents `c`. -/
theorem svZ_leaf (c : ℂ) : svZ ⟨‖c‖, Complex.arg c⟩ = c :=
  Complex.norm_mul_exp_arg_mul_I c

theorem tree_path_amp_complex (n : Nat) (c : Nat → ℂ) (k : Nat) (hk : k < 2 ^ (n + 1)) :
    svZ ((stateTree realTOps (n + 1) (fun k => ⟨‖c k‖, Complex.arg (c k)⟩)).valD ⟨0, 0⟩)
      * pathAmp (n + 1)
          (angleTree realTOps (stateTree realTOps (n + 1) (fun k => ⟨‖c k‖, Complex.arg (c k)⟩))) k
    = c k := by
  rw [tree_path_amp n (fun k => ⟨‖c k‖, Complex.arg (c k)⟩) (fun k => norm_nonneg (c k)) k hk]
  exact svZ_leaf (c k)

/-- Unit vector ⇒ root magnitude 1. -/
theorem stateTree_root_unit (n : Nat) (a : Nat → SV ℝ) (h : ∀ k, 0 ≤ (a k).mag)
    (hunit : sumSq n a = 1) : ((stateTree realTOps n a).valD ⟨0, 0⟩).mag = 1 := by
  have h0 := stateTree_root_nonneg n a h
  have h2 := stateTree_root_sq n a h
  rw [hunit] at h2
  rw [← Real.sqrt_sq h0, h2, Real.sqrt_one]

theorem tree_path_amp_unit (n : Nat) (c : Nat → ℂ)
    (hunit : sumSq (n + 1) (fun k => ⟨‖c k‖, Complex.arg (c k)⟩) = 1) (k : Nat)
    (hk : k < 2 ^ (n + 1)) :
    pathAmp (n + 1)
        (angleTree realTOps (stateTree realTOps (n + 1) (fun k => ⟨‖c k‖, Complex.arg (c k)⟩))) k
      = Complex.exp (-((((stateTree realTOps (n + 1)
            (fun k => ⟨‖c k‖, Complex.arg (c k)⟩)).valD ⟨0, 0⟩).arg : ℝ) : ℂ) * Complex.I) * c k := by
  have hp := tree_path_amp_complex n c k hk
  have h1 := stateTree_root_unit (n + 1) (fun k => ⟨‖c k‖, Complex.arg (c k)⟩)
    (fun k => norm_nonneg (c k)) hunit
  rw [← hp]
  unfold svZ
  rw [h1, ← mul_assoc, ← mul_assoc, Complex.ofReal_one, mul_one, ← Complex.exp_add]
  have e : -((((stateTree realTOps (n + 1)
            (fun k => ⟨‖c k‖, Complex.arg (c k)⟩)).valD ⟨0, 0⟩).arg : ℝ) : ℂ) * Complex.I
      + ((((stateTree realTOps (n + 1)
            (fun k => ⟨‖c k‖, Complex.arg (c k)⟩)).valD ⟨0, 0⟩).arg : ℝ) : ℂ) * Complex.I = 0 := by
    ring
  rw [e, Complex.exp_zero, one_mul]

#print axioms tree_path_amp_unit
end Qclib
