import QclibModel.Proofs.CnotUnitary
import QclibModel.Proofs.CnotCcd
/-
  C10 helper lemmas, part 4: every size (not only `n ≥ 3`) for the leaves, and the low-rank
  phase-by-phase sum against the structural count of the low-rank circuit.
-/
namespace Qclib.Cnot
open Qclib.Py Qclib.Gen.CnotCount

theorem est_qsd_all (r : Nat) (hr : 1 ≤ r) (a2 : Bool) :
    unitary.cnot_count_estimate ((2 ^ r : Nat) : Int) "qsd" 0 a2 = (cnotsOf a2 (buildQsd r 0) : Int) := by
  match r, hr with
  | 1, _ => rw [(est_small "qsd" 0 a2).1]; cases a2 <;> rfl
  | 2, _ => rw [(est_small "qsd" 0 a2).2]; cases a2 <;> rfl
  | n + 3, _ => exact est_qsd n a2

theorem est_csd_all (r : Nat) (hr : 1 ≤ r) (a2 : Bool) :
    unitary.cnot_count_estimate ((2 ^ r : Nat) : Int) "csd" 0 a2 = (cnotsOf false (buildCsd r 0) : Int) := by
  match r, hr with
  | 1, _ => rw [(est_small "csd" 0 a2).1]; rfl
  | 2, _ => rw [(est_small "csd" 0 a2).2]; rfl
  | n + 3, _ => rw [est_csd n a2]; simp [cnotsOf]

theorem est_iso_all (r iso : Nat) (hr : 1 ≤ r) (hiso : 1 ≤ iso) :
    unitary.cnot_count_estimate ((2 ^ r : Nat) : Int) "qsd" (iso : Int) true
      = (cnotsOf true (buildQsd r iso) : Int) := by
  match r, hr with
  | 1, _ => rw [(est_small "qsd" iso true).1]; rfl
  | 2, _ => rw [(est_small "qsd" iso true).2]; rfl
  | n + 3, _ => exact est_iso n iso hiso

theorem isoEst_eq (s : IsoScheme) (r c : Nat) (hr : 1 ≤ r) (hc : c < r) :
    isoEst s r c = ((isoComp s r c).cnots : Int) := by
  cases s with
  | ccd => simp only [isoEst, isoComp, Comp.cnots, est_ccd]; simp [cnotsOf]
  | csd =>
    simp only [isoEst, isoComp, Comp.cnots]
    have e : (r : Int) - (c : Int) = ((r - c : Nat) : Int) := by omega
    rw [e, est_iso_all r (r - c) hr (by omega)]

theorem two_pow_half (r c : Nat) (hr : 1 ≤ r) : (2 ^ r / 2 = 2 ^ c) ↔ r = c + 1 := by
  obtain ⟨k, rfl⟩ : ∃ k, r = k + 1 := ⟨r - 1, by omega⟩
  rw [Nat.pow_succ, Nat.mul_div_cancel _ (by omega : 0 < 2)]
  constructor
  · intro h
    rcases Nat.lt_trichotomy k c with hlt | heq | hgt
    · have := Nat.pow_lt_pow_right (a := 2) (by omega) hlt; omega
    · omega
    · have := Nat.pow_lt_pow_right (a := 2) (by omega) hgt; omega
  · intro h; have : k = c := by omega
    rw [this]

theorem cnotsMatrix_eq (iso : IsoScheme) (uni : Dec) (r c : Nat) (hr : 1 ≤ r) (hc : c ≤ r) :
    cnotsMatrix iso uni r c = ((encMatrix iso uni r c).cnots : Int) := by
  unfold cnotsMatrix encMatrix
  by_cases h1 : r = c + 1
  · have := (two_pow_half r c hr).mpr h1
    rw [if_pos this, if_pos h1]
    exact isoEst_eq .csd r c hr (by omega)
  · have h1' : ¬ (2 ^ r / 2 = 2 ^ c) := fun h => h1 ((two_pow_half r c hr).mp h)
    simp only [h1, h1', if_false]
    by_cases h2 : r > c
    · have : 2 ^ r > 2 ^ c := Nat.pow_lt_pow_right (by omega) h2
      simp only [this, h2, if_true]
      exact isoEst_eq iso r c hr h2
    · have hrc : r = c := by omega
      have : ¬ (2 ^ r > 2 ^ c) := by rw [hrc]; omega
      simp only [this, h2, if_false, Comp.cnots]
      cases uni with
      | qsd => exact est_qsd_all r hr true
      | csd => exact est_csd_all r hr true

theorem compsCnots_append (a b : List Comp) : compsCnots (a ++ b) = compsCnots a + compsCnots b := by
  simp [compsCnots, List.sum_append]

/-- the low-rank estimate is the structural count of the low-rank circuit, phase by phase -/
theorem lrEst_eq (iso : IsoScheme) (uni : Dec) (fuel : Nat) :
    ∀ n p e : Nat, (n < 2 ∨ (1 ≤ p ∧ p < n ∧ e ≤ p ∧ e ≤ n - p)) →
      lrEst iso uni fuel n p e = (compsCnots (lrComps iso uni fuel n p e) : Int) := by
  induction fuel with
  | zero => intro n p e _; rfl
  | succ fuel ih =>
    intro n p e hv
    unfold lrEst lrComps
    by_cases hn : n < 2
    · simp only [hn, if_true]; rfl
    · simp only [hn, if_false]
      have hv' : 1 ≤ p ∧ p < n ∧ e ≤ p ∧ e ≤ n - p := by
        cases hv with
        | inl h => exact absurd h hn
        | inr h => exact h
      have hdef : ∀ r : Nat, defaultP r = (r + 1) / 2 := by
        intro r
        simp only [defaultP, lowrank.default_partition, pyRange, List.length_map, List.length_range]
        omega
      have vecEq : ∀ r : Nat, lrEst iso uni fuel r (defaultP r) (r / 2)
          = (compsCnots (lrComps iso uni fuel r (defaultP r) (r / 2)) : Int) := by
        intro r
        apply ih
        rw [hdef]
        omega
      have encEq : ∀ r c : Nat, 1 ≤ r → c ≤ r →
          (if 2 ^ c = 1 then lrEst iso uni fuel r (defaultP r) (r / 2) else cnotsMatrix iso uni r c)
            = (compsCnots (if c = 0 then lrComps iso uni fuel r (defaultP r) (r / 2) else [encMatrix iso uni r c]) : Int) := by
        intro r c hr hc
        by_cases hc0 : c = 0
        · subst hc0; simp only [Nat.pow_zero, if_true]; exact vecEq r
        · have : ¬ (2 ^ c = 1) := by
            intro h
            have : 2 ^ 0 < 2 ^ c := Nat.pow_lt_pow_right (a := 2) (by omega) (by omega)
            omega
          simp only [this, hc0, if_false, cnotsMatrix_eq iso uni r c hr hc]
          simp [compsCnots]
      rw [encEq (n - p) e (by omega) hv'.2.2.2, encEq p e hv'.1 hv'.2.2.1]
      simp only [compsCnots_append]
      by_cases he : e = 0
      · subst he
        simp [compsCnots, Comp.cnots, cnotsOf, Prim.cost]
      · have he' : e > 0 := by omega
        simp only [he, he', if_false, if_true, vecEq e]
        simp [compsCnots, Comp.cnots, cnotsOf, Prim.cost] <;> omega

end Qclib.Cnot
