import QclibModel.Spec.Baa
import QclibModel.Proofs.BaaPartition
import QclibModel.Proofs.BaaBudget
import QclibModel.Proofs.SchmidtIndex
import Mathlib.Algebra.BigOperators.Group.List.Basic
/-
  C08, exactness at zero loss: if every approximation on the path of a node has loss 0 and the
  oracle's zero-loss answers are exact Schmidt factorisations (C09's `schmidt_composition` with one
  term and coefficient 1 gives back the vector), the product state described by the node's plan is
  the input vector — for arbitrarily interleaved registers.
-/
namespace Qclib.Baa
open Qclib.Schmidt

/-! ### index algebra: reading a register through its local partition -/

theorem gather_gather (l reg : List Nat) (b : List Bool) (h : ∀ a ∈ l, a < reg.length) :
    gather l (gather reg b) = gather (l.map (fun a => reg.getD a 0)) b := by
  unfold gather
  rw [List.map_map]
  apply List.map_congr_left
  intro a ha
  have hlt := h a ha
  simp [List.getD_eq_getElem?_getD, List.getElem?_map, List.getElem?_eq_getElem hlt]

theorem map_getD_range_nat (reg : List Nat) :
    (List.range reg.length).map (fun a => reg.getD a 0) = reg := by
  apply List.ext_getElem
  · simp
  · intro i h1 h2
    simp [List.getD_eq_getElem?_getD, h2]

theorem restAxes_map (reg part : List Nat) (hs : reg.Pairwise (· < ·)) (hp : part.Pairwise (· < ·))
    (hsub : ∀ q ∈ part, q ∈ reg) :
    (restAxes reg.length (localPartition reg part)).map (fun a => reg.getD a 0)
      = reg.filter (fun q => !part.contains q) := by
  have hnd : reg.Nodup := hs.imp (fun h => by omega)
  have hlp := (localPartition_spec reg part hs hp hsub).1
  unfold restAxes
  conv => rhs; rw [← map_getD_range_nat reg, List.filter_map]
  congr 1
  apply List.filter_congr
  intro a ha
  have halt : a < reg.length := by simpa using ha
  simp only [Function.comp, List.getD_eq_getElem?_getD, List.getElem?_eq_getElem halt,
    Option.getD_some]
  congr 1
  rw [hlp]
  rw [Bool.eq_iff_iff]
  simp only [List.contains_iff_mem, List.mem_map]
  constructor
  · rintro ⟨q, hq, rfl⟩
    rw [List.getElem_idxOf]
    exact hq
  · intro h
    exact ⟨reg[a], h, hnd.idxOf_getElem a halt⟩

/-- The row/column of `_separation_matrix` for the index that reads the global axis values `b` at
the register: row = the axis values at the rest of the register, column = those at the partition. -/
theorem split_index (reg part : List Nat) (hs : reg.Pairwise (· < ·)) (hp : part.Pairwise (· < ·))
    (hsub : ∀ q ∈ part, q ∈ reg) (b : List Bool) :
    sepIndexAx reg.length (localPartition reg part) (ofBits (gather reg b))
      = (ofBits (gather (reg.filter (fun q => !part.contains q)) b), ofBits (gather part b)) := by
  have hl := localPartition_spec reg part hs hp hsub
  rw [sepIndexAx_eq]
  have h1 : toBits reg.length (ofBits (gather reg b)) = gather reg b := by
    have := toBits_ofBits (gather reg b)
    rwa [length_gather] at this
  rw [h1, gather_gather _ reg b (fun a ha => (mem_restAxes.mp ha).1),
    gather_gather _ reg b hl.2.2.1, restAxes_map reg part hs hp hsub, hl.2.2.2]

/-! ### products over a plan -/

theorem prod_eraseIdx {R : Type} [CommMonoid R] (f : Entry → R) (l : List Entry) (idx : Nat)
    (orig : Entry) (h : l[idx]? = some orig) :
    (l.map f).prod = f orig * ((l.eraseIdx idx).map f).prod := by
  induction l generalizing idx with
  | nil => simp at h
  | cons x xs ih =>
    cases idx with
    | zero =>
      simp only [List.getElem?_cons_zero, Option.some.injEq] at h
      subst h
      simp
    | succ i =>
      simp only [List.getElem?_cons_succ] at h
      simp only [List.map_cons, List.prod_cons, List.eraseIdx_cons_succ, ih i h]
      rw [mul_left_comm]

/-- Amplitude of the product state described by a plan at the global axis values `b`. -/
def planValue {R : Type} [CommMonoid R] (val : Nat → Nat → R) (entries : List Entry) (b : List Bool) : R :=
  (entries.map (fun e => val e.vec (ofBits (gather e.qubits b)))).prod

/-! ### candidates are non-empty proper subsets (all strategies but greedy) -/

/-- Every candidate bipartition of a register of at least two qubits, for an admissible `max_k`,
is non-empty and leaves something over. -/
def ProperCandidates {α : Type} (L : LossOps α) (O : Oracle α) (s : Strategy) : Prop :=
  ∀ (ent : Entry) (k : Nat), 2 ≤ ent.qubits.length → 1 ≤ k → k ≤ ent.qubits.length / 2 →
    ∀ part ∈ (candidates L O s ent k).1, part ≠ [] ∧ part.length < ent.qubits.length

theorem properCandidates_of_ne_greedy {α : Type} (L : LossOps α) (O : Oracle α) (s : Strategy)
    (hs : s ≠ .greedy) : ProperCandidates L O s := by
  intro ent k hlen hk1 hk2 part hp
  have key : part.length = k ∨ (1 ≤ part.length ∧ part.length < k) →
      part ≠ [] ∧ part.length < ent.qubits.length := by
    intro h
    constructor
    · intro h0; subst h0; simp at h; omega
    · rcases h with h | h <;> omega
  cases s with
  | greedy => exact absurd rfl hs
  | split =>
    simp only [candidates] at hp
    exact key (Or.inl (combinations_sublist _ _ _ (splitCombinations_mem _ _ _ hp)).2)
  | canonical =>
    simp only [candidates, List.mem_singleton] at hp
    subst hp
    exact key (Or.inl (by simp; omega))
  | brute =>
    simp only [candidates, allCombinations] at hp
    rcases List.mem_append.mp hp with h | h
    · obtain ⟨j, hj, hjc⟩ := List.mem_flatMap.mp h
      have := (combinations_sublist _ _ _ hjc).2
      simp only [List.mem_range'_1] at hj
      exact key (Or.inr (by omega))
    · exact key (Or.inl (combinations_sublist _ _ _ (splitCombinations_mem _ _ _ h)).2)

theorem clampK_range (k0 len : Nat) (h : 2 ≤ len) : 1 ≤ clampK k0 len ∧ clampK k0 len ≤ len / 2 := by
  unfold clampK
  split <;> omega

/-! ### the entry `_create_node` replaces is the one that was expanded -/

theorem same_register_eq (entries : List Entry) (hnd : (entries.flatMap (·.qubits)).Nodup)
    (a b : Entry) (ha : a ∈ entries) (hb : b ∈ entries) (hq : a.qubits = b.qubits)
    (hne : a.qubits ≠ []) : a = b := by
  induction entries with
  | nil => simp at ha
  | cons x xs ih =>
    simp only [List.flatMap_cons] at hnd
    have hd := List.nodup_append.mp hnd
    obtain ⟨q, hqa⟩ := List.exists_mem_of_ne_nil _ hne
    rcases List.mem_cons.mp ha with rfl | ha'
    · rcases List.mem_cons.mp hb with h | h
      · exact h.symm
      · exfalso
        exact hd.2.2 q hqa q (List.mem_flatMap.mpr ⟨b, h, hq ▸ hqa⟩) rfl
    · rcases List.mem_cons.mp hb with rfl | h
      · exfalso
        exact hd.2.2 q (hq ▸ hqa) q (List.mem_flatMap.mpr ⟨a, ha', hqa⟩) rfl
      · exact ih hd.2.1 ha' h

theorem unique_register (n : Nat) (entries : List Entry) (hok : RegOK n entries)
    (ent : Entry) (hent : ent ∈ entries) (hne : ent.qubits ≠ [])
    (idx : Nat) (orig : Entry)
    (hidx : entries.findIdx? (fun x => x.qubits == ent.qubits) = some idx)
    (horig : entries[idx]? = some orig) : orig = ent := by
  have hnd : (entries.flatMap (·.qubits)).Nodup := hok.cover.nodup_iff.mpr List.nodup_range
  have hoq : orig.qubits = ent.qubits := by
    have h1 := List.findIdx?_eq_some_iff_getElem.mp hidx
    obtain ⟨hlt, hp, _⟩ := h1
    have : entries[idx] = orig := by
      have := List.getElem?_eq_getElem hlt
      rw [this] at horig
      exact Option.some.inj horig
    rw [this] at hp
    simpa using hp
  exact (same_register_eq entries hnd ent orig hent (List.mem_of_getElem? horig) hoq.symm hne).symm

theorem reduceEntanglement_vecs {α : Type} (O : Oracle α) (vec : Nat) (reg part : List Nat)
    (u : Bool) (e : EInfo α) (h : e ∈ reduceEntanglement O vec reg part u) :
    ∃ s ∈ O.schmidt vec (localPartition reg part) u, e.loss = s.loss ∧ e.rank = s.rank ∧
      e.vecV = s.vecV ∧ e.vecU = s.vecU ∧ e.vecA = s.vecA := by
  unfold reduceEntanglement at h
  obtain ⟨s, hs, rfl⟩ := List.mem_map.mp h
  exact ⟨s, hs, rfl, rfl, rfl, rfl, rfl⟩

/-! ### exact oracle answers -/

/-- The zero-loss answers of the oracle are exact: a rank-one answer factorises the vector across
the local partition (`v[i] = u[row(i)] · w[col(i)]` with `row, col` the index maps of
`_separation_matrix`, i.e. C09's `schmidtCompose` with one term and coefficient 1 is `v`), an
answer of higher rank reproduces the vector; `size` is the number of qubits of each vector. -/
def ExactSplits {K R : Type} [Zero K] [Mul R] (O : Oracle K) (val : Nat → Nat → R) (size : Nat → Nat) :
    Prop :=
  ∀ vec lp u, ∀ s ∈ O.schmidt vec lp u, s.loss = 0 → lp.Pairwise (· < ·) →
    (∀ a ∈ lp, a < size vec) →
    (s.rank = 1 → size s.vecV = lp.length ∧ size s.vecU = size vec - lp.length ∧
      ∀ i, i < 2 ^ size vec →
        val vec i = val s.vecU (sepIndexAx (size vec) lp i).1 * val s.vecV (sepIndexAx (size vec) lp i).2) ∧
    (s.rank ≠ 1 → size s.vecA = size vec ∧ ∀ i, i < 2 ^ size vec → val s.vecA i = val vec i)

structure SemOK {R : Type} [CommMonoid R] (n vec : Nat) (val : Nat → Nat → R) (size : Nat → Nat)
    (entries : List Entry) : Prop where
  reg : RegOK n entries
  nonempty : ∀ e ∈ entries, e.qubits ≠ []
  sizes : ∀ e ∈ entries, size e.vec = e.qubits.length
  value : ∀ b : List Bool, planValue val entries b = val vec (ofBits (gather (List.range n) b))

theorem filter_length_lt (reg part : List Nat) (hp : part.Pairwise (· < ·))
    (hsub : ∀ q ∈ part, q ∈ reg) (hs : reg.Pairwise (· < ·)) :
    (reg.filter (fun q => !part.contains q)).length + part.length = reg.length := by
  have := (split_perm reg part hs hp hsub).length_eq
  rw [sortU_of_pairwise _ (hs.filter _)] at this
  simp only [List.length_append] at this
  omega

theorem childOf_semOK {K R : Type} [CommRing K] [LinearOrder K] [CommMonoid R]
    (O : Oracle K) (P : Params K) (n vec : Nat) (val : Nat → Nat → R) (size : Nat → Nat)
    (hex : ExactSplits O val size) (hprop : ProperCandidates (orderedOps K) O P.strategy)
    (nd c : Node K) (hi : SemOK n vec val size nd.entries) (hc : ChildOf (orderedOps K) O P nd c)
    (hzero : c.nodeLoss = 0) : SemOK n vec val size c.entries := by
  obtain ⟨ent, part, e, k0, hent, hr0, hpart, he, _, hcn, _⟩ := hc
  have hs := hi.reg.sorted ent hent
  have hcand := candidates_ok _ O P.strategy ent _ hs part hpart
  have hf := reduceEntanglement_fields O _ _ _ _ e he
  have hlen2 : 2 ≤ ent.qubits.length := by
    have h1 := hi.reg.rank0 ent hent hr0
    have h2 := hi.nonempty ent hent
    have : ent.qubits.length ≠ 0 := fun h => h2 (List.length_eq_zero_iff.mp h)
    omega
  have hck := clampK_range k0 _ hlen2
  have hpr := hprop ent _ hlen2 hck.1 hck.2 part hpart
  have hregOK := createNode_regOK _ O n nd c e ent.qubits part hcn hi.reg hf.1 hf.2.1 hf.2.2
    hcand.1 hcand.2 (hi.reg.rank0 ent hent hr0)
  obtain ⟨idx, orig, hidx, horig, _, _, _, hnl, _, hentries⟩ := createNode_some _ O nd c e hcn
  rw [hf.1] at hidx
  have huniq := unique_register n nd.entries hi.reg ent hent (hi.nonempty ent hent) idx orig hidx horig
  subst huniq
  obtain ⟨s, hsm, hls, hrk, hvV, hvU, hvA⟩ := reduceEntanglement_vecs O _ _ _ _ e he
  have hs0 : s.loss = 0 := by rw [← hls, ← hnl]; exact hzero
  have hl := localPartition_spec orig.qubits part hs hcand.1 hcand.2
  have hsz := hi.sizes orig hent
  have hexs := hex orig.vec _ P.ulr s hsm hs0 hl.2.1 (by rw [hsz]; exact hl.2.2.1)
  have hfl := filter_length_lt orig.qubits part hcand.1 hcand.2 hs
  have hp1 : sortU (orig.qubits.filter (fun q => !part.contains q))
      = orig.qubits.filter (fun q => !part.contains q) := sortU_of_pairwise _ (hs.filter _)
  have hnew : ∀ x ∈ newEntries e orig, x.qubits ≠ [] ∧ size x.vec = x.qubits.length := by
    intro x hx
    unfold newEntries at hx
    split at hx
    · rename_i hr1
      have hh := (hexs.1 (by rw [← hrk]; exact hr1))
      simp only [List.mem_cons, List.not_mem_nil, or_false] at hx
      rcases hx with rfl | rfl
      · refine ⟨by rw [hf.2.1]; exact hpr.1, ?_⟩
        simp only [hf.2.1]
        rw [hvV, hh.1, hl.1, List.length_map]
      · simp only [hf.2.1, hp1]
        refine ⟨?_, ?_⟩
        · intro h0
          rw [h0] at hfl
          simp at hfl
          omega
        · rw [hvU, hh.2.1, hsz, hl.1, List.length_map]
          omega
    · rename_i hr1
      have hh := (hexs.2 (by rw [← hrk]; exact hr1))
      simp only [List.mem_singleton] at hx
      subst hx
      exact ⟨hi.nonempty orig hent, by simp only; rw [hvA, hh.1, hsz]⟩
  refine ⟨hregOK, ?_, ?_, ?_⟩
  · intro x hx
    rw [hentries] at hx
    rcases List.mem_append.mp hx with hx | hx
    · exact hi.nonempty x (List.mem_of_mem_eraseIdx hx)
    · exact (hnew x hx).1
  · intro x hx
    rw [hentries] at hx
    rcases List.mem_append.mp hx with hx | hx
    · exact hi.sizes x (List.mem_of_mem_eraseIdx hx)
    · exact (hnew x hx).2
  · intro b
    rw [← hi.value b]
    unfold planValue
    rw [hentries, List.map_append, List.prod_append,
      prod_eraseIdx (fun e => val e.vec (ofBits (gather e.qubits b))) nd.entries idx orig horig,
      mul_comm]
    congr 1
    have hilt : ofBits (gather orig.qubits b) < 2 ^ size orig.vec := by
      have := ofBits_lt (gather orig.qubits b)
      rwa [length_gather, ← hsz] at this
    unfold newEntries
    split
    · rename_i hr1
      have hh := (hexs.1 (by rw [← hrk]; exact hr1)).2.2 _ hilt
      rw [hsz, split_index orig.qubits part hs hcand.1 hcand.2 b] at hh
      simp only [List.map_cons, List.map_nil, List.prod_cons, List.prod_nil, mul_one, hf.2.1, hp1]
      rw [hvV, hvU, hh, mul_comm]
    · rename_i hr1
      have hh := (hexs.2 (by rw [← hrk]; exact hr1)).2 _ hilt
      simp only [List.map_cons, List.map_nil, List.prod_cons, List.prod_nil, mul_one]
      rw [hvA]
      exact hh

theorem rootNode_semOK {K R : Type} [CommRing K] [LinearOrder K] [CommMonoid R] (n vec : Nat)
    (hn : 2 ≤ n) (val : Nat → Nat → R) (size : Nat → Nat) (hsize : size vec = n) :
    SemOK n vec val size (rootNode (orderedOps K) n vec).entries := by
  refine ⟨rootNode_regOK _ n vec (by omega), ?_, ?_, ?_⟩
  · intro e he
    simp only [rootNode, List.mem_singleton] at he
    subst he
    intro h
    have := congrArg List.length h
    simp at this
    omega
  · intro e he
    simp only [rootNode, List.mem_singleton] at he
    subst he
    simpa using hsize
  · intro b
    simp [planValue, rootNode]

/-- Zero losses along the path ⇒ the plan's product state is the input. -/
theorem reach_exact {K R : Type} [CommRing K] [LinearOrder K] [CommMonoid R]
    (O : Oracle K) (P : Params K) (n vec k0 : Nat) (hn : 2 ≤ n) (val : Nat → Nat → R)
    (size : Nat → Nat) (hsize : size vec = n) (hex : ExactSplits O val size)
    (hprop : ProperCandidates (orderedOps K) O P.strategy)
    (path : List (Node K)) (nd : Node K) (k : Nat)
    (h : Reach (orderedOps K) O P (rootNode (orderedOps K) n vec) k0 path nd k)
    (hz : ∀ x ∈ path, x.nodeLoss = 0) : SemOK n vec val size nd.entries := by
  have := Reach.induct (L := orderedOps K) (O := O) (P := P)
    (fun path nd => (∀ x ∈ path, x.nodeLoss = 0) → SemOK n vec val size nd.entries)
    (fun _ => rootNode_semOK n vec hn val size hsize)
    (fun path nd c hi hc hz' =>
      childOf_semOK O P n vec val size hex hprop nd c
        (hi (fun x hx => hz' x (by simp [hx]))) hc (hz' c (by simp))) h
  exact this hz

/-- Losses in `[0,1]` whose chain loss is `≤ 0` all vanish. -/
theorem chainLoss_le_zero {K : Type} [CommRing K] [LinearOrder K] [IsStrictOrderedRing K]
    (ls : List K) (h : ∀ l ∈ ls, 0 ≤ l ∧ l ≤ 1) (hc : chainLoss ls ≤ 0) : ∀ l ∈ ls, l = 0 := by
  induction ls with
  | nil => simp
  | cons l ls ih =>
    have hl := h l (by simp)
    have hrest := chainLoss_mem_unit ls (fun x hx => h x (by simp [hx]))
    rw [chainLoss_cons] at hc
    have h1 : (1 - l) * (1 - chainLoss ls) ≤ (1 - l) * 1 :=
      mul_le_mul_of_nonneg_left (by linarith) (by linarith)
    have h2 : (1 - l) * (1 - chainLoss ls) ≤ 1 * (1 - chainLoss ls) :=
      mul_le_mul_of_nonneg_right (by linarith) (by linarith)
    have hl0 : l = 0 := le_antisymm (by linarith) hl.1
    have hc0 : chainLoss ls ≤ 0 := by linarith
    intro x hx
    rcases List.mem_cons.mp hx with rfl | hx
    · exact hl0
    · exact ih (fun x hx => h x (by simp [hx])) hc0 x hx

end Qclib.Baa
