import Mathlib.Analysis.SpecialFunctions.Trigonometric.Basic
import Mathlib.Tactic.Ring
import Mathlib.Tactic.Linarith
/-
  C19, K3: the Grover recurrence on the (good, bad) plane.  Pure real trigonometry, no circuit.

  A vector of the plane spanned by the orthonormal pair `G` (good: flag 0, proportional to the
  target) and `B` (bad) is a coefficient pair `(g, b)` meaning `g·G + b·B`.  The state `U|0⟩` is
  `ψ = sin θ·G + cos θ·B`.
-/
namespace Qclib.BlackBox

/-- `I_t` restricted to the plane: `I − 2|G⟩⟨G|`, the matrix `diag(−1, 1)` in the `(G, B)` basis
(sign flip on the flag-0 component). -/
def refT (p : ℝ × ℝ) : ℝ × ℝ := (-p.1, p.2)

/-- `U·I_s·U†` restricted to the plane: `I − 2|ψ⟩⟨ψ|` with `ψ = (sin θ, cos θ)`:
`p ↦ p − 2⟨ψ,p⟩ψ`. -/
noncomputable def refS (θ : ℝ) (p : ℝ × ℝ) : ℝ × ℝ :=
  (p.1 - 2 * (Real.sin θ * p.1 + Real.cos θ * p.2) * Real.sin θ,
   p.2 - 2 * (Real.sin θ * p.1 + Real.cos θ * p.2) * Real.cos θ)

/-- One pass of the loop (`U; I_t; U†; I_s`, followed by the next `U`) on the plane. -/
noncomputable def roundStep (θ : ℝ) (p : ℝ × ℝ) : ℝ × ℝ := refS θ (refT p)

/-- One round is `−1 ×` the rotation by `2θ`. -/
theorem roundStep_polar (θ x α : ℝ) :
    roundStep θ (x * Real.sin α, x * Real.cos α)
      = (-(x * Real.sin (α + 2 * θ)), -(x * Real.cos (α + 2 * θ))) := by
  have hs := Real.sin_sq_add_cos_sq θ
  simp only [roundStep, refS, refT, Real.sin_add, Real.cos_add, Real.sin_two_mul, Real.cos_two_mul,
    Prod.mk.injEq]
  constructor
  · linear_combination (2 * x * Real.sin α) * hs
  · ring

/-- As a matrix identity: one round is `−[[cos 2θ, sin 2θ], [−sin 2θ, cos 2θ]]`. -/
theorem roundStep_matrix (θ : ℝ) (p : ℝ × ℝ) :
    roundStep θ p
      = (-(Real.cos (2 * θ) * p.1 + Real.sin (2 * θ) * p.2),
         -(-(Real.sin (2 * θ)) * p.1 + Real.cos (2 * θ) * p.2)) := by
  have hs := Real.sin_sq_add_cos_sq θ
  simp only [roundStep, refS, refT, Real.sin_two_mul, Real.cos_two_mul, Prod.mk.injEq]
  have h1 : Real.sin θ ^ 2 = 1 - Real.cos θ ^ 2 := by linarith
  constructor
  · ring_nf; rw [h1]; ring
  · ring_nf

/-- After `r` rounds starting from `ψ = (sin θ, cos θ)` the coefficients are
`(−1)^r·(sin((2r+1)θ), cos((2r+1)θ))`. -/
theorem rounds_closed (θ : ℝ) (r : Nat) :
    (roundStep θ)^[r] (Real.sin θ, Real.cos θ)
      = ((-1) ^ r * Real.sin ((2 * r + 1) * θ), (-1) ^ r * Real.cos ((2 * r + 1) * θ)) := by
  induction r with
  | zero => simp
  | succ r ih =>
    rw [Function.iterate_succ_apply', ih, roundStep_polar]
    have : (2 * (r : ℝ) + 1) * θ + 2 * θ = (2 * ((r + 1 : Nat) : ℝ) + 1) * θ := by
      push_cast; ring
    rw [this, pow_succ]
    simp only [Prod.mk.injEq]
    constructor <;> ring

end Qclib.BlackBox
