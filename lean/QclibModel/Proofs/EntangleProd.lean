import QclibModel.Proofs.EntangleMw
/-
  C20 — converse: if every per-qubit cross sum vanishes the vector is a product state
  (induction on the number of qubits, splitting off the top qubit).
-/
namespace Qclib.Ent
open Finset Complex

theorem insBit_insBit {k q : ℕ} (hkq : k ≤ q) (s c : Bool) (r : ℕ) :
    insBit k s (insBit q c r) = insBit (q + 1) c (insBit k s r) := by
  apply Nat.eq_of_testBit_eq; intro i
  simp only [testBit_insBit]
  split_ifs <;> first | rfl | (exfalso; omega)

/-- Vanishing cross sums for every qubit force a product form (up to a scalar). -/
theorem product_of_zero_aux : ∀ (n : ℕ) (ψ : ℕ → ℂ),
    (∀ k, k < n → crossSum (2 ^ (n - 1)) (slice ψ k false) (slice ψ k true) = 0) →
    ∃ (c : ℂ) (f : ℕ → Bool → ℂ), ∀ b, b < 2 ^ n → ψ b = c * prodState n f b := by
  intro n
  induction n with
  | zero =>
    intro ψ _
    refine ⟨ψ 0, fun _ _ => 1, fun b hb => ?_⟩
    have : b = 0 := by simpa using hb
    subst this; simp [prodState]
  | succ n ih =>
    intro ψ hz
    simp only [Nat.add_sub_cancel] at hz
    -- step 1: split off the top qubit
    have htop := (crossSum_eq_zero_iff_proportional _ _ _).mp (hz n (Nat.lt_succ_self n))
    obtain ⟨a, b, hab, hprop⟩ := htop
    have hsplit : ∃ (g : Bool → ℂ) (φ : ℕ → ℂ), (g false ≠ 0 ∨ g true ≠ 0) ∧
        ∀ c i, i < 2 ^ n → ψ (insBit n c i) = g c * φ i := by
      by_cases ha : a = 0
      · have hb : b ≠ 0 := by rcases hab with h | h; exact absurd ha h; exact h
        refine ⟨fun c => if c then 0 else 1, slice ψ n false, Or.inl (by simp), ?_⟩
        intro c i hi
        cases c
        · simp [slice]
        · have := hprop i hi
          rw [ha, zero_mul] at this
          have hv : slice ψ n true i = 0 := by
            rcases mul_eq_zero.mp this.symm with h | h
            · exact absurd h hb
            · exact h
          simpa [slice] using hv
      · refine ⟨fun c => if c then 1 else b / a, slice ψ n true, Or.inr (by simp), ?_⟩
        intro c i hi
        cases c
        · have := hprop i hi
          simp only [slice] at this
          simp only [Bool.false_eq_true, if_false, slice]
          field_simp
          linear_combination this
        · simp [slice]
    obtain ⟨g, φ, hg, hφ⟩ := hsplit
    -- step 2: the remaining vector has vanishing cross sums
    have hφz : ∀ k, k < n → crossSum (2 ^ (n - 1)) (slice φ k false) (slice φ k true) = 0 := by
      intro k hk
      obtain ⟨n', rfl⟩ : ∃ n', n = n' + 1 := ⟨n - 1, by omega⟩
      simp only [Nat.add_sub_cancel]
      obtain ⟨c0, hc0⟩ : ∃ c0, g c0 ≠ 0 := by
        rcases hg with h | h
        · exact ⟨false, h⟩
        · exact ⟨true, h⟩
      rw [crossSum_eq_zero_iff]
      intro i j hi hj
      have hk' : k < n' + 1 + 1 := by omega
      have hm := (crossSum_eq_zero_iff _ _ _).mp (hz k hk')
        (insBit n' c0 i) (insBit n' c0 j)
        (by have := insBit_lt c0 (Nat.lt_succ_self n') (n := n' + 1) (r := i) (by simpa using hi); exact this)
        (by have := insBit_lt c0 (Nat.lt_succ_self n') (n := n' + 1) (r := j) (by simpa using hj); exact this)
      have hsl : ∀ s x, x < 2 ^ n' → slice ψ k s (insBit n' c0 x) = g c0 * slice φ k s x := by
        intro s x hx
        unfold slice
        rw [insBit_insBit (by omega : k ≤ n')]
        exact hφ c0 _ (by have := insBit_lt s hk (n := n' + 1) (r := x) (by simpa using hx); exact this)
      rw [hsl false i hi, hsl true j hj, hsl false j hj, hsl true i hi] at hm
      apply mul_left_cancel₀ (mul_ne_zero hc0 hc0)
      linear_combination hm
    -- step 3: induction hypothesis and reassembly
    obtain ⟨c, f, hf⟩ := ih φ hφz
    refine ⟨c, fun i => if i = n then g else f i, fun x hx => ?_⟩
    have hx' : delBit n x < 2 ^ n := by
      have := delBit_lt (Nat.lt_succ_self n) hx; simpa using this
    rw [← insBit_delBit n x, hφ _ _ hx', hf _ hx', insBit_delBit]
    unfold prodState
    rw [prod_range_succ]
    simp only [if_true]
    have : ∏ k ∈ range n, (if k = n then g else f k) (x.testBit k)
        = ∏ k ∈ range n, f k ((delBit n x).testBit k) := by
      apply prod_congr rfl; intro i hi
      have hi' := mem_range.mp hi
      have hne : i ≠ n := by omega
      rw [testBit_delBit]; simp [hne, hi']
    rw [this]; ring

/-- For `n ≥ 1` the scalar can be absorbed into the first factor. -/
theorem product_of_zero {n : ℕ} (hn : 0 < n) (ψ : ℕ → ℂ)
    (hz : ∀ k, k < n → crossSum (2 ^ (n - 1)) (slice ψ k false) (slice ψ k true) = 0) :
    ∃ f : ℕ → Bool → ℂ, ∀ b, b < 2 ^ n → ψ b = prodState n f b := by
  obtain ⟨c, f, hf⟩ := product_of_zero_aux n ψ hz
  refine ⟨fun i => if i = 0 then (fun s => c * f 0 s) else f i, fun b hb => ?_⟩
  rw [hf b hb]
  unfold prodState
  rw [← mul_prod_erase (range n) _ (mem_range.mpr hn), ← mul_prod_erase (range n) _ (mem_range.mpr hn)]
  simp only [if_true]
  have : ∏ x ∈ (range n).erase 0, (if x = 0 then fun s => c * f 0 s else f x) (b.testBit x)
      = ∏ x ∈ (range n).erase 0, f x (b.testBit x) := by
    apply prod_congr rfl; intro i hi
    have : i ≠ 0 := (mem_erase.mp hi).1
    simp [this]
  rw [this]; ring

end Qclib.Ent
