import QclibModel.Model.FnPoints
/-  C18: `n_output_values` as computed by `__init__` is `max(N, max s − 1)`. -/
namespace Qclib

theorem fn_foldl_max_ge (l : List Int) (a : Int) :
    a ≤ l.foldl max a ∧ ∀ s, s ∈ l → s ≤ l.foldl max a := by
  induction l generalizing a with
  | nil => exact ⟨Int.le_refl a, fun s hs => by cases hs⟩
  | cons x l ih =>
    have h := ih (max a x)
    refine ⟨Int.le_trans (Int.le_max_left a x) h.1, ?_⟩
    intro s hs
    rcases List.mem_cons.mp hs with rfl | hs'
    · exact Int.le_trans (Int.le_max_right a s) h.1
    · exact h.2 s hs'

theorem fn_foldl_max_mem (l : List Int) (a : Int) : l.foldl max a = a ∨ l.foldl max a ∈ l := by
  induction l generalizing a with
  | nil => exact Or.inl rfl
  | cons x l ih =>
    rcases ih (max a x) with h | h
    · rcases Int.le_total a x with hax | hax
      · right
        show List.foldl max (max a x) l ∈ x :: l
        rw [h, Int.max_eq_right hax]; exact List.mem_cons_self ..
      · left
        show List.foldl max (max a x) l = a
        rw [h, Int.max_eq_left hax]
    · right; exact List.mem_cons_of_mem _ h

theorem fnMaxS_spec (ss : List Int) (hne : ss ≠ []) :
    fnMaxS ss ∈ ss ∧ ∀ s, s ∈ ss → s ≤ fnMaxS ss := by
  cases ss with
  | nil => exact absurd rfl hne
  | cons x l =>
    unfold fnMaxS
    refine ⟨?_, (fn_foldl_max_ge (x :: l) x).2⟩
    rcases fn_foldl_max_mem (x :: l) x with h | h
    · show List.foldl max x (x :: l) ∈ x :: l
      rw [h]; exact List.mem_cons_self ..
    · exact h

end Qclib
