import QclibModel.Proofs.McxVchain
/-
  C05: `apply_ctrl_state` — conjugation by `x` on the controls whose pattern bit is `'0'`
  (string read in reverse) turns "all controls 1" into "controls match the pattern".
-/
set_option linter.unusedSectionVars false

namespace Qclib
open RotSem

theorem flatMap_filter_map {α β : Type} (l : List α) (p : α → Bool) (f : α → β) :
    l.flatMap (fun i => if p i = true then [] else [f i]) = (l.filter (fun i => !p i)).map f := by
  induction l with
  | nil => rfl
  | cons x l ih =>
    rw [List.flatMap_cons, ih]
    by_cases h : p x = true
    · simp [h]
    · simp [h]

/-- The wires that get an `x`: control `i` for every `'0'` at position `i` of the reversed
string. -/
def csFlips (c : Nat → Nat) (cs : Option (List Bool)) : List Nat :=
  match cs with
  | none => []
  | some p => ((List.range p.reverse.length).filter (fun i => !(p.reverse.getD i true))).map c

section
variable {Θ : Type}

theorem ctrlXs_eq (k : Nat) (c : Nat → Nat) (cs : Option (List Bool)) (xs : Circ Θ)
    (h : ctrlXs k c cs = some xs) :
    xs = (csFlips c cs).map (fun w => (G.x w : G Θ))
      ∧ ∀ i, csBit cs i = false → i < k := by
  cases cs with
  | none =>
    simp only [ctrlXs, Option.some.injEq] at h
    subst h
    exact ⟨rfl, fun i hi => by simp [csBit] at hi⟩
  | some p =>
    simp only [ctrlXs] at h
    split at h
    · rename_i hall
      simp only [Option.some.injEq] at h
      subst h
      constructor
      · simp only [csFlips, List.map_map]
        rw [flatMap_filter_map]
        rfl
      · intro i hi
        simp only [csBit] at hi
        have hlt : i < p.reverse.length := by
          by_contra hge
          have : p.reverse.getD i true = true := by
            rw [List.getD_eq_getElem?_getD, List.getElem?_eq_none (by omega)]
            rfl
          rw [this] at hi
          exact Bool.noConfusion hi
        have := List.all_eq_true.mp hall i (List.mem_range.mpr hlt)
        rw [hi] at this
        simpa using this
    · exact absurd h (by simp)

theorem csFlips_mem (k : Nat) (c : Nat → Nat) (cs : Option (List Bool)) (q : Nat)
    (hlt : ∀ i, csBit cs i = false → i < k) :
    q ∈ csFlips c cs ↔ ∃ i, i < k ∧ csBit cs i = false ∧ c i = q := by
  cases cs with
  | none => simp [csFlips, csBit]
  | some p =>
    simp only [csFlips, csBit, List.mem_map, List.mem_filter, List.mem_range, Bool.not_eq_eq_eq_not,
      Bool.not_true]
    constructor
    · rintro ⟨i, ⟨_, hb⟩, rfl⟩
      exact ⟨i, hlt i hb, hb, rfl⟩
    · rintro ⟨i, _, hb, rfl⟩
      refine ⟨i, ⟨?_, hb⟩, rfl⟩
      by_contra hge
      have : p.reverse.getD i true = true := by
        rw [List.getD_eq_getElem?_getD, List.getElem?_eq_none (by omega)]
        rfl
      rw [this] at hb
      exact Bool.noConfusion hb

theorem csFlips_nodup (k : Nat) (c : Nat → Nat) (cs : Option (List Bool))
    (hlt : ∀ i, csBit cs i = false → i < k)
    (hcc : ∀ i j, i < k → j < k → c i = c j → i = j) : (csFlips c cs).Nodup := by
  cases cs with
  | none => exact List.nodup_nil
  | some p =>
    refine List.Nodup.map_on (fun i hi j hj h => ?_) (List.nodup_range.filter _)
    have hi' := (List.mem_filter.mp hi).2
    have hj' := (List.mem_filter.mp hj).2
    simp only [Bool.not_eq_eq_eq_not, Bool.not_true] at hi' hj'
    exact hcc i j (hlt i hi') (hlt j hj') h

/-- After the `x` layer, control `i` reads 1 iff it matched its pattern bit before. -/
theorem fl_ctrl (k : Nat) (c : Nat → Nat) (cs : Option (List Bool))
    (hlt : ∀ i, csBit cs i = false → i < k)
    (hcc : ∀ i j, i < k → j < k → c i = c j → i = j) (b : Bits) (i : Nat) (hi : i < k) :
    (flipAll (csFlips c cs) b) (c i) = (b (c i) == csBit cs i) := by
  rw [flipAll_get _ (csFlips_nodup k c cs hlt hcc)]
  have hm := csFlips_mem k c cs (c i) hlt
  by_cases hb : csBit cs i = false
  · have : c i ∈ csFlips c cs := hm.mpr ⟨i, hi, hb, rfl⟩
    rw [if_pos this, hb]
    cases b (c i) <;> rfl
  · have hb' : csBit cs i = true := by simpa using hb
    have : ¬ c i ∈ csFlips c cs := by
      intro hmem
      obtain ⟨j, hj, hbj, e⟩ := hm.mp hmem
      have := hcc j i hj hi e
      subst this
      rw [hb'] at hbj
      exact Bool.noConfusion hbj
    rw [if_neg this, hb']
    cases b (c i) <;> rfl

theorem fl_other (k : Nat) (c : Nat → Nat) (cs : Option (List Bool))
    (hlt : ∀ i, csBit cs i = false → i < k) (b : Bits) (q : Nat) (hq : ∀ i, i < k → c i ≠ q) :
    (flipAll (csFlips c cs) b) q = b q := by
  apply flipAll_get_not_mem
  rw [csFlips_mem k c cs _ hlt]
  rintro ⟨i, hi, _, e⟩
  exact hq i hi e

theorem ctrlOk_patLits_succ (k : Nat) (c : Nat → Nat) (cs : Option (List Bool)) (b : Bits) :
    ctrlOk (patLits (k + 1) c cs) b = (ctrlOk (patLits k c cs) b && (b (c k) == csBit cs k)) := by
  simp [ctrlOk, patLits, List.range_succ, List.all_append]

theorem all1_fl (k : Nat) (c : Nat → Nat) (cs : Option (List Bool))
    (hlt : ∀ i, csBit cs i = false → i < k)
    (hcc : ∀ i j, i < k → j < k → c i = c j → i = j) (b : Bits) (k' : Nat) (hk' : k' ≤ k) :
    all1 c k' (flipAll (csFlips c cs) b) = ctrlOk (patLits k' c cs) b := by
  induction k' with
  | zero => rfl
  | succ n ih =>
    rw [all1, ih (by omega), ctrlOk_patLits_succ, fl_ctrl k c cs hlt hcc b n (by omega)]

end

section conj
variable {Θ R : Type} [CommRing R] [RotSem Θ R]

theorem conj_xs (l : List Nat) (body : Circ Θ) (ψ : State R) :
    sem (l.map (fun w => (G.x w : G Θ)) ++ body ++ l.map (fun w => (G.x w : G Θ))) ψ
      = fun b => sem body (fun b' => ψ (flipAll l b')) (flipAll l b) := by
  rw [sem_append, sem_append, xs_sem, xs_sem]

/-- `ctrl_state`, exact gates: if the body flips `ts` iff all controls are 1, then the body between
the two `x` layers flips `ts` iff the controls match the pattern. -/
theorem ctrl_exact (k : Nat) (c : Nat → Nat) (cs : Option (List Bool)) (ts : List Nat)
    (xs body : Circ Θ) (hxs : ctrlXs k c cs = some xs)
    (hcc : ∀ i j, i < k → j < k → c i = c j → i = j)
    (hbody : ∀ ψ : State R, sem body ψ = condFlipAll (all1 c k) ts ψ) (ψ : State R) :
    sem (xs ++ body ++ xs) ψ = mcxIdeal (patLits k c cs) ts ψ := by
  obtain ⟨rfl, hlt⟩ := ctrlXs_eq k c cs xs hxs
  rw [conj_xs, hbody]
  funext b
  simp only [condFlipAll, mcxIdeal, all1_fl k c cs hlt hcc b k (Nat.le_refl k), flipAll_invol]
  rw [flipAll_flipAll_comm, flipAll_invol]

/-- `ctrl_state`, relative-phase gate on one target. -/
theorem ctrl_relphase (k : Nat) (hk : 1 ≤ k) (c : Nat → Nat) (cs : Option (List Bool)) (t : Nat)
    (xs body : Circ Θ) (hxs : ctrlXs k c cs = some xs)
    (hcc : ∀ i j, i < k → j < k → c i = c j → i = j) (hct : ∀ i, i < k → c i ≠ t)
    (hbody : ∀ ψ : State R, sem body ψ
      = sp (relSgn (all1 c (k - 1)) (c (k - 1)) t) (relPerm (all1 c (k - 1)) (c (k - 1)) t) ψ)
    (ψ : State R) :
    sem (xs ++ body ++ xs) ψ
      = fun b => relSign k c cs t b * mcxIdeal (patLits k c cs) [t] ψ b := by
  obtain ⟨rfl, hlt⟩ := ctrlXs_eq k c cs xs hxs
  rw [conj_xs, hbody]
  funext b
  obtain ⟨n, rfl⟩ : ∃ n, k = n + 1 := ⟨k - 1, by omega⟩
  have e : n + 1 - 1 = n := by omega
  simp only [sp, relSgn, relPerm, relSign, mcxIdeal, e, all1_fl (n + 1) c cs hlt hcc b n (by omega),
    fl_ctrl (n + 1) c cs hlt hcc b n (by omega), fl_other (n + 1) c cs hlt b t hct,
    ctrlOk_patLits_succ]
  have hb : (b (c n) != csBit cs n) = !(b (c n) == csBit cs n) := rfl
  rw [hb]
  by_cases h : (ctrlOk (patLits n c cs) b && (b (c n) == csBit cs n)) = true
  · simp only [h, if_true, flipAll_flipBit, flipAll_invol]
    rfl
  · have h' : (ctrlOk (patLits n c cs) b && (b (c n) == csBit cs n)) = false := by simpa using h
    simp only [h', Bool.false_eq_true, if_false, flipAll_invol]

end conj
end Qclib
