import QclibModel.Spec.Placement
import QclibModel.Proofs.SemLemmas
import Mathlib.Logic.Function.Basic
/-
  C15 — naturality of the amplitude-function semantics in wire renaming.

  For `σ` with left inverse `τ`, `liftT σ τ T` is the transformer that acts as the *local*
  transformer `T` on the wires `σ 0, σ 1, …` and as the identity on every other wire: the new
  amplitude at the global label `b` is `T` applied to the slice `b' ↦ ψ (b with σ-wires := b')`,
  read at the local label `b ∘ σ`.  `denote (g.mapWires σ) = liftT σ τ (denote g)` for every
  constructor of `G`, `liftT` is functorial, hence `sem (c.rename σ) = liftT σ τ (sem c)`.
-/
namespace Qclib
open RotSem

section
variable {R : Type}

/-- Act as the local transformer `T` on the wires in the image of `σ`, identity elsewhere. -/
def liftT (σ τ : Nat → Nat) (T : State R → State R) : State R → State R :=
  fun ψ b => T (fun b' => ψ (mergeBits σ τ b' b)) (pullBits σ b)

variable {σ τ : Nat → Nat}

/-! ### Labels -/

theorem mergeBits_pull (b : Bits) : mergeBits σ τ (pullBits σ b) b = b := by
  funext w
  simp only [mergeBits, pullBits]
  by_cases h : σ (τ w) = w
  · rw [if_pos h, h]
  · rw [if_neg h]

theorem pull_merge (hτ : ∀ i, τ (σ i) = i) (b' b : Bits) :
    pullBits σ (mergeBits σ τ b' b) = b' := by
  funext i
  simp only [mergeBits, pullBits, hτ, if_true]

theorem mergeBits_merge (b'' b' b : Bits) :
    mergeBits σ τ b'' (mergeBits σ τ b' b) = mergeBits σ τ b'' b := by
  funext w
  simp only [mergeBits]
  by_cases h : σ (τ w) = w
  · simp only [if_pos h]
  · simp only [if_neg h]

theorem mergeBits_setBit (hτ : ∀ i, τ (σ i) = i) (b' b : Bits) (t : Nat) (v : Bool) :
    mergeBits σ τ (setBit b' t v) b = setBit (mergeBits σ τ b' b) (σ t) v := by
  funext w
  simp only [mergeBits, setBit]
  by_cases h : σ (τ w) = w
  · by_cases ht : τ w = t
    · have hw : w = σ t := by rw [← ht, h]
      simp only [if_pos h, if_pos ht, if_pos hw]
    · have hw : ¬ w = σ t := fun e => ht (by rw [e, hτ])
      simp only [if_pos h, if_neg ht, if_neg hw]
  · have hw : ¬ w = σ t := fun e => h (by rw [e, hτ])
    simp only [if_neg h, if_neg hw]

/-- Setting a bit of the local view of `b` and merging back is setting the renamed wire of `b`. -/
theorem merge_set_pull (hτ : ∀ i, τ (σ i) = i) (b : Bits) (t : Nat) (v : Bool) :
    mergeBits σ τ (setBit (pullBits σ b) t v) b = setBit b (σ t) v := by
  rw [mergeBits_setBit hτ, mergeBits_pull]

theorem mergeBits_swapBits (hτ : ∀ i, τ (σ i) = i) (b' b : Bits) (a c : Nat) :
    mergeBits σ τ (swapBits a c b') b = swapBits (σ a) (σ c) (mergeBits σ τ b' b) := by
  funext w
  simp only [mergeBits, swapBits]
  by_cases h : σ (τ w) = w
  · by_cases ha : τ w = a
    · have hw : w = σ a := by rw [← ha, h]
      simp only [if_pos h, if_pos ha, if_pos hw, hτ, if_true]
    · have hw : ¬ w = σ a := fun e => ha (by rw [e, hτ])
      by_cases hc : τ w = c
      · have hw' : w = σ c := by rw [← hc, h]
        simp only [if_pos h, if_neg ha, if_neg hw, if_pos hc, if_pos hw', hτ, if_true]
      · have hw' : ¬ w = σ c := fun e => hc (by rw [e, hτ])
        simp only [if_pos h, if_neg ha, if_neg hw, if_neg hc, if_neg hw']
  · have hw : ¬ w = σ a := fun e => h (by rw [e, hτ])
    have hw' : ¬ w = σ c := fun e => h (by rw [e, hτ])
    simp only [if_neg h, if_neg hw, if_neg hw']

theorem merge_swap_pull (hτ : ∀ i, τ (σ i) = i) (b : Bits) (a c : Nat) :
    mergeBits σ τ (swapBits a c (pullBits σ b)) b = swapBits (σ a) (σ c) b := by
  rw [mergeBits_swapBits hτ, mergeBits_pull]

theorem ctrlOk_rename (cs : List (Nat × Bool)) (b : Bits) :
    ctrlOk (cs.map (fun cv => (σ cv.1, cv.2))) b = ctrlOk cs (pullBits σ b) := by
  simp only [ctrlOk, List.all_map, pullBits]
  rfl

/-! ### Transformers -/

theorem liftT_comp (hτ : ∀ i, τ (σ i) = i) (T1 T2 : State R → State R) (ψ : State R) :
    liftT σ τ T2 (liftT σ τ T1 ψ) = liftT σ τ (fun φ => T2 (T1 φ)) ψ := by
  funext b
  simp only [liftT, mergeBits_merge, pull_merge hτ]

theorem liftT_id (ψ : State R) : liftT σ τ (fun φ => φ) ψ = ψ := by
  funext b
  simp only [liftT, mergeBits_pull]

theorem applyMcu_rename [Add R] [Mul R] (hτ : ∀ i, τ (σ i) = i) (cs : List (Nat × Bool))
    (m : Mat2 R) (t : Nat) (ψ : State R) :
    applyMcu (cs.map (fun cv => (σ cv.1, cv.2))) m (σ t) ψ = liftT σ τ (applyMcu cs m t) ψ := by
  funext b
  simp only [applyMcu, liftT, ctrlOk_rename, merge_set_pull hτ, mergeBits_pull]
  rfl

theorem applyPerm_swap_rename (hτ : ∀ i, τ (σ i) = i) (a c : Nat) (ψ : State R) :
    applyPerm (swapBits (σ a) (σ c)) ψ = liftT σ τ (applyPerm (swapBits a c)) ψ := by
  funext b
  simp only [applyPerm, liftT, merge_swap_pull hτ]

theorem applyPerm_cswap_rename (hτ : ∀ i, τ (σ i) = i) (q a c : Nat) (ψ : State R) :
    applyPerm (fun w => if w (σ q) then swapBits (σ a) (σ c) w else w) ψ
      = liftT σ τ (applyPerm (fun w => if w q then swapBits a c w else w)) ψ := by
  funext b
  simp only [applyPerm, liftT]
  by_cases h : b (σ q) = true
  · have h' : pullBits σ b q = true := h
    rw [if_pos h, if_pos h', merge_swap_pull hτ]
  · have h' : ¬ pullBits σ b q = true := h
    rw [if_neg h, if_neg h', mergeBits_pull]

theorem scale_rename [Mul R] (z : R) (ψ : State R) : scale z ψ = liftT σ τ (scale z) ψ := by
  funext b
  simp only [scale, liftT, mergeBits_pull]

end

section
variable {Θ R : Type} [CommRing R] [RotSem Θ R] {σ τ : Nat → Nat}

/-- Every gate of the alphabet, renamed, is the lift of the gate. -/
theorem denote_rename (hτ : ∀ i, τ (σ i) = i) (g : G Θ) (ψ : State R) :
    denote (g.mapWires σ) ψ = liftT σ τ (denote g) ψ := by
  cases g with
  | x q => exact applyMcu_rename hτ [] _ q ψ
  | h q => exact applyMcu_rename hτ [] _ q ψ
  | cx c t => exact applyMcu_rename hτ [(c, true)] _ t ψ
  | cz c t => exact applyMcu_rename hτ [(c, true)] _ t ψ
  | ccx a b t => exact applyMcu_rename hτ [(a, true), (b, true)] _ t ψ
  | mcx cs t =>
    have e : (cs.map σ).map (fun c => (c, true))
        = (cs.map (fun c => (c, true))).map (fun cv : Nat × Bool => (σ cv.1, cv.2)) := by
      simp only [List.map_map, Function.comp_def]
    show applyMcu ((cs.map σ).map (fun c => (c, true))) Mat2.X (σ t) ψ = _
    rw [e]
    exact applyMcu_rename hτ _ _ t ψ
  | ry θ q => exact applyMcu_rename hτ [] _ q ψ
  | rz θ q => exact applyMcu_rename hτ [] _ q ψ
  | p θ q => exact applyMcu_rename hτ [] _ q ψ
  | cp θ c t => exact applyMcu_rename hτ [(c, true)] _ t ψ
  | u θ φ l q => exact applyMcu_rename hτ [] _ q ψ
  | cu θ φ l g c t => exact applyMcu_rename hτ [(c, true)] _ t ψ
  | swap a b => exact applyPerm_swap_rename hτ a b ψ
  | cswap c a b => exact applyPerm_cswap_rename hτ c a b ψ
  | gphase θ => exact scale_rename _ ψ

theorem sem_cons (g : G Θ) (c : Circ Θ) (ψ : State R) : sem (g :: c) ψ = sem c (denote g ψ) := rfl

/-- Naturality: the renamed circuit is the lift of the circuit. -/
theorem sem_rename (hτ : ∀ i, τ (σ i) = i) (c : Circ Θ) (ψ : State R) :
    sem (c.rename σ) ψ = liftT σ τ (sem c) ψ := by
  induction c generalizing ψ with
  | nil => exact (liftT_id ψ).symm
  | cons g c ih =>
    show sem (g.mapWires σ :: Circ.rename σ c) ψ = _
    rw [sem_cons, ih, denote_rename hτ, liftT_comp hτ]
    rfl

/-! ### Linearity in a scalar, for the spectator corollary -/

theorem applyMcu_smul (cs : List (Nat × Bool)) (m : Mat2 R) (t : Nat) (ψ : State R) (z : R) :
    applyMcu cs m t (fun b => ψ b * z) = fun b => applyMcu cs m t ψ b * z := by
  funext b
  simp only [applyMcu]
  split
  · split <;> ring
  · rfl

theorem denote_smul (g : G Θ) (ψ : State R) (z : R) :
    denote g (fun b => ψ b * z) = fun b => denote g ψ b * z := by
  cases g with
  | swap a c => rfl
  | cswap q a c => rfl
  | gphase θ =>
    funext b
    show ex θ * ex θ * (ψ b * z) = ex θ * ex θ * ψ b * z
    ring
  | _ => exact applyMcu_smul _ _ _ ψ z

theorem sem_smul (c : Circ Θ) (ψ : State R) (z : R) :
    sem c (fun b => ψ b * z) = fun b => sem c ψ b * z := by
  induction c generalizing ψ with
  | nil => rfl
  | cons g c ih => rw [sem_cons, sem_cons, denote_smul, ih]

/-! ### `place` -/

theorem foldl_max_ge (ws : List Nat) (a : Nat) : a ≤ ws.foldl max a ∧ ∀ w ∈ ws, w ≤ ws.foldl max a := by
  induction ws generalizing a with
  | nil => exact ⟨Nat.le_refl _, fun _ h => absurd h (List.not_mem_nil)⟩
  | cons x xs ih =>
    obtain ⟨h1, h2⟩ := ih (max a x)
    refine ⟨Nat.le_trans (Nat.le_max_left a x) h1, ?_⟩
    intro w hw
    rcases List.mem_cons.mp hw with rfl | hw
    · exact Nat.le_trans (Nat.le_max_right a w) h1
    · exact h2 w hw

theorem placeMap_injective (ws : List Nat) (hnd : ws.Nodup) : Function.Injective (placeMap ws) := by
  intro i j hij
  simp only [placeMap] at hij
  by_cases hi : i < ws.length <;> by_cases hj : j < ws.length
  · rw [if_pos hi, if_pos hj, ← List.getElem_eq_getD (h := hi) 0, ← List.getElem_eq_getD (h := hj) 0] at hij
    exact (List.getElem_inj hnd).mp hij
  · rw [if_pos hi, if_neg hj, ← List.getElem_eq_getD (h := hi) 0] at hij
    have := (foldl_max_ge ws 0).2 _ (List.getElem_mem hi)
    omega
  · rw [if_neg hi, if_pos hj, ← List.getElem_eq_getD (h := hj) 0] at hij
    have := (foldl_max_ge ws 0).2 _ (List.getElem_mem hj)
    omega
  · rw [if_neg hi, if_neg hj] at hij
    omega

theorem mapWires_congr (f g : Nat → Nat) (x : G Θ) (h : ∀ w ∈ x.wires, f w = g w) :
    x.mapWires f = x.mapWires g := by
  cases x <;> simp only [G.wires, List.mem_cons, List.mem_append, List.not_mem_nil, or_false,
    forall_eq_or_imp, forall_eq] at h <;> simp only [G.mapWires]
  all_goals first
    | rfl
    | simp only [h]
    | skip
  -- mcx
  rename_i cs t
  have h1 : cs.map f = cs.map g := List.map_congr_left (fun w hw => h w (Or.inl hw))
  have h2 : f t = g t := h t (Or.inr rfl)
  rw [h1, h2]

/-- `place c ws` is the renaming by `placeMap ws` when every wire of `c` is below `ws.length`. -/
theorem place_eq_rename (c : Circ Θ) (ws : List Nat)
    (hc : ∀ g ∈ c, ∀ w ∈ g.wires, w < ws.length) : place c ws = c.rename (placeMap ws) := by
  simp only [place, Circ.rename]
  apply List.map_congr_left
  intro g hg
  apply mapWires_congr
  intro w hw
  simp only [placeMap, if_pos (hc g hg w hw)]

end
end Qclib
