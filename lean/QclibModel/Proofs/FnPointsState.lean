import QclibModel.Proofs.FnPointsLadder
/-
  C18, part 3: the state after the whole loop, over any commutative ring.

  Invariant (`fnForm`): with clean `g` and `c[0] = 0`, the labels with `c[1] = 1` carry the
  processed points (`coef (x bits) · ψ₀`), the labels with `c[1] = 0` carry the generator
  (`gen · ψ₀` on `x = prev`); everything else is `0`.  One iteration (`fn_iter_form`) moves the
  generator to the new point, splits it with the first column of `U(θ,φ,λ)` and lowers `c[0]`
  again through the ladder.
-/
namespace Qclib
open RotSem

section
variable {Θ R : Type} [CommRing R] [RotSem Θ R]

/-! ### Small tools -/

theorem all_range_congr (n : Nat) (f g : Nat → Bool) (h : ∀ j, j < n → f j = g j) :
    (List.range n).all f = (List.range n).all g := by
  rw [Bool.eq_iff_iff, List.all_eq_true, List.all_eq_true]
  constructor
  · intro hf j hj
    rw [← h j (List.mem_range.mp hj)]; exact hf j hj
  · intro hg j hj
    rw [h j (List.mem_range.mp hj)]; exact hg j hj

theorem fnMatch_iff (n : Nat) (a c : Nat → Bool) :
    fnMatch n a c = true ↔ ∀ j, j < n → a j = c j := by
  unfold fnMatch
  rw [List.all_eq_true]
  constructor
  · intro h j hj
    have := h j (List.mem_range.mpr hj)
    simpa using this
  · intro h j hj
    have := h j (List.mem_range.mp hj)
    simpa using this

theorem fnMatch_comm (n : Nat) (a c : Nat → Bool) : fnMatch n a c = fnMatch n c a := by
  rw [Bool.eq_iff_iff, fnMatch_iff, fnMatch_iff]
  exact ⟨fun h j hj => (h j hj).symm, fun h j hj => (h j hj).symm⟩

theorem fnMatch_trans' (n : Nat) (zf a c : Nat → Bool) (h1 : fnMatch n zf a = true)
    (h2 : fnMatch n zf c = true) : fnMatch n a c = true := by
  rw [fnMatch_iff] at *
  exact fun j hj => (h1 j hj).symm.trans (h2 j hj)

theorem denote_cu (θ φ l g : Θ) (c t : Nat) (ψ : State R) (b : Bits) :
    denote (G.cu θ φ l g c t) ψ b
      = if b c then
          (if b t then
             ex g * ex g * (ex φ * ex φ * sn θ) * ψ (setBit b t false)
               + ex g * ex g * (ex φ * ex φ * (ex l * ex l) * cs θ) * ψ (setBit b t true)
           else
             ex g * ex g * cs θ * ψ (setBit b t false)
               + ex g * ex g * (-(ex l * ex l * sn θ)) * ψ (setBit b t true))
        else ψ b := by
  simp only [denote, applyMcu, ctrlOk, Mat2.smul, matU]
  cases hc : b c <;> cases ht : b t <;> simp [hc]

/-! ### Flipping several x wires -/

/-- Flip the wires `xw j`, `j ∈ l`. -/
def fnFlipXs (L : FnLayout) (l : List Nat) (b : Bits) : Bits :=
  l.foldr (fun j acc => flipBit acc (L.xw j)) b

theorem fnFlipXs_other (L : FnLayout) (l : List Nat) (b : Bits) (w : Nat)
    (h : ∀ j, j ∈ l → w ≠ L.xw j) : fnFlipXs L l b w = b w := by
  induction l with
  | nil => rfl
  | cons j l ih =>
    show flipBit (fnFlipXs L l b) (L.xw j) w = b w
    rw [flipBit_ne _ (h j (List.mem_cons_self ..))]
    exact ih (fun i hi => h i (List.mem_cons_of_mem _ hi))

theorem fnFlipXs_flip (L : FnLayout) (l : List Nat) (b : Bits) (w : Nat) :
    fnFlipXs L l (flipBit b w) = flipBit (fnFlipXs L l b) w := by
  induction l with
  | nil => rfl
  | cons j l ih =>
    show flipBit (fnFlipXs L l (flipBit b w)) (L.xw j) = flipBit (flipBit (fnFlipXs L l b) (L.xw j)) w
    rw [ih, flipBit_comm]

theorem sem_cxList (L : FnLayout) (c : Nat) (l : List Nat) (hc : ∀ j, j ∈ l → c ≠ L.xw j)
    (ψ : State R) (b : Bits) :
    sem (l.map (fun j => (G.cx c (L.xw j) : G Θ))) ψ b
      = if b c then ψ (fnFlipXs L l b) else ψ b := by
  induction l generalizing ψ with
  | nil => simp [sem_nil, fnFlipXs]
  | cons j l ih =>
    rw [List.map_cons, sem_cons, ih (fun i hi => hc i (List.mem_cons_of_mem _ hi))]
    by_cases hb : b c = true
    · rw [if_pos hb, if_pos hb, denote_cx,
        fnFlipXs_other L l b c (fun i hi => hc i (List.mem_cons_of_mem _ hi)), if_pos hb]
      rfl
    · rw [if_neg hb, if_neg hb, denote_cx, if_neg hb]

variable {n : Nat} {L : FnLayout}

theorem fnFlipXs_x (hw : FnWires n L) (l : List Nat) (hl : ∀ j, j ∈ l → j < n) (hnd : l.Nodup)
    {k : Nat} (hk : k < n) (b : Bits) :
    fnFlipXs L l b (L.xw k) = (b (L.xw k) != decide (k ∈ l)) := by
  induction l with
  | nil => simp [fnFlipXs]
  | cons j l ih =>
    have hnd' := List.nodup_cons.mp hnd
    have ih' := ih (fun i hi => hl i (List.mem_cons_of_mem _ hi)) hnd'.2
    show flipBit (fnFlipXs L l b) (L.xw j) (L.xw k) = _
    by_cases hkj : k = j
    · subst hkj
      rw [flipBit_eq, ih']
      have : k ∉ l := hnd'.1
      simp [this]
    · have hne : L.xw k ≠ L.xw j := fun e =>
        hkj (hw.x_inj k j hk (hl j (List.mem_cons_self ..)) e)
      rw [flipBit_ne _ hne, ih']
      simp [hkj]

theorem fnDiff_nodup (prev z : Nat → Bool) : (fnDiff n prev z).Nodup :=
  List.Pairwise.filter _ List.nodup_range

theorem fnDiff_lt (prev z : Nat → Bool) : ∀ j, j ∈ fnDiff n prev z → j < n := by
  intro j hj
  exact List.mem_range.mp (List.mem_filter.mp hj).1

theorem fnDiff_mem (prev z : Nat → Bool) {j : Nat} (hj : j < n) :
    decide (j ∈ fnDiff n prev z) = (prev j != z j) := by
  unfold fnDiff
  rw [Bool.eq_iff_iff]
  simp [List.mem_filter, hj]

/-! ### Observables of a label depend only on "their" wires -/

theorem fnGClr_congr (b b' : Bits) (h : ∀ k, k < n - 1 → b (L.gw k) = b' (L.gw k)) :
    fnGClr L n b = fnGClr L n b' := by
  unfold fnGClr
  exact all_range_congr _ _ _ (fun k hk => by rw [h k hk])

theorem fnXbits_congr (b b' : Bits) (h : ∀ j, j < n → b (L.xw j) = b' (L.xw j)) :
    fnXbits L n b = fnXbits L n b' := by
  funext j
  unfold fnXbits
  by_cases hj : j < n
  · simp [hj, h j hj]
  · simp [hj]

theorem fnIsWire_x {j : Nat} (hj : j < n) : fnIsWire L n (L.xw j) = true := by
  unfold fnIsWire
  have : (List.range n).any (fun i => L.xw j == L.xw i) = true :=
    List.any_eq_true.mpr ⟨j, List.mem_range.mpr hj, by simp⟩
  simp [this]

theorem fnIsWire_g {k : Nat} (hk : k < n - 1) : fnIsWire L n (L.gw k) = true := by
  unfold fnIsWire
  have : (List.range (n - 1)).any (fun i => L.gw k == L.gw i) = true :=
    List.any_eq_true.mpr ⟨k, List.mem_range.mpr hk, by simp⟩
  simp [this]

theorem fnIsWire_c0 : fnIsWire L n L.c0 = true := by simp [fnIsWire]

theorem fnIsWire_c1 : fnIsWire L n L.c1 = true := by simp [fnIsWire]

theorem fnClr_congr (b b' : Bits) (h : ∀ w, fnIsWire L n w = false → b w = b' w) :
    fnClr L n b = fnClr L n b' := by
  funext w
  unfold fnClr
  cases hwire : fnIsWire L n w
  · simp [h w hwire]
  · simp

theorem fnClr_flip (b : Bits) {w : Nat} (hwire : fnIsWire L n w = true) :
    fnClr L n (flipBit b w) = fnClr L n b :=
  fnClr_congr _ _ (fun v hv => flipBit_ne b (fun e => by rw [e, hwire] at hv; cases hv))

theorem fnClr_set (b : Bits) {w : Nat} (v : Bool) (hwire : fnIsWire L n w = true) :
    fnClr L n (setBit b w v) = fnClr L n b :=
  fnClr_congr _ _ (fun u hu => setBit_ne b v (fun e => by rw [e, hwire] at hu; cases hu))

theorem fnClr_flipXs (l : List Nat) (hl : ∀ j, j ∈ l → j < n) (b : Bits) :
    fnClr L n (fnFlipXs L l b) = fnClr L n b :=
  fnClr_congr _ _ (fun u hu => fnFlipXs_other L l b u (fun j hj e => by
    rw [e, fnIsWire_x (hl j hj)] at hu; cases hu))

/-! ### The invariant -/

/-- State shape between iterations (before the closing `x(c[1])`). -/
def fnForm (L : FnLayout) (n : Nat) (ψ0 : State R) (prev : Nat → Bool) (gen : R)
    (coef : (Nat → Bool) → R) : State R := fun b =>
  if fnGClr L n b && !b L.c0 then
    (if b L.c1 then coef (fnXbits L n b) * ψ0 (fnClr L n b)
     else if fnXMatch L n prev b then gen * ψ0 (fnClr L n b) else 0)
  else 0

/-- Relabelling of `fnMove`: on `c[1] = 0` flip the differing x wires and `c[0]`. -/
def fnMoveP (L : FnLayout) (n : Nat) (prev z : Nat → Bool) (b : Bits) : Bits :=
  if b L.c1 then b else flipBit (fnFlipXs L (fnDiff n prev z) b) L.c0

variable (hw : FnWires n L)
include hw

theorem sem_move (prev z : Nat → Bool) (ψ : State R) (b : Bits) :
    sem (fnMove (Θ := Θ) L n prev z) ψ b = ψ (fnMoveP L n prev z b) := by
  have hc : ∀ j, j ∈ fnDiff n prev z → L.c1 ≠ L.xw j := fun j hj =>
    Ne.symm (hw.x_c1 j (fnDiff_lt prev z j hj))
  unfold fnMove fnMoveP
  rw [sem_append, sem_append, sem_cons, sem_single, denote_x, denote_cx, flipBit_eq]
  by_cases hb : b L.c1 = true
  · rw [if_pos hb]
    simp only [hb, Bool.not_true, Bool.false_eq_true, if_false]
    rw [sem_cxList L L.c1 _ hc, flipBit_eq, hb]
    simp only [Bool.not_true, Bool.false_eq_true, if_false]
    rw [sem_single, denote_x, flipBit_flipBit]
  · have hb' : b L.c1 = false := by simpa using hb
    rw [if_neg hb]
    simp only [hb', Bool.not_false, if_true]
    rw [sem_cxList L L.c1 _ hc, flipBit_ne _ hw.c0_c1.symm, flipBit_eq, hb']
    simp only [Bool.not_false, if_true]
    rw [sem_single, denote_x, fnFlipXs_flip, fnFlipXs_flip, flipBit3 _ hw.c0_c1.symm]

/-- Observables of the moved label `flipBit (fnFlipXs diff b) c0`. -/
theorem moved_c0 (prev z : Nat → Bool) (b : Bits) :
    flipBit (fnFlipXs L (fnDiff n prev z) b) L.c0 L.c0 = !b L.c0 := by
  rw [flipBit_eq, fnFlipXs_other L _ b _ (fun j hj => Ne.symm (hw.x_c0 j (fnDiff_lt prev z j hj)))]

theorem moved_c1 (prev z : Nat → Bool) (b : Bits) :
    flipBit (fnFlipXs L (fnDiff n prev z) b) L.c0 L.c1 = b L.c1 := by
  rw [flipBit_ne _ hw.c0_c1.symm,
    fnFlipXs_other L _ b _ (fun j hj => Ne.symm (hw.x_c1 j (fnDiff_lt prev z j hj)))]

theorem moved_gclr (prev z : Nat → Bool) (b : Bits) :
    fnGClr L n (flipBit (fnFlipXs L (fnDiff n prev z) b) L.c0) = fnGClr L n b :=
  fnGClr_congr _ _ (fun k hk => by
    rw [flipBit_ne _ (hw.g_c0 k hk),
      fnFlipXs_other L _ b _ (fun j hj => Ne.symm (hw.x_g j k (fnDiff_lt prev z j hj) hk))])

theorem moved_clr (prev z : Nat → Bool) (b : Bits) :
    fnClr L n (flipBit (fnFlipXs L (fnDiff n prev z) b) L.c0) = fnClr L n b := by
  rw [fnClr_flip _ fnIsWire_c0, fnClr_flipXs _ (fnDiff_lt prev z)]

theorem moved_xmatch (prev z : Nat → Bool) (b : Bits) :
    fnXMatch L n prev (flipBit (fnFlipXs L (fnDiff n prev z) b) L.c0) = fnXMatch L n z b := by
  rw [fnXMatch_eq hw, fnXMatch_eq hw]
  apply all_range_congr
  intro j hj
  rw [flipBit_ne _ (hw.x_c0 j hj), fnFlipXs_x hw _ (fnDiff_lt prev z) (fnDiff_nodup prev z) hj,
    fnDiff_mem prev z hj]
  cases b (L.xw j) <;> cases prev j <;> cases z j <;> rfl

theorem set_gclr (b : Bits) (v : Bool) : fnGClr L n (setBit b L.c1 v) = fnGClr L n b :=
  fnGClr_congr _ _ (fun k hk => setBit_ne b v (hw.g_c1 k hk))

theorem set_xbits (b : Bits) (v : Bool) : fnXbits L n (setBit b L.c1 v) = fnXbits L n b :=
  fnXbits_congr _ _ (fun j hj => setBit_ne b v (hw.x_c1 j hj))

theorem flip0_gclr (b : Bits) : fnGClr L n (flipBit b L.c0) = fnGClr L n b :=
  fnGClr_congr _ _ (fun k hk => flipBit_ne b (hw.g_c0 k hk))

theorem flip0_xbits (b : Bits) : fnXbits L n (flipBit b L.c0) = fnXbits L n b :=
  fnXbits_congr _ _ (fun j hj => flipBit_ne b (hw.x_c0 j hj))

theorem flip1_gclr (b : Bits) : fnGClr L n (flipBit b L.c1) = fnGClr L n b :=
  fnGClr_congr _ _ (fun k hk => flipBit_ne b (hw.g_c1 k hk))

theorem flip1_xbits (b : Bits) : fnXbits L n (flipBit b L.c1) = fnXbits L n b :=
  fnXbits_congr _ _ (fun j hj => flipBit_ne b (hw.x_c1 j hj))

/-- The state after `fnMove` and the controlled `U`, label by label. -/
theorem fn_mid (A : FnAngles Θ) (ψ0 : State R) (prev : Nat → Bool) (idx : Nat) (pt : FnPoint)
    (gen : R) (coef : (Nat → Bool) → R) (b : Bits) :
    sem (fnMove L n prev pt.z ++ fnSmatrix L A idx pt.s) (fnForm L n ψ0 prev gen coef) b
      = if fnGClr L n b then
          (if b L.c0 then
             (if b L.c1 then ex A.zero * ex A.zero * (ex (A.phi pt.s) * ex (A.phi pt.s) * sn (A.theta idx))
              else ex A.zero * ex A.zero * cs (A.theta idx))
               * (if fnXMatch L n pt.z b then gen * ψ0 (fnClr L n b) else 0)
           else if b L.c1 then coef (fnXbits L n b) * ψ0 (fnClr L n b) else 0)
        else 0 := by
  have key : ∀ b' : Bits, b' L.c0 = true →
      sem (fnMove (Θ := Θ) L n prev pt.z) (fnForm L n ψ0 prev gen coef) (setBit b' L.c1 false)
        = if fnGClr L n b' then (if fnXMatch L n pt.z b' then gen * ψ0 (fnClr L n b') else 0)
          else 0 := by
    intro b' hb'
    rw [sem_move hw]
    unfold fnMoveP
    rw [setBit_eq]
    simp only [Bool.false_eq_true, if_false]
    unfold fnForm
    rw [moved_c0 hw, moved_c1 hw, moved_gclr hw, moved_clr hw, moved_xmatch hw, setBit_eq,
      setBit_ne _ _ hw.c0_c1, hb', set_gclr hw, fnClr_set _ _ fnIsWire_c1]
    have : fnXMatch L n pt.z (setBit b' L.c1 false) = fnXMatch L n pt.z b' := by
      unfold fnXMatch; rw [set_xbits hw]
    rw [this]
    cases fnGClr L n b' <;> simp
  have key1 : ∀ b' : Bits, b' L.c0 = true →
      sem (fnMove (Θ := Θ) L n prev pt.z) (fnForm L n ψ0 prev gen coef) (setBit b' L.c1 true) = 0 := by
    intro b' hb'
    rw [sem_move hw]
    unfold fnMoveP
    rw [setBit_eq]
    simp only [if_true]
    unfold fnForm
    rw [setBit_ne _ _ hw.c0_c1, hb']
    simp
  unfold fnSmatrix
  rw [sem_append, sem_single, denote_cu]
  by_cases h0 : b L.c0 = true
  · rw [if_pos h0, key b h0, key1 b h0]
    simp only [h0, if_true]
    cases b L.c1 <;> cases fnGClr L n b <;> simp
  · have h0' : b L.c0 = false := by simpa using h0
    rw [if_neg h0, sem_move hw]
    unfold fnMoveP
    by_cases h1 : b L.c1 = true
    · rw [if_pos h1]
      unfold fnForm
      simp [h0', h1]
    · have h1' : b L.c1 = false := by simpa using h1
      rw [if_neg h1]
      unfold fnForm
      rw [moved_c0 hw, h0']
      simp [h1']

/-- **One iteration preserves the invariant.** -/
theorem fn_iter_form (hn : 2 ≤ n) (A : FnAngles Θ) (hγ : (ex A.zero * ex A.zero : R) = 1)
    (ψ0 : State R) (prev : Nat → Bool) (idx : Nat) (pt : FnPoint) (gen : R)
    (coef : (Nat → Bool) → R)
    (hcoef : ∀ zf, fnMatch n zf pt.z = true → coef zf = 0) :
    sem (fnIter L n A prev idx pt) (fnForm L n ψ0 prev gen coef)
      = fnForm L n ψ0 pt.z (cs (A.theta idx) * gen)
          (fun zf => if fnMatch n zf pt.z
            then ex (A.phi pt.s) * ex (A.phi pt.s) * sn (A.theta idx) * gen else coef zf) := by
  funext b
  unfold fnIter
  rw [sem_append]
  by_cases hg : fnGClr L n b = true
  · rw [fn_ladder hw hn pt.z _ b hg]
    by_cases hm : fnXMatch L n pt.z b = true
    · rw [if_pos hm, fn_mid hw, flip0_gclr hw, hg, flipBit_eq, flipBit_ne _ hw.c0_c1.symm,
        fnClr_flip _ fnIsWire_c0]
      have hm' : fnXMatch L n pt.z (flipBit b L.c0) = true := by
        unfold fnXMatch at hm ⊢; rw [flip0_xbits hw]; exact hm
      have hm2 : fnMatch n (fnXbits L n b) pt.z = true := hm
      rw [hm', flip0_xbits hw, hcoef _ hm2]
      unfold fnForm
      beta_reduce
      rw [hg, hm, hm2, hγ]
      cases b L.c0 <;> cases b L.c1 <;> simp <;> ring
    · have hmf : fnXMatch L n pt.z b = false := by simpa using hm
      have hm2 : fnMatch n (fnXbits L n b) pt.z = false := hmf
      rw [if_neg hm, fn_mid hw, hg, hmf]
      unfold fnForm
      beta_reduce
      rw [hg, hmf, hm2]
      cases b L.c0 <;> cases b L.c1 <;> simp
  · have hgf : fnGClr L n b = false := by simpa using hg
    rw [sem_ladder_perm hw hn pt.z _ b]
    have : fnForm L n ψ0 pt.z (cs (A.theta idx) * gen)
        (fun zf => if fnMatch n zf pt.z
          then ex (A.phi pt.s) * ex (A.phi pt.s) * sn (A.theta idx) * gen else coef zf) b = 0 := by
      unfold fnForm; simp [hgf]
    rw [this]
    split
    · rw [fn_mid hw, flip0_gclr hw, hgf]; simp
    · rw [fn_mid hw, hgf]; simp

end
end Qclib
