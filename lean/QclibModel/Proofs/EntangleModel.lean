import QclibModel.Proofs.EntangleAlg
/-
  C20 — the executable model (Model/Entangle.lean), instantiated at ℂ/ℝ, computes the spec
  formulas: `slices` builds the two ι-slices, `gcp` the cross sum, `meyerWallach` = `mwValue`.
-/
namespace Qclib.Ent
open Finset

theorem sumTo_eq_sum (n : ℕ) (f : ℕ → ℝ) : sumTo n f = ∑ i ∈ range n, f i := by
  induction n with
  | zero => simp [sumTo]
  | succ n ih => rw [sumTo, ih, sum_range_succ]

theorem toQubits_two_pow {n : ℕ} (hn : 0 < n) : toQubits (2 ^ n) = n := by
  unfold toQubits
  have h1 : ¬ (2 ^ n ≤ 1) := by
    have : 2 ^ 1 ≤ 2 ^ n := Nat.pow_le_pow_right (by decide) hn
    omega
  rw [if_neg h1]
  have hne : 2 ^ n - 1 ≠ 0 := by omega
  have : (2 ^ n - 1).log2 = n - 1 := by
    rw [Nat.log2_eq_iff hne]
    have e : n - 1 + 1 = n := by omega
    rw [e]
    have : 2 ^ n = 2 * 2 ^ (n - 1) := by rw [← Nat.pow_succ']; congr 1; omega
    have hp : 0 < 2 ^ (n - 1) := Nat.two_pow_pos _
    omega
  rw [this]; omega

theorem getD_setIfInBounds {K : Type} (xs : Array K) (i r : ℕ) (a z : K) (hi : i < xs.size) :
    (xs.setIfInBounds i a).getD r z = if i = r then a else xs.getD r z := by
  simp only [Array.getD_eq_getD_getElem?, Array.getElem?_setIfInBounds]
  by_cases h : i = r
  · subst h; simp [hi]
  · simp [h]

/-- Invariant of the slicing loop after the first `k` basis states. -/
theorem slices_fold {K : Type} (z : K) {j n : ℕ} (hj : j < n) (vec : Array K)
    (hsz : vec.size = 2 ^ n) (k : ℕ) (hk : k ≤ 2 ^ n) :
    ∃ p0 p1 : Array K,
      (List.range k).foldl (slicesStep z j n vec)
          (some (Array.replicate (vec.size / 2) z, Array.replicate (vec.size / 2) z)) = some (p0, p1)
      ∧ p0.size = 2 ^ (n - 1) ∧ p1.size = 2 ^ (n - 1)
      ∧ (∀ r, r < 2 ^ (n - 1) →
            p0.getD r z = if insBit j false r < k then vec.getD (insBit j false r) z else z)
      ∧ (∀ r, r < 2 ^ (n - 1) →
            p1.getD r z = if insBit j true r < k then vec.getD (insBit j true r) z else z) := by
  have hhalf : vec.size / 2 = 2 ^ (n - 1) := by
    rw [hsz]
    have : 2 ^ n = 2 * 2 ^ (n - 1) := by rw [← Nat.pow_succ']; congr 1; omega
    omega
  induction k with
  | zero =>
    refine ⟨_, _, rfl, ?_, ?_, ?_, ?_⟩
    · simp [hhalf]
    · simp [hhalf]
    · intro r hr; simp [Array.getD_eq_getD_getElem?, hhalf, hr]
    · intro r hr; simp [Array.getD_eq_getD_getElem?, hhalf, hr]
  | succ k ih =>
    obtain ⟨p0, p1, hf, h0, h1, hp0, hp1⟩ := ih (by omega)
    have hkb : k < 2 ^ n := by omega
    rw [List.range_succ, List.foldl_append, hf]
    have g0 := getIota_eq hj hkb false
    have g1 := getIota_eq hj hkb true
    simp only [if_true, Bool.false_eq_true, if_false] at g0 g1
    have hd : delBit j k < 2 ^ (n - 1) := delBit_lt hj hkb
    have hnle : ¬ (2 ^ (n - 1) ≤ delBit j k) := by omega
    simp only [List.foldl_cons, List.foldl_nil, slicesStep, g0, g1, hhalf, hnle, decide_false,
      Bool.and_false, Bool.or_false, Bool.false_eq_true, if_false]
    have hins := insBit_delBit j k
    cases hb : k.testBit j
    · -- bit j of k is 0: psi_0 is written
      rw [hb] at hins
      refine ⟨_, _, rfl, ?_, ?_, ?_, ?_⟩
      · simp [h0]
      · simp [h1]
      · intro r hr
        simp only [beq_self_eq_true, if_true]
        rw [getD_setIfInBounds _ _ _ _ _ (by omega), hp0 r hr]
        by_cases hrk : delBit j k = r
        · subst hrk; simp [hins]
        · have hne : insBit j false r ≠ k := by
            intro h; apply hrk; rw [← h, delBit_insBit]
          have : (insBit j false r < k + 1) ↔ (insBit j false r < k) := by omega
          simp [hrk, this]
      · intro r hr
        simp only [Bool.false_eq_true, if_false, show (false == true) = false from rfl]
        rw [hp1 r hr]
        have hne : insBit j true r ≠ k := by
          intro h
          have := testBit_insBit_self j true r
          rw [h, hb] at this; exact Bool.noConfusion this
        have : (insBit j true r < k + 1) ↔ (insBit j true r < k) := by omega
        simp [this]
    · -- bit j of k is 1: psi_1 is written
      rw [hb] at hins
      refine ⟨_, _, rfl, ?_, ?_, ?_, ?_⟩
      · simp [h0]
      · simp [h1]
      · intro r hr
        simp only [Bool.false_eq_true, if_false, show (true == false) = false from rfl]
        rw [hp0 r hr]
        have hne : insBit j false r ≠ k := by
          intro h
          have := testBit_insBit_self j false r
          rw [h, hb] at this; exact Bool.noConfusion this
        have : (insBit j false r < k + 1) ↔ (insBit j false r < k) := by omega
        simp [this]
      · intro r hr
        simp only [beq_self_eq_true, if_true]
        rw [getD_setIfInBounds _ _ _ _ _ (by omega), hp1 r hr]
        by_cases hrk : delBit j k = r
        · subst hrk; simp [hins]
        · have hne : insBit j true r ≠ k := by
            intro h; apply hrk; rw [← h, delBit_insBit]
          have : (insBit j true r < k + 1) ↔ (insBit j true r < k) := by omega
          simp [hrk, this]

/-- **The slicing loop builds the two ι-slices.** -/
theorem slices_spec {K : Type} (z : K) {j n : ℕ} (hj : j < n) (vec : Array K)
    (hsz : vec.size = 2 ^ n) :
    ∃ p0 p1 : Array K, slices z j n vec = some (p0, p1)
      ∧ p0.size = 2 ^ (n - 1) ∧ p1.size = 2 ^ (n - 1)
      ∧ (∀ r, r < 2 ^ (n - 1) → p0.getD r z = vec.getD (insBit j false r) z)
      ∧ (∀ r, r < 2 ^ (n - 1) → p1.getD r z = vec.getD (insBit j true r) z) := by
  obtain ⟨p0, p1, hf, h0, h1, hp0, hp1⟩ := slices_fold z hj vec hsz (2 ^ n) (Nat.le_refl _)
  refine ⟨p0, p1, ?_, h0, h1, ?_, ?_⟩
  · unfold slices; rw [hsz]; rw [hsz] at hf; exact hf
  · intro r hr; rw [hp0 r hr, if_pos (insBit_lt false hj hr)]
  · intro r hr; rw [hp1 r hr, if_pos (insBit_lt true hj hr)]

/-- The model instantiated at `ℂ`/`ℝ` — this is what the theorems speak about; the driver runs the
same definitions at `GRat`/`Rat` and `CF`/`Float`. -/
noncomputable def mwCode (vec : Array ℂ) : Option ℝ :=
  meyerWallach Complex.normSq (fun k => (k : ℝ)) (0 : ℂ) vec

theorem crossSum_congr {m : ℕ} {u v u' v' : ℕ → ℂ} (hu : ∀ i, i < m → u i = u' i)
    (hv : ∀ i, i < m → v i = v' i) : crossSum m u v = crossSum m u' v' := by
  unfold crossSum
  apply sum_congr rfl; intro j hj
  apply sum_congr rfl; intro i hi
  have hj' := mem_range.mp hj
  have hi' := mem_range.mp hi
  rw [hu i (by omega), hu j hj', hv i (by omega), hv j hj']

theorem mwEntry_eq {j n : ℕ} (hj : j < n) (vec : Array ℂ) (hsz : vec.size = 2 ^ n) :
    mwEntry Complex.normSq (0 : ℂ) n vec j
      = some (crossSum (2 ^ (n - 1)) (slice (ampOf vec) j false) (slice (ampOf vec) j true)) := by
  obtain ⟨p0, p1, hs, h0, h1, hp0, hp1⟩ := slices_spec (0 : ℂ) hj vec hsz
  unfold mwEntry
  rw [hs]
  simp only [gcp, h0, h1, Nat.lt_irrefl, if_false]
  congr 1
  simp only [sumTo_eq_sum]
  exact crossSum_congr (fun i hi => hp0 i hi) (fun i hi => hp1 i hi)

/-- **The model's Meyer–Wallach value is the formula `(Σ_k D_k)·(4/n)`.** -/
theorem mwCode_eq {n : ℕ} (hn : 0 < n) (vec : Array ℂ) (hsz : vec.size = 2 ^ n) :
    mwCode vec = some (mwValue n (ampOf vec)) := by
  unfold mwCode meyerWallach
  simp only [hsz, toQubits_two_pow hn]
  rw [if_neg (by omega)]
  have hall : (List.range n).all (fun j => (mwEntry Complex.normSq (0 : ℂ) n vec j).isSome) = true := by
    rw [List.all_eq_true]; intro j hj
    rw [mwEntry_eq (List.mem_range.mp hj) vec hsz]; rfl
  rw [if_pos hall]
  congr 1
  unfold mwValue
  rw [sumTo_eq_sum]
  congr 1
  · apply sum_congr rfl; intro j hj
    rw [mwEntry_eq (mem_range.mp hj) vec hsz]; rfl

end Qclib.Ent
