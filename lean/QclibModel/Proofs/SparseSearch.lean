import QclibModel.Proofs.SparseSelect
/-
  C06 — postcondition of `_bit_string_search` / `_select_strings` (merge.py), by induction over
  the search: the string found is the *only* key matching the collected values on the collected
  positions.
-/
namespace Qclib.Sparse
open Qclib

def splits (strs : List Str) (b : Nat) : Prop := split0 strs b ≠ [] ∧ split1 strs b ≠ []

/-- empty halves ⇒ no difference recorded yet -/
def Inv2 (acc : MaxAcc) : Prop := acc.2.1 = [] → acc.2.2.2 < 0

theorem maxDiffStep_cases (strs : List Str) (acc : MaxAcc) (bit : Nat) :
    (splits strs bit ∧
      ((((Int.natAbs (((split0 strs bit).length : Int) - ((split1 strs bit).length : Int)) : Nat) : Int) > acc.2.2.2 ∧
        maxDiffStep strs acc bit = (bit, split0 strs bit, split1 strs bit,
          ((Int.natAbs (((split0 strs bit).length : Int) - ((split1 strs bit).length : Int)) : Nat) : Int))) ∨
       (¬ ((Int.natAbs (((split0 strs bit).length : Int) - ((split1 strs bit).length : Int)) : Nat) : Int) > acc.2.2.2 ∧
        maxDiffStep strs acc bit = acc))) ∨
    (¬ splits strs bit ∧ maxDiffStep strs acc bit = acc) := by
  unfold maxDiffStep splits
  by_cases h0 : (split0 strs bit).isEmpty
  · right
    refine ⟨fun h => h.1 (List.isEmpty_iff.mp h0), by simp [h0]⟩
  · by_cases h1 : (split1 strs bit).isEmpty
    · right
      refine ⟨fun h => h.2 (List.isEmpty_iff.mp h1), by simp [h1]⟩
    · left
      refine ⟨⟨fun e => h0 (List.isEmpty_iff.mpr e), fun e => h1 (List.isEmpty_iff.mpr e)⟩, ?_⟩
      simp only [h0, h1, Bool.not_false, Bool.and_self, if_true]
      by_cases hd : ((Int.natAbs (((split0 strs bit).length : Int) - ((split1 strs bit).length : Int)) : Nat) : Int) > acc.2.2.2
      · left; exact ⟨hd, by rw [if_pos hd]⟩
      · right; exact ⟨hd, by rw [if_neg hd]⟩

theorem maxDiffStep_inv2 (strs : List Str) (acc : MaxAcc) (bit : Nat) (h : Inv2 acc) :
    Inv2 (maxDiffStep strs acc bit) := by
  rcases maxDiffStep_cases strs acc bit with ⟨hs, ⟨_, e⟩ | ⟨_, e⟩⟩ | ⟨_, e⟩
  · rw [e]; intro h'; exact absurd h' hs.1
  · rw [e]; exact h
  · rw [e]; exact h

theorem foldl_none (strs : List Str) (l : List Nat) (acc : MaxAcc) (h2 : Inv2 acc)
    (hres : (l.foldl (maxDiffStep strs) acc).2.1 = []) :
    acc.2.1 = [] ∧ ∀ b ∈ l, ¬ splits strs b := by
  induction l generalizing acc with
  | nil => exact ⟨hres, by simp⟩
  | cons b l ih =>
    simp only [List.foldl_cons] at hres
    obtain ⟨he, hl⟩ := ih _ (maxDiffStep_inv2 strs acc b h2) hres
    rcases maxDiffStep_cases strs acc b with ⟨hs, ⟨_, e⟩ | ⟨hd, e⟩⟩ | ⟨hs, e⟩
    · rw [e] at he; exact absurd he hs.1
    · rw [e] at he
      have := h2 he
      exfalso; apply hd
      have : (0 : Int) ≤ ((Int.natAbs (((split0 strs b).length : Int) - ((split1 strs b).length : Int)) : Nat) : Int) :=
        Int.natCast_nonneg _
      omega
    · rw [e] at he
      refine ⟨he, ?_⟩
      intro b' hb'
      rcases List.mem_cons.mp hb' with rfl | hb'
      · exact hs
      · exact hl b' hb'

/-- two distinct equal-length strings that agree on `dq` are split by a bit of the search space -/
theorem exists_split (n : Nat) (strs : List Str) (dq : List Nat) (hnd : strs.Nodup)
    (hlen : ∀ k ∈ strs, k.length = n) (h2 : strs.length > 1)
    (hag : ∀ a ∈ strs, ∀ b ∈ strs, ∀ q ∈ dq, bitAt a q = bitAt b q) :
    ∃ b ∈ searchSpace strs dq, splits strs b := by
  match strs, h2 with
  | x :: y :: rest, _ =>
    have hx : x ∈ x :: y :: rest := List.mem_cons_self
    have hy : y ∈ x :: y :: rest := List.mem_cons_of_mem _ List.mem_cons_self
    have hxy : x ≠ y := by
      intro e; subst e
      have := (List.nodup_cons.mp hnd).1
      exact this List.mem_cons_self
    have : ∃ i, bitAt x i ≠ bitAt y i := by
      by_contra hcon
      apply hxy
      apply eq_of_bitAt _ _ (by rw [hlen x hx, hlen y hy])
      intro j
      by_contra hj
      exact hcon ⟨j, hj⟩
    obtain ⟨i, hi⟩ := this
    have hin : i < n := by
      by_contra hge
      apply hi
      rw [bitAt_ge x i (by rw [hlen x hx]; omega), bitAt_ge y i (by rw [hlen y hy]; omega)]
    have hidq : i ∉ dq := fun hq => hi (hag x hx y hy i hq)
    refine ⟨i, ?_, ?_⟩
    · unfold searchSpace
      rw [List.mem_filter, List.mem_range]
      refine ⟨by simp [hlen x hx, hin], by simpa using hidq⟩
    · unfold splits split0 split1
      cases hbx : bitAt x i
      · have hby : bitAt y i = true := by
          cases h : bitAt y i
          · rw [hbx, h] at hi; exact absurd rfl hi
          · rfl
        exact ⟨List.ne_nil_of_mem (List.mem_filter.mpr ⟨hx, by simp [hbx]⟩),
               List.ne_nil_of_mem (List.mem_filter.mpr ⟨hy, by simp [hby]⟩)⟩
      · have hby : bitAt y i = false := by
          cases h : bitAt y i
          · rfl
          · rw [hbx, h] at hi; exact absurd rfl hi
        exact ⟨List.ne_nil_of_mem (List.mem_filter.mpr ⟨hy, by simp [hby]⟩),
               List.ne_nil_of_mem (List.mem_filter.mpr ⟨hx, by simp [hbx]⟩)⟩

/-- `_maximizing_difference_bit_search` on such a list returns the two non-empty halves of the
bit it names. -/
theorem maxDiff_proper (n : Nat) (strs : List Str) (dq : List Nat) (hnd : strs.Nodup)
    (hlen : ∀ k ∈ strs, k.length = n) (h2 : strs.length > 1)
    (hag : ∀ a ∈ strs, ∀ b ∈ strs, ∀ q ∈ dq, bitAt a q = bitAt b q) :
    (maxDiffBitSearch strs dq).2.1 = split0 strs (maxDiffBitSearch strs dq).1 ∧
    (maxDiffBitSearch strs dq).2.2 = split1 strs (maxDiffBitSearch strs dq).1 ∧
    (maxDiffBitSearch strs dq).2.1 ≠ [] ∧ (maxDiffBitSearch strs dq).2.2 ≠ [] := by
  have ok := maxDiffAcc_ok strs dq
  rcases ok with ⟨e0, _⟩ | ⟨e0, e1, n0, n1⟩
  · exfalso
    obtain ⟨b, hb, hs⟩ := exists_split n strs dq hnd hlen h2 hag
    have := foldl_none strs (searchSpace strs dq) (0, [], [], -1) (by intro _; show (-1 : Int) < 0; omega) e0
    exact this.2 b hb hs
  · exact ⟨e0, e1, n0, n1⟩

theorem matchesOn_snoc (b : Str) (dq : List Nat) (dv : List Bool) (q : Nat) (v : Bool)
    (hl : dq.length = dv.length) :
    matchesOn b (dq ++ [q]) (dv ++ [v]) = (matchesOn b dq dv && (bitAt b q == v)) := by
  unfold matchesOn
  rw [List.map_append, List.map_singleton, Bool.eq_iff_iff]
  simp only [beq_iff_eq, Bool.and_eq_true]
  constructor
  · intro h
    have := List.append_inj h (by simp [hl])
    exact ⟨this.1, by simpa using this.2⟩
  · rintro ⟨h1, h2⟩; rw [h1, h2]

theorem matchesOn_agree (a b : Str) (dq : List Nat) (dv : List Bool) (ha : matchesOn a dq dv = true)
    (hb : matchesOn b dq dv = true) : ∀ q ∈ dq, bitAt a q = bitAt b q := by
  unfold matchesOn at ha hb
  rw [beq_iff_eq] at ha hb
  have : dq.map (bitAt a) = dq.map (bitAt b) := ha.trans hb.symm
  exact List.map_inj_left.mp this

theorem matchesOn_of_agree (a b : Str) (dq : List Nat) (dv : List Bool)
    (hb : matchesOn b dq dv = true) (h : ∀ q ∈ dq, bitAt a q = bitAt b q) :
    matchesOn a dq dv = true := by
  unfold matchesOn at hb ⊢
  rw [beq_iff_eq] at hb ⊢
  rw [← hb]; exact List.map_inj_left.mpr h

theorem matchesOn_prefix (b : Str) (dq e : List Nat) (dv ev : List Bool) (hl : dq.length = dv.length)
    (h : matchesOn b (dq ++ e) (dv ++ ev) = true) : matchesOn b dq dv = true := by
  unfold matchesOn at h ⊢
  rw [beq_iff_eq] at h ⊢
  rw [List.map_append] at h
  exact (List.append_inj h (by simp [hl])).1

/-- what `_bit_string_search` guarantees, relative to the list `base` all of whose elements
matching `(dq, dv)` form `temp` -/
structure SearchPost (base temp : List Str) (dq : List Nat) (dv : List Bool)
    (r : List Str × List Nat × List Bool) : Prop where
  c1 : r.1 = base.filter (fun b => matchesOn b r.2.1 r.2.2)
  c2 : r.1.length ≤ 1
  c2' : temp ≠ [] → r.1 ≠ []
  c3 : r.2.1.length = r.2.2.length
  c4 : ∃ e ev, r.2.1 = dq ++ e ∧ r.2.2 = dv ++ ev ∧
        ∀ q ∈ e, ∃ a ∈ temp, ∃ b ∈ temp, bitAt a q ≠ bitAt b q
  c5 : r.2.1 ≠ dq → ∃ q Q V, r.2.1 = Q ++ [q] ∧ r.2.2.dropLast = V ∧ Q.length = V.length ∧
        ∃ a ∈ base.filter (fun b => matchesOn b Q V), ∃ b ∈ base.filter (fun b => matchesOn b Q V),
          bitAt a q ≠ bitAt b q

theorem search_spec (n : Nat) (base : List Str) (hnd : base.Nodup) (hlen : ∀ k ∈ base, k.length = n) :
    ∀ (N : Nat) (temp : List Str) (dq : List Nat) (dv : List Bool), temp.length = N →
      temp = base.filter (fun b => matchesOn b dq dv) → dq.length = dv.length →
      SearchPost base temp dq dv (bitStringSearch temp dq dv) := by
  intro N
  induction N using Nat.strong_induction_on with
  | _ N ih =>
    intro temp dq dv hN htemp hl
    unfold bitStringSearch
    by_cases h : temp.length > 1
    · rw [dif_pos h]
      have tnd : temp.Nodup := htemp ▸ hnd.filter _
      have tlen : ∀ k ∈ temp, k.length = n := by
        intro k hk; rw [htemp] at hk; exact hlen k (List.mem_filter.mp hk).1
      have tag : ∀ a ∈ temp, ∀ b ∈ temp, ∀ q ∈ dq, bitAt a q = bitAt b q := by
        intro a ha b hb
        rw [htemp] at ha hb
        exact matchesOn_agree a b dq dv (by simpa using (List.mem_filter.mp ha).2)
          (by simpa using (List.mem_filter.mp hb).2)
      obtain ⟨m0, m1, mn0, mn1⟩ := maxDiff_proper n temp dq tnd tlen h tag
      obtain ⟨sh0, sh1⟩ := maxDiff_shrinks temp dq h
      set m := maxDiffBitSearch temp dq with hm
      -- the bit splits temp
      have hsplit : ∃ a ∈ temp, ∃ b ∈ temp, bitAt a m.1 ≠ bitAt b m.1 := by
        obtain ⟨a, ha⟩ := List.exists_mem_of_ne_nil _ mn0
        obtain ⟨b, hb⟩ := List.exists_mem_of_ne_nil _ mn1
        rw [m0] at ha; rw [m1] at hb
        have ha' := List.mem_filter.mp ha
        have hb' := List.mem_filter.mp hb
        refine ⟨a, ha'.1, b, hb'.1, ?_⟩
        have e1 : bitAt a m.1 = false := by simpa using ha'.2
        have e2 : bitAt b m.1 = true := by simpa using hb'.2
        rw [e1, e2]; simp
      -- common continuation for a chosen half
      have step : ∀ (v : Bool) (half : List Str),
          half = temp.filter (fun x => bitAt x m.1 == v) → half ≠ [] → half.length < temp.length →
          SearchPost base temp dq dv (bitStringSearch half (dq ++ [m.1]) (dv ++ [v])) := by
        intro v half hhalf hne hlt
        have hbase : half = base.filter (fun b => matchesOn b (dq ++ [m.1]) (dv ++ [v])) := by
          rw [hhalf, htemp, List.filter_filter]
          congr 1; funext b; rw [matchesOn_snoc b dq dv m.1 v hl, Bool.and_comm]
        have post := ih half.length (hN ▸ hlt) half (dq ++ [m.1]) (dv ++ [v]) rfl hbase (by simp [hl])
        obtain ⟨e, ev, he, hev, hsp⟩ := post.c4
        refine ⟨post.c1, post.c2, fun _ => post.c2' hne, post.c3, ?_, ?_⟩
        · refine ⟨[m.1] ++ e, [v] ++ ev, by rw [he]; simp, by rw [hev]; simp, ?_⟩
          intro q hq
          rcases List.mem_append.mp hq with hq | hq
          · rw [List.mem_singleton] at hq; subst hq; exact hsplit
          · obtain ⟨a, ha, b, hb, hab⟩ := hsp q hq
            rw [hhalf] at ha hb
            exact ⟨a, (List.mem_filter.mp ha).1, b, (List.mem_filter.mp hb).1, hab⟩
        · intro _
          by_cases hext : (bitStringSearch half (dq ++ [m.1]) (dv ++ [v])).2.1 = dq ++ [m.1]
          · have hevl : ev = [] := by
              have h3 := post.c3
              rw [hext, hev] at h3
              have : e = [] := by
                have := hext; rw [he] at this
                exact List.append_right_eq_self.mp this
              simp only [List.length_append, List.length_cons, List.length_nil] at h3
              exact List.eq_nil_of_length_eq_zero (by omega)
            refine ⟨m.1, dq, dv, hext, by rw [hev, hevl]; simp, hl, ?_⟩
            rw [← htemp]; exact hsplit
          · exact post.c5 hext
      by_cases hcmp : m.2.1.length < m.2.2.length
      · rw [if_pos hcmp]
        exact step false m.2.1 m0 mn0 sh0
      · rw [if_neg hcmp]
        exact step true m.2.2 m1 mn1 sh1
    · rw [dif_neg h]
      refine ⟨htemp, by simpa using Nat.le_of_not_gt h, fun hne => hne, hl, ⟨[], [], by simp, by simp, by simp⟩, fun hne => absurd rfl hne⟩

end Qclib.Sparse

namespace Qclib.Sparse
open Qclib

theorem singleton_of_len (l : List Str) (h1 : l.length ≤ 1) (h2 : l ≠ []) : ∃ b, l = [b] := by
  match l, h1, h2 with
  | [b], _, _ => exact ⟨b, rfl⟩
  | [], _, h => exact absurd rfl h
  | _ :: _ :: _, h, _ => simp at h

/-- **Postcondition of `_select_strings`** for a dictionary of `m ≥ 2` distinct `n`-bit keys: it
succeeds, and the selection satisfies the uniqueness properties that `merge_pair_only` needs. -/
theorem select_spec (n : Nat) (keys : List Str) (hnd : keys.Nodup) (hlen : ∀ k ∈ keys, k.length = n)
    (h2 : keys.length ≥ 2) :
    ∃ b1 b2 dif Q, selectStrings keys = some (b1, b2, dif, Q) ∧ b1 ∈ keys ∧ b2 ∈ keys ∧ dif < n ∧
      dif ∉ Q ∧ (∀ q ∈ Q, q < n) ∧ bitAt b1 dif ≠ bitAt b2 dif ∧
      (∀ k ∈ keys, (∀ q ∈ Q, bitAt k q = bitAt b1 q) → bitAt k dif = bitAt b1 dif → k = b1) ∧
      (∀ k ∈ keys, k ≠ b1 → (∀ q ∈ Q, bitAt k q = bitAt b2 q) → k = b2) := by
  have hall : keys = keys.filter (fun b => matchesOn b [] []) := by
    simp [matchesOn]
  have post1 := search_spec n keys hnd hlen keys.length keys [] [] rfl hall rfl
  set r1 := bitStringSearch keys [] [] with hr1
  have hkne : keys ≠ [] := by intro e; rw [e] at h2; simp at h2
  obtain ⟨b1, hb1⟩ := singleton_of_len r1.1 post1.c2 (post1.c2' hkne)
  have hQne : r1.2.1 ≠ [] := by
    intro e
    have hv : r1.2.2 = [] := List.eq_nil_of_length_eq_zero (by rw [← post1.c3, e]; rfl)
    have := post1.c1
    rw [e, hv, ← hall, hb1] at this
    rw [← this] at h2; simp at h2
  obtain ⟨dif, Q0, V0, hQ, hV, hQV, a, ha, b, hb, hab⟩ := post1.c5 hQne
  -- values list
  have hVlen : r1.2.2.length = Q0.length + 1 := by rw [← post1.c3, hQ]; simp
  have hVne : r1.2.2 ≠ [] := by intro e; rw [e] at hVlen; simp at hVlen
  obtain ⟨v, hv⟩ : ∃ v, r1.2.2 = V0 ++ [v] :=
    ⟨r1.2.2.getLast hVne, by rw [← hV]; exact (List.dropLast_append_getLast hVne).symm⟩
  -- b1 facts
  have hb1mem : b1 ∈ r1.1 := by rw [hb1]; exact List.mem_singleton.mpr rfl
  rw [post1.c1] at hb1mem
  have hb1k : b1 ∈ keys := (List.mem_filter.mp hb1mem).1
  have hb1m : matchesOn b1 (Q0 ++ [dif]) (V0 ++ [v]) = true := by
    have := (List.mem_filter.mp hb1mem).2; rw [hQ, hv] at this; simpa using this
  rw [matchesOn_snoc b1 Q0 V0 dif v hQV, Bool.and_eq_true] at hb1m
  have hb1d : bitAt b1 dif = v := by simpa using hb1m.2
  have only1 : ∀ k ∈ keys, matchesOn k Q0 V0 = true → bitAt k dif = v → k = b1 := by
    intro k hk hm hd
    have : k ∈ r1.1 := by
      rw [post1.c1, hQ, hv]
      refine List.mem_filter.mpr ⟨hk, ?_⟩
      rw [matchesOn_snoc k Q0 V0 dif v hQV]; simp [hm, hd]
    rw [hb1] at this; exact List.mem_singleton.mp this
  -- dif
  have ha' := List.mem_filter.mp ha
  have hb' := List.mem_filter.mp hb
  have hdifn : dif < n := by
    by_contra hge
    apply hab
    rw [bitAt_ge a dif (by rw [hlen a ha'.1]; omega), bitAt_ge b dif (by rw [hlen b hb'.1]; omega)]
  have hdifQ0 : dif ∉ Q0 := fun hq =>
    hab (matchesOn_agree a b Q0 V0 (by simpa using ha'.2) (by simpa using hb'.2) dif hq)
  -- second search
  have rnd : (keys.erase b1).Nodup := hnd.erase b1
  have rlen : ∀ k ∈ keys.erase b1, k.length = n := fun k hk => hlen k (List.mem_of_mem_erase hk)
  have rmem : ∀ k, k ∈ keys.erase b1 ↔ k ≠ b1 ∧ k ∈ keys := fun k => hnd.mem_erase_iff
  set cand := buildBitStringSet (keys.erase b1) Q0 V0 with hcand
  have hcand' : cand = (keys.erase b1).filter (fun b => matchesOn b Q0 V0) := rfl
  have candne : cand ≠ [] := by
    -- one of a, b differs from b1
    have : ∃ c ∈ keys, c ≠ b1 ∧ matchesOn c Q0 V0 = true := by
      by_cases e : a = b1
      · refine ⟨b, hb'.1, ?_, by simpa using hb'.2⟩
        intro e'; apply hab; rw [e, e']
      · exact ⟨a, ha'.1, e, by simpa using ha'.2⟩
    obtain ⟨c, hc, hcne, hcm⟩ := this
    exact List.ne_nil_of_mem (List.mem_filter.mpr ⟨(rmem c).mpr ⟨hcne, hc⟩, by simpa using hcm⟩)
  have post2 := search_spec n (keys.erase b1) rnd rlen cand.length cand Q0 V0 rfl hcand' hQV
  set r2 := bitStringSearch cand Q0 V0 with hr2
  obtain ⟨b2, hb2⟩ := singleton_of_len r2.1 post2.c2 (post2.c2' candne)
  obtain ⟨e, ev, hQ2, hV2, hsp⟩ := post2.c4
  have hb2mem : b2 ∈ r2.1 := by rw [hb2]; exact List.mem_singleton.mpr rfl
  rw [post2.c1] at hb2mem
  have hb2r := (List.mem_filter.mp hb2mem).1
  have hb2k : b2 ∈ keys := ((rmem b2).mp hb2r).2
  have hb2m : matchesOn b2 r2.2.1 r2.2.2 = true := by simpa using (List.mem_filter.mp hb2mem).2
  have candbit : ∀ k ∈ cand, bitAt k dif = !v := by
    intro k hk
    have hk' := List.mem_filter.mp hk
    have hkk := (rmem k).mp hk'.1
    cases hkd : bitAt k dif <;> cases hvv : v <;> try rfl
    · exact absurd (only1 k hkk.2 (by simpa using hk'.2) (by rw [hkd, hvv])) hkk.1
    · exact absurd (only1 k hkk.2 (by simpa using hk'.2) (by rw [hkd, hvv])) hkk.1
  have hb2cand : b2 ∈ cand := by
    refine List.mem_filter.mpr ⟨hb2r, ?_⟩
    have := matchesOn_prefix b2 Q0 e V0 ev hQV (by rw [← hQ2, ← hV2]; exact hb2m)
    simpa using this
  have hsel : selectStrings keys = some (b1, b2, dif, r2.2.1) := by
    unfold selectStrings
    have g1 : (bitStringSearch keys [] []).2.1.getLast? = some dif := by
      rw [← hr1, hQ]; simp
    have g2 : (bitStringSearch keys [] []).1.head? = some b1 := by rw [← hr1, hb1]; rfl
    have g3 : (bitStringSearch keys [] []).2.1.dropLast = Q0 := by rw [← hr1, hQ]; simp
    have g4 : (bitStringSearch keys [] []).2.2.dropLast = V0 := by rw [← hr1]; exact hV
    simp only [g1, g2, g3, g4]
    have g5 : (bitStringSearch (buildBitStringSet (keys.erase b1) Q0 V0) Q0 V0).1.head? = some b2 := by
      rw [← hcand, ← hr2, hb2]; rfl
    simp only [g5]
    rfl
  refine ⟨b1, b2, dif, r2.2.1, hsel, hb1k, hb2k, hdifn, ?_, ?_, ?_, ?_, ?_⟩
  · rw [hQ2]
    intro hmem
    rcases List.mem_append.mp hmem with h | h
    · exact hdifQ0 h
    · obtain ⟨x, hx, y, hy, hxy⟩ := hsp dif h
      apply hxy; rw [candbit x hx, candbit y hy]
  · intro q hq
    rw [hQ2] at hq
    rcases List.mem_append.mp hq with h | h
    · -- q ∈ Q0: it split some earlier list, so it is a position < n; use b1 vs …: derive from search 1
      obtain ⟨e1, ev1, hQ1, _, hsp1⟩ := post1.c4
      have : q ∈ e1 := by
        have : r1.2.1 = e1 := by simpa using hQ1
        rw [← this, hQ]; exact List.mem_append_left _ h
      obtain ⟨x, hx, y, hy, hxy⟩ := hsp1 q this
      by_contra hge
      apply hxy
      rw [bitAt_ge x q (by rw [hlen x hx]; omega), bitAt_ge y q (by rw [hlen y hy]; omega)]
    · obtain ⟨x, hx, y, hy, hxy⟩ := hsp q h
      have hx' := (rmem x).mp (List.mem_filter.mp hx).1
      have hy' := (rmem y).mp (List.mem_filter.mp hy).1
      by_contra hge
      apply hxy
      rw [bitAt_ge x q (by rw [hlen x hx'.2]; omega), bitAt_ge y q (by rw [hlen y hy'.2]; omega)]
  · rw [hb1d, candbit b2 hb2cand]; cases v <;> simp
  · intro k hk hag hd
    apply only1 k hk _ (by rw [hd, hb1d])
    apply matchesOn_of_agree k b1 Q0 V0 hb1m.1
    intro q hq
    exact hag q (by rw [hQ2]; exact List.mem_append_left _ hq)
  · intro k hk hne hag
    have : k ∈ r2.1 := by
      rw [post2.c1]
      refine List.mem_filter.mpr ⟨(rmem k).mpr ⟨hne, hk⟩, ?_⟩
      have := matchesOn_of_agree k b2 r2.2.1 r2.2.2 hb2m hag
      simpa using this
    rw [hb2] at this; exact List.mem_singleton.mp this

end Qclib.Sparse
