import QclibModel.Proofs.McsuCore
import QclibModel.Proofs.RotLaws
import Mathlib.Tactic.Abel
/-
  `LdMcSpecialUnitary` (C04_abc): the ABC operators of `get_abc_operators` for ZYZ angles
  (`A·B·C = I`, `A·X·B·X·C = RZ(β)·RY(γ)·RZ(δ)`), over any ring with the rotation laws, and the
  Barenco circuit with ideal MCX gates, on every state.
-/
set_option linter.unusedSimpArgs false
namespace Qclib.Mcsu
open RotSem

section Algebra
variable {Θ R : Type} [AddCommGroup Θ] [CommRing R] [RotSem Θ R] [RotLaws Θ R]

theorem matRZ_mul (a b : Θ) : (matRZ a : Mat2 R) * matRZ b = matRZ (a + b) := by
  apply Mat2.ext' <;>
    simp [mat_mul_def, Mat2.mul, matRZ, RotLaws.exb_eq, RotLaws.ex_add, neg_add] <;> ring

theorem matRY_mul (a b : Θ) : (matRY a : Mat2 R) * matRY b = matRY (a + b) := by
  apply Mat2.ext' <;>
    simp [mat_mul_def, Mat2.mul, matRY, RotLaws.cs_add, RotLaws.sn_add] <;> ring

theorem matRZ_zero : (matRZ (0 : Θ) : Mat2 R) = 1 := by
  apply Mat2.ext' <;> simp [mat_one_def, Mat2.one, matRZ, RotLaws.exb_eq, RotLaws.ex_zero]

theorem matRY_zero : (matRY (0 : Θ) : Mat2 R) = 1 := by
  apply Mat2.ext' <;> simp [mat_one_def, Mat2.one, matRY, RotLaws.cs_zero, RotLaws.sn_zero]

theorem X_matRY_X (a : Θ) : (Mat2.X : Mat2 R) * matRY a * Mat2.X = matRY (-a) := by
  apply Mat2.ext' <;>
    simp [mat_mul_def, Mat2.mul, matRY, Mat2.X, RotLaws.cs_neg, RotLaws.sn_neg]

theorem X_matRZ_X (a : Θ) : (Mat2.X : Mat2 R) * matRZ a * Mat2.X = matRZ (-a) := by
  apply Mat2.ext' <;> simp [mat_mul_def, Mat2.mul, matRZ, Mat2.X, RotLaws.exb_eq]

/-- `get_abc_operators(beta, gamma, delta)` in the abstract rotation algebra (`half` = division of
an angle by two). -/
def abcA (half : Θ → Θ) (β γ : Θ) : Mat2 R := matRZ β * matRY (half γ)
def abcB (half : Θ → Θ) (β γ δ : Θ) : Mat2 R := matRY (-(half γ)) * matRZ (-(half (δ + β)))
def abcC (half : Θ → Θ) (β δ : Θ) : Mat2 R := matRZ (half (δ - β))

/-- `half` is division by two in the angle group. -/
structure IsHalf (half : Θ → Θ) : Prop where
  add : ∀ a b, half (a + b) = half a + half b
  double : ∀ a, half a + half a = a

theorem IsHalf.neg {half : Θ → Θ} (h : IsHalf half) (a : Θ) : half (-a) = -half a := by
  have h0 : half 0 = 0 := by
    have := h.add 0 0
    simp only [add_zero] at this
    have h2 := h.double 0
    rw [← this] at h2
    exact h2
  have := h.add a (-a)
  rw [add_neg_cancel, h0] at this
  exact (neg_eq_of_add_eq_zero_right this.symm).symm

theorem abc_angles {half : Θ → Θ} (h : IsHalf half) (β δ : Θ) :
    -(half (δ + β)) + half (δ - β) = -β ∧ half (δ + β) + half (δ - β) = δ := by
  have e1 : half (δ - β) = half δ - half β := by rw [sub_eq_add_neg, h.add, h.neg, ← sub_eq_add_neg]
  rw [h.add, e1]
  constructor
  · have := h.double β
    calc -(half δ + half β) + (half δ - half β) = -(half β + half β) := by abel
      _ = -β := by rw [this]
  · have := h.double δ
    calc half δ + half β + (half δ - half β) = half δ + half δ := by abel
      _ = δ := this

/-- `A · B · C = I`. -/
theorem abc_one {half : Θ → Θ} (h : IsHalf half) (β γ δ : Θ) :
    (abcA half β γ : Mat2 R) * abcB half β γ δ * abcC half β δ = 1 := by
  unfold abcA abcB abcC
  have e : (matRZ β : Mat2 R) * matRY (half γ) * (matRY (-(half γ)) * matRZ (-(half (δ + β))))
      * matRZ (half (δ - β))
      = matRZ β * ((matRY (half γ) * matRY (-(half γ))) * (matRZ (-(half (δ + β)))
        * matRZ (half (δ - β)))) := by simp only [mat_mul_assoc]
  rw [e, matRY_mul, matRZ_mul, (abc_angles h β δ).1, add_neg_cancel, matRY_zero, mat_one_mul,
    matRZ_mul, add_neg_cancel, matRZ_zero]

/-- `A · X · B · X · C = RZ(β) · RY(γ) · RZ(δ)`. -/
theorem abc_u {half : Θ → Θ} (h : IsHalf half) (β γ δ : Θ) :
    (abcA half β γ : Mat2 R) * Mat2.X * abcB half β γ δ * Mat2.X * abcC half β δ
      = matRZ β * matRY γ * matRZ δ := by
  unfold abcA abcB abcC
  have hx : ∀ M N : Mat2 R, Mat2.X * (M * N) * Mat2.X = (Mat2.X * M * Mat2.X) * (Mat2.X * N * Mat2.X) := by
    intro M N
    have : (Mat2.X * M * Mat2.X) * (Mat2.X * N * Mat2.X) = Mat2.X * M * (Mat2.X * Mat2.X) * N * Mat2.X := by
      simp only [mat_mul_assoc]
    rw [this, mat_X_mul_X, mat_mul_one]; simp only [mat_mul_assoc]
  have e : (matRZ β : Mat2 R) * matRY (half γ) * Mat2.X * (matRY (-(half γ)) * matRZ (-(half (δ + β))))
      * Mat2.X * matRZ (half (δ - β))
      = matRZ β * (matRY (half γ) * ((Mat2.X * (matRY (-(half γ)) * matRZ (-(half (δ + β)))) * Mat2.X)
        * matRZ (half (δ - β)))) := by simp only [mat_mul_assoc]
  rw [e, hx, X_matRY_X, X_matRZ_X, neg_neg, neg_neg]
  have e2 : (matRY (half γ) : Mat2 R) * (matRY (half γ) * matRZ (half (δ + β)) * matRZ (half (δ - β)))
      = (matRY (half γ) * matRY (half γ)) * (matRZ (half (δ + β)) * matRZ (half (δ - β))) := by
    simp only [mat_mul_assoc]
  rw [e2, matRY_mul, matRZ_mul, h.double, (abc_angles h β δ).2, mat_mul_assoc]

end Algebra

section Circuit
variable {R : Type} [CommRing R]

/-- Time order `C, MCX, B, MCX, A`. -/
def abcSeq (l : List (Nat × Bool)) (t : Nat) (A B C : Mat2 R) (ψ : State R) : State R :=
  applyMcu [] A t (applyMcu l Mat2.X t (applyMcu [] B t (applyMcu l Mat2.X t (applyMcu [] C t ψ))))

/-- **Barenco Lemma 7.9 with ideal MCX.**  If `A·B·C = I` then `C, MCX, B, MCX, A` is the gate
controlled on `l` with matrix `A·X·B·X·C`, on every state. -/
theorem abc_seq (l : List (Nat × Bool)) (t : Nat) (A B C : Mat2 R) (habc : A * B * C = 1)
    (hl : Avoids l t) (ψ : State R) :
    abcSeq l t A B C ψ = applyMcu l (A * Mat2.X * B * Mat2.X * C) t ψ := by
  have fl := mcuFam_free l (Mat2.X : Mat2 R) t hl
  unfold abcSeq
  simp only [applyMcu_eq_fam, mcuFam_nil]
  rw [applyFam_comp t _ _ fl, applyFam_comp t _ _ (TFree_const t B), applyFam_comp t _ _ fl,
    applyFam_comp t _ _ (TFree_const t C)]
  apply applyFam_congr
  intro b
  simp only [mcuFam]
  cases ctrlOk l b <;> simp [mat_mul_one, habc]

/-- Time order of the `k ≥ 3` branch: `C` controlled on the last control, MCX on the other
controls, controlled `B`, MCX, controlled `A`. -/
def abcSeq2 (l : List (Nat × Bool)) (anc : Nat × Bool) (t : Nat) (A B C : Mat2 R) (ψ : State R) :
    State R :=
  applyMcu [anc] A t (applyMcu l Mat2.X t (applyMcu [anc] B t (applyMcu l Mat2.X t
    (applyMcu [anc] C t ψ))))

/-- **Iten et al. Theorem 5 structure with ideal MCX.**  With the last control acting as control
of `A`, `B`, `C` and as dirty ancilla of the MCX on the remaining controls: the gate controlled
on all of them with matrix `A·X·B·X·C`. -/
theorem abc_seq2 (l : List (Nat × Bool)) (anc : Nat × Bool) (t : Nat) (A B C : Mat2 R)
    (habc : A * B * C = 1) (hl : Avoids l t) (ha : anc.1 ≠ t) (ψ : State R) :
    abcSeq2 l anc t A B C ψ = applyMcu (l ++ [anc]) (A * Mat2.X * B * Mat2.X * C) t ψ := by
  have fl := mcuFam_free l (Mat2.X : Mat2 R) t hl
  have hanc : Avoids [anc] t := by intro cv hcv; simp at hcv; subst hcv; exact ha
  unfold abcSeq2
  simp only [applyMcu_eq_fam]
  rw [applyFam_comp t _ _ fl, applyFam_comp t _ _ (mcuFam_free [anc] B t hanc),
    applyFam_comp t _ _ fl, applyFam_comp t _ _ (mcuFam_free [anc] C t hanc)]
  apply applyFam_congr
  intro b
  simp only [mcuFam, ctrlOk_append]
  cases ctrlOk l b <;> cases ctrlOk [anc] b <;>
    simp [mat_mul_one, mat_one_mul, habc, mat_X_mul_X]

end Circuit
end Qclib.Mcsu
