import QclibModel.Proofs.SparseMergeTotalB
import QclibModel.Proofs.SparseSearch
/-
  C06 — whole-circuit theorem for `MergeInitialize`, part C: one pass of the
  `while len(b_strings) > 1` loop (select, preprocess, merge) in terms of dictionary states, and the
  invariant that lets the passes be chained.
-/
namespace Qclib.Sparse.Mrg
open Qclib

/-! ### unfolding `mergeLoop` -/

def stepPre (d : Dict ℝ) (g : List (SG ℝ)) (e : List (MEv ℝ)) (b1 b2 : Str) (dif : Nat)
    (dq : List Nat) : MSt ℝ :=
  preprocess ⟨b1, b2, d, g, e ++ [MEv.sel b1 b2 dif dq]⟩ dif dq

noncomputable def stepGate (dq : List Nat) (dif : Nat) (a1 a2 : Amp ℝ) : SG ℝ :=
  if dq.isEmpty then SG.u (mergeAngles a1 a2).1 (mergeAngles a1 a2).2.1 (mergeAngles a1 a2).2.2 dif
  else SG.mcu "Ldmcu" dq (mergeAngles a1 a2).1 (mergeAngles a1 a2).2.1 (mergeAngles a1 a2).2.2 dif

theorem mergeLoop_succ (fuel : Nat) (d : Dict ℝ) (g : List (SG ℝ)) (e : List (MEv ℝ))
    (hlen : d.length > 1) (b1 b2 : Str) (dif : Nat) (dq : List Nat)
    (hsel : selectStrings d.keys = some (b1, b2, dif, dq)) (a1 a2 : Amp ℝ)
    (h1 : (stepPre d g e b1 b2 dif dq).d.lookup (stepPre d g e b1 b2 dif dq).b1 = some a1)
    (h2 : (stepPre d g e b1 b2 dif dq).d.lookup (stepPre d g e b1 b2 dif dq).b2 = some a2) :
    ∃ e', mergeLoop (fuel + 1) d g e =
      mergeLoop fuel
        (mergeUpdate (stepPre d g e b1 b2 dif dq).d (stepPre d g e b1 b2 dif dq).b1
          (stepPre d g e b1 b2 dif dq).b2 (normAmp a1 a2))
        ((stepPre d g e b1 b2 dif dq).gates ++ [stepGate dq dif a1 a2]) e' := by
  refine ⟨(stepPre d g e b1 b2 dif dq).evs ++
    [MEv.ang (mergeAngles a1 a2).1 (mergeAngles a1 a2).2.1 (mergeAngles a1 a2).2.2,
     MEv.updMerge (stepPre d g e b1 b2 dif dq).b1 (stepPre d g e b1 b2 dif dq).b2
      (mergeUpdate (stepPre d g e b1 b2 dif dq).d (stepPre d g e b1 b2 dif dq).b1
          (stepPre d g e b1 b2 dif dq).b2 (normAmp a1 a2))], ?_⟩
  rw [mergeLoop, if_pos hlen]
  simp only [hsel]
  unfold stepPre at h1 h2
  simp only [h1, h2]
  rfl

theorem mergeLoop_done (fuel : Nat) (d : Dict ℝ) (g : List (SG ℝ)) (e : List (MEv ℝ))
    (hlen : ¬ d.length > 1) : mergeLoop fuel d g e = some (d, g, e) := by
  cases fuel with
  | zero => rw [mergeLoop, if_neg hlen]
  | succ f => rw [mergeLoop, if_neg hlen]

/-! ### the loop invariant -/

/-- what every dictionary of the loop satisfies: distinct `n`-character keys, non-zero amplitudes,
and every real scalar (`cplx = false`) is non-negative with `im = 0` -/
structure DInv (n : Nat) (d : Dict ℝ) : Prop where
  nd : d.keys.Nodup
  len : ∀ k ∈ d.keys, k.length = n
  nz : ∀ kv ∈ d, 0 < kv.2.absSq
  real : ∀ kv ∈ d, kv.2.cplx = false → kv.2.im = 0 ∧ 0 ≤ kv.2.re

theorem length_keys (d : Dict ℝ) : d.keys.length = d.length := by simp [Dict.keys]

theorem length_mapKeys (f : Str → Str) (d : Dict ℝ) : (d.mapKeys f).length = d.length := by
  simp [Dict.mapKeys]

theorem mem_mapKeys {f : Str → Str} {d : Dict ℝ} {kv : Str × Amp ℝ} (h : kv ∈ d.mapKeys f) :
    ∃ k, (k, kv.2) ∈ d ∧ kv.1 = f k := by
  unfold Dict.mapKeys at h
  rw [List.mem_map] at h
  obtain ⟨kv0, h0, rfl⟩ := h
  exact ⟨kv0.1, h0, rfl⟩

theorem DInv.mapKeys {n : Nat} {d : Dict ℝ} (h : DInv n d) (f : Str → Str)
    (finj : ∀ k ∈ d.keys, ∀ k' ∈ d.keys, f k = f k' → k = k')
    (flen : ∀ k ∈ d.keys, (f k).length = n) : DInv n (d.mapKeys f) := by
  refine ⟨?_, ?_, ?_, ?_⟩
  · rw [keys_mapKeys_m]; exact List.Nodup.map_on finj h.nd
  · intro k hk
    rw [keys_mapKeys_m, List.mem_map] at hk
    obtain ⟨k0, hk0, rfl⟩ := hk
    exact flen k0 hk0
  · intro kv hkv
    obtain ⟨k, hk, _⟩ := mem_mapKeys hkv
    exact h.nz (k, kv.2) hk
  · intro kv hkv
    obtain ⟨k, hk, _⟩ := mem_mapKeys hkv
    exact h.real (k, kv.2) hk

theorem normAmp_sq (a1 a2 : Amp ℝ) : normAmp a1 a2 = Real.sqrt (a1.absSq + a2.absSq) := rfl

theorem DInv.mergeUpdate {n : Nat} {d : Dict ℝ} (h : DInv n d) (p1 p2 : Str) (N : ℝ) (hN : 0 < N) :
    DInv n (mergeUpdate d p1 p2 N) := by
  refine ⟨?_, ?_, ?_, ?_⟩
  · rw [keys_mergeUpdate]; exact h.nd.filter _
  · intro k hk
    rw [keys_mergeUpdate] at hk
    exact h.len k (List.mem_filter.mp hk).1
  · intro kv hkv
    rcases mem_mergeUpdate d p1 p2 N kv hkv with hm | rfl
    · exact h.nz kv hm
    · show 0 < N * N + 0 * 0
      nlinarith
  · intro kv hkv hc
    rcases mem_mergeUpdate d p1 p2 N kv hkv with hm | rfl
    · exact h.real kv hm hc
    · exact ⟨rfl, hN.le⟩

/-! ### one pass of the loop -/

section Step
variable (iu : ℂ) (dn : List Nat → List (Amp ℝ) → State ℂ → State ℂ)

theorem denote_stepGate (dq : List Nat) (dif : Nat) (a1 a2 : Amp ℝ) (ψ : State ℂ) :
    denoteSG iu dn (stepGate dq dif a1 a2) ψ
      = applyMcu (dq.map (fun q => (q, true)))
          (matU (mergeAngles a1 a2).1 (mergeAngles a1 a2).2.1 (mergeAngles a1 a2).2.2 : Mat2 ℂ)
          dif ψ := by
  unfold stepGate
  cases dq with
  | nil => rfl
  | cons q r => rfl

/-- **One pass of `while len(b_strings) > 1`** on a dictionary satisfying the invariant, with at
least two keys: `_select_strings` succeeds, both lookups of `_merge` succeed, the gates appended
are the relabelling gates `ops` followed by the merge gate; the new dictionary satisfies the
invariant again, has one key less and the same `Σ|a|²`, carries the real scalar `N` on `bitstr1`;
and the appended gates **in reversed order** take the state of the new dictionary to the state of
the old one (on top of any spectator state). -/
theorem merge_step (n : Nat) (d : Dict ℝ) (hI : DInv n d) (h2 : 2 ≤ d.length) (g : List (SG ℝ))
    (e : List (MEv ℝ)) :
    ∃ (b1 b2 : Str) (dif : Nat) (dq : List Nat) (a1 a2 : Amp ℝ) (ops : List KOp),
      selectStrings d.keys = some (b1, b2, dif, dq) ∧
      (stepPre d g e b1 b2 dif dq).d.lookup (stepPre d g e b1 b2 dif dq).b1 = some a1 ∧
      (stepPre d g e b1 b2 dif dq).d.lookup (stepPre d g e b1 b2 dif dq).b2 = some a2 ∧
      (stepPre d g e b1 b2 dif dq).gates = g ++ ops.map KOp.mergeSG ∧
      DInv n (mergeUpdate (stepPre d g e b1 b2 dif dq).d (stepPre d g e b1 b2 dif dq).b1
          (stepPre d g e b1 b2 dif dq).b2 (normAmp a1 a2)) ∧
      (mergeUpdate (stepPre d g e b1 b2 dif dq).d (stepPre d g e b1 b2 dif dq).b1
          (stepPre d g e b1 b2 dif dq).b2 (normAmp a1 a2)).length + 1 = d.length ∧
      dictSq (mergeUpdate (stepPre d g e b1 b2 dif dq).d (stepPre d g e b1 b2 dif dq).b1
          (stepPre d g e b1 b2 dif dq).b2 (normAmp a1 a2)) = dictSq d ∧
      ((stepPre d g e b1 b2 dif dq).b1, (⟨normAmp a1 a2, 0, false⟩ : Amp ℝ)) ∈
        mergeUpdate (stepPre d g e b1 b2 dif dq).d (stepPre d g e b1 b2 dif dq).b1
          (stepPre d g e b1 b2 dif dq).b2 (normAmp a1 a2) ∧
      ∀ ψ0 : State ℂ,
        semSG iu dn (ops.map KOp.mergeSG ++ [stepGate dq dif a1 a2]).reverse
          (dictState n (mergeUpdate (stepPre d g e b1 b2 dif dq).d (stepPre d g e b1 b2 dif dq).b1
            (stepPre d g e b1 b2 dif dq).b2 (normAmp a1 a2)) ψ0)
          = dictState n d ψ0 := by
  obtain ⟨b1, b2, dif, dq, hsel, hb1, hb2, hdn, hdq, hqn, hdiff, U1, U2⟩ :=
    select_spec n d.keys hI.nd hI.len (by rw [length_keys]; exact h2)
  obtain ⟨f, hfd, hf1, hf2, finj, flen, ffire, f1, f2, fag⟩ :=
    merge_pair_only n d.keys hI.len b1 b2 hb1 hb2 dif dq hdn hdq hqn hdiff U1 U2 d g
      (e ++ [MEv.sel b1 b2 dif dq])
  obtain ⟨ops, htrk⟩ := trk_preprocess n dif dq
    (⟨b1, b2, d, g, e ++ [MEv.sel b1 b2 dif dq]⟩ : MSt ℝ) (hI.len b1 hb1) hdn hqn
  -- name the preprocessed state
  have hst : stepPre d g e b1 b2 dif dq
      = preprocess ⟨b1, b2, d, g, e ++ [MEv.sel b1 b2 dif dq]⟩ dif dq := rfl
  rw [← hst] at hfd hf1 hf2 htrk
  refine ⟨b1, b2, dif, dq, ?_⟩
  generalize stepPre d g e b1 b2 dif dq = st at hfd hf1 hf2 htrk ⊢
  have hdops : st.d = d.mapKeys (applyOps ops) := htrk.rel.2.2
  have hgates : st.gates = g ++ ops.map KOp.mergeSG := htrk.gates
  -- the preprocessed dictionary
  have hIp : DInv n st.d := by rw [hfd]; exact hI.mapKeys f finj flen
  have hp1 : st.b1 ∈ st.d.keys := by
    rw [hfd, hf1, keys_mapKeys_m]; exact List.mem_map.mpr ⟨b1, hb1, rfl⟩
  have hp2 : st.b2 ∈ st.d.keys := by
    rw [hfd, hf2, keys_mapKeys_m]; exact List.mem_map.mpr ⟨b2, hb2, rfl⟩
  have hfire : ∀ k ∈ st.d.keys,
      ctrlOk (dq.map (fun q => (q, true))) (lab k) = true ↔ (k = st.b1 ∨ k = st.b2) := by
    intro k hk
    rw [hfd, keys_mapKeys_m, List.mem_map] at hk
    obtain ⟨k0, hk0, rfl⟩ := hk
    rw [ffire k0 hk0, hf1, hf2]
    constructor
    · rintro (rfl | rfl)
      · exact Or.inl rfl
      · exact Or.inr rfl
    · rintro (h | h)
      · exact Or.inl (finj k0 hk0 b1 hb1 h)
      · exact Or.inr (finj k0 hk0 b2 hb2 h)
  have hne : st.b1 ≠ st.b2 := by
    intro h
    have : bitAt st.b1 dif = true := by rw [hf1]; exact f1
    rw [h, hf2, f2] at this; cases this
  obtain ⟨a1, hl1⟩ := lookup_some_of_mem st.d st.b1 hp1
  obtain ⟨a2, hl2⟩ := lookup_some_of_mem st.d st.b2 hp2
  have hm1 := lookup_mem st.d st.b1 a1 hl1
  have hm2 := lookup_mem st.d st.b2 a2 hl2
  have hs1 : 0 < a1.absSq := hIp.nz _ hm1
  have hs2 : 0 < a2.absSq := hIp.nz _ hm2
  have hN : 0 < normAmp a1 a2 := by
    rw [normAmp_sq]; exact Real.sqrt_pos.mpr (by linarith)
  have hNN : normAmp a1 a2 * normAmp a1 a2 = a1.absSq + a2.absSq := by
    rw [normAmp_sq]; exact Real.mul_self_sqrt (by linarith)
  have hrot :
      (matU (mergeAngles a1 a2).1 (mergeAngles a1 a2).2.1 (mergeAngles a1 a2).2.2 : Mat2 ℂ).b
          * ((normAmp a1 a2 : ℝ) : ℂ) = a2.toC ∧
      (matU (mergeAngles a1 a2).1 (mergeAngles a1 a2).2.1 (mergeAngles a1 a2).2.2 : Mat2 ℂ).d
          * ((normAmp a1 a2 : ℝ) : ℂ) = a1.toC := by
    cases hc : (a1.cplx || a2.cplx)
    · rw [Bool.or_eq_false_iff] at hc
      have r1 := hIp.real _ hm1 hc.1
      have r2 := hIp.real _ hm2 hc.2
      exact merge_rot_real a1 a2 (by rw [Bool.or_eq_false_iff]; exact hc) r1.1 r2.1 r1.2 hN
    · exact merge_rot_complex a1 a2 hc hN
  refine ⟨a1, a2, ops, hsel, hl1, hl2, hgates,
    hIp.mergeUpdate st.b1 st.b2 _ hN, ?_, ?_, ?_, ?_⟩
  · rw [length_mergeUpdate st.d st.b1 st.b2 _ hIp.nd hp2, hfd, length_mapKeys]
  · rw [dictSq_mergeUpdate st.d st.b1 st.b2 _ hne hIp.nd a1 a2 hl1 hl2 hNN, hfd, dictSq_mapKeys]
  · apply lookup_mem
    rw [lookup_mergeUpdate st.d st.b1 st.b2 _ hne, if_neg hne, if_pos rfl, hl1]; rfl
  · intro ψ0
    rw [List.reverse_append, semSG_append_m]
    have hgate : semSG iu dn [stepGate dq dif a1 a2].reverse
        (dictState n (mergeUpdate st.d st.b1 st.b2 (normAmp a1 a2)) ψ0) = dictState n st.d ψ0 := by
      show denoteSG iu dn (stepGate dq dif a1 a2) _ = _
      rw [denote_stepGate]
      exact merge_gate_dictState n dif dq hdn hdq hqn st.d hIp.len st.b1 st.b2 hp1 hp2
        (by rw [hf1]; exact f1) (by rw [hf2]; exact f2)
        (by intro j hj; rw [hf1, hf2]; exact fag j hj) hfire a1 a2 hl1 hl2 _ _ hrot.1 hrot.2 ψ0
    rw [hgate, hdops]
    exact sem_ops_dictState iu dn n dif hdn ops htrk.ok d hI.len ψ0

end Step

end Qclib.Sparse.Mrg
