import QclibModel.Proofs.SparseCvoTotalLadder
import QclibModel.Proofs.SparseCvoAmp
import QclibModel.Proofs.SparseSelect
/-
  C06 — CVO-QRAM, whole circuit, part 3: induction over the patterns of the model `cvoLoop`
  (reals for the angles, complex amplitudes), and the final statement about `cvoInit`.

  Invariant before pattern `j`:  `cvoForm ψ₀ [(p_i, x_i)]_{i<j} √norm_j 0…0` with
  `norm_j = Σ_{i≥j} |x_i|²` (so `norm_0 = 1` for a unit vector and the flag amplitude is `√0 = 0`
  after the last pattern).  One iteration = `cvo_ff`, `loadGates_sem` + `cvo_load` with the
  rotation law (`C06_cvo_amp`), `cvo_ff_back`; the order hypothesis (`C06_cvo_order`) guarantees
  the controls never fire on a pattern loaded earlier.
-/
namespace Qclib.Sparse
open Qclib Complex

/-- `Σ |x_k|²` over the dictionary -/
def sqSum (d : Dict ℝ) : ℝ := (d.map (fun kv => kv.2.re ^ 2 + kv.2.im ^ 2)).sum

/-- the dictionary with its amplitudes as complex numbers -/
def toCs (d : Dict ℝ) : List (Str × ℂ) := d.map (fun kv => (kv.1, kv.2.toC))

theorem sqSum_nonneg (d : Dict ℝ) : 0 ≤ sqSum d := by
  unfold sqSum
  apply List.sum_nonneg
  intro y hy
  rw [List.mem_map] at hy
  obtain ⟨kv, _, rfl⟩ := hy
  positivity

theorem sqSum_cons (kv : Str × Amp ℝ) (d : Dict ℝ) :
    sqSum (kv :: d) = (kv.2.re ^ 2 + kv.2.im ^ 2) + sqSum d := by
  simp [sqSum]

/-- the rotation law used for one dictionary entry (conclusion of `C06_cvo_amp`) -/
def RotOk (x : Amp ℝ) : Prop :=
  ∀ norm : ℝ, x.re ^ 2 + x.im ^ 2 ≤ norm →
    (matU (cvoAngles x norm).1 (cvoAngles x norm).2.1 (cvoAngles x norm).2.2 : Mat2 ℂ).b
        * ((Real.sqrt norm : ℝ) : ℂ) = x.toC ∧
    (matU (cvoAngles x norm).1 (cvoAngles x norm).2.1 (cvoAngles x norm).2.2 : Mat2 ℂ).d
        * ((Real.sqrt norm : ℝ) : ℂ) = ((Real.sqrt (norm - (x.re ^ 2 + x.im ^ 2)) : ℝ) : ℂ) ∧
    normNext x norm = norm - (x.re ^ 2 + x.im ^ 2)

/-- "the controls of a later pattern do not fire on a label carrying an earlier one"
(first conclusion of `C06_cvo_order`) -/
def OrdOk (n : Nat) (aux : Bool) (ps : List Str) : Prop :=
  ps.Pairwise (fun pi pj => ∀ b : Bits, carries n aux pi b → ctrlOk (cvoCtrl n aux pj) b = false)

/-- **the loop**, from the invariant to the final state -/
theorem cvoLoop_sem (n : Nat) (hn : 1 ≤ n) (aux : Bool) (method : String)
    (dn : List Nat → List (Amp ℝ) → State ℂ → State ℂ) (ψ0 : State ℂ) :
    ∀ (d : Dict ℝ) (norm : ℝ) (L : List (Str × ℂ)),
      (∀ kv ∈ d, kv.1.length = n) → (∀ kv ∈ d, RotOk kv.2) → norm = sqSum d →
      OrdOk n aux (L.map (·.1) ++ d.keys) →
      semSG Complex.I dn (cvoLoop n aux method d norm).1
          (cvoForm n aux ψ0 L ((Real.sqrt norm : ℝ) : ℂ) (zeroStr n))
        = cvoDone n aux ψ0 (L ++ toCs d) := by
  intro d
  induction d with
  | nil =>
    intro norm L _ _ hnorm _
    have h0 : norm = 0 := by rw [hnorm]; rfl
    rw [h0, Real.sqrt_zero, Complex.ofReal_zero, cvoForm_zero]
    simp [cvoLoop, semSG_nil, toCs]
  | cons kv rest ih =>
    intro norm L hlen hrot hnorm hord
    obtain ⟨s, x⟩ := kv
    have hs : s.length = n := hlen (s, x) (List.mem_cons_self ..)
    have hle : x.re ^ 2 + x.im ^ 2 ≤ norm := by
      rw [hnorm, sqSum_cons]; have := sqSum_nonneg rest; simp only; linarith
    obtain ⟨hb, hd, hnext⟩ := hrot (s, x) (List.mem_cons_self ..) norm hle
    simp only at hb hd hnext
    have hnext' : normNext x norm = sqSum rest := by
      rw [hnext, hnorm, sqSum_cons]; simp
    -- the gates of this iteration
    have e : (cvoLoop n aux method ((s, x) :: rest) norm).1
        = (flipFlop n aux (selectControls s)
            ++ loadGates n aux method (selectControls s) (cvoAngles x norm).1
                (cvoAngles x norm).2.1 (cvoAngles x norm).2.2)
          ++ (if rest.isEmpty then [] else flipFlop n aux (selectControls s))
          ++ (cvoLoop n aux method rest (normNext x norm)).1 := rfl
    rw [e, semSG_append, semSG_append, semSG_append, cvo_ff Complex.I dn n hn aux s hs]
    obtain ⟨c, hc, hsem⟩ := loadGates_sem (R := ℂ) Complex.I Complex.I_mul_I dn n aux method s hs
      (cvoAngles x norm).1 (cvoAngles x norm).2.1 (cvoAngles x norm).2.2
    have hordL : ∀ q ∈ L, ∀ b, carries n aux q.1 b → ctrlOk (cvoCtrl n aux s) b = false := by
      intro q hq
      have := (List.pairwise_append.mp hord).2.2 q.1 (List.mem_map_of_mem hq) s
        (by simp [Dict.keys])
      exact this
    rw [hsem, cvo_load n hn aux s hs ψ0 L _ _ c hc hordL, hb, hd]
    have hord' : OrdOk n aux ((L ++ [(s, x.toC)]).map (·.1) ++ Dict.keys rest) := by
      have : (L ++ [(s, x.toC)]).map (·.1) ++ Dict.keys rest
          = L.map (·.1) ++ Dict.keys ((s, x) :: rest) := by
        simp [Dict.keys]
      rw [this]; exact hord
    have hfin : L ++ toCs ((s, x) :: rest) = (L ++ [(s, x.toC)]) ++ toCs rest := by
      simp [toCs]
    rw [hfin]
    cases rest with
    | nil =>
      have h0 : norm - (x.re ^ 2 + x.im ^ 2) = 0 := by
        rw [hnorm, sqSum_cons]; simp [sqSum]
      rw [h0, Real.sqrt_zero, Complex.ofReal_zero, cvoForm_zero]
      simp [cvoLoop, semSG_nil, toCs]
    | cons kv' rest' =>
      have hemp : (if (kv' :: rest').isEmpty then [] else flipFlop (α := ℝ) n aux (selectControls s))
          = flipFlop n aux (selectControls s) := rfl
      rw [hemp, cvo_ff_back Complex.I dn n hn aux s hs, ← hnext]
      exact ih (normNext x norm) (L ++ [(s, x.toC)])
        (fun kv hkv => hlen kv (List.mem_cons_of_mem _ hkv))
        (fun kv hkv => hrot kv (List.mem_cons_of_mem _ hkv)) hnext' hord'

/-- **the whole circuit** `CvoqramInitialize(d).definition`, from the ordering and rotation laws -/
theorem cvo_total_of (n : Nat) (hn : 1 ≤ n) (aux : Bool) (method : String) (d : Dict ℝ)
    (hlen : ∀ kv ∈ d, kv.1.length = n) (hrot : ∀ kv ∈ d, RotOk kv.2) (hsum : sqSum d = 1)
    (hord : OrdOk n aux d.keys)
    (dn : List Nat → List (Amp ℝ) → State ℂ → State ℂ) (ψ0 : State ℂ)
    (hψ0 : ∀ b w, w < cvoWidth n aux → b w = true → ψ0 b = 0) :
    semSG Complex.I dn (cvoInit n aux method d).1 ψ0 = cvoDone n aux ψ0 (toCs d) := by
  have e : (cvoInit n aux method d).1 = SG.x 0 :: (cvoLoop n aux method d 1).1 := rfl
  rw [e, semSG_cons, cvo_init Complex.I dn n hn aux ψ0 hψ0]
  have h1 : (1 : ℂ) = ((Real.sqrt 1 : ℝ) : ℂ) := by rw [Real.sqrt_one, Complex.ofReal_one]
  rw [h1]
  have := cvoLoop_sem n hn aux method dn ψ0 d 1 [] hlen hrot hsum.symm (by simpa using hord)
  simpa using this

/-! ### reading the final state -/

theorem carries_inj (n : Nat) (aux : Bool) (p s : Str) (hp : p.length = n) (hs : s.length = n)
    (b : Bits) (h1 : carries n aux p b) (h2 : carries n aux s b) : p = s := by
  apply eq_of_bitAt p s (by rw [hp, hs])
  intro j
  by_cases hj : j < n
  · have a := h1 (n - 1 - j) (by omega)
    have c := h2 (n - 1 - j) (by omega)
    have e : n - 1 - (n - 1 - j) = j := by omega
    rw [e] at a c
    rw [← a, ← c]
  · rw [bitAt_ge p j (by omega), bitAt_ge s j (by omega)]

/-- on a label carrying the key of a dictionary entry, `loaded` returns that entry's amplitude -/
theorem loaded_key (n : Nat) (aux : Bool) (d : Dict ℝ) (hlen : ∀ kv ∈ d, kv.1.length = n)
    (hnd : d.keys.Pairwise (· ≠ ·)) (s : Str) (x : Amp ℝ) (hmem : (s, x) ∈ d) (b : Bits)
    (hb : carries n aux s b) : loaded n aux (toCs d) b = x.toC := by
  induction d with
  | nil => cases hmem
  | cons kv rest ih =>
    obtain ⟨p, y⟩ := kv
    show (if carriesB n aux p b then y.toC else loaded n aux (toCs rest) b) = x.toC
    have hnd' := List.pairwise_cons.mp hnd
    by_cases hc : carriesB n aux p b = true
    · rw [if_pos hc]
      have hps : p = s := carries_inj n aux p s (hlen (p, y) (List.mem_cons_self ..))
        (hlen (s, x) hmem) b ((carriesB_iff n aux p b).mp hc) hb
      rcases List.mem_cons.mp hmem with h | h
      · injection h with _ h2; rw [h2]
      · exact absurd hps (hnd'.1 s (List.mem_map_of_mem (f := (·.1)) h))
    · rw [if_neg hc]
      rcases List.mem_cons.mp hmem with h | h
      · injection h with h1 _
        exact absurd ((carriesB_iff n aux p b).mpr (h1 ▸ hb)) hc
      · exact ih (fun kv hkv => hlen kv (List.mem_cons_of_mem _ hkv)) hnd'.2 h

theorem loaded_nokey (n : Nat) (aux : Bool) (d : Dict ℝ) (b : Bits)
    (h : ∀ kv ∈ d, ¬ carries n aux kv.1 b) : loaded n aux (toCs d) b = 0 := by
  apply loaded_none
  intro q hq
  unfold toCs at hq
  rw [List.mem_map] at hq
  obtain ⟨kv, hkv, rfl⟩ := hq
  cases hc : carriesB n aux kv.1 b
  · rfl
  · exact absurd ((carriesB_iff n aux kv.1 b).mp hc) (h kv hkv)

end Qclib.Sparse
