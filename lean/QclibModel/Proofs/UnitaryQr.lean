import QclibModel.Spec.Unitary
/-
  C02 — QR part of `qclib/unitary.py`: the X–MCX–X sandwiches of `_apply_mcxs` / `_undo_mcxs` as
  label permutations (`patFlip`), and `_undo_mcxs` as the inverse of the walk.  Core Lean only.
-/
namespace Qclib.Uni

/-! ### evaluation of lists -/

theorem qgEval_nil (b : Bits) : qgEval [] b = b := rfl

theorem qgEval_cons (g : QG) (l : List QG) (b : Bits) : qgEval (g :: l) b = qgEval l (qgStep g b) := rfl

theorem qgEval_append (l1 l2 : List QG) (b : Bits) :
    qgEval (l1 ++ l2) b = qgEval l2 (qgEval l1 b) := by
  simp [qgEval, List.foldl_append]

/-- X gates on the wires `q < n` selected by `p` complement exactly those wires. -/
theorem qgEval_xs_range (p : Nat → Bool) (n : Nat) (b : Bits) :
    qgEval (((List.range n).filter p).map QG.x) b
      = fun i => if i < n ∧ p i = true then !b i else b i := by
  induction n with
  | zero => funext i; simp [qgEval]
  | succ k ih =>
    rw [List.range_succ, List.filter_append, List.map_append, qgEval_append, ih]
    funext i
    by_cases hp : p k = true
    · simp only [List.filter, hp, List.map, qgEval, List.foldl, qgStep, flipBit]
      by_cases hik : i = k
      · subst hik; simp [hp]
      · have : (i < k + 1) = (i < k) := by simp; omega
        simp [hik, this]
    · simp only [List.filter, hp, List.map, qgEval, List.foldl]
      by_cases hik : i = k
      · subst hik; simp [hp]
      · have : (i < k + 1) = (i < k) := by simp; omega
        simp [this]

/-! ### list helpers -/

theorem all_congr' {l : List Nat} {f g : Nat → Bool} (h : ∀ x, x ∈ l → f x = g x) :
    l.all f = l.all g := by
  induction l with
  | nil => rfl
  | cons a t ih =>
    simp only [List.all_cons]
    rw [h a (by simp), ih (fun x hx => h x (by simp [hx]))]

theorem getD_set_ne (pat : List Bool) (m q : Nat) (v : Bool) (h : q ≠ m) :
    (pat.set m v).getD q false = pat.getD q false := by
  simp only [List.getD_eq_getElem?_getD, List.getElem?_set]
  have : ¬ m = q := fun e => h e.symm
  simp [this]

theorem getD_set_eq (pat : List Bool) (m : Nat) (v : Bool) (h : m < pat.length) :
    (pat.set m v).getD m false = v := by
  simp [List.getD_eq_getElem?_getD, h]

theorem mem_others {n m q : Nat} : q ∈ others n m ↔ q < n ∧ q ≠ m := by
  simp [others]

/-- the X layer does not depend on the pattern bit at the target. -/
theorem xsFor_set (n m : Nat) (pat : List Bool) (v : Bool) :
    xsFor n m (pat.set m v) = xsFor n m pat := by
  unfold xsFor
  congr 1
  apply List.filter_congr
  intro q _
  by_cases h : q = m
  · subst h; simp
  · rw [getD_set_ne pat m q v h]

/-! ### the sandwich (theorem 3) -/

/-- the X layer of a sandwich with target `m` and pattern `pat`, as a map on labels. -/
theorem qgEval_xsFor (n m : Nat) (pat : List Bool) (b : Bits) :
    qgEval (xsFor n m pat) b
      = fun i => if i < n ∧ i ≠ m ∧ pat.getD i false = false then !b i else b i := by
  unfold xsFor
  rw [qgEval_xs_range]
  funext i
  simp

/-- `X-layer ; MCX(all others → m) ; X-layer` flips wire `m` iff all other wires `< n` read `pat`. -/
theorem sandwich_eval (n m : Nat) (pat : List Bool) (b : Bits) :
    qgEval (xsFor n m pat ++ [QG.mcx (others n m) m] ++ xsFor n m pat) b = patFlip n m pat b := by
  rw [qgEval_append, qgEval_append, qgEval_cons, qgEval_nil]
  have hc : (others n m).all (fun c => qgEval (xsFor n m pat) b c) = patMatch n m pat b := by
    unfold patMatch
    apply all_congr'
    intro q hq
    obtain ⟨h1, h2⟩ := mem_others.mp hq
    rw [qgEval_xsFor]
    dsimp only
    generalize pat.getD q false = v
    cases v <;> cases b q <;> simp [h1, h2]
  unfold patFlip
  simp only [qgStep, hc]
  cases hm : patMatch n m pat b
  · simp only [Bool.false_eq_true, if_false]
    rw [qgEval_xsFor, qgEval_xsFor]
    funext i
    dsimp only
    generalize pat.getD i false = v
    by_cases hi : i < n ∧ i ≠ m ∧ v = false <;> simp [hi]
  · simp only [if_true]
    rw [qgEval_xsFor, qgEval_xsFor]
    funext i
    by_cases him : i = m
    · subst him; simp [flipBit]
    · dsimp only [flipBit]
      generalize pat.getD i false = v
      by_cases hi : i < n ∧ v = false <;> simp [hi, him]

theorem patMatch_iff (n m : Nat) (pat : List Bool) (b : Bits) :
    patMatch n m pat b = true ↔ ∀ q, q < n → q ≠ m → b q = pat.getD q false := by
  unfold patMatch
  rw [List.all_eq_true]
  constructor
  · intro h q h1 h2
    have := h q (mem_others.mpr ⟨h1, h2⟩)
    simpa using this
  · intro h q hq
    obtain ⟨h1, h2⟩ := mem_others.mp hq
    simp [h q h1 h2]

/-- the match condition does not look at the target wire. -/
theorem patMatch_flip (n m : Nat) (pat : List Bool) (b : Bits) :
    patMatch n m pat (flipBit b m) = patMatch n m pat b := by
  unfold patMatch
  apply all_congr'
  intro q hq
  obtain ⟨_, h2⟩ := mem_others.mp hq
  simp [flipBit, h2]

theorem flipBit_flipBit' (b : Bits) (q : Nat) : flipBit (flipBit b q) q = b := by
  funext i; by_cases h : i = q <;> simp [flipBit, h]

/-- a sandwich is its own inverse, on every label. -/
theorem patFlip_patFlip (n m : Nat) (pat : List Bool) (b : Bits) :
    patFlip n m pat (patFlip n m pat b) = b := by
  unfold patFlip
  cases h : patMatch n m pat b
  · simp [h]
  · simp [h, patMatch_flip, flipBit_flipBit']

/-- a sandwich changes at most wire `m`. -/
theorem patFlip_ne (n m : Nat) (pat : List Bool) (b : Bits) {q : Nat} (h : q ≠ m) :
    patFlip n m pat b q = b q := by
  unfold patFlip
  split
  · simp [flipBit, h]
  · rfl

theorem memOf_getD (n m : Nat) (pat : List Bool) {q : Nat} (h : q < n) :
    (memOf n m pat).getD q 1 = if q = m then 2 else if pat.getD q false then 1 else 0 := by
  unfold memOf
  rw [List.getD_eq_getElem?_getD, List.getElem?_map, List.getElem?_range h]
  rfl

theorem filter_range_eq_single {n m : Nat} (h : m < n) :
    (List.range n).filter (fun q => q == m) = [m] := by
  induction n with
  | zero => omega
  | succ k ih =>
    rw [List.range_succ, List.filter_append]
    by_cases hk : m = k
    · subst hk
      have : (List.range m).filter (fun q => q == m) = [] := by
        rw [List.filter_eq_nil_iff]
        intro a ha
        have := List.mem_range.mp ha
        simp; omega
      simp [this]
    · have hne : ¬ k = m := fun e => hk e.symm
      rw [ih (by omega)]
      simp [hne]

/-- the gates `_undo_mcxs` rebuilds from a saved `memory` are literally the sandwich that
`_apply_mcxs` emitted when it saved it. -/
theorem undoOne_memOf (n m : Nat) (pat : List Bool) (hm : m < n) :
    undoOne n (memOf n m pat) = xsFor n m pat ++ [QG.mcx (others n m) m] ++ xsFor n m pat := by
  have hz : (List.range n).filter (fun q => (memOf n m pat).getD q 1 == 0)
      = (List.range n).filter (fun q => q != m && !pat.getD q false) := by
    apply List.filter_congr
    intro q hq
    rw [memOf_getD n m pat (List.mem_range.mp hq)]
    by_cases h : q = m
    · simp [h]
    · cases pat.getD q false <;> simp [h]
  have hcs : (List.range n).filter
      (fun q => (memOf n m pat).getD q 1 == 0 || (memOf n m pat).getD q 1 == 1) = others n m := by
    unfold others
    apply List.filter_congr
    intro q hq
    rw [memOf_getD n m pat (List.mem_range.mp hq)]
    by_cases h : q = m
    · simp [h]
    · cases pat.getD q false <;> simp [h]
  have ht : (List.range n).filter (fun q => (memOf n m pat).getD q 1 == 2) = [m] := by
    rw [← filter_range_eq_single hm]
    apply List.filter_congr
    intro q hq
    rw [memOf_getD n m pat (List.mem_range.mp hq)]
    by_cases h : q = m
    · simp [h]
    · cases pat.getD q false <;> simp [h]
  unfold undoOne
  simp only [hz, hcs, ht]
  rfl

/-- **Theorem 3 (sandwich).**  The gates one call of `_apply_mcxs` emits for target `m` and control
pattern `pat` (X on every wire `q ≠ m` with `pat[q] = 0`, the all-ones `MCX` of all other wires onto
`m`, the same X's again — the second X layer is computed from `pat` with position `m` already set to
`1`, which makes no difference) act on EVERY basis label `b` as: flip wire `m` iff all wires `q < n`,
`q ≠ m`, read `pat[q]`; otherwise leave `b` alone. -/
theorem qr_sandwich (n m : Nat) (pat : List Bool) (b : Bits) :
    qgEval (xsFor n m pat ++ [QG.mcx (others n m) m] ++ xsFor n m (pat.set m true)) b
      = if (∀ q, q < n → q ≠ m → b q = pat.getD q false) then flipBit b m else b := by
  rw [xsFor_set, sandwich_eval]
  unfold patFlip
  by_cases h : ∀ q, q < n → q ≠ m → b q = pat.getD q false
  · rw [if_pos h, if_pos ((patMatch_iff n m pat b).mpr h)]
  · rw [if_neg h, if_neg (fun hh => h ((patMatch_iff n m pat b).mp hh))]

/-- **Theorem 3, undo side.**  The gates `_undo_mcxs` rebuilds from the `memory` saved for target
`m < n` and pattern `pat` implement the same label map. -/
theorem qr_sandwich_undo (n m : Nat) (hm : m < n) (pat : List Bool) (b : Bits) :
    qgEval (undoOne n (memOf n m pat)) b
      = if (∀ q, q < n → q ≠ m → b q = pat.getD q false) then flipBit b m else b := by
  rw [undoOne_memOf n m pat hm, ← qr_sandwich n m pat b, xsFor_set]

/-- Boolean form of both: the sandwich and its rebuilt copy are `patFlip n m pat`. -/
theorem qr_sandwich_patFlip (n m : Nat) (hm : m < n) (pat : List Bool) (b : Bits) :
    qgEval (xsFor n m pat ++ [QG.mcx (others n m) m] ++ xsFor n m (pat.set m true)) b
        = patFlip n m pat b ∧
    qgEval (undoOne n (memOf n m pat)) b = patFlip n m pat b := by
  rw [undoOne_memOf n m pat hm, xsFor_set, sandwich_eval]
  exact ⟨rfl, rfl⟩

/-- non-vacuity: `n = 3`, target `1`, pattern `[1,·,0]`: the label `101`‑little‑endian `[1,0,0]`
matches and gets wire 1 flipped; `[1,0,1]` does not match and is unchanged. -/
example :
    (List.range 3).map (qgEval (xsFor 3 1 [true, false, false] ++ [QG.mcx (others 3 1) 1]
        ++ xsFor 3 1 ([true, false, false].set 1 true)) (fun q => [true, false, false].getD q false))
      = [true, true, false] ∧
    (List.range 3).map (qgEval (xsFor 3 1 [true, false, false] ++ [QG.mcx (others 3 1) 1]
        ++ xsFor 3 1 ([true, false, false].set 1 true)) (fun q => [true, false, true].getD q false))
      = [true, false, true] := by decide

/-! ### `_apply_mcxs` and the walk -/

theorem firstDiff_spec {n : Nat} {r c : List Bool} {m : Nat} (h : firstDiff n r c = some m) :
    m < n ∧ r.getD m false ≠ c.getD m false ∧ ∀ q, q < m → r.getD q false = c.getD q false := by
  unfold firstDiff at h
  rw [List.find?_range_eq_some] at h
  obtain ⟨h1, h2, h3⟩ := h
  refine ⟨List.mem_range.mp h2, by simpa using h1, ?_⟩
  intro q hq
  simpa using h3 q hq

/-- what one call of `_apply_mcxs` does, in terms of the first differing position `m`. -/
theorem applyMcxs_spec {n : Nat} {r c : List Bool} {s : WalkStep} (h : applyMcxs n r c = some s) :
    ∃ m, firstDiff n r c = some m ∧
      ((r.getD m false = false ∧ s.gates = xsFor n m r ++ [QG.mcx (others n m) m] ++ xsFor n m (r.set m true)
          ∧ s.mem = memOf n m r ∧ s.row = r.set m true ∧ s.col = c) ∨
       (r.getD m false = true ∧ s.gates = xsFor n m c ++ [QG.mcx (others n m) m] ++ xsFor n m (c.set m true)
          ∧ s.mem = memOf n m c ∧ s.row = r ∧ s.col = c.set m true)) := by
  unfold applyMcxs at h
  cases hf : firstDiff n r c with
  | none => simp [hf] at h
  | some m =>
    refine ⟨m, rfl, ?_⟩
    simp only [hf] at h
    by_cases hr : r.getD m false = false
    · rw [if_pos hr] at h
      injection h with h
      subst h
      exact Or.inl ⟨hr, rfl, rfl, rfl, rfl⟩
    · rw [if_neg hr] at h
      injection h with h
      subst h
      exact Or.inr ⟨by simpa using hr, rfl, rfl, rfl, rfl⟩

/-- every step of the walk is a `patFlip`, and its saved memory rebuilds the same `patFlip`. -/
theorem applyMcxs_patFlip {n : Nat} {r c : List Bool} {s : WalkStep} (h : applyMcxs n r c = some s) :
    ∃ m pat, m < n ∧ (∀ b, qgEval s.gates b = patFlip n m pat b) ∧
      (∀ b, qgEval (undoOne n s.mem) b = patFlip n m pat b) := by
  obtain ⟨m, hf, hs⟩ := applyMcxs_spec h
  have hm := (firstDiff_spec hf).1
  rcases hs with ⟨_, hg, hmem, _, _⟩ | ⟨_, hg, hmem, _, _⟩
  · exact ⟨m, r, hm, fun b => by rw [hg]; exact (qr_sandwich_patFlip n m hm r b).1,
      fun b => by rw [hmem]; exact (qr_sandwich_patFlip n m hm r b).2⟩
  · exact ⟨m, c, hm, fun b => by rw [hg]; exact (qr_sandwich_patFlip n m hm c b).1,
      fun b => by rw [hmem]; exact (qr_sandwich_patFlip n m hm c b).2⟩

theorem undoMcxs_cons (n : Nat) (mem : List Nat) (mems : List (List Nat)) :
    undoMcxs n (mem :: mems) = undoMcxs n mems ++ undoOne n mem := by
  simp [undoMcxs, List.flatMap_append]

theorem walk_succ {n d : Nat} {r c : List Bool} {w : Walk} (h : walk n (d + 1) r c = some w) :
    ∃ s w', applyMcxs n r c = some s ∧ walk n d s.row s.col = some w' ∧
      w.gates = s.gates ++ w'.gates ∧ w.mems = s.mem :: w'.mems ∧ w.row = w'.row ∧ w.col = w'.col := by
  unfold walk at h
  cases hs : applyMcxs n r c with
  | none => simp [hs] at h
  | some s =>
    simp only [hs] at h
    cases hw : walk n d s.row s.col with
    | none => simp [hw] at h
    | some w' =>
      simp only [hw] at h
      injection h with h
      subst h
      exact ⟨s, w', rfl, hw, rfl, rfl, rfl, rfl⟩

/-- `_undo_mcxs` of the saved memories is a two-sided inverse of the walk's gates, on every label
(for any number of iterations and any start lists for which the walk does not fail). -/
theorem walk_undo {n : Nat} : ∀ (d : Nat) {r c : List Bool} {w : Walk}, walk n d r c = some w →
    ∀ b, qgEval (undoMcxs n w.mems) (qgEval w.gates b) = b ∧
         qgEval w.gates (qgEval (undoMcxs n w.mems) b) = b
  | 0, r, c, w, h, b => by
    simp only [walk, Option.some.injEq] at h
    subst h
    exact ⟨rfl, rfl⟩
  | d + 1, r, c, w, h, b => by
    obtain ⟨s, w', hs, hw', hg, hmem, _, _⟩ := walk_succ h
    obtain ⟨m, pat, _, e1, e2⟩ := applyMcxs_patFlip hs
    have ih := walk_undo d hw'
    rw [hg, hmem, undoMcxs_cons]
    simp only [qgEval_append]
    constructor
    · rw [(ih _).1, e1, e2, patFlip_patFlip]
    · rw [e2, e1, patFlip_patFlip, (ih _).2]
