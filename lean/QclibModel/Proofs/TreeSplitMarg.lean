import QclibModel.Proofs.TreeSplitDefs
import Mathlib.Tactic.Ring
/-
  C11 (BdspInitialize): measurement statistics of a tree split at level `sl` (definitions in
  Proofs/TreeSplitDefs.lean), for complete trees — port of Proofs/TreeMarg.lean:

  * `treeProbS_congr`     `treeProbS` reads only `wiresS`
  * `spW_total`           the path products of a chain block sum to one over its chain wires
  * `treeProbS_total`     normalisation over all wires of the split tree
  * `treeProbS_marginal`  summing over the ancillas leaves `spineProbS`
  * `spineProbS_eq_spW`   `spineProbS` is the root-to-leaf product read on the left spine
-/
namespace Qclib
variable {Θ K : Type} [CommRing K]

/-! ### Unfolding -/

theorem wiresS_lt (sl lvl : Nat) (v : QV Θ) (l r : BT (QV Θ)) (h : lvl < sl) :
    wiresS sl lvl (.node v l r) = wire v.q :: (wiresS sl (lvl+1) l ++ wiresS sl (lvl+1) r) := by
  simp only [wiresS, if_pos h]

theorem wiresS_ge (sl lvl : Nat) (v : QV Θ) (l r : BT (QV Θ)) (h : ¬ lvl < sl) :
    wiresS sl lvl (.node v l r) = leftSpine (.node v l r) := by
  simp only [wiresS, if_neg h]

theorem ancS_lt (sl lvl : Nat) (v : QV Θ) (l r : BT (QV Θ)) (h : lvl < sl) :
    ancS sl lvl (.node v l r) = ancS sl (lvl+1) l ++ wiresS sl (lvl+1) r := by
  simp only [ancS, if_pos h]

theorem ancS_ge (sl lvl : Nat) (v : QV Θ) (l r : BT (QV Θ)) (h : ¬ lvl < sl) :
    ancS sl lvl (.node v l r) = [] := by
  simp only [ancS, if_neg h]

theorem treeProbS_lt (o : TOps Θ) (c2 s2 : Θ → K) (sl lvl : Nat) (v : QV Θ) (l r : BT (QV Θ))
    (h : lvl < sl) :
    treeProbS o c2 s2 sl lvl (.node v l r) = fun x =>
      nodeProb c2 s2 v x * (treeProbS o c2 s2 sl (lvl+1) l (cswapPerm o (.node v l r) x)
        * treeProbS o c2 s2 sl (lvl+1) r (cswapPerm o (.node v l r) x)) := by
  funext x; simp only [treeProbS, if_pos h]

theorem treeProbS_ge (o : TOps Θ) (c2 s2 : Θ → K) (sl lvl : Nat) (v : QV Θ) (l r : BT (QV Θ))
    (h : ¬ lvl < sl) :
    treeProbS o c2 s2 sl lvl (.node v l r) = spW c2 s2 (leftSpine (.node v l r)) (.node v l r) := by
  funext x; simp only [treeProbS, if_neg h]

theorem spineProbS_lt (o : TOps Θ) (c2 s2 : Θ → K) (sl lvl : Nat) (v : QV Θ) (l r : BT (QV Θ))
    (h : lvl < sl) (b : Bits) :
    spineProbS o c2 s2 sl lvl (.node v l r) b =
      if b (wire v.q) then
        s2 v.y * spineProbS o c2 s2 sl (lvl+1) r (cswapPerm o (.node v l r) b)
      else c2 v.y * spineProbS o c2 s2 sl (lvl+1) l b := by
  simp only [spineProbS, if_pos h]

theorem spineProbS_ge (o : TOps Θ) (c2 s2 : Θ → K) (sl lvl : Nat) (v : QV Θ) (l r : BT (QV Θ))
    (h : ¬ lvl < sl) (b : Bits) :
    spineProbS o c2 s2 sl lvl (.node v l r) b
      = spW c2 s2 (leftSpine (.node v l r)) (.node v l r) b := by
  simp only [spineProbS, if_neg h]

/-! ### Wires -/

theorem leftSpine_length : ∀ (h : Nat) (t : BT (QV Θ)), complete h t → (leftSpine t).length = h
  | 0, .nil, _ => rfl
  | 0, .node .., hc => by simp [complete] at hc
  | h+1, .nil, hc => by simp [complete] at hc
  | h+1, .node v l r, hc => by
    simp only [leftSpine, List.length_cons, leftSpine_length h l hc.1]

theorem leftSpine_sublist_wiresS (sl : Nat) : ∀ (lvl : Nat) (t : BT (QV Θ)),
    (leftSpine t).Sublist (wiresS sl lvl t)
  | _, .nil => List.Sublist.refl _
  | lvl, .node v l r => by
    by_cases hlt : lvl < sl
    · rw [wiresS_lt sl lvl v l r hlt]
      simp only [leftSpine]
      exact ((leftSpine_sublist_wiresS sl (lvl+1) l).trans
        (List.sublist_append_left _ _)).cons_cons _
    · rw [wiresS_ge sl lvl v l r hlt]
      exact List.Sublist.refl _

theorem spine_ancS_perm (sl : Nat) : ∀ (lvl : Nat) (t : BT (QV Θ)),
    (leftSpine t ++ ancS sl lvl t).Perm (wiresS sl lvl t)
  | _, .nil => by simp [leftSpine, ancS, wiresS]
  | lvl, .node v l r => by
    by_cases hlt : lvl < sl
    · rw [wiresS_lt sl lvl v l r hlt, ancS_lt sl lvl v l r hlt]
      simp only [leftSpine, List.cons_append]
      rw [← List.append_assoc]
      exact ((spine_ancS_perm sl (lvl+1) l).append_right _).cons _
    · rw [wiresS_ge sl lvl v l r hlt, ancS_ge sl lvl v l r hlt, List.append_nil]

theorem ancS_subset (sl lvl : Nat) (t : BT (QV Θ)) (w : Nat) (hw : w ∈ ancS sl lvl t) :
    w ∈ wiresS sl lvl t :=
  (spine_ancS_perm sl lvl t).subset (List.mem_append_right _ hw)

theorem chainPairs_wiresS (sl h lvl : Nat) (l r : BT (QV Θ)) (hcl : complete h l)
    (hcr : complete h r) (p : Nat × Nat) (hp : p ∈ chainPairs l r) :
    p.1 ∈ wiresS sl lvl l ∧ p.2 ∈ wiresS sl lvl r := by
  obtain ⟨hf, hs⟩ := chainPairs_complete h l r hcl hcr
  refine ⟨(leftSpine_sublist_wiresS sl lvl l).subset ?_,
    (leftSpine_sublist_wiresS sl lvl r).subset ?_⟩
  · rw [← hf]; exact List.mem_map_of_mem hp
  · rw [← hs]; exact List.mem_map_of_mem hp

theorem chainPairs_nodupS (sl h lvl : Nat) (l r : BT (QV Θ)) (hcl : complete h l)
    (hcr : complete h r) (hnd : (wiresS sl lvl l ++ wiresS sl lvl r).Nodup) :
    PairsNodup (chainPairs l r) := by
  obtain ⟨hf, hs⟩ := chainPairs_complete h l r hcl hcr
  unfold PairsNodup
  rw [hf, hs]
  exact List.Nodup.sublist
    ((leftSpine_sublist_wiresS sl lvl l).append (leftSpine_sublist_wiresS sl lvl r)) hnd

/-- What a node's relabelling puts on a wire set containing all swapped pairs depends only on the
node's bit and that wire set. -/
theorem cswapPerm_congr_on (o : TOps Θ) (v : QV Θ) (l r : BT (QV Θ)) (S : Nat → Prop)
    (hS : ∀ p ∈ chainPairs l r, S p.1 ∧ S p.2) (b b' : Bits)
    (hq : b (wire v.q) = b' (wire v.q)) (h : ∀ w, S w → b w = b' w) :
    ∀ w, S w → cswapPerm o (.node v l r) b w = cswapPerm o (.node v l r) b' w := by
  intro w hw
  simp only [cswapPerm, hq]
  split
  · exact swapPairs_congr S _ b b' hS h w hw
  · exact h w hw

/-! ### 0. Congruences -/

/-- `spW` on a wire list reads only those wires. -/
theorem spW_depOn (c2 s2 : Θ → K) (ws : List Nat) (t : BT (QV Θ)) :
    DepOn ws (spW c2 s2 ws t) := fun b b' h =>
  spW_congr c2 s2 ws ws t b b' (List.map_congr_left h)

theorem treeProbS_congr (o : TOps Θ) (c2 s2 : Θ → K) (sl : Nat) :
    ∀ (h lvl : Nat) (t : BT (QV Θ)), complete h t → ∀ b b',
      (∀ w ∈ wiresS sl lvl t, b w = b' w) →
      treeProbS o c2 s2 sl lvl t b = treeProbS o c2 s2 sl lvl t b'
  | 0, _, .nil, _, _, _, _ => rfl
  | 0, _, .node .., hc, _, _, _ => by simp [complete] at hc
  | h+1, _, .nil, hc, _, _, _ => by simp [complete] at hc
  | h+1, lvl, .node v l r, hc, b, b', hag => by
    by_cases hlt : lvl < sl
    · obtain ⟨hcl, hcr⟩ := hc
      rw [wiresS_lt sl lvl v l r hlt] at hag
      have hq : b (wire v.q) = b' (wire v.q) := hag _ (List.mem_cons_self ..)
      have hc' := cswapPerm_congr_on o v l r
        (fun w => w ∈ wiresS sl (lvl+1) l ∨ w ∈ wiresS sl (lvl+1) r)
        (fun p hp => by
          obtain ⟨h1, h2⟩ := chainPairs_wiresS sl h (lvl+1) l r hcl hcr p hp
          exact ⟨Or.inl h1, Or.inr h2⟩) b b' hq
        (fun w hw => hag w (List.mem_cons_of_mem _ (by
          rcases hw with hw | hw
          · exact List.mem_append_left _ hw
          · exact List.mem_append_right _ hw)))
      rw [treeProbS_lt o c2 s2 sl lvl v l r hlt]
      show nodeProb c2 s2 v b * (_ * _) = nodeProb c2 s2 v b' * (_ * _)
      rw [treeProbS_congr o c2 s2 sl h (lvl+1) l hcl _ _ (fun w hw => hc' w (Or.inl hw)),
        treeProbS_congr o c2 s2 sl h (lvl+1) r hcr _ _ (fun w hw => hc' w (Or.inr hw))]
      simp only [nodeProb, hq]
    · rw [wiresS_ge sl lvl v l r hlt] at hag
      rw [treeProbS_ge o c2 s2 sl lvl v l r hlt]
      exact spW_depOn c2 s2 _ _ b b' hag

theorem treeProbS_depOn (o : TOps Θ) (c2 s2 : Θ → K) (sl h lvl : Nat) (t : BT (QV Θ))
    (hc : complete h t) : DepOn (wiresS sl lvl t) (treeProbS o c2 s2 sl lvl t) :=
  treeProbS_congr o c2 s2 sl h lvl t hc

/-! ### B. A chain block is normalised -/

theorem spW_total (c2 s2 : Θ → K) (hcs : ∀ y, c2 y + s2 y = 1) :
    ∀ (ws : List Nat) (t : BT (QV Θ)), complete ws.length t → ws.Nodup →
      ∀ b, sumOver ws (spW c2 s2 ws t) b = 1
  | [], t, _, _, b => by rw [sumOver_nil, spW_nil_list]
  | w :: ws, .nil, hc, _, _ => by simp [complete] at hc
  | w :: ws, .node v l r, hc, hnd, b => by
    obtain ⟨hw, hnd'⟩ := List.nodup_cons.1 hnd
    have hc' : complete ws.length l ∧ complete ws.length r := hc
    have ihl := spW_total c2 s2 hcs ws l hc'.1 hnd'
    have ihr := spW_total c2 s2 hcs ws r hc'.2 hnd'
    have hkey : ∀ b0, sumOver ws (spW c2 s2 (w :: ws) (.node v l r)) b0
        = if b0 w then s2 v.y else c2 v.y := by
      intro b0
      cases hb : b0 w
      · have : sumOver ws (spW c2 s2 (w :: ws) (.node v l r)) b0
            = sumOver ws (fun x => c2 v.y * spW c2 s2 ws l x) b0 := by
          apply sumOver_congr_on
          intro x hx
          rw [spW_cons_node, hx w hw, hb]; rfl
        rw [this, sumOver_const_mul, ihl, mul_one]; rfl
      · have : sumOver ws (spW c2 s2 (w :: ws) (.node v l r)) b0
            = sumOver ws (fun x => s2 v.y * spW c2 s2 ws r x) b0 := by
          apply sumOver_congr_on
          intro x hx
          rw [spW_cons_node, hx w hw, hb]; rfl
        rw [this, sumOver_const_mul, ihr, mul_one]; rfl
    rw [sumOver_cons, hkey, hkey, setBit_eq, setBit_eq]
    simpa using hcs v.y

/-! ### Summing a node over wires other than its own (general children) -/

theorem gnode_sum_inactive (o : TOps Θ) (c2 s2 : Θ → K) (v : QV Θ) (l r : BT (QV Θ))
    (Pl Pr : Bits → K) (ws : List Nat) (hq : wire v.q ∉ ws) (b : Bits)
    (hb : (o.neZero v.y && b (wire v.q)) = false) :
    sumOver ws (fun x => nodeProb c2 s2 v x * (Pl (cswapPerm o (.node v l r) x)
        * Pr (cswapPerm o (.node v l r) x))) b
      = nodeProb c2 s2 v b * sumOver ws (fun x => Pl x * Pr x) b := by
  rw [← sumOver_const_mul]
  apply sumOver_congr_on
  intro x hx
  have hxq : x (wire v.q) = b (wire v.q) := hx _ hq
  have e : cswapPerm o (.node v l r) x = x := by
    simp only [cswapPerm, hxq, hb]; rfl
  show nodeProb c2 s2 v x * (Pl (cswapPerm o (.node v l r) x) * Pr (cswapPerm o (.node v l r) x))
    = nodeProb c2 s2 v b * (Pl x * Pr x)
  rw [e]
  simp only [nodeProb, hxq]

theorem gnode_sum_active (o : TOps Θ) (c2 s2 : Θ → K) (v : QV Θ) (l r : BT (QV Θ))
    (Pl Pr : Bits → K) (ws : List Nat) (hq : wire v.q ∉ ws) (b : Bits)
    (hb : (o.neZero v.y && b (wire v.q)) = true) :
    sumOver ws (fun x => nodeProb c2 s2 v x * (Pl (cswapPerm o (.node v l r) x)
        * Pr (cswapPerm o (.node v l r) x))) b
      = nodeProb c2 s2 v b * sumOver (ws.map (pairsWire (chainPairs l r)))
          (fun x => Pl x * Pr x) (swapPairs (chainPairs l r) b) := by
  rw [← sumOver_swapPairs', ← sumOver_const_mul]
  apply sumOver_congr_on
  intro x hx
  have hxq : x (wire v.q) = b (wire v.q) := hx _ hq
  have e : cswapPerm o (.node v l r) x = swapPairs (chainPairs l r) x := by
    simp only [cswapPerm, hxq, hb, if_true]
  show nodeProb c2 s2 v x * (Pl (cswapPerm o (.node v l r) x) * Pr (cswapPerm o (.node v l r) x))
    = nodeProb c2 s2 v b * (Pl (swapPairs (chainPairs l r) x) * Pr (swapPairs (chainPairs l r) x))
  rw [e]
  simp only [nodeProb, hxq]

theorem childS_sum (o : TOps Θ) (c2 s2 : Θ → K) (sl h lvl : Nat) (l r : BT (QV Θ))
    (hcl : complete h l) (hcr : complete h r)
    (hdis : ∀ w, w ∈ wiresS sl lvl l → w ∉ wiresS sl lvl r) (A B : List Nat)
    (hA : ∀ w ∈ A, w ∈ wiresS sl lvl l) (hB : ∀ w ∈ B, w ∈ wiresS sl lvl r) (b : Bits) :
    sumOver (A ++ B) (fun x => treeProbS o c2 s2 sl lvl l x * treeProbS o c2 s2 sl lvl r x) b
      = sumOver A (treeProbS o c2 s2 sl lvl l) b * sumOver B (treeProbS o c2 s2 sl lvl r) b :=
  sumOver_prod (treeProbS_depOn o c2 s2 sl h lvl l hcl) (treeProbS_depOn o c2 s2 sl h lvl r hcr)
    A B (fun w hw h => hdis w h (hB w hw)) (fun w hw => hdis w (hA w hw)) b

/-! ### N. Normalisation -/

theorem treeProbS_total (o : TOps Θ) (c2 s2 : Θ → K) (hcs : ∀ y, c2 y + s2 y = 1) (sl : Nat) :
    ∀ (h lvl : Nat) (t : BT (QV Θ)), complete h t → (wiresS sl lvl t).Nodup →
      ∀ b, sumOver (wiresS sl lvl t) (treeProbS o c2 s2 sl lvl t) b = 1
  | 0, _, .nil, _, _, _ => rfl
  | 0, _, .node .., hc, _, _ => by simp [complete] at hc
  | h+1, _, .nil, hc, _, _ => by simp [complete] at hc
  | h+1, lvl, .node v l r, hc, hnd, b => by
    by_cases hlt : lvl < sl
    · obtain ⟨hcl, hcr⟩ := hc
      rw [wiresS_lt sl lvl v l r hlt] at hnd ⊢
      rw [treeProbS_lt o c2 s2 sl lvl v l r hlt]
      obtain ⟨hq, hlr⟩ := List.nodup_cons.1 hnd
      obtain ⟨hndl, hndr, hdisj⟩ := List.nodup_append.1 hlr
      have hdis : ∀ w, w ∈ wiresS sl (lvl+1) l → w ∉ wiresS sl (lvl+1) r :=
        fun w h1 h2 => hdisj w h1 w h2 rfl
      have ihl := treeProbS_total o c2 s2 hcs sl h (lvl+1) l hcl hndl
      have ihr := treeProbS_total o c2 s2 hcs sl h (lvl+1) r hcr hndr
      have hchild : ∀ b0, sumOver (wiresS sl (lvl+1) l ++ wiresS sl (lvl+1) r)
          (fun x => treeProbS o c2 s2 sl (lvl+1) l x * treeProbS o c2 s2 sl (lvl+1) r x) b0
            = 1 := by
        intro b0
        rw [childS_sum o c2 s2 sl h (lvl+1) l r hcl hcr hdis _ _ (fun _ h => h) (fun _ h => h),
          ihl, ihr, one_mul]
      have hkey : ∀ b0, sumOver (wiresS sl (lvl+1) l ++ wiresS sl (lvl+1) r)
          (fun x => nodeProb c2 s2 v x
            * (treeProbS o c2 s2 sl (lvl+1) l (cswapPerm o (.node v l r) x)
              * treeProbS o c2 s2 sl (lvl+1) r (cswapPerm o (.node v l r) x))) b0
            = nodeProb c2 s2 v b0 := by
        intro b0
        cases hb : (o.neZero v.y && b0 (wire v.q))
        · rw [gnode_sum_inactive o c2 s2 v l r _ _ _ hq b0 hb, hchild, mul_one]
        · have hperm := map_pairsWire_perm (chainPairs l r)
            (chainPairs_nodupS sl h (lvl+1) l r hcl hcr hlr)
            (wiresS sl (lvl+1) l ++ wiresS sl (lvl+1) r) hlr (fun p hp => by
              obtain ⟨h1, h2⟩ := chainPairs_wiresS sl h (lvl+1) l r hcl hcr p hp
              exact ⟨List.mem_append_left _ h1, List.mem_append_right _ h2⟩)
          rw [gnode_sum_active o c2 s2 v l r _ _ _ hq b0 hb, sumOver_perm _ _ hperm, hchild,
            mul_one]
      rw [sumOver_cons, hkey, hkey]
      simp only [nodeProb, setBit_eq]
      simpa using hcs v.y
    · rw [wiresS_ge sl lvl v l r hlt] at hnd ⊢
      rw [treeProbS_ge o c2 s2 sl lvl v l r hlt]
      exact spW_total c2 s2 hcs _ _ (by rw [leftSpine_length (h+1) _ hc]; exact hc) hnd b

/-! ### M. The marginal on the left spine -/

theorem margS_perm (sl h lvl : Nat) (l r : BT (QV Θ)) (hcl : complete h l) (hcr : complete h r)
    (hnd : (wiresS sl lvl l ++ wiresS sl lvl r).Nodup) :
    ((ancS sl lvl l ++ wiresS sl lvl r).map (pairsWire (chainPairs l r))).Perm
      (wiresS sl lvl l ++ ancS sl lvl r) := by
  have hpn : PairsNodup (chainPairs l r) := chainPairs_nodupS sl h lvl l r hcl hcr hnd
  obtain ⟨hf, hs⟩ := chainPairs_complete h l r hcl hcr
  obtain ⟨hndl, hndr, hdisj⟩ := List.nodup_append.1 hnd
  have hdis : ∀ w, w ∈ wiresS sl lvl l → w ∉ wiresS sl lvl r := fun w h1 h2 => hdisj w h1 w h2 rfl
  have hsl : (leftSpine l ++ ancS sl lvl l).Nodup := (spine_ancS_perm sl lvl l).nodup_iff.2 hndl
  have hsr : (leftSpine r ++ ancS sl lvl r).Nodup := (spine_ancS_perm sl lvl r).nodup_iff.2 hndr
  have hp1 : ∀ p ∈ chainPairs l r, p.1 ∈ leftSpine l := fun p hp => by
    rw [← hf]; exact List.mem_map_of_mem hp
  have hp2 : ∀ p ∈ chainPairs l r, p.2 ∈ leftSpine r := fun p hp => by
    rw [← hs]; exact List.mem_map_of_mem hp
  have hfix_l : ∀ w ∈ ancS sl lvl l, pairsWire (chainPairs l r) w = w := by
    intro w hw
    apply pairsWire_other
    intro p hp
    refine ⟨fun e => ?_, fun e => ?_⟩
    · exact (List.nodup_append.1 hsl).2.2 _ (hp1 p hp) _ hw e
    · exact hdis w (ancS_subset sl lvl l w hw)
        (e ▸ (chainPairs_wiresS sl h lvl l r hcl hcr p hp).2)
  have hfix_r : ∀ w ∈ ancS sl lvl r, pairsWire (chainPairs l r) w = w := by
    intro w hw
    apply pairsWire_other
    intro p hp
    refine ⟨fun e => ?_, fun e => ?_⟩
    · exact hdis w (e ▸ (chainPairs_wiresS sl h lvl l r hcl hcr p hp).1)
        (ancS_subset sl lvl r w hw)
    · exact (List.nodup_append.1 hsr).2.2 _ (hp2 p hp) _ hw e
  have hmap : (leftSpine r).map (pairsWire (chainPairs l r)) = leftSpine l := by
    rw [← hs, ← hf, List.map_map]
    apply List.map_congr_left
    intro p hp
    exact pairsWire_snd _ hpn p hp
  have h1 : ((wiresS sl lvl r).map (pairsWire (chainPairs l r))).Perm
      (leftSpine l ++ ancS sl lvl r) := by
    have := (spine_ancS_perm sl lvl r).symm.map (pairsWire (chainPairs l r))
    rw [List.map_append, hmap, map_fix _ _ hfix_r] at this
    exact this
  rw [List.map_append, map_fix _ _ hfix_l]
  refine (List.Perm.append_left _ h1).trans ?_
  rw [← List.append_assoc]
  exact (List.perm_append_comm.trans (spine_ancS_perm sl lvl l)).append_right _

theorem treeProbS_marginal (o : TOps Θ) (c2 s2 : Θ → K) (hcs : ∀ y, c2 y + s2 y = 1)
    (hs0 : ∀ y, o.neZero y = false → s2 y = 0) (sl : Nat) :
    ∀ (h lvl : Nat) (t : BT (QV Θ)), complete h t → (wiresS sl lvl t).Nodup →
      ∀ b, sumOver (ancS sl lvl t) (treeProbS o c2 s2 sl lvl t) b = spineProbS o c2 s2 sl lvl t b
  | 0, _, .nil, _, _, _ => rfl
  | 0, _, .node .., hc, _, _ => by simp [complete] at hc
  | h+1, _, .nil, hc, _, _ => by simp [complete] at hc
  | h+1, lvl, .node v l r, hc, hnd, b => by
    by_cases hlt : lvl < sl
    · obtain ⟨hcl, hcr⟩ := hc
      rw [wiresS_lt sl lvl v l r hlt] at hnd
      obtain ⟨hq, hlr⟩ := List.nodup_cons.1 hnd
      obtain ⟨hndl, hndr, hdisj⟩ := List.nodup_append.1 hlr
      have hdis : ∀ w, w ∈ wiresS sl (lvl+1) l → w ∉ wiresS sl (lvl+1) r :=
        fun w h1 h2 => hdisj w h1 w h2 rfl
      have ihl := treeProbS_marginal o c2 s2 hcs hs0 sl h (lvl+1) l hcl hndl
      have ihr := treeProbS_marginal o c2 s2 hcs hs0 sl h (lvl+1) r hcr hndr
      have totl := treeProbS_total o c2 s2 hcs sl h (lvl+1) l hcl hndl
      have totr := treeProbS_total o c2 s2 hcs sl h (lvl+1) r hcr hndr
      have hqa : wire v.q ∉ ancS sl (lvl+1) l ++ wiresS sl (lvl+1) r := by
        intro hm
        rcases List.mem_append.1 hm with hm | hm
        · exact hq (List.mem_append_left _ (ancS_subset sl (lvl+1) l _ hm))
        · exact hq (List.mem_append_right _ hm)
      rw [ancS_lt sl lvl v l r hlt, treeProbS_lt o c2 s2 sl lvl v l r hlt,
        spineProbS_lt o c2 s2 sl lvl v l r hlt]
      cases hb : b (wire v.q)
      · have hina : (o.neZero v.y && b (wire v.q)) = false := by rw [hb, Bool.and_false]
        rw [gnode_sum_inactive o c2 s2 v l r _ _ _ hqa b hina,
          childS_sum o c2 s2 sl h (lvl+1) l r hcl hcr hdis _ _ (ancS_subset sl (lvl+1) l)
            (fun _ h => h), ihl, totr]
        simp [nodeProb, hb]
      · cases hz : o.neZero v.y
        · have hina : (o.neZero v.y && b (wire v.q)) = false := by rw [hz, Bool.false_and]
          rw [gnode_sum_inactive o c2 s2 v l r _ _ _ hqa b hina]
          simp [nodeProb, hb, hs0 _ hz]
        · have hact : (o.neZero v.y && b (wire v.q)) = true := by rw [hz, hb]; rfl
          have e : cswapPerm o (.node v l r) b = swapPairs (chainPairs l r) b := by
            simp only [cswapPerm, hact, if_true]
          rw [gnode_sum_active o c2 s2 v l r _ _ _ hqa b hact,
            sumOver_perm _ _ (margS_perm sl h (lvl+1) l r hcl hcr hlr),
            childS_sum o c2 s2 sl h (lvl+1) l r hcl hcr hdis _ _ (fun _ h => h)
              (ancS_subset sl (lvl+1) r), totl, ihr]
          simp [nodeProb, hb, e]
    · rw [ancS_ge sl lvl v l r hlt, sumOver_nil, treeProbS_ge o c2 s2 sl lvl v l r hlt,
        spineProbS_ge o c2 s2 sl lvl v l r hlt]

/-! ### S. Reading the result off the output wires -/

theorem spineProbS_eq_spW (o : TOps Θ) (c2 s2 : Θ → K)
    (hs0 : ∀ y, o.neZero y = false → s2 y = 0) (sl : Nat) :
    ∀ (h lvl : Nat) (t : BT (QV Θ)), complete h t → (wiresS sl lvl t).Nodup →
      ∀ b, spineProbS o c2 s2 sl lvl t b = spW c2 s2 (leftSpine t) t b
  | 0, _, .nil, _, _, _ => rfl
  | 0, _, .node .., hc, _, _ => by simp [complete] at hc
  | h+1, _, .nil, hc, _, _ => by simp [complete] at hc
  | h+1, lvl, .node v l r, hc, hnd, b => by
    by_cases hlt : lvl < sl
    · obtain ⟨hcl, hcr⟩ := hc
      rw [wiresS_lt sl lvl v l r hlt] at hnd
      obtain ⟨hq, hlr⟩ := List.nodup_cons.1 hnd
      obtain ⟨hndl, hndr, hdisj⟩ := List.nodup_append.1 hlr
      have ihl := spineProbS_eq_spW o c2 s2 hs0 sl h (lvl+1) l hcl hndl
      have ihr := spineProbS_eq_spW o c2 s2 hs0 sl h (lvl+1) r hcr hndr
      rw [spineProbS_lt o c2 s2 sl lvl v l r hlt]
      show _ = spW c2 s2 (wire v.q :: leftSpine l) (.node v l r) b
      rw [spW_cons_node]
      cases hb : b (wire v.q)
      · simp [ihl]
      · cases hz : o.neZero v.y
        · simp [hs0 _ hz]
        · have hact : (o.neZero v.y && b (wire v.q)) = true := by rw [hz, hb]; rfl
          have e : cswapPerm o (.node v l r) b = swapPairs (chainPairs l r) b := by
            simp only [cswapPerm, hact, if_true]
          have hpn : PairsNodup (chainPairs l r) :=
            chainPairs_nodupS sl h (lvl+1) l r hcl hcr hlr
          obtain ⟨hf, hs⟩ := chainPairs_complete h l r hcl hcr
          have hmap : (leftSpine r).map (swapPairs (chainPairs l r) b)
              = (leftSpine l).map b := by
            rw [← hs, ← hf, List.map_map, List.map_map]
            apply List.map_congr_left
            intro p hp
            exact swapPairs_snd_mem _ hpn b p hp
          have key := spW_congr c2 s2 (leftSpine r) (leftSpine l) r _ b hmap
          simp [e, ihr, key]
    · rw [spineProbS_ge o c2 s2 sl lvl v l r hlt]

#print axioms treeProbS_total
#print axioms treeProbS_marginal
#print axioms spineProbS_eq_spW

end Qclib
