import QclibModel.Proofs.IsometryCcdSweep
import Mathlib.Algebra.BigOperators.Group.Finset.Basic
import Mathlib.Tactic.LinearCombination
/-
  C03 — column-by-column decomposition, part 4: the sweep on an isometry.

  The gates of `G_k` are built from unitary 2×2 matrices, so they preserve the inner products of the
  columns of the working isometry (`ip_applyOn`, `ip_stepCol`, `ip_sweep`).  Hence, for a family of
  orthonormal columns, each time column `k` is processed it is orthogonal to the already processed
  columns `φ_c·e_c`, i.e. it vanishes on the rows `< k` — the hypothesis of `ccd_zeroes_column` /
  `ccd_sweep` — and after the sweep every column `c` is `φ_c·e_c` with `φ̄_c φ_c = 1`
  (`ccd_sweep_orth`).
-/
namespace Qclib.Iso

open Finset

variable {R : Type} [CommRing R]

/-! ### pairing the rows -/

theorem row1_row0 (i r : Nat) : row1 i (row0 i r) = row1 i r := by
  rw [row1_eq, (row0_parts i r).1, (row0_parts i r).2.2, ← row1_eq]

theorem row0_row1 (i r : Nat) : row0 i (row1 i r) = row0 i r := by
  rw [row0_eq, (row1_parts i r).1, (row1_parts i r).2.2, ← row0_eq]

/-- A sum over the rows `< 2^n` is the sum over the pairs `(r, r + 2^i)`, `r` with bit `i`
clear. -/
theorem sum_pairs (n i : Nat) (hi : i < n) (f : Nat → R) :
    ∑ r ∈ range (2 ^ n), f r =
      ∑ r ∈ (range (2 ^ n)).filter (fun r => r.testBit i = false), (f r + f (row1 i r)) := by
  rw [← sum_filter_add_sum_filter_not (range (2 ^ n)) (fun r => r.testBit i = false) f,
    sum_add_distrib]
  congr 1
  apply sum_nbij' (fun r => row0 i r) (fun r => row1 i r)
  · intro a ha
    simp only [mem_filter, mem_range] at ha ⊢
    exact ⟨row0_lt n i a ha.1, (row0_parts i a).2.1⟩
  · intro a ha
    simp only [mem_filter, mem_range] at ha ⊢
    refine ⟨row1_lt n i a hi ha.1, ?_⟩
    rw [(row1_parts i a).2.1]; simp
  · intro a ha
    simp only [mem_filter, mem_range] at ha
    have hb : a.testBit i = true := by
      cases h : a.testBit i
      · exact absurd h ha.2
      · rfl
    show row1 i (row0 i a) = a
    rw [row1_row0, row1_of_bit i a hb]
  · intro a ha
    simp only [mem_filter, mem_range] at ha
    show row0 i (row1 i a) = a
    rw [row0_row1, row0_of_not_bit i a ha.2]
  · intro a ha
    simp only [mem_filter, mem_range] at ha
    have hb : a.testBit i = true := by
      cases h : a.testBit i
      · exact absurd h ha.2
      · rfl
    show f a = f (row1 i (row0 i a))
    rw [row1_row0, row1_of_bit i a hb]

/-! ### inner product and unitary 2×2 matrices -/

/-- `⟨u, v⟩ = Σ_{r < 2^n} conj(u r)·v r`. -/
def ip (conj : R →+* R) (n : Nat) (u v : Nat → R) : R :=
  ∑ r ∈ range (2 ^ n), conj (u r) * v r

/-- `M†M = 1` for a 2×2 matrix (with respect to the conjugation `conj`). -/
def IsUnitary2 (conj : R →+* R) (M : Mat2 R) : Prop :=
  conj M.a * M.a + conj M.c * M.c = 1 ∧ conj M.b * M.b + conj M.d * M.d = 1 ∧
  conj M.a * M.b + conj M.c * M.d = 0 ∧ conj M.b * M.a + conj M.d * M.c = 0

theorem isUnitary2_one (conj : R →+* R) : IsUnitary2 conj (Mat2.one : Mat2 R) := by
  simp [IsUnitary2, Mat2.one]

/-- The gate's matrix is the same on the two rows of every pair (it does not depend on bit `i`). -/
def PairConst (i : Nat) (M : Nat → Mat2 R) : Prop :=
  ∀ r, M (row0 i r) = M r ∧ M (row1 i r) = M r

/-- A one-qubit gate with unitary, pair-consistent matrices preserves the inner product of two
columns (rows `< 2^n`, target bit `i < n`). -/
theorem ip_applyOn (conj : R →+* R) (n i : Nat) (hi : i < n) (M : Nat → Mat2 R)
    (hM : PairConst i M) (hU : ∀ r, IsUnitary2 conj (M r)) (u v : Nat → R) :
    ip conj n (applyOn i M u) (applyOn i M v) = ip conj n u v := by
  unfold ip
  rw [sum_pairs n i hi, sum_pairs n i hi (fun r => conj (u r) * v r)]
  apply sum_congr rfl
  intro r hr
  simp only [mem_filter, mem_range] at hr
  have hb := hr.2
  have hb1 := (row1_parts i r).2.1
  have e0 : row0 i r = r := row0_of_not_bit i r hb
  have e10 : row0 i (row1 i r) = r := by rw [row0_row1, e0]
  have e11 : row1 i (row1 i r) = row1 i r := row1_of_bit _ _ hb1
  have hM1 : M (row1 i r) = M r := (hM r).2
  obtain ⟨h1, h2, h3, h4⟩ := hU r
  simp only [applyOn, hb, hb1, if_true, Bool.false_eq_true, if_false, e0, e10, e11, hM1,
    map_add, map_mul]
  generalize conj (M r).a = ca at *
  generalize conj (M r).b = cb at *
  generalize conj (M r).c = cc at *
  generalize conj (M r).d = cd at *
  linear_combination (conj (u r) * v r) * h1 + (conj (u (row1 i r)) * v (row1 i r)) * h2
    + (conj (u r) * v (row1 i r)) * h3 + (conj (u (row1 i r)) * v r) * h4

theorem pairConst_ucMat (k i : Nat) (L : Nat → Mat2 R) : PairConst i (ucMat k i L) := by
  intro r
  unfold ucMat
  rw [(row0_parts i r).1, (row1_parts i r).1]
  exact ⟨rfl, rfl⟩

/-- Activity of the MCG does not depend on bit `i` of the row (set version). -/
theorem mcActive_row1 (n k i r : Nat) (hi : i < n) :
    mcActive n k i (row1 i r) = mcActive n k i r := by
  rw [Bool.eq_iff_iff, mcActive_iff n k i _ hi, mcActive_iff n k i _ hi]
  constructor
  · intro h b hb hbi hkb
    have := h b hb hbi hkb
    rwa [testBit_row1, if_neg hbi] at this
  · intro h b hb hbi hkb
    rw [testBit_row1, if_neg hbi]; exact h b hb hbi hkb

theorem pairConst_mcMat (n k i : Nat) (hi : i < n) (U : Mat2 R) : PairConst i (mcMat n k i U) := by
  intro r
  unfold mcMat
  rw [mcActive_row0 n k i r hi, mcActive_row1 n k i r hi]
  exact ⟨rfl, rfl⟩

/-- **Step `(k, i)` of `G_k` preserves inner products** when its 2×2 matrices are unitary. -/
theorem ip_stepCol (conj : R →+* R) (n k i : Nat) (hi : i < n) (U : Mat2 R) (L : Nat → Mat2 R)
    (hU : IsUnitary2 conj U) (hL : ∀ j, IsUnitary2 conj (L j)) (u v : Nat → R) :
    ip conj n (stepCol n k i U L u) (stepCol n k i U L v) = ip conj n u v := by
  have huc : ∀ u v : Nat → R,
      ip conj n (applyOn i (ucMat k i L) u) (applyOn i (ucMat k i L) v) = ip conj n u v := by
    intro u v
    apply ip_applyOn conj n i hi _ (pairConst_ucMat k i L)
    intro r; unfold ucMat; split
    · exact isUnitary2_one conj
    · exact hL _
  unfold stepCol
  cases hm : hasMcg k i
  · simp only [Bool.false_eq_true, if_false]; exact huc u v
  · simp only [if_true]
    rw [huc]
    apply ip_applyOn conj n i hi _ (pairConst_mcMat n k i hi U)
    intro r; unfold mcMat; split
    · exact hU
    · exact isUnitary2_one conj

/-- A chooser all of whose matrices are unitary. -/
def Chooser.Unitary (conj : R →+* R) (ch : Chooser R) : Prop :=
  ∀ k i (w : Nat → R), IsUnitary2 conj (ch.mc k i w) ∧ ∀ j, IsUnitary2 conj (ch.uc k i w j)

/-- `G_k` (matrices chosen from column `w`) preserves the inner product of any two columns. -/
theorem ip_gkCol_replay (conj : R →+* R) (ch : Chooser R) (hch : ch.Unitary conj) (n k s : Nat)
    (hs : s ≤ n) (w u v : Nat → R) :
    ip conj n (gkCol (replay ch n k w) n k s u) (gkCol (replay ch n k w) n k s v) = ip conj n u v := by
  induction s with
  | zero => rfl
  | succ s ih =>
    rw [gkCol_succ, gkCol_succ]
    show ip conj n (stepCol n k s (ch.mc k s (gkCol ch n k s w)) (ch.uc k s (afterMc ch n k s w)) _)
      (stepCol n k s (ch.mc k s (gkCol ch n k s w)) (ch.uc k s (afterMc ch n k s w)) _) = _
    rw [ip_stepCol conj n k s (by omega) _ _ (hch k s _).1 (hch k s _).2]
    exact ih (by omega)

/-- **The sweep preserves the Gram matrix of the columns.** -/
theorem ip_sweep (conj : R →+* R) (ch : Chooser R) (hch : ch.Unitary conj) (n K : Nat)
    (F : Nat → Nat → R) (c c' : Nat) :
    ip conj n (sweep ch n K F c) (sweep ch n K F c') = ip conj n (F c) (F c') := by
  induction K with
  | zero => rfl
  | succ K ih =>
    show ip conj n (gkCol (replay ch n K _) n K n _) (gkCol (replay ch n K _) n K n _) = _
    rw [ip_gkCol_replay conj ch hch n K n (Nat.le_refl n)]
    exact ih

/-- The inner product with a column supported on row `c` only. -/
theorem ip_of_single (conj : R →+* R) (n c : Nat) (hc : c < 2 ^ n) (u v : Nat → R)
    (hu : ∀ r, r < 2 ^ n → r ≠ c → u r = 0) : ip conj n u v = conj (u c) * v c := by
  unfold ip
  apply sum_eq_single c
  · intro b hb hne
    rw [hu b (mem_range.1 hb) hne, map_zero, zero_mul]
  · intro h; exact absurd (mem_range.2 hc) h

/-- **The column-by-column sweep on an isometry.**  Let the columns `F 0 … F (K-1)` (`K ≤ 2^n`) be
orthonormal on the rows `< 2^n`, and let the chooser's 2×2 matrices be unitary and satisfy Lemma 2
(zeroing).  Then after `G_{K-1} ⋯ G_0` every column `c < K` is `φ_c·e_c` on the rows `< 2^n`, with
`conj φ_c · φ_c = 1`. -/
theorem ccd_sweep_orth (conj : R →+* R) (ch : Chooser R) (n K : Nat) (hK : K ≤ 2 ^ n)
    (hz : ∀ k, k < K → ch.Zeroing n k) (hu : ch.Unitary conj) (F : Nat → Nat → R)
    (horth : ∀ c c', c < c' → c' < K → ip conj n (F c) (F c') = 0)
    (hnorm : ∀ c, c < K → ip conj n (F c) (F c) = 1) :
    ∀ c, c < K → (∀ r, r < 2 ^ n → r ≠ c → sweep ch n K F c r = 0) ∧
      conj (sweep ch n K F c c) * sweep ch n K F c c = 1 := by
  -- each time a column is processed it vanishes above its pivot
  have hvan : ∀ k, k < K → ∀ r, r < k → sweep ch n k F k r = 0 := by
    intro k
    induction k using Nat.strong_induction_on with
    | _ k ih =>
      intro hk r hr
      have hsw := ccd_sweep ch n k (by omega) (fun k' h => hz k' (by omega)) F
        (fun k' h => ih k' h (by omega))
      have hsingle := hsw r hr
      have h0 : ip conj n (sweep ch n k F r) (sweep ch n k F k) = 0 := by
        rw [ip_sweep conj ch hu]; exact horth r k hr hk
      have h1 : ip conj n (sweep ch n k F r) (sweep ch n k F r) = 1 := by
        rw [ip_sweep conj ch hu]; exact hnorm r (by omega)
      rw [ip_of_single conj n r (by omega) _ _ hsingle] at h0 h1
      calc sweep ch n k F k r
          = (conj (sweep ch n k F r r) * sweep ch n k F r r) * sweep ch n k F k r := by
            rw [h1, one_mul]
        _ = sweep ch n k F r r * (conj (sweep ch n k F r r) * sweep ch n k F k r) := by ring
        _ = 0 := by rw [h0, mul_zero]
  intro c hc
  have hsw := ccd_sweep ch n K hK hz F hvan c hc
  refine ⟨hsw, ?_⟩
  have h1 : ip conj n (sweep ch n K F c) (sweep ch n K F c) = 1 := by
    rw [ip_sweep conj ch hu]; exact hnorm c hc
  rwa [ip_of_single conj n c (by omega) _ _ hsw] at h1

/-! ### Lemma 2 gives unitary matrices -/

/-- `_unitary` is unitary when `s` is a self-conjugate normalisation (`s² ‖(a,b)‖² = 1`). -/
theorem lemma2_unitary (conj : R →+* R) (hinv : ∀ x, conj (conj x) = x) (s a b : R)
    (hs : conj s = s) (hn : s * s * (conj a * a + conj b * b) = 1) (basis : Nat) :
    IsUnitary2 conj (lemma2 conj s a b basis) := by
  unfold lemma2 IsUnitary2
  split <;>
  · simp only [map_mul, map_neg, hinv, hs]
    refine ⟨?_, ?_, ?_, ?_⟩
    · linear_combination hn
    · linear_combination hn
    · ring
    · ring

/-- The code's chooser is unitary when its normalisation is exact on the pairs the zero test
rejects. -/
theorem codeChooser_unitary (conj : R →+* R) (hinv : ∀ x, conj (conj x) = x) (s : R → R → R)
    (z : R → R → Bool) (hs : ∀ a b, conj (s a b) = s a b)
    (hn : ∀ a b, z a b = false → s a b * s a b * (conj a * a + conj b * b) = 1) :
    (codeChooser conj s z).Unitary conj := by
  have key : ∀ a b basis, IsUnitary2 conj (codeUnitary conj s z a b basis) := by
    intro a b basis
    unfold codeUnitary
    cases h : z a b
    · simp only [Bool.false_eq_true, if_false]
      exact lemma2_unitary conj hinv _ a b (hs a b) (hn a b h) basis
    · simp only [if_true]; exact isUnitary2_one conj
  intro k i w
  exact ⟨key _ _ _, fun j => key _ _ _⟩

end Qclib.Iso
