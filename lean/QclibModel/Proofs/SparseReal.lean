import QclibModel.Model.SparseMerge
import QclibModel.Model.SparseCvo
import QclibModel.Proofs.RotReal
import Mathlib.Analysis.SpecialFunctions.Trigonometric.Inverse
import Mathlib.Analysis.SpecialFunctions.Complex.Arg
/-
  C06 — the angle formulas of merge.py (`_compute_angles`) and util.py (`_compute_matrix_angles`)
  over the reals: the model's polymorphic definitions instantiated with `ℝ`
  (`atan2 y x = arg (x + iy)`, i.e. `np.log(z).imag`).
-/
namespace Qclib.Sparse
open Qclib Complex

noncomputable instance instNumOpsReal : NumOps ℝ where
  zero := 0
  one := 1
  two := 2
  add := (· + ·)
  sub := (· - ·)
  mul := (· * ·)
  div := (· / ·)
  neg := fun x => -x
  sqrt := Real.sqrt
  asin := Real.arcsin
  acos := Real.arccos
  atan2 := fun y x => Complex.arg ⟨x, y⟩
  pi := Real.pi
  lt := fun a b => decide (a < b)

/-- the complex number an `Amp ℝ` stands for -/
def Amp.toC (a : Amp ℝ) : ℂ := ⟨a.re, a.im⟩

theorem ex_sq (θ : ℝ) : (RotSem.ex θ : ℂ) * RotSem.ex θ = Complex.exp ((θ : ℂ) * Complex.I) := by
  show Complex.exp (((θ / 2 : ℝ) : ℂ) * Complex.I) * Complex.exp (((θ / 2 : ℝ) : ℂ) * Complex.I)
    = Complex.exp ((θ : ℂ) * Complex.I)
  rw [← Complex.exp_add]; congr 1; push_cast; ring

theorem cs_real (θ : ℝ) : (RotSem.cs θ : ℂ) = (Real.cos (θ / 2) : ℂ) := rfl
theorem sn_real (θ : ℝ) : (RotSem.sn θ : ℂ) = (Real.sin (θ / 2) : ℂ) := rfl

/-! ### merge -/

/-- pure form of the complex branch: with `‖w₁‖² + ‖w₂‖² = 1`, `θ = -2·arcsin‖w₂‖`,
`λ = arg w₂`, `φ = arg w₁ - λ`, the second column of `U(θ,φ,λ)` is `(w₂, w₁)`. -/
theorem merge_col (w1 w2 : ℂ) (h : ‖w1‖ ^ 2 + ‖w2‖ ^ 2 = 1) :
    -(Complex.exp ((w2.arg : ℂ) * I) * (Real.sin ((-2 * Real.arcsin ‖w2‖) / 2) : ℂ)) = w2 ∧
    Complex.exp (((w1.arg - w2.arg : ℝ) : ℂ) * I) * Complex.exp ((w2.arg : ℂ) * I)
        * (Real.cos ((-2 * Real.arcsin ‖w2‖) / 2) : ℂ) = w1 := by
  have n2 : 0 ≤ ‖w2‖ := norm_nonneg _
  have n1 : 0 ≤ ‖w1‖ := norm_nonneg _
  have le1 : ‖w2‖ ≤ 1 := by nlinarith
  have e : (-2 * Real.arcsin ‖w2‖) / 2 = -Real.arcsin ‖w2‖ := by ring
  constructor
  · rw [e, Real.sin_neg, Real.sin_arcsin (by linarith) le1]
    have := Complex.norm_mul_exp_arg_mul_I w2
    calc -(Complex.exp ((w2.arg : ℂ) * I) * ((-‖w2‖ : ℝ) : ℂ))
        = (‖w2‖ : ℂ) * Complex.exp ((w2.arg : ℂ) * I) := by push_cast; ring
      _ = w2 := this
  · rw [e, Real.cos_neg, Real.cos_arcsin]
    have hs : Real.sqrt (1 - ‖w2‖ ^ 2) = ‖w1‖ := by
      have : 1 - ‖w2‖ ^ 2 = ‖w1‖ ^ 2 := by linarith
      rw [this, Real.sqrt_sq n1]
    rw [hs, ← Complex.exp_add]
    have : ((w1.arg - w2.arg : ℝ) : ℂ) * I + (w2.arg : ℂ) * I = (w1.arg : ℂ) * I := by
      push_cast; ring
    rw [this, mul_comm]
    exact Complex.norm_mul_exp_arg_mul_I w1

theorem normAmp_real (a1 a2 : Amp ℝ) :
    normAmp a1 a2 = Real.sqrt (‖a1.toC‖ ^ 2 + ‖a2.toC‖ ^ 2) := by
  show Real.sqrt ((a1.re * a1.re + a1.im * a1.im) + (a2.re * a2.re + a2.im * a2.im)) = _
  congr 1
  rw [Complex.norm_eq_sqrt_sq_add_sq, Complex.norm_eq_sqrt_sq_add_sq,
    Real.sq_sqrt (by positivity), Real.sq_sqrt (by positivity)]
  simp only [Amp.toC]; ring

/-- **complex branch of `_compute_angles`** (at least one amplitude is a Python `complex`):
`U(θ,φ,λ)·(0, N)ᵀ = (a₂, a₁)ᵀ` with `N = ‖(a₁,a₂)‖`. -/
theorem merge_rot_complex (a1 a2 : Amp ℝ) (hc : (a1.cplx || a2.cplx) = true)
    (hN : 0 < normAmp a1 a2) :
    (matU (mergeAngles a1 a2).1 (mergeAngles a1 a2).2.1 (mergeAngles a1 a2).2.2 : Mat2 ℂ).b
        * ((normAmp a1 a2 : ℝ) : ℂ) = a2.toC ∧
    (matU (mergeAngles a1 a2).1 (mergeAngles a1 a2).2.1 (mergeAngles a1 a2).2.2 : Mat2 ℂ).d
        * ((normAmp a1 a2 : ℝ) : ℂ) = a1.toC := by
  set N := normAmp a1 a2 with hNdef
  have hN0 : N ≠ 0 := ne_of_gt hN
  let w1 : ℂ := ⟨a1.re / N, a1.im / N⟩
  let w2 : ℂ := ⟨a2.re / N, a2.im / N⟩
  have hw1 : w1 * (N : ℂ) = a1.toC := by
    apply Complex.ext <;> simp [w1, Amp.toC] <;> field_simp
  have hw2 : w2 * (N : ℂ) = a2.toC := by
    apply Complex.ext <;> simp [w2, Amp.toC] <;> field_simp
  have nw : ∀ a : Amp ℝ, ‖(⟨a.re / N, a.im / N⟩ : ℂ)‖ ^ 2 = ‖a.toC‖ ^ 2 / N ^ 2 := by
    intro a
    rw [Complex.norm_eq_sqrt_sq_add_sq, Complex.norm_eq_sqrt_sq_add_sq,
      Real.sq_sqrt (by positivity), Real.sq_sqrt (by positivity)]
    simp only [Amp.toC]; field_simp
  have hsum : ‖w1‖ ^ 2 + ‖w2‖ ^ 2 = 1 := by
    rw [nw a1, nw a2, ← add_div]
    have h2 : N ^ 2 = ‖a1.toC‖ ^ 2 + ‖a2.toC‖ ^ 2 := by
      rw [hNdef, normAmp_real, Real.sq_sqrt (by positivity)]
    rw [h2]; exact div_self (by rw [← h2]; positivity)
  have key := merge_col w1 w2 hsum
  -- unfold the model's formula at the real instance
  have hang : mergeAngles a1 a2 = (-2 * Real.arcsin ‖w2‖, w1.arg - w2.arg, w2.arg) := by
    unfold mergeAngles
    rw [if_pos hc]
    show ((-2 : ℝ) * Real.arcsin (Real.sqrt (a2.re / N * (a2.re / N) + a2.im / N * (a2.im / N))),
          Complex.arg ⟨a1.re / N, a1.im / N⟩ - Complex.arg ⟨a2.re / N, a2.im / N⟩,
          Complex.arg ⟨a2.re / N, a2.im / N⟩) = _
    have : Real.sqrt (a2.re / N * (a2.re / N) + a2.im / N * (a2.im / N)) = ‖w2‖ := by
      rw [Complex.norm_def, Complex.normSq_apply]
    rw [this]
  rw [hang]
  simp only [matU, ex_sq, cs_real, sn_real]
  constructor
  · rw [key.1, hw2]
  · rw [key.2, hw1]

/-- **real branch of `_compute_angles`** (both amplitudes are real scalars — in `MergeInitialize`
these are always norms produced by earlier merges, hence `a₁ ≥ 0`; the hypothesis is needed:
for `a₁ < 0` the formula returns `|a₁|`). -/
theorem merge_rot_real (a1 a2 : Amp ℝ) (hc : (a1.cplx || a2.cplx) = false)
    (h1 : a1.im = 0) (h2 : a2.im = 0) (hpos : 0 ≤ a1.re) (hN : 0 < normAmp a1 a2) :
    (matU (mergeAngles a1 a2).1 (mergeAngles a1 a2).2.1 (mergeAngles a1 a2).2.2 : Mat2 ℂ).b
        * ((normAmp a1 a2 : ℝ) : ℂ) = a2.toC ∧
    (matU (mergeAngles a1 a2).1 (mergeAngles a1 a2).2.1 (mergeAngles a1 a2).2.2 : Mat2 ℂ).d
        * ((normAmp a1 a2 : ℝ) : ℂ) = a1.toC := by
  set N := normAmp a1 a2 with hNdef
  have hN0 : N ≠ 0 := ne_of_gt hN
  have hNsq : N ^ 2 = a1.re ^ 2 + a2.re ^ 2 := by
    rw [hNdef]
    show (Real.sqrt ((a1.re * a1.re + a1.im * a1.im) + (a2.re * a2.re + a2.im * a2.im))) ^ 2 = _
    have nn : 0 ≤ (a1.re * a1.re + a1.im * a1.im) + (a2.re * a2.re + a2.im * a2.im) := by
      nlinarith [mul_self_nonneg a1.re, mul_self_nonneg a1.im, mul_self_nonneg a2.re, mul_self_nonneg a2.im]
    rw [Real.sq_sqrt nn, h1, h2]; ring
  have hx : (a2.re / N) ^ 2 ≤ 1 := by
    rw [div_pow, div_le_one (by positivity)]; nlinarith [sq_nonneg a1.re]
  have hx1 : -1 ≤ a2.re / N ∧ a2.re / N ≤ 1 := by
    constructor <;> nlinarith [sq_nonneg (a2.re / N + 1), sq_nonneg (a2.re / N - 1)]
  have hang : mergeAngles a1 a2 = (-2 * Real.arcsin (a2.re / N), 0, 0) := by
    unfold mergeAngles
    rw [if_neg (by simp [hc])]
    rfl
  rw [hang]
  have e : (-2 * Real.arcsin (a2.re / N)) / 2 = -Real.arcsin (a2.re / N) := by ring
  have ex0 : (RotSem.ex (0 : ℝ) : ℂ) = 1 := (instRotLawsReal).ex_zero
  simp only [matU, cs_real, sn_real, ex0, e, Real.sin_neg, Real.cos_neg,
    Real.sin_arcsin hx1.1 hx1.2, Real.cos_arcsin]
  have hs : Real.sqrt (1 - (a2.re / N) ^ 2) = a1.re / N := by
    have : 1 - (a2.re / N) ^ 2 = (a1.re / N) ^ 2 := by
      rw [div_pow, div_pow]; field_simp; linarith
    rw [this, Real.sqrt_sq (div_nonneg hpos hN.le)]
  rw [hs]
  constructor
  · apply Complex.ext <;> simp [Amp.toC, h2] <;> field_simp
  · apply Complex.ext <;> simp [Amp.toC, h1] <;> field_simp

end Qclib.Sparse
