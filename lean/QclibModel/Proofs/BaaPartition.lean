import QclibModel.Proofs.BaaTree
/-
  C08, qubit bookkeeping: the registers of every reachable node partition `{0..n-1}`, each is
  strictly increasing, recorded local partitions are valid axis lists of their register, and the
  local partition handed to the Schmidt code is the position of each global qubit in its register.
  Core Lean only.
-/
namespace Qclib.Baa

variable {α : Type}

/-! ### `sorted(set(·))` -/

theorem mem_insertU (a x : Nat) (l : List Nat) : x ∈ insertU a l ↔ x = a ∨ x ∈ l := by
  induction l with
  | nil => simp [insertU]
  | cons b bs ih =>
    simp only [insertU]
    split
    · simp
    · split
      · rename_i h; subst h; simp
      · simp only [List.mem_cons, ih]
        constructor
        · rintro (h | h | h) <;> simp [h]
        · rintro (h | h | h) <;> simp [h]

theorem mem_sortU (x : Nat) (l : List Nat) : x ∈ sortU l ↔ x ∈ l := by
  induction l with
  | nil => simp [sortU]
  | cons a as ih => simp [sortU, mem_insertU, ih]

theorem pairwise_insertU (a : Nat) (l : List Nat) (h : l.Pairwise (· < ·)) :
    (insertU a l).Pairwise (· < ·) := by
  induction l with
  | nil => simp [insertU]
  | cons b bs ih =>
    simp only [insertU]
    have hb := List.pairwise_cons.mp h
    split
    · rename_i hab
      refine List.pairwise_cons.mpr ⟨?_, h⟩
      intro x hx
      rcases List.mem_cons.mp hx with hx | hx
      · omega
      · have := hb.1 x hx; omega
    · split
      · exact h
      · rename_i h1 h2
        refine List.pairwise_cons.mpr ⟨?_, ih hb.2⟩
        intro x hx
        rcases (mem_insertU a x bs).mp hx with hx | hx
        · omega
        · exact hb.1 x hx

theorem pairwise_sortU (l : List Nat) : (sortU l).Pairwise (· < ·) := by
  induction l with
  | nil => simp [sortU]
  | cons a as ih => exact pairwise_insertU a _ ih

theorem sortU_of_pairwise (l : List Nat) (h : l.Pairwise (· < ·)) : sortU l = l := by
  induction l with
  | nil => rfl
  | cons a as ih =>
    have ha := List.pairwise_cons.mp h
    simp only [sortU, ih ha.2]
    cases as with
    | nil => rfl
    | cons b bs =>
      have : a < b := ha.1 b (by simp)
      simp [insertU, this]

/-! ### candidate bipartitions are increasing sublists of the register -/

theorem combinations_sublist (l : List Nat) (k : Nat) :
    ∀ c ∈ combinations l k, c.Sublist l ∧ c.length = k := by
  induction l generalizing k with
  | nil =>
    cases k with
    | zero => intro c hc; simp [combinations] at hc; subst hc; simp
    | succ k => intro c hc; simp [combinations] at hc
  | cons x xs ih =>
    cases k with
    | zero => intro c hc; simp [combinations] at hc; subst hc; simp
    | succ k =>
      intro c hc
      simp only [combinations, List.mem_append, List.mem_map] at hc
      rcases hc with ⟨c', hc', rfl⟩ | hc
      · have := ih k c' hc'
        exact ⟨List.Sublist.cons_cons x this.1, by simp [this.2]⟩
      · have := ih (k + 1) c hc
        exact ⟨List.Sublist.cons x this.1, this.2⟩

theorem splitCombinations_mem (qs : List Nat) (k : Nat) (c : List Nat)
    (h : c ∈ splitCombinations qs k) : c ∈ combinations qs k := by
  unfold splitCombinations at h
  simp only at h
  split at h
  · exact List.mem_of_mem_take h
  · exact h

theorem allCombinations_sublist (qs : List Nat) (k : Nat) (c : List Nat)
    (h : c ∈ allCombinations qs k) : c.Sublist qs := by
  unfold allCombinations at h
  rcases List.mem_append.mp h with h | h
  · obtain ⟨j, _, hj⟩ := List.mem_flatMap.mp h
    exact (combinations_sublist qs j c hj).1
  · exact (combinations_sublist qs k c (splitCombinations_mem qs k c h)).1

/-- What `_reduce_entanglement` writes into every `Entanglement` record. -/
theorem reduceEntanglement_fields (O : Oracle α) (vec : Nat) (reg part : List Nat) (u : Bool)
    (e : EInfo α) (h : e ∈ reduceEntanglement O vec reg part u) :
    e.register = reg ∧ e.partition = part ∧ e.localPartition = localPartition reg part := by
  unfold reduceEntanglement at h
  obtain ⟨s, _, rfl⟩ := List.mem_map.mp h
  exact ⟨rfl, rfl, rfl⟩

/-- Qubits of the entries `_create_node` appends come from the replaced register or the partition. -/
theorem newEntries_qubits (e : EInfo α) (orig : Entry) :
    ∀ x ∈ newEntries e orig, ∀ q ∈ x.qubits, q ∈ orig.qubits ∨ q ∈ e.partition := by
  intro x hx q hq
  unfold newEntries at hx
  split at hx
  · simp only [List.mem_cons, List.not_mem_nil, or_false] at hx
    rcases hx with rfl | rfl
    · exact Or.inr hq
    · simp only [mem_sortU, List.mem_filter] at hq
      exact Or.inl hq.1
  · simp only [List.mem_singleton] at hx
    subst hx
    exact Or.inl hq

theorem createNode_qubits_subset (L : LossOps α) (O : Oracle α) (parent c : Node α) (e : EInfo α)
    (S : Nat → Prop) (h : createNode L O parent e = some c)
    (hp : ∀ x ∈ parent.entries, ∀ q ∈ x.qubits, S q) (he : ∀ q ∈ e.partition, S q) :
    ∀ x ∈ c.entries, ∀ q ∈ x.qubits, S q := by
  obtain ⟨idx, orig, hidx, horig, _, _, _, _, _, hent⟩ := createNode_some L O parent c e h
  intro x hx q hq
  rw [hent] at hx
  have horigm : orig ∈ parent.entries := List.mem_of_getElem? horig
  rcases List.mem_append.mp hx with hx | hx
  · exact hp x (List.mem_of_mem_eraseIdx hx) q hq
  · rcases newEntries_qubits e orig x hx q hq with h1 | h1
    · exact hp orig horigm q h1
    · exact he q h1

/-- `_greedy_combinations` only ever moves qubits of the register around. -/
theorem greedy_qubits (L : LossOps α) (O : Oracle α) (qs : List Nat) (k : Nat)
    (st : Node α × List Query) (h : ∀ x ∈ st.1.entries, ∀ q ∈ x.qubits, q ∈ qs) :
    ∀ x ∈ (iter (greedyStep L O) k st).1.entries, ∀ q ∈ x.qubits, q ∈ qs := by
  induction k generalizing st with
  | zero => exact h
  | succ k ih =>
    simp only [iter]
    apply ih
    unfold greedyStep
    split
    · exact h
    · rename_i cur hcur
      simp only
      split
      · exact h
      · rename_i b hb
        have hm := searchBest_mem L _ _ hb
        obtain ⟨q, hq, hqq⟩ := List.mem_filterMap.mp hm
        split at hqq
        · simp at hqq
        · rename_i e es hre
          have he : e ∈ reduceEntanglement O cur.vec cur.qubits [q] false := by rw [hre]; simp
          have hf := reduceEntanglement_fields O _ _ _ _ e he
          have hcurm : cur ∈ st.1.entries := List.mem_of_getLast? hcur
          apply createNode_qubits_subset L O st.1 b e (fun q => q ∈ qs) hqq h
          intro q' hq'
          rw [hf.2.1] at hq'
          simp only [List.mem_singleton] at hq'
          subst hq'
          exact h cur hcurm q' hq

theorem candidates_ok (L : LossOps α) (O : Oracle α) (s : Strategy) (ent : Entry) (k : Nat)
    (hs : ent.qubits.Pairwise (· < ·)) :
    ∀ part ∈ (candidates L O s ent k).1, part.Pairwise (· < ·) ∧ ∀ q ∈ part, q ∈ ent.qubits := by
  intro part hp
  have sub : part.Sublist ent.qubits → part.Pairwise (· < ·) ∧ ∀ q ∈ part, q ∈ ent.qubits :=
    fun h => ⟨hs.sublist h, fun q hq => h.subset hq⟩
  cases s with
  | greedy =>
    simp only [candidates, greedyCombinations] at hp
    obtain ⟨j, _, rfl⟩ := List.mem_map.mp hp
    refine ⟨pairwise_sortU _, ?_⟩
    intro q hq
    rw [mem_sortU] at hq
    obtain ⟨x, hx, hqx⟩ := List.mem_flatMap.mp hq
    refine greedy_qubits L O ent.qubits k _ ?_ x (List.mem_of_mem_take hx) q hqx
    intro x hx q hq
    simp only [List.mem_singleton] at hx
    subst hx
    exact hq
  | split =>
    simp only [candidates] at hp
    exact sub (combinations_sublist _ _ _ (splitCombinations_mem _ _ _ hp)).1
  | canonical =>
    simp only [candidates, List.mem_singleton] at hp
    subst hp
    exact sub (List.take_sublist _ _)
  | brute =>
    simp only [candidates] at hp
    exact sub (allCombinations_sublist _ _ _ hp)

/-! ### the local partition is the position inside the register -/

theorem filter_lt_length_eq_idxOf (reg : List Nat) (hs : reg.Pairwise (· < ·)) (q : Nat)
    (hq : q ∈ reg) : (reg.filter (fun i => decide (i < q))).length = reg.idxOf q := by
  induction reg with
  | nil => simp at hq
  | cons a rest ih =>
    have ha := List.pairwise_cons.mp hs
    by_cases haq : a = q
    · subst haq
      have : rest.filter (fun i => decide (i < a)) = [] := by
        apply List.filter_eq_nil_iff.mpr
        intro x hx
        have := ha.1 x hx
        simp; omega
      simp [this]
    · have hq' : q ∈ rest := by
        rcases List.mem_cons.mp hq with h | h
        · exact absurd h.symm haq
        · exact h
      have hlt : a < q := ha.1 q hq'
      have hne : (a == q) = false := by simp [haq]
      simp [hlt, List.idxOf_cons, hne, ih ha.2 hq']

theorem localPartition_eq_idxOf (reg part : List Nat) (hs : reg.Pairwise (· < ·))
    (hsub : ∀ q ∈ part, q ∈ reg) : localPartition reg part = part.map (fun q => reg.idxOf q) := by
  unfold localPartition
  apply List.map_congr_left
  intro q hq
  exact filter_lt_length_eq_idxOf reg hs q (hsub q hq)

theorem idxOf_lt_of_lt (reg : List Nat) (hs : reg.Pairwise (· < ·)) (a b : Nat) (ha : a ∈ reg)
    (hb : b ∈ reg) (hab : a < b) : reg.idxOf a < reg.idxOf b := by
  rw [← filter_lt_length_eq_idxOf reg hs a ha, ← filter_lt_length_eq_idxOf reg hs b hb]
  induction reg with
  | nil => simp at ha
  | cons x xs ih =>
    have hx := List.pairwise_cons.mp hs
    simp only [List.filter_cons]
    by_cases h1 : x < a
    · have h2 : x < b := by omega
      have ha' : a ∈ xs := by
        rcases List.mem_cons.mp ha with h | h
        · omega
        · exact h
      have hb' : b ∈ xs := by
        rcases List.mem_cons.mp hb with h | h
        · omega
        · exact h
      simp only [h1, h2, decide_true, if_true, List.length_cons]
      have := ih hx.2 ha' hb'
      omega
    · have hxa : a = x := by
        rcases List.mem_cons.mp ha with h | h
        · exact h
        · have := hx.1 a h; omega
      subst hxa
      have : xs.filter (fun i => decide (i < a)) = [] := by
        apply List.filter_eq_nil_iff.mpr
        intro y hy
        have := hx.1 y hy
        simp; omega
      simp [h1, hab, this]

/-- The local partition of an increasing sub-list of an increasing register: positions, increasing,
inside the register, and pointing back at the global qubits. -/
theorem localPartition_spec (reg part : List Nat) (hs : reg.Pairwise (· < ·))
    (hp : part.Pairwise (· < ·)) (hsub : ∀ q ∈ part, q ∈ reg) :
    localPartition reg part = part.map (fun q => reg.idxOf q) ∧
    (localPartition reg part).Pairwise (· < ·) ∧
    (∀ a ∈ localPartition reg part, a < reg.length) ∧
    (localPartition reg part).map (fun a => reg.getD a 0) = part := by
  have h1 := localPartition_eq_idxOf reg part hs hsub
  refine ⟨h1, ?_, ?_, ?_⟩
  · rw [h1]
    rw [List.pairwise_map]
    refine List.Pairwise.imp_of_mem ?_ hp
    intro a b ha hb hab
    exact idxOf_lt_of_lt reg hs a b (hsub a ha) (hsub b hb) hab
  · rw [h1]
    intro a ha
    obtain ⟨q, hq, rfl⟩ := List.mem_map.mp ha
    exact List.idxOf_lt_length_of_mem (hsub q hq)
  · rw [h1, List.map_map]
    conv => rhs; rw [← List.map_id part]
    apply List.map_congr_left
    intro q hq
    have hlt := List.idxOf_lt_length_of_mem (hsub q hq)
    simp only [Function.comp, id, List.getD_eq_getElem?_getD, List.getElem?_eq_getElem hlt,
      Option.getD_some, List.getElem_idxOf]

/-! ### the invariant -/

/-- The registers partition `{0..n-1}`, each strictly increasing; recorded partitions are valid
(strictly increasing positions inside the register); an entangled register never has one qubit. -/
structure RegOK (n : Nat) (entries : List Entry) : Prop where
  sorted : ∀ e ∈ entries, e.qubits.Pairwise (· < ·)
  cover : (entries.flatMap (·.qubits)).Perm (List.range n)
  parts : ∀ e ∈ entries, ∀ lp, e.partition = some lp →
    lp.Pairwise (· < ·) ∧ ∀ a ∈ lp, a < e.qubits.length
  rank0 : ∀ e ∈ entries, e.rank = 0 → e.qubits.length ≠ 1

theorem flatMap_eraseIdx_perm (l : List Entry) (idx : Nat) (orig : Entry)
    (h : l[idx]? = some orig) :
    (l.flatMap (·.qubits)).Perm (orig.qubits ++ (l.eraseIdx idx).flatMap (·.qubits)) := by
  induction l generalizing idx with
  | nil => simp at h
  | cons x xs ih =>
    cases idx with
    | zero =>
      simp only [List.getElem?_cons_zero, Option.some.injEq] at h
      subst h
      simp
    | succ i =>
      simp only [List.getElem?_cons_succ] at h
      simp only [List.flatMap_cons, List.eraseIdx_cons_succ]
      have := ih i h
      calc x.qubits ++ xs.flatMap (·.qubits)
          _ |>.Perm (x.qubits ++ (orig.qubits ++ (xs.eraseIdx i).flatMap (·.qubits))) :=
            List.Perm.append_left _ this
          _ |>.Perm (orig.qubits ++ (x.qubits ++ (xs.eraseIdx i).flatMap (·.qubits))) := by
            rw [← List.append_assoc, ← List.append_assoc]
            exact List.Perm.append_right _ List.perm_append_comm

theorem split_perm (reg part : List Nat) (hs : reg.Pairwise (· < ·)) (hp : part.Pairwise (· < ·))
    (hsub : ∀ q ∈ part, q ∈ reg) :
    (part ++ sortU (reg.filter (fun q => !part.contains q))).Perm reg := by
  rw [sortU_of_pairwise _ (hs.filter _)]
  have h1 : (reg.filter (fun q => part.contains q)).Perm part := by
    apply (List.perm_ext_iff_of_nodup ?_ ?_).mpr
    · intro a
      simp only [List.mem_filter, List.contains_iff_mem]
      exact ⟨fun h => h.2, fun h => ⟨hsub a h, h⟩⟩
    · exact (hs.filter _).imp (fun h => by omega)
    · exact hp.imp (fun h => by omega)
  have h2 := List.filter_append_perm (fun q => part.contains q) reg
  exact (List.Perm.append_right _ h1.symm).trans h2

theorem createNode_regOK (L : LossOps α) (O : Oracle α) (n : Nat) (parent c : Node α) (e : EInfo α)
    (reg part : List Nat) (hc : createNode L O parent e = some c) (hok : RegOK n parent.entries)
    (hreg : e.register = reg) (hpart : e.partition = part)
    (hlp : e.localPartition = localPartition reg part)
    (hp : part.Pairwise (· < ·)) (hsub : ∀ q ∈ part, q ∈ reg) (hlen : reg.length ≠ 1) :
    RegOK n c.entries := by
  obtain ⟨idx, orig, hidx, horig, hoq, _, _, _, _, hent⟩ := createNode_some L O parent c e hc
  have horigm : orig ∈ parent.entries := List.mem_of_getElem? horig
  have hs : orig.qubits.Pairwise (· < ·) := hok.sorted orig horigm
  rw [hreg] at hoq
  have hnew : ∀ x ∈ newEntries e orig,
      x.qubits.Pairwise (· < ·) ∧
      (∀ lp, x.partition = some lp → lp.Pairwise (· < ·) ∧ ∀ a ∈ lp, a < x.qubits.length) ∧
      (x.rank = 0 → x.qubits.length ≠ 1) := by
    intro x hx
    unfold newEntries at hx
    split at hx
    · simp only [List.mem_cons, List.not_mem_nil, or_false] at hx
      rcases hx with rfl | rfl
      · refine ⟨by rw [hpart]; exact hp, by simp, ?_⟩
        simp only
        intro h; split at h <;> simp_all
      · refine ⟨pairwise_sortU _, by simp, ?_⟩
        simp only
        intro h; split at h <;> simp_all
    · rename_i hr
      simp only [List.mem_singleton] at hx
      subst hx
      refine ⟨hs, ?_, ?_⟩
      · intro lp hlp'
        simp only [Option.some.injEq] at hlp'
        subst hlp'
        rw [hlp, hoq]
        have := localPartition_spec reg part (hoq ▸ hs) hp hsub
        exact ⟨this.2.1, this.2.2.1⟩
      · simp only
        intro _
        rw [hoq]
        exact hlen
  constructor
  · intro x hx
    rw [hent] at hx
    rcases List.mem_append.mp hx with hx | hx
    · exact hok.sorted x (List.mem_of_mem_eraseIdx hx)
    · exact (hnew x hx).1
  · rw [hent, List.flatMap_append]
    have h1 := flatMap_eraseIdx_perm parent.entries idx orig horig
    have h2 : ((newEntries e orig).flatMap (·.qubits)).Perm orig.qubits := by
      unfold newEntries
      split
      · simp only [List.flatMap_cons, List.flatMap_nil, List.append_nil]
        rw [hpart, hoq]
        exact split_perm reg part (hoq ▸ hs) hp hsub
      · simp
    exact ((List.Perm.append_left _ h2).trans List.perm_append_comm).trans (h1.symm.trans hok.cover)
  · intro x hx
    rw [hent] at hx
    rcases List.mem_append.mp hx with hx | hx
    · exact hok.parts x (List.mem_of_mem_eraseIdx hx)
    · exact (hnew x hx).2.1
  · intro x hx
    rw [hent] at hx
    rcases List.mem_append.mp hx with hx | hx
    · exact hok.rank0 x (List.mem_of_mem_eraseIdx hx)
    · exact (hnew x hx).2.2

theorem rootNode_regOK (L : LossOps α) (n vec : Nat) (hn : n ≠ 1) : RegOK n (rootNode L n vec).entries := by
  constructor
  · intro e he
    simp only [rootNode, List.mem_singleton] at he
    subst he
    exact List.pairwise_lt_range
  · simp [rootNode]
  · intro e he lp hlp
    simp only [rootNode, List.mem_singleton] at he
    subst he
    simp at hlp
  · intro e he _
    simp only [rootNode, List.mem_singleton] at he
    subst he
    simpa using hn

theorem childOf_regOK (L : LossOps α) (O : Oracle α) (P : Params α) (n : Nat) (nd c : Node α)
    (hok : RegOK n nd.entries) (h : ChildOf L O P nd c) : RegOK n c.entries := by
  obtain ⟨ent, part, e, k0, hent, hr0, hpart, he, _, hcn, _⟩ := h
  have hs := hok.sorted ent hent
  have hc := candidates_ok L O P.strategy ent _ hs part hpart
  have hf := reduceEntanglement_fields O _ _ _ _ e he
  exact createNode_regOK L O n nd c e ent.qubits part hcn hok hf.1 hf.2.1 hf.2.2 hc.1 hc.2
    (hok.rank0 ent hent hr0)

theorem reach_regOK (L : LossOps α) (O : Oracle α) (P : Params α) (n vec k0 : Nat) (hn : n ≠ 1)
    (path : List (Node α)) (nd : Node α) (k : Nat)
    (h : Reach L O P (rootNode L n vec) k0 path nd k) : RegOK n nd.entries :=
  Reach.induct (fun _ nd => RegOK n nd.entries) (rootNode_regOK L n vec hn)
    (fun _ nd c hi hc => childOf_regOK L O P n nd c hi hc) h

end Qclib.Baa
