import QclibModel.Proofs.SparseCvoTotalRccx
import QclibModel.Proofs.SparseOrder
/-
  C06 — CVO-QRAM, whole circuit, part 1: the invariant over processed patterns, in any commutative
  ring.

  `cvoForm ψ₀ L g q` is the state
      Σ_{(p,x) ∈ L} x·|p⟩|flag 0⟩|anc 0⟩  +  g·|q⟩|flag 1⟩|anc 0⟩      (times ψ₀ of the cleared label)
  `L` = patterns loaded so far with their amplitudes, `g` = amplitude still on the flag branch,
  `q` = content of the memory register on the flag branch (all zeros between two patterns, the
  current pattern between the two flip-flops).
  * `cvo_init`      : `x(flag)` on a state supported on "all circuit wires 0" gives `cvoForm [] 1 0…0`;
  * `cvo_ff`, `cvo_ff_back` : the flip-flop moves the flag branch `0…0 ↔ p`;
  * `cvo_load`      : a rotation on the flag controlled (on clean-ancilla labels) by the ones of `p`
                      appends `(p, M₀₁·g)` to `L` and leaves `M₁₁·g` on the flag branch, provided
                      the controls do not fire on any earlier pattern (`C06_cvo_order`).
-/
namespace Qclib.Sparse
open Qclib RotSem

/-! ### wires -/

/-- number of circuit wires: flag, (`n − 1` ancillas,) `n` memory qubits -/
def cvoWidth (n : Nat) (aux : Bool) : Nat := if aux then 2 * n else n + 1

/-- the label with every circuit wire set to `0` -/
def cvoClr (n : Nat) (aux : Bool) (b : Bits) : Bits :=
  fun w => if w < cvoWidth n aux then false else b w

/-- all ancillas are `0` (vacuous without the auxiliary register) -/
def cvoAncClr (n : Nat) (aux : Bool) (b : Bits) : Bool :=
  if aux then (List.range (n - 1)).all (fun j => !b (ancW j)) else true

/-- Boolean form of `carries`: the memory register of `b` holds pattern `p` -/
def carriesB (n : Nat) (aux : Bool) (p : Str) (b : Bits) : Bool :=
  (List.range n).all (fun k => b (memW n aux k) == bitAt p (n - 1 - k))

theorem carriesB_iff (n : Nat) (aux : Bool) (p : Str) (b : Bits) :
    carriesB n aux p b = true ↔ carries n aux p b := by
  unfold carriesB carries
  rw [List.all_eq_true]
  constructor
  · intro h k hk; simpa using h k (List.mem_range.mpr hk)
  · intro h k hk; simpa using h k (List.mem_range.mp hk)

theorem all_range_congr' (n : Nat) (f g : Nat → Bool) (h : ∀ j, j < n → f j = g j) :
    (List.range n).all f = (List.range n).all g := by
  rw [Bool.eq_iff_iff, List.all_eq_true, List.all_eq_true]
  constructor
  · intro hf j hj
    rw [← h j (List.mem_range.mp hj)]; exact hf j hj
  · intro hg j hj
    rw [h j (List.mem_range.mp hj)]; exact hg j hj

theorem memW_ne_zero (n : Nat) (aux : Bool) (k : Nat) (hn : 1 ≤ n) : memW n aux k ≠ 0 := by
  unfold memW; cases aux <;> (simp; try omega)

theorem memW_inj (n : Nat) (aux : Bool) (k k' : Nat) (h : memW n aux k = memW n aux k') :
    k = k' := by
  unfold memW at h; cases aux <;> simp at h <;> omega

theorem memW_ne_anc (n : Nat) (k j : Nat) (hj : j < n - 1) : memW n true k ≠ ancW j := by
  unfold memW ancW; simp; omega

theorem memW_lt_width (n : Nat) (aux : Bool) (k : Nat) (hk : k < n) :
    memW n aux k < cvoWidth n aux := by
  unfold memW cvoWidth; cases aux <;> simp <;> omega

theorem ancW_ne_zero (j : Nat) : ancW j ≠ 0 := by unfold ancW; omega

/-- a circuit wire is the flag, an ancilla or a memory wire -/
theorem width_cases (n : Nat) (aux : Bool) (w : Nat) (hw : w < cvoWidth n aux) :
    w = 0 ∨ (aux = true ∧ ∃ j, j < n - 1 ∧ w = ancW j) ∨ ∃ k, k < n ∧ w = memW n aux k := by
  unfold cvoWidth at hw
  cases aux
  · simp at hw
    by_cases h0 : w = 0
    · exact Or.inl h0
    · exact Or.inr (Or.inr ⟨w - 1, by omega, by unfold memW; simp; omega⟩)
  · simp at hw
    by_cases h0 : w = 0
    · exact Or.inl h0
    · by_cases h1 : w < n
      · exact Or.inr (Or.inl ⟨rfl, w - 1, by omega, by unfold ancW; omega⟩)
      · exact Or.inr (Or.inr ⟨w - n, by omega, by unfold memW; simp; omega⟩)

/-! ### invariance of the observables under changes of the flag -/

theorem cvoAncClr_setFlag (n : Nat) (aux : Bool) (b : Bits) (v : Bool) :
    cvoAncClr n aux (setBit b 0 v) = cvoAncClr n aux b := by
  unfold cvoAncClr
  cases aux
  · rfl
  · simp only [if_true]
    apply all_range_congr'
    intro j _
    rw [setBit_ne _ _ (ancW_ne_zero j)]

theorem carriesB_setFlag (n : Nat) (hn : 1 ≤ n) (aux : Bool) (p : Str) (b : Bits) (v : Bool) :
    carriesB n aux p (setBit b 0 v) = carriesB n aux p b := by
  unfold carriesB
  apply all_range_congr'
  intro k _
  rw [setBit_ne _ _ (memW_ne_zero n aux k hn)]

theorem cvoWidth_pos (n : Nat) (hn : 1 ≤ n) (aux : Bool) : 0 < cvoWidth n aux := by
  unfold cvoWidth; cases aux <;> (simp; try omega)

theorem cvoClr_setFlag (n : Nat) (hn : 1 ≤ n) (aux : Bool) (b : Bits) (v : Bool) :
    cvoClr n aux (setBit b 0 v) = cvoClr n aux b := by
  funext w
  unfold cvoClr
  by_cases hw : w < cvoWidth n aux
  · rw [if_pos hw, if_pos hw]
  · rw [if_neg hw, if_neg hw, setBit_ne]
    have := cvoWidth_pos n hn aux
    omega

section
variable {R : Type} [CommRing R]

/-- amplitude loaded for the pattern carried by `b` (`0` if none is) -/
def loaded (n : Nat) (aux : Bool) : List (Str × R) → Bits → R
  | [], _ => 0
  | (p, x) :: rest, b => if carriesB n aux p b then x else loaded n aux rest b

theorem loaded_setFlag (n : Nat) (hn : 1 ≤ n) (aux : Bool) (L : List (Str × R)) (b : Bits)
    (v : Bool) : loaded n aux L (setBit b 0 v) = loaded n aux L b := by
  induction L with
  | nil => rfl
  | cons q L ih =>
    obtain ⟨p, x⟩ := q
    simp only [loaded, carriesB_setFlag n hn, ih]

theorem loaded_none (n : Nat) (aux : Bool) (L : List (Str × R)) (b : Bits)
    (h : ∀ q ∈ L, carriesB n aux q.1 b = false) : loaded n aux L b = 0 := by
  induction L with
  | nil => rfl
  | cons q L ih =>
    obtain ⟨p, x⟩ := q
    have h1 : carriesB n aux p b = false := h (p, x) (List.mem_cons_self ..)
    simp only [loaded, h1, Bool.false_eq_true, if_false]
    exact ih (fun q hq => h q (List.mem_cons_of_mem _ hq))

theorem loaded_append_none (n : Nat) (aux : Bool) (L L' : List (Str × R)) (b : Bits)
    (h : ∀ q ∈ L, carriesB n aux q.1 b = false) :
    loaded n aux (L ++ L') b = loaded n aux L' b := by
  induction L with
  | nil => rfl
  | cons q L ih =>
    obtain ⟨p, x⟩ := q
    have h1 : carriesB n aux p b = false := h (p, x) (List.mem_cons_self ..)
    simp only [List.cons_append, loaded, h1, Bool.false_eq_true, if_false]
    exact ih (fun q hq => h q (List.mem_cons_of_mem _ hq))

theorem loaded_append_skip (n : Nat) (aux : Bool) (L : List (Str × R)) (p : Str) (x : R)
    (b : Bits) (h : carriesB n aux p b = false) :
    loaded n aux (L ++ [(p, x)]) b = loaded n aux L b := by
  induction L with
  | nil => simp [loaded, h]
  | cons q L ih =>
    obtain ⟨p', x'⟩ := q
    simp only [List.cons_append, loaded, ih]

/-- the invariant state (see the header) -/
def cvoForm (n : Nat) (aux : Bool) (ψ0 : State R) (L : List (Str × R)) (g : R) (q : Str) :
    State R := fun b =>
  if cvoAncClr n aux b then
    if b 0 then (if carriesB n aux q b then g * ψ0 (cvoClr n aux b) else 0)
    else loaded n aux L b * ψ0 (cvoClr n aux b)
  else 0

/-- the final state: every loaded pattern with flag and ancillas `0`, nothing else -/
def cvoDone (n : Nat) (aux : Bool) (ψ0 : State R) (L : List (Str × R)) : State R := fun b =>
  if cvoAncClr n aux b && !b 0 then loaded n aux L b * ψ0 (cvoClr n aux b) else 0

theorem cvoForm_zero (n : Nat) (aux : Bool) (ψ0 : State R) (L : List (Str × R)) (q : Str) :
    cvoForm n aux ψ0 L 0 q = cvoDone n aux ψ0 L := by
  funext b
  unfold cvoForm cvoDone
  cases cvoAncClr n aux b <;> cases b 0 <;> simp

/-! ### flip-flop -/

/-- flip the memory wires listed in `K` -/
def flipMems (n : Nat) (aux : Bool) (K : List Nat) (b : Bits) : Bits :=
  K.foldr (fun k acc => flipBit acc (memW n aux k)) b

theorem flipMems_other (n : Nat) (aux : Bool) (K : List Nat) (b : Bits) (w : Nat)
    (h : ∀ k ∈ K, w ≠ memW n aux k) : flipMems n aux K b w = b w := by
  induction K with
  | nil => rfl
  | cons k K ih =>
    show flipBit (flipMems n aux K b) (memW n aux k) w = b w
    rw [flipBit_ne _ (h k (List.mem_cons_self ..))]
    exact ih (fun i hi => h i (List.mem_cons_of_mem _ hi))

theorem flipMems_mem (n : Nat) (aux : Bool) (K : List Nat) (hnd : K.Nodup) (b : Bits) (k0 : Nat) :
    flipMems n aux K b (memW n aux k0) = (b (memW n aux k0) != decide (k0 ∈ K)) := by
  induction K with
  | nil => simp [flipMems]
  | cons k K ih =>
    have hnd' := List.nodup_cons.mp hnd
    show flipBit (flipMems n aux K b) (memW n aux k) (memW n aux k0) = _
    by_cases hk : k0 = k
    · subst hk
      rw [flipBit_eq, ih hnd'.2]
      have : k0 ∉ K := hnd'.1
      simp [this]
    · have hne : memW n aux k0 ≠ memW n aux k := fun e => hk (memW_inj n aux _ _ e)
      rw [flipBit_ne _ hne, ih hnd'.2]
      simp [hk]

theorem selectControls_nodup (p : Str) : (selectControls p).Nodup := by
  unfold selectControls
  exact List.Nodup.sublist List.filter_sublist List.nodup_range

/-- on memory wire `k` the flip-flop of pattern `p` XORs character `n−1−k` of `p` -/
theorem flipMems_sel (n : Nat) (aux : Bool) (p : Str) (hl : p.length = n) (b : Bits) (k : Nat)
    (hk : k < n) :
    flipMems n aux (selectControls p) b (memW n aux k)
      = (b (memW n aux k) != bitAt p (n - 1 - k)) := by
  rw [flipMems_mem n aux _ (selectControls_nodup p)]
  congr 1
  rw [Bool.eq_iff_iff, decide_eq_true_iff, mem_selectControls, hl]
  exact ⟨fun h => h.2, fun h => ⟨hk, h⟩⟩

theorem flipMems_flag (n : Nat) (hn : 1 ≤ n) (aux : Bool) (K : List Nat) (b : Bits) :
    flipMems n aux K b 0 = b 0 :=
  flipMems_other n aux K b 0 (fun k _ => (memW_ne_zero n aux k hn).symm)

theorem cvoAncClr_flipMems (n : Nat) (aux : Bool) (K : List Nat) (b : Bits) :
    cvoAncClr n aux (flipMems n aux K b) = cvoAncClr n aux b := by
  unfold cvoAncClr
  cases aux
  · rfl
  · simp only [if_true]
    apply all_range_congr'
    intro j hj
    rw [flipMems_other n true K b (ancW j) (fun k _ => (memW_ne_anc n k j hj).symm)]

theorem cvoClr_flipMems (n : Nat) (aux : Bool) (K : List Nat) (hK : ∀ k ∈ K, k < n) (b : Bits) :
    cvoClr n aux (flipMems n aux K b) = cvoClr n aux b := by
  funext w
  unfold cvoClr
  by_cases hw : w < cvoWidth n aux
  · rw [if_pos hw, if_pos hw]
  · rw [if_neg hw, if_neg hw]
    apply flipMems_other
    intro k hk e
    have := memW_lt_width n aux k (hK k hk)
    omega

theorem selectControls_lt (p : Str) (hl : p.length = n) : ∀ k ∈ selectControls p, k < n := by
  intro k hk
  rw [mem_selectControls, hl] at hk
  exact hk.1

/-- the all-zero pattern -/
def zeroStr (n : Nat) : Str := List.replicate n false

theorem bitAt_zeroStr (n i : Nat) : bitAt (zeroStr n) i = false := by
  unfold bitAt zeroStr
  rw [List.getD_eq_getElem?_getD]
  by_cases h : i < n
  · simp [h]
  · simp [h]

theorem carriesB_zero_flip (n : Nat) (aux : Bool) (p : Str) (hl : p.length = n) (b : Bits) :
    carriesB n aux (zeroStr n) (flipMems n aux (selectControls p) b) = carriesB n aux p b := by
  unfold carriesB
  apply all_range_congr'
  intro k hk
  rw [flipMems_sel n aux p hl b k hk, bitAt_zeroStr]
  cases b (memW n aux k) <;> cases bitAt p (n - 1 - k) <;> rfl

theorem carriesB_flip_zero (n : Nat) (aux : Bool) (p : Str) (hl : p.length = n) (b : Bits) :
    carriesB n aux p (flipMems n aux (selectControls p) b) = carriesB n aux (zeroStr n) b := by
  unfold carriesB
  apply all_range_congr'
  intro k hk
  rw [flipMems_sel n aux p hl b k hk, bitAt_zeroStr]
  cases b (memW n aux k) <;> cases bitAt p (n - 1 - k) <;> rfl

variable {Θ : Type} [RotSem Θ R]

theorem denoteSG_cx (iu : R) (dn : List Nat → List (Amp Θ) → State R → State R) (c t : Nat)
    (ψ : State R) (b : Bits) :
    denoteSG iu dn (SG.cx c t true) ψ b = if b c then ψ (flipBit b t) else ψ b :=
  denote_cx (Θ := Θ) c t ψ b

theorem denoteSG_x (iu : R) (dn : List Nat → List (Amp Θ) → State R → State R) (q : Nat)
    (ψ : State R) (b : Bits) :
    denoteSG iu dn (SG.x q) ψ b = ψ (flipBit b q) :=
  denote_x (Θ := Θ) q ψ b

/-- `_flip_flop`: on the flag branch the listed memory wires are flipped -/
theorem semSG_flipFlop (iu : R) (dn : List Nat → List (Amp Θ) → State R → State R) (n : Nat)
    (hn : 1 ≤ n) (aux : Bool) (K : List Nat) (ψ : State R) (b : Bits) :
    semSG iu dn (flipFlop (α := Θ) n aux K) ψ b
      = if b 0 then ψ (flipMems n aux K b) else ψ b := by
  induction K generalizing ψ with
  | nil => simp [flipFlop, semSG_nil, flipMems]
  | cons k K ih =>
    have e : flipFlop (α := Θ) n aux (k :: K) = SG.cx 0 (memW n aux k) true :: flipFlop n aux K := rfl
    rw [e, semSG_cons, ih]
    by_cases hb : b 0 = true
    · rw [if_pos hb, if_pos hb, denoteSG_cx, flipMems_flag n hn, if_pos hb]
      rfl
    · rw [if_neg hb, if_neg hb, denoteSG_cx, if_neg hb]

/-- flip-flop before the rotation: the flag branch `0…0` becomes `p` -/
theorem cvo_ff (iu : R) (dn : List Nat → List (Amp Θ) → State R → State R) (n : Nat)
    (hn : 1 ≤ n) (aux : Bool) (p : Str) (hl : p.length = n) (ψ0 : State R) (L : List (Str × R))
    (g : R) :
    semSG iu dn (flipFlop (α := Θ) n aux (selectControls p)) (cvoForm n aux ψ0 L g (zeroStr n))
      = cvoForm n aux ψ0 L g p := by
  funext b
  rw [semSG_flipFlop iu dn n hn]
  by_cases hb : b 0 = true
  · rw [if_pos hb]
    unfold cvoForm
    rw [cvoAncClr_flipMems, flipMems_flag n hn, carriesB_zero_flip n aux p hl,
      cvoClr_flipMems n aux _ (selectControls_lt p hl)]
    simp only [hb, if_true]
  · rw [if_neg hb]
    have hb' : b 0 = false := by simpa using hb
    unfold cvoForm
    simp only [hb', Bool.false_eq_true, if_false]

/-- flip-flop after the rotation: the flag branch `p` returns to `0…0` -/
theorem cvo_ff_back (iu : R) (dn : List Nat → List (Amp Θ) → State R → State R) (n : Nat)
    (hn : 1 ≤ n) (aux : Bool) (p : Str) (hl : p.length = n) (ψ0 : State R) (L : List (Str × R))
    (g : R) :
    semSG iu dn (flipFlop (α := Θ) n aux (selectControls p)) (cvoForm n aux ψ0 L g p)
      = cvoForm n aux ψ0 L g (zeroStr n) := by
  funext b
  rw [semSG_flipFlop iu dn n hn]
  by_cases hb : b 0 = true
  · rw [if_pos hb]
    unfold cvoForm
    rw [cvoAncClr_flipMems, flipMems_flag n hn, carriesB_flip_zero n aux p hl,
      cvoClr_flipMems n aux _ (selectControls_lt p hl)]
    simp only [hb, if_true]
  · rw [if_neg hb]
    have hb' : b 0 = false := by simpa using hb
    unfold cvoForm
    simp only [hb', Bool.false_eq_true, if_false]

/-! ### the controlled rotation -/

/-- **load step.**  `c` is the firing condition of the (possibly laddered) multi-controlled gate;
on clean-ancilla labels it is "all ones of `p` are set".  If it does not fire on any earlier
pattern, the rotation `m` on the flag appends `(p, m₀₁·g)` and leaves `m₁₁·g` on the flag. -/
theorem cvo_load (n : Nat) (hn : 1 ≤ n) (aux : Bool) (p : Str) (hl : p.length = n)
    (ψ0 : State R) (L : List (Str × R)) (g : R) (m : Mat2 R) (c : Bits → Bool)
    (hc : ∀ b, cvoAncClr n aux b = true → c b = ctrlOk (cvoCtrl n aux p) b)
    (hord : ∀ q ∈ L, ∀ b, carries n aux q.1 b → ctrlOk (cvoCtrl n aux p) b = false) :
    applyIf c m 0 (cvoForm n aux ψ0 L g p)
      = cvoForm n aux ψ0 (L ++ [(p, m.b * g)]) (m.d * g) p := by
  funext b
  unfold applyIf
  by_cases ha : cvoAncClr n aux b = true
  · rw [hc b ha]
    have hF : ∀ v, cvoForm n aux ψ0 L g p (setBit b 0 v)
        = if v then (if carriesB n aux p b then g * ψ0 (cvoClr n aux b) else 0)
          else loaded n aux L b * ψ0 (cvoClr n aux b) := by
      intro v
      unfold cvoForm
      rw [cvoAncClr_setFlag, ha, if_pos rfl, setBit_eq, carriesB_setFlag n hn,
        loaded_setFlag n hn, cvoClr_setFlag n hn]
    by_cases hk : ctrlOk (cvoCtrl n aux p) b = true
    · rw [if_pos hk, hF false, hF true]
      have hno : ∀ q ∈ L, carriesB n aux q.1 b = false := by
        intro q hq
        cases hcq : carriesB n aux q.1 b
        · rfl
        · have := hord q hq b ((carriesB_iff n aux q.1 b).mp hcq)
          rw [hk] at this; exact absurd this (by simp)
      have hL0 : loaded n aux L b = 0 := loaded_none n aux L b hno
      have hL1 : loaded n aux (L ++ [(p, m.b * g)]) b
          = if carriesB n aux p b then m.b * g else 0 := by
        rw [loaded_append_none n aux L _ b hno]; rfl
      unfold cvoForm
      rw [ha, if_pos rfl, hL0, hL1]
      cases b 0 <;> cases carriesB n aux p b <;> simp <;> ring
    · rw [if_neg hk]
      have hnp : carriesB n aux p b = false := by
        cases hcq : carriesB n aux p b
        · rfl
        · exact absurd (cvo_fires_own n aux p hl b ((carriesB_iff n aux p b).mp hcq)) hk
      unfold cvoForm
      rw [ha, if_pos rfl, if_pos rfl, hnp, loaded_append_skip n aux L p _ b hnp]
      simp
  · have hz : ∀ v, cvoForm n aux ψ0 L g p (setBit b 0 v) = 0 := by
      intro v
      unfold cvoForm
      rw [cvoAncClr_setFlag, if_neg ha]
    have hz0 : cvoForm n aux ψ0 L g p b = 0 := by
      unfold cvoForm; rw [if_neg ha]
    have hz1 : cvoForm n aux ψ0 (L ++ [(p, m.b * g)]) (m.d * g) p b = 0 := by
      unfold cvoForm; rw [if_neg ha]
    rw [hz false, hz true, hz0, hz1]
    simp

/-! ### the initial `x(flag)` -/

/-- `x(flag)` on a state supported on "every circuit wire is 0" -/
theorem cvo_init (iu : R) (dn : List Nat → List (Amp Θ) → State R → State R) (n : Nat)
    (hn : 1 ≤ n) (aux : Bool) (ψ0 : State R)
    (hψ0 : ∀ b w, w < cvoWidth n aux → b w = true → ψ0 b = 0) :
    denoteSG iu dn (SG.x 0) ψ0 = cvoForm n aux ψ0 [] 1 (zeroStr n) := by
  funext b
  rw [denoteSG_x]
  unfold cvoForm
  by_cases ha : cvoAncClr n aux b = true
  · rw [if_pos ha]
    by_cases hb : b 0 = true
    · rw [if_pos hb]
      by_cases hc : carriesB n aux (zeroStr n) b = true
      · rw [if_pos hc, one_mul]
        congr 1
        funext w
        unfold cvoClr
        by_cases hw : w < cvoWidth n aux
        · rw [if_pos hw]
          rcases width_cases n aux w hw with h0 | ⟨hx, j, hj, rfl⟩ | ⟨k, hk, rfl⟩
          · subst h0; rw [flipBit_eq, hb]; rfl
          · subst hx
            rw [flipBit_ne _ (ancW_ne_zero j)]
            unfold cvoAncClr at ha
            simp only [if_true, List.all_eq_true, List.mem_range] at ha
            simpa using ha j hj
          · rw [flipBit_ne _ (memW_ne_zero n aux k hn)]
            have := (carriesB_iff n aux _ b).mp hc k hk
            rw [this, bitAt_zeroStr]
        · rw [if_neg hw, flipBit_ne]
          have := cvoWidth_pos n hn aux
          omega
      · rw [if_neg hc]
        have : ¬ carries n aux (zeroStr n) b := fun h => hc ((carriesB_iff n aux _ b).mpr h)
        unfold carries at this
        simp only [not_forall] at this
        obtain ⟨k, hk, hne⟩ := this
        rw [bitAt_zeroStr] at hne
        apply hψ0 _ (memW n aux k) (memW_lt_width n aux k hk)
        rw [flipBit_ne _ (memW_ne_zero n aux k hn)]
        simpa using hne
    · rw [if_neg hb]
      simp only [loaded, zero_mul]
      apply hψ0 _ 0 (cvoWidth_pos n hn aux)
      rw [flipBit_eq]; simpa using hb
  · rw [if_neg ha]
    unfold cvoAncClr at ha
    cases aux
    · simp at ha
    · simp only [if_true, List.all_eq_true, List.mem_range, not_forall] at ha
      obtain ⟨j, hj, hne⟩ := ha
      apply hψ0 _ (ancW j)
      · unfold cvoWidth ancW; simp; omega
      · rw [flipBit_ne _ (ancW_ne_zero j)]
        simpa using hne

end
end Qclib.Sparse
