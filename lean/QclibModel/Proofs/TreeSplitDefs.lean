import QclibModel.Proofs.TreeMarg
/-
  C11 (BdspInitialize): definitions for trees split at level `sl`: nodes at levels `< sl` are
  processed by `bottom_up` (own qubit each), every sub-tree rooted at level `sl` is prepared by
  `top_down` on the qubits of its left spine ("chain block").
-/
namespace Qclib
open RotSem

section
variable {Θ : Type}

/-- Wires of a split tree: node wires above the split, left-spine (chain) wires of the blocks. -/
def wiresS (sl : Nat) : Nat → BT (QV Θ) → List Nat
  | _, .nil => []
  | lvl, .node v l r =>
    if lvl < sl then wire v.q :: (wiresS sl (lvl+1) l ++ wiresS sl (lvl+1) r)
    else leftSpine (.node v l r)

/-- Ancilla wires of a split tree: everything not on the left spine of the root. -/
def ancS (sl : Nat) : Nat → BT (QV Θ) → List Nat
  | _, .nil => []
  | lvl, .node _ l r =>
    if lvl < sl then ancS sl (lvl+1) l ++ wiresS sl (lvl+1) r else []

/-- Chain wires of all blocks. -/
def blockWires (sl : Nat) : Nat → BT (QV Θ) → List Nat
  | _, .nil => []
  | lvl, .node v l r =>
    if lvl < sl then blockWires sl (lvl+1) l ++ blockWires sl (lvl+1) r
    else leftSpine (.node v l r)

end

section
variable {Θ K : Type} [CommRing K]

/-- Squared modulus of the prepared amplitude of a split tree: above the split as `treeProb`, a
block contributes the path product `spW` read on its chain wires. -/
def treeProbS (o : TOps Θ) (c2 s2 : Θ → K) (sl : Nat) : Nat → BT (QV Θ) → Bits → K
  | _, .nil, _ => 1
  | lvl, .node v l r, b =>
    if lvl < sl then
      nodeProb c2 s2 v b * (treeProbS o c2 s2 sl (lvl+1) l (cswapPerm o (.node v l r) b)
        * treeProbS o c2 s2 sl (lvl+1) r (cswapPerm o (.node v l r) b))
    else spW c2 s2 (leftSpine (.node v l r)) (.node v l r) b

def spineProbS (o : TOps Θ) (c2 s2 : Θ → K) (sl : Nat) : Nat → BT (QV Θ) → Bits → K
  | _, .nil, _ => 1
  | lvl, .node v l r, b =>
    if lvl < sl then
      (if b (wire v.q) then s2 v.y * spineProbS o c2 s2 sl (lvl+1) r (cswapPerm o (.node v l r) b)
       else c2 v.y * spineProbS o c2 s2 sl (lvl+1) l b)
    else spW c2 s2 (leftSpine (.node v l r)) (.node v l r) b

end

section
variable {Θ R : Type} [Mul R] [One R] [RotSem Θ R]

/-- `nodeAmp` reading an explicit wire. -/
def nodeAmpW (w : Nat) (v : QV Θ) (b : Bits) : R :=
  if b w then sn v.y * ex v.z else cs v.y * exb v.z

/-- Amplitude prepared by the top-down cascade on the chain wires `ws` (first wire = block root =
most significant bit): the factor of the node reached by following the chain bits. -/
def chainAmp : List Nat → BT (QV Θ) → Bits → R
  | w :: ws, .node v l r, b =>
    nodeAmpW w v b * (if b w then chainAmp ws r b else chainAmp ws l b)
  | _, _, _ => 1

/-- Product of the block amplitudes (state after `top_down`). -/
def blockAmp (sl : Nat) : Nat → BT (QV Θ) → Bits → R
  | _, .nil, _ => 1
  | lvl, .node v l r, b =>
    if lvl < sl then blockAmp sl (lvl+1) l b * blockAmp sl (lvl+1) r b
    else chainAmp (leftSpine (.node v l r)) (.node v l r) b

/-- Amplitude of the state prepared by `top_down; bottom_up` on a split tree. -/
def treeAmpS (o : TOps Θ) (sl : Nat) : Nat → BT (QV Θ) → Bits → R
  | _, .nil, _ => 1
  | lvl, .node v l r, b =>
    if lvl < sl then
      nodeAmp v b * (treeAmpS o sl (lvl+1) l (cswapPerm o (.node v l r) b)
        * treeAmpS o sl (lvl+1) r (cswapPerm o (.node v l r) b))
    else chainAmp (leftSpine (.node v l r)) (.node v l r) b

end
end Qclib
