import QclibModel.Proofs.TopDownLevel
import QclibModel.Proofs.TreeTopDown
import QclibModel.Proofs.TreeSem
import QclibModel.Proofs.TreeDcsp
/-
  C01: the whole top-down cascade.  Induction over the levels: after `m` levels the amplitude at
  label `b` is the partial path amplitude of the index read on the top `m` wires, times the input
  amplitude with those wires cleared (the input vanishes unless all `n` wires are `|0⟩`).
-/
namespace Qclib.Dense
open RotSem

/-! ### Indices read on a block of wires -/

/-- The number read on the wires `lo … lo+d-1` (wire `lo+i` = bit `i`). -/
def hiIdx (lo : Nat) : Nat → Bits → Nat
  | 0, _ => 0
  | d+1, b => hiIdx lo d b + (if b (lo + d) then 2^d else 0)

theorem topIdx_eq_hiIdx (s d : Nat) (b : Bits) : topIdx s d b = hiIdx (s+1) d b := by
  induction d with
  | zero => rfl
  | succ d ih =>
    simp only [topIdx, ctrlIdx, hiIdx] at ih ⊢
    rw [ih]
    simp only [show d + 1 + s = s + 1 + d by omega]

theorem hiIdx_low (lo : Nat) : ∀ (d : Nat) (b : Bits),
    hiIdx lo (d+1) b = (if b lo then 1 else 0) + 2 * hiIdx (lo+1) d b
  | 0, b => by simp [hiIdx]
  | d+1, b => by
    have ih := hiIdx_low lo d b
    show hiIdx lo (d+1) b + (if b (lo + (d+1)) then 2^(d+1) else 0) = _
    rw [ih]
    simp only [hiIdx, show lo + 1 + d = lo + (d + 1) by omega, Nat.pow_succ]
    by_cases h : b (lo + (d + 1)) = true <;> simp only [h, if_true, if_false, Bool.false_eq_true] <;> omega

theorem hiIdx_lt (lo : Nat) : ∀ (d : Nat) (b : Bits), hiIdx lo d b < 2^d
  | 0, _ => by simp [hiIdx]
  | d+1, b => by
    have := hiIdx_lt lo d b
    simp only [hiIdx, Nat.pow_succ]
    split <;> omega

theorem hiIdx_setBit (lo d : Nat) (b : Bits) (t : Nat) (v : Bool) (ht : t < lo) :
    hiIdx lo d (setBit b t v) = hiIdx lo d b := by
  induction d with
  | zero => rfl
  | succ d ih =>
    simp only [hiIdx, ih]
    rw [setBit_ne b v (by omega : lo + d ≠ t)]

theorem hiIdx_zero_eq_bitsVal : ∀ (n : Nat) (b : Bits), hiIdx 0 n b = bitsVal n b
  | 0, _ => rfl
  | n+1, b => by simp only [hiIdx, bitsVal, hiIdx_zero_eq_bitsVal n b, Nat.zero_add]

/-! ### Tree lemmas: the `j`-th node of a level, path amplitude with one more level -/

section tree
variable {α : Type}

theorem levelNodes_get (m : Nat) : ∀ (H : Nat) (t : BT α) (j : Nat), complete (H + m + 1) t →
    j < 2^m → (levelNodes m [t])[j]? = some (BT.descend m j t) := by
  induction m with
  | zero =>
    intro H t j _ hj
    have : j = 0 := by simpa using hj
    subst this
    rfl
  | succ m ih =>
    intro H t j hc hj
    have hc' : complete ((H + m) + 2) t := by
      rwa [show H + m + 2 = H + (m + 1) + 1 by omega]
    obtain ⟨v, l, r, rfl, hl, hr⟩ := (complete_succ_iff (H + m + 1) _).1 hc'
    have hch := children_cons_complete (H + m) (.node v l r) [] hc'
    have hch' : children [BT.node v l r] = [l] ++ [r] := by
      simpa [children, BT.left, BT.right] using hch
    simp only [levelNodes, hch', levelNodes_append]
    have hlen : (levelNodes m [l]).length = 2^m := by
      have := (levelNodes_complete m H l [] (by
        intro x hx; rw [List.mem_singleton.1 hx]; exact hl)).2.1
      simpa using this
    simp only [BT.descend, BT.left, BT.right]
    by_cases hlt : j < 2^m
    · rw [if_pos hlt, List.getElem?_append_left (by rw [hlen]; exact hlt)]
      exact ih H l j hl hlt
    · rw [if_neg hlt, List.getElem?_append_right (by rw [hlen]; omega), hlen]
      have : j - 2^m < 2^m := by rw [Nat.pow_succ] at hj; omega
      exact ih H r (j - 2^m) hr this

theorem descend_map {β : Type} (f : α → β) : ∀ (m j : Nat) (t : BT α),
    BT.descend m j (t.map f) = (BT.descend m j t).map f
  | 0, _, _ => rfl
  | m+1, j, t => by
    simp only [BT.descend]
    cases t with
    | nil => split <;> simp only [BT.map, BT.left, BT.right] <;> exact descend_map f m _ .nil
    | node v l r =>
      simp only [BT.map, BT.left, BT.right]
      split
      · exact descend_map f m j l
      · exact descend_map f m _ r

end tree

section path
variable {Θ R : Type} [CommRing R] [RotSem Θ R]

theorem pathAmp_snoc (d0 : AV Θ) (m : Nat) : ∀ (H : Nat) (T : BT (AV Θ)) (j : Nat) (c : Bool),
    complete (H + m + 1) T → j < 2^m →
    (pathAmp (m+1) T (2 * j + (if c then 1 else 0)) : R)
      = pathAmp m T j * stepAmp ((BT.descend m j T).valD d0) c := by
  induction m with
  | zero =>
    intro H T j c hc hj
    have : j = 0 := by simpa using hj
    subst this
    obtain ⟨v, l, r, rfl, -, -⟩ := (complete_succ_iff _ _).1 hc
    cases c <;> simp [pathAmp, BT.descend, BT.valD]
  | succ m ih =>
    intro H T j c hc hj
    have hc' : complete ((H + m + 1) + 1) T := by
      rwa [show H + m + 1 + 1 = H + (m + 1) + 1 by omega]
    obtain ⟨v, l, r, rfl, hl, hr⟩ := (complete_succ_iff _ _).1 hc'
    have hp : 2^(m+1) = 2 * 2^m := by rw [Nat.pow_succ]; omega
    have hcv : (if c then 1 else 0) ≤ 1 := by cases c <;> simp
    by_cases hlt : j < 2^m
    · have h1 : 2 * j + (if c then 1 else 0) < 2^(m+1) := by omega
      simp only [pathAmp, BT.descend, BT.left, BT.right, if_pos hlt, if_pos h1]
      rw [ih H l j c hl hlt, mul_assoc]
    · have h1 : ¬ 2 * j + (if c then 1 else 0) < 2^(m+1) := by omega
      have hj' : j - 2^m < 2^m := by omega
      simp only [pathAmp, BT.descend, BT.left, BT.right, if_neg hlt, if_neg h1]
      rw [show 2 * j + (if c then 1 else 0) - 2^(m+1) = 2 * (j - 2^m) + (if c then 1 else 0) by omega,
        ih H r (j - 2^m) c hr hj', mul_assoc]

end path

/-! ### Labels -/

theorem clr_cons_setBit (t : Nat) (ws : List Nat) (b : Bits) (ht : t ∉ ws) :
    clr ws (setBit b t false) = clr (t :: ws) b := by
  funext i
  simp only [clr, setBit, List.mem_cons]
  by_cases h1 : i = t
  · subst h1; simp [ht]
  · simp [h1]

/-! ### The cascade -/

section cascade
variable {Θ R : Type} [CommRing R] [RotSem Θ R]

/-- Abstract induction over the levels.  `L m` is the gate list of level `m`, denoting
`RZ(Z m j)·RY(Y m j)` on wire `n-1-m` with `j` read on the wires `n-m … n-1`; `A m j` the
amplitude after `m` levels. -/
theorem cascade_sem (n : Nat) (L : Nat → Circ Θ) (Y Z : Nat → Nat → Θ) (A : Nat → Nat → R)
    (hL : ∀ m, m < n → ∀ ψ : State R, sem (L m) ψ
      = applyFam (fun b => (rotMat .Z (Z m (hiIdx (n - m) m b))
          * rotMat .Y (Y m (hiIdx (n - m) m b)) : Mat2 R)) (n - 1 - m) ψ)
    (hA0 : ∀ j, A 0 j = 1)
    (hA : ∀ m, m < n → ∀ j, j < 2^m → ∀ c : Bool,
      A (m+1) (2 * j + (if c then 1 else 0))
        = A m j * (if c then sn (Y m j) * ex (Z m j) else cs (Y m j) * exb (Z m j)))
    (ψ : State R) (hψ : ZeroOn (List.range n) ψ) :
    ∀ m, m ≤ n → ∀ b, sem ((List.range m).flatMap L) ψ b
      = A m (hiIdx (n - m) m b) * ψ (clr (List.range' (n - m) m) b) := by
  intro m
  induction m with
  | zero =>
    intro _ b
    simp only [List.range_zero, List.flatMap_nil, sem_nil, hiIdx, hA0, one_mul, List.range'_zero,
      clr_nil]
  | succ m ih =>
    intro hm b
    have hlt : m < n := by omega
    rw [List.range_succ, List.flatMap_append, sem_append]
    simp only [List.flatMap_cons, List.flatMap_nil, List.append_nil]
    rw [hL m hlt]
    have hτ : n - 1 - m < n - m := by omega
    have ih' := ih (by omega)
    -- the |1⟩ branch of the target vanishes
    have hone : sem ((List.range m).flatMap L) ψ (setBit b (n - 1 - m) true) = 0 := by
      rw [ih', hψ _ ⟨n - 1 - m, by simp; omega, ?_⟩, mul_zero]
      rw [clr_not_mem _ _ (by simp [List.mem_range']; omega), setBit_eq]
    have hzero : sem ((List.range m).flatMap L) ψ (setBit b (n - 1 - m) false)
        = A m (hiIdx (n - m) m b) * ψ (clr (List.range' (n - (m+1)) (m+1)) b) := by
      rw [ih', hiIdx_setBit _ _ _ _ _ hτ, clr_cons_setBit _ _ _ (by simp [List.mem_range']; omega)]
      congr 2
      rw [show n - m = (n - (m+1)) + 1 by omega, show n - 1 - m = n - (m+1) by omega]
      rfl
    have hidx : hiIdx (n - (m+1)) (m+1) b
        = 2 * hiIdx (n - m) m b + (if b (n - 1 - m) then 1 else 0) := by
      rw [hiIdx_low, show n - (m+1) + 1 = n - m by omega, show n - (m+1) = n - 1 - m by omega]
      omega
    have hj := hiIdx_lt (n - m) m b
    simp only [applyFam, hone, hzero, mul_zero, add_zero]
    rw [hidx]
    cases hb : b (n - 1 - m)
    · have := hA m hlt _ hj false
      simp only [Bool.false_eq_true, if_false, Nat.add_zero] at this ⊢
      rw [this]
      simp only [rotMat, matRZ, matRY, Mat2.mul_a]
      ring
    · have := hA m hlt _ hj true
      simp only [if_true] at this ⊢
      rw [this]
      simp only [rotMat, matRZ, matRY, Mat2.mul_c]
      ring

end cascade
end Qclib.Dense
