import QclibModel.Proofs.SparseCvoTotal
/-
  C06 — CVO-QRAM, whole circuit, part 2: what `_load_superposition` emits denotes a rotation of the
  flag that fires, on labels with clean ancillas, exactly when all ones of the pattern are set
  (`loadGates_sem`).  Without auxiliaries (or with fewer than two controls) this is the ideal
  multi-controlled gate itself; with auxiliaries it is the `rccx` compute / `cu` / uncompute ladder
  of `_mcuvchain`, whose relative phases cancel (`ladder_conj`) and whose classical action puts the
  AND of the controls on the last ancilla (`downPerm_top`).
-/
namespace Qclib.Sparse
open Qclib RotSem

/-- the `(control, control, target)` wires of `ladderDown` -/
def downTriples (n : Nat) : List Nat → Nat → List (Nat × Nat × Nat)
  | [], _ => []
  | c :: cs, i => (ancW (i - 1), memW n true c, ancW (i - 2)) :: downTriples n cs (i - 1)

theorem ladderDown_eq {Θ : Type} (n : Nat) (cs : List Nat) (i : Nat) :
    ladderDown (α := Θ) n cs i = (ladderSG (downTriples n cs i), i - cs.length) := by
  induction cs generalizing i with
  | nil => rfl
  | cons c cs ih =>
    show (SG.rccx (ancW (i - 1)) (memW n true c) (ancW (i - 2)) :: (ladderDown n cs (i - 1)).1,
          (ladderDown n cs (i - 1)).2) = _
    rw [ih]
    refine Prod.ext rfl ?_
    show i - 1 - cs.length = i - (cs.length + 1)
    omega

theorem rccxPerm_ne (a b t' : Nat) (w : Bits) (x : Nat) (h : x ≠ t') :
    rccxPerm a b t' w x = w x := by
  unfold rccxPerm
  split
  · exact flipBit_ne _ h
  · rfl

theorem rccxPerm_tgt (a b t' : Nat) (w : Bits) (h : w t' = false) :
    rccxPerm a b t' w t' = (w a && w b) := by
  unfold rccxPerm
  cases hc : (w a && w b)
  · simp [h]
  · simp [flipBit_eq, h]

theorem downTriples_ok (n : Nat) (cs : List Nat) (i : Nat) (h1 : cs.length + 1 ≤ i)
    (h2 : i ≤ n - 1) : ∀ x ∈ downTriples n cs i, TripleOk 0 x := by
  induction cs generalizing i with
  | nil => intro x hx; cases hx
  | cons c cs ih =>
    intro x hx
    simp only [List.length_cons] at h1
    rcases List.mem_cons.mp hx with rfl | hx
    · unfold TripleOk ancW memW
      simp only [if_true]
      refine ⟨?_, ?_, ?_, ?_, ?_⟩ <;> omega
    · exact ih (i - 1) (by omega) (by omega) x hx

/-- classical action of the descending ladder on clean ancillas: the last target holds the AND of
the top ancilla and all listed memory controls -/
theorem downPerm_top (n : Nat) (cs : List Nat) (i : Nat) (w : Bits) (h1 : cs.length + 1 ≤ i)
    (h2 : i ≤ n - 1) (hclr : ∀ j, j < i - 1 → w (ancW j) = false) :
    ladderPerm (downTriples n cs i) w (ancW (i - 1 - cs.length))
      = (w (ancW (i - 1)) && cs.all (fun c => w (memW n true c))) := by
  induction cs generalizing i w with
  | nil => simp [downTriples, ladderPerm]
  | cons c cs ih =>
    simp only [List.length_cons] at h1
    show ladderPerm (downTriples n cs (i - 1))
        (rccxPerm (ancW (i - 1)) (memW n true c) (ancW (i - 2)) w) (ancW (i - 1 - (cs.length + 1))) = _
    have e : i - 1 - (cs.length + 1) = i - 1 - 1 - cs.length := by omega
    have hmem : ∀ k, memW n true k ≠ ancW (i - 2) := by
      intro k; unfold memW ancW; simp only [if_true]; omega
    rw [e, ih (i - 1) _ (by omega) (by omega)]
    · have e2 : i - 1 - 1 = i - 2 := by omega
      rw [e2, rccxPerm_tgt _ _ _ _ (hclr (i - 2) (by omega)), List.all_cons, Bool.and_assoc]
      congr 2
      apply List.all_congr rfl
      intro k
      rw [rccxPerm_ne _ _ _ _ _ (hmem k)]
    · intro j hj
      rw [rccxPerm_ne _ _ _ _ _ (by unfold ancW; omega)]
      exact hclr j (by omega)

section
variable {Θ R : Type} [CommRing R] [RotSem Θ R]

theorem ctrlOk_cvoCtrl (n : Nat) (aux : Bool) (p : Str) (b : Bits) :
    ctrlOk (cvoCtrl n aux p) b = (selectControls p).all (fun k => b (memW n aux k)) := by
  unfold ctrlOk cvoCtrl
  rw [List.all_map]
  apply List.all_congr rfl
  intro k
  simp

/-- `_mcuvchain`: compute ladder, `cu` from the last ancilla, uncompute ladder -/
theorem mcuVchain_sem (iu : R) (hi : iu * iu = -1)
    (dn : List Nat → List (Amp Θ) → State R → State R) (n : Nat) (control : List Nat)
    (θ φ lam : Θ) (hlen : 2 ≤ control.length) (hle : control.length ≤ n) :
    ∃ c : Bits → Bool,
      (∀ b, cvoAncClr n true b = true → c b = control.all (fun k => b (memW n true k))) ∧
      ∀ ψ : State R, semSG iu dn (mcuVchain n control θ φ lam) ψ = applyIf c (matU θ φ lam) 0 ψ := by
  obtain ⟨r0, r1, rest, hrev⟩ : ∃ r0 r1 rest, control.reverse = r0 :: r1 :: rest := by
    have : 2 ≤ control.reverse.length := by rw [List.length_reverse]; exact hlen
    match hr : control.reverse, this with
    | r0 :: r1 :: rest, _ => exact ⟨r0, r1, rest, rfl⟩
  have hrl : rest.length + 2 = control.length := by
    have := congrArg List.length hrev
    simp only [List.length_reverse, List.length_cons] at this
    omega
  let tr : List (Nat × Nat × Nat) :=
    (memW n true r0, memW n true r1, ancW (n - 2)) :: downTriples n rest (n - 1)
  let cw := ancW (n - 1 - rest.length - 1)
  have hgates : mcuVchain (α := Θ) n control θ φ lam
      = ladderSG tr ++ [SG.cu θ φ lam cw 0] ++ (ladderSG tr).reverse := by
    unfold mcuVchain
    simp only [hrev, List.getD_cons_zero, List.getD_cons_succ, List.drop_succ_cons, List.drop_zero,
      ladderDown_eq]
    simp [tr, cw, ladderSG]
  have hok : ∀ x ∈ tr, TripleOk 0 x := by
    intro x hx
    rcases List.mem_cons.mp hx with rfl | hx
    · unfold TripleOk ancW memW
      simp only [if_true]
      refine ⟨?_, ?_, ?_, ?_, ?_⟩ <;> omega
    · exact downTriples_ok n rest (n - 1) (by omega) (by omega) x hx
  refine ⟨fun w => ctrlOk [(cw, true)] (ladderPerm tr w), ?_, ?_⟩
  · intro b hb
    have hclr : ∀ j, j < n - 1 → b (ancW j) = false := by
      intro j hj
      unfold cvoAncClr at hb
      simp only [if_true, List.all_eq_true, List.mem_range] at hb
      simpa using hb j hj
    show ctrlOk [(cw, true)]
      (ladderPerm (downTriples n rest (n - 1))
        (rccxPerm (memW n true r0) (memW n true r1) (ancW (n - 2)) b)) = _
    have hmem : ∀ k, memW n true k ≠ ancW (n - 2) := by
      intro k; unfold memW ancW; simp only [if_true]; omega
    have hcw : cw = ancW (n - 1 - 1 - rest.length) := by
      show ancW (n - 1 - rest.length - 1) = _
      congr 1; omega
    simp only [ctrlOk, List.all_cons, List.all_nil, Bool.and_true, beq_true]
    rw [hcw, downPerm_top n rest (n - 1) _ (by omega) (by omega)]
    · have e2 : n - 1 - 1 = n - 2 := by omega
      rw [e2, rccxPerm_tgt _ _ _ _ (hclr (n - 2) (by omega))]
      have hall : control.all (fun k => b (memW n true k))
          = (r0 :: r1 :: rest).all (fun k => b (memW n true k)) := by
        rw [← hrev, List.all_reverse]
      rw [hall, List.all_cons, List.all_cons, Bool.and_assoc]
      congr 2
      apply List.all_congr rfl
      intro k
      rw [rccxPerm_ne _ _ _ _ _ (hmem k)]
    · intro j hj
      rw [rccxPerm_ne _ _ _ _ _ (by unfold ancW; omega)]
      exact hclr j (by omega)
  · intro ψ
    rw [hgates]
    exact semSG_ladder_block iu hi dn 0 tr hok (SG.cu θ φ lam cw 0) (ctrlOk [(cw, true)])
      (matU θ φ lam) rfl ψ

/-- **`_load_superposition`** denotes a rotation of the flag whose firing condition is, on labels
with clean ancillas, "all ones of `p` are set in the memory register". -/
theorem loadGates_sem (iu : R) (hi : iu * iu = -1)
    (dn : List Nat → List (Amp Θ) → State R → State R) (n : Nat) (aux : Bool) (method : String)
    (p : Str) (hl : p.length = n) (θ φ lam : Θ) :
    ∃ c : Bits → Bool,
      (∀ b, cvoAncClr n aux b = true → c b = ctrlOk (cvoCtrl n aux p) b) ∧
      ∀ ψ : State R, semSG iu dn (loadGates n aux method (selectControls p) θ φ lam) ψ
        = applyIf c (matU θ φ lam) 0 ψ := by
  have hKle : (selectControls p).length ≤ n := by
    unfold selectControls
    calc _ ≤ (List.range p.length).length := List.length_filter_le _ _
      _ = n := by rw [List.length_range, hl]
  have plain : ∀ g : SG Θ,
      denoteSG iu dn g = applyMcu (cvoCtrl n aux p) (matU θ φ lam) 0 →
      loadGates n aux method (selectControls p) θ φ lam = [g] →
      ∃ c : Bits → Bool,
        (∀ b, cvoAncClr n aux b = true → c b = ctrlOk (cvoCtrl n aux p) b) ∧
        ∀ ψ : State R, semSG iu dn (loadGates n aux method (selectControls p) θ φ lam) ψ
          = applyIf c (matU θ φ lam) 0 ψ := by
    intro g hg hgl
    refine ⟨ctrlOk (cvoCtrl n aux p), fun _ _ => rfl, ?_⟩
    intro ψ
    rw [hgl, semSG_cons, semSG_nil, hg]
    rfl
  have hcases : selectControls p = [] ∨ (∃ c1, selectControls p = [c1])
      ∨ ∃ c1 c2 K'', selectControls p = c1 :: c2 :: K'' := by
    match selectControls p with
    | [] => exact Or.inl rfl
    | [c1] => exact Or.inr (Or.inl ⟨c1, rfl⟩)
    | c1 :: c2 :: K'' => exact Or.inr (Or.inr ⟨c1, c2, K'', rfl⟩)
  rcases hcases with hK | ⟨c1, hK⟩ | ⟨c1, c2, K'', hK⟩
  · apply plain (SG.u θ φ lam 0)
    · unfold cvoCtrl; rw [hK]; rfl
    · rw [hK]; rfl
  · apply plain (SG.cu θ φ lam (memW n aux c1) 0)
    · unfold cvoCtrl; rw [hK]; rfl
    · rw [hK]; rfl
  · cases aux with
    | false =>
      apply plain (SG.mcu (cvoBackend method) ((c1 :: c2 :: K'').map (memW n false)) θ φ lam 0)
      · unfold cvoCtrl; rw [hK]
        show applyMcu _ _ _ = _
        rw [List.map_map]; rfl
      · rw [hK]; rfl
    | true =>
      obtain ⟨c, hc, hs⟩ := mcuVchain_sem iu hi dn n (c1 :: c2 :: K'') θ φ lam
        (by simp) (by rw [← hK]; exact hKle)
      refine ⟨c, ?_, ?_⟩
      · intro b hb
        rw [hc b hb, ctrlOk_cvoCtrl, hK]
      · intro ψ
        rw [hK]
        exact hs ψ

end
end Qclib.Sparse
