import QclibModel.Proofs.McxAoLinear
import QclibModel.Proofs.McsuFullAbc
import QclibModel.Proofs.McsuAbcReal
/-
  C04 (part A): `LinearMcx(n, action_only=True)` placed on an arbitrary duplicate-free wire list,
  and the bracket hypothesis `LmBracket` of `LdMcSpecialUnitary`, discharged for every `n`.
-/
set_option linter.unusedSectionVars false
set_option linter.unusedSimpArgs false

namespace Qclib
open RotSem Mcsu

/-! ### Wires of placed circuits -/

section wires
variable {Θ : Type}

theorem wires_mapWires (f : Nat → Nat) (g : G Θ) : (g.mapWires f).wires = g.wires.map f := by
  cases g <;> simp [G.mapWires, G.wires]

theorem wires_inv [Neg Θ] (g : G Θ) : g.inv.wires = g.wires := by
  cases g <;> rfl

theorem mapWires_inv [Neg Θ] (f : Nat → Nat) (g : G Θ) : (g.mapWires f).inv = g.inv.mapWires f := by
  cases g <;> rfl

/-- `.inverse()` commutes with placement. -/
theorem inv_place [Neg Θ] (c : Circ Θ) (ws : List Nat) :
    Circ.inv (place c ws) = place (Circ.inv c) ws := by
  simp only [Circ.inv, place, List.map_reverse, List.map_map]
  congr 1
  apply List.map_congr_left
  intro g _
  exact mapWires_inv _ g

/-- Every wire of a placed circuit is a listed wire (or the default `0`). -/
theorem place_wires (c : Circ Θ) (ws : List Nat) :
    ∀ g ∈ place c ws, ∀ w ∈ g.wires, w ∈ ws ∨ w = 0 := by
  intro g hg w hw
  simp only [place, List.mem_map] at hg
  obtain ⟨g', _, rfl⟩ := hg
  rw [wires_mapWires, List.mem_map] at hw
  obtain ⟨w', _, rfl⟩ := hw
  by_cases h : w' < ws.length
  · left
    rw [List.getD_eq_getElem?_getD, List.getElem?_eq_getElem h]
    exact List.getElem_mem h
  · right
    rw [List.getD_eq_getElem?_getD, List.getElem?_eq_none (by omega)]
    rfl

theorem linW1_lt (k : Nat) (hk : 6 ≤ k) : ∀ w ∈ linW1 k, w < k + 2 := by
  have h2 : linK2 k = (k + 3) / 2 := rfl
  have h1 : linK1 k = k - (k + 3) / 2 + 1 := rfl
  intro w hw
  rw [linW1_eq k hk] at hw
  simp only [List.mem_append, List.mem_range'_1, List.mem_singleton] at hw
  omega

theorem linW2_lt (k : Nat) (hk : 6 ≤ k) : ∀ w ∈ linW2 k, w < k + 2 := by
  have h2 : linK2 k = (k + 3) / 2 := rfl
  have h1 : linK1 k = k - (k + 3) / 2 + 1 := rfl
  intro w hw
  rw [linW2_eq k hk] at hw
  simp only [List.mem_append, List.mem_range'_1, List.mem_singleton] at hw
  omega

/-- Every wire of `LinearMcx._define` is one of `0 … k+1`. -/
theorem linearBody_wires (o : McxAngles Θ) (k : Nat) (hk : 1 ≤ k) (ao : Bool) :
    ∀ g ∈ linearBody o k ao, ∀ w ∈ g.wires, w < k + 2 := by
  by_cases h5 : k ≤ 5
  · rw [linearBody_small_ao o k h5 ao]
    have : k = 1 ∨ k = 2 ∨ k = 3 ∨ k = 4 ∨ k = 5 := by omega
    rcases this with rfl | rfl | rfl | rfl | rfl
    · have e : linearBody o 1 false = [G.cx 0 1] := rfl
      rw [e]; intro g hg; simp only [List.mem_singleton] at hg; subst hg
      intro w hw; simp [G.wires] at hw; omega
    · have e : linearBody o 2 false = [G.ccx 0 1 2] := rfl
      rw [e]; intro g hg; simp only [List.mem_singleton] at hg; subst hg
      intro w hw; simp [G.wires] at hw; omega
    · have e : linearBody o 3 false = [G.mcx [0, 1, 2] 3] := rfl
      rw [e]; intro g hg; simp only [List.mem_singleton] at hg; subst hg
      intro w hw; simp [G.wires] at hw; omega
    · have e : linearBody o 4 false = [G.mcx [0, 1, 2, 3] 4] := rfl
      rw [e]; intro g hg; simp only [List.mem_singleton] at hg; subst hg
      intro w hw; simp [G.wires] at hw; omega
    · have e : linearBody o 5 false
          = [G.mcx [0, 1, 2] 6, G.mcx [3, 4, 6] 5, G.mcx [0, 1, 2] 6, G.mcx [3, 4, 6] 5] := rfl
      rw [e]; intro g hg
      simp only [List.mem_cons, List.not_mem_nil, or_false] at hg
      rcases hg with rfl | rfl | rfl | rfl <;> (intro w hw; simp [G.wires] at hw; omega)
  · have hk6 : 6 ≤ k := by omega
    rw [linearBody_big o k hk6 ao]
    intro g hg w hw
    simp only [List.mem_append] at hg
    have h1 : ∀ c : Circ Θ, g ∈ place c (linW1 k) → w < k + 2 := fun c hc => by
      rcases place_wires c _ g hc w hw with h | h
      · exact linW1_lt k hk6 w h
      · omega
    have h2 : ∀ c : Circ Θ, g ∈ place c (linW2 k) → w < k + 2 := fun c hc => by
      rcases place_wires c _ g hc w hw with h | h
      · exact linW2_lt k hk6 w h
      · omega
    rcases hg with ((h | h) | h) | h
    · exact h1 _ h
    · exact h2 _ h
    · exact h1 _ h
    · exact h2 _ h

theorem linearMcx_wires (o : McxAngles Θ) (k : Nat) (cs : Option (List Bool)) (ao : Bool)
    (circ : Circ Θ) (h : linearMcx o k cs ao = some circ) :
    ∀ g ∈ circ, ∀ w ∈ g.wires, w < k + 2 := by
  simp only [linearMcx] at h
  split at h
  · exact absurd h (by simp)
  · rename_i hk
    split at h
    · exact absurd h (by simp)
    · rename_i xs hxs
      simp only [Option.some.injEq] at h
      subst h
      obtain ⟨rfl, hlt⟩ := ctrlXs_eq k (fun i => i) cs xs hxs
      have hx : ∀ g ∈ (csFlips (fun i => i) cs).map (fun w => (G.x w : G Θ)),
          ∀ w ∈ g.wires, w < k + 2 := by
        intro g hg w hw
        obtain ⟨q, hq, rfl⟩ := List.mem_map.mp hg
        simp only [G.wires, List.mem_singleton] at hw
        subst hw
        obtain ⟨i, hi, _, rfl⟩ := (csFlips_mem k (fun i => i) cs w hlt).mp hq
        omega
      intro g hg
      simp only [List.mem_append] at hg
      rcases hg with (h | h) | h
      · exact hx g h
      · exact linearBody_wires o k (by omega) ao g h
      · exact hx g h

end wires

/-! ### Lifting along a placement -/

section lift
variable {R : Type} {σ τ : Nat → Nat}

theorem liftT_congr (T1 T2 : State R → State R) (h : ∀ φ, T1 φ = T2 φ) (ψ : State R) :
    liftT σ τ T1 ψ = liftT σ τ T2 ψ := by
  have : T1 = T2 := funext h
  rw [this]

theorem liftT_mcxIdeal (hτ : ∀ i, τ (σ i) = i) (lits : List (Nat × Bool)) (tl : Nat)
    (ψ : State R) :
    liftT σ τ (mcxIdeal lits [tl]) ψ
      = mcxIdeal (lits.map (fun cv => (σ cv.1, cv.2))) [σ tl] ψ := by
  funext b
  simp only [liftT]
  simp only [mcxIdeal, ctrlOk_rename, flipAll_cons, flipAll_nil, ← setBit_not]
  rw [merge_set_pull hτ, mergeBits_pull]
  rfl

end lift

section placed
variable {Θ R : Type} [CommRing R] [RotSem Θ R] [AddCommGroup Θ] [RotLaws Θ R]

/-- **`LinearMcx(k, ctrl_state, action_only=True)` appended on a wire list, and its
`.inverse()`.**  For every duplicate-free list `ws` of `k+2` wires (controls `ws[0..k-1]`, target
`ws[k]`, dirty ancilla `ws[k+1]`) there is an operator `D` on states (the placed leftover
relabelling) with: placed circuit `= D ∘ MCX`; placed inverse (in each of the three ways the models
write it: `place (Circ.inv c)`, `Circ.inv (place c)`, `Mcsu.invCirc (place c)`) `= MCX ∘ D`;
`D ∘ D = id`; and `D` commutes with every one-qubit gate on `ws[k]` controlled by `ws[k+1]` and
with every one-qubit gate on `ws[k+1]` controlled by `ws[k]`. -/
theorem linear_action_only_placed (o : McxAngles Θ) (hp : Pi8 R o) (k : Nat)
    (cs : Option (List Bool)) (circ : Circ Θ) (h : linearMcx o k cs true = some circ)
    (ws : List Nat) (hnd : ws.Nodup) (hl : ws.length = k + 2) :
    ∃ D : State R → State R,
      (∀ ψ, sem (place circ ws) ψ
        = D (applyMcu (patLits k (fun i => ws.getD i 0) cs) Mat2.X (ws.getD k 0) ψ))
      ∧ (∀ ψ, sem (place (Circ.inv circ) ws) ψ
        = applyMcu (patLits k (fun i => ws.getD i 0) cs) Mat2.X (ws.getD k 0) (D ψ))
      ∧ (∀ ψ, sem (Circ.inv (place circ ws)) ψ
        = applyMcu (patLits k (fun i => ws.getD i 0) cs) Mat2.X (ws.getD k 0) (D ψ))
      ∧ (∀ ψ, sem (Mcsu.invCirc (fun x : Θ => -x) (place circ ws)) ψ
        = applyMcu (patLits k (fun i => ws.getD i 0) cs) Mat2.X (ws.getD k 0) (D ψ))
      ∧ (∀ φ, D (D φ) = φ)
      ∧ (∀ (B : Mat2 R) (v : Bool) φ,
          D (applyMcu [(ws.getD (k + 1) 0, v)] B (ws.getD k 0) φ)
            = applyMcu [(ws.getD (k + 1) 0, v)] B (ws.getD k 0) (D φ))
      ∧ (∀ (B : Mat2 R) (v : Bool) φ,
          D (applyMcu [(ws.getD k 0, v)] B (ws.getD (k + 1) 0) φ)
            = applyMcu [(ws.getD k 0, v)] B (ws.getD (k + 1) 0) (D φ)) := by
  obtain ⟨σ, π, hsem, hinvs, hinv, hfree⟩ := linear_action_only (R := R) o hp k cs circ h
  have hinj := placeMap_injective ws hnd
  have hτ := Function.leftInverse_invFun hinj
  have hw := linearMcx_wires o k cs true circ h
  have hwi : ∀ g ∈ Circ.inv circ, ∀ w ∈ g.wires, w < ws.length := by
    intro g hg w hw'
    simp only [Circ.inv, List.mem_map, List.mem_reverse] at hg
    obtain ⟨g', hg', rfl⟩ := hg
    rw [wires_inv] at hw'
    rw [hl]
    exact hw g' hg' w hw'
  have hpk : placeMap ws k = ws.getD k 0 := by
    simp only [placeMap, if_pos (show k < ws.length by omega)]
  have hpk1 : placeMap ws (k + 1) = ws.getD (k + 1) 0 := by
    simp only [placeMap, if_pos (show k + 1 < ws.length by omega)]
  have hlits : (patLits k (fun i => i) cs).map (fun cv => (placeMap ws cv.1, cv.2))
      = patLits k (fun i => ws.getD i 0) cs := by
    simp only [patLits, List.map_map]
    apply List.map_congr_left
    intro i hi
    have := List.mem_range.mp hi
    simp only [Function.comp, placeMap, if_pos (show i < ws.length by omega)]
  have hP : ∀ ψ : State R, liftT (placeMap ws) (Function.invFun (placeMap ws))
      (mcxIdeal (patLits k (fun i => i) cs) [k]) ψ
      = applyMcu (patLits k (fun i => ws.getD i 0) cs) Mat2.X (ws.getD k 0) ψ := by
    intro ψ
    rw [liftT_mcxIdeal hτ, hlits, hpk, mcxIdeal_single]
  have hS : ∀ φ : State R, sp σ π (sp σ π φ) = φ := sp_invol σ π hinv.invπ hinv.invσ
  -- the placed forward and inverse circuits
  have hfwd : ∀ ψ : State R, sem (place circ ws) ψ
      = liftT (placeMap ws) (Function.invFun (placeMap ws)) (sp σ π)
          (applyMcu (patLits k (fun i => ws.getD i 0) cs) Mat2.X (ws.getD k 0) ψ) := by
    intro ψ
    rw [place_eq_rename circ ws (by rw [hl]; exact hw), sem_rename hτ,
      liftT_congr _ _ hsem, ← hP, liftT_comp hτ]
  have hbwd : ∀ ψ : State R, sem (place (Circ.inv circ) ws) ψ
      = applyMcu (patLits k (fun i => ws.getD i 0) cs) Mat2.X (ws.getD k 0)
          (liftT (placeMap ws) (Function.invFun (placeMap ws)) (sp σ π) ψ) := by
    intro ψ
    rw [place_eq_rename _ ws hwi, sem_rename hτ, liftT_congr _ _ hinvs, ← hP, liftT_comp hτ]
  have hok : OkC (place circ ws) := by
    rw [place_eq_rename circ ws (by rw [hl]; exact hw)]
    exact (ok_linearMcx o k cs true circ h).rename _ hinj
  have hcomm : ∀ (c t : Nat) (v : Bool) (B : Mat2 R), k ≤ c → k ≤ t → ∀ φ : State R,
      liftT (placeMap ws) (Function.invFun (placeMap ws)) (sp σ π)
          (applyMcu [(placeMap ws c, v)] B (placeMap ws t) φ)
        = applyMcu [(placeMap ws c, v)] B (placeMap ws t)
            (liftT (placeMap ws) (Function.invFun (placeMap ws)) (sp σ π) φ) := by
    intro c t v B hc ht φ
    have e := fun χ : State R => applyMcu_rename hτ [(c, v)] B t χ
    simp only [List.map_cons, List.map_nil] at e
    rw [e, e, liftT_comp hτ, liftT_comp hτ]
    apply liftT_congr
    intro χ
    exact (applyMcu_sp_comm σ π [(c, v)] B t (hfree t ht)
      (by intro cv hcv; simp at hcv; subst hcv; exact hfree c hc) χ).symm
  refine ⟨liftT (placeMap ws) (Function.invFun (placeMap ws)) (sp σ π), hfwd, hbwd, ?_, ?_, ?_,
    ?_, ?_⟩
  · intro ψ; rw [inv_place]; exact hbwd ψ
  · intro ψ; rw [invCirc_eq_inv _ hok, inv_place]; exact hbwd ψ
  · intro φ
    rw [liftT_comp hτ, liftT_congr _ _ hS, liftT_id]
  · intro B v φ
    have := hcomm (k + 1) k v B (by omega) (Nat.le_refl k) φ
    rwa [hpk, hpk1] at this
  · intro B v φ
    have := hcomm k (k + 1) v B (Nat.le_refl k) (by omega) φ
    rwa [hpk, hpk1] at this

/-- **The bracket hypothesis of `LdMcSpecialUnitary` holds for every size.**  For every `n ≥ 1`
and every duplicate-free list `ws` of `n+2` wires, the expanded `LinearMcx(n, action_only=True)`
on `ws` and its `.inverse()`, around any gate on the `LinearMcx` target `ws[n]` controlled on the
`LinearMcx` ancilla `ws[n+1]`, act like the pair of ideal MCX gates. -/
theorem lmBracket_holds (a : McxAngles Θ) (hp : Pi8 R a) (n : Nat) (hn : 1 ≤ n) (ws : List Nat)
    (hnd : ws.Nodup) (hl : ws.length = n + 2) :
    LmBracket (expMcx a (fun x : Θ => -x) : McxSem R) n ws true (allOnes (ws.take n))
      (ws.getD (n + 1) 0) (ws.getD n 0) := by
  obtain ⟨c, hc⟩ : ∃ c, linearMcx a n none true = some c := by
    have h0 : ¬ n = 0 := by omega
    simp only [linearMcx, if_neg h0, ctrlXs]
    exact ⟨_, rfl⟩
  obtain ⟨D, h1, -, -, h2, h3, h4, -⟩ :=
    linear_action_only_placed (R := R) a hp n none c hc ws hnd hl
  have hlits : patLits n (fun i => ws.getD i 0) none = allOnes (ws.take n) := by
    rw [← allOnes_take ws n (by omega)]
    simp only [patLits, List.map_map]
    apply List.map_congr_left
    intro i hi
    have := List.mem_range.mp hi
    simp only [Function.comp, placeMap, if_pos (show i < ws.length by omega)]
  rw [hlits] at h1 h2
  have hexp : expandLmcx a n ws true = some (place c ws) := by
    simp only [expandLmcx, hc, Option.map_some]
  refine lmBracket_of_dirt _ n ws true _ _ _ D D ?_ ?_ h3 (fun B φ => h4 B true φ)
  · intro φ
    simp only [expMcx, hexp]
    exact h1 φ
  · intro φ
    simp only [expMcx, hexp, if_true]
    exact h2 φ

end placed

/-! ### `LdMcSpecialUnitary`, every number of controls -/

section special
variable {K Θ R : Type} [AddCommGroup Θ] [CommRing R] [RotSem Θ R] [RotLaws Θ R]

/-- **`LdMcSpecialUnitary(U, k, ctrl_state).definition`, every `k ≥ 1`, the `LinearMcx(k-1)` pair
expanded to primitive gates — the statement of `C04_ldmcsp_partial` without the bracket
hypothesis.**  Over any commutative ring with the rotation laws and `Pi8`: if `A·B·C = 1` for the
model's `get_abc_operators` of `U`'s ZYZ angles and (for `k ≥ 3`) the angles handed over for `A`,
`B`, `C` are ZYZ angles of those matrices, then for all pairwise different wires, every pattern
and every state the expanded gate list denotes "apply `A·X·B·X·C` to the target iff the controls
read the pattern".  For `k ≥ 7` the `LinearMcx(k-1, action_only=True)` leaves its borrowed controls
relabelled by the sweep of its last V-chain; the sweep commutes with the bracketed gate (it sees
neither the target nor the last control) and is undone by the inverse copy. -/
theorem ldmcSpecial_full_all (o : ROps K) (a : McxAngles Θ) (hp : Pi8 R a) (ι : CMat K → Mat2 R)
    (zu za zb zc : Zyz K) (cw : List Nat) (t : Nat) (cs : Option (List Bool)) (gs : List (SG K))
    (ms : List (MG K Θ)) (hn : (cw ++ [t]).Nodup)
    (hg : ldmcSpecial o zu za zb zc cw t cs = some gs)
    (hx : expandAll a (fun x : Θ => -x) gs = some ms)
    (hU : ι (abcOperators o zu.phi zu.theta zu.lam).1 * ι (abcOperators o zu.phi zu.theta zu.lam).2.1
      * ι (abcOperators o zu.phi zu.theta zu.lam).2.2 = 1)
    (hsub : 3 ≤ cw.length →
      AbcOf o ι za (ι (abcOperators o zu.phi zu.theta zu.lam).1)
      ∧ AbcOf o ι zb (ι (abcOperators o zu.phi zu.theta zu.lam).2.1)
      ∧ AbcOf o ι zc (ι (abcOperators o zu.phi zu.theta zu.lam).2.2))
    (ψ : State R) :
    semMG ι ms ψ
      = applyMcu (litsOf cw (cs.getD (List.replicate cw.length true)).reverse)
          (ι (abcOperators o zu.phi zu.theta zu.lam).1 * Mat2.X
            * ι (abcOperators o zu.phi zu.theta zu.lam).2.1 * Mat2.X
            * ι (abcOperators o zu.phi zu.theta zu.lam).2.2) t ψ := by
  refine ldmcSpecial_full o a hp ι zu za zb zc cw t cs gs ms hn hg hx hU hsub ?_ ψ
  intro hk7
  have hne : cw ≠ [] := by intro e; rw [e] at hk7; simp at hk7
  have hlast : cw.getLastD 0 = cw.getLast hne := getLastD_eq cw hne
  have hsplit : cw.dropLast ++ [cw.getLastD 0] = cw := by
    rw [hlast]; exact List.dropLast_append_getLast hne
  have hdl : cw.dropLast.length = cw.length - 1 := by simp
  have hnd : (cw.dropLast ++ [t] ++ [cw.getLastD 0]).Nodup := by
    have hp' : (cw.dropLast ++ [t] ++ [cw.getLastD 0]).Perm (cw ++ [t]) := by
      conv_rhs => rw [← hsplit]
      rw [List.append_assoc, List.append_assoc]
      exact List.Perm.append_left _ (List.perm_append_comm)
    exact hp'.nodup_iff.mpr hn
  have hlen : (cw.dropLast ++ [t] ++ [cw.getLastD 0]).length = cw.length - 1 + 2 := by
    simp
  have htake : (cw.dropLast ++ [t] ++ [cw.getLastD 0]).take (cw.length - 1) = cw.dropLast := by
    rw [List.append_assoc, ← hdl, List.take_left]
  have hget : (cw.dropLast ++ [t] ++ [cw.getLastD 0]).getD (cw.length - 1) 0 = t := by
    rw [List.getD_eq_getElem?_getD, List.append_assoc, ← hdl,
      List.getElem?_append_right (Nat.le_refl _)]
    simp
  have hget1 : (cw.dropLast ++ [t] ++ [cw.getLastD 0]).getD (cw.length - 1 + 1) 0
      = cw.getLastD 0 := by
    rw [List.getD_eq_getElem?_getD, List.append_assoc, ← hdl,
      List.getElem?_append_right (Nat.le_succ _)]
    simp
  have := lmBracket_holds (R := R) a hp (cw.length - 1) (by omega) _ hnd hlen
  rwa [htake, hget, hget1] at this

end special

/-! ### Real instance and non-vacuity -/

/-- Non-vacuity of `lmBracket_holds`: `LinearMcx(8, action_only=True)` (split branch) on the wire
list that `LdMcSpecialUnitary` with nine controls `0..8` and target `9` uses. -/
example : LmBracket (expMcx realAngles (fun x : ℝ => -x) : McxSem ℂ) 8
    [0, 1, 2, 3, 4, 5, 6, 7, 9, 8] true (allOnes [0, 1, 2, 3, 4, 5, 6, 7]) 8 9 :=
  lmBracket_holds (R := ℂ) realAngles pi8_real 8 (by omega) [0, 1, 2, 3, 4, 5, 6, 7, 9, 8]
    (by decide) rfl

/-- **`LdMcSpecialUnitary`, real instance, every number of controls** (the statement of
`C04_ldmcsp_spec` without the bound `k ≤ 6`). -/
theorem ldmcsp_spec_all (r4 : ℝ → ℝ → ℝ × ℝ) (zu za zb zc : Zyz ℝ) (cw : List Nat) (t : Nat)
    (cs : Option (List Bool)) (gs : List (SG ℝ)) (ms : List (MG ℝ ℝ)) (hn : (cw ++ [t]).Nodup)
    (hg : ldmcSpecial (trigOps r4) zu za zb zc cw t cs = some gs)
    (hx : expandAll realAngles (fun x : ℝ => -x) gs = some ms)
    (hsub : 3 ≤ cw.length →
      (matRZ za.phi * matRY za.theta * matRZ za.lam : Mat2 ℂ)
          = toMat (abcOperators (trigOps r4) zu.phi zu.theta zu.lam).1
      ∧ (matRZ zb.phi * matRY zb.theta * matRZ zb.lam : Mat2 ℂ)
          = toMat (abcOperators (trigOps r4) zu.phi zu.theta zu.lam).2.1
      ∧ (matRZ zc.phi * matRY zc.theta * matRZ zc.lam : Mat2 ℂ)
          = toMat (abcOperators (trigOps r4) zu.phi zu.theta zu.lam).2.2)
    (ψ : State ℂ) :
    semMG toMat ms ψ
      = applyMcu (litsOf cw (cs.getD (List.replicate cw.length true)).reverse)
          (matRZ zu.phi * matRY zu.theta * matRZ zu.lam) t ψ := by
  have hh : IsHalf (fun a : ℝ => a / 2) := ⟨fun a b => by ring, fun a => by ring⟩
  have model : ∀ β γ δ : ℝ,
      toMat (abcOperators (trigOps r4) β γ δ).1 * toMat (abcOperators (trigOps r4) β γ δ).2.1
          * toMat (abcOperators (trigOps r4) β γ δ).2.2 = 1
      ∧ toMat (abcOperators (trigOps r4) β γ δ).1 * Mat2.X
          * toMat (abcOperators (trigOps r4) β γ δ).2.1 * Mat2.X
          * toMat (abcOperators (trigOps r4) β γ δ).2.2
          = (matRZ β : Mat2 ℂ) * matRY γ * matRZ δ := by
    intro β γ δ
    obtain ⟨e1, e2, e3⟩ := abcOperators_eq r4 β γ δ
    rw [e1, e2, e3]
    exact ⟨abc_one hh β γ δ, abc_u hh β γ δ⟩
  have hz : ∀ (z : Zyz ℝ) (M : Mat2 ℂ), (matRZ z.phi * matRY z.theta * matRZ z.lam : Mat2 ℂ) = M →
      AbcOf (trigOps r4) toMat z M := by
    intro z M hM
    have := model z.phi z.theta z.lam
    exact ⟨this.1, this.2.trans hM⟩
  have hu := model zu.phi zu.theta zu.lam
  rw [← hu.2]
  exact ldmcSpecial_full_all (trigOps r4) realAngles pi8_real toMat zu za zb zc cw t cs gs ms hn hg
    hx hu.1 (fun h3 => ⟨hz za _ (hsub h3).1, hz zb _ (hsub h3).2.1, hz zc _ (hsub h3).2.2⟩) ψ

/-- Non-vacuity of `ldmcSpecial_full_all` / `ldmcsp_spec_all` beyond the previously proved range:
seven controls with pattern `0110101` (so `LinearMcx(6, action_only=True)`, the split branch, is
used), target 7, any angles subject to the ZYZ specification of `A`, `B`, `C`. -/
example (r4 : ℝ → ℝ → ℝ × ℝ) (zu za zb zc : Zyz ℝ)
    (hsub : (matRZ za.phi * matRY za.theta * matRZ za.lam : Mat2 ℂ)
          = toMat (abcOperators (trigOps r4) zu.phi zu.theta zu.lam).1
      ∧ (matRZ zb.phi * matRY zb.theta * matRZ zb.lam : Mat2 ℂ)
          = toMat (abcOperators (trigOps r4) zu.phi zu.theta zu.lam).2.1
      ∧ (matRZ zc.phi * matRY zc.theta * matRZ zc.lam : Mat2 ℂ)
          = toMat (abcOperators (trigOps r4) zu.phi zu.theta zu.lam).2.2) (ψ : State ℂ) :
    ∃ gs ms, ldmcSpecial (trigOps r4) zu za zb zc [0, 1, 2, 3, 4, 5, 6] 7
          (some (parseCs "0110101")) = some gs
      ∧ expandAll realAngles (fun x : ℝ => -x) gs = some ms
      ∧ semMG toMat ms ψ
          = applyMcu [(0, true), (1, false), (2, true), (3, false), (4, true), (5, true), (6, false)]
              (matRZ zu.phi * matRY zu.theta * matRZ zu.lam) 7 ψ := by
  obtain ⟨gs, hgs⟩ : ∃ gs, ldmcSpecial (trigOps r4) zu za zb zc [0, 1, 2, 3, 4, 5, 6] 7
      (some (parseCs "0110101")) = some gs := by
    simp [ldmcSpecial, ctrlXsSG, zeroWires, parseCs, unGate, unitaryOk, trigOps, realOps, ctrlByAbc]
  obtain ⟨ms, hms⟩ := expandAll_defined (Θ := ℝ) realAngles (fun x : ℝ => -x) gs
    (ldmcSpecial_expands (trigOps r4) realAngles (fun x : ℝ => -x) zu za zb zc _ _ _ gs hgs)
  refine ⟨gs, ms, hgs, hms, ?_⟩
  exact ldmcsp_spec_all r4 zu za zb zc [0, 1, 2, 3, 4, 5, 6] 7 _ gs ms (by decide) hgs hms
    (fun _ => hsub) ψ

end Qclib
