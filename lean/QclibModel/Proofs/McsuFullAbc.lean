import QclibModel.Proofs.McsuFullSpec
import QclibModel.Proofs.McsuAbc
import QclibModel.Proofs.Placement
/-
  C04 (part A): `LdMcSpecialUnitary(U, k, ctrl_state).definition` of the model with the
  `LinearMcx(k-1)` sub-circuit and its `.inverse()` expanded to primitive gates.

  * `k ≤ 2`: `C, cx/ccx, B, cx/ccx, A` between the `x` layers — no sub-circuit at all.
  * `3 ≤ k ≤ 6`: `LinearMcx(k-1)` is one of the hard-coded branches of `linearBody` (`action_only`
    has no effect there); placed on `controls[:-1] + [target] + [controls[-1]]` it denotes the ideal
    MCX (`C05_linear` + C15 placement), and so does its `.inverse()`.
  * `k ≥ 7`: `LinearMcx(k-1, action_only=True)`: the last V-chain is action-only, the borrowed
    controls are left dirty and cleaned by the inverse copy.  The circuit theorem is proved from
    the *bracket* hypothesis `LmBracket` (the pair around a gate on `anc`/`target` acts like the
    ideal pair); it is discharged here for `k ≤ 6` only.
-/
set_option linter.unusedSectionVars false
set_option linter.unusedSimpArgs false
namespace Qclib.Mcsu
open RotSem

/-! ### `OkC` under an injective renaming; placement of an ideal MCX -/

section rename
variable {Θ : Type}

theorem okG_rename (σ : Nat → Nat) (hσ : Function.Injective σ) (g : G Θ) (h : okG g = true) :
    okG (g.mapWires σ) = true := by
  cases g <;> simp only [okG, G.wf, plainG, G.mapWires, Bool.and_true, Bool.and_false,
    Bool.false_eq_true, bne_iff_ne, ne_eq, Bool.and_eq_true, Bool.not_eq_true',
    List.contains_eq_mem, decide_eq_false_iff_not] at h ⊢
  · exact fun e => h (hσ e)
  · exact fun e => h (hσ e)
  · exact ⟨fun e => h.1 (hσ e), fun e => h.2 (hσ e)⟩
  · intro hm
    obtain ⟨c, hc, e⟩ := List.mem_map.mp hm
    exact h (hσ e ▸ hc)
  · exact ⟨fun e => h.1 (hσ e), fun e => h.2 (hσ e)⟩

theorem OkC.rename (σ : Nat → Nat) (hσ : Function.Injective σ) {c : Circ Θ} (h : OkC c) :
    OkC (c.rename σ) := by
  intro g hg
  obtain ⟨g', hg', rfl⟩ := List.mem_map.mp hg
  exact okG_rename σ hσ g' (h g' hg')

variable {R : Type} [CommRing R] [RotSem Θ R]

/-- A circuit that denotes an ideal MCX on local wires, placed on a duplicate-free wire list,
denotes the ideal MCX on the listed wires. -/
theorem place_mcx_sem (c : Circ Θ) (ws : List Nat) (hnd : ws.Nodup)
    (hc : ∀ g ∈ c, ∀ w ∈ g.wires, w < ws.length) (lits : List (Nat × Bool)) (tl : Nat)
    (h : ∀ φ : State R, sem c φ = mcxIdeal lits [tl] φ) (ψ : State R) :
    sem (place c ws) ψ
      = mcxIdeal (lits.map (fun cv => (placeMap ws cv.1, cv.2))) [placeMap ws tl] ψ := by
  have hinj := placeMap_injective ws hnd
  have hτ := Function.leftInverse_invFun hinj
  funext b
  rw [place_eq_rename c ws hc, congrFun (sem_rename hτ c ψ) b]
  simp only [liftT]
  rw [h]
  simp only [mcxIdeal, ctrlOk_rename, flipAll_cons, flipAll_nil, ← setBit_not]
  rw [merge_set_pull hτ, mergeBits_pull]
  rfl

end rename

/-! ### The small `LinearMcx` (at most five controls) placed on a wire list -/

section small
variable {Θ R : Type} [AddCommGroup Θ] [CommRing R] [RotSem Θ R] [RotLaws Θ R]

omit [AddCommGroup Θ] in
theorem linearMcx_small_ao (a : McxAngles Θ) (n : Nat) (hn5 : n ≤ 5) (ao : Bool) :
    linearMcx a n none ao = linearMcx a n none false := by
  have : n = 0 ∨ n = 1 ∨ n = 2 ∨ n = 3 ∨ n = 4 ∨ n = 5 := by omega
  rcases this with rfl | rfl | rfl | rfl | rfl | rfl <;> rfl

omit [AddCommGroup Θ] in
theorem linearMcx_small_ok (a : McxAngles Θ) (n : Nat) (hn1 : 1 ≤ n) (hn5 : n ≤ 5) (c : Circ Θ)
    (h : linearMcx a n none false = some c) :
    OkC c ∧ ∀ g ∈ c, ∀ w ∈ g.wires, w < n + 2 := by
  have : n = 1 ∨ n = 2 ∨ n = 3 ∨ n = 4 ∨ n = 5 := by omega
  rcases this with rfl | rfl | rfl | rfl | rfl
  · have e : linearMcx a 1 none false = some [G.cx 0 1] := rfl
    rw [e] at h; cases h
    constructor
    · intro g hg; simp only [List.mem_singleton] at hg; subst hg; rfl
    · intro g hg; simp only [List.mem_singleton] at hg; subst hg
      intro w hw; simp [G.wires] at hw; omega
  · have e : linearMcx a 2 none false = some [G.ccx 0 1 2] := rfl
    rw [e] at h; cases h
    constructor
    · intro g hg; simp only [List.mem_singleton] at hg; subst hg; rfl
    · intro g hg; simp only [List.mem_singleton] at hg; subst hg
      intro w hw; simp [G.wires] at hw; omega
  · have e : linearMcx a 3 none false = some [G.mcx [0, 1, 2] 3] := rfl
    rw [e] at h; cases h
    constructor
    · intro g hg; simp only [List.mem_singleton] at hg; subst hg; rfl
    · intro g hg; simp only [List.mem_singleton] at hg; subst hg
      intro w hw; simp [G.wires] at hw; omega
  · have e : linearMcx a 4 none false = some [G.mcx [0, 1, 2, 3] 4] := rfl
    rw [e] at h; cases h
    constructor
    · intro g hg; simp only [List.mem_singleton] at hg; subst hg; rfl
    · intro g hg; simp only [List.mem_singleton] at hg; subst hg
      intro w hw; simp [G.wires] at hw; omega
  · have e : linearMcx a 5 none false
        = some [G.mcx [0, 1, 2] 6, G.mcx [3, 4, 6] 5, G.mcx [0, 1, 2] 6, G.mcx [3, 4, 6] 5] := rfl
    rw [e] at h; cases h
    constructor
    · intro g hg
      simp only [List.mem_cons, List.not_mem_nil, or_false] at hg
      rcases hg with rfl | rfl | rfl | rfl <;> rfl
    · intro g hg
      simp only [List.mem_cons, List.not_mem_nil, or_false] at hg
      rcases hg with rfl | rfl | rfl | rfl <;> (intro w hw; simp [G.wires] at hw; omega)

theorem allOnes_take (ws : List Nat) (n : Nat) (hn : n ≤ ws.length) :
    (patLits n (fun i => i) none).map (fun cv => (placeMap ws cv.1, cv.2)) = allOnes (ws.take n) := by
  simp only [patLits, allOnes, List.map_map]
  apply List.ext_getElem
  · simp; omega
  · intro i h1 h2
    simp only [List.length_map, List.length_range] at h1
    simp only [List.getElem_map, List.getElem_range, Function.comp, csBit, List.getElem_take,
      placeMap, if_pos (show i < ws.length by omega)]
    rw [List.getD_eq_getElem?_getD, List.getElem?_eq_getElem (by omega)]
    rfl

/-- **`LinearMcx(n)` for `n ≤ 5`, placed, and its inverse** denote the ideal MCX on the first `n`
listed wires with target the next one; the listed ancilla is restored (`C05_linear` + placement). -/
theorem lmcx_small (a : McxAngles Θ) (hp : Pi8 R a) (n : Nat) (hn1 : 1 ≤ n) (hn5 : n ≤ 5)
    (ws : List Nat) (hnd : ws.Nodup) (hl : ws.length = n + 2) (ao inv : Bool) (ψ : State R) :
    (expMcx a (fun x : Θ => -x) : McxSem R).lm n ws ao inv ψ
      = applyMcu (allOnes (ws.take n)) Mat2.X (ws.getD n 0) ψ := by
  obtain ⟨c, hc⟩ : ∃ c, linearMcx a n none false = some c := by
    have h0 : ¬ n = 0 := by omega
    simp only [linearMcx, if_neg h0, ctrlXs]
    exact ⟨_, rfl⟩
  obtain ⟨hok, hw⟩ := linearMcx_small_ok a n hn1 hn5 c hc
  have hsem : ∀ φ : State R, sem c φ = mcxIdeal (patLits n (fun i => i) none) [n] φ := by
    intro φ
    have h := hc
    simp only [linearMcx] at h
    split at h
    · exact absurd h (by simp)
    · split at h
      · exact absurd h (by simp)
      · rename_i xs hxs
        simp only [Option.some.injEq] at h
        subst h
        exact ctrl_exact n (fun i => i) none [n] xs _ hxs (fun i j _ _ e => e)
          (fun φ' => linear_body a hp n hn1 φ') φ
  have hpl : ∀ φ : State R, sem (place c ws) φ
      = applyMcu (allOnes (ws.take n)) Mat2.X (ws.getD n 0) φ := by
    intro φ
    rw [place_mcx_sem c ws hnd (by rw [hl]; exact hw) _ n hsem φ, allOnes_take ws n (by omega),
      mcxIdeal_single]
    simp only [placeMap, if_pos (show n < ws.length by omega)]
  have hexp : expandLmcx a n ws ao = some (place c ws) := by
    simp only [expandLmcx, linearMcx_small_ao a n hn5 ao, hc, Option.map_some]
  simp only [expMcx, hexp]
  cases inv with
  | false => exact hpl ψ
  | true =>
    simp only [if_true]
    have hok' : OkC (place c ws) := by
      rw [place_eq_rename c ws (by rw [hl]; exact hw)]
      exact hok.rename _ (placeMap_injective ws hnd)
    refine invCirc_sem_of_invol (place c ws) hok' _ ?_ hpl ψ
    intro φ
    have hav : ∀ cv ∈ allOnes (ws.take n), cv.1 ≠ ws.getD n 0 := by
      intro cv hcv e
      simp only [allOnes, List.mem_map] at hcv
      obtain ⟨x, hx, rfl⟩ := hcv
      obtain ⟨i, hi, hxi⟩ := List.getElem_of_mem hx
      rw [List.getElem_take] at hxi
      simp only [List.length_take] at hi
      have e' : ws[i]'(by omega) = ws[n]'(by omega) := by
        rw [hxi]
        simpa [List.getD_eq_getElem?_getD, List.getElem?_eq_getElem (show n < ws.length by omega)] using e
      have := (List.Nodup.getElem_inj_iff hnd).mp e'
      omega
    exact applyMcu_leftInv _ _ _ _ hav leftInv_X φ

end small

/-! ### The Barenco / Iten circuit of the model -/

section abc
variable {K Θ R : Type} [AddCommGroup Θ] [CommRing R] [RotSem Θ R] [RotLaws Θ R]

/-- ZYZ specification of one matrix (K4 input `_params_zyz`): the model's `get_abc_operators` of
the angles satisfy `A·B·C = 1` and `A·X·B·X·C = M`. -/
def AbcOf (o : ROps K) (ι : CMat K → Mat2 R) (z : Zyz K) (M : Mat2 R) : Prop :=
  ι (abcOperators o z.phi z.theta z.lam).1 * ι (abcOperators o z.phi z.theta z.lam).2.1
      * ι (abcOperators o z.phi z.theta z.lam).2.2 = 1
  ∧ ι (abcOperators o z.phi z.theta z.lam).1 * Mat2.X * ι (abcOperators o z.phi z.theta z.lam).2.1
      * Mat2.X * ι (abcOperators o z.phi z.theta z.lam).2.2 = M

/-- **Bracket hypothesis for the `LinearMcx` pair** (what the circuit theorem needs about
`LinearMcx(k-1, action_only)` and its `.inverse()`): around any gate on the target controlled on
the `LinearMcx` ancilla, the expanded pair acts like the pair of ideal MCX gates. -/
def LmBracket (M : McxSem R) (n : Nat) (ws : List Nat) (ao : Bool) (l : List (Nat × Bool))
    (anc t : Nat) : Prop :=
  ∀ (B : Mat2 R) (φ : State R),
    M.lm n ws ao true (applyMcu [(anc, true)] B t (M.lm n ws ao false φ))
      = applyMcu l Mat2.X t (applyMcu [(anc, true)] B t (applyMcu l Mat2.X t φ))

/-- What suffices for the bracket (and is what an action-only chain provides): the expanded gate is
the ideal MCX followed by a "dirt" operator `D` that is undone by `Dinv` and commutes with every
gate on the target controlled on the ancilla; the inverse copy is `Dinv` followed by the ideal
MCX. -/
theorem lmBracket_of_dirt (M : McxSem R) (n : Nat) (ws : List Nat) (ao : Bool)
    (l : List (Nat × Bool)) (anc t : Nat) (D Dinv : State R → State R)
    (h1 : ∀ φ, M.lm n ws ao false φ = D (applyMcu l Mat2.X t φ))
    (h2 : ∀ φ, M.lm n ws ao true φ = applyMcu l Mat2.X t (Dinv φ))
    (h3 : ∀ φ, Dinv (D φ) = φ)
    (h4 : ∀ (B : Mat2 R) φ, D (applyMcu [(anc, true)] B t φ) = applyMcu [(anc, true)] B t (D φ)) :
    LmBracket M n ws ao l anc t := by
  intro B φ
  rw [h1, h2, ← h4, h3]

theorem semSG_xs (ι : CMat K → Mat2 R) (rhv : R) (M : McxSem R) (zs : List Nat) (ψ : State R) :
    semSG ι rhv M (zs.map SG.x) ψ = xLayer zs ψ := by
  simp only [semSG, xLayer, List.foldl_map]
  rfl

theorem unGate_some (o : ROps K) (m : CMat K) (q : Nat) (g : SG K) (h : unGate o m q = some g) :
    g = SG.un m q := by
  unfold unGate at h
  split at h
  · exact (Option.some.inj h).symm
  · exact absurd h (by simp)

theorem ctrlByAbc_sem (o : ROps K) (ι : CMat K → Mat2 R) (rhv : R) (M : McxSem R) (z : Zyz K)
    (anc t : Nat) (hat : anc ≠ t) (Mz : Mat2 R) (hz : AbcOf o ι z Mz) (g : List (SG K))
    (hg : ctrlByAbc o z anc t = some g) (ψ : State R) :
    semSG ι rhv M g ψ = applyMcu [(anc, true)] Mz t ψ := by
  unfold ctrlByAbc at hg
  dsimp only at hg
  split at hg
  · rename_i c b a' hc hb ha
    simp only [Option.some.injEq] at hg
    subst hg
    rw [unGate_some o _ _ _ hc, unGate_some o _ _ _ hb, unGate_some o _ _ _ ha]
    have := abc_seq [(anc, true)] t _ _ _ hz.1 (by
      intro cv hcv; simp at hcv; subst hcv; exact hat) ψ
    rw [hz.2] at this
    exact this
  · exact absurd hg (by simp)

theorem getLastD_eq (cw : List Nat) (hne : cw ≠ []) : cw.getLastD 0 = cw.getLast hne := by
  cases cw with
  | nil => exact absurd rfl hne
  | cons x r => rfl

theorem allOnes_avoids (cw : List Nat) (t : Nat) (ht : t ∉ cw) : Avoids (allOnes cw) t := by
  intro cv hcv e
  simp only [allOnes, List.mem_map] at hcv
  obtain ⟨x, hx, rfl⟩ := hcv
  exact ht (e ▸ hx)

/-- **`LdMcSpecialUnitary` (model) with the `LinearMcx` pair read by its expansion.**  Hypotheses:
the ZYZ specification of `U` (and, for `k ≥ 3`, of `A`, `B`, `C`), and for `k ≥ 3` the bracket
property of the expanded `LinearMcx` pair. -/
theorem ldmcSpecial_exp (o : ROps K) (a : McxAngles Θ) (ι : CMat K → Mat2 R)
    (zu za zb zc : Zyz K) (cw : List Nat) (t : Nat) (cs : Option (List Bool)) (gs : List (SG K))
    (hn : (cw ++ [t]).Nodup)
    (hg : ldmcSpecial o zu za zb zc cw t cs = some gs)
    (hU : ι (abcOperators o zu.phi zu.theta zu.lam).1 * ι (abcOperators o zu.phi zu.theta zu.lam).2.1
      * ι (abcOperators o zu.phi zu.theta zu.lam).2.2 = 1)
    (hsub : 3 ≤ cw.length →
      AbcOf o ι za (ι (abcOperators o zu.phi zu.theta zu.lam).1)
      ∧ AbcOf o ι zb (ι (abcOperators o zu.phi zu.theta zu.lam).2.1)
      ∧ AbcOf o ι zc (ι (abcOperators o zu.phi zu.theta zu.lam).2.2))
    (hL : 3 ≤ cw.length →
      LmBracket (expMcx a (fun x : Θ => -x) : McxSem R) (cw.length - 1)
        (cw.dropLast ++ [t] ++ [cw.getLastD 0]) (!(decide (cw.length < 6)))
        (allOnes cw.dropLast) (cw.getLastD 0) t)
    (ψ : State R) :
    semSG ι (rh Θ) (expMcx a (fun x : Θ => -x)) gs ψ
      = applyMcu (litsOf cw (cs.getD (List.replicate cw.length true)).reverse)
          (ι (abcOperators o zu.phi zu.theta zu.lam).1 * Mat2.X
            * ι (abcOperators o zu.phi zu.theta zu.lam).2.1 * Mat2.X
            * ι (abcOperators o zu.phi zu.theta zu.lam).2.2) t ψ := by
  have hnc : cw.Nodup := (List.nodup_append.mp hn).1
  have htc : t ∉ cw := by
    intro h
    exact (List.nodup_append.mp hn).2.2 t h t (by simp) rfl
  unfold ldmcSpecial at hg
  split at hg
  · exact absurd hg (by simp)
  · rename_i hk0
    dsimp only at hg
    split at hg
    · exact absurd hg (by simp)
    · rename_i xs hxs
      simp only [ctrlXsSG, Option.map_eq_some_iff] at hxs
      obtain ⟨zs, hzs, rfl⟩ := hxs
      simp only [Option.map_eq_some_iff] at hg
      obtain ⟨body, hbody, rfl⟩ := hg
      set A := (abcOperators o zu.phi zu.theta zu.lam).1 with hAdef
      set B := (abcOperators o zu.phi zu.theta zu.lam).2.1 with hBdef
      set C := (abcOperators o zu.phi zu.theta zu.lam).2.2 with hCdef
      -- the body is the all-ones multi-controlled gate
      have hb : ∀ φ : State R, semSG ι (rh Θ) (expMcx a (fun x : Θ => -x)) body φ
          = applyMcu (allOnes cw) (ι A * Mat2.X * ι B * Mat2.X * ι C) t φ := by
        intro φ
        split at hbody
        · -- fewer than three controls
          rename_i hk3
          split at hbody
          · rename_i c m b a' hc hm hb' ha
            simp only [Option.some.injEq] at hbody
            subst hbody
            rw [unGate_some o _ _ _ hc, unGate_some o _ _ _ hb', unGate_some o _ _ _ ha]
            have hm' : ∀ χ : State R, denoteSG ι (rh Θ) (expMcx a (fun x : Θ => -x)) m χ
                = applyMcu (allOnes cw) Mat2.X t χ := by
              intro χ
              unfold smallMcx at hm
              split at hm
              · cases hm; rfl
              · cases hm; rfl
              · exact absurd hm (by simp)
            have := abc_seq (allOnes cw) t (ι A) (ι B) (ι C) hU (allOnes_avoids cw t htc) φ
            rw [← this]
            simp only [semSG, List.foldl_cons, List.foldl_nil, hm']
            rfl
          · exact absurd hbody (by simp)
        · -- at least three controls
          rename_i hk3
          have hk3' : 3 ≤ cw.length := by omega
          obtain ⟨hza, hzb, hzc⟩ := hsub hk3'
          have hbr := hL hk3'
          split at hbody
          · rename_i gc gb ga hgc hgb hga
            simp only [Option.some.injEq] at hbody
            subst hbody
            have hne : cw ≠ [] := by intro e; rw [e] at hk3'; simp at hk3'
            have hlast : cw.getLastD 0 = cw.getLast hne := getLastD_eq cw hne
            have hat : cw.getLastD 0 ≠ t := by
              rw [hlast]; intro e; exact htc (e ▸ List.getLast_mem hne)
            have hsplit : cw.dropLast ++ [cw.getLastD 0] = cw := by
              rw [hlast]; exact List.dropLast_append_getLast hne
            have htd : t ∉ cw.dropLast := fun h => htc (List.dropLast_subset cw h)
            have eC := fun χ => ctrlByAbc_sem o ι (rh Θ) (expMcx a (fun x : Θ => -x)) zc
              (cw.getLastD 0) t hat (ι C) hzc gc hgc χ
            have eB := fun χ => ctrlByAbc_sem o ι (rh Θ) (expMcx a (fun x : Θ => -x)) zb
              (cw.getLastD 0) t hat (ι B) hzb gb hgb χ
            have eA := fun χ => ctrlByAbc_sem o ι (rh Θ) (expMcx a (fun x : Θ => -x)) za
              (cw.getLastD 0) t hat (ι A) hza ga hga χ
            have single : ∀ (g : SG K) χ, semSG ι (rh Θ) (expMcx a (fun x : Θ => -x)) [g] χ
                = denoteSG ι (rh Θ) (expMcx a (fun x : Θ => -x)) g χ := fun _ _ => rfl
            simp only [semSG_append, single, eC, eB, eA, denoteSG]
            rw [hbr]
            have := abc_seq2 (allOnes cw.dropLast) (cw.getLastD 0, true) t (ι A) (ι B) (ι C) hU
              (allOnes_avoids _ t htd) hat φ
            unfold abcSeq2 at this
            rw [this]
            have e : allOnes cw.dropLast ++ [(cw.getLastD 0, true)] = allOnes cw := by
              conv_rhs => rw [← hsplit]
              simp [allOnes]
            rw [e]
          · exact absurd hbody (by simp)
      rw [semSG_append, semSG_append, semSG_xs, semSG_xs, hb]
      exact ctrl_state_conj cw _ zs hnc hzs _ t htc ψ

/-- The bracket hypothesis holds for `3 ≤ k ≤ 6` (hard-coded `LinearMcx` branches). -/
theorem lmBracket_small (a : McxAngles Θ) (hp : Pi8 R a) (cw : List Nat) (t : Nat)
    (hn : (cw ++ [t]).Nodup) (hk3 : 3 ≤ cw.length) (hk6 : cw.length ≤ 6) (ao : Bool) :
    LmBracket (expMcx a (fun x : Θ => -x) : McxSem R) (cw.length - 1)
      (cw.dropLast ++ [t] ++ [cw.getLastD 0]) ao (allOnes cw.dropLast) (cw.getLastD 0) t := by
  have hne : cw ≠ [] := by intro e; rw [e] at hk3; simp at hk3
  have hlast : cw.getLastD 0 = cw.getLast hne := getLastD_eq cw hne
  have hsplit : cw.dropLast ++ [cw.getLastD 0] = cw := by
    rw [hlast]; exact List.dropLast_append_getLast hne
  have hdl : cw.dropLast.length = cw.length - 1 := by simp
  have hnd : (cw.dropLast ++ [t] ++ [cw.getLastD 0]).Nodup := by
    have hp' : (cw.dropLast ++ [t] ++ [cw.getLastD 0]).Perm (cw ++ [t]) := by
      conv_rhs => rw [← hsplit]
      rw [List.append_assoc, List.append_assoc]
      exact List.Perm.append_left _ (List.perm_append_comm)
    exact hp'.nodup_iff.mpr hn
  have hlen : (cw.dropLast ++ [t] ++ [cw.getLastD 0]).length = cw.length - 1 + 2 := by
    simp
  have htake : (cw.dropLast ++ [t] ++ [cw.getLastD 0]).take (cw.length - 1) = cw.dropLast := by
    rw [List.append_assoc, ← hdl, List.take_left]
  have hget : (cw.dropLast ++ [t] ++ [cw.getLastD 0]).getD (cw.length - 1) 0 = t := by
    rw [List.getD_eq_getElem?_getD, List.append_assoc, ← hdl, List.getElem?_append_right (Nat.le_refl _)]
    simp
  intro B φ
  have e := fun inv χ => lmcx_small (R := R) a hp (cw.length - 1) (by omega) (by omega) _ hnd hlen ao inv χ
  simp only [htake, hget] at e
  rw [e, e]

/-- The expanded list, `3 ≤ k ≤ 6` discharged, `k ≥ 7` from the bracket hypothesis. -/
theorem ldmcSpecial_full (o : ROps K) (a : McxAngles Θ) (hp : Pi8 R a) (ι : CMat K → Mat2 R)
    (zu za zb zc : Zyz K) (cw : List Nat) (t : Nat) (cs : Option (List Bool)) (gs : List (SG K))
    (ms : List (MG K Θ)) (hn : (cw ++ [t]).Nodup)
    (hg : ldmcSpecial o zu za zb zc cw t cs = some gs)
    (hx : expandAll a (fun x : Θ => -x) gs = some ms)
    (hU : ι (abcOperators o zu.phi zu.theta zu.lam).1 * ι (abcOperators o zu.phi zu.theta zu.lam).2.1
      * ι (abcOperators o zu.phi zu.theta zu.lam).2.2 = 1)
    (hsub : 3 ≤ cw.length →
      AbcOf o ι za (ι (abcOperators o zu.phi zu.theta zu.lam).1)
      ∧ AbcOf o ι zb (ι (abcOperators o zu.phi zu.theta zu.lam).2.1)
      ∧ AbcOf o ι zc (ι (abcOperators o zu.phi zu.theta zu.lam).2.2))
    (hL : 7 ≤ cw.length →
      LmBracket (expMcx a (fun x : Θ => -x) : McxSem R) (cw.length - 1)
        (cw.dropLast ++ [t] ++ [cw.getLastD 0]) true
        (allOnes cw.dropLast) (cw.getLastD 0) t)
    (ψ : State R) :
    semMG ι ms ψ
      = applyMcu (litsOf cw (cs.getD (List.replicate cw.length true)).reverse)
          (ι (abcOperators o zu.phi zu.theta zu.lam).1 * Mat2.X
            * ι (abcOperators o zu.phi zu.theta zu.lam).2.1 * Mat2.X
            * ι (abcOperators o zu.phi zu.theta zu.lam).2.2) t ψ := by
  rw [expandAll_sem a _ ι gs ms hx]
  refine ldmcSpecial_exp o a ι zu za zb zc cw t cs gs hn hg hU hsub ?_ ψ
  intro hk3
  by_cases hk6 : cw.length ≤ 6
  · exact lmBracket_small a hp cw t hn hk3 hk6 _
  · have h7 : 7 ≤ cw.length := by omega
    have e : (!(decide (cw.length < 6))) = true := by
      simp only [Bool.not_eq_true', decide_eq_false_iff_not]; omega
    rw [e]
    exact hL h7

/-- A gate that is not an MCX constructor, or is a `LinearMcx` with at least one control. -/
def goodSG : SG K → Prop
  | .mcxv _ _ _ _ _ _ => False
  | .lmcx n _ _ _ => 1 ≤ n
  | _ => True

omit [AddCommGroup Θ] in
theorem goodSG_expands (a : McxAngles Θ) (neg : Θ → Θ) (g : SG K) (h : goodSG g) :
    ∃ m : List (MG K Θ), expandSG a neg g = some m := by
  cases g with
  | mcxv k nt ws cs ao inv => exact absurd h (by simp [goodSG])
  | lmcx n ws ao inv =>
    have h0 : ¬ n = 0 := by simp only [goodSG] at h; omega
    have : ∃ c, expandLmcx a n ws ao = some c := by
      simp only [expandLmcx, linearMcx, if_neg h0, ctrlXs, Option.map_some]
      exact ⟨_, rfl⟩
    obtain ⟨c, hc⟩ := this
    exact ⟨(if inv = true then invCirc neg c else c).map MG.prim, by
      simp only [expandSG, hc, Option.map_some]⟩
  | _ => exact ⟨_, rfl⟩

omit [AddCommGroup Θ] in
theorem ctrlByAbc_good (o : ROps K) (z : Zyz K) (anc t : Nat) (g : List (SG K))
    (hg : ctrlByAbc o z anc t = some g) : ∀ x ∈ g, goodSG x := by
  unfold ctrlByAbc at hg
  dsimp only at hg
  split at hg
  · rename_i c b a' hc hb ha
    simp only [Option.some.injEq] at hg
    subst hg
    rw [unGate_some o _ _ _ hc, unGate_some o _ _ _ hb, unGate_some o _ _ _ ha]
    intro x hx
    simp only [List.mem_cons, List.not_mem_nil, or_false] at hx
    rcases hx with rfl | rfl | rfl | rfl | rfl <;> trivial
  · exact absurd hg (by simp)

omit [AddCommGroup Θ] in
/-- Every gate `LdMcSpecialUnitary` emits has an expansion. -/
theorem ldmcSpecial_expands (o : ROps K) (a : McxAngles Θ) (neg : Θ → Θ)
    (zu za zb zc : Zyz K) (cw : List Nat) (t : Nat) (cs : Option (List Bool)) (gs : List (SG K))
    (hg : ldmcSpecial o zu za zb zc cw t cs = some gs) :
    ∀ g ∈ gs, ∃ m : List (MG K Θ), expandSG a neg g = some m := by
  suffices h : ∀ g ∈ gs, goodSG g from fun g hg' => goodSG_expands a neg g (h g hg')
  unfold ldmcSpecial at hg
  split at hg
  · exact absurd hg (by simp)
  · rename_i hk0
    dsimp only at hg
    split at hg
    · exact absurd hg (by simp)
    · rename_i xs hxs
      simp only [ctrlXsSG, Option.map_eq_some_iff] at hxs
      obtain ⟨zs, hzs, rfl⟩ := hxs
      simp only [Option.map_eq_some_iff] at hg
      obtain ⟨body, hbody, rfl⟩ := hg
      have hxs : ∀ g ∈ zs.map (SG.x : Nat → SG K), goodSG g := by
        intro g hg'
        obtain ⟨q, _, rfl⟩ := List.mem_map.mp hg'
        trivial
      have hb : ∀ g ∈ body, goodSG g := by
        split at hbody
        · split at hbody
          · rename_i c m b a' hc hm hb' ha
            simp only [Option.some.injEq] at hbody
            subst hbody
            rw [unGate_some o _ _ _ hc, unGate_some o _ _ _ hb', unGate_some o _ _ _ ha]
            have hm' : goodSG m := by
              unfold smallMcx at hm
              split at hm
              · cases hm; trivial
              · cases hm; trivial
              · exact absurd hm (by simp)
            intro x hx
            simp only [List.mem_cons, List.not_mem_nil, or_false] at hx
            rcases hx with rfl | rfl | rfl | rfl | rfl <;> trivial
          · exact absurd hbody (by simp)
        · rename_i hk3
          split at hbody
          · rename_i gc gb ga hgc hgb hga
            simp only [Option.some.injEq] at hbody
            subst hbody
            have h1 : 1 ≤ cw.length - 1 := by omega
            intro x hx
            simp only [List.mem_append, List.mem_singleton] at hx
            rcases hx with (((h | h) | h) | h) | h
            · exact ctrlByAbc_good o zc _ t gc hgc x h
            · subst h; exact h1
            · exact ctrlByAbc_good o zb _ t gb hgb x h
            · subst h; exact h1
            · exact ctrlByAbc_good o za _ t ga hga x h
          · exact absurd hbody (by simp)
      intro g hg'
      simp only [List.mem_append] at hg'
      rcases hg' with (h | h) | h
      · exact hxs g h
      · exact hb g h
      · exact hxs g h

end abc
end Qclib.Mcsu
