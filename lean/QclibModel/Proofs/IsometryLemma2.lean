import QclibModel.Model.Isometry
import Mathlib.Algebra.Star.Basic
import Mathlib.Data.Complex.Basic
import Mathlib.Analysis.Real.Sqrt
import Mathlib.Tactic.Ring
import Mathlib.Tactic.LinearCombination
import Mathlib.Tactic.NormNum
/-
  C03 — Lemma 2 of arXiv:1501.06911 (`_unitary` of `qclib/isometry.py`) as a statement about the
  2×2 matrix itself, over any commutative `StarRing`:

  * `lemma2_dagger_unitary`: `M · M† = 1` and `M† · M = 1`;
  * `lemma2_maps`: `M` sends the normalised pair `(s·a, s·b)` to `e_basis`;
  * `lemma2_zeroes`: `M · (a, b)` has its other component `0` (no normalisation needed);
  * `unitary2` / `unitary2_spec`: the whole of `_unitary` (identity on a zero pair);
  * `lemma2_complex`: over `ℂ` the normalisation `s = 1/√(|a|² + |b|²)` meets the hypotheses.

  (`Qclib.Iso.lemma2_unitary` in `Proofs/IsometryCcdOrth.lean` states unitarity row-wise for an
  abstract ring endomorphism `conj`; everything here lives in the namespace `Qclib.Iso.L2` so that
  both files can be imported together.)
-/
namespace Qclib

/-- Conjugate transpose of a 2×2 matrix. -/
def Mat2.dagger {R : Type} [Star R] (m : Mat2 R) : Mat2 R := ⟨star m.a, star m.c, star m.b, star m.d⟩

namespace Iso.L2

section general
variable {R : Type} [CommRing R] [StarRing R]

/-- The identity is unitary. -/
theorem one_dagger_unitary :
    Mat2.mul (Mat2.one : Mat2 R) (Mat2.one : Mat2 R).dagger = Mat2.one ∧
    Mat2.mul (Mat2.one : Mat2 R).dagger (Mat2.one : Mat2 R) = Mat2.one := by
  constructor <;> (ext <;> simp [Mat2.mul, Mat2.one, Mat2.dagger])

/-- **Lemma 2 is unitary.**  For a self-adjoint `s` with `s² (a ā + b b̄) = 1` (i.e. `s` is the
inverse norm of the pair) the matrix returned by `_unitary([[a],[b]], basis)` satisfies
`M M† = 1` and `M† M = 1`, for either value of `basis`. -/
theorem lemma2_dagger_unitary (s a b : R) (hs : star s = s)
    (hn : s * s * (a * star a + b * star b) = 1) (basis : Nat) :
    Mat2.mul (lemma2 star s a b basis) (lemma2 star s a b basis).dagger = Mat2.one ∧
    Mat2.mul (lemma2 star s a b basis).dagger (lemma2 star s a b basis) = Mat2.one := by
  unfold lemma2
  split <;> constructor <;>
    (ext <;> simp only [Mat2.mul, Mat2.one, Mat2.dagger, star_mul', star_neg, star_star, hs] <;>
      first
      | (linear_combination hn)
      | ring)

/-- **Lemma 2 maps the normalised pair to `e_basis`.**  `basis = 0`: `M (s a, s b)ᵀ = (1, 0)ᵀ`;
any other `basis` (the code only uses `1`): `M (s a, s b)ᵀ = (0, 1)ᵀ`. -/
theorem lemma2_maps (s a b : R) (hn : s * s * (a * star a + b * star b) = 1) (basis : Nat) :
    (lemma2 star s a b basis).a * (s * a) + (lemma2 star s a b basis).b * (s * b)
      = (if basis = 0 then 1 else 0) ∧
    (lemma2 star s a b basis).c * (s * a) + (lemma2 star s a b basis).d * (s * b)
      = (if basis = 0 then 0 else 1) := by
  unfold lemma2
  split <;> constructor <;> first
    | (linear_combination hn)
    | ring

/-- `basis = 0` form of `lemma2_maps`. -/
theorem lemma2_maps_basis0 (s a b : R) (hn : s * s * (a * star a + b * star b) = 1) :
    (lemma2 star s a b 0).a * (s * a) + (lemma2 star s a b 0).b * (s * b) = 1 ∧
    (lemma2 star s a b 0).c * (s * a) + (lemma2 star s a b 0).d * (s * b) = 0 := by
  simpa using lemma2_maps s a b hn 0

/-- `basis ≠ 0` form of `lemma2_maps` (the code uses `basis = 1`). -/
theorem lemma2_maps_basis1 (s a b : R) (hn : s * s * (a * star a + b * star b) = 1)
    (basis : Nat) (hb : basis ≠ 0) :
    (lemma2 star s a b basis).a * (s * a) + (lemma2 star s a b basis).b * (s * b) = 0 ∧
    (lemma2 star s a b basis).c * (s * a) + (lemma2 star s a b basis).d * (s * b) = 1 := by
  simpa [hb] using lemma2_maps s a b hn basis

/-- **Zeroing** (what the column-by-column sweep uses): the component of `M (a, b)ᵀ` other than
`basis` vanishes — for every `s`, no normalisation hypothesis. -/
theorem lemma2_zeroes (s a b : R) (basis : Nat) :
    (if basis = 0 then (lemma2 star s a b basis).c * a + (lemma2 star s a b basis).d * b
     else (lemma2 star s a b basis).a * a + (lemma2 star s a b basis).b * b) = 0 := by
  unfold lemma2
  split <;> (simp only []; ring)

/-- The whole of `_unitary(iso, basis)`: the identity when the norm of the pair is `0.0`
(`isZero`), Lemma 2 otherwise. -/
def unitary2 {R : Type} [Mul R] [Neg R] [Zero R] [One R] (conj : R → R) (s a b : R) (basis : Nat)
    (isZero : Bool) : Mat2 R :=
  if isZero then Mat2.one else lemma2 conj s a b basis

/-- **`_unitary` is always unitary and always zeroes the other component.**  If the zero branch
is taken only on the zero pair, and otherwise `s` is a self-adjoint exact normalisation, then the
returned matrix `M` satisfies `M M† = 1 = M† M`; `M (a, b)ᵀ` has its non-`basis` component `0`;
and in the non-zero branch `M (s a, s b)ᵀ = e_basis`. -/
theorem unitary2_spec (s a b : R) (basis : Nat) (isZero : Bool)
    (hz : isZero = true → a = 0 ∧ b = 0)
    (hs : isZero = false → star s = s)
    (hn : isZero = false → s * s * (a * star a + b * star b) = 1) :
    let M := unitary2 star s a b basis isZero
    (Mat2.mul M M.dagger = Mat2.one ∧ Mat2.mul M.dagger M = Mat2.one) ∧
    (if basis = 0 then M.c * a + M.d * b else M.a * a + M.b * b) = 0 ∧
    (isZero = false →
      M.a * (s * a) + M.b * (s * b) = (if basis = 0 then 1 else 0) ∧
      M.c * (s * a) + M.d * (s * b) = (if basis = 0 then 0 else 1)) := by
  cases isZero with
  | true =>
    obtain ⟨ha, hb⟩ := hz rfl
    refine ⟨one_dagger_unitary, ?_, fun h => by cases h⟩
    simp [unitary2, ha, hb]
  | false =>
    exact ⟨lemma2_dagger_unitary s a b (hs rfl) (hn rfl) basis, lemma2_zeroes s a b basis,
      fun _ => lemma2_maps s a b (hn rfl) basis⟩

omit [StarRing R] in
/-- The identity fixes the zero pair (the zero branch of `_unitary`). -/
theorem one_fixes_zero :
    (Mat2.one : Mat2 R).a * 0 + (Mat2.one : Mat2 R).b * 0 = 0 ∧
    (Mat2.one : Mat2 R).c * 0 + (Mat2.one : Mat2 R).d * 0 = 0 := by
  simp

end general

/-! ### the instance over `ℂ` -/

section complex
open Complex

/-- `1/‖(a,b)‖` as a complex number. -/
noncomputable def invNorm (a b : ℂ) : ℂ := ((Real.sqrt (normSq a + normSq b))⁻¹ : ℝ)

theorem invNorm_star (a b : ℂ) : star (invNorm a b) = invNorm a b := by
  unfold invNorm; exact conj_ofReal _

theorem invNorm_norm (a b : ℂ) (h : a ≠ 0 ∨ b ≠ 0) :
    invNorm a b * invNorm a b * (a * star a + b * star b) = 1 := by
  have hpos : 0 < normSq a + normSq b := by
    rcases h with h | h
    · have := normSq_pos.mpr h; have := normSq_nonneg b; linarith
    · have := normSq_pos.mpr h; have := normSq_nonneg a; linarith
  have hsq : Real.sqrt (normSq a + normSq b) ≠ 0 := (Real.sqrt_pos.mpr hpos).ne'
  have hreal : (Real.sqrt (normSq a + normSq b))⁻¹ * (Real.sqrt (normSq a + normSq b))⁻¹ *
      (normSq a + normSq b) = 1 := by
    rw [← mul_inv, Real.mul_self_sqrt hpos.le, inv_mul_cancel₀ hpos.ne']
  have e1 : a * star a = (normSq a : ℂ) := mul_conj a
  have e2 : b * star b = (normSq b : ℂ) := mul_conj b
  unfold invNorm
  rw [e1, e2]
  exact_mod_cast hreal

/-- **Lemma 2 over `ℂ`.**  For a complex pair `(a, b) ≠ (0, 0)` and `s = 1/√(|a|² + |b|²)` the
matrix of `_unitary` is unitary, maps `(a, b)/‖(a, b)‖` to `e_basis` and zeroes the other
component of `(a, b)`. -/
theorem lemma2_complex (a b : ℂ) (h : a ≠ 0 ∨ b ≠ 0) (basis : Nat) :
    let s := invNorm a b
    let M := lemma2 star s a b basis
    (Mat2.mul M M.dagger = Mat2.one ∧ Mat2.mul M.dagger M = Mat2.one) ∧
    (M.a * (s * a) + M.b * (s * b) = (if basis = 0 then 1 else 0) ∧
     M.c * (s * a) + M.d * (s * b) = (if basis = 0 then 0 else 1)) ∧
    (if basis = 0 then M.c * a + M.d * b else M.a * a + M.b * b) = 0 :=
  ⟨lemma2_dagger_unitary _ a b (invNorm_star a b) (invNorm_norm a b h) basis,
   lemma2_maps _ a b (invNorm_norm a b h) basis, lemma2_zeroes _ a b basis⟩

/-- Concrete instance: `(a, b) = (3, 4)`, `s = 1/5`, `basis = 1`: the matrix
`(1/5)·[[-4, 3], [3, 4]]` is unitary and sends `(3/5, 4/5)` to `e₁`. -/
example :
    let M := lemma2 (star : ℂ → ℂ) (1 / 5) 3 4 1
    (Mat2.mul M M.dagger = Mat2.one ∧ Mat2.mul M.dagger M = Mat2.one) ∧
    (M.a * (1 / 5 * 3) + M.b * (1 / 5 * 4) = 0 ∧ M.c * (1 / 5 * 3) + M.d * (1 / 5 * 4) = 1) := by
  have hs : star (1 / 5 : ℂ) = 1 / 5 := by simp
  have hn : (1 / 5 : ℂ) * (1 / 5) * (3 * star 3 + 4 * star 4) = 1 := by
    have h3 : star (3 : ℂ) = 3 := by simp
    have h4 : star (4 : ℂ) = 4 := by simp
    rw [h3, h4]; norm_num
  exact ⟨lemma2_dagger_unitary _ _ _ hs hn 1, lemma2_maps_basis1 _ _ _ hn 1 (by decide)⟩

/-- The matrix of the example, explicitly. -/
example : lemma2 (star : ℂ → ℂ) (1 / 5) 3 4 1
    = ⟨1 / 5 * -4, 1 / 5 * 3, 1 / 5 * star 3, 1 / 5 * star 4⟩ := rfl

/-- Non-vacuity of `lemma2_complex` and of `unitary2_spec` (non-zero branch, `a = 3`, `b = 4i`). -/
example : (3 : ℂ) ≠ 0 ∨ (4 * I : ℂ) ≠ 0 := Or.inl (by norm_num)

/-- Non-vacuity over a ring that is not a field: `R = ℤ` (trivial star), `(a, b) = (1, 0)`,
`s = 1`. -/
example : star (1 : ℤ) = 1 ∧ (1 : ℤ) * 1 * (1 * star 1 + 0 * star 0) = 1 := by decide

end complex

end Iso.L2
end Qclib
