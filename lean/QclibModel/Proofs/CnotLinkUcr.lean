import QclibModel.Model.Ucr
import QclibModel.Model.CnotShape
/-
  C10 link, part 1: the number of entanglers in the gate list of the C13 model `ucr`
  (`Model/Ucr.lean`, the model of qclib/gates/ucr.py) is the price `Model/CnotShape.lean` puts on a
  multiplexer: `2^k` on `k ≥ 1` controls (`Prim.ucrz k` / `Prim.ucry k`), `2^k − 1` without the last
  entangler (`Prim.ucrCZ k`); every other gate of the list is a one-qubit rotation.
  Core Lean only.
-/
namespace Qclib.CnotLink
open Qclib Qclib.Cnot

/-- `cx` / `cz`: the two-qubit entanglers (one CNOT each in the basis `u`, `cx`). -/
def isEnt {Θ : Type} : G Θ → Bool
  | .cx _ _ => true
  | .cz _ _ => true
  | _ => false

/-- one-qubit rotations `ry` / `rz` (no CNOT). -/
def isRot {Θ : Type} : G Θ → Bool
  | .ry _ _ => true
  | .rz _ _ => true
  | _ => false

/-- number of entanglers in a gate list. -/
def entCount {Θ : Type} (c : Circ Θ) : Nat := c.countP isEnt

@[simp] theorem isEnt_mapWires {Θ : Type} (f : Nat → Nat) (g : G Θ) : isEnt (g.mapWires f) = isEnt g := by
  cases g <;> rfl

@[simp] theorem isRot_mapWires {Θ : Type} (f : Nat → Nat) (g : G Θ) : isRot (g.mapWires f) = isRot g := by
  cases g <;> rfl

@[simp] theorem isEnt_entG {Θ : Type} (e : Ent) (c t : Nat) : isEnt (entG e c t : G Θ) = true := by
  cases e <;> rfl
@[simp] theorem isEnt_rotG {Θ : Type} (ax : Axis) (θ : Θ) (q : Nat) : isEnt (rotG ax θ q) = false := by
  cases ax <;> rfl
@[simp] theorem isRot_rotG {Θ : Type} (ax : Axis) (θ : Θ) (q : Nat) : isRot (rotG ax θ q) = true := by
  cases ax <;> rfl

theorem entCount_append {Θ : Type} (a b : Circ Θ) : entCount (a ++ b) = entCount a + entCount b :=
  List.countP_append

theorem entCount_place {Θ : Type} (c : Circ Θ) (ws : List Nat) : entCount (place c ws) = entCount c := by
  unfold entCount place
  rw [List.countP_map]
  congr 1
  funext g
  simp

/-- entanglers of `ucr(r_gate, angles, c_gate, last_control)` on `k` controls, whatever the angles
(the leaf drops negligible rotations, never an entangler). -/
theorem entCount_ucr {Θ : Type} (o : AOps Θ) (ax : Axis) (e : Ent) (k : Nat) :
    ∀ (a : Nat → Θ) (last : Bool),
      entCount (ucr o ax e k a last) = (2 ^ k - 1) + (if last = true ∧ k ≠ 0 then 1 else 0) := by
  induction k with
  | zero =>
    intro a last
    simp only [ucr, entCount]
    split <;> simp
  | succ k ih =>
    intro a last
    have hp : 1 ≤ 2 ^ k := Nat.one_le_two_pow
    have h2 : 2 ^ (k + 1) = 2 * 2 ^ k := by rw [Nat.pow_succ]; omega
    simp only [ucr, entCount_append]
    simp only [entCount, List.countP_reverse] at ih ⊢
    rw [ih, ih]
    cases last <;> simp <;> omega

/-- every gate of the `ucr` list is a rotation on the target or an entangler. -/
theorem rotOrEnt_ucr {Θ : Type} (o : AOps Θ) (ax : Axis) (e : Ent) (k : Nat) :
    ∀ (a : Nat → Θ) (last : Bool), ∀ g ∈ ucr o ax e k a last, (isRot g || isEnt g) = true := by
  induction k with
  | zero =>
    intro a last g hg
    simp only [ucr] at hg
    split at hg
    · simp at hg
    · simp only [List.mem_singleton] at hg; subst hg; simp
  | succ k ih =>
    intro a last g hg
    simp only [ucr, List.mem_append, List.mem_reverse, List.mem_singleton] at hg
    rcases hg with ((hg | hg) | hg) | hg
    · exact ih _ _ g hg
    · subst hg; simp
    · exact ih _ _ g hg
    · cases last
      · simp at hg
      · simp only [if_true, List.mem_singleton] at hg; subst hg; simp

/-- the price table of `Model/CnotShape.lean` for the three multiplexer objects, in one place. -/
theorem cost_mux (k : Nat) :
    Prim.cost (.ucrz k) = (2 ^ k - 1) + (if k ≠ 0 then 1 else 0) ∧
    Prim.cost (.ucry k) = (2 ^ k - 1) + (if k ≠ 0 then 1 else 0) ∧
    Prim.cost (.ucrCZ k) = 2 ^ k - 1 := by
  have hp : 1 ≤ 2 ^ k := Nat.one_le_two_pow
  by_cases hk : k = 0
  · subst hk; simp [Prim.cost]
  · simp [Prim.cost, hk]; omega

end Qclib.CnotLink
