import QclibModel.Proofs.TopDownFinal
import QclibModel.Proofs.PleschDispatch
import QclibModel.Proofs.PleschAssembly
import QclibModel.Proofs.PleschSvd
import QclibModel.Props.C08
import QclibModel.Props.C12
import QclibModel.Props.C03
/-
  C01 — exact dense state preparation.  Property theorems only; proofs live in
  Proofs/TopDown*.lean (top-down path) and Proofs/Plesch*.lean (low-rank / SVD assembly).

  Full statement of the property (kept visible): for every `n ≥ 1` (`n ≥ 2` for SVDInitialize and
  the knill scheme) and every unit vector `v ∈ ℂ^(2^n)`, each of TopDownInitialize,
  LowRankInitialize (any partition, any scheme), SVDInitialize, UCGInitialize, UCGEInitialize,
  IsometryInitialize (each scheme) and BaaLowRankInitialize (zero allowed loss) yields a circuit on
  `n` qubits mapping `|0…0⟩` to `v` amplitude by amplitude, global phase included (up to a global
  phase only when the caller disables the correction), and construction never fails.

  What is a theorem here, for every size:
  * TopDownInitialize, IN FULL at the level of the model (`Model/Tree.lean`, `Model/TopDown.lean`,
    tied to the code by diffing trees, multiplexer calls, wires, gate lists and global phase):
    `C01_angles`, `C01_topdown_path`, `C01_topdown_level`, `C01_topdown_circuit`,
    `C01_topdown_nophase`.
  * LowRankInitialize / SVDInitialize: the dispatch of `_encode`, the rank-1 structure and the
    ASSEMBLY of the Plesch circuit from sub-encoders that meet their specifications (see the
    second part of this file).  `np.linalg.svd` and the sub-encoders (C02, C03, recursively C01)
    are hypotheses (K4), validated by the Statevector oracle.
  * UCG / UCGE (C12 at target 0), isometry-based (C03 with one column), BAA at zero loss (C08):
    corollaries of the other properties' theorems — listed at the end of this file.

  Conventions.  Wire `i` of the circuit is bit `i` of the state-vector index (qiskit,
  little-endian); `bitsVal n b` is the index read on the wires `0 … n-1`; states are amplitude
  functions on labels `b : ℕ → Bool`; `ZeroOn (List.range n) ψ` says that `ψ` vanishes unless the
  wires `0 … n-1` are all `|0⟩` (further wires may be in any state); `clr (List.range n) b` clears
  those wires.  Exact real / complex arithmetic; the tests `x != 0.0`, `abs(angle) > 1e-8` are
  modelled as exact comparisons with zero.
-/
namespace Qclib
open RotSem

/-- **C01 (angles of one node).**  For a node of the state tree with children of norms `l, r ≥ 0`
(so `m = √(l²+r²)`) and phases `φ_l, φ_r` (so `φ = (φ_l+φ_r)/2`), `create_angles_tree` computes
`angle_y = 2·asin(r/m)` (`0` when `m = 0`) and `angle_z = 2·(φ_r − φ)`.  Then
* `m·cos(angle_y/2) = l` and `m·sin(angle_y/2) = r` (so `cos = l/m`, `sin = r/m` when `m ≠ 0`),
  and `0 ≤ r/m ≤ 1`: the clamp of the code never fires on exact data;
* a zero right child — in particular a zero node — gives `angle_y = 0`;
* `angle_z = φ_r − φ_l`;
* in ℂ: `m e^{iφ}·cos(angle_y/2)·e^{−i·angle_z/2} = l e^{iφ_l}` and
  `m e^{iφ}·sin(angle_y/2)·e^{+i·angle_z/2} = r e^{iφ_r}` (`RY` then `RZ` applied to `|0⟩`);
* the global phase the code adds, `sum(np.angle(params))/len(params)`, is the phase stored at the
  root of the state tree. -/
theorem C01_angles :
    (∀ l r : ℝ, 0 ≤ l → 0 ≤ r →
        Real.sqrt (l ^ 2 + r ^ 2) * Real.cos (angleY realTOps (Real.sqrt (l ^ 2 + r ^ 2)) r / 2) = l
        ∧ Real.sqrt (l ^ 2 + r ^ 2) * Real.sin (angleY realTOps (Real.sqrt (l ^ 2 + r ^ 2)) r / 2) = r
        ∧ (Real.sqrt (l ^ 2 + r ^ 2) ≠ 0 →
            0 ≤ r / Real.sqrt (l ^ 2 + r ^ 2) ∧ r / Real.sqrt (l ^ 2 + r ^ 2) ≤ 1))
    ∧ (∀ m : ℝ, angleY realTOps m 0 = 0)
    ∧ (∀ φl φr : ℝ, angleZ realTOps ((φl + φr) / 2) φr = φr - φl)
    ∧ (∀ l r φl φr : ℝ, 0 ≤ l → 0 ≤ r →
        Dense.pol (Real.sqrt (l ^ 2 + r ^ 2)) ((φl + φr) / 2)
            * (Dense.stepAmp (⟨angleY realTOps (Real.sqrt (l ^ 2 + r ^ 2)) r,
                angleZ realTOps ((φl + φr) / 2) φr⟩ : AV ℝ) false : ℂ) = Dense.pol l φl
        ∧ Dense.pol (Real.sqrt (l ^ 2 + r ^ 2)) ((φl + φr) / 2)
            * (Dense.stepAmp (⟨angleY realTOps (Real.sqrt (l ^ 2 + r ^ 2)) r,
                angleZ realTOps ((φl + φr) / 2) φr⟩ : AV ℝ) true : ℂ) = Dense.pol r φr)
    ∧ (∀ (n : Nat) (a : Nat → SV ℝ),
        meanArg realTOps n a = ((stateTree realTOps n a).valD ⟨0, 0⟩).arg) := by
  refine ⟨fun l r hl hr => ⟨Dense.node_cos l r _ hl hr rfl, Dense.node_sin l r _ hl hr rfl, fun hm => ?_⟩,
    angleY_zero_right, Dense.angleZ_eq,
    fun l r φl φr hl hr => ⟨Dense.node_left l r φl φr hl hr, Dense.node_right l r φl φr hl hr⟩,
    Dense.meanArg_eq_root⟩
  have hpos : 0 < Real.sqrt (l ^ 2 + r ^ 2) := lt_of_le_of_ne (Real.sqrt_nonneg _) (Ne.symm hm)
  exact ⟨div_nonneg hr hpos.le, (div_le_one hpos).2 (Dense.sqrt_ge_right l r hr)⟩

/-- The statement is about real numbers the code can meet: `l = 3, r = 4, m = 5`. -/
example : Real.sqrt ((3:ℝ) ^ 2 + 4 ^ 2) * Real.sin (angleY realTOps (Real.sqrt ((3:ℝ) ^ 2 + 4 ^ 2)) 4 / 2) = 4 :=
  (C01_angles.1 3 4 (by norm_num) (by norm_num)).2.1

/-- **C01 (path product).**  For every `n ≥ 0` and every `a : ℕ → ℂ` (entries `0 … 2^n − 1`;
zero amplitudes and whole zero sub-trees included; leaf values handed to the model are
`(‖a_k‖, arg a_k)`): the root value `m e^{iφ}` of the state tree times the product, along the
root-to-leaf path of `k` (most significant bit = decision at the root), of `cos(y/2)e^{−iz/2}`
(left) / `sin(y/2)e^{iz/2}` (right) equals `a_k`; and for a unit vector `m = 1` and
`φ = mean arg`, so `e^{i·mean arg}·(path product) = a_k`. -/
theorem C01_topdown_path (n : Nat) (a : Nat → ℂ) (k : Nat) (hk : k < 2 ^ n) :
    Dense.pol ((stateTree realTOps n (leavesOf a)).valD ⟨0, 0⟩).mag
        ((stateTree realTOps n (leavesOf a)).valD ⟨0, 0⟩).arg
      * (Dense.pathAmp n (angleTree realTOps (stateTree realTOps n (leavesOf a))) k : ℂ) = a k
    ∧ (sumSq n (leavesOf a) = 1 →
        Complex.exp (((meanArg realTOps n (leavesOf a) : ℝ) : ℂ) * Complex.I)
          * (Dense.pathAmp n (angleTree realTOps (stateTree realTOps n (leavesOf a))) k : ℂ) = a k) := by
  refine ⟨?_, fun hu => Dense.topdown_path n a hu k hk⟩
  have h := Dense.topdown_path_aux n (leavesOf a) (fun j => norm_nonneg _) k hk
  rw [Dense.pol_leavesOf] at h
  exact h

/-- Non-vacuity: `a = (3/5, 4i/5)` is a unit vector on one qubit. -/
example : sumSq 1 (leavesOf (fun k => if k = 0 then (3/5 : ℂ) else 4/5 * Complex.I)) = 1 := by
  simp only [sumSq, leavesOf]
  norm_num

section level
variable {Θ R : Type} [AddCommGroup Θ] [CommRing R] [RotSem Θ R] [RotLaws Θ R]

/-- **C01 (one level of `top_down`).**  Over any commutative ring with rotation laws: for a
level with `2^k` target nodes `t0 :: rest` whose multiplexers are appended on the wires
`[s, s+1, …, s+k]` (target first, controls reversed — `ws[i] = s + i`), the gates `top_down`
emits — `ucr(RY, ys, last_control = not any(zs))` if `any(ys)`, then the REVERSED
`ucr(RZ, zs, last_control = not any(ys))` if `any(zs)` — denote, on every state, the operator
`RZ(z_j)·RY(y_j)` on wire `s`, `j` = the number read on wires `s+1 … s+k`.  (When both are
present the two omitted CNOTs cancel; when a list is all zero its multiplexer is the identity.) -/
theorem C01_topdown_level (half : Θ → Θ) (negl : Θ → Bool)
    (hhalf : ∀ a, half a + half a = a) (hadd : ∀ a b, half (a + b) = half a + half b)
    (hnegl : ∀ a, negl a = true → a = 0)
    (o : TOps Θ) (ho : o.aops = stdOps half negl) (hz : o.zero = 0)
    (hnz : ∀ x, o.neZero x = false → x = 0)
    (ctrl : List Nat) (t0 : BT (QV Θ)) (rest : List (BT (QV Θ))) (k s : Nat)
    (hlen : (t0 :: rest).length = 2^k)
    (hws : ∀ i, i ≤ k → (wire (t0.valD ⟨o.zero, o.zero, none⟩).q :: ctrl.reverse).getD i 0 = i + s)
    (ψ : State R) :
    sem (levelMux o ctrl (t0 :: rest)) ψ
      = applyFam (fun b =>
          (rotMat .Z (((t0 :: rest).map fun t => (t.valD ⟨o.zero, o.zero, none⟩).z).getD
              (Dense.topIdx s k b) o.zero)
            * rotMat .Y (((t0 :: rest).map fun t => (t.valD ⟨o.zero, o.zero, none⟩).y).getD
              (Dense.topIdx s k b) o.zero) : Mat2 R)) s ψ :=
  Dense.levelMux_sem half negl hhalf hadd hnegl o ho hz hnz ctrl t0 rest k s hlen hws ψ

end level

/-- Non-vacuity of `C01_topdown_level`: the real-number instance satisfies the hypotheses on the
operations (halving, exact zero tests). -/
example : realTOps.aops = stdOps (fun x : ℝ => x / 2) (fun x => decide (x = 0))
    ∧ (∀ a : ℝ, a / 2 + a / 2 = a) ∧ realTOps.zero = 0 :=
  ⟨rfl, fun a => by ring, rfl⟩

/-- **C01 (top-down circuit).**  For every `n ≥ 1` and every unit vector `a : ℕ → ℂ`
(entries `0 … 2^n − 1`, zeros / signs / phases / zero sub-trees included):
* the model of `TopDownInitialize(a)` does not reject, uses exactly `n` wires, allocates the
  tree's left spine on the wires `n−1, …, 0` (root = most significant bit);
* its gate list — the cascade of level multiplexers with the `last_control` flags computed from
  `any(angles)`, preceded by the global phase `sum(arg)/2^n` — maps every input state `ψ` whose
  wires `0 … n−1` are `|0⟩` to the state with amplitude `a_k·ψ(rest)` at the label reading `k` on
  those wires (wire `i` = bit `i` of `k`).  With `ψ = |0…0⟩` this is `|0…0⟩ ↦ Σ_k a_k|k⟩`,
  amplitude by amplitude, global phase included. -/
theorem C01_topdown_circuit (n : Nat) (hn : 1 ≤ n) (a : Nat → ℂ) (hu : sumSq n (leavesOf a) = 1) :
    ∃ out, topDownInit realTOps n (leavesOf a) true = some out
      ∧ out.alloc.circWidth = n
      ∧ leftSpine out.alloc.tree = (List.range n).reverse
      ∧ ∀ (ψ : State ℂ), ZeroOn (List.range n) ψ → ∀ b,
          sem out.circ ψ b = a (bitsVal n b) * ψ (clr (List.range n) b) := by
  obtain ⟨out, hout, -, -, hsp, -, hw, -⟩ := Dense.topDownInit_spec realTOps n hn (leavesOf a) true
  exact ⟨out, hout, hw, hsp, fun ψ hψ b => Dense.topDownInit_sem n hn a hu out hout ψ hψ b⟩

/-- **C01 (top-down circuit, `global_phase = False`).**  Without the correction the prepared
state is `e^{−i·mean arg}·a`: the deviation is a global phase and nothing else. -/
theorem C01_topdown_nophase (n : Nat) (hn : 1 ≤ n) (a : Nat → ℂ) (hu : sumSq n (leavesOf a) = 1) :
    ∃ out, topDownInit realTOps n (leavesOf a) false = some out
      ∧ ∀ (ψ : State ℂ), ZeroOn (List.range n) ψ → ∀ b,
          Complex.exp (((meanArg realTOps n (leavesOf a) : ℝ) : ℂ) * Complex.I) * sem out.circ ψ b
            = a (bitsVal n b) * ψ (clr (List.range n) b) := by
  obtain ⟨out, hout, -⟩ := Dense.topDownInit_spec realTOps n hn (leavesOf a) false
  exact ⟨out, hout, fun ψ hψ b => Dense.topDownInit_sem_nophase n hn a hu out hout ψ hψ b⟩

/-- Hypotheses of `C01_topdown_circuit` are satisfiable: `a = (3/5, 4i/5)`, input `|0⟩`. -/
example : ∃ (a : Nat → ℂ) (ψ : State ℂ), sumSq 1 (leavesOf a) = 1
    ∧ ZeroOn (List.range 1) ψ ∧ ψ (fun _ => false) = 1 := by
  refine ⟨fun k => if k = 0 then 3/5 else 4/5 * Complex.I, fun b => if b 0 then 0 else 1, ?_, ?_, by simp⟩
  · simp only [sumSq, leavesOf]
    norm_num
  · intro b ⟨w, hw, hb⟩
    simp only [List.mem_range] at hw
    have : w = 0 := by omega
    subst this
    simp [hb]

/-! ## Low-rank / SVD preparation: dispatch and assembly -/

open Qclib.Schmidt Qclib.Plesch

/-- **C01 (`_encode` is a total case split).**  `encodeBranch rows cols` mirrors the
`if / elif / elif / else` of `LowRankInitialize._encode` on `data.shape = (rows, cols)`.  Every
shape is covered by exactly one branch, characterised by its guard: one column ⇒ nested state
preparation; `rows // 2 == cols` ⇒ isometry with the csd scheme; more rows than columns ⇒ isometry
with `iso_scheme`; otherwise ⇒ unitary with `unitary_scheme`.  For the shapes that occur
(`2^a × 2^c`, `c ≤ a`): `c = 0` / `a = c+1` / `a ≥ c+2` / `a = c`.  The strings C07's plan model
prints (`encKind`) are the names of these branches. -/
theorem C01_encode_dispatch (rows cols : Nat) :
    ((encodeBranch rows cols = .sp ↔ cols = 1) ∧
     (encodeBranch rows cols = .isoCsd ↔ cols ≠ 1 ∧ rows / 2 = cols) ∧
     (encodeBranch rows cols = .iso ↔ cols ≠ 1 ∧ rows / 2 ≠ cols ∧ cols < rows) ∧
     (encodeBranch rows cols = .unitary ↔ cols ≠ 1 ∧ rows / 2 ≠ cols ∧ rows ≤ cols))
    ∧ (encodeBranch rows cols = .sp ∨ encodeBranch rows cols = .isoCsd ∨
        encodeBranch rows cols = .iso ∨ encodeBranch rows cols = .unitary)
    ∧ (∀ a c, c ≤ a →
        (encodeBranch (2 ^ a) (2 ^ c) = .sp ↔ c = 0) ∧
        (encodeBranch (2 ^ a) (2 ^ c) = .isoCsd ↔ 1 ≤ c ∧ a = c + 1) ∧
        (encodeBranch (2 ^ a) (2 ^ c) = .iso ↔ 1 ≤ c ∧ c + 2 ≤ a) ∧
        (encodeBranch (2 ^ a) (2 ^ c) = .unitary ↔ 1 ≤ c ∧ a = c))
    ∧ (∀ iso uni, encKind rows cols iso uni = branchName (encodeBranch rows cols) iso uni) :=
  ⟨encode_dispatch rows cols, encode_dispatch_total rows cols,
   fun a c h => encode_dispatch_pow2 a c h, fun iso uni => encKind_eq_branchName rows cols iso uni⟩

example : encodeBranch 8 1 = .sp ∧ encodeBranch 8 4 = .isoCsd ∧ encodeBranch 8 2 = .iso
    ∧ encodeBranch 4 4 = .unitary := by decide

/-- **C01 (rank 1 ⇒ product of two independent preparations).**  If the plan of
`LowRankInitialize._define_initialize` has `rank = 1` then there are no e-bits, no singular-value
block, no CNOT, and both `_encode` calls take the state-preparation branch (one column each): the
circuit is two independent preparations on `reg_b` and `reg_a`.  For `rank ≥ 2` (a power of two)
there are `e = log2 rank ≥ 1` e-bits, exactly `e` CNOTs, and the singular values are prepared by
the state-preparation branch. -/
theorem C01_rank1 (n : Nat) (P : List Nat) (lr : Int) (eff : Nat) (iso uni : String) (plan : Plan)
    (h : lowRankPlan n P lr eff iso uni = some plan) :
    (plan.rank = 1 → plan.ebits = 0 ∧ plan.cxs = [] ∧ plan.encSv = none ∧ plan.encU = "sp"
        ∧ plan.encV = "sp" ∧ plan.regSv = [])
    ∧ (2 ≤ plan.rank → 1 ≤ plan.ebits ∧ plan.cxs.length = plan.ebits ∧ plan.encSv = some "sp"
        ∧ plan.rank = 2 ^ plan.ebits) :=
  ⟨fun h1 => rank1 h h1, fun h2 => rank_ge2 h h2⟩

example : ∃ plan, lowRankPlan 3 [0] 1 2 "ccd" "qsd" = some plan ∧ plan.rank = 1 := ⟨_, rfl, rfl⟩

section assembly
variable {R : Type} [CommRing R]

/-- **C01 (Plesch assembly, wire level).**  Over any commutative ring.  `n` qubits, `P` an
increasing list of qubits `< n` (the partition), `plan` the plan of
`LowRankInitialize._define_initialize` (registers `reg_a = P[::-1]`, `reg_b = complement[::-1]`,
`rank` a power of two, `e` e-bits, CNOT fan-out `reg_b[j] → reg_a[j]`, `j < e`).  Hypotheses (K4
callees): `hsvd` — the bipartition matrix of `v` (C09's `sepMat`) is `Σ_{j<rank} U[r,j]·(t_j·nrm)·
V[j,c]` (SVD specification after the rank cut, `t = s/‖s‖`, `nrm = ‖s‖`); `hMsv` — the
sub-circuit on `reg_b[:e]` has first column `t`; `hMU`, `hMV` — the first `rank` columns of the
sub-circuits on `reg_b`, `reg_a` are `U[:, :rank]` and `V[:rank, :].T`; `ht0` — with `e = 0` the
code skips phase 1, i.e. uses the coefficient `1`.  Then the assembled circuit — singular values on
`reg_b[:e]`, fan-out, `U` on `reg_b`, `Vᵀ` on `reg_a`, `reverse_bits` — maps every input whose wires
`0 … n-1` are `|0⟩` to amplitudes `v[k]/nrm` (`k` = little-endian index read on the wires): with
`nrm = 1` (unit vector, exact arithmetic) it prepares `v` amplitude by amplitude.  Uses C09's
round trip `undo(sep v) = v` and C07's sum identity. -/
theorem C01_plesch_assembly (n : Nat) (P : List Nat) (hs : List.Pairwise (· < ·) P)
    (hlt : ∀ a ∈ P, a < n) (lr : Int) (eff : Nat) (iso uni : String) (plan : Plan)
    (hplan : lowRankPlan n P lr eff iso uni = some plan)
    (heffA : eff ≤ 2 ^ P.length) (heffB : eff ≤ 2 ^ (n - P.length))
    (v : Nat → R) (U V : Nat → Nat → R) (t : Nat → R) (nrm : R)
    (hsvd : ∀ r c, r < 2 ^ (n - P.length) → c < 2 ^ P.length →
      sepMat n P v r c = sumTo plan.rank (fun j => U r j * (t j * nrm) * V j c))
    (Msv MU MV : Nat → Nat → R)
    (hMsv : plan.ebits > 0 → ∀ x, x < plan.rank → Msv x 0 = t x)
    (hMU : ∀ x j, x < 2 ^ plan.regB.length → j < plan.rank → MU x j = U x j)
    (hMV : ∀ y j, y < 2 ^ plan.regA.length → j < plan.rank → MV y j = V j y)
    (ht0 : plan.ebits = 0 → t 0 = 1)
    (ψ : State R) (hz : ZeroOn (List.range n) ψ) (b : Bits) :
    nrm * semP (lowRankCirc n plan Msv MU MV) ψ b = v (bitsVal n b) * ψ (clr (List.range n) b)
    ∧ (nrm = 1 →
        semP (lowRankCirc n plan Msv MU MV) ψ b = v (bitsVal n b) * ψ (clr (List.range n) b)) := by
  have h := plesch_assembly n P hs hlt lr eff iso uni plan hplan heffA heffB v U V t nrm hsvd
    Msv MU MV hMsv hMU hMV ht0 ψ hz b
  refine ⟨h, fun h1 => ?_⟩
  rw [h1, one_mul] at h
  exact h

/-- **C01 (SVDInitialize assembly).**  The same for `SVDInitialize`: rows of the reshaped state
are the HIGH `n//2` bits (`reg_b` = the last `n//2` circuit qubits), columns the low
`n//2 + n%2` bits (`reg_a`), singular values on the whole `reg_b`, CNOTs `reg_b[k] → reg_a[k]`,
`U` on `reg_b`, `Vᵀ` on `reg_a`, no bit reversal. -/
theorem C01_svd_assembly (n : Nat) (v : Nat → R) (U V : Nat → Nat → R) (t : Nat → R) (nrm : R)
    (hsvd : ∀ r c, r < 2 ^ (n / 2) → c < 2 ^ (n / 2 + n % 2) →
      v (r * 2 ^ (n / 2 + n % 2) + c) = sumTo (2 ^ (n / 2)) (fun j => U r j * (t j * nrm) * V j c))
    (Msv MU MV : Nat → Nat → R)
    (hMsv : ∀ x, x < 2 ^ (n / 2) → Msv x 0 = t x)
    (hMU : ∀ x j, x < 2 ^ (n / 2) → j < 2 ^ (n / 2) → MU x j = U x j)
    (hMV : ∀ y j, y < 2 ^ (n / 2 + n % 2) → j < 2 ^ (n / 2) → MV y j = V j y)
    (ψ : State R) (hz : ZeroOn (List.range n) ψ) (b : Bits) :
    nrm * semP (svdCirc n Msv MU MV) ψ b = v (bitsVal n b) * ψ (clr (List.range n) b) :=
  svd_assembly n v U V t nrm hsvd Msv MU MV hMsv hMU hMV ψ hz b

end assembly

/-- Non-vacuity of `C01_plesch_assembly`: two qubits, partition `[0]`, the vector
`3|00⟩ + 5|11⟩` over `ℤ` (`U = V = I₂`, `t = (3, 5)`, `nrm = 1`), rank 2, one e-bit. -/
example : ∃ plan, lowRankPlan 2 [0] 0 2 "ccd" "qsd" = some plan ∧ plan.rank = 2 ∧ plan.ebits = 1
    ∧ plan.cxs = [(1, 0)] := ⟨_, rfl, rfl, rfl, rfl⟩

/-! ## Corollaries from the other properties -/

/-- **C01 (BAA at zero allowed loss, from C08).**  For the strategies `split`, `canonical`,
`brute_force`, `max_fidelity_loss = 0` and an oracle of exact splits: assembling the factors of the
plan `adaptive_approximation` returns (each prepared exactly on its own qubits — this theorem's
hypothesis on the factor preparations is `C01_plesch_assembly`/`C01_topdown_circuit`) gives back
the input vector at every index.  This is `C08_zero_loss` restated. -/
theorem C01_baa_zero {K R : Type} [CommRing K] [LinearOrder K] [IsStrictOrderedRing K]
    [CommMonoid R] (O : Baa.Oracle K) (P : Baa.Params K) (hs : P.strategy ≠ .greedy)
    (n vec maxK : Nat) (hn : 2 ≤ n) (hP : P.maxLoss = 0)
    (hO : ∀ v lp u, ∀ s ∈ O.schmidt v lp u, 0 ≤ s.loss ∧ s.loss ≤ 1)
    (val : Nat → Nat → R) (size : Nat → Nat) (hsize : size vec = n)
    (hex : Baa.ExactSplits O val size)
    (nd : Baa.Node K)
    (h : Baa.adaptiveApproximation (Baa.orderedOps K) O P n vec maxK = some nd) (I : Nat)
    (hI : I < 2 ^ n) :
    Baa.assembled 1 n (nd.entries.map (fun e => (e.qubits, val e.vec))) I = val vec I :=
  C08_zero_loss O P hs n vec maxK hn hP hO val size hsize hex nd h I hI

example : (Baa.Strategy.split : Baa.Strategy) ≠ .greedy := by decide

/-
  Pending corollaries (the other builders' end-to-end theorems do not exist yet):
  * `C01_ucg`      — from C12 at target state 0 (`Props/C12.lean` has no theorem yet): the UCG /
                     UCGE level operators disentangle the qubits one by one and the inverse circuit
                     prepares `v` from `|0…0⟩`.
  * `C01_isometry` — from C03 with `m = 0` (a `2^n × 1` isometry): C03 currently states the
                     ingredients (`C03_ccd_*`, `C03_knill*`, `C03_extend`), not yet
                     "`decompose(V)` applied to `|0…0⟩⊗|k⟩` is column `k`".
  * `C01_baa_zero` for the `greedy` strategy — `C08_zero_loss_partial` needs `ProperCandidates`,
                     which C08 proves for the other strategies only.
  All seven classes are checked end to end by the Statevector oracle on every run.
-/

/-! ## Corollaries added later: UCG / UCGE (from C12) and isometry-based (from C03)

The two corollaries announced as pending above now exist; they literally apply the other
properties' theorems.  (`C01_baa_zero` for `greedy` is `C08_zero_loss_all`, all four strategies, see
`Props/C08.lean`.) -/

section ucg
open Qclib.Ucg Finset
variable {K : Type} [Field K] [StarRing K] {nrm : K → K → K} {isZero : K → Bool}

/-- **C01 (UCGInitialize / UCGEInitialize, from C12 at target state 0).**  For all `n ≥ 1` and
every unit vector `v` (zeros allowed), `preserve_previous` on or off: under the same hypothesis as
`C12_column_t` — each level's UCGate circuit meets qiskit's specification `Diag(d q)·Uc q =
(multiplexer handed to UCGate)` with unit-modulus diagonals, trivial at the last level — the
level loop of `_define_initialize` (children / parents / multiplexers of the executable model)
maps `v` to `|0…0⟩` exactly, and therefore every left inverse of it (`circuit.inverse()`, the
circuit the class returns) maps `|0…0⟩` to `v`, amplitude by amplitude, no global phase left.
For `UCGEInitialize` the multiplexer handed to UCGate is the simplified list; by
`C12_ucge_simplify` it acts on every label as the original multiplexer, so the hypothesis is the
same.  This is `C12_column_t` at `t = 0`. -/
theorem C01_ucg (hN : NrmSpec nrm) (hz : ZeroSpec isZero) (preserve : Bool) (n : Nat) (hn : 1 ≤ n)
    (d : Nat → Nat → K) (hd : ∀ q k, d q k * star (d q k) = 1) (hlast : ∀ k, d (n - 1) k = 1)
    (v : Nat → K) (hv : ∑ i ∈ range (2 ^ n), v i * star (v i) = 1) (hv0 : ∀ i, 2 ^ n ≤ i → v i = 0)
    (Uc : Nat → Vec K → Vec K) (hU : UcSpec nrm isZero preserve n 0 d v Uc) :
    fwd (preGate nrm isZero preserve 0 d v) Uc n v = delta 0
    ∧ (∀ W : Vec K → Vec K, (∀ ψ, W (fwd (preGate nrm isZero preserve 0 d v) Uc n ψ) = ψ) →
        W (delta 0) = v) :=
  have h := C12_column_t hN hz preserve n 0 hn (Nat.pos_of_ne_zero (by simp)) d hd hlast v hv hv0 Uc hU
  ⟨h.1, h.2.1⟩

/-- the vector `(i, 0)` of the non-vacuity example. -/
noncomputable def c01ExV : Nat → ℂ := fun i => if i = 0 then Complex.I else 0

/-- Non-vacuity of `C01_ucg`: over `ℂ` with the true pair norm, `n = 1`, `v = (i, 0)`, trivial
diagonals and the exact multiplexer as circuit meet every hypothesis. -/
example : ∃ (Uc : Nat → Vec ℂ → Vec ℂ),
    (∑ i ∈ range (2 ^ 1), c01ExV i * star (c01ExV i) = 1) ∧ c01ExV 0 ≠ 0 ∧
    UcSpec cnrm cIsZero false 1 0 (fun _ _ => 1) c01ExV Uc ∧
    fwd (preGate cnrm cIsZero false 0 (fun _ _ => 1) c01ExV) Uc 1 c01ExV = delta 0 := by
  have hsum : ∑ i ∈ range (2 ^ 1), c01ExV i * star (c01ExV i) = 1 := by
    simp [c01ExV]
  have hU : UcSpec cnrm cIsZero false 1 0 (fun _ _ => 1) c01ExV
      (fun q ψ => muxApply (usedMux cnrm cIsZero false 0 (fun _ _ => 1) c01ExV q) q ψ) := by
    intro q _ ψ i; rw [one_mul]
  refine ⟨_, hsum, by simp [c01ExV], hU, ?_⟩
  refine (C01_ucg nrmSpec_complex zeroSpec_complex false 1 (by omega)
      (fun _ _ => 1) (by simp) (by simp) c01ExV hsum ?_ _ hU).1
  intro i hi; simp [c01ExV]; omega

end ucg

section isometry
open Qclib.Iso Matrix

/-- **C01 (IsometryInitialize, from C03 with `m = 0`: a `2^n × 1` isometry).**  The three schemes
of `qclib.isometry.decompose` on a single column, each statement an instance of a C03 theorem:
* **ccd** (`C03_ccd_sweep` with one column): for every `n` and every unit vector `v ∈ ℂ^(2^n)` the
  sweep — here the single `G_0`, built from the exact Lemma-2 matrices — maps `v` to `φ·e_0` with
  `|φ|² = 1`; the closing `DiagonalGate` removes `φ` and the inverted circuit maps `|0…0⟩` to `v`;
* **csd / knill, extension** (`C03_extend` with a one-column `V`): given the null-space
  specification, `_extend_to_unitary` returns a matrix that is unitary on both sides and whose
  column `|0…0⟩` is `v` — the matrix handed to the unitary synthesis (C02) by `csd`;
* **knill** (`C03_knill`): for an orthonormal complete eigenbasis of that unitary `U = Σ λ_i
  |w_i⟩⟨w_i|`, any block order and any rule dropping only eigenvalues `1`, the product of the
  emitted factors has column `|0…0⟩` equal to `v`. -/
theorem C01_isometry :
    (∀ (n : Nat) (v : Nat → ℂ), ip (starRingEnd ℂ) n v v = 1 →
      (∀ r, r < 2 ^ n → r ≠ 0 → sweep complexChooser n 1 (fun _ => v) 0 r = 0) ∧
      (starRingEnd ℂ) (sweep complexChooser n 1 (fun _ => v) 0 0)
        * sweep complexChooser n 1 (fun _ => v) 0 0 = 1)
    ∧ (∀ {ι ν R : Type} [CommRing R] [StarRing R] [Fintype ι] [DecidableEq ι] [Fintype ν]
        [DecidableEq ν] (V : Matrix ι (Fin 1) R) (Nsp : Matrix ι ν R),
        Vᴴ * V = 1 → Vᵀ * Nsp = 0 → Nspᴴ * Nsp = 1 →
        Fintype.card ι = Fintype.card (Fin 1) + Fintype.card ν →
        (Extend.extend V Nsp)ᴴ * Extend.extend V Nsp = 1 ∧
        Extend.extend V Nsp * (Extend.extend V Nsp)ᴴ = 1 ∧
        ∀ x, Extend.extend V Nsp x (Sum.inl 0) = V x 0)
    ∧ (∀ {ι κ R : Type} [CommRing R] [StarRing R] [Fintype ι] [DecidableEq ι] [DecidableEq κ]
        [Fintype κ] (w : κ → ι → R) (lam : κ → R),
        (∀ i j, star (w i) ⬝ᵥ w j = if i = j then 1 else 0) → ∑ i, Knill.proj (w i) = 1 →
        ∀ (keep : κ → Bool), (∀ i, keep i = false → lam i = 1) →
        ∀ l : List κ, l.Nodup → (∀ i, i ∈ l) →
        ∀ (U : Matrix ι ι R), U = ∑ i, lam i • Knill.proj (w i) →
        ∀ (i0 : ι) (v : ι → R), (∀ x, U x i0 = v x) →
        ∀ x, ((l.filter keep).map (fun i => 1 + (lam i - 1) • Knill.proj (w i))).prod x i0 = v x) := by
  refine ⟨fun n v hv => ?_, ?_, ?_⟩
  · exact C03_ccd_sweep n 1 (Nat.pos_of_ne_zero (by simp)) (fun _ => v)
      (fun c c' h1 h2 => absurd h2 (by omega)) (fun _ _ => hv) 0 (by omega)
  · intro ι ν R _ _ _ _ _ _ V Nsp hV hnull hiso hcard
    have h := C03_extend V Nsp hV hnull hiso hcard
    exact ⟨h.2.1, h.2.2, fun x => rfl⟩
  · intro ι κ R _ _ _ _ _ _ w lam horth hcomp keep hkeep l hnd hall U hU i0 v hcol x
    rw [(C03_knill w lam horth).2 hcomp keep hkeep l hnd hall, ← hU]
    exact hcol x

/-- Non-vacuity of `C01_isometry`: the unit vector `(3/5, 4i/5)` meets the ccd hypothesis, and the
one-column isometry `exV` with null space `exN` meets the extension hypotheses. -/
example : ip (starRingEnd ℂ) 1 (fun r => if r = 0 then (3 / 5 : ℂ) else 4 / 5 * Complex.I)
      (fun r => if r = 0 then (3 / 5 : ℂ) else 4 / 5 * Complex.I) = 1
    ∧ Extend.exVᴴ * Extend.exV = 1 ∧ Extend.exVᵀ * Extend.exN = 0 ∧ Extend.exNᴴ * Extend.exN = 1 := by
  refine ⟨?_, Extend.ex_spec.1, Extend.ex_spec.2.1, Extend.ex_spec.2.2.1⟩
  simp only [ip, Nat.pow_one, Finset.sum_range_succ, Finset.sum_range_zero, zero_add]
  simp only [if_true, one_ne_zero, if_false, map_mul, map_div₀, Complex.conj_I, map_ofNat]
  ring_nf
  rw [Complex.I_sq]
  norm_num

end isometry

end Qclib
