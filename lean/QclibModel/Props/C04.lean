import QclibModel.Spec.Mcsu
import QclibModel.Proofs.McsuCtrl
import QclibModel.Proofs.McsuSlices
import QclibModel.Proofs.McsuCore
import QclibModel.Proofs.McsuGateA
import QclibModel.Proofs.McsuAbc
import QclibModel.Proofs.McsuMulti
import QclibModel.Proofs.McsuCircuit
import QclibModel.Proofs.McsuAbcReal
import QclibModel.Proofs.RotReal
import QclibModel.Proofs.McsuFullSpec
import QclibModel.Proofs.McsuFullMulti
import QclibModel.Proofs.McsuFullAbc
import Mathlib.Analysis.SpecialFunctions.Pow.Complex
import QclibModel.Proofs.McxAoBracket
import QclibModel.Proofs.McsuEigFull
/-
  C04 (part A) — the special-unitary multi-controlled gates `Ldmcsu`, `LdMcSpecialUnitary`,
  `MultiTargetMCSU2` and `apply_ctrl_state`.  Property theorems only; helper lemmas live in
  Proofs/Mcsu*.lean, the executable model in Model/Mcsu.lean (tied to the code by
  tools/props/c04.py).

  Reading guide.  `applyMcu lits U t` (Sem/Basic.lean) is the ideal operator of the property:
  "apply `U` to wire `t` iff every control literal `(wire, value)` of `lits` holds, identity
  otherwise", as a transformer of amplitude functions; equalities are for every state `ψ`
  (superposed controls and spectators included).  The dirty-ancilla MCX sub-circuits
  (`McxVchainDirty`, `LinearMcx`) enter these theorems as the ideal `applyMcu lits X t` — that the
  real sub-circuits denote it, with every borrowed qubit restored, is C05 (`C05_vchain`,
  `C05_linear`); `C04_slices` shows the wire lists handed to them satisfy C05's layout hypothesis.
-/
namespace Qclib
open Mcsu

/-- **C04_ctrl_state** (`apply_ctrl_state`, gates/util.py).  For every duplicate-free control
list `cw`, every pattern the code accepts (`r` = the string reversed, as the code reads it;
`zeroWires` = the wires that receive an `x`), every target `t` outside the controls and every
2×2 matrix `m` over a commutative ring: X layer · all-ones-controlled `m` · X layer is the gate
controlled on "control `cw[i]` reads `r[i]`" (controls beyond the string read 1), on every state. -/
theorem C04_ctrl_state {R : Type} [CommRing R] (cw : List Nat) (r : List Bool) (zs : List Nat)
    (hn : cw.Nodup) (h : zeroWires cw r = some zs) (m : Mat2 R) (t : Nat) (ht : t ∉ cw)
    (ψ : State R) :
    xLayer zs (applyMcu (allOnes cw) m t (xLayer zs ψ)) = applyMcu (litsOf cw r) m t ψ :=
  ctrl_state_conj cw r zs hn h m t ht ψ

/-- The same on basis labels: flipping the returned wires turns "all ones" into "reads the
pattern"; the returned wires are distinct controls. -/
theorem C04_ctrl_state_bits (cw : List Nat) (r : List Bool) (zs : List Nat) (hn : cw.Nodup)
    (h : zeroWires cw r = some zs) :
    (∀ z ∈ zs, z ∈ cw) ∧ zs.Nodup ∧
      ∀ b, ctrlOk (allOnes cw) (flipSet zs b) = ctrlOk (litsOf cw r) b :=
  zeroWires_spec cw r zs hn h

example : zeroWires [4, 7, 9] (parseCs "010").reverse = some [4, 9] := by decide
example : litsOf [4, 7, 9] (parseCs "010").reverse = [(4, false), (7, true), (9, false)] := by decide
/-- a `'0'` beyond the controls is the code's `IndexError` -/
example : zeroWires [4] (parseCs "01").reverse = none := by decide

/-- **C04_slices** (`linear_depth_mcv`, `half_linear_depth_mcv`, `clinear_depth_mcv`).  For every
control list `cw` with `k = |cw| ≥ 2` and target list `ts` such that `cw ++ ts` has no
duplicates:
* the wire list of each half-size MCX is controls ++ dirty ancillas ++ targets with exactly
  `k_i`, `k_i - 2` (truncated, i.e. `max(k_i-2,0)`) and `|ts|` wires — what `McxVchainDirty(k_i)`
  declares (`k_1 = ⌈k/2⌉`, `k_2 = ⌊k/2⌋`);
* each list is duplicate-free (controls vs ancillas vs targets pairwise different);
* the two control halves concatenate to the control register, the dirty ancillas of one half are
  controls of the other half;
* for every pattern string `cs`, reading the two pattern slices on the two halves gives the
  literals of the whole pattern on the whole register, and if `|cs| = k` the slices have lengths
  `k_1`, `k_2`. -/
theorem C04_slices (cw ts : List Nat) (hk : 2 ≤ cw.length) (hn : (cw ++ ts).Nodup) :
    (wires1 cw ts = ctl1 cw ++ anc1 cw ++ ts ∧ wires2 cw ts = ctl2 cw ++ anc2 cw ++ ts)
    ∧ ((ctl1 cw).length = k1 cw.length ∧ (anc1 cw).length = k1 cw.length - 2
        ∧ (ctl2 cw).length = k2 cw.length ∧ (anc2 cw).length = k2 cw.length - 2)
    ∧ ((wires1 cw ts).Nodup ∧ (wires2 cw ts).Nodup)
    ∧ (ctl1 cw ++ ctl2 cw = cw ∧ (∀ w ∈ anc1 cw, w ∈ ctl2 cw) ∧ (∀ w ∈ anc2 cw, w ∈ ctl1 cw))
    ∧ (∀ cs : List Bool,
        litsOf (ctl1 cw) (csK1 cs cw.length).reverse ++ litsOf (ctl2 cw) (csK2 cs cw.length).reverse
          = litsOf cw cs.reverse)
    ∧ (∀ cs : List Bool, cs.length = cw.length →
        (csK1 cs cw.length).length = k1 cw.length ∧ (csK2 cs cw.length).length = k2 cw.length) :=
  ⟨⟨rfl, rfl⟩,
   ⟨ctl1_length cw (by omega), anc1_length cw hk, ctl2_length cw, anc2_length cw hk⟩,
   ⟨wires1_nodup cw ts hn, wires2_nodup cw ts hn⟩,
   ⟨ctl1_append_ctl2 cw, anc1_subset cw, anc2_subset cw⟩,
   fun cs => pattern_split cw cs,
   fun cs h => pattern_lengths cs cw.length h⟩

example : wires1 [0, 1, 2, 3, 4, 5, 6] [7] = [0, 1, 2, 3, 4, 5, 7]
    ∧ wires2 [0, 1, 2, 3, 4, 5, 6] [7] = [4, 5, 6, 3, 7] := by decide
example : csK1 "0110100".toList 7 = "0100".toList ∧ csK2 "0110100".toList 7 = "011".toList := by
  decide

/-- **C04_ldmcsu_core** (Theorem 1 of arXiv:2302.06377 as coded in `linear_depth_mcv`).  Over any
commutative ring, for control-literal lists `l1`, `l2` not mentioning the target `t` and any 2×2
matrices with `A·A' = A'·A = 1`: the time-ordered sequence
`MCX₁, A, MCX₂, A', MCX₁, A, MCX₂, A'` (`MCX_i` = ideal X on `t` controlled on `l_i`; `MCX₂⁻¹ = MCX₂`)
equals the gate controlled on `l1 ++ l2` with matrix `(A'·X·A·X)²` (operator order) — i.e. the
target sees that product when both halves fire and the identity in the three other cases — for
every state `ψ`. -/
theorem C04_ldmcsu_core {R : Type} [CommRing R] (l1 l2 : List (Nat × Bool)) (t : Nat)
    (A A' : Mat2 R) (hA : A * A' = 1) (hA' : A' * A = 1) (h1 : Avoids l1 t) (h2 : Avoids l2 t)
    (ψ : State R) :
    applyMcu [] A' t (applyMcu l2 Mat2.X t (applyMcu [] A t (applyMcu l1 Mat2.X t
      (applyMcu [] A' t (applyMcu l2 Mat2.X t (applyMcu [] A t (applyMcu l1 Mat2.X t ψ)))))))
      = applyMcu (l1 ++ l2) (A' * Mat2.X * A * Mat2.X * (A' * Mat2.X * A * Mat2.X)) t ψ :=
  core_seq l1 l2 t A A' hA hA' h1 h2 ψ

/-- non-vacuity: an invertible integer matrix whose core product is not the identity -/
example : (⟨1, 1, 0, 1⟩ : Mat2 Int) * ⟨1, -1, 0, 1⟩ = 1
    ∧ coreW (⟨1, 1, 0, 1⟩ : Mat2 Int) ⟨1, -1, 0, 1⟩ = ⟨-1, -1, 1, 0⟩ := by
  constructor <;> apply Mat2.ext' <;> decide

/-- **C04_ldmcsu_circuit** (the model of `linear_depth_mcv`, `general_su2_optimization=False`).
For every `k ≥ 2` controls on pairwise different wires `cw`, a target `t` outside them and every
pattern `cs` (`none` = all ones): if the model emits a gate list `gs` (qiskit's `UnitaryGate`
accepted `op_a`), then — interpreting the two `McxVchainDirty` placements by the ideal MCX
(`IdealMv`: exactly the statement of `C05_vchain` for the wire lists of `C04_slices`) — `gs`
denotes "apply `(A' X A X)²` to the target iff the controls read the pattern" on every state;
`A`, `A'` are the images of the model's `op_a` and of its conjugate transpose, assumed mutually
inverse (`C04_gate_a` proves this, and `(A' X A X)² = U` resp. `H U H`, for the real instance). -/
theorem C04_ldmcsu_circuit {K R : Type} [CommRing R] (o : ROps K) (ι : CMat K → Mat2 R) (rh : R)
    (M : McxSem R) (hM : IdealMv M) (u : CMat K) (cw : List Nat) (t : Nat)
    (cs : Option (List Bool)) (gs : List (SG K)) (hk : 2 ≤ cw.length) (hn : (cw ++ [t]).Nodup)
    (hg : linearDepthMcv o u cw t cs false = some gs)
    (hA : ι (computeGateA o (getXZ o u).1 (getXZ o u).2)
        * ι (adj o (computeGateA o (getXZ o u).1 (getXZ o u).2)) = 1)
    (hA' : ι (adj o (computeGateA o (getXZ o u).1 (getXZ o u).2))
        * ι (computeGateA o (getXZ o u).1 (getXZ o u).2) = 1)
    (ψ : State R) :
    semSG ι rh M gs ψ
      = applyMcu (litsOf cw (cs.getD []).reverse)
          (coreW (ι (computeGateA o (getXZ o u).1 (getXZ o u).2))
            (ι (adj o (computeGateA o (getXZ o u).1 (getXZ o u).2)))) t ψ :=
  linearDepthMcv_sem o ι rh M hM u cw t cs gs hk hn hg hA hA' ψ

/-- non-vacuity of `IdealMv`: the interpretation that reads controls and target off the wire
list satisfies it -/
example : IdealMv (R := Int)
    ⟨fun k _ ws cs _ _ => applyMcu (litsOf (ws.take k) (cs.getD []).reverse) Mat2.X (ws.getD (k + (k - 2)) 0),
     fun _ _ _ _ ψ => ψ⟩ := by
  intro cw anc t cs inv ψ _ ha _
  have e1 : (cw ++ anc ++ [t]).take cw.length = cw := by simp
  have e2 : (cw ++ anc ++ [t]).getD (cw.length + (cw.length - 2)) 0 = t := by
    rw [← ha, ← List.length_append]; simp
  simp only [e1, e2]

/-- **C04_gate_a** (`Ldmcsu._compute_gate_a`, branch `x ≠ 0`), over `ℝ`/`ℂ` with `Real.sqrt`.
For real `x ≠ 0` and `z = p + iq` with `x² + |z|² = 1`:
* the point where the code divides by zero, `Re z = -1`, is not reached (`0 < Re z + 1`); the
  model computes `1 + Re z` the way the code does (as `(x² + Im z²)/(1 - Re z)` when `Re z < 0`,
  which avoids the floating-point cancellation near `-I`; in exact arithmetic it is `1 + Re z`);
* the matrix `A = [[α, -β], [β, conj α]]` the model computes is unitary;
* the both-halves-fire product `(A† X A X)²` is `[[conj z, x], [-x, z]]`, which is `U` itself
  when `(x, z)` come from `_get_x_z` (see `C04_h_conj`). -/
theorem C04_gate_a (r4 : ℝ → ℝ → ℝ × ℝ) (cosH sinH : ℝ → ℝ) (x p q : ℝ)
    (hn : x ^ 2 + (p ^ 2 + q ^ 2) = 1) (hx : x ≠ 0) :
    0 < p + 1 ∧
    (let A := toMat (computeGateA (realOps r4 cosH sinH) x ⟨p, q⟩)
     A * adjC A = 1 ∧ adjC A * A = 1 ∧ coreW A (adjC A) = wMat x ⟨p, q⟩) :=
  ⟨re_gt_of_x_ne x p q (by linarith) hx, gate_a_general r4 cosH sinH x p q hn hx⟩

/-- **C04_gate_a, branch `x = 0`** (`alpha = z ** (1/4)`, `beta = 0`).  Given the specification
of the principal fourth root on this input (`alpha⁴ = z`; a K4 input of the model) and `|z| = 1`,
the diagonal gate is unitary and `(A† X A X)² = diag(conj z, z)`.  `U = -I` (real diagonals,
`x = 0`, `z = -1`) takes this branch, so the excluded point of the other branch is reached only by
floating-point inputs with `x` tiny but non-zero. -/
theorem C04_gate_a_diag (r4 : ℝ → ℝ → ℝ × ℝ) (cosH sinH : ℝ → ℝ) (p q : ℝ)
    (hn : p ^ 2 + q ^ 2 = 1) (hr : (⟨(r4 p q).1, (r4 p q).2⟩ : ℂ) ^ 4 = ⟨p, q⟩) :
    let A := toMat (computeGateA (realOps r4 cosH sinH) 0 ⟨p, q⟩)
    A * adjC A = 1 ∧ adjC A * A = 1 ∧ coreW A (adjC A) = wMat 0 ⟨p, q⟩ := by
  have := gate_a_diag r4 cosH sinH p q hn hr
  refine ⟨this.1, this.2.1, ?_⟩
  rw [this.2.2]
  apply Mat2.ext' <;> apply Complex.ext <;> simp [wMat]

/-- non-vacuity: `x = 3/5`, `z = 4/5`; and `z = -1` with the fourth root `e^{iπ/4}`-like pair
replaced by the exact root `i` of `z = 1`… (here: `z = 1`, root `1`) -/
example : ((3 : ℝ) / 5) ^ 2 + (((4 : ℝ) / 5) ^ 2 + 0 ^ 2) = 1 ∧ ((3 : ℝ) / 5) ≠ 0 := by norm_num
example : ((⟨1, 0⟩ : ℂ)) ^ 4 = ⟨1, 0⟩ := by
  apply Complex.ext <;> simp [pow_succ, Complex.mul_re, Complex.mul_im]

/-- **C04_h_conj** (`_get_x_z` and the H sandwich of `_define`).  For an SU(2) matrix
`U = [[a, b], [-conj b, conj a]]`:
* if `b` is real, `_get_x_z U = (b, conj a)` and `U = [[conj z, x], [-x, z]]` for that pair;
* if `a` is real and `b` is not, `_get_x_z U = (-Re b, a - i·Im b)` and
  `H·U·H = [[conj z, x], [-x, z]]` for that pair (`H` = Hadamard with `2·rh² = 1`);
in both cases `x² + |z|² = |a|² + |b|²` (`= 1`), the hypothesis of `C04_gate_a`. -/
theorem C04_h_conj (r4 : ℝ → ℝ → ℝ × ℝ) (cosH sinH : ℝ → ℝ) (ar ai br bi : ℝ) (rh : ℂ)
    (hrh : 2 * (rh * rh) = 1) :
    (let u := su2Mat ar ai br 0
     let xz := getXZ (realOps r4 cosH sinH) u
     xz = (br, ⟨ar, -ai⟩) ∧ toMat u = wMat xz.1 xz.2
       ∧ xz.1 ^ 2 + (xz.2.re ^ 2 + xz.2.im ^ 2) = ar ^ 2 + ai ^ 2 + br ^ 2)
    ∧ (bi ≠ 0 →
     let u := su2Mat ar 0 br bi
     let xz := getXZ (realOps r4 cosH sinH) u
     let H : Mat2 ℂ := ⟨rh, rh, rh, -rh⟩
     xz = (-br, ⟨ar, -bi⟩) ∧ H * toMat u * H = wMat xz.1 xz.2
       ∧ xz.1 ^ 2 + (xz.2.re ^ 2 + xz.2.im ^ 2) = ar ^ 2 + (br ^ 2 + bi ^ 2)) :=
  ⟨get_x_z_secondary r4 cosH sinH ar ai br, fun hb => h_conj r4 cosH sinH ar br bi hb rh hrh⟩

/-- **C04_abc** (`get_abc_operators` + `_apply_abc`).  In any commutative ring with the rotation
laws (instance `ℝ → ℂ`: Proofs/RotReal.lean) and `half` = halving of angles: for the ZYZ angles
`(β, γ, δ) = (phi, theta, lam)`, `A·B·C = I` and `A·X·B·X·C = RZ(β)·RY(γ)·RZ(δ)`; and for any
`A B C` with `A·B·C = I` the circuits `C, MCX, B, MCX, A` (fewer than three controls) and
`C^anc, MCX_rest, B^anc, MCX_rest, A^anc` (`anc` = last control, at least three controls) denote
the gate controlled on all controls with matrix `A·X·B·X·C`, on every state. -/
theorem C04_abc {Θ R : Type} [AddCommGroup Θ] [CommRing R] [RotSem Θ R] [RotLaws Θ R]
    (half : Θ → Θ) (hh : IsHalf half) (β γ δ : Θ) :
    ((abcA half β γ : Mat2 R) * abcB half β γ δ * abcC half β δ = 1
      ∧ (abcA half β γ : Mat2 R) * Mat2.X * abcB half β γ δ * Mat2.X * abcC half β δ
          = matRZ β * matRY γ * matRZ δ)
    ∧ (∀ (l : List (Nat × Bool)) (anc : Nat × Bool) (t : Nat) (A B C : Mat2 R),
        A * B * C = 1 → Avoids l t → anc.1 ≠ t → ∀ ψ : State R,
        applyMcu [] A t (applyMcu l Mat2.X t (applyMcu [] B t (applyMcu l Mat2.X t
            (applyMcu [] C t ψ)))) = applyMcu l (A * Mat2.X * B * Mat2.X * C) t ψ
        ∧ applyMcu [anc] A t (applyMcu l Mat2.X t (applyMcu [anc] B t (applyMcu l Mat2.X t
            (applyMcu [anc] C t ψ)))) = applyMcu (l ++ [anc]) (A * Mat2.X * B * Mat2.X * C) t ψ) :=
  ⟨⟨abc_one hh β γ δ, abc_u hh β γ δ⟩,
   fun l anc t A B C habc hl ha ψ => ⟨abc_seq l t A B C habc hl ψ, abc_seq2 l anc t A B C habc hl ha ψ⟩⟩

/-- **C04_abc for the executable model.**  The matrices `get_abc_operators` of the model computes
in its real instance (`cos (θ/2)`, `sin (θ/2)`), read as complex matrices, satisfy `A·B·C = I` and
`A·X·B·X·C = RZ(β)·RY(γ)·RZ(δ)` (`= U` by the `_params_zyz` specification, a K4 input). -/
theorem C04_abc_model (r4 : ℝ → ℝ → ℝ × ℝ) (β γ δ : ℝ) :
    let r := abcOperators (trigOps r4) β γ δ
    toMat r.1 * toMat r.2.1 * toMat r.2.2 = 1
      ∧ toMat r.1 * Mat2.X * toMat r.2.1 * Mat2.X * toMat r.2.2
          = (matRZ β : Mat2 ℂ) * matRY γ * matRZ δ := by
  intro r
  have hh : IsHalf (fun a : ℝ => a / 2) := ⟨fun a b => by ring, fun a => by ring⟩
  obtain ⟨e1, e2, e3⟩ := abcOperators_eq r4 β γ δ
  rw [e1, e2, e3]
  exact ⟨abc_one hh β γ δ, abc_u hh β γ δ⟩

/-- non-vacuity: halving of real angles, with the `ℝ → ℂ` rotation instance -/
example : IsHalf (fun a : ℝ => a / 2) := ⟨fun a b => by ring, fun a => by ring⟩
noncomputable example : RotLaws ℝ ℂ := inferInstance

/-- **C04_multitarget** (`MultiTargetMCSU2.clinear_depth_mcv`).  For targets on pairwise
different wires outside the controls, each with its own `A_j`, `A_j'` (`A_j·A_j' = A_j'·A_j = 1`):
the shared-control chain `MCX₁(all targets), A_j's, MCX₂, A_j'⁻¹s, MCX₁, A_j's, MCX₂, A_j'⁻¹s` (each
MCX the ideal X on every target under the half's literals) applies to each target its own
`(A_j' X A_j X)²` controlled on `l1 ++ l2` — on every state. -/
theorem C04_multitarget {R : Type} [CommRing R] (l1 l2 : List (Nat × Bool)) (G : List (Tgt R))
    (h : TgtOk l1 l2 G) (ψ : State R) :
    multiSeq l1 l2 G ψ = G.foldl (fun s g => applyMcu (l1 ++ l2) (coreW g.A g.A') g.t s) ψ :=
  multi_seq l1 l2 G h ψ

example : TgtOk [(0, true)] [(1, false)] [(⟨⟨1, 1, 0, 1⟩, ⟨1, -1, 0, 1⟩, 2⟩ : Tgt Int),
    ⟨⟨1, 0, 2, 1⟩, ⟨1, 0, -2, 1⟩, 3⟩] :=
  ⟨by decide, by intro g hg; simp at hg; rcases hg with rfl | rfl <;> intro cv hcv <;> simp at hcv <;> simp [hcv],
   by intro g hg; simp at hg; rcases hg with rfl | rfl <;> intro cv hcv <;> simp at hcv <;> simp [hcv],
   by intro g hg; simp at hg; rcases hg with rfl | rfl <;>
     exact ⟨by apply Mat2.ext' <;> decide, by apply Mat2.ext' <;> decide⟩⟩

/-! ### Unconditional circuit-level statements (C05 composed in)

The skeleton keeps each dirty-ancilla MCX as one constructor; `expandAll a neg gs` replaces every
constructor by the primitive gates of the C05 model (`expandMcxv` = `vchainW` on the wire list, and
`invCirc` for qiskit's `.inverse()`), exactly what the driver prints and the tie compares with the
flattened real circuit.  `semMG ι ms` is the denotation of that mixed list: `applyMcu` for the
opaque `unitary` gates, `denote` (Sem/Denote.lean) for the primitive gates.  The theorems below
have **no** hypothesis about the MCX sub-circuits. -/

/-- **C04_ldmcsu_full** (`Ldmcsu.linear_depth_mcv`, `general_su2_optimization=False`, V-chains
expanded).  For every `k ≥ 2` controls on pairwise different wires `cw`, a target `t` outside them,
every pattern `cs` (`none` = all ones) and every state `ψ`: if the model emits the skeleton `gs`
and its expansion to primitive gates `ms` exists (it does for every pattern no longer than `k`:
`C04_ldmcsu_full_defined`), then `ms` — the two `McxVchainDirty(k_1)`, the
`McxVchainDirty(k_2)` and the `McxVchainDirty(k_2).inverse()` written out as `u`/`cx`/`ccx`/`mcx`/`x`
gates — denotes "apply `(A' X A X)²` to the target iff the controls read the pattern".  Angles:
any abelian group of angles with the rotation laws and `π/4, -π/4, 0` satisfying `Pi8` (instance
`ℝ → ℂ`: `pi8_real`); `A`, `A'` are the images of the model's `op_a` and of its conjugate
transpose, assumed mutually inverse (`C04_gate_a` proves this for the real instance; see
`C04_ldmcsu_spec`).  Every borrowed control is restored whatever (superposed) state it is in. -/
theorem C04_ldmcsu_full {K Θ R : Type} [AddCommGroup Θ] [CommRing R] [RotSem Θ R] [RotLaws Θ R]
    (o : ROps K) (a : McxAngles Θ) (hp : Pi8 R a) (ι : CMat K → Mat2 R) (u : CMat K)
    (cw : List Nat) (t : Nat) (cs : Option (List Bool)) (gs : List (SG K)) (ms : List (MG K Θ))
    (hk : 2 ≤ cw.length) (hn : (cw ++ [t]).Nodup)
    (hg : linearDepthMcv o u cw t cs false = some gs)
    (hx : expandAll a (fun x : Θ => -x) gs = some ms)
    (hA : ι (computeGateA o (getXZ o u).1 (getXZ o u).2)
        * ι (adj o (computeGateA o (getXZ o u).1 (getXZ o u).2)) = 1)
    (hA' : ι (adj o (computeGateA o (getXZ o u).1 (getXZ o u).2))
        * ι (computeGateA o (getXZ o u).1 (getXZ o u).2) = 1)
    (ψ : State R) :
    semMG ι ms ψ
      = applyMcu (litsOf cw (cs.getD []).reverse)
          (coreW (ι (computeGateA o (getXZ o u).1 (getXZ o u).2))
            (ι (adj o (computeGateA o (getXZ o u).1 (getXZ o u).2)))) t ψ :=
  linearDepthMcv_full o a hp ι u cw t cs gs ms hk hn hg hx hA hA' ψ

/-- **C04_vchain_inverse** (the lemma behind `mcx_2.inverse()`).  On a duplicate-free wire list
`cw ++ anc ++ ts` (`|anc| = |cw| - 2`, at least one control and one target) the expanded
`McxVchainDirty(|cw|, |ts|, cs).definition` **and** qiskit's `.inverse()` of it (reversed list,
`u(θ,φ,λ) ↦ u(-θ,-λ,-φ)`) both denote "flip every wire of `ts` iff control `cw[i]` reads
`cs[::-1][i]`" on every state: every gate of the chain is well formed on such a layout, so the
inverse list undoes the chain, and the ideal MCX is an involution. -/
theorem C04_vchain_inverse {Θ R : Type} [AddCommGroup Θ] [CommRing R] [RotSem Θ R] [RotLaws Θ R]
    (a : McxAngles Θ) (hp : Pi8 R a) (cw anc ts : List Nat) (cs : Option (List Bool))
    (hn : (cw ++ anc ++ ts).Nodup) (ha : anc.length = cw.length - 2) (h1 : 1 ≤ cw.length)
    (ht : 1 ≤ ts.length) (c : Circ Θ)
    (hc : expandMcxv a cw.length ts.length (cw ++ anc ++ ts) cs false = some c) (inv : Bool)
    (ψ : State R) :
    sem (if inv then invCirc (fun x : Θ => -x) c else c) ψ
      = mcxIdeal (litsOf cw (cs.getD []).reverse) ts ψ :=
  vchain_on_list a hp cw anc ts cs hn ha h1 ht c hc inv ψ

/-- Non-vacuity of `C04_vchain_inverse`: four controls with pattern `0110` on wires `7,2,5,3`,
borrowed wires `0,9`, two targets `4,8`: the expansion exists, and both it and its inverse
denote the ideal two-target MCX. -/
example (ψ : State ℂ) : ∃ c, expandMcxv realAngles 4 2 [7, 2, 5, 3, 0, 9, 4, 8]
      (some (parseCs "0110")) false = some c
    ∧ sem c ψ = mcxIdeal [(7, false), (2, true), (5, true), (3, false)] [4, 8] ψ
    ∧ sem (invCirc (fun x : ℝ => -x) c) ψ
        = mcxIdeal [(7, false), (2, true), (5, true), (3, false)] [4, 8] ψ := by
  obtain ⟨c, hc⟩ := expandMcxv_defined realAngles 4 2 [7, 2, 5, 3, 0, 9, 4, 8]
    (some (parseCs "0110")) false (by decide) (by intro p hp; cases hp; decide)
  refine ⟨c, hc, ?_, ?_⟩
  · exact C04_vchain_inverse realAngles pi8_real [7, 2, 5, 3] [0, 9] [4, 8] _ (by decide) rfl
      (by decide) (by decide) c hc false ψ
  · exact C04_vchain_inverse realAngles pi8_real [7, 2, 5, 3] [0, 9] [4, 8] _ (by decide) rfl
      (by decide) (by decide) c hc true ψ

/-- **C04_ldmcsu_full_defined** (non-vacuity of the expansion).  Whenever the model emits a
skeleton for `linear_depth_mcv` and the pattern is `None` or a string no longer than the control
register (all `2^k` patterns of length `k` included), the expansion to primitive gates exists. -/
theorem C04_ldmcsu_full_defined {K Θ : Type} (o : ROps K) (a : McxAngles Θ) (neg : Θ → Θ)
    (u : CMat K) (cw : List Nat) (t : Nat) (cs : Option (List Bool)) (gso : Bool)
    (gs : List (SG K)) (hp : ∀ p, cs = some p → p.length ≤ cw.length)
    (hg : linearDepthMcv o u cw t cs gso = some gs) :
    ∃ ms : List (MG K Θ), expandAll a neg gs = some ms :=
  expandAll_defined a neg gs (linearDepthMcv_expands o a neg u cw t cs gso gs hp hg)

/-- **C04_ldmcsu_spec** (`Ldmcsu(U, k, ctrl_state).definition`, real instance of the model:
`Real.sqrt`, exact `isclose(·, 0)` tests; amplitudes in `ℂ`; angles `π/4, -π/4, 0`).
Let `U = [[a, b], [-conj b, conj a]]`, `|a|² + |b|² = 1`, with **`b` real** (secondary diagonal
real: branch without Hadamards) **or `a` real** (main diagonal real: H sandwich), on `k ≥ 1`
controls `cw` and a target `t`, all wires pairwise different, any pattern `cs`.  If the model
emits a skeleton and its expansion `ms` to primitive gates exists, then on every state `ψ`
`ms` denotes "apply `U` to `t` iff control `cw[i]` reads `cs[::-1][i]`" — the property, with no
hypothesis on MCX sub-circuits, on `op_a` or on unitarity.  The only K4 input is the principal
fourth root, used (and specified: `r⁴ = z`) only when `x = 0`, i.e. for diagonal `U` resp.
`U = ±[[a, ib],[ib, a]]`.  One control: the single opaque controlled gate.

Not covered: SU(2) matrices with *both* diagonals non-real take the eigenbasis path
(`np.linalg.eig`, `half_linear_depth_mcv`, `general_su2_optimization=True` with `action_only`
chains); that path is `C04_ldmcsu_eig_spec` below (given the `np.linalg.eig` specification). -/
theorem C04_ldmcsu_spec (r4 : ℝ → ℝ → ℝ × ℝ) (cosH sinH : ℝ → ℝ) (ar ai br bi : ℝ)
    (hu : ar ^ 2 + ai ^ 2 + br ^ 2 + bi ^ 2 = 1) (hd : bi = 0 ∨ ai = 0)
    (hr : (getXZ (realOps r4 cosH sinH) (su2Mat ar ai br bi)).1 = 0 →
      (⟨(r4 (getXZ (realOps r4 cosH sinH) (su2Mat ar ai br bi)).2.re
            (getXZ (realOps r4 cosH sinH) (su2Mat ar ai br bi)).2.im).1,
        (r4 (getXZ (realOps r4 cosH sinH) (su2Mat ar ai br bi)).2.re
            (getXZ (realOps r4 cosH sinH) (su2Mat ar ai br bi)).2.im).2⟩ : ℂ) ^ 4
        = ⟨(getXZ (realOps r4 cosH sinH) (su2Mat ar ai br bi)).2.re,
           (getXZ (realOps r4 cosH sinH) (su2Mat ar ai br bi)).2.im⟩)
    (eig : Cx ℝ × Cx ℝ × CMat ℝ) (cw : List Nat) (t : Nat) (cs : Option (List Bool))
    (hn : (cw ++ [t]).Nodup) (gs : List (SG ℝ)) (ms : List (MG ℝ ℝ))
    (hg : ldmcsu (realOps r4 cosH sinH) (su2Mat ar ai br bi) eig cw t cs = some gs)
    (hx : expandAll realAngles (fun x : ℝ => -x) gs = some ms) (ψ : State ℂ) :
    semMG toMat ms ψ
      = applyMcu (litsOf cw (cs.getD []).reverse) (toMat (su2Mat ar ai br bi)) t ψ :=
  ldmcsu_spec r4 cosH sinH ar ai br bi hu hd hr eig cw t cs hn gs ms hg hx ψ

/-- Non-vacuity of `C04_ldmcsu_full` / `C04_ldmcsu_spec`: `U = [[4/5, 3/5], [-3/5, 4/5]]`
(`x = 3/5 ≠ 0`, so no fourth root is needed), five controls on wires `0..4` with pattern `10110`,
target `5`.  The model emits a skeleton, its expansion exists, and it denotes `C^5(U)` with that
pattern on every state. -/
example (r4 : ℝ → ℝ → ℝ × ℝ) (cosH sinH : ℝ → ℝ) (eig : Cx ℝ × Cx ℝ × CMat ℝ) (ψ : State ℂ) :
    ∃ gs ms, ldmcsu (realOps r4 cosH sinH) (su2Mat (4 / 5) 0 (3 / 5) 0) eig [0, 1, 2, 3, 4] 5
        (some (parseCs "10110")) = some gs
      ∧ expandAll realAngles (fun x : ℝ => -x) gs = some ms
      ∧ semMG toMat ms ψ
          = applyMcu [(0, false), (1, true), (2, true), (3, false), (4, true)]
              (toMat (su2Mat (4 / 5) 0 (3 / 5) 0)) 5 ψ := by
  have hsr : secondaryReal (realOps r4 cosH sinH) (su2Mat (4 / 5) 0 (3 / 5) 0) = true := by
    simp [secondaryReal, realOps, su2Mat]
  obtain ⟨b, hb⟩ : ∃ b, linearDepthMcv (realOps r4 cosH sinH) (su2Mat (4 / 5) 0 (3 / 5) 0)
      [0, 1, 2, 3, 4] 5 (some (parseCs "10110")) false = some b := by
    simp [linearDepthMcv, unGate, unitaryOk, realOps]
  have hg : ldmcsu (realOps r4 cosH sinH) (su2Mat (4 / 5) 0 (3 / 5) 0) eig [0, 1, 2, 3, 4] 5
      (some (parseCs "10110")) = some b := by
    simp only [ldmcsu, hsr, Bool.not_true, Bool.and_false, Bool.false_eq_true, if_false, hb,
      List.nil_append, List.append_nil]
  obtain ⟨ms, hms⟩ := C04_ldmcsu_full_defined (Θ := ℝ) (realOps r4 cosH sinH) realAngles
    (fun x : ℝ => -x) _ _ _ _ false b (by intro p hp; cases hp; decide) hb
  refine ⟨b, ms, hg, hms, ?_⟩
  have h := C04_ldmcsu_spec r4 cosH sinH (4 / 5) 0 (3 / 5) 0 (by norm_num) (Or.inl rfl)
    (by
      intro h0
      have : getXZ (realOps r4 cosH sinH) (su2Mat (4 / 5) 0 (3 / 5) 0) = (3 / 5, ⟨4 / 5, -0⟩) :=
        (get_x_z_secondary r4 cosH sinH (4 / 5) 0 (3 / 5)).1
      rw [this] at h0
      norm_num at h0)
    eig [0, 1, 2, 3, 4] 5 (some (parseCs "10110")) (by decide) b ms hg hms ψ
  exact h

/-- The hypothesis of the `x = 0` branch is satisfiable: a fourth root exists for every complex
number (`z ^ (1/4)` of Mathlib), so some `r4` meets the specification everywhere. -/
example : ∃ r4 : ℝ → ℝ → ℝ × ℝ, ∀ p q : ℝ,
    (⟨(r4 p q).1, (r4 p q).2⟩ : ℂ) ^ 4 = ⟨p, q⟩ := by
  refine ⟨fun p q => (((⟨p, q⟩ : ℂ) ^ (((4 : ℕ) : ℂ)⁻¹)).re, ((⟨p, q⟩ : ℂ) ^ (((4 : ℕ) : ℂ)⁻¹)).im), ?_⟩
  intro p q
  exact Complex.cpow_nat_inv_pow _ (by norm_num)

/-- **C04_multitarget_full** (`MultiTargetMCSU2(unitaries, k, num_target, ctrl_state).definition`,
`k ≥ 2`, multi-target V-chains expanded).  For controls `cw` and targets on the wires `|cw| + j`
(the layout of the definition), all wires pairwise different, every pattern and every state: the
model's gate list with the two `McxVchainDirty(k_1, num_target)`, the `McxVchainDirty(k_2,
num_target)` and its `.inverse()` written out as primitive gates denotes "target `j` gets
`H_j·(A_j' X A_j X)²·H_j` iff the controls read the pattern" (`H_j` = Hadamard when the code puts the
H pair on that target, identity otherwise; `tgtMat`), the targets taken in order — no hypothesis on
the MCX sub-circuits; `A_j`, `A_j'` images of the model's `op_a` and its conjugate transpose, assumed
mutually inverse (proved for the real instance in `C04_multitarget_spec`). -/
theorem C04_multitarget_full {K Θ R : Type} [AddCommGroup Θ] [CommRing R] [RotSem Θ R]
    [RotLaws Θ R] (o : ROps K) (a : McxAngles Θ) (hp : Pi8 R a) (ι : CMat K → Mat2 R)
    (us : List (CMat K)) (cw ts : List Nat) (cs : Option (List Bool)) (gs : List (SG K))
    (ms : List (MG K Θ)) (hk : 2 ≤ cw.length) (hus : 1 ≤ us.length)
    (hts : ts = (List.range us.length).map (cw.length + ·)) (hn : (cw ++ ts).Nodup)
    (hg : multiTarget o us cw ts cs = some gs)
    (hx : expandAll a (fun x : Θ => -x) gs = some ms)
    (hA : ∀ u ∈ us, ι (opA o u) * ι (adj o (opA o u)) = 1 ∧ ι (adj o (opA o u)) * ι (opA o u) = 1)
    (ψ : State R) :
    semMG ι ms ψ
      = (us.zipIdx).foldl (fun s p => applyMcu (litsOf cw (cs.getD []).reverse)
          (tgtMat o ι (RotSem.rh Θ) p.1) (cw.length + p.2) s) ψ :=
  multiTarget_full o a hp ι us cw ts cs gs ms hk hus hts hn hg hx hA ψ

/-- **C04_multitarget_full_defined.**  Whenever the model emits a skeleton for `MultiTargetMCSU2`
with at least one target and a pattern no longer than the control register, its expansion to
primitive gates exists. -/
theorem C04_multitarget_full_defined {K Θ : Type} (o : ROps K) (a : McxAngles Θ) (neg : Θ → Θ)
    (us : List (CMat K)) (cw ts : List Nat) (cs : Option (List Bool)) (gs : List (SG K))
    (hts : 1 ≤ ts.length) (hp : ∀ p, cs = some p → p.length ≤ cw.length)
    (hg : multiTarget o us cw ts cs = some gs) :
    ∃ ms : List (MG K Θ), expandAll a neg gs = some ms :=
  expandAll_defined a neg gs (multiTarget_expands o a neg us cw ts cs gs hts hp hg)

/-- **C04_multitarget_spec** (real instance, amplitudes in `ℂ`).  If every listed unitary is an
SU(2) matrix `[[a, b], [-conj b, conj a]]` with `b` real or `a` real (`Su2Diag`; the fourth root
specified where `x = 0`) — the rotations `RX, RY, RZ`, `±I`, `±iX`, `±iZ`, `iY`, … the class is
used with — then the expanded definition (`k ≥ 2`) denotes: for each `j` in order, "apply
`unitaries[j]` to target `j` iff control `cw[i]` reads `ctrl_state[::-1][i]`", on every state.
General SU(2) (both diagonals non-real) is outside: the code has no eigenbasis path there. -/
theorem C04_multitarget_spec (r4 : ℝ → ℝ → ℝ × ℝ) (cosH sinH : ℝ → ℝ) (us : List (CMat ℝ))
    (hU : ∀ u ∈ us, Su2Diag r4 cosH sinH u) (cw ts : List Nat) (cs : Option (List Bool))
    (gs : List (SG ℝ)) (ms : List (MG ℝ ℝ)) (hk : 2 ≤ cw.length) (hus : 1 ≤ us.length)
    (hts : ts = (List.range us.length).map (cw.length + ·)) (hn : (cw ++ ts).Nodup)
    (hg : multiTarget (realOps r4 cosH sinH) us cw ts cs = some gs)
    (hx : expandAll realAngles (fun x : ℝ => -x) gs = some ms) (ψ : State ℂ) :
    semMG toMat ms ψ
      = (us.zipIdx).foldl (fun s p => applyMcu (litsOf cw (cs.getD []).reverse)
          (toMat p.1) (cw.length + p.2) s) ψ :=
  multiTarget_spec r4 cosH sinH us hU cw ts cs gs ms hk hus hts hn hg hx ψ

/-- Non-vacuity: a real rotation (`b` real) and `[[0, (3+4i)/5], [(-3+4i)/5, 0]]` (`a` real, `b`
not real: H sandwich) satisfy `Su2Diag` without any fourth root (`x ≠ 0`). -/
example (r4 : ℝ → ℝ → ℝ × ℝ) (cosH sinH : ℝ → ℝ) :
    Su2Diag r4 cosH sinH (su2Mat (4 / 5) 0 (3 / 5) 0)
      ∧ Su2Diag r4 cosH sinH (su2Mat 0 0 (3 / 5) (4 / 5)) := by
  constructor
  · refine ⟨4 / 5, 0, 3 / 5, 0, rfl, by norm_num, Or.inl rfl, fun h0 => ?_⟩
    rw [(get_x_z_secondary r4 cosH sinH (4 / 5) 0 (3 / 5)).1] at h0
    norm_num at h0
  · refine ⟨0, 0, 3 / 5, 4 / 5, rfl, by norm_num, Or.inr rfl, fun h0 => ?_⟩
    rw [(h_conj r4 cosH sinH 0 (3 / 5) (4 / 5) (by norm_num) (RotSem.rh ℝ) RotLaws.rh_sq).1] at h0
    norm_num at h0

/-- Non-vacuity of `C04_multitarget_full` / `C04_multitarget_spec`: three controls with pattern
`101`, two targets — a real rotation on wire 3 and a matrix with real main diagonal (H sandwich) on
wire 4.  The model emits a skeleton, its expansion exists and denotes the two controlled gates. -/
example (r4 : ℝ → ℝ → ℝ × ℝ) (cosH sinH : ℝ → ℝ) (ψ : State ℂ) :
    ∃ gs ms, multiTarget (realOps r4 cosH sinH) [su2Mat (4 / 5) 0 (3 / 5) 0, su2Mat 0 0 (3 / 5) (4 / 5)]
        [0, 1, 2] [3, 4] (some (parseCs "101")) = some gs
      ∧ expandAll realAngles (fun x : ℝ => -x) gs = some ms
      ∧ semMG toMat ms ψ
          = applyMcu [(0, true), (1, false), (2, true)] (toMat (su2Mat 0 0 (3 / 5) (4 / 5))) 4
              (applyMcu [(0, true), (1, false), (2, true)] (toMat (su2Mat (4 / 5) 0 (3 / 5) 0)) 3 ψ) := by
  obtain ⟨gs, hgs⟩ : ∃ gs, multiTarget (realOps r4 cosH sinH)
      [su2Mat (4 / 5) 0 (3 / 5) 0, su2Mat 0 0 (3 / 5) (4 / 5)] [0, 1, 2] [3, 4]
      (some (parseCs "101")) = some gs := by
    simp [multiTarget, allSome, unGate, unitaryOk, realOps, List.zipIdx]
  obtain ⟨ms, hms⟩ := C04_multitarget_full_defined (Θ := ℝ) (realOps r4 cosH sinH) realAngles
    (fun x : ℝ => -x) _ _ _ _ gs (by decide) (by intro p hp; cases hp; decide) hgs
  refine ⟨gs, ms, hgs, hms, ?_⟩
  have hS : ∀ u ∈ [su2Mat (4 / 5) 0 (3 / 5) 0, su2Mat 0 0 (3 / 5) (4 / 5)], Su2Diag r4 cosH sinH u := by
    intro u hu
    simp only [List.mem_cons, List.not_mem_nil, or_false] at hu
    rcases hu with rfl | rfl
    · refine ⟨4 / 5, 0, 3 / 5, 0, rfl, by norm_num, Or.inl rfl, fun h0 => ?_⟩
      rw [(get_x_z_secondary r4 cosH sinH (4 / 5) 0 (3 / 5)).1] at h0
      norm_num at h0
    · refine ⟨0, 0, 3 / 5, 4 / 5, rfl, by norm_num, Or.inr rfl, fun h0 => ?_⟩
      rw [(h_conj r4 cosH sinH 0 (3 / 5) (4 / 5) (by norm_num) (RotSem.rh ℝ) RotLaws.rh_sq).1] at h0
      norm_num at h0
  exact C04_multitarget_spec r4 cosH sinH _ hS [0, 1, 2] [3, 4] _ gs ms (by decide) (by decide)
    (by decide) (by decide) hgs hms ψ

/-- **C04_ldmcsp_partial** (`LdMcSpecialUnitary(U, k, ctrl_state).definition`, every `k ≥ 1`, the
`LinearMcx(k-1)` pair expanded to primitive gates).  Over any commutative ring with the rotation
laws: if `A·B·C = 1` for the model's `get_abc_operators` of `U`'s ZYZ angles and (for `k ≥ 3`) the
angles handed over for `A`, `B`, `C` are ZYZ angles of those matrices (`AbcOf`: the K4
specification of `_params_zyz`), then for all pairwise different wires, every pattern and every
state the expanded gate list denotes "apply `A·X·B·X·C` to the target iff the controls read the
pattern".
* `k ≤ 2`: no sub-circuit; `3 ≤ k ≤ 6`: the expanded `LinearMcx(k-1)` (hard-coded branches, where
  `action_only` changes nothing) and its `.inverse()` are proved to be the ideal MCX with the
  ancilla restored (`C05_linear`, C15 placement, `C15_inverse`) — **unconditional**.
* `k ≥ 7` — **what is missing**: `LinearMcx(k-1, action_only=True)` ends with an action-only
  V-chain that leaves the borrowed controls dirty; the `.inverse()` copy cleans them.  The theorem
  assumes `LmBracket`: around any gate on the target controlled on the last control, the expanded
  pair acts like the pair of ideal MCX gates.  (Sketch of the missing proof: the exact chain is the
  action-only chain followed by a sweep `S` that touches neither the last control nor the target,
  so the action-only chain is `S⁻¹ ∘ MCX`, and `S` commutes with the bracketed gate.)
  Full statement = this one without `hL`: now proved as `C04_ldmcsp_full` below (`LmBracket` is
  `C04_lm_bracket`, from `C05_linear_action_only`). -/
theorem C04_ldmcsp_partial {K Θ R : Type} [AddCommGroup Θ] [CommRing R] [RotSem Θ R]
    [RotLaws Θ R] (o : ROps K) (a : McxAngles Θ) (hp : Pi8 R a) (ι : CMat K → Mat2 R)
    (zu za zb zc : Zyz K) (cw : List Nat) (t : Nat) (cs : Option (List Bool)) (gs : List (SG K))
    (ms : List (MG K Θ)) (hn : (cw ++ [t]).Nodup)
    (hg : ldmcSpecial o zu za zb zc cw t cs = some gs)
    (hx : expandAll a (fun x : Θ => -x) gs = some ms)
    (hU : ι (abcOperators o zu.phi zu.theta zu.lam).1 * ι (abcOperators o zu.phi zu.theta zu.lam).2.1
      * ι (abcOperators o zu.phi zu.theta zu.lam).2.2 = 1)
    (hsub : 3 ≤ cw.length →
      AbcOf o ι za (ι (abcOperators o zu.phi zu.theta zu.lam).1)
      ∧ AbcOf o ι zb (ι (abcOperators o zu.phi zu.theta zu.lam).2.1)
      ∧ AbcOf o ι zc (ι (abcOperators o zu.phi zu.theta zu.lam).2.2))
    (hL : 7 ≤ cw.length →
      LmBracket (expMcx a (fun x : Θ => -x) : McxSem R) (cw.length - 1)
        (cw.dropLast ++ [t] ++ [cw.getLastD 0]) true
        (allOnes cw.dropLast) (cw.getLastD 0) t)
    (ψ : State R) :
    semMG ι ms ψ
      = applyMcu (litsOf cw (cs.getD (List.replicate cw.length true)).reverse)
          (ι (abcOperators o zu.phi zu.theta zu.lam).1 * Mat2.X
            * ι (abcOperators o zu.phi zu.theta zu.lam).2.1 * Mat2.X
            * ι (abcOperators o zu.phi zu.theta zu.lam).2.2) t ψ :=
  ldmcSpecial_full o a hp ι zu za zb zc cw t cs gs ms hn hg hx hU hsub hL ψ

/-- **C04_ldmcsp_full_defined.**  Whenever the model emits a skeleton for `LdMcSpecialUnitary`,
its expansion to primitive gates exists (every `k`, every accepted pattern). -/
theorem C04_ldmcsp_full_defined {K Θ : Type} (o : ROps K) (a : McxAngles Θ) (neg : Θ → Θ)
    (zu za zb zc : Zyz K) (cw : List Nat) (t : Nat) (cs : Option (List Bool)) (gs : List (SG K))
    (hg : ldmcSpecial o zu za zb zc cw t cs = some gs) :
    ∃ ms : List (MG K Θ), expandAll a neg gs = some ms :=
  expandAll_defined a neg gs (ldmcSpecial_expands o a neg zu za zb zc cw t cs gs hg)

/-- **C04_ldmcsp_spec** (real instance `cos(θ/2)`, `sin(θ/2)`; amplitudes in `ℂ`; `1 ≤ k ≤ 6`
controls — unconditional on the MCX sub-circuits).  If (for `k ≥ 3`) the angle triples handed over
for `A`, `B`, `C` are ZYZ angles of those matrices (`RZ(φ)·RY(θ)·RZ(λ) = M`, the `_params_zyz`
specification), then the expanded `LdMcSpecialUnitary` definition denotes "apply
`RZ(φ)·RY(θ)·RZ(λ)` — i.e. `U`, by the same specification for `U`'s own angles — to the target iff
control `cw[i]` reads `ctrl_state[::-1][i]`", on every state. -/
theorem C04_ldmcsp_spec (r4 : ℝ → ℝ → ℝ × ℝ) (zu za zb zc : Zyz ℝ) (cw : List Nat) (t : Nat)
    (cs : Option (List Bool)) (gs : List (SG ℝ)) (ms : List (MG ℝ ℝ)) (hn : (cw ++ [t]).Nodup)
    (hk : cw.length ≤ 6)
    (hg : ldmcSpecial (trigOps r4) zu za zb zc cw t cs = some gs)
    (hx : expandAll realAngles (fun x : ℝ => -x) gs = some ms)
    (hsub : 3 ≤ cw.length →
      (matRZ za.phi * matRY za.theta * matRZ za.lam : Mat2 ℂ)
          = toMat (abcOperators (trigOps r4) zu.phi zu.theta zu.lam).1
      ∧ (matRZ zb.phi * matRY zb.theta * matRZ zb.lam : Mat2 ℂ)
          = toMat (abcOperators (trigOps r4) zu.phi zu.theta zu.lam).2.1
      ∧ (matRZ zc.phi * matRY zc.theta * matRZ zc.lam : Mat2 ℂ)
          = toMat (abcOperators (trigOps r4) zu.phi zu.theta zu.lam).2.2)
    (ψ : State ℂ) :
    semMG toMat ms ψ
      = applyMcu (litsOf cw (cs.getD (List.replicate cw.length true)).reverse)
          (matRZ zu.phi * matRY zu.theta * matRZ zu.lam) t ψ := by
  have hz : ∀ (z : Zyz ℝ) (M : Mat2 ℂ), (matRZ z.phi * matRY z.theta * matRZ z.lam : Mat2 ℂ) = M →
      AbcOf (trigOps r4) toMat z M := by
    intro z M hM
    have := C04_abc_model r4 z.phi z.theta z.lam
    exact ⟨this.1, this.2.trans hM⟩
  have hu := C04_abc_model r4 zu.phi zu.theta zu.lam
  rw [← hu.2]
  exact C04_ldmcsp_partial (trigOps r4) realAngles pi8_real toMat zu za zb zc cw t cs gs ms hn hg hx
    hu.1 (fun h3 => ⟨hz za _ (hsub h3).1, hz zb _ (hsub h3).2.1, hz zc _ (hsub h3).2.2⟩)
    (fun h7 => absurd h7 (by omega)) ψ

/-- Non-vacuity: two controls with pattern `01`, any angles — the model emits a skeleton, the
expansion exists and denotes the controlled `RZ·RY·RZ`. -/
example (r4 : ℝ → ℝ → ℝ × ℝ) (zu za zb zc : Zyz ℝ) (ψ : State ℂ) :
    ∃ gs ms, ldmcSpecial (trigOps r4) zu za zb zc [0, 1] 2 (some (parseCs "01")) = some gs
      ∧ expandAll realAngles (fun x : ℝ => -x) gs = some ms
      ∧ semMG toMat ms ψ = applyMcu [(0, true), (1, false)]
          (matRZ zu.phi * matRY zu.theta * matRZ zu.lam) 2 ψ := by
  obtain ⟨gs, hgs⟩ : ∃ gs, ldmcSpecial (trigOps r4) zu za zb zc [0, 1] 2 (some (parseCs "01")) = some gs := by
    simp [ldmcSpecial, ctrlXsSG, zeroWires, parseCs, unGate, unitaryOk, trigOps, realOps, smallMcx]
  obtain ⟨ms, hms⟩ := C04_ldmcsp_full_defined (Θ := ℝ) (trigOps r4) realAngles (fun x : ℝ => -x)
    zu za zb zc _ _ _ gs hgs
  refine ⟨gs, ms, hgs, hms, ?_⟩
  exact C04_ldmcsp_spec r4 zu za zb zc [0, 1] 2 _ gs ms (by decide) (by decide) hgs hms
    (fun h => absurd h (by decide)) ψ

/-! ### `action_only` sub-circuits discharged (C05 `C05_vchain_action_only`, `C05_linear_action_only`)

`LinearMcx(k-1, action_only=True)` inside `LdMcSpecialUnitary` (`k ≥ 7`) and
`McxVchainDirty(k_2, action_only=True)` inside the eigenbasis path of `Ldmcsu` leave their borrowed
wires dirty; the `.inverse()` copy that follows cleans them.  C05 proves the action-only circuit is
the ideal MCX followed by a signed relabelling `S` of the borrowed wires that sees neither the last
control nor the target, and the inverse is `S` followed by the ideal MCX; every gate between the two
copies acts on wires `S` does not see, so the pair acts as the pair of ideal MCX gates. -/

/-- **C04_lm_bracket** — the hypothesis `LmBracket` of `C04_ldmcsp_partial` holds.  For every
`n ≥ 1` and every duplicate-free wire list `ws` of `n + 2` wires (controls, target, ancilla): around
any gate on the target controlled on the ancilla, the expanded `LinearMcx(n, action_only=True)` on
`ws` and the expanded `.inverse()` of it act like the pair of ideal MCX gates. -/
theorem C04_lm_bracket {Θ R : Type} [AddCommGroup Θ] [CommRing R] [RotSem Θ R] [RotLaws Θ R]
    (a : McxAngles Θ) (hp : Pi8 R a) (n : Nat) (hn : 1 ≤ n) (ws : List Nat) (hnd : ws.Nodup)
    (hl : ws.length = n + 2) :
    LmBracket (expMcx a (fun x : Θ => -x) : McxSem R) n ws true (allOnes (ws.take n))
      (ws.getD (n + 1) 0) (ws.getD n 0) :=
  lmBracket_holds a hp n hn ws hnd hl

/-- **C04_ldmcsp_full** (`LdMcSpecialUnitary(U, k, ctrl_state).definition`, **every `k ≥ 1`**, the
`LinearMcx(k-1)` pair expanded to primitive gates): the statement of `C04_ldmcsp_partial` without
the hypothesis `LmBracket`.  If `A·B·C = 1` for the model's `get_abc_operators` of `U`'s ZYZ angles
and (for `k ≥ 3`) the angles handed over for `A`, `B`, `C` are ZYZ angles of those matrices
(`AbcOf`: the K4 specification of `_params_zyz`), then for all pairwise different wires, every
pattern and every state the expanded gate list denotes "apply `A·X·B·X·C` to the target iff the
controls read the pattern".  Nothing is assumed about the MCX sub-circuits. -/
theorem C04_ldmcsp_full {K Θ R : Type} [AddCommGroup Θ] [CommRing R] [RotSem Θ R]
    [RotLaws Θ R] (o : ROps K) (a : McxAngles Θ) (hp : Pi8 R a) (ι : CMat K → Mat2 R)
    (zu za zb zc : Zyz K) (cw : List Nat) (t : Nat) (cs : Option (List Bool)) (gs : List (SG K))
    (ms : List (MG K Θ)) (hn : (cw ++ [t]).Nodup)
    (hg : ldmcSpecial o zu za zb zc cw t cs = some gs)
    (hx : expandAll a (fun x : Θ => -x) gs = some ms)
    (hU : ι (abcOperators o zu.phi zu.theta zu.lam).1 * ι (abcOperators o zu.phi zu.theta zu.lam).2.1
      * ι (abcOperators o zu.phi zu.theta zu.lam).2.2 = 1)
    (hsub : 3 ≤ cw.length →
      AbcOf o ι za (ι (abcOperators o zu.phi zu.theta zu.lam).1)
      ∧ AbcOf o ι zb (ι (abcOperators o zu.phi zu.theta zu.lam).2.1)
      ∧ AbcOf o ι zc (ι (abcOperators o zu.phi zu.theta zu.lam).2.2))
    (ψ : State R) :
    semMG ι ms ψ
      = applyMcu (litsOf cw (cs.getD (List.replicate cw.length true)).reverse)
          (ι (abcOperators o zu.phi zu.theta zu.lam).1 * Mat2.X
            * ι (abcOperators o zu.phi zu.theta zu.lam).2.1 * Mat2.X
            * ι (abcOperators o zu.phi zu.theta zu.lam).2.2) t ψ :=
  ldmcSpecial_full_all o a hp ι zu za zb zc cw t cs gs ms hn hg hx hU hsub ψ

/-- **C04_ldmcsp_spec_all** — `C04_ldmcsp_spec` for every number of controls (real instance,
amplitudes in `ℂ`): the expanded `LdMcSpecialUnitary` definition denotes "apply
`RZ(φ)·RY(θ)·RZ(λ)` (= `U` by the `_params_zyz` specification) to the target iff control `cw[i]`
reads `ctrl_state[::-1][i]`", on every state. -/
theorem C04_ldmcsp_spec_all (r4 : ℝ → ℝ → ℝ × ℝ) (zu za zb zc : Zyz ℝ) (cw : List Nat) (t : Nat)
    (cs : Option (List Bool)) (gs : List (SG ℝ)) (ms : List (MG ℝ ℝ)) (hn : (cw ++ [t]).Nodup)
    (hg : ldmcSpecial (trigOps r4) zu za zb zc cw t cs = some gs)
    (hx : expandAll realAngles (fun x : ℝ => -x) gs = some ms)
    (hsub : 3 ≤ cw.length →
      (matRZ za.phi * matRY za.theta * matRZ za.lam : Mat2 ℂ)
          = toMat (abcOperators (trigOps r4) zu.phi zu.theta zu.lam).1
      ∧ (matRZ zb.phi * matRY zb.theta * matRZ zb.lam : Mat2 ℂ)
          = toMat (abcOperators (trigOps r4) zu.phi zu.theta zu.lam).2.1
      ∧ (matRZ zc.phi * matRY zc.theta * matRZ zc.lam : Mat2 ℂ)
          = toMat (abcOperators (trigOps r4) zu.phi zu.theta zu.lam).2.2)
    (ψ : State ℂ) :
    semMG toMat ms ψ
      = applyMcu (litsOf cw (cs.getD (List.replicate cw.length true)).reverse)
          (matRZ zu.phi * matRY zu.theta * matRZ zu.lam) t ψ :=
  ldmcsp_spec_all r4 zu za zb zc cw t cs gs ms hn hg hx hsub ψ

/-- Non-vacuity beyond the range of `C04_ldmcsp_spec`: seven controls with pattern `0110101`
(`LinearMcx(6, action_only=True)`: the split branch with a genuinely dirty leftover), target 7. -/
example (r4 : ℝ → ℝ → ℝ × ℝ) (zu za zb zc : Zyz ℝ)
    (hsub : (matRZ za.phi * matRY za.theta * matRZ za.lam : Mat2 ℂ)
          = toMat (abcOperators (trigOps r4) zu.phi zu.theta zu.lam).1
      ∧ (matRZ zb.phi * matRY zb.theta * matRZ zb.lam : Mat2 ℂ)
          = toMat (abcOperators (trigOps r4) zu.phi zu.theta zu.lam).2.1
      ∧ (matRZ zc.phi * matRY zc.theta * matRZ zc.lam : Mat2 ℂ)
          = toMat (abcOperators (trigOps r4) zu.phi zu.theta zu.lam).2.2) (ψ : State ℂ) :
    ∃ gs ms, ldmcSpecial (trigOps r4) zu za zb zc [0, 1, 2, 3, 4, 5, 6] 7
          (some (parseCs "0110101")) = some gs
      ∧ expandAll realAngles (fun x : ℝ => -x) gs = some ms
      ∧ semMG toMat ms ψ
          = applyMcu [(0, true), (1, false), (2, true), (3, false), (4, true), (5, true), (6, false)]
              (matRZ zu.phi * matRY zu.theta * matRZ zu.lam) 7 ψ := by
  obtain ⟨gs, hgs⟩ : ∃ gs, ldmcSpecial (trigOps r4) zu za zb zc [0, 1, 2, 3, 4, 5, 6] 7
      (some (parseCs "0110101")) = some gs := by
    simp [ldmcSpecial, ctrlXsSG, zeroWires, parseCs, unGate, unitaryOk, trigOps, realOps, ctrlByAbc]
  obtain ⟨ms, hms⟩ := C04_ldmcsp_full_defined (Θ := ℝ) (trigOps r4) realAngles (fun x : ℝ => -x)
    zu za zb zc _ _ _ gs hgs
  refine ⟨gs, ms, hgs, hms, ?_⟩
  exact C04_ldmcsp_spec_all r4 zu za zb zc [0, 1, 2, 3, 4, 5, 6] 7 _ gs ms (by decide) hgs hms
    (fun _ => hsub) ψ

/-! ### `Ldmcsu`, eigenbasis path (general SU(2): both diagonals non-real)

Time order of `_define` in that branch (all one-qubit gates on the target; `MCX₁`/`MCX₂` = X on the
target controlled on the first `⌈k/2⌉` / the other `⌊k/2⌋` controls):
`H, S, MCX₂ᵃᵒ, S†, Hq | A, (MCX₂ᵃᵒ)⁻¹, A†, MCX₁, A, MCX₂, A† | MCX₁, Hq, S, MCX₂, S†, H`
(`half_linear_depth_mcv(inverse=True)`, `linear_depth_mcv(diag(eig_vals), general_su2_optimization=True)`,
`half_linear_depth_mcv`), `S = halfS x z` from the eigenvector matrix, `A = _compute_gate_a` of the
diagonal matrix, `Hq = [[-1,1],[1,1]]/√2`. -/

/-- **C04_eig_algebra** — the 2×2 algebra of the eigenbasis path.  Over any commutative ring, if
`H² = Hq² = 1`, `S·S' = S'·S = 1`, `A·A' = A'·A = 1` (`EigInv`), the operator-order product of the
eighteen gates (`eigProd … X₁ X₂`, `X_i` = what `MCX_i` does to the target) is the identity when no
half, only the first or only the second half fires; when both fire it factors as
`(H S' X S Hq)·(X·(A' X A X)²·X)·(Hq S' X S H)`. -/
theorem C04_eig_algebra {R : Type} [CommRing R] (H S S' Hq A A' : Mat2 R)
    (h : EigInv H S S' Hq A A') :
    eigProd H S S' Hq A A' 1 1 = 1 ∧ eigProd H S S' Hq A A' Mat2.X 1 = 1
      ∧ eigProd H S S' Hq A A' 1 Mat2.X = 1
      ∧ eigBoth H S S' Hq A A'
          = (H * S' * Mat2.X * S * Hq) * (Mat2.X * coreW A A' * Mat2.X)
              * (Hq * S' * Mat2.X * S * H) :=
  ⟨eigProd_none h, eigProd_half1 h, eigProd_half2 h, eigBoth_factor H S S' Hq A A'⟩

/-- **C04_eig_both** — the both-halves-fire product for the matrices the code computes (real
instance, `ℂ`).  For an eigenvector matrix `V = [[a, b], [-conj b, a]]` with `a` real, `a > -1`,
`a² + |b|² = 1` (what `np.linalg.eig` returns in this branch: orthonormal columns, real main
diagonal — a K4 specification), eigenvalues `conj e, e` with `|e| = 1` and the fourth-root
specification `r⁴ = e` of the `x = 0` branch of `_compute_gate_a`: the six matrices are mutually
inverse as `EigInv` requires and the product is `V·diag(conj e, e)·V†`. -/
theorem C04_eig_both (r4 : ℝ → ℝ → ℝ × ℝ) (cosH sinH : ℝ → ℝ) (a br bi p q : ℝ) (h : ℂ)
    (hh : 2 * (h * h) = 1) (hV : a ^ 2 + br ^ 2 + bi ^ 2 = 1) (ha : 0 < a + 1)
    (he : p ^ 2 + q ^ 2 = 1) (hr : (⟨(r4 p q).1, (r4 p q).2⟩ : ℂ) ^ 4 = ⟨p, q⟩) :
    let o := realOps r4 cosH sinH
    let H : Mat2 ℂ := ⟨h, h, h, -h⟩
    let S := toMat (halfS o (-br) ⟨a, -bi⟩)
    let Hq := toMat (hEquiv o)
    let A := toMat (computeGateA o 0 ⟨p, q⟩)
    EigInv H S (adjC S) Hq A (adjC A)
      ∧ eigBoth H S (adjC S) Hq A (adjC A)
          = toMat (su2Mat a 0 br bi) * ⟨⟨p, -q⟩, 0, 0, ⟨p, q⟩⟩ * adjC (toMat (su2Mat a 0 br bi)) :=
  eig_both_real r4 cosH sinH a br bi p q h hh hV ha he hr

/-- **C04_mv_bracket** — the bracket property of the expanded
`McxVchainDirty(k, action_only=True)` pair: on a duplicate-free wire list `cw ++ anc ++ [t]`
(`|anc| = |cw| - 2`), around any one-qubit gate on the target the expanded action-only chain and the
expanded `.inverse()` of it act like the pair of ideal MCX gates (from `C05_vchain_action_only`). -/
theorem C04_mv_bracket {Θ R : Type} [AddCommGroup Θ] [CommRing R] [RotSem Θ R] [RotLaws Θ R]
    (a : McxAngles Θ) (hp : Pi8 R a) (cw anc : List Nat) (t : Nat)
    (cs : Option (List Bool)) (hn : (cw ++ anc ++ [t]).Nodup) (ha : anc.length = cw.length - 2)
    (h1 : 1 ≤ cw.length) (c : Circ Θ)
    (hc : expandMcxv a cw.length 1 (cw ++ anc ++ [t]) cs true = some c) :
    MvBracket (expMcx a (fun x : Θ => -x) : McxSem R) cw.length 1 (cw ++ anc ++ [t]) cs
      (litsOf cw (cs.getD []).reverse) t :=
  expMcx_mvBracket a hp cw anc t cs hn ha h1 c hc

/-- **C04_ldmcsu_eig** (skeleton level).  For `k ≥ 2` controls on pairwise different wires, a target
outside them, every pattern: if the model emits the gate list `gs` in the eigen branch
(`mainReal = secondaryReal = false`), the exact V-chain placements are read as ideal MCX gates
(`IdealMv`, i.e. `C05_vchain` on the wire lists of `C04_slices`) and the action-only pair has the
bracket property (`MvBracket`, i.e. `C04_mv_bracket`), and the six one-qubit matrices satisfy
`EigInv`, then `gs` denotes "apply `W` = the both-fire product to the target iff the controls read
the pattern" on every state. -/
theorem C04_ldmcsu_eig {K R : Type} [CommRing R] (o : ROps K) (ι : CMat K → Mat2 R) (rh : R)
    (M : McxSem R) (hM : IdealMv M) (u : CMat K) (eig : Cx K × Cx K × CMat K) (cw : List Nat)
    (t : Nat) (cs : Option (List Bool)) (gs : List (SG K)) (hk : 2 ≤ cw.length)
    (hn : (cw ++ [t]).Nodup) (hm : mainReal o u = false) (hs : secondaryReal o u = false)
    (hg : ldmcsu o u eig cw t cs = some gs)
    (hB : MvBracket M (k2 cw.length) 1 (wires2 cw [t]) (cs.map (csK2 · cw.length))
      (litsOf (ctl2 cw) (csK2 (cs.getD []) cw.length).reverse) t)
    (hI : EigInv (⟨rh, rh, rh, -rh⟩ : Mat2 R) (ι (eigS o eig.2.2)) (ι (adj o (eigS o eig.2.2)))
      (ι (hEquiv o)) (ι (eigA o eig.1 eig.2.1)) (ι (adj o (eigA o eig.1 eig.2.1))))
    (W : Mat2 R)
    (hW : eigBoth (⟨rh, rh, rh, -rh⟩ : Mat2 R) (ι (eigS o eig.2.2)) (ι (adj o (eigS o eig.2.2)))
      (ι (hEquiv o)) (ι (eigA o eig.1 eig.2.1)) (ι (adj o (eigA o eig.1 eig.2.1))) = W)
    (ψ : State R) :
    semSG ι rh M gs ψ = applyMcu (litsOf cw (cs.getD []).reverse) W t ψ :=
  ldmcsu_eig_sem o ι rh M hM u eig cw t cs gs hk hn hm hs hg hB hI W hW ψ

/-- **C04_ldmcsu_eig_full** (all V-chains — exact, action-only and inverted — expanded to primitive
gates; any ring with the rotation laws and `Pi8`): the expanded list `ms` denotes "apply the
both-fire product `W` to the target iff the controls read the pattern" on every state.  No
hypothesis on the MCX sub-circuits. -/
theorem C04_ldmcsu_eig_full {K Θ R : Type} [AddCommGroup Θ] [CommRing R] [RotSem Θ R]
    [RotLaws Θ R] (o : ROps K) (a : McxAngles Θ) (hp : Pi8 R a) (ι : CMat K → Mat2 R)
    (u : CMat K) (eig : Cx K × Cx K × CMat K) (cw : List Nat) (t : Nat)
    (cs : Option (List Bool)) (gs : List (SG K)) (ms : List (MG K Θ)) (hk : 2 ≤ cw.length)
    (hn : (cw ++ [t]).Nodup) (hm : mainReal o u = false) (hs : secondaryReal o u = false)
    (hg : ldmcsu o u eig cw t cs = some gs)
    (hx : expandAll a (fun x : Θ => -x) gs = some ms)
    (hI : EigInv (⟨RotSem.rh Θ, RotSem.rh Θ, RotSem.rh Θ, -RotSem.rh Θ⟩ : Mat2 R)
      (ι (eigS o eig.2.2)) (ι (adj o (eigS o eig.2.2))) (ι (hEquiv o))
      (ι (eigA o eig.1 eig.2.1)) (ι (adj o (eigA o eig.1 eig.2.1))))
    (W : Mat2 R)
    (hW : eigBoth (⟨RotSem.rh Θ, RotSem.rh Θ, RotSem.rh Θ, -RotSem.rh Θ⟩ : Mat2 R)
      (ι (eigS o eig.2.2)) (ι (adj o (eigS o eig.2.2))) (ι (hEquiv o))
      (ι (eigA o eig.1 eig.2.1)) (ι (adj o (eigA o eig.1 eig.2.1))) = W)
    (ψ : State R) :
    semMG ι ms ψ = applyMcu (litsOf cw (cs.getD []).reverse) W t ψ :=
  ldmcsu_eig_full o a hp ι u eig cw t cs gs ms hk hn hm hs hg hx hI W hW ψ

/-- **C04_ldmcsu_eig_full_defined** — in the eigen branch the expansion to primitive gates exists
for every pattern no longer than the control register. -/
theorem C04_ldmcsu_eig_full_defined {K Θ : Type} (o : ROps K) (a : McxAngles Θ) (neg : Θ → Θ)
    (u : CMat K) (eig : Cx K × Cx K × CMat K) (cw : List Nat) (t : Nat) (cs : Option (List Bool))
    (gs : List (SG K)) (hk : 2 ≤ cw.length) (hm : mainReal o u = false)
    (hs : secondaryReal o u = false) (hp : ∀ p, cs = some p → p.length ≤ cw.length)
    (hg : ldmcsu o u eig cw t cs = some gs) :
    ∃ ms : List (MG K Θ), expandAll a neg gs = some ms :=
  ldmcsu_eig_full_defined o a neg u eig cw t cs gs hk hm hs hp hg

/-- **C04_ldmcsu_eig_spec** (`Ldmcsu(U, k, ctrl_state).definition` for general SU(2), real instance
of the model, amplitudes in `ℂ`, angles `π/4, -π/4, 0`, everything expanded to primitive gates).
Given the eigen-decomposition specification of `np.linalg.eig` (K4): eigenvalues `(conj e, e)`,
`e = p + iq`, `|e| = 1`; eigenvector matrix `V = [[a, b], [-conj b, a]]` with `a` real,
`a² + |b|² = 1`; `U = V·diag(conj e, e)·V†`; and the fourth-root specification `r⁴ = e`:
for `k ≥ 2` controls on pairwise different wires, every pattern and every state, the expanded
definition denotes "apply `U` to the target iff control `cw[i]` reads `ctrl_state[::-1][i]`".
No hypothesis on any MCX sub-circuit; `a > -1` follows from the branch condition.  Together with
`C04_ldmcsu_spec` (a diagonal real) this covers every SU(2) input of `Ldmcsu`. -/
theorem C04_ldmcsu_eig_spec (r4 : ℝ → ℝ → ℝ × ℝ) (cosH sinH : ℝ → ℝ) (u : CMat ℝ)
    (a br bi p q : ℝ) (hV : a ^ 2 + br ^ 2 + bi ^ 2 = 1) (he : p ^ 2 + q ^ 2 = 1)
    (hU : toMat u = toMat (su2Mat a 0 br bi) * ⟨⟨p, -q⟩, 0, 0, ⟨p, q⟩⟩
      * adjC (toMat (su2Mat a 0 br bi)))
    (hr : (⟨(r4 p q).1, (r4 p q).2⟩ : ℂ) ^ 4 = ⟨p, q⟩)
    (cw : List Nat) (t : Nat) (cs : Option (List Bool)) (gs : List (SG ℝ)) (ms : List (MG ℝ ℝ))
    (hk : 2 ≤ cw.length) (hn : (cw ++ [t]).Nodup)
    (hm : mainReal (realOps r4 cosH sinH) u = false)
    (hs : secondaryReal (realOps r4 cosH sinH) u = false)
    (hg : ldmcsu (realOps r4 cosH sinH) u (⟨p, -q⟩, ⟨p, q⟩, su2Mat a 0 br bi) cw t cs = some gs)
    (hx : expandAll realAngles (fun x : ℝ => -x) gs = some ms) (ψ : State ℂ) :
    semMG toMat ms ψ = applyMcu (litsOf cw (cs.getD []).reverse) (toMat u) t ψ :=
  ldmcsu_eig_full_spec r4 cosH sinH u a br bi p q hV he hU hr cw t cs gs ms hk hn hm hs hg hx ψ

/-- Non-vacuity of the eigenbasis theorems: `V = [[4/5, 3/5], [-3/5, 4/5]]`, `e = 3/5 + 4i/5`,
`U = V·diag(conj e, e)·V† = [[3/5 − 28i/125, 96i/125], [96i/125, 3/5 + 28i/125]]` (both diagonals
non-real), five controls with pattern `10110`, target 5: the model emits a skeleton in the eigen
branch, the expansion exists, and it denotes `C^5(U)` with that pattern. -/
example (r4 : ℝ → ℝ → ℝ × ℝ) (cosH sinH : ℝ → ℝ)
    (hr : (⟨(r4 (3 / 5) (4 / 5)).1, (r4 (3 / 5) (4 / 5)).2⟩ : ℂ) ^ 4 = ⟨3 / 5, 4 / 5⟩)
    (ψ : State ℂ) :
    ∃ gs ms, ldmcsu (realOps r4 cosH sinH)
        (⟨⟨3 / 5, -(28 / 125)⟩, ⟨0, 96 / 125⟩, ⟨0, 96 / 125⟩, ⟨3 / 5, 28 / 125⟩⟩ : CMat ℝ)
        (⟨3 / 5, -(4 / 5)⟩, ⟨3 / 5, 4 / 5⟩, su2Mat (4 / 5) 0 (3 / 5) 0) [0, 1, 2, 3, 4] 5
        (some (parseCs "10110")) = some gs
      ∧ expandAll realAngles (fun x : ℝ => -x) gs = some ms
      ∧ semMG toMat ms ψ
          = applyMcu [(0, false), (1, true), (2, true), (3, false), (4, true)]
              (toMat (⟨⟨3 / 5, -(28 / 125)⟩, ⟨0, 96 / 125⟩, ⟨0, 96 / 125⟩, ⟨3 / 5, 28 / 125⟩⟩ :
                CMat ℝ)) 5 ψ := by
  have hm : mainReal (realOps r4 cosH sinH)
      (⟨⟨3 / 5, -(28 / 125)⟩, ⟨0, 96 / 125⟩, ⟨0, 96 / 125⟩, ⟨3 / 5, 28 / 125⟩⟩ : CMat ℝ) = false := by
    simp [mainReal, realOps]
  have hs : secondaryReal (realOps r4 cosH sinH)
      (⟨⟨3 / 5, -(28 / 125)⟩, ⟨0, 96 / 125⟩, ⟨0, 96 / 125⟩, ⟨3 / 5, 28 / 125⟩⟩ : CMat ℝ) = false := by
    simp [secondaryReal, realOps]
  obtain ⟨gs, hgs⟩ : ∃ gs, ldmcsu (realOps r4 cosH sinH)
      (⟨⟨3 / 5, -(28 / 125)⟩, ⟨0, 96 / 125⟩, ⟨0, 96 / 125⟩, ⟨3 / 5, 28 / 125⟩⟩ : CMat ℝ)
      (⟨3 / 5, -(4 / 5)⟩, ⟨3 / 5, 4 / 5⟩, su2Mat (4 / 5) 0 (3 / 5) 0) [0, 1, 2, 3, 4] 5
      (some (parseCs "10110")) = some gs := by
    have hu : ∀ m, unitaryOk (realOps r4 cosH sinH) m = true := fun m => by
      simp [unitaryOk, realOps]
    simp [ldmcsu, hm, hs, halfLinearDepthMcv, linearDepthMcv, unGate, hu]
  obtain ⟨ms, hms⟩ := C04_ldmcsu_eig_full_defined (Θ := ℝ) (realOps r4 cosH sinH) realAngles
    (fun x : ℝ => -x) _ _ [0, 1, 2, 3, 4] 5 (some (parseCs "10110")) gs (by decide) hm hs
    (by intro p hp; cases hp; decide) hgs
  refine ⟨gs, ms, hgs, hms, ?_⟩
  exact C04_ldmcsu_eig_spec r4 cosH sinH _ (4 / 5) (3 / 5) 0 (3 / 5) (4 / 5) (by norm_num)
    (by norm_num) eig_example_U hr [0, 1, 2, 3, 4] 5 (some (parseCs "10110")) gs ms (by decide)
    (by decide) hm hs hgs hms ψ

/-- Non-vacuity of `EigInv` with a non-trivial both-fire product, over `ℤ`. -/
example : EigInv (⟨1, 0, 0, -1⟩ : Mat2 Int) ⟨1, 1, 0, 1⟩ ⟨1, -1, 0, 1⟩ ⟨0, 1, 1, 0⟩ ⟨1, 0, 2, 1⟩
    ⟨1, 0, -2, 1⟩ := by
  constructor <;> apply Mat2.ext' <;> decide

end Qclib
