import QclibModel.Spec.Mcsu
import QclibModel.Proofs.McsuCtrl
import QclibModel.Proofs.McsuSlices
import QclibModel.Proofs.McsuCore
import QclibModel.Proofs.McsuGateA
import QclibModel.Proofs.McsuAbc
import QclibModel.Proofs.McsuMulti
import QclibModel.Proofs.McsuCircuit
import QclibModel.Proofs.McsuAbcReal
import QclibModel.Proofs.RotReal
/-
  C04 (part A) — the special-unitary multi-controlled gates `Ldmcsu`, `LdMcSpecialUnitary`,
  `MultiTargetMCSU2` and `apply_ctrl_state`.  Property theorems only; helper lemmas live in
  Proofs/Mcsu*.lean, the executable model in Model/Mcsu.lean (tied to the code by
  tools/props/c04.py).

  Reading guide.  `applyMcu lits U t` (Sem/Basic.lean) is the ideal operator of the property:
  "apply `U` to wire `t` iff every control literal `(wire, value)` of `lits` holds, identity
  otherwise", as a transformer of amplitude functions; equalities are for every state `ψ`
  (superposed controls and spectators included).  The dirty-ancilla MCX sub-circuits
  (`McxVchainDirty`, `LinearMcx`) enter these theorems as the ideal `applyMcu lits X t` — that the
  real sub-circuits denote it, with every borrowed qubit restored, is C05 (`C05_vchain`,
  `C05_linear`); `C04_slices` shows the wire lists handed to them satisfy C05's layout hypothesis.
-/
namespace Qclib
open Mcsu

/-- **C04_ctrl_state** (`apply_ctrl_state`, gates/util.py).  For every duplicate-free control
list `cw`, every pattern the code accepts (`r` = the string reversed, as the code reads it;
`zeroWires` = the wires that receive an `x`), every target `t` outside the controls and every
2×2 matrix `m` over a commutative ring: X layer · all-ones-controlled `m` · X layer is the gate
controlled on "control `cw[i]` reads `r[i]`" (controls beyond the string read 1), on every state. -/
theorem C04_ctrl_state {R : Type} [CommRing R] (cw : List Nat) (r : List Bool) (zs : List Nat)
    (hn : cw.Nodup) (h : zeroWires cw r = some zs) (m : Mat2 R) (t : Nat) (ht : t ∉ cw)
    (ψ : State R) :
    xLayer zs (applyMcu (allOnes cw) m t (xLayer zs ψ)) = applyMcu (litsOf cw r) m t ψ :=
  ctrl_state_conj cw r zs hn h m t ht ψ

/-- The same on basis labels: flipping the returned wires turns "all ones" into "reads the
pattern"; the returned wires are distinct controls. -/
theorem C04_ctrl_state_bits (cw : List Nat) (r : List Bool) (zs : List Nat) (hn : cw.Nodup)
    (h : zeroWires cw r = some zs) :
    (∀ z ∈ zs, z ∈ cw) ∧ zs.Nodup ∧
      ∀ b, ctrlOk (allOnes cw) (flipSet zs b) = ctrlOk (litsOf cw r) b :=
  zeroWires_spec cw r zs hn h

example : zeroWires [4, 7, 9] (parseCs "010").reverse = some [4, 9] := by decide
example : litsOf [4, 7, 9] (parseCs "010").reverse = [(4, false), (7, true), (9, false)] := by decide
/-- a `'0'` beyond the controls is the code's `IndexError` -/
example : zeroWires [4] (parseCs "01").reverse = none := by decide

/-- **C04_slices** (`linear_depth_mcv`, `half_linear_depth_mcv`, `clinear_depth_mcv`).  For every
control list `cw` with `k = |cw| ≥ 2` and target list `ts` such that `cw ++ ts` has no
duplicates:
* the wire list of each half-size MCX is controls ++ dirty ancillas ++ targets with exactly
  `k_i`, `k_i - 2` (truncated, i.e. `max(k_i-2,0)`) and `|ts|` wires — what `McxVchainDirty(k_i)`
  declares (`k_1 = ⌈k/2⌉`, `k_2 = ⌊k/2⌋`);
* each list is duplicate-free (controls vs ancillas vs targets pairwise different);
* the two control halves concatenate to the control register, the dirty ancillas of one half are
  controls of the other half;
* for every pattern string `cs`, reading the two pattern slices on the two halves gives the
  literals of the whole pattern on the whole register, and if `|cs| = k` the slices have lengths
  `k_1`, `k_2`. -/
theorem C04_slices (cw ts : List Nat) (hk : 2 ≤ cw.length) (hn : (cw ++ ts).Nodup) :
    (wires1 cw ts = ctl1 cw ++ anc1 cw ++ ts ∧ wires2 cw ts = ctl2 cw ++ anc2 cw ++ ts)
    ∧ ((ctl1 cw).length = k1 cw.length ∧ (anc1 cw).length = k1 cw.length - 2
        ∧ (ctl2 cw).length = k2 cw.length ∧ (anc2 cw).length = k2 cw.length - 2)
    ∧ ((wires1 cw ts).Nodup ∧ (wires2 cw ts).Nodup)
    ∧ (ctl1 cw ++ ctl2 cw = cw ∧ (∀ w ∈ anc1 cw, w ∈ ctl2 cw) ∧ (∀ w ∈ anc2 cw, w ∈ ctl1 cw))
    ∧ (∀ cs : List Bool,
        litsOf (ctl1 cw) (csK1 cs cw.length).reverse ++ litsOf (ctl2 cw) (csK2 cs cw.length).reverse
          = litsOf cw cs.reverse)
    ∧ (∀ cs : List Bool, cs.length = cw.length →
        (csK1 cs cw.length).length = k1 cw.length ∧ (csK2 cs cw.length).length = k2 cw.length) :=
  ⟨⟨rfl, rfl⟩,
   ⟨ctl1_length cw (by omega), anc1_length cw hk, ctl2_length cw, anc2_length cw hk⟩,
   ⟨wires1_nodup cw ts hn, wires2_nodup cw ts hn⟩,
   ⟨ctl1_append_ctl2 cw, anc1_subset cw, anc2_subset cw⟩,
   fun cs => pattern_split cw cs,
   fun cs h => pattern_lengths cs cw.length h⟩

example : wires1 [0, 1, 2, 3, 4, 5, 6] [7] = [0, 1, 2, 3, 4, 5, 7]
    ∧ wires2 [0, 1, 2, 3, 4, 5, 6] [7] = [4, 5, 6, 3, 7] := by decide
example : csK1 "0110100".toList 7 = "0100".toList ∧ csK2 "0110100".toList 7 = "011".toList := by
  decide

/-- **C04_ldmcsu_core** (Theorem 1 of arXiv:2302.06377 as coded in `linear_depth_mcv`).  Over any
commutative ring, for control-literal lists `l1`, `l2` not mentioning the target `t` and any 2×2
matrices with `A·A' = A'·A = 1`: the time-ordered sequence
`MCX₁, A, MCX₂, A', MCX₁, A, MCX₂, A'` (`MCX_i` = ideal X on `t` controlled on `l_i`; `MCX₂⁻¹ = MCX₂`)
equals the gate controlled on `l1 ++ l2` with matrix `(A'·X·A·X)²` (operator order) — i.e. the
target sees that product when both halves fire and the identity in the three other cases — for
every state `ψ`. -/
theorem C04_ldmcsu_core {R : Type} [CommRing R] (l1 l2 : List (Nat × Bool)) (t : Nat)
    (A A' : Mat2 R) (hA : A * A' = 1) (hA' : A' * A = 1) (h1 : Avoids l1 t) (h2 : Avoids l2 t)
    (ψ : State R) :
    applyMcu [] A' t (applyMcu l2 Mat2.X t (applyMcu [] A t (applyMcu l1 Mat2.X t
      (applyMcu [] A' t (applyMcu l2 Mat2.X t (applyMcu [] A t (applyMcu l1 Mat2.X t ψ)))))))
      = applyMcu (l1 ++ l2) (A' * Mat2.X * A * Mat2.X * (A' * Mat2.X * A * Mat2.X)) t ψ :=
  core_seq l1 l2 t A A' hA hA' h1 h2 ψ

/-- non-vacuity: an invertible integer matrix whose core product is not the identity -/
example : (⟨1, 1, 0, 1⟩ : Mat2 Int) * ⟨1, -1, 0, 1⟩ = 1
    ∧ coreW (⟨1, 1, 0, 1⟩ : Mat2 Int) ⟨1, -1, 0, 1⟩ = ⟨-1, -1, 1, 0⟩ := by
  constructor <;> apply Mat2.ext' <;> decide

/-- **C04_ldmcsu_circuit** (the model of `linear_depth_mcv`, `general_su2_optimization=False`).
For every `k ≥ 2` controls on pairwise different wires `cw`, a target `t` outside them and every
pattern `cs` (`none` = all ones): if the model emits a gate list `gs` (qiskit's `UnitaryGate`
accepted `op_a`), then — interpreting the two `McxVchainDirty` placements by the ideal MCX
(`IdealMv`: exactly the statement of `C05_vchain` for the wire lists of `C04_slices`) — `gs`
denotes "apply `(A' X A X)²` to the target iff the controls read the pattern" on every state;
`A`, `A'` are the images of the model's `op_a` and of its conjugate transpose, assumed mutually
inverse (`C04_gate_a` proves this, and `(A' X A X)² = U` resp. `H U H`, for the real instance). -/
theorem C04_ldmcsu_circuit {K R : Type} [CommRing R] (o : ROps K) (ι : CMat K → Mat2 R) (rh : R)
    (M : McxSem R) (hM : IdealMv M) (u : CMat K) (cw : List Nat) (t : Nat)
    (cs : Option (List Bool)) (gs : List (SG K)) (hk : 2 ≤ cw.length) (hn : (cw ++ [t]).Nodup)
    (hg : linearDepthMcv o u cw t cs false = some gs)
    (hA : ι (computeGateA o (getXZ o u).1 (getXZ o u).2)
        * ι (adj o (computeGateA o (getXZ o u).1 (getXZ o u).2)) = 1)
    (hA' : ι (adj o (computeGateA o (getXZ o u).1 (getXZ o u).2))
        * ι (computeGateA o (getXZ o u).1 (getXZ o u).2) = 1)
    (ψ : State R) :
    semSG ι rh M gs ψ
      = applyMcu (litsOf cw (cs.getD []).reverse)
          (coreW (ι (computeGateA o (getXZ o u).1 (getXZ o u).2))
            (ι (adj o (computeGateA o (getXZ o u).1 (getXZ o u).2)))) t ψ :=
  linearDepthMcv_sem o ι rh M hM u cw t cs gs hk hn hg hA hA' ψ

/-- non-vacuity of `IdealMv`: the interpretation that reads controls and target off the wire
list satisfies it -/
example : IdealMv (R := Int)
    ⟨fun k _ ws cs _ _ => applyMcu (litsOf (ws.take k) (cs.getD []).reverse) Mat2.X (ws.getD (k + (k - 2)) 0),
     fun _ _ _ _ ψ => ψ⟩ := by
  intro cw anc t cs inv ψ _ ha _
  have e1 : (cw ++ anc ++ [t]).take cw.length = cw := by simp
  have e2 : (cw ++ anc ++ [t]).getD (cw.length + (cw.length - 2)) 0 = t := by
    rw [← ha, ← List.length_append]; simp
  simp only [e1, e2]

/-- **C04_gate_a** (`Ldmcsu._compute_gate_a`, branch `x ≠ 0`), over `ℝ`/`ℂ` with `Real.sqrt`.
For real `x ≠ 0` and `z = p + iq` with `x² + |z|² = 1`:
* the point where the code divides by zero, `Re z = -1`, is not reached (`0 < Re z + 1`); the
  model computes `1 + Re z` the way the code does (as `(x² + Im z²)/(1 - Re z)` when `Re z < 0`,
  which avoids the floating-point cancellation near `-I`; in exact arithmetic it is `1 + Re z`);
* the matrix `A = [[α, -β], [β, conj α]]` the model computes is unitary;
* the both-halves-fire product `(A† X A X)²` is `[[conj z, x], [-x, z]]`, which is `U` itself
  when `(x, z)` come from `_get_x_z` (see `C04_h_conj`). -/
theorem C04_gate_a (r4 : ℝ → ℝ → ℝ × ℝ) (cosH sinH : ℝ → ℝ) (x p q : ℝ)
    (hn : x ^ 2 + (p ^ 2 + q ^ 2) = 1) (hx : x ≠ 0) :
    0 < p + 1 ∧
    (let A := toMat (computeGateA (realOps r4 cosH sinH) x ⟨p, q⟩)
     A * adjC A = 1 ∧ adjC A * A = 1 ∧ coreW A (adjC A) = wMat x ⟨p, q⟩) :=
  ⟨re_gt_of_x_ne x p q (by linarith) hx, gate_a_general r4 cosH sinH x p q hn hx⟩

/-- **C04_gate_a, branch `x = 0`** (`alpha = z ** (1/4)`, `beta = 0`).  Given the specification
of the principal fourth root on this input (`alpha⁴ = z`; a K4 input of the model) and `|z| = 1`,
the diagonal gate is unitary and `(A† X A X)² = diag(conj z, z)`.  `U = -I` (real diagonals,
`x = 0`, `z = -1`) takes this branch, so the excluded point of the other branch is reached only by
floating-point inputs with `x` tiny but non-zero. -/
theorem C04_gate_a_diag (r4 : ℝ → ℝ → ℝ × ℝ) (cosH sinH : ℝ → ℝ) (p q : ℝ)
    (hn : p ^ 2 + q ^ 2 = 1) (hr : (⟨(r4 p q).1, (r4 p q).2⟩ : ℂ) ^ 4 = ⟨p, q⟩) :
    let A := toMat (computeGateA (realOps r4 cosH sinH) 0 ⟨p, q⟩)
    A * adjC A = 1 ∧ adjC A * A = 1 ∧ coreW A (adjC A) = wMat 0 ⟨p, q⟩ := by
  have := gate_a_diag r4 cosH sinH p q hn hr
  refine ⟨this.1, this.2.1, ?_⟩
  rw [this.2.2]
  apply Mat2.ext' <;> apply Complex.ext <;> simp [wMat]

/-- non-vacuity: `x = 3/5`, `z = 4/5`; and `z = -1` with the fourth root `e^{iπ/4}`-like pair
replaced by the exact root `i` of `z = 1`… (here: `z = 1`, root `1`) -/
example : ((3 : ℝ) / 5) ^ 2 + (((4 : ℝ) / 5) ^ 2 + 0 ^ 2) = 1 ∧ ((3 : ℝ) / 5) ≠ 0 := by norm_num
example : ((⟨1, 0⟩ : ℂ)) ^ 4 = ⟨1, 0⟩ := by
  apply Complex.ext <;> simp [pow_succ, Complex.mul_re, Complex.mul_im]

/-- **C04_h_conj** (`_get_x_z` and the H sandwich of `_define`).  For an SU(2) matrix
`U = [[a, b], [-conj b, conj a]]`:
* if `b` is real, `_get_x_z U = (b, conj a)` and `U = [[conj z, x], [-x, z]]` for that pair;
* if `a` is real and `b` is not, `_get_x_z U = (-Re b, a - i·Im b)` and
  `H·U·H = [[conj z, x], [-x, z]]` for that pair (`H` = Hadamard with `2·rh² = 1`);
in both cases `x² + |z|² = |a|² + |b|²` (`= 1`), the hypothesis of `C04_gate_a`. -/
theorem C04_h_conj (r4 : ℝ → ℝ → ℝ × ℝ) (cosH sinH : ℝ → ℝ) (ar ai br bi : ℝ) (rh : ℂ)
    (hrh : 2 * (rh * rh) = 1) :
    (let u := su2Mat ar ai br 0
     let xz := getXZ (realOps r4 cosH sinH) u
     xz = (br, ⟨ar, -ai⟩) ∧ toMat u = wMat xz.1 xz.2
       ∧ xz.1 ^ 2 + (xz.2.re ^ 2 + xz.2.im ^ 2) = ar ^ 2 + ai ^ 2 + br ^ 2)
    ∧ (bi ≠ 0 →
     let u := su2Mat ar 0 br bi
     let xz := getXZ (realOps r4 cosH sinH) u
     let H : Mat2 ℂ := ⟨rh, rh, rh, -rh⟩
     xz = (-br, ⟨ar, -bi⟩) ∧ H * toMat u * H = wMat xz.1 xz.2
       ∧ xz.1 ^ 2 + (xz.2.re ^ 2 + xz.2.im ^ 2) = ar ^ 2 + (br ^ 2 + bi ^ 2)) :=
  ⟨get_x_z_secondary r4 cosH sinH ar ai br, fun hb => h_conj r4 cosH sinH ar br bi hb rh hrh⟩

/-- **C04_abc** (`get_abc_operators` + `_apply_abc`).  In any commutative ring with the rotation
laws (instance `ℝ → ℂ`: Proofs/RotReal.lean) and `half` = halving of angles: for the ZYZ angles
`(β, γ, δ) = (phi, theta, lam)`, `A·B·C = I` and `A·X·B·X·C = RZ(β)·RY(γ)·RZ(δ)`; and for any
`A B C` with `A·B·C = I` the circuits `C, MCX, B, MCX, A` (fewer than three controls) and
`C^anc, MCX_rest, B^anc, MCX_rest, A^anc` (`anc` = last control, at least three controls) denote
the gate controlled on all controls with matrix `A·X·B·X·C`, on every state. -/
theorem C04_abc {Θ R : Type} [AddCommGroup Θ] [CommRing R] [RotSem Θ R] [RotLaws Θ R]
    (half : Θ → Θ) (hh : IsHalf half) (β γ δ : Θ) :
    ((abcA half β γ : Mat2 R) * abcB half β γ δ * abcC half β δ = 1
      ∧ (abcA half β γ : Mat2 R) * Mat2.X * abcB half β γ δ * Mat2.X * abcC half β δ
          = matRZ β * matRY γ * matRZ δ)
    ∧ (∀ (l : List (Nat × Bool)) (anc : Nat × Bool) (t : Nat) (A B C : Mat2 R),
        A * B * C = 1 → Avoids l t → anc.1 ≠ t → ∀ ψ : State R,
        applyMcu [] A t (applyMcu l Mat2.X t (applyMcu [] B t (applyMcu l Mat2.X t
            (applyMcu [] C t ψ)))) = applyMcu l (A * Mat2.X * B * Mat2.X * C) t ψ
        ∧ applyMcu [anc] A t (applyMcu l Mat2.X t (applyMcu [anc] B t (applyMcu l Mat2.X t
            (applyMcu [anc] C t ψ)))) = applyMcu (l ++ [anc]) (A * Mat2.X * B * Mat2.X * C) t ψ) :=
  ⟨⟨abc_one hh β γ δ, abc_u hh β γ δ⟩,
   fun l anc t A B C habc hl ha ψ => ⟨abc_seq l t A B C habc hl ψ, abc_seq2 l anc t A B C habc hl ha ψ⟩⟩

/-- **C04_abc for the executable model.**  The matrices `get_abc_operators` of the model computes
in its real instance (`cos (θ/2)`, `sin (θ/2)`), read as complex matrices, satisfy `A·B·C = I` and
`A·X·B·X·C = RZ(β)·RY(γ)·RZ(δ)` (`= U` by the `_params_zyz` specification, a K4 input). -/
theorem C04_abc_model (r4 : ℝ → ℝ → ℝ × ℝ) (β γ δ : ℝ) :
    let r := abcOperators (trigOps r4) β γ δ
    toMat r.1 * toMat r.2.1 * toMat r.2.2 = 1
      ∧ toMat r.1 * Mat2.X * toMat r.2.1 * Mat2.X * toMat r.2.2
          = (matRZ β : Mat2 ℂ) * matRY γ * matRZ δ := by
  intro r
  have hh : IsHalf (fun a : ℝ => a / 2) := ⟨fun a b => by ring, fun a => by ring⟩
  obtain ⟨e1, e2, e3⟩ := abcOperators_eq r4 β γ δ
  rw [e1, e2, e3]
  exact ⟨abc_one hh β γ δ, abc_u hh β γ δ⟩

/-- non-vacuity: halving of real angles, with the `ℝ → ℂ` rotation instance -/
example : IsHalf (fun a : ℝ => a / 2) := ⟨fun a b => by ring, fun a => by ring⟩
noncomputable example : RotLaws ℝ ℂ := inferInstance

/-- **C04_multitarget** (`MultiTargetMCSU2.clinear_depth_mcv`).  For targets on pairwise
different wires outside the controls, each with its own `A_j`, `A_j'` (`A_j·A_j' = A_j'·A_j = 1`):
the shared-control chain `MCX₁(all targets), A_j's, MCX₂, A_j'⁻¹s, MCX₁, A_j's, MCX₂, A_j'⁻¹s` (each
MCX the ideal X on every target under the half's literals) applies to each target its own
`(A_j' X A_j X)²` controlled on `l1 ++ l2` — on every state. -/
theorem C04_multitarget {R : Type} [CommRing R] (l1 l2 : List (Nat × Bool)) (G : List (Tgt R))
    (h : TgtOk l1 l2 G) (ψ : State R) :
    multiSeq l1 l2 G ψ = G.foldl (fun s g => applyMcu (l1 ++ l2) (coreW g.A g.A') g.t s) ψ :=
  multi_seq l1 l2 G h ψ

example : TgtOk [(0, true)] [(1, false)] [(⟨⟨1, 1, 0, 1⟩, ⟨1, -1, 0, 1⟩, 2⟩ : Tgt Int),
    ⟨⟨1, 0, 2, 1⟩, ⟨1, 0, -2, 1⟩, 3⟩] :=
  ⟨by decide, by intro g hg; simp at hg; rcases hg with rfl | rfl <;> intro cv hcv <;> simp at hcv <;> simp [hcv],
   by intro g hg; simp at hg; rcases hg with rfl | rfl <;> intro cv hcv <;> simp at hcv <;> simp [hcv],
   by intro g hg; simp at hg; rcases hg with rfl | rfl <;>
     exact ⟨by apply Mat2.ext' <;> decide, by apply Mat2.ext' <;> decide⟩⟩

end Qclib
