import QclibModel.Proofs.SparseTrack
import QclibModel.Proofs.SparseReal
import QclibModel.Proofs.SparseCvoAmp
import QclibModel.Proofs.SparseOrder
import QclibModel.Proofs.SparseSelect
import QclibModel.Proofs.SparseSearch
import QclibModel.Proofs.SparsePivotProof
/-
  C06 — sparse state preparation (merge.py, pivot.py, cvoqram.py).
  Property theorems only; models in Model/Sparse*.lean, proofs in Proofs/Sparse*.lean.
-/
namespace Qclib
open Qclib.Sparse

/-- **C06 (tracking).**  For every key `s` (any length), every state `ψ` and every gate the merge
generator emits while it relabels its dictionary: the amplitude that `ψ` has on the basis label of
`s` is, after the gate, on the label of the tracked string — `_compute_op_x(s, q)` for `x q`,
`_compute_op_cx(s, [c, t])` for `cx c t` — and the tracked string keeps its length.  So the tracked
dictionary *is* the relabelled support of the state. -/
theorem C06_track {Θ R : Type} [CommRing R] [RotSem Θ R] (s : Str) (ψ : State R) :
    (∀ q, q < s.length →
        denote (G.x q : G Θ) ψ (lab (computeOpX s q)) = ψ (lab s)
        ∧ (computeOpX s q).length = s.length) ∧
    (∀ c t, t < s.length → c ≠ t →
        denote (G.cx c t : G Θ) ψ (lab (computeOpCx s c t)) = ψ (lab s)
        ∧ (computeOpCx s c t).length = s.length) := by
  constructor
  · intro q hq
    refine ⟨?_, computeOpX_length s q hq⟩
    rw [denote_x, lab_computeOpX s q hq, flipBit_flipBit]
  · intro c t ht hct
    refine ⟨?_, computeOpCx_length s c t ht⟩
    rw [denote_cx, lab_computeOpCx s c t ht]
    by_cases h : lab s c = true
    · have hc : flipBit (lab s) t c = true := by rw [flipBit_ne _ hct]; exact h
      simp only [h, if_true, hc, flipBit_flipBit]
    · rw [if_neg h, if_neg h]

example : computeOpCx [true, false, true] 0 2 = [true, false, false]
    ∧ computeOpX [true, false, true] 1 = [true, true, true] := by decide

/-- **C06 (the merge search terminates).**  In `_bit_string_search` the list kept for the next
round (`t_0` or `t_1` of `_maximizing_difference_bit_search`) is strictly shorter than the current
one whenever the loop condition `len(temp_strings) > 1` holds — this is the well-founded measure
with which the model's `bitStringSearch` is defined. -/
theorem C06_search_terminates (strs : List Str) (dq : List Nat) (h : strs.length > 1) :
    (maxDiffBitSearch strs dq).2.1.length < strs.length ∧
    (maxDiffBitSearch strs dq).2.2.length < strs.length :=
  maxDiff_shrinks strs dq h

example : maxDiffBitSearch [[false, false], [false, true], [true, true]] []
    = (0, [[false, false], [false, true]], [[true, true]]) := by decide

/-- **C06 (merge rotation).**  Let `(θ, φ, λ) = _compute_angles(a₁, a₂)` and `N = ‖(a₁, a₂)‖ > 0`
(`a₁` the amplitude of the string with `1` on the target, `a₂` with `0`).  The gate `U(θ,φ,λ)`
placed by `_merge` — which stays as it is under the final `reverse_ops` — sends `N|1⟩` to
`a₂|0⟩ + a₁|1⟩`: second column of the matrix times `N` is `(a₂, a₁)`.
Complex branch (some amplitude is a Python `complex`): no further hypothesis.
Real branch (both are real scalars, which in `MergeInitialize` are always norms of earlier
merges): needs `a₁ ≥ 0`; for `a₁ < 0` the formula would load `|a₁|`. -/
theorem C06_merge_rot (a1 a2 : Amp ℝ) (hN : 0 < normAmp a1 a2)
    (hreal : (a1.cplx || a2.cplx) = false → a1.im = 0 ∧ a2.im = 0 ∧ 0 ≤ a1.re) :
    (matU (mergeAngles a1 a2).1 (mergeAngles a1 a2).2.1 (mergeAngles a1 a2).2.2 : Mat2 ℂ).b
        * ((normAmp a1 a2 : ℝ) : ℂ) = a2.toC ∧
    (matU (mergeAngles a1 a2).1 (mergeAngles a1 a2).2.1 (mergeAngles a1 a2).2.2 : Mat2 ℂ).d
        * ((normAmp a1 a2 : ℝ) : ℂ) = a1.toC := by
  cases hc : (a1.cplx || a2.cplx)
  · obtain ⟨h1, h2, h3⟩ := hreal hc
    exact merge_rot_real a1 a2 hc h1 h2 h3 hN
  · exact merge_rot_complex a1 a2 hc hN

example : 0 < normAmp (⟨3, 4, true⟩ : Amp ℝ) ⟨0, -1, true⟩ := by
  show 0 < Real.sqrt ((3 * 3 + 4 * 4) + (0 * 0 + (-1) * (-1)))
  exact Real.sqrt_pos.mpr (by norm_num)

/-- **C06 (CVO-QRAM order).**  Let the patterns be distinct `n`-bit strings sorted by
non-decreasing number of ones.  Then for every earlier pattern `pᵢ` and later pattern `pⱼ`:
on any basis label whose memory register carries `pᵢ` the control literals of the rotation that
loads `pⱼ` (the memory wires of the ones of `pⱼ`, as `_select_controls` lists them) are **not**
all satisfied, while on a label carrying `pⱼ` itself (the flag branch after the flip-flop) they
are.  With or without auxiliaries (only the wire offsets differ). -/
theorem C06_cvo_order (n : Nat) (aux : Bool) (ps : List Str) (hlen : ∀ p ∈ ps, p.length = n)
    (hnd : ps.Pairwise (· ≠ ·)) (hs : ps.Pairwise (fun a b => weight a ≤ weight b)) :
    ps.Pairwise (fun pi pj => ∀ b : Bits, carries n aux pi b → ctrlOk (cvoCtrl n aux pj) b = false)
    ∧ ∀ p ∈ ps, ∀ b : Bits, carries n aux p b → ctrlOk (cvoCtrl n aux p) b = true := by
  constructor
  · refine (order_witness n ps hlen hnd hs).imp_of_mem ?_
    intro a b ha hb hw β hβ
    exact cvo_not_fires n aux a b (hlen a ha) (hlen b hb) hw β hβ
  · intro p hp b hb
    exact cvo_fires_own n aux p (hlen p hp) b hb

example : [[false, false, true], [true, false, false], [true, true, false]].Pairwise
    (fun a b => weight a ≤ weight b) := by decide

/-- **C06 (CVO-QRAM amplitude recurrence).**  For a complex feature `x ≠ 0` with
`|x|² ≤ norm` (the probability mass not yet loaded), `(α, β, φ) = _compute_matrix_angles(x, norm)`:
the rotation `U(α,β,φ)` on the flag, applied to the flag branch `√norm·|1⟩`, puts exactly `x` on
`|0⟩` (the loaded pattern) and leaves `√(norm − |x|²)` on the flag; the running norm becomes
`norm − |x|²`.  Hence the flag amplitude is `√(1 − Σ_{i≤j}|xᵢ|²)` after pattern `j` and `0` after
the last one of a unit vector. -/
theorem C06_cvo_amp (x : Amp ℝ) (hx : x.cplx = true) (norm : ℝ)
    (hp : 0 < x.re ^ 2 + x.im ^ 2) (hle : x.re ^ 2 + x.im ^ 2 ≤ norm) :
    (matU (cvoAngles x norm).1 (cvoAngles x norm).2.1 (cvoAngles x norm).2.2 : Mat2 ℂ).b
        * ((Real.sqrt norm : ℝ) : ℂ) = x.toC ∧
    (matU (cvoAngles x norm).1 (cvoAngles x norm).2.1 (cvoAngles x norm).2.2 : Mat2 ℂ).d
        * ((Real.sqrt norm : ℝ) : ℂ) = ((Real.sqrt (norm - (x.re ^ 2 + x.im ^ 2)) : ℝ) : ℂ) ∧
    normNext x norm = norm - (x.re ^ 2 + x.im ^ 2) :=
  cvo_rot x hx norm hp hle

example : (0 : ℝ) < (3 / 5 : ℝ) ^ 2 + (0 : ℝ) ^ 2 ∧ (3 / 5 : ℝ) ^ 2 + (0 : ℝ) ^ 2 ≤ 1 := by
  norm_num

/-- **C06 (merge selection: the merge touches exactly the pair).**  For every `n` and every
dictionary of `m ≥ 2` distinct `n`-bit keys (`d.keys = keys`):
* `_select_strings` succeeds (no `IndexError`), returning `(bitstr1, bitstr2, dif, dif_qubits)` with
  both strings keys of the dictionary, different on `dif`, `dif ∉ dif_qubits`, all positions `< n`
  (proved by induction over `_bit_string_search`: the string found is the **only** key matching
  `dif_values` on `dif_qubits`);
* `_preprocess_states` then relabels `bitstr1`, `bitstr2` and *every* dictionary key by one and the
  same map `f` (a composition of the emitted `x`/`cx` gates, cf. C06_track) that is injective on the
  keys (the bookkeeping never merges two amplitudes) and length preserving;
* afterwards the two strings carry `1` resp. `0` on `dif` and agree on every other position, and
  the control literals "all `dif_qubits` are 1" of the multi-controlled merge gate hold on the
  label of a key **iff** that key is `bitstr1` or `bitstr2`: the merge touches exactly the pair. -/
theorem C06_merge_select {α : Type} (n : Nat) (keys : List Str) (hnd : keys.Nodup)
    (hlen : ∀ k ∈ keys, k.length = n) (h2 : keys.length ≥ 2)
    (d : Dict α) (g : List (SG α)) (e : List (MEv α)) :
    ∃ b1 b2 dif dq, selectStrings keys = some (b1, b2, dif, dq) ∧
      b1 ∈ keys ∧ b2 ∈ keys ∧ b1 ≠ b2 ∧ dif < n ∧ dif ∉ dq ∧ (∀ q ∈ dq, q < n) ∧
      ∃ f : Str → Str,
        (preprocess ⟨b1, b2, d, g, e⟩ dif dq).d = d.mapKeys f ∧
        (preprocess ⟨b1, b2, d, g, e⟩ dif dq).b1 = f b1 ∧
        (preprocess ⟨b1, b2, d, g, e⟩ dif dq).b2 = f b2 ∧
        (∀ k ∈ keys, ∀ k' ∈ keys, f k = f k' → k = k') ∧
        (∀ k ∈ keys, (f k).length = n) ∧
        (∀ k ∈ keys, ctrlOk (dq.map (fun q => (q, true))) (lab (f k)) = true ↔ (k = b1 ∨ k = b2)) ∧
        bitAt (f b1) dif = true ∧ bitAt (f b2) dif = false ∧
        (∀ j, j ≠ dif → bitAt (f b1) j = bitAt (f b2) j) := by
  obtain ⟨b1, b2, dif, dq, hsel, hb1, hb2, hdn, hdq, hqn, hdiff, U1, U2⟩ :=
    select_spec n keys hnd hlen h2
  refine ⟨b1, b2, dif, dq, hsel, hb1, hb2, ?_, hdn, hdq, hqn,
    merge_pair_only n keys hlen b1 b2 hb1 hb2 dif dq hdn hdq hqn hdiff U1 U2 d g e⟩
  intro e'; apply hdiff; rw [e']

example : ([[false, false, true], [false, true, true], [true, true, false]] : List Str).Nodup
    ∧ ∀ k ∈ ([[false, false, true], [false, true, true], [true, true, false]] : List Str),
        k.length = 3 := by decide

/-- **C06 (pivot step), proved part.**  For every `n`, `t ≤ n`, pivot `index_nonzero` outside the low
block and free low-block index `index_zero`:
(1) the model's `_pivoting` finds `index_differ` among the high positions with
`ctrl_state = index_nonzero[index_differ]`, `target_cx` = the other differing positions, and its
new state is `_next_state` for that choice;
(2) `_next_state` sends `index_nonzero` to `index_zero`;
(3) it leaves every low-block key other than `index_zero` where it is (so the pivot never collides
with an amplitude already in place, and the number of keys outside the low block strictly
decreases);
(4) every key keeps its length;
(5) when the loop exits (`_get_index_nz` is `None`) every key is an integer `< 2^t`: the dense
hand-off on `t = ⌈log₂ m⌉` qubits loses nothing.
Not proved here (tied by the gate-list/dictionary diff and the oracle instead): that `_next_state`
equals the reversible evaluation of the emitted CX-fan / X-sandwich / MCX on keys *outside* the
low block other than the pivot, and that it is injective on those keys; that `_get_index_zero`
always finds a free low-block index (pigeonhole). -/
theorem C06_pivot_step_partial {α : Type} (n t : Nat) (ht : t ≤ n) (aux : Bool) (nz zero : Str)
    (st : Dict α) (hnz : nz.length = n) (hz : zero.length = n) (hzlow : inLow n t zero)
    (hnzhigh : ¬ inLow n t nz) :
    (∃ c : PivotChoice n t nz zero,
      (pivoting n t aux nz zero st).2.st = nextState c.d c.cv c.tcx (n - t) zero st ∧
      (pivoting n t aux nz zero st).2.differ = c.d ∧ (pivoting n t aux nz zero st).2.cv = c.cv ∧
      nextKey c.d c.cv c.tcx (n - t) zero nz = zero ∧
      (∀ s : Str, s.length = n → inLow n t s → s ≠ zero →
        nextKey c.d c.cv c.tcx (n - t) zero s = s) ∧
      (∀ s : Str, s.length = n → (nextKey c.d c.cv c.tcx (n - t) zero s).length = n)) ∧
    (∀ st' : Dict α, (∀ k ∈ st'.keys, k.length = n) → getIndexNz (n - t) st' = none →
      ∀ k ∈ st'.keys, strToNat k < 2 ^ t) := by
  constructor
  · obtain ⟨c, h1, h2, h3⟩ := pivoting_choice n t aux nz zero st hzlow hnzhigh
    refine ⟨c, h1, h2, h3, nextKey_pivot n t nz zero hnz hz c, ?_, ?_⟩
    · intro s hs hlow hne
      exact nextKey_low_fixed n t nz zero hz hzlow c s hs hlow hne
    · intro s hs
      rw [nextKey_length _ _ _ _ _ _ (by have := c.hd; omega), hs]
  · intro st' hlen hexit
    exact exit_all_low n t ht st' hlen hexit

example : inLow 3 1 [false, false, true] ∧ ¬ inLow 3 1 [true, false, true] := by
  constructor
  · intro i hi
    have : i = 0 ∨ i = 1 := by omega
    rcases this with rfl | rfl <;> rfl
  · intro h; exact absurd (h 0 (by omega)) (by decide)

end Qclib
